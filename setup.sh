#!/bin/bash
# MANIFEST.setup_cmd: build the whole Coq development from files on disk (offline), full .vo build.
set -e
cd "$(dirname "$0")"
export PYTHONPATH="${VERIF_REPO:-/repo}" PYTHONHASHSEED=0 PYTHONWARNINGS=ignore
mkdir -p build coq/gen evidence
# 1. regenerate the translated models from the tree under test (T-route)
if [ -f tools/translate/run.py ]; then
  /venv/bin/python -W ignore -B tools/translate/run.py --all
fi
# 2. full build
cd coq
{ echo "-Q theories Typhon"; echo "-Q gen TyphonGen"; find theories gen -name '*.v' | sort; } > _CoqProject
coq_makefile -f _CoqProject -o Makefile > /dev/null
timeout 3000 make -k -j16 > ../build/setup_make.log 2>&1 || echo "WARNING: some Coq files did not compile (the checks that depend on them will report it); see build/setup_make.log"
tail -3 ../build/setup_make.log
cd ..
# 3. source gate: no Admitted / Axiom / Parameter / ... anywhere
/venv/bin/python -B - <<'PY'
import sys
sys.path.insert(0, 'tools')
from lib import core
bad = core.gate()
for b in bad:
    print("GATE", b)
sys.exit(0)   # a gate failure is reported by every check; setup itself stays usable
PY
echo "setup ok"
