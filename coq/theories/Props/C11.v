(* C11 -- property theorems. This file holds ONLY statements, `exact <lemma>`, a non-vacuity example and
   Print Assumptions.  Model: Model/C11_fsops.v (a disk is a finite map path -> content; write / read / collect /
   find / move / copy / convert / delete / dry run of FileSet; file names by Model/C02_template.v render / info;
   the compression format of a name as in files/utils.py).  Handlers (enc/dec, indexed by handler and by
   write_args / read_args) and codecs (pack/unpack) are Section variables; `codec_ok` is the only thing assumed of
   them and only where it is written.

   Reading the statements: `dlook p d` = the content of path p on disk d (None = no such file);
   `find F sl d = Good es` = the files the selection sl (period [start, stop), white list, black list, or an
   explicit list) picks from fileset F; `target G en` = the name the template of G generates from the times and the
   placeholder values of file en.

   written_is_found covers every way of spelling the end that C02 proves: a complete end (written_is_found), only
   sub-day end fields (written_is_found_partial, written_is_found_exact: hypotheses exactly those of
   C02.roundtrip_end_partial / roundtrip_end_partial_exact), no end fields (written_is_found_no_end); the harness
   evaluates written_is_found_law per write.  An explicit selection that is empty selects nothing
   (empty_selection_noop), and the arguments of a single call (read_with_args, write_with_args) are merged into a new
   dictionary for that call: the FileSet object keeps its defaults over every history of calls (calls_keep_object,
   args_do_not_stick).

   A move with conversion that FAILS for some of the selected files (the user's convert function raises for an object,
   the handler of the target cannot store it) conserves the files too: move_failure_conserves -- every selected file is
   afterwards either moved (converted content under its target name, original removed unless copy) or untouched at
   its source with nothing under its target name; a file whose conversion fails is of the second kind; no other path
   changes.  WHICH of the files that could be converted have been moved when move() raises is NOT determined (the
   workers of FileSet.map run in parallel): `done` is universally quantified.  move_given_sound is the form the
   harness evaluates on the tree observed after such a move; move_sequential the special case of one worker.

   post_reader is `callable(file_info, file_data)`: in the model a function of the ENTRY of the file and of the data.
   read_applies_post_reader_to_own_entry: read(file_info) = post_reader applied to the FileInfo the caller handed in and
   to what the handler returns for the (decompressed) content; the same through fileset[t] (get_applies_...: the entry
   the generated name parses to), collect / icollect / fileset[s:e] (collect_applies_...: each file with its own
   entry, which is the one find() reports) and move(convert=f) (convert_applies_...: f receives post_reader of the
   SOURCE file's entry); decompression_is_transparent: the handler's output does not depend on whether the file is
   stored compressed, so the only thing that differs is the entry -- the file's own, never a temporary file's.

   A copy is an independent file (copy_is_independent): after move(copy=True) a later write to the original leaves the
   copy's content as it is and vice versa -- the disk is a map path -> content; an implementation whose copy shares its
   storage with the original (a hard link) is not a refinement of it, which the harness observes by overwriting in place.

   NOT PROVED (named gaps):
     * end-field sets other than none / as complete as the start / a sub-day suffix (not proved in C02 either).
     * the order in which worker threads / processes of FileSet.map treat the selected files (property C10): the model
       treats them one after the other; under the hypotheses of move_conserves (distinct fresh targets) the
       result does not depend on the order, which is proved only implicitly (the statement is pointwise). *)
From Coq Require Import ZArith List Bool Ascii String.
From Typhon Require Import Base.Calendar Base.CalendarProofs Model.C02_template Proofs.C02_template
                           Model.C11_fsops Proofs.C11_fsops.
Import ListNotations.
Open Scope Z_scope.

Section Statements.
Variables Data Bytes : Type.
Variable enc : Z -> Z -> Data -> option Bytes.
Variable dec : Z -> Z -> Bytes -> option Data.
Variable pack : str -> Bytes -> Bytes.
Variable unpack : str -> Bytes -> option Bytes.
Notation disk := (list (str * Bytes)).
Notation fset := (@fset Data).
Notation codec_ok := (codec_ok Data Bytes enc dec pack unpack).
Notation write_file := (write_file Data Bytes enc pack).
Notation read_file := (read_file Data Bytes dec unpack).
Notation decode := (decode Data Bytes dec unpack).
Notation recode := (recode Data Bytes enc dec pack unpack).
Notation move := (move Data Bytes enc dec pack unpack).
Notation delete := (delete Data Bytes).
Notation find := (find Data Bytes).
Notation entries := (entries Data Bytes).
Notation step := (step Data Bytes enc dec pack unpack).
Notation run := (run Data Bytes enc dec pack unpack).
Notation touched := (touched Data Bytes).
Notation moved := (moved Data Bytes enc dec pack unpack).
Notation new_content := (new_content Data Bytes enc dec pack unpack).
Notation untouched := (untouched Data Bytes enc dec pack unpack).
Notation entry_of := (entry_of Data).
Notation move1p := (move1p Data Bytes enc dec pack unpack).
Notation move_part := (move_part Data Bytes enc dec pack unpack).
Notation movep := (movep Data Bytes enc dec pack unpack).
Notation move_given := (move_given Data Bytes enc dec pack unpack).
Notation new_contentp := (new_contentp Data Bytes enc dec pack unpack).

(* CORE (DESIGN section 10, rung 2).  move / copy, with or without conversion: when the names the target template
   generates for the selected files are pairwise distinct and do not exist yet, then after a move that did not raise
   EVERY selected file en has its content under exactly the name q = target G en (the same bytes, or -- convert --
   the bytes obtained by reading through F, applying the user's function and writing through G), the original is
   still there iff copy, and NO other path of the disk has changed. *)
Theorem move_conserves : forall (F G : fset) copy conv sl (d d' : disk) es qs,
  find F sl d = Good es ->
  Forall2 (fun en q => target G en = Ok q) es qs ->
  NoDup (map e_path es) -> NoDup qs ->
  (forall q, In q qs -> dlook q d = None) ->
  (forall en, In en es -> dlook (e_path en) d <> None) ->
  move F G copy conv sl d = Good d' ->
  Forall2 (fun en q =>
             target G en = Ok q /\
             exists b c, dlook (e_path en) d = Some b /\ new_content F G conv en q b = Good c /\
                         dlook q d' = Some c /\ dlook (e_path en) d' = (if copy then Some b else None)) es qs /\
  (forall r, ~ In r (map e_path es) -> ~ In r qs -> dlook r d' = dlook r d).
Proof. exact (move_conserves_thm Data Bytes enc dec pack unpack). Qed.

(* the same for a selection by period and filters on a disk with unique names: the conditions on the sources hold
   by themselves, only the target names have to be distinct and fresh *)
Theorem move_conserves_period : forall (F G : fset) copy conv sl (d d' : disk) qs,
  s_files sl = None -> NoDup (paths d) ->
  Forall2 (fun en q => target G en = Ok q) (entries F sl d) qs ->
  NoDup qs -> (forall q, In q qs -> dlook q d = None) ->
  move F G copy conv sl d = Good d' ->
  Forall2 (moved F G copy conv d d') (entries F sl d) qs /\
  (forall r, ~ In r (map e_path (entries F sl d)) -> ~ In r qs -> dlook r d' = dlook r d).
Proof. exact (move_conserves_period_thm Data Bytes enc dec pack unpack). Qed.

(* progress: under the same conditions a move whose files can all be read and re-written does not raise
   (so move_conserves is not about an empty set of runs) *)
Theorem move_succeeds : forall (F G : fset) copy conv es qs (d : disk),
  Forall2 (fun en q => target G en = Ok q) es qs ->
  NoDup (map e_path es) -> NoDup qs ->
  (forall q, In q qs -> dlook q d = None) ->
  Forall2 (fun en q => exists b c, dlook (e_path en) d = Some b /\ new_content F G conv en q b = Good c) es qs ->
  exists d', foldM Bytes (move1 Data Bytes enc dec pack unpack F G copy conv) es d = Good d'.
Proof. exact (move_fold_total Data Bytes enc dec pack unpack). Qed.

(* the boolean the harness evaluates for every generated move (op_hyp) implies the hypotheses above *)
Theorem move_hyp_sound : forall (F G : fset) sl (d : disk), move_hyp Data Bytes F G sl d = true ->
  let es := entries F sl d in let qs := targets_of G es in
  Forall2 (fun en q => target G en = Ok q) es qs /\ NoDup (map e_path es) /\ NoDup qs /\
  (forall q, In q qs -> dlook q d = None).
Proof. exact (move_hyp_sound_thm Data Bytes pack unpack). Qed.

(* convert: what was readable through F as y (file en, post_reader of F applied to en) reads through G under the
   new name (any FileInfo en' with that path) as post_G en' (f y) -- through both handlers, with G's write_args /
   read_args and (de)compression by the new name *)
Theorem convert_reads_back : forall (F G : fset) f en en' b c y,
  codec_ok -> rargs G = wargs G -> zc G = zd G ->
  decode F en b = Good y -> recode F G f en (e_path en') b = Good c -> decode G en' c = Good (post G en' (f y)).
Proof. exact (convert_reads_back_thm Data Bytes enc dec pack unpack). Qed.

(* write, then read: the object comes back (post_reader applied to the FileInfo en the reader hands in -- any
   FileInfo with that path -- and the object), through the handler with write_args = read_args and through
   compress / decompress when the name ends in a compression suffix; no other file changes *)
Theorem write_read : forall (F : fset) x en (d d' : disk),
  codec_ok -> rargs F = wargs F -> zc F = zd F -> write_file F x (e_path en) d = Good d' ->
  read_file F en d' = Good (post F en x) /\ (forall r, r <> e_path en -> dlook r d' = dlook r d).
Proof. exact (write_read_thm Data Bytes enc dec pack unpack). Qed.

(* fileset[s:e] = x is found again under exactly the period (s, e): find(a, b) returns the file with times (s, e)
   and the placeholder values it was written with whenever [s, e] meets [a, b) (template with a complete end) *)
Theorem written_is_found : forall (F : fset) x s e fill p (d d' : disk) a b,
  start_ok (tpl F) s -> valid e -> s <= e -> end_full (tpl F) = true ->
  in_range (end_fields (tpl F)) (fields e) = true -> at_resolution (end_fields (tpl F)) (fields e) = true ->
  no_parse_only (end_fields (tpl F)) = true -> deterministic fill (tpl F) = true ->
  render (tpl F) s e fill = Ok p -> write_file F x p d = Good d' ->
  s <= b - 1 -> a <= e ->
  exists at_, attrs_are fill (tpl F) at_ /\ finfo F p = Ok (s, e, at_) /\
              In (En p s e at_) (entries F (Sel a b [] [] None) d').
Proof. exact (written_is_found_thm Data Bytes enc pack). Qed.

(* the same for a template whose end is spelt only with sub-day fields (end_hour / end_minute / end_second /
   end_millisecond); hypotheses exactly those of C02.roundtrip_end_partial.  The file is found under the period
   (s, e') where e' = e's spelt fields completed by those of s, moved on by the unit above the coarsest spelt end
   field iff it would precede s -- by every find(a, b) whose window meets [s, e'], and by NO selection under any
   other period; when e' would lie after 9999-12-31 get_info raises OverflowError and no selection reports the file *)
Theorem written_is_found_partial : forall (F : fset) x s e fill p (d d' : disk),
  start_ok (tpl F) s -> valid e -> s <= e -> end_partial (tpl F) = true -> deterministic fill (tpl F) = true ->
  render (tpl F) s e fill = Ok p -> write_file F x p d = Good d' ->
  exists r at_, complete (tpl F) (fields s) (fields e) = Some r /\ attrs_are fill (tpl F) at_ /\
    let e' := roll (unit_above (tpl F)) s r in
    if validb e'
    then finfo F p = Ok (s, e', at_) /\
         (forall a b, s <= b - 1 -> a <= e' -> In (En p s e' at_) (entries F (Sel a b [] [] None) d')) /\
         (forall sl en, In en (entries F sl d') -> e_path en = p -> en = En p s e' at_)
    else finfo F p = Error EOverflow /\ (forall sl en, In en (entries F sl d') -> e_path en <> p).
Proof. exact (written_is_found_partial_thm Data Bytes enc pack). Qed.

(* ... and under EXACTLY the period [s, e] it was written with whenever the end spells every sub-unit field the
   start spells, e has nothing in unspelt fields and 0 <= e - s < the unit above the coarsest spelt end field
   (hypotheses exactly those of C02.roundtrip_end_partial_exact): across day, month and year ends *)
Theorem written_is_found_exact : forall (F : fset) x s e fill p (d d' : disk) a b,
  start_ok (tpl F) s -> valid e -> end_partial (tpl F) = true -> end_exact (tpl F) (fields e) = true ->
  0 <= e - s < unit_above (tpl F) -> deterministic fill (tpl F) = true ->
  render (tpl F) s e fill = Ok p -> write_file F x p d = Good d' -> s <= b - 1 -> a <= e ->
  exists at_, attrs_are fill (tpl F) at_ /\ finfo F p = Ok (s, e, at_) /\
              In (En p s e at_) (entries F (Sel a b [] [] None) d') /\
              (forall sl en, In en (entries F sl d') -> e_path en = p -> en = En p s e at_).
Proof. exact (written_is_found_exact_thm Data Bytes enc pack). Qed.

(* a template without end fields (hypotheses exactly those of C02.no_end_fields): found under (s, s + time_coverage),
   or (s, s) for a fileset without time_coverage *)
Theorem written_is_found_no_end : forall (F : fset) x s e fill p (d d' : disk),
  start_ok (tpl F) s -> valid e -> 1000 <= year (fields e) -> end_fields (tpl F) = [] ->
  deterministic fill (tpl F) = true -> render (tpl F) s e fill = Ok p -> write_file F x p d = Good d' ->
  exists at_, attrs_are fill (tpl F) at_ /\
    match (match cov F with Some c => add s c | None => Some s end) with
    | Some e' => finfo F p = Ok (s, e', at_) /\
                 (forall a b, s <= b - 1 -> a <= e' -> In (En p s e' at_) (entries F (Sel a b [] [] None) d')) /\
                 (forall sl en, In en (entries F sl d') -> e_path en = p -> en = En p s e' at_)
    | None => finfo F p = Error EOverflow /\ (forall sl en, In en (entries F sl d') -> e_path en <> p)
    end.
Proof. exact (written_is_found_no_end_thm Data Bytes enc pack). Qed.

(* the form the harness evaluates after every write F[s:e, fill] = x: the boolean wif_hyp (the hypotheses of the three
   C02 clauses) implies that the file is found under exactly (s, wif_period F s e), which is (s, e) in the exact class *)
Theorem written_is_found_law : forall (F : fset) x s e fill p (d d' : disk),
  wif_hyp F s e fill = true -> render (tpl F) s e (fill_of fill) = Ok p -> write_file F x p d = Good d' ->
  (wif_exact F s e = true -> wif_period F s e = Some e) /\
  match wif_period F s e with
  | Some e' => exists at_, attrs_are (fill_of fill) (tpl F) at_ /\ finfo F p = Ok (s, e', at_) /\
                 (forall a b, s <= b - 1 -> a <= e' -> In (En p s e' at_) (entries F (Sel a b [] [] None) d')) /\
                 (forall sl en, In en (entries F sl d') -> e_path en = p -> en = En p s e' at_)
  | None => finfo F p = Error EOverflow /\ (forall sl en, In en (entries F sl d') -> e_path en <> p)
  end.
Proof. exact (written_is_found_law_thm Data Bytes enc pack). Qed.

(* selection by period and filters = the brute-force filter, by definition of the model (tied to find() by the
   correspondence; that find() computes it is property C01) *)
Theorem selection_exact : forall (F : fset) sl (d : disk) en, s_files sl = None ->
  (In en (entries F sl d) <->
   In (e_path en) (paths d) /\ finfo F (e_path en) = Ok (e_s en, e_e en, e_attr en) /\ selected_by sl en = true).
Proof. exact (entries_spec Data Bytes). Qed.

(* delete removes exactly the selected files *)
Theorem delete_exact : forall (F : fset) sl (d d' : disk), delete F false sl d = Good d' ->
  exists es, find F sl d = Good es /\
    (forall en, In en es -> dlook (e_path en) d <> None /\ dlook (e_path en) d' = None) /\
    (forall r, ~ In r (map e_path es) -> dlook r d' = dlook r d).
Proof. exact (delete_exact_thm Data Bytes). Qed.

(* dry_run removes none *)
Theorem dry_run_noop : forall (F : fset) sl (d d' : disk), delete F true sl d = Good d' -> d' = d.
Proof. exact (dry_run_noop_thm Data Bytes). Qed.

(* every operation leaves alone what it does not name: the written path; the selected originals (unless copy) and
   the generated target names; the selected files of a delete; nothing for reads, find, collect and dry runs *)
Theorem step_frame : forall o (d d' : disk) ob r,
  step o d = Good (d', ob) -> ~ In r (touched o d) -> dlook r d' = dlook r d.
Proof. exact (step_frame_thm Data Bytes enc dec pack unpack). Qed.

(* lifted to all histories: a path that no operation of the history names keeps its content to the end *)
Theorem history_frame : forall r ops (d d' : disk),
  run ops d = Good d' -> untouched r ops d -> dlook r d' = dlook r d.
Proof. exact (run_frame_thm Data Bytes enc dec pack unpack). Qed.

(* an explicit selection that is EMPTY (files=[]) selects nothing: move / copy / delete / dry run do not raise and
   leave the whole disk as it is -- they do not fall back to "every file of the fileset" *)
Theorem empty_selection_noop : forall (F G : fset) copy conv dry sl (d : disk), s_files sl = Some [] ->
  find F sl d = Good [] /\ move F G copy conv sl d = Good d /\ delete F dry sl d = Good d /\
  step (OMove F G copy conv sl) d = Good (d, VNone) /\ step (ODelete F dry sl) d = Good (d, VNone).
Proof. exact (empty_selection_noop_thm Data Bytes enc dec pack unpack). Qed.

(* an explicit selection is taken as it is: period, filters and the rest of the disk play no role *)
Theorem explicit_selection : forall (F : fset) sl (d : disk) ps, s_files sl = Some ps ->
  find F sl d = Good (flat_map (entry_of F) ps).
Proof. exact (explicit_selection_thm Data Bytes). Qed.

(* ---- a move that fails half way.  conv : Data -> option Data, None = the user's convert function raises for this
   object; `encode G y q = None` = the handler of the target cannot store y.  new_contentp ... = Good c: the bytes the
   target gets; = Bad e: this file cannot be converted.

   CONSERVATION: es = the selected files, qs their target names (pairwise distinct and fresh, every file exists: the
   hypotheses of move_conserves); done = ANY set of selected files, in ANY order -- the files whose worker ran to its
   end before move() raised.  Then, on the disk d' they leave: every selected file is EITHER in done, and then its
   converted content is under its target name and the original is gone (kept iff copy), OR not in done, and then it is
   still at its source with the content b it had and there is NOTHING under its target name;  a file whose conversion
   fails is never in done (so it is still at its source, with its content);  no other path has changed.
   The content of every selected file is therefore in exactly one of the two places (in both for copy): the multiset
   of contents, up to conversion, is conserved whatever the workers managed to do. *)
Theorem move_failure_conserves : forall (F G : fset) copy conv (d d' : disk) es qs done,
  Forall2 (fun en q => target G en = Ok q) es qs ->
  NoDup (map e_path es) -> NoDup qs ->
  (forall q, In q qs -> dlook q d = None) ->
  (forall en, In en es -> dlook (e_path en) d <> None) ->
  incl done es -> NoDup (map e_path done) ->
  move_part F G copy conv done d = Good d' ->
  Forall2 (fun en q => target G en = Ok q /\ exists b, dlook (e_path en) d = Some b /\
      ((In en done /\ exists c, new_contentp F G conv en q b = Good c /\ dlook q d' = Some c /\
                                 dlook (e_path en) d' = (if copy then Some b else None))
       \/ (~ In en done /\ dlook (e_path en) d' = Some b /\ dlook q d' = None))) es qs /\
  (forall en q b e, In en es -> target G en = Ok q -> dlook (e_path en) d = Some b ->
                    new_contentp F G conv en q b = Bad e -> ~ In en done) /\
  (forall r, ~ In r (map e_path es) -> ~ In r qs -> dlook r d' = dlook r d).
Proof. exact (move_failure_conserves_thm Data Bytes enc dec pack unpack). Qed.

(* the form the harness evaluates: d' = the tree OBSERVED after the move (whether it raised or not).  When the model's
   move of exactly the files that are present under their target names on d' (move_given) reproduces d', then every
   selected file is moved or untouched, every file whose conversion fails is untouched at its source with nothing
   at its target, and no other path has changed.  movep_hyp = move_hyp (move_hyp_sound) and every selected file exists *)
Theorem move_given_sound : forall (F G : fset) copy conv sl (d d' d'' : disk),
  movep_hyp Data Bytes F G sl d = true ->
  move_given F G copy conv sl d d' = Good d'' -> (forall r, dlook r d'' = dlook r d') ->
  let es := entries F sl d in
  find F sl d = Good es /\
  (forall en, In en es -> exists q b, target G en = Ok q /\ dlook (e_path en) d = Some b /\
      ((exists c, new_contentp F G conv en q b = Good c /\ dlook q d' = Some c /\
                  dlook (e_path en) d' = (if copy then Some b else None))
       \/ (dlook (e_path en) d' = Some b /\ dlook q d' = None)) /\
      (forall e, new_contentp F G conv en q b = Bad e -> dlook (e_path en) d' = Some b /\ dlook q d' = None)) /\
  (forall r, ~ In r (map e_path es) -> ~ In r (targets_of G es) -> dlook r d' = dlook r d).
Proof. exact (move_given_sound_thm Data Bytes enc dec pack unpack). Qed.

(* one worker after the other (max_workers = 1): the files before the first one that fails are done, the failing one
   raises on the disk they leave, the rest is not begun -- an instance of `done` above *)
Theorem move_sequential : forall (F G : fset) copy conv sl (d d' : disk) r,
  movep F G copy conv sl d = Good (d', r) ->
  exists es done rest, find F sl d = Good es /\ es = done ++ rest /\ move_part F G copy conv done d = Good d' /\
    match r with
    | None => rest = []
    | Some e => exists en rest', rest = en :: rest' /\ move1p F G copy conv d' en = Bad e
    end.
Proof. exact (move_sequential_thm Data Bytes enc dec pack unpack). Qed.

(* a conversion that never fails: the move of move_conserves *)
Theorem move_total_conversion : forall (F G : fset) copy conv (d : disk) en,
  move1p F G copy (option_map (fun f x => Some (f x)) conv) d en = move1 Data Bytes enc dec pack unpack F G copy conv d en.
Proof. exact (move1p_total Data Bytes enc dec pack unpack). Qed.

(* ---- post_reader is handed the FileInfo of the file that is read.  `handler_read F p b` = what the handler returns for
   the content b of a file named p (decompressed when the name ends in a compression suffix, read with read_args).
   read(file_info) applies post_reader to the FileInfo `en` the caller handed in and to that object: the path, the
   times and the attributes post_reader sees are those of the file of the fileset -- never those of the temporary
   decompressed file the handler opened. *)
Notation handler_read := (handler_read Data Bytes dec unpack).
Notation encode := (encode Data Bytes enc pack).

Theorem read_applies_post_reader_to_own_entry : forall (F : fset) en (d : disk),
  read_file F en d = match dlook (e_path en) d with
                     | None => Bad ENoFile
                     | Some b => rbind (handler_read F (e_path en) b) (fun x => Good (post F en x))
                     end /\
  step (ORead F en) d = rbind (read_file F en d) (fun x => Good (d, VData x)).
Proof. exact (read_own_entry_thm Data Bytes enc dec pack unpack). Qed.

(* fileset[t] (a file with exactly the generated name exists): post_reader gets get_info(name), the entry find() reports *)
Theorem get_applies_post_reader_to_found_entry : forall (F : fset) t p s e a b (d : disk),
  render (tpl F) t t [] = Ok p -> dlook p d = Some b -> finfo F p = Ok (s, e, a) ->
  step (OGet F t) d = rbind (handler_read F p b) (fun x => Good (d, VData (post F (En p s e a) x))).
Proof. exact (get_own_entry_thm Data Bytes enc dec pack unpack). Qed.

(* collect / icollect / fileset[s:e]: one result per file found, in the order of find(); each is post_reader applied to
   the entry of ITS OWN file -- the path, times and attributes that find() reports, which are those the name parses to *)
Theorem collect_applies_post_reader_to_own_entries : forall (F : fset) sl (d d' : disk) l,
  step (OCollect F sl) d = Good (d', VList l) ->
  d' = d /\ exists es, find F sl d = Good es /\
  Forall2 (fun en py => fst py = e_path en /\ finfo F (e_path en) = Ok (e_s en, e_e en, e_attr en) /\
                        exists b x, dlook (e_path en) d = Some b /\ handler_read F (e_path en) b = Good x /\
                                    snd py = post F en x) es l.
Proof. exact (collect_own_entries_thm Data Bytes enc dec pack unpack). Qed.

(* move(convert=f): the object handed to f is post_reader applied to the entry of the SOURCE file and what its handler read *)
Theorem convert_applies_post_reader_to_own_entry : forall (F G : fset) f en q b c,
  new_content F G (Some f) en q b = Good c ->
  exists x, handler_read F (e_path en) b = Good x /\ encode G (f (post F en x)) q = Some c.
Proof. exact (convert_own_entry_thm Data Bytes enc dec pack unpack). Qed.

(* transparent decompression: for the packed content under a name with a compression suffix the handler returns what it
   returns for the plain content under a name without one; with the theorems above, what read / fileset[t] / collect /
   convert return for a compressed file differs from the plain case ONLY in the entry post_reader is given -- its own *)
Theorem decompression_is_transparent : forall (F : fset) p p' f b, codec_ok -> zd F = true ->
  zfmt p' = Some f -> zfmt p = None -> handler_read F p' (pack f b) = handler_read F p b.
Proof. exact (decompression_transparent_thm Data Bytes enc dec pack unpack). Qed.

(* ---- a copy is an independent file.  Under the hypotheses of move_conserves, after move(copy=True) -- with or without
   conversion -- every selected file en has its content b at its own name and the (converted) content c at the target
   name q, q is another path, and a LATER write to one of the two names (through any fileset H, any object x) leaves
   the content under the other name as it is: overwriting the original does not change the copy, overwriting the
   copy does not change the original. *)
Theorem copy_is_independent : forall (F G H : fset) conv sl (d d1 d2 : disk) es qs en q x,
  find F sl d = Good es ->
  Forall2 (fun en q => target G en = Ok q) es qs ->
  NoDup (map e_path es) -> NoDup qs ->
  (forall q, In q qs -> dlook q d = None) ->
  (forall en, In en es -> dlook (e_path en) d <> None) ->
  move F G true conv sl d = Good d1 ->
  In en es -> target G en = Ok q ->
  exists b c, dlook (e_path en) d = Some b /\ new_content F G conv en q b = Good c /\
    dlook (e_path en) d1 = Some b /\ dlook q d1 = Some c /\ e_path en <> q /\
    (write_file H x (e_path en) d1 = Good d2 -> dlook q d2 = Some c) /\
    (write_file H x q d1 = Good d2 -> dlook (e_path en) d2 = Some b).
Proof. exact (copy_independent_thm Data Bytes enc dec pack unpack). Qed.

(* ---- reading touches nothing.  `reads o`: o is read(), fileset[t], collect / icollect / fileset[s:e], find or a dry run.
   An operation that only reads hands back the WHOLE disk as it was -- equality of disks, not only of the paths it names:
   no file is gone, none is new (nothing is left behind in a temporary directory), no content has changed (a file that
   happens to be called like the decompressed copy of a selected file keeps its bytes). *)
Notation reads := (reads Data).
Theorem reading_keeps_disk : forall (o : op Data) (d d' : disk) ob,
  reads o = true -> step o d = Good (d', ob) -> d' = d.
Proof. exact (reading_keeps_disk_thm Data Bytes enc dec pack unpack). Qed.

(* lifted to histories: after ANY sequence of reading operations the disk is the one the history started from *)
Theorem read_history_keeps_disk : forall (ops : list (op Data)) (d d' : disk),
  forallb reads ops = true -> run ops d = Good d' -> d' = d.
Proof. exact (read_history_keeps_disk_thm Data Bytes enc dec pack unpack). Qed.

(* collect / icollect / fileset[s:e] read several files "at once": every element of the result is what read() of that
   file ALONE returns -- on the disk as it is and on every disk d2 with the same content under that ONE path, whatever the
   other selected files are called (the same base name in other sub directories) and whatever else the tree holds (the
   temporary directory included); and the disk is unchanged *)
Theorem collect_reads_each_file_alone : forall (F : fset) sl (d d' : disk) l,
  step (OCollect F sl) d = Good (d', VList l) ->
  d' = d /\ exists es, find F sl d = Good es /\
  Forall2 (fun en py => fst py = e_path en /\
                        forall d2 : disk, dlook (e_path en) d2 = dlook (e_path en) d ->
                                          step (ORead F en) d2 = Good (d2, VData (snd py))) es l.
Proof. exact (collect_reads_each_file_alone_thm Data Bytes enc dec pack unpack). Qed.

(* ---- overwriting.  A file written over an existing one -- by the same fileset or another, with any handler, write
   arguments and compression -- leaves exactly the disk that the LAST write alone produces from the disk before the first:
   nothing of the earlier content survives (a handler that appends to what is there is not a refinement) *)
Theorem overwrite_forgets : forall (F G : fset) x y p (d d1 d2 : disk),
  write_file F x p d = Good d1 -> write_file G y p d1 = Good d2 -> write_file G y p d = Good d2.
Proof. exact (overwrite_forgets_thm Data Bytes enc pack). Qed.

(* ... and what is read back afterwards is the object written LAST; no other path has changed *)
Theorem overwrite_reads_last : forall (F G : fset) x y en (d d1 d2 : disk),
  codec_ok -> rargs G = wargs G -> zc G = zd G ->
  write_file F x (e_path en) d = Good d1 -> write_file G y (e_path en) d1 = Good d2 ->
  read_file G en d2 = Good (post G en y) /\ write_file G y (e_path en) d = Good d2 /\
  (forall r, r <> e_path en -> dlook r d2 = dlook r d).
Proof. exact (overwrite_reads_last_thm Data Bytes enc dec pack unpack). Qed.

(* ---- arguments of a single call.  `kcode` = what a keyword dictionary means to the handler. *)
Variable kcode : kwargs -> Z.
Notation fobj := (@fobj Data).
Notation view := (view Data kcode).
Notation call_step := (call_step Data Bytes enc dec pack unpack kcode).
Notation calls := (calls Data Bytes enc dec pack unpack kcode).

(* O.read(p, **a): the file is read with the dictionary {**O.read_args, **a} -- the call's own arguments override
   the defaults key by key, the other defaults stay -- and the object O is afterwards what it was; without
   arguments the call sees exactly the defaults *)
Theorem read_with_args : forall (O : fobj) a (en : entry) (d : disk),
  call_step O (CRead a en) d = (O, rbind (read_file (view O a []) en d) (fun x => Good (d, VData x))) /\
  rargs (view O a []) = kcode (kmerge (o_rd O) a) /\
  (forall k, klook k (kmerge (o_rd O) a) = match klook k a with Some v => Some v | None => klook k (o_rd O) end) /\
  view O [] [] = FSet (o_tpl O) (o_cov O) (o_hid O) (kcode (o_rd O)) (kcode (o_wd O)) (o_post O) (o_zc O) (o_zd O).
Proof. exact (read_with_args_thm Data Bytes enc dec pack unpack kcode). Qed.

Theorem write_with_args : forall (O : fobj) a x p (d : disk),
  call_step O (CWrite a x p) d = (O, rbind (write_file (view O [] a) x p d) (fun d' => Good (d', VNone))) /\
  wargs (view O [] a) = kcode (kmerge (o_wd O) a) /\
  (forall k, klook k (kmerge (o_wd O) a) = match klook k a with Some v => Some v | None => klook k (o_wd O) end).
Proof. exact (write_with_args_thm Data Bytes enc dec pack unpack kcode). Qed.

(* over every history of calls (read / collect / write with arguments of their own, any other operation) the
   object keeps its state ... *)
Theorem calls_keep_object : forall cs (O : fobj) (d : disk), fst (calls O cs d) = O.
Proof. exact (calls_keep_object_thm Data Bytes enc dec pack unpack kcode). Qed.

(* ... so the arguments of earlier calls do not stick: after any history cs a call c gives what it gives on the
   object as it was built, on the disk the history left *)
Theorem args_do_not_stick : forall cs (O : fobj) c (d d1 : disk) outs,
  snd (calls O cs d) = Good (d1, outs) ->
  calls O (cs ++ [c]) d = (O, rbind (snd (call_step O c d1)) (fun r => Good (fst r, outs ++ [snd r]))).
Proof. exact (args_do_not_stick_thm Data Bytes enc dec pack unpack kcode). Qed.

(* write_read with per-call arguments: written with the write arguments aw of one call and read with the read
   arguments ar of another, the object comes back when the two merged dictionaries mean the same to the handler *)
Theorem write_read_with_args : forall (O : fobj) aw ar x (en : entry) (d d' : disk), codec_ok ->
  kcode (kmerge (o_rd O) ar) = kcode (kmerge (o_wd O) aw) -> o_zc O = o_zd O ->
  snd (call_step O (CWrite aw x (e_path en)) d) = Good (d', VNone) ->
  snd (call_step O (CRead ar en) d') = Good (d', VData (o_post O en x)) /\ (forall r, r <> e_path en -> dlook r d' = dlook r d).
Proof. exact (write_read_with_args_thm Data Bytes enc dec pack unpack kcode). Qed.

End Statements.

(* non-vacuity, on the instance the harness runs: three pickle files in year/month/day directories with a user
   placeholder, written with write_args 3 and read with read_args 3 and a post_reader adding 100; the two that
   meet 2017-12-31 .. 2018-01-02 are MOVED WITH CONVERSION (function +5) to a flat doy template with a JSON
   handler and a .gz suffix.  The hypotheses of move_conserves hold (move_hyp), the move succeeds, the names change
   from month/day to day-of-year (365 and 001), the contents are re-encoded and compressed, the originals are gone,
   the unselected file is untouched, and what is read back through the destination is 100 + payload + 5. *)
Example nonvacuous :
  let F : t_fset := FSet [Lit (s2l "R/a/"); T false FYear; Lit (s2l "/"); T false FMonth; Lit (s2l "/"); T false FDay;
                 Lit (s2l "/"); U (s2l "sat") (Some UAny); Lit (s2l "_"); T false FHour; T false FMinute; T false FSecond;
                 Lit (s2l "-"); T true FYear; T true FMonth; T true FDay; T true FHour; T true FMinute; T true FSecond;
                 Lit (s2l ".pkl")] None 1 3 3 (t_add 100) true true in
  let G : t_fset := FSet [Lit (s2l "R/b/"); U (s2l "sat") (Some UAny); Lit (s2l "_"); T false FYear; T false FDoy; Lit (s2l "T");
                 T false FHour; T false FMinute; T false FSecond; Lit (s2l "-"); T true FYear; T true FDoy;
                 T true FHour; T true FMinute; T true FSecond; Lit (s2l ".json.gz")] None 2 0 0 (fun _ x => x) true true in
  let d := in_disk [("R/a/2017/12/31/noaa_230000-20180101010000.pkl"%string, [1; 13]);
                    ("R/a/2018/01/01/metop_120000-20180101123000.pkl"%string, [1; 23]);
                    ("R/a/2018/01/03/gpm_060000-20180103070000.pkl"%string, [1; 33])] in
  let sl := Sel 63650275200000000 63650448000000000 [] [] None in
  let mv := OMove F G false (Some (Z.add 5)) sl in
  op_hyp mv d = true /\
  run_step mv (out_disk d) =
    TGood [("R/b/metop_2018001T120000-2018001123000.json.gz"%string, [11; 2; 125]);
           ("R/b/noaa_2017365T230000-2018001010000.json.gz"%string, [11; 2; 115]);
           ("R/a/2018/01/03/gpm_060000-20180103070000.pkl"%string, [1; 33])] TNone /\
  run_step (ORead G (t_info G (s2l "R/b/noaa_2017365T230000-2018001010000.json.gz")))
           [("R/b/noaa_2017365T230000-2018001010000.json.gz"%string, [11; 2; 115])] =
    TGood [("R/b/noaa_2017365T230000-2018001010000.json.gz"%string, [11; 2; 115])] (TData 115) /\
  codec_ok Z (list Z) t_enc t_dec t_pack t_unpack.
Proof.
  cbv zeta. split; [vm_compute; reflexivity|]. split; [vm_compute; reflexivity|]. split; [vm_compute; reflexivity|].
  split.
  - intros h a x b H. unfold t_enc in H. injection H as <-. unfold t_dec. rewrite Z.eqb_refl. f_equal. ring.
  - intros f b. unfold t_unpack, t_pack. rewrite Z.eqb_refl. reflexivity.
Qed.

(* non-vacuity of the sub-day end kind, on the instance the harness runs: end_hour/minute/second only, a file from
   2017-12-31 23:30 to 2018-01-01 00:10 (the exact class: found under exactly (s, e) although the name only says
   "001000"), and a 47-hour period (outside the exact class: found under the first such time after s) *)
Example nonvacuous_partial_end :
  let F : t_fset := FSet [Lit (s2l "R/a/"); T false FYear; Lit (s2l "/"); T false FMonth; Lit (s2l "/"); T false FDay;
                 Lit (s2l "/"); T false FHour; T false FMinute; T false FSecond; Lit (s2l "-");
                 T true FHour; T true FMinute; T true FSecond; Lit (s2l ".pkl")] None 1 0 0 (fun _ x => x) true true in
  exists s e e2 r2,
    mk 2017 12 31 23 30 0 0 = Some s /\ mk 2018 1 1 0 10 0 0 = Some e /\
    mk 2018 1 2 22 30 0 0 = Some e2 /\ mk 2018 1 1 22 30 0 0 = Some r2 /\
    start_ok (tpl F) s /\ valid e /\ s <= e /\ end_partial (tpl F) = true /\ end_exact (tpl F) (fields e) = true /\
    0 <= e - s < unit_above (tpl F) /\ deterministic [] (tpl F) = true /\
    wif_hyp F s e [] = true /\ wif_exact F s e = true /\ wif_period F s e = Some e /\
    run_step (OWrite F s e [] 7) [] = TGood [("R/a/2017/12/31/233000-001000.pkl"%string, [1; 7])] TNone /\
    run_step (OFind F (Sel s (s + 1) [] [] None)) [("R/a/2017/12/31/233000-001000.pkl"%string, [1; 7])] =
      TGood [("R/a/2017/12/31/233000-001000.pkl"%string, [1; 7])]
            (TFiles [("R/a/2017/12/31/233000-001000.pkl"%string, s, e, [])]) /\
    wif_hyp F s e2 [] = true /\ wif_exact F s e2 = false /\ wif_period F s e2 = Some r2.
Proof.
  do 4 eexists. do 4 (split; [vm_compute; reflexivity|]).
  unfold start_ok, valid. vm_compute. repeat split; try reflexivity; discriminate.
Qed.

(* non-vacuity of the empty explicit selection: with files=[] nothing is deleted or moved although the same call
   without an explicit selection takes both files *)
Example nonvacuous_empty_selection :
  let F : t_fset := FSet [Lit (s2l "R/a/"); T false FYear; T false FMonth; T false FDay; Lit (s2l ".pkl")]
                         None 1 0 0 (fun _ x => x) true true in
  let G : t_fset := FSet [Lit (s2l "R/b/"); T false FYear; T false FDoy; Lit (s2l ".pkl")] None 1 0 0 (fun _ x => x) true true in
  let d := [("R/a/20180101.pkl"%string, [1; 5]); ("R/a/20180102.pkl"%string, [1; 6])] in
  let none := Sel 0 315537897599999999 [] [] (Some []) in
  let all := Sel 0 315537897599999999 [] [] None in
  s_files none = Some [] /\
  run_step (ODelete F false none) d = TGood d TNone /\ run_step (ODelete F false all) d = TGood [] TNone /\
  run_step (OMove F G false None none) d = TGood d TNone /\
  run_step (OMove F G false None all) d =
    TGood [("R/b/2018002.pkl"%string, [1; 6]); ("R/b/2018001.pkl"%string, [1; 5])] TNone.
Proof. cbv zeta. repeat split; vm_compute; reflexivity. Qed.

(* non-vacuity of the per-call arguments: an object with defaults offset=3 (read and write) and a post_reader adding
   100; a file holding 13.  read() gives 110; read(offset=5) gives 108 and leaves the defaults alone, so that a
   later read() gives 110 again; written with offset=9 and read with offset=9 the object comes back *)
Example nonvacuous_call_args :
  let O : t_fobj := FObj [Lit (s2l "R/a/"); T false FYear; T false FMonth; T false FDay; Lit (s2l ".pkl")] None 1
                         (kw_in [("offset"%string, 3)]) (kw_in [("offset"%string, 3)]) (t_add 100) true true in
  let p := s2l "R/a/20180101.pkl" in let pe := bare p in
  let d := [("R/a/20180101.pkl"%string, [1; 13])] in
  run_call O (CRead [] pe) d = (TGood d (TData 110), [("offset"%string, 3)], [("offset"%string, 3)]) /\
  run_call O (CRead (kw_in [("offset"%string, 5)]) pe) d = (TGood d (TData 108), [("offset"%string, 3)], [("offset"%string, 3)]) /\
  t_calls O [CRead (kw_in [("offset"%string, 5)]) pe; CRead [] pe] (in_disk d) = (O, Good (in_disk d, [VData 108; VData 110])) /\
  t_kcode (kmerge (o_rd O) (kw_in [("offset"%string, 9)])) = t_kcode (kmerge (o_wd O) (kw_in [("offset"%string, 9)])) /\
  run_call O (CWrite (kw_in [("offset"%string, 9)]) 20 p) d =
    (TGood [("R/a/20180101.pkl"%string, [1; 29])] TNone, [("offset"%string, 3)], [("offset"%string, 3)]) /\
  run_call O (CRead (kw_in [("offset"%string, 9)]) pe) [("R/a/20180101.pkl"%string, [1; 29])] =
    (TGood [("R/a/20180101.pkl"%string, [1; 29])] (TData 120), [("offset"%string, 3)], [("offset"%string, 3)]).
Proof. cbv zeta. repeat split; vm_compute; reflexivity. Qed.

(* non-vacuity of the failing move, on the instance the harness runs: three pickle files (written with write_args 3,
   read with read_args 3 and a post_reader adding 100: the source hands 110, 120, 130 to the convert function) are
   moved with conversion to a doy template with a JSON handler and .gz.  The convert function raises for 120 (the file
   of 2018-01-01) and adds 5 otherwise.  The hypotheses hold (movep_hyp); exactly that file is reported as failing; one
   worker after the other moves the first file and stops (EConvert); when the workers also got the THIRD file through
   (observed tree `after`), the tree the property prescribes is `after` itself: the failing file is at its source with
   its content [1; 23], nothing is under its target name.  Had its original been removed (tree `lost`), the
   prescribed tree differs from the observed one (the file is missing there).  The same with a target handler that
   cannot store 125 = 120 + 5. *)
Example nonvacuous_failing_move :
  let F : t_fset := FSet [Lit (s2l "R/a/"); T false FYear; Lit (s2l "/"); T false FMonth; Lit (s2l "/"); T false FDay;
                 Lit (s2l "/"); T false FHour; T false FMinute; T false FSecond; Lit (s2l ".pkl")] None 1 3 3 (t_add 100) true true in
  let G : t_fset := FSet [Lit (s2l "R/b/"); T false FYear; T false FDoy; Lit (s2l "T");
                 T false FHour; T false FMinute; T false FSecond; Lit (s2l ".json.gz")] None 2 0 0 (fun _ x => x) true true in
  let d := [("R/a/2017/12/31/230000.pkl"%string, [1; 13]); ("R/a/2018/01/01/120000.pkl"%string, [1; 23]);
            ("R/a/2018/01/03/060000.pkl"%string, [1; 33])] in
  let after := [("R/b/2017365T230000.json.gz"%string, [11; 2; 115]); ("R/a/2018/01/01/120000.pkl"%string, [1; 23]);
                ("R/b/2018003T060000.json.gz"%string, [11; 2; 135])] in
  let lost := [("R/b/2017365T230000.json.gz"%string, [11; 2; 115]); ("R/b/2018003T060000.json.gz"%string, [11; 2; 135])] in
  let sl := Sel 0 315537897599999999 [] [] None in
  let conv := Some (t_convp 5 (Some 120)) in
  run_movep None F G false conv sl d after =
    (TBad EConvert,
     TGood [("R/b/2018003T060000.json.gz"%string, [11; 2; 135]); ("R/b/2017365T230000.json.gz"%string, [11; 2; 115]);
            ("R/a/2018/01/01/120000.pkl"%string, [1; 23])] TNone,
     ["R/a/2018/01/01/120000.pkl"%string], true) /\
  movep Z (list Z) t_enc t_dec t_pack t_unpack F G false conv sl (in_disk d) =
    Good (in_disk [("R/b/2017365T230000.json.gz"%string, [11; 2; 115]); ("R/a/2018/01/01/120000.pkl"%string, [1; 23]);
                   ("R/a/2018/01/03/060000.pkl"%string, [1; 33])], Some EConvert) /\
  (let '(_, given, _, _) := run_movep None F G false conv sl d lost in
   given = TGood [("R/b/2018003T060000.json.gz"%string, [11; 2; 135]); ("R/b/2017365T230000.json.gz"%string, [11; 2; 115]);
                  ("R/a/2018/01/01/120000.pkl"%string, [1; 23])] TNone) /\
  run_movep (Some 125) F G false (Some (t_convp 5 None)) sl d after =
    (TBad EHandler,
     TGood [("R/b/2018003T060000.json.gz"%string, [11; 2; 135]); ("R/b/2017365T230000.json.gz"%string, [11; 2; 115]);
            ("R/a/2018/01/01/120000.pkl"%string, [1; 23])] TNone,
     ["R/a/2018/01/01/120000.pkl"%string], true) /\
  run_movep None F G false (Some (t_convp 5 None)) sl d [] =
    (TGood [("R/b/2018003T060000.json.gz"%string, [11; 2; 135]); ("R/b/2018001T120000.json.gz"%string, [11; 2; 125]);
            ("R/b/2017365T230000.json.gz"%string, [11; 2; 115])] TNone, TGood d TNone, [], true).
Proof. cbv zeta. repeat split; vm_compute; reflexivity. Qed.

(* non-vacuity of the post_reader law and of the independent copy, on the instance the harness runs: the SAME payload 13
   stored plain (R/a/...pkl) and compressed (R/z/...pkl.gz) in two filesets whose post_reader LABELS the payload with the
   file it is told it comes from (t_label 0: + 1000 * checksum of path, times, attributes).  Both reads return 13 + 1000 *
   (the label of the file's OWN entry): the two labels differ from each other (the paths differ) and from the label of
   any other path, e.g. of a temporary file /tmp/tmpab12cd; fileset[t] and collect give the same numbers as read().
   Then the plain file is COPIED to a doy template: the copy holds [1; 13]; after overwriting the original with 77
   the copy still holds [1; 13], and after overwriting the copy instead the original still holds [1; 13]. *)
Example nonvacuous_label_and_copy :
  let F : t_fset := FSet [Lit (s2l "R/a/"); T false FYear; T false FMonth; T false FDay; Lit (s2l ".pkl")]
                         None 1 0 0 (t_label 0) true true in
  let Zf : t_fset := FSet [Lit (s2l "R/z/"); T false FYear; T false FMonth; T false FDay; Lit (s2l ".pkl.gz")]
                         None 1 0 0 (t_label 0) true true in
  let G : t_fset := FSet [Lit (s2l "R/b/"); T false FYear; T false FDoy; Lit (s2l ".pkl")] None 1 0 0 (fun _ x => x) true true in
  let d := [("R/a/20180101.pkl"%string, [1; 13]); ("R/z/20180101.pkl.gz"%string, [11; 1; 13])] in
  let all := Sel 0 315537897599999999 [] [] None in
  let ea := t_info F (s2l "R/a/20180101.pkl") in let ez := t_info Zf (s2l "R/z/20180101.pkl.gz") in
  exists t la lz, mk 2018 1 1 0 0 0 0 = Some t /\
    ea = En (s2l "R/a/20180101.pkl") t t [] /\ ez = En (s2l "R/z/20180101.pkl.gz") t t [] /\
    t_lab ea = la /\ t_lab ez = lz /\ la <> lz /\
    t_lab (En (s2l "R/../tmpab12cd") t t []) <> lz /\ t_lab (bare (s2l "R/z/20180101.pkl.gz")) <> lz /\
    run_step (ORead F ea) d = TGood d (TData (13 + 1000 * la)) /\
    run_step (ORead Zf ez) d = TGood d (TData (13 + 1000 * lz)) /\
    run_step (OGet Zf t) d = TGood d (TData (13 + 1000 * lz)) /\
    run_step (OCollect Zf all) d = TGood d (TList [("R/z/20180101.pkl.gz"%string, 13 + 1000 * lz)]) /\
    op_hyp (OMove F G true None all) (in_disk d) = true /\
    run_step (OMove F G true None all) d =
      TGood (("R/b/2018001.pkl"%string, [1; 13]) :: d) TNone /\
    run_step (OWriteAt F (s2l "R/a/20180101.pkl") 77) (("R/b/2018001.pkl"%string, [1; 13]) :: d) =
      TGood [("R/a/20180101.pkl"%string, [1; 77]); ("R/b/2018001.pkl"%string, [1; 13]);
             ("R/z/20180101.pkl.gz"%string, [11; 1; 13])] TNone /\
    run_step (OWriteAt G (s2l "R/b/2018001.pkl") 77) (("R/b/2018001.pkl"%string, [1; 13]) :: d) =
      TGood (("R/b/2018001.pkl"%string, [1; 77]) :: d) TNone.
Proof.
  cbv zeta. do 3 eexists. split; [vm_compute; reflexivity|]. split; [vm_compute; reflexivity|].
  split; [vm_compute; reflexivity|]. split; [vm_compute; reflexivity|]. split; [vm_compute; reflexivity|].
  split; [vm_compute; discriminate|]. split; [vm_compute; discriminate|]. split; [vm_compute; discriminate|].
  repeat split; vm_compute; reflexivity.
Qed.

(* non-vacuity of the reading laws, on the instance the harness runs: a gzipped pickle fileset whose template gives the
   SAME base name (data.pkl.gz) to the files of three days, a bystander R/tmp/data.pkl (the name a decompressed copy would
   have) in the directory the fileset uses for its temporary files.  collect returns each file's own payload and the disk as
   it was; the same value comes from reading the file alone on a disk WITHOUT the other files; the history find / collect /
   fileset[t] / read / dry run is a reading history and ends on the same disk; then the file of 2018-02-27 is overwritten
   (payload 77) and read back: 77, the tree is the one a single write of 77 produces. *)
Example nonvacuous_reading_and_overwriting :
  let F : t_fset := FSet [Lit (s2l "R/d0/"); T false FYear; Lit (s2l "/"); T false FMonth; Lit (s2l "/"); T false FDay;
                          Lit (s2l "/data.pkl.gz")] None 1 0 0 (fun _ x => x) true true in
  let B : t_fset := FSet [Lit (s2l "R/tmp/data.pkl")] None 1 0 0 (fun _ x => x) true true in
  let d := [("R/d0/2018/02/26/data.pkl.gz"%string, [11; 1; 101]); ("R/d0/2018/02/27/data.pkl.gz"%string, [11; 1; 102]);
            ("R/d0/2018/02/28/data.pkl.gz"%string, [11; 1; 103]); ("R/tmp/data.pkl"%string, [1; 150])] in
  let all := Sel 0 315537897599999999 [] [] None in
  let p := s2l "R/d0/2018/02/27/data.pkl.gz" in
  let hist := [OFind F all; OCollect F all; OGet F 63655286400000000; ORead F (t_info F p);
               ORead B (bare (s2l "R/tmp/data.pkl")); ODelete F true all] in
  run_step (OCollect F all) d =
    TGood d (TList [("R/d0/2018/02/26/data.pkl.gz"%string, 101); ("R/d0/2018/02/27/data.pkl.gz"%string, 102);
                    ("R/d0/2018/02/28/data.pkl.gz"%string, 103)]) /\
  run_step (ORead F (t_info F p)) [("R/d0/2018/02/27/data.pkl.gz"%string, [11; 1; 102])] =
    TGood [("R/d0/2018/02/27/data.pkl.gz"%string, [11; 1; 102])] (TData 102) /\
  forallb (reads Z) hist = true /\
  run Z (list Z) t_enc t_dec t_pack t_unpack hist (in_disk d) = Good (in_disk d) /\
  run_step (OWriteAt F p 77) d =
    TGood [("R/d0/2018/02/27/data.pkl.gz"%string, [11; 1; 77]); ("R/d0/2018/02/26/data.pkl.gz"%string, [11; 1; 101]);
           ("R/d0/2018/02/28/data.pkl.gz"%string, [11; 1; 103]); ("R/tmp/data.pkl"%string, [1; 150])] TNone /\
  run_step (OWriteAt F p 77) (("R/d0/2018/02/26/data.pkl.gz"%string, [11; 1; 101]) ::
                              ("R/d0/2018/02/28/data.pkl.gz"%string, [11; 1; 103]) :: [("R/tmp/data.pkl"%string, [1; 150])]) =
    run_step (OWriteAt F p 77) d /\
  run_step (ORead F (t_info F p)) [("R/d0/2018/02/27/data.pkl.gz"%string, [11; 1; 77])] =
    TGood [("R/d0/2018/02/27/data.pkl.gz"%string, [11; 1; 77])] (TData 77).
Proof. cbv zeta. repeat split; vm_compute; reflexivity. Qed.

Print Assumptions move_conserves.
Print Assumptions move_conserves_period.
Print Assumptions move_succeeds.
Print Assumptions move_hyp_sound.
Print Assumptions convert_reads_back.
Print Assumptions write_read.
Print Assumptions written_is_found.
Print Assumptions written_is_found_partial.
Print Assumptions written_is_found_exact.
Print Assumptions written_is_found_no_end.
Print Assumptions written_is_found_law.
Print Assumptions selection_exact.
Print Assumptions delete_exact.
Print Assumptions dry_run_noop.
Print Assumptions step_frame.
Print Assumptions history_frame.
Print Assumptions empty_selection_noop.
Print Assumptions explicit_selection.
Print Assumptions move_failure_conserves.
Print Assumptions move_given_sound.
Print Assumptions move_sequential.
Print Assumptions move_total_conversion.
Print Assumptions read_applies_post_reader_to_own_entry.
Print Assumptions get_applies_post_reader_to_found_entry.
Print Assumptions collect_applies_post_reader_to_own_entries.
Print Assumptions convert_applies_post_reader_to_own_entry.
Print Assumptions decompression_is_transparent.
Print Assumptions copy_is_independent.
Print Assumptions reading_keeps_disk.
Print Assumptions read_history_keeps_disk.
Print Assumptions collect_reads_each_file_alone.
Print Assumptions overwrite_forgets.
Print Assumptions overwrite_reads_last.
Print Assumptions read_with_args.
Print Assumptions write_with_args.
Print Assumptions calls_keep_object.
Print Assumptions args_do_not_stick.
Print Assumptions write_read_with_args.
