(* C11 -- property theorems. This file holds ONLY statements, `exact <lemma>`, a non-vacuity example and
   Print Assumptions.  Model: Model/C11_fsops.v (a disk is a finite map path -> content; write / read / collect /
   find / move / copy / convert / delete / dry run of FileSet; file names by Model/C02_template.v render / info;
   the compression format of a name as in files/utils.py).  Handlers (enc/dec, indexed by handler and by
   write_args / read_args) and codecs (pack/unpack) are Section variables; `codec_ok` is the only thing assumed of
   them and only where it is written.

   Reading the statements: `dlook p d` = the content of path p on disk d (None = no such file);
   `find F sl d = Good es` = the files the selection sl (period [start, stop), white list, black list, or an
   explicit list) picks from fileset F; `target G en` = the name the template of G generates from the times and the
   placeholder values of file en.

   NOT PROVED (named gaps):
     * written_is_found for templates whose end is written only partially (end_hour/end_minute/end_second): it would
       need C02's roundtrip_end_partial, which is itself open; templates without end fields are covered by
       C02.no_end_fields in the same way as below and are not restated here.
     * the order in which worker threads / processes of FileSet.map treat the selected files (property C10): the model
       treats them one after the other; under the hypotheses of move_conserves (distinct fresh targets) the
       result does not depend on the order, which is proved only implicitly (the statement is pointwise). *)
From Coq Require Import ZArith List Bool Ascii String.
From Typhon Require Import Base.Calendar Base.CalendarProofs Model.C02_template Proofs.C02_template
                           Model.C11_fsops Proofs.C11_fsops.
Import ListNotations.
Open Scope Z_scope.

Section Statements.
Variables Data Bytes : Type.
Variable enc : Z -> Z -> Data -> option Bytes.
Variable dec : Z -> Z -> Bytes -> option Data.
Variable pack : str -> Bytes -> Bytes.
Variable unpack : str -> Bytes -> option Bytes.
Notation disk := (list (str * Bytes)).
Notation fset := (@fset Data).
Notation codec_ok := (codec_ok Data Bytes enc dec pack unpack).
Notation write_file := (write_file Data Bytes enc pack).
Notation read_file := (read_file Data Bytes dec unpack).
Notation decode := (decode Data Bytes dec unpack).
Notation recode := (recode Data Bytes enc dec pack unpack).
Notation move := (move Data Bytes enc dec pack unpack).
Notation delete := (delete Data Bytes).
Notation find := (find Data Bytes).
Notation entries := (entries Data Bytes).
Notation step := (step Data Bytes enc dec pack unpack).
Notation run := (run Data Bytes enc dec pack unpack).
Notation touched := (touched Data Bytes).
Notation moved := (moved Data Bytes enc dec pack unpack).
Notation new_content := (new_content Data Bytes enc dec pack unpack).
Notation untouched := (untouched Data Bytes enc dec pack unpack).

(* CORE (DESIGN section 10, rung 2).  move / copy, with or without conversion: when the names the target template
   generates for the selected files are pairwise distinct and do not exist yet, then after a move that did not raise
   EVERY selected file en has its content under exactly the name q = target G en (the same bytes, or -- convert --
   the bytes obtained by reading through F, applying the user's function and writing through G), the original is
   still there iff copy, and NO other path of the disk has changed. *)
Theorem move_conserves : forall (F G : fset) copy conv sl (d d' : disk) es qs,
  find F sl d = Good es ->
  Forall2 (fun en q => target G en = Ok q) es qs ->
  NoDup (map e_path es) -> NoDup qs ->
  (forall q, In q qs -> dlook q d = None) ->
  (forall en, In en es -> dlook (e_path en) d <> None) ->
  move F G copy conv sl d = Good d' ->
  Forall2 (fun en q =>
             target G en = Ok q /\
             exists b c, dlook (e_path en) d = Some b /\ new_content F G conv en q b = Good c /\
                         dlook q d' = Some c /\ dlook (e_path en) d' = (if copy then Some b else None)) es qs /\
  (forall r, ~ In r (map e_path es) -> ~ In r qs -> dlook r d' = dlook r d).
Proof. exact (move_conserves_thm Data Bytes enc dec pack unpack). Qed.

(* the same for a selection by period and filters on a disk with unique names: the conditions on the sources hold
   by themselves, only the target names have to be distinct and fresh *)
Theorem move_conserves_period : forall (F G : fset) copy conv sl (d d' : disk) qs,
  s_files sl = None -> NoDup (paths d) ->
  Forall2 (fun en q => target G en = Ok q) (entries F sl d) qs ->
  NoDup qs -> (forall q, In q qs -> dlook q d = None) ->
  move F G copy conv sl d = Good d' ->
  Forall2 (moved F G copy conv d d') (entries F sl d) qs /\
  (forall r, ~ In r (map e_path (entries F sl d)) -> ~ In r qs -> dlook r d' = dlook r d).
Proof. exact (move_conserves_period_thm Data Bytes enc dec pack unpack). Qed.

(* progress: under the same conditions a move whose files can all be read and re-written does not raise
   (so move_conserves is not about an empty set of runs) *)
Theorem move_succeeds : forall (F G : fset) copy conv es qs (d : disk),
  Forall2 (fun en q => target G en = Ok q) es qs ->
  NoDup (map e_path es) -> NoDup qs ->
  (forall q, In q qs -> dlook q d = None) ->
  Forall2 (fun en q => exists b c, dlook (e_path en) d = Some b /\ new_content F G conv en q b = Good c) es qs ->
  exists d', foldM Bytes (move1 Data Bytes enc dec pack unpack F G copy conv) es d = Good d'.
Proof. exact (move_fold_total Data Bytes enc dec pack unpack). Qed.

(* the boolean the harness evaluates for every generated move (op_hyp) implies the hypotheses above *)
Theorem move_hyp_sound : forall (F G : fset) sl (d : disk), move_hyp Data Bytes F G sl d = true ->
  let es := entries F sl d in let qs := targets_of G es in
  Forall2 (fun en q => target G en = Ok q) es qs /\ NoDup (map e_path es) /\ NoDup qs /\
  (forall q, In q qs -> dlook q d = None).
Proof. exact (move_hyp_sound_thm Data Bytes pack unpack). Qed.

(* convert: what was readable through F as y reads through G as post_G (f y) -- through both handlers, with
   G's write_args / read_args and (de)compression by the new name *)
Theorem convert_reads_back : forall (F G : fset) f p q b c y,
  codec_ok -> rargs G = wargs G -> zc G = zd G ->
  decode F p b = Good y -> recode F G f p q b = Good c -> decode G q c = Good (post G (f y)).
Proof. exact (convert_reads_back_thm Data Bytes enc dec pack unpack). Qed.

(* write, then read: the object comes back (post_reader applied), through the handler with write_args = read_args
   and through compress / decompress when the name ends in a compression suffix; no other file changes *)
Theorem write_read : forall (F : fset) x p (d d' : disk),
  codec_ok -> rargs F = wargs F -> zc F = zd F -> write_file F x p d = Good d' ->
  read_file F p d' = Good (post F x) /\ (forall r, r <> p -> dlook r d' = dlook r d).
Proof. exact (write_read_thm Data Bytes enc dec pack unpack). Qed.

(* fileset[s:e] = x is found again under exactly the period (s, e): find(a, b) returns the file with times (s, e)
   and the placeholder values it was written with whenever [s, e] meets [a, b) (template with a complete end) *)
Theorem written_is_found : forall (F : fset) x s e fill p (d d' : disk) a b,
  start_ok (tpl F) s -> valid e -> s <= e -> end_full (tpl F) = true ->
  in_range (end_fields (tpl F)) (fields e) = true -> at_resolution (end_fields (tpl F)) (fields e) = true ->
  no_parse_only (end_fields (tpl F)) = true -> deterministic fill (tpl F) = true ->
  render (tpl F) s e fill = Ok p -> write_file F x p d = Good d' ->
  s <= b - 1 -> a <= e ->
  exists at_, attrs_are fill (tpl F) at_ /\ finfo F p = Ok (s, e, at_) /\
              In (En p s e at_) (entries F (Sel a b [] [] None) d').
Proof. exact (written_is_found_thm Data Bytes enc pack). Qed.

(* selection by period and filters = the brute-force filter, by definition of the model (tied to find() by the
   correspondence; that find() computes it is property C01) *)
Theorem selection_exact : forall (F : fset) sl (d : disk) en, s_files sl = None ->
  (In en (entries F sl d) <->
   In (e_path en) (paths d) /\ finfo F (e_path en) = Ok (e_s en, e_e en, e_attr en) /\ selected_by sl en = true).
Proof. exact (entries_spec Data Bytes). Qed.

(* delete removes exactly the selected files *)
Theorem delete_exact : forall (F : fset) sl (d d' : disk), delete F false sl d = Good d' ->
  exists es, find F sl d = Good es /\
    (forall en, In en es -> dlook (e_path en) d <> None /\ dlook (e_path en) d' = None) /\
    (forall r, ~ In r (map e_path es) -> dlook r d' = dlook r d).
Proof. exact (delete_exact_thm Data Bytes). Qed.

(* dry_run removes none *)
Theorem dry_run_noop : forall (F : fset) sl (d d' : disk), delete F true sl d = Good d' -> d' = d.
Proof. exact (dry_run_noop_thm Data Bytes). Qed.

(* every operation leaves alone what it does not name: the written path; the selected originals (unless copy) and
   the generated target names; the selected files of a delete; nothing for reads, find, collect and dry runs *)
Theorem step_frame : forall o (d d' : disk) ob r,
  step o d = Good (d', ob) -> ~ In r (touched o d) -> dlook r d' = dlook r d.
Proof. exact (step_frame_thm Data Bytes enc dec pack unpack). Qed.

(* lifted to all histories: a path that no operation of the history names keeps its content to the end *)
Theorem history_frame : forall r ops (d d' : disk),
  run ops d = Good d' -> untouched r ops d -> dlook r d' = dlook r d.
Proof. exact (run_frame_thm Data Bytes enc dec pack unpack). Qed.

End Statements.

(* non-vacuity, on the instance the harness runs: three pickle files in year/month/day directories with a user
   placeholder, written with write_args 3 and read with read_args 3 and a post_reader adding 100; the two that
   meet 2017-12-31 .. 2018-01-02 are MOVED WITH CONVERSION (function +5) to a flat doy template with a JSON
   handler and a .gz suffix.  The hypotheses of move_conserves hold (move_hyp), the move succeeds, the names change
   from month/day to day-of-year (365 and 001), the contents are re-encoded and compressed, the originals are gone,
   the unselected file is untouched, and what is read back through the destination is 100 + payload + 5. *)
Example nonvacuous :
  let F : t_fset := FSet [Lit (s2l "R/a/"); T false FYear; Lit (s2l "/"); T false FMonth; Lit (s2l "/"); T false FDay;
                 Lit (s2l "/"); U (s2l "sat") (Some UAny); Lit (s2l "_"); T false FHour; T false FMinute; T false FSecond;
                 Lit (s2l "-"); T true FYear; T true FMonth; T true FDay; T true FHour; T true FMinute; T true FSecond;
                 Lit (s2l ".pkl")] None 1 3 3 (Z.add 100) true true in
  let G : t_fset := FSet [Lit (s2l "R/b/"); U (s2l "sat") (Some UAny); Lit (s2l "_"); T false FYear; T false FDoy; Lit (s2l "T");
                 T false FHour; T false FMinute; T false FSecond; Lit (s2l "-"); T true FYear; T true FDoy;
                 T true FHour; T true FMinute; T true FSecond; Lit (s2l ".json.gz")] None 2 0 0 (fun x => x) true true in
  let d := in_disk [("R/a/2017/12/31/noaa_230000-20180101010000.pkl"%string, [1; 13]);
                    ("R/a/2018/01/01/metop_120000-20180101123000.pkl"%string, [1; 23]);
                    ("R/a/2018/01/03/gpm_060000-20180103070000.pkl"%string, [1; 33])] in
  let sl := Sel 63650275200000000 63650448000000000 [] [] None in
  let mv := OMove F G false (Some (Z.add 5)) sl in
  op_hyp mv d = true /\
  run_step mv (out_disk d) =
    TGood [("R/b/metop_2018001T120000-2018001123000.json.gz"%string, [11; 2; 125]);
           ("R/b/noaa_2017365T230000-2018001010000.json.gz"%string, [11; 2; 115]);
           ("R/a/2018/01/03/gpm_060000-20180103070000.pkl"%string, [1; 33])] TNone /\
  run_step (ORead G (s2l "R/b/noaa_2017365T230000-2018001010000.json.gz"))
           [("R/b/noaa_2017365T230000-2018001010000.json.gz"%string, [11; 2; 115])] =
    TGood [("R/b/noaa_2017365T230000-2018001010000.json.gz"%string, [11; 2; 115])] (TData 115) /\
  codec_ok Z (list Z) t_enc t_dec t_pack t_unpack.
Proof.
  cbv zeta. split; [vm_compute; reflexivity|]. split; [vm_compute; reflexivity|]. split; [vm_compute; reflexivity|].
  split.
  - intros h a x b H. unfold t_enc in H. injection H as <-. unfold t_dec. rewrite Z.eqb_refl. f_equal. ring.
  - intros f b. unfold t_unpack, t_pack. rewrite Z.eqb_refl. reflexivity.
Qed.

Print Assumptions move_conserves.
Print Assumptions move_conserves_period.
Print Assumptions move_succeeds.
Print Assumptions move_hyp_sound.
Print Assumptions convert_reads_back.
Print Assumptions write_read.
Print Assumptions written_is_found.
Print Assumptions selection_exact.
Print Assumptions delete_exact.
Print Assumptions dry_run_noop.
Print Assumptions step_frame.
Print Assumptions history_frame.
