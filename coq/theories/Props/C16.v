(* C16 -- property theorems. This file holds ONLY statements, `exact <lemma>`, non-vacuity examples and
   Print Assumptions, so that the statements cannot be weakened quietly.

   Model: Model/C16_closest.v (find_closest of typhon/files/fileset.py AFTER fixes/C16_1_*.patch: the exact-name
   short cut honours exclusions and filters; `closest_asis` is the unchanged code and is refuted below).
   Answers are `None` (NoFilesError / None) or the index of a file in the listing `fs` of the fileset.
   `candidate fs q P t f` = f is a file of the fileset whose coverage meets [t - P, t + P) (P = one sub-directory
   period; everything when the template has no sub-directory placeholder), that passes the filters and is not
   excluded.  In the first part the candidate set is the brute-force specification of FileSet.find; the EXTENSION
   below derives it from the algorithmic model of find (property C01: directory walk, look-back, pruning) on trees
   (closest_end_to_end, composed_is_flat_model), fixes which of several allowed files the code returns
   (search_first_in_order), states the edges of the window and the dispatch of fileset[...].  EXTENSION 2: filters
   with several entries over several user placeholders (all_filters_apply, *_order_irrelevant, the tie between the
   string vocabulary of the flat listing and the numbered one of C01: encoded_filters_agree, dict_composed_is_flat). *)
From Coq Require Import ZArith List Bool Ascii String Permutation.
From Typhon Require Import Base.Calendar Base.CalendarProofs Model.C02_template Proofs.C02_template
  Model.C16_closest Proofs.C16_closest Model.C16_tree Proofs.C16_tree.
From Typhon Require Model.C03_tree Model.C01_find Proofs.C01_find.
Import ListNotations.
Open Scope Z_scope.

(* CORE: the boolean checker applied to the implementation's answer decides the property's specification
   (no hypotheses): an accepted answer is a candidate, covers t whenever a candidate covers t, otherwise
   minimises min(|t0-t|, |t1-t|) over the candidates; None is accepted exactly when there is no candidate.
   Ties and several covering files are all accepted. *)
Theorem closest_ok_iff_spec : forall fs q P t r,
  closest_ok fs q P t r = true <-> ClosestSpec fs q P t r.
Proof. exact closest_ok_iff_spec_thm. Qed.

(* the algorithm of the (fixed) code -- exact-name short cut, window t +- P, first covering file, else first
   argmin -- meets the specification for every template, population (any listing order, gaps, overlaps,
   discrete files, ties), timestamp, filters and exclusions, provided the coverages are well formed and the
   timestamp is given at the resolution of the file names (a file named by get_filename(t) covers t) *)
Theorem model_meets_spec : forall tp fill fs q t,
  Forall file_ok fs -> name_hyp tp fill fs t ->
  ClosestSpec fs q (period_of tp) t (closest_model tp fill fs q t).
Proof. exact model_meets_spec_thm. Qed.

(* absence is reported (NoFilesError / None) exactly when no file passing the filters and exclusions lies in the
   neighbourhood -- never a far-away or excluded file instead *)
Theorem none_iff_no_candidate : forall tp fill fs q t,
  Forall file_ok fs -> name_hyp tp fill fs t ->
  (closest_model tp fill fs q t = None <-> forall f, ~ candidate fs q (period_of tp) t f).
Proof. exact none_iff_no_candidate_thm. Qed.

Theorem answer_is_candidate : forall fs q P t i,
  ClosestSpec fs q P t (Some i) ->
  exists g, nth_error fs i = Some g /\ near P t g /\ passes q g = true /\ excluded q g = false.
Proof. exact answer_is_candidate_thm. Qed.

(* the two hypotheses of model_meets_spec are decided by the booleans the correspondence evaluates per case *)
Theorem hyps_decided : forall tp fill fs t,
  forallb file_okb fs && name_hypb tp fill fs t = true <-> Forall file_ok fs /\ name_hyp tp fill fs t.
Proof. exact hyps_decided_thm. Qed.

(* what the correspondence accepts (algo_ok: the checker, or -- only relevant outside the hypotheses -- the exactly
   named file of the short cut) is, under the hypotheses, exactly the specification: a rejected answer of the
   implementation is a counter-example to the property *)
Theorem accepted_iff_spec : forall tp fill fs q t r,
  Forall file_ok fs -> name_hyp tp fill fs t ->
  (algo_ok tp fill fs q t r = true <-> ClosestSpec fs q (period_of tp) t r).
Proof. exact algo_ok_iff_spec_thm. Qed.

(* "t at the resolution of the file names" implies name_hyp, through the round-trip theorems of C02
   (templates without user placeholders to fill; end fields absent or spelt as completely as the start):
   when the coverage of a file is what get_info parses from its name, the file named by get_filename(t)
   starts at t and ends at or after t *)
Theorem exact_name_covers : forall c tp fill f t attrs,
  start_ok tp t -> 1000 <= year (fields t) ->
  (end_fields tp = [] /\ (forall d, coverage c = Some d -> 0 <= d /\ valid (t + d)) \/
   end_full tp = true /\ in_range (end_fields tp) (fields t) = true /\
   at_resolution (end_fields tp) (fields t) = true /\ no_parse_only (end_fields tp) = true) ->
  deterministic fill tp = true -> info_via c = ViaFilename ->
  info c tp (fname f) = Ok (ft0 f, ft1 f, attrs) ->
  render tp t t fill = Ok (fname f) -> ft0 f = t /\ t <= ft1 f.
Proof. exact exact_name_covers_thm. Qed.

(* a single-file fileset always answers with its one file, whatever the timestamp and the filters; this is also
   the answer of the general rule for the one-file population *)
Theorem single_file_always : forall t q, single_model true t q = SPath.
Proof. exact single_file_always_thm. Qed.

Theorem single_file_consistent : forall f t,
  file_ok f -> ClosestSpec [f] (Query false [] [] [] []) None t (Some 0%nat).
Proof. exact single_file_consistent_thm. Qed.

(* the UNCHANGED code (defect #12): the exact-name short cut returns a file that exclude_files excludes.
   Witness: /R/{year}/{month}/{year}{month}{day}T{hour}.dat, two files covering 2018-03-02T00, the one named
   exactly by t excluded; the hypotheses of model_meets_spec hold and the answer violates the specification. *)
Theorem asis_refuted : exists tp fs q t,
  Forall file_ok fs /\ name_hyp tp [] fs t /\
  ~ ClosestSpec fs q (period_of tp) t (closest_asis tp [] fs q t).
Proof.
  exists [Lit (s2l "/R/"); T false FYear; Lit (s2l "/"); T false FMonth; Lit (s2l "/"); T false FYear;
          T false FMonth; T false FDay; Lit (s2l "T"); T false FHour; Lit (s2l ".dat")].
  exists [File (s2l "/R/2018/03/20180302T00.dat") (ymdh 2018 3 2 0) (ymdh 2018 3 2 6) [];
          File (s2l "/R/2018/03/20180301T22.dat") (ymdh 2018 3 1 22) (ymdh 2018 3 2 4) []].
  exists (Query false [] [] [s2l "/R/2018/03/20180302T00.dat"] []).
  exists (ymdh 2018 3 2 0).
  split; [apply all_okb; vm_compute; reflexivity|].
  split; [apply name_hypb_iff; vm_compute; reflexivity|].
  intros H. apply closest_ok_iff_spec_thm in H. vm_compute in H. discriminate H.
Qed.

(* ====================================================================================================
   EXTENSION (Model/C16_tree.v, Proofs/C16_tree.v): the candidate set is no longer a specification taken on trust.
   F = Model/C01_find (the model of FileSet.find: directory walk with look-back, per-level truncation, year-only
   fallback, overlap, exclusion tree, filters).  fs : list F.file = the files of a TREE in the order of the walk. *)

(* ---- (3) ties: WHICH file the code returns.  No hypotheses: the search of Model/C16_closest answers r iff r is
   the FIRST file in find order that covers t, or -- when no file found covers t -- the FIRST file in find order
   whose end-point distance is minimal (np.argmin), or None when find yields nothing.  The rule determines the
   answer uniquely (the <-> below): any other index, minimiser or not, is not what the code returns. *)
Theorem search_first_in_order : forall fs q P t r,
  search fs q P t = r <-> FirstSpec ft0 ft1 (found q P t) t fs r.
Proof. exact search_first_in_order_thm. Qed.

(* the property allows ANY minimiser: when no candidate covers t the checker accepts index i exactly when file i is a
   candidate of minimal end-point distance; when some candidate covers t, exactly the covering candidates *)
Theorem accepts_exactly_minimisers : forall fs q P t i,
  (forall f, candidate fs q P t f -> ~ covers t f) ->
  (closest_ok fs q P t (Some i) = true <->
   exists g, nth_error fs i = Some g /\ candidate fs q P t g /\
             forall f, candidate fs q P t f -> dist t g <= dist t f).
Proof. exact accepts_exactly_minimisers_thm. Qed.

Theorem accepts_exactly_covering : forall fs q P t i,
  (exists f, candidate fs q P t f /\ covers t f) ->
  (closest_ok fs q P t (Some i) = true <->
   exists g, nth_error fs i = Some g /\ candidate fs q P t g /\ covers t g).
Proof. exact accepts_exactly_covering_thm. Qed.

(* ---- (1) the window.  _sub_dir_time_resolution is a fixed timedelta: the period computed from the template's
   tokens (Model/C16_closest.period_of) is the look-back of C01's layout, i.e. Calendar.period of the finest
   directory placeholder, for every layout carrying the template's directory placeholders; the hypothesis is a
   boolean evaluated per generated template on layout_of tp *)
Theorem period_is_lookback : forall tp lay, fields_of_layout tp lay -> period_of tp = tree_period lay.
Proof. exact period_is_lookback_thm. Qed.

Theorem fields_of_layout_decided : forall tp lay, fields_of_layoutb tp lay = true -> fields_of_layout tp lay.
Proof. exact fields_of_layout_decided_thm. Qed.

(* the files tree_search chooses from are those of C01's find(start, end, sort=False) for the window, in the
   order of the walk; C01's find_model is the same search followed by the sort *)
Theorem tree_search_uses_find : forall lay fs w b ex t l,
  window_overflows lay t = false ->
  find_unsorted lay fs (window_query lay t w b ex) = F.Ok l ->
  exists L, map snd L = l /\
    tree_search lay fs w b ex t = match gchoose F.t0 F.t1 t L with Some i => TFile i | None => TNone end /\
    F.find_model lay fs (window_query lay t w b ex) = F.Ok (F.sort_key l).
Proof. exact tree_search_uses_find_thm. Qed.

(* a candidate on the tree = C01's brute-force `selected` for the window: the coverage meets [start, end), the file
   is not excluded and passes the filters *)
Theorem candidate_is_window_overlap : forall lay t w b ex f,
  tcand lay t w b ex f = true <->
  F.t0 f < snd (window lay t) /\ fst (window lay t) <= F.t1 f /\
  F.excluded_spec (window_query lay t w b ex) f = false /\ F.passes (window_query lay t w b ex) f = true.
Proof. exact tcand_iff. Qed.

(* CORE of the extension.  On every tree inside C01's hypotheses (directory placeholders without gap, files in the
   directory of their start, coverage no longer than one directory period), for every timestamp whose window
   stays inside datetime, every filter and exclusion: the composed model -- exact-name short cut, window from the
   layout, C01's directory walk, first covering / first nearest -- returns a candidate that covers t whenever a
   candidate covers t, otherwise a candidate of minimal end-point distance; None iff the tree has no candidate.
   `exact` is the file get_filename(t) names (if any); it covers t (t at the resolution of the names). *)
Theorem closest_end_to_end : forall lay fs exact filtered w b ex t,
  tree_hyps lay fs -> window_ok lay t -> Forall (fun '(a, b) => a <= b) ex ->
  (filtered = false -> w = [] /\ b = []) ->
  (forall i f, exact = Some i -> nth_error fs i = Some f -> F.t0 f <= t <= F.t1 f) ->
  exists r, tree_closest lay fs exact filtered w b ex t = o2t r /\ TreeSpec lay fs w b ex t r.
Proof. exact tree_closest_end_to_end_thm. Qed.

(* ... and the search proper returns the FIRST such file in the order of the walk *)
Theorem tree_first_in_walk_order : forall lay fs w b ex t,
  tree_hyps lay fs -> window_ok lay t -> Forall (fun '(a, b) => a <= b) ex ->
  exists r, tree_search lay fs w b ex t = match r with Some i => TFile i | None => TNone end /\
            FirstSpec F.t0 F.t1 (tcand lay t w b ex) t fs r.
Proof. exact closest_end_to_end_thm. Qed.

(* the model the correspondence runs (Model/C16_closest: names, short cut through C02's render, flat listing) IS the
   composed model, on every listing that describes the tree (same coverages, same verdicts of filters and
   exclusions, file by file): "candidate set = specification of find" is now derived from C01's algorithm *)
Theorem composed_is_flat_model : forall tp fill lay fs emb q w b t,
  fields_of_layout tp lay -> tree_hyps lay fs -> window_ok lay t -> Forall (fun '(a, b) => a <= b) (q_xtimes q) ->
  agrees emb q (window_query lay t w b (q_xtimes q)) fs -> Forall file_ok (map emb fs) ->
  closest_model tp fill (map emb fs) q t =
  t2o (tree_closest lay fs (exact_name tp fill (map emb fs) t) (q_filtered q) w b (q_xtimes q) t).
Proof. exact composed_is_flat_thm. Qed.

(* the hypotheses above are the booleans the correspondence evaluates per tree / per query *)
Theorem tree_hyps_decided : forall lay fs, F.hyps lay fs = true -> tree_hyps lay fs.
Proof. exact Proofs.C16_tree.tree_hyps_decided. Qed.

Theorem window_ok_decided : forall lay t, window_okb lay t = true <-> window_ok lay t.
Proof. exact window_okb_iff. Qed.

(* ---- (4) edges of the window (P = one directory period, lay has sub-directories).
   Closed on the left, open on the right: a file ENDING exactly at t - P is a candidate, one microsecond earlier it is
   not; a file STARTING exactly at t + P is not a candidate, one microsecond earlier it is. *)
Theorem window_edges : forall c rest t w b ex f,
  let lay := c :: rest in let P := F.lookback lay in
  F.t0 f <= F.t1 f ->
  F.excluded_spec (window_query lay t w b ex) f = false -> F.passes (window_query lay t w b ex) f = true ->
  (F.t1 f = t - P -> tcand lay t w b ex f = true) /\
  (F.t0 f = t + P -> tcand lay t w b ex f = false) /\
  (F.t1 f < t - P -> tcand lay t w b ex f = false) /\
  (F.t0 f = t + P - 1 -> tcand lay t w b ex f = true).
Proof. exact window_edges_thm. Qed.

(* a file that covers t -- t its first instant, its last instant, or inside; the file in the directory of t or, as
   files may outlast their directory, in the one before -- is a candidate; by closest_end_to_end the answer then
   covers t *)
Theorem covering_is_candidate : forall lay t w b ex f,
  window_ok lay t -> F.t0 f <= t <= F.t1 f ->
  F.excluded_spec (window_query lay t w b ex) f = false -> F.passes (window_query lay t w b ex) f = true ->
  tcand lay t w b ex f = true.
Proof. exact covering_is_candidate_thm. Qed.

(* fixed-length directory levels (day, hour, minute, second: the directory of x is x / P): a file two or more
   directories after the directory of t, or ending two or more directories before it, is no candidate, however
   near it is compared with every other file *)
Theorem two_directories_away : forall c rest t w b ex f,
  let lay := c :: rest in let P := F.lookback lay in
  F.t0 f <= F.t1 f ->
  (dir_index P t + 2 <= dir_index P (F.t0 f) \/ dir_index P (F.t1 f) + 2 <= dir_index P t) ->
  tcand lay t w b ex f = false.
Proof. exact two_directories_away_thm. Qed.

(* t exactly on a directory boundary is nothing special: the directories enter the answer through their period
   only -- two layouts of the same period, each inside C01's hypotheses for the tree, give the same answer *)
Theorem layout_matters_through_period : forall lay1 lay2 fs w b ex t,
  tree_hyps lay1 fs -> tree_hyps lay2 fs -> window_ok lay1 t -> window_ok lay2 t ->
  Forall (fun '(a, b) => a <= b) ex -> tree_period lay1 = tree_period lay2 ->
  tree_search lay1 fs w b ex t = tree_search lay2 fs w b ex t.
Proof. exact layout_matters_through_period_thm. Qed.

(* ... and when the tree holds no candidate the answer is the absence, never the nearest of the far files *)
Theorem far_files_absent : forall lay fs w b ex t,
  tree_hyps lay fs -> window_ok lay t -> Forall (fun '(a, b) => a <= b) ex ->
  (forall f, In f fs -> tcand lay t w b ex f = false) ->
  tree_search lay fs w b ex t = TNone.
Proof. exact far_files_absent_thm. Qed.

(* ---- (2) fileset[...]: the dispatch of __getitem__ (parse = to_datetime on a string, closest = find_closest).
   fileset[datetime] and fileset["..."] are find_closest without filters; fileset[t, filters] -- a tuple or a list
   whose first two items are the timestamp and the filters, further items ignored -- is find_closest with those
   filters; fileset[t, None] is find_closest without filters *)
Theorem getitem_datetime : forall (parse : str -> Z) (R : Type) (closest : Z -> option filters -> option R) t,
  getitem parse closest (PDatetime t) = of_closest (closest t None).
Proof. intros parse R closest t. exact (getitem_datetime_lemma parse closest t). Qed.

Theorem getitem_string : forall (parse : str -> Z) (R : Type) (closest : Z -> option filters -> option R) s,
  getitem parse closest (PStr s) = of_closest (closest (parse s) None).
Proof. intros parse R closest s. exact (getitem_str_lemma parse closest s). Qed.

Theorem getitem_with_filters : forall (parse : str -> Z) (R : Type) (closest : Z -> option filters -> option R) t s f rest,
  getitem parse closest (PSeq (PDatetime t :: PFilters f :: rest)) = of_closest (closest t (Some f)) /\
  getitem parse closest (PSeq (PStr s :: PFilters f :: rest)) = of_closest (closest (parse s) (Some f)) /\
  getitem parse closest (PSeq (PDatetime t :: PNone :: rest)) = of_closest (closest t None).
Proof.
  intros parse R closest t s f rest.
  exact (conj (getitem_seq_datetime_lemma parse closest t f rest)
              (conj (getitem_seq_str_lemma parse closest s f rest) (getitem_seq_none_lemma parse closest t rest))).
Qed.

(* whatever the fileset is indexed with, a file is read only when find_closest names it for the timestamp and the
   filters the item designates (never another file) *)
Theorem getitem_reads_closest : forall (parse : str -> Z) (R : Type) (closest : Z -> option filters -> option R) item r,
  getitem parse closest item = ORead r ->
  exists t f, closest t f = Some r /\
    ((item = PDatetime t /\ f = None) \/ (exists s, item = PStr s /\ t = parse s /\ f = None) \/
     (exists ta fl rest, item = PSeq (ta :: fl :: rest) /\ as_filters fl = Some f /\
                         (ta = PDatetime t \/ exists s, ta = PStr s /\ t = parse s))).
Proof. intros parse R closest item r. exact (getitem_reads_closest_lemma parse closest item r). Qed.

(* therefore fileset[t] / fileset[t, filters] with the model of find_closest meets the property's specification *)
Theorem getitem_meets_spec : forall parse tp fill fs xn xt item,
  Forall file_ok fs -> (forall t, name_hyp tp fill fs t) ->
  match getitem parse (closest_call tp fill fs xn xt) item with
  | ORead i => exists t f, ClosestSpec fs (with_filters xn xt f) (period_of tp) t (Some i)
  | _ => True
  end.
Proof. exact getitem_meets_spec_thm. Qed.

(* ====================================================================================================
   EXTENSION 2: filters with SEVERAL entries over several user placeholders (Model/C16_tree.v: fdict, split_dict,
   dict_query, entry_ok).  A filters dict is a list of entries in the order of the dict: (true, k, vs) is the key
   "!k" (black list), (false, k, vs) the key "k" (white list), vs the listed values.  FileSet.find splits the dict
   into its white and its black part (split_dict) and FileSet._check_file walks the black part. *)

(* a file is a candidate iff it is a file of the fileset in the neighbourhood, not excluded, and EVERY entry of the
   dict lets it pass -- white lists and black lists alike, whatever their number and order *)
Theorem all_filters_apply : forall fs d xn xt P t f,
  candidate fs (dict_query d xn xt) P t f <->
  In f fs /\ near P t f /\ excluded (dict_query d xn xt) f = false /\
  forall e, In e d -> entry_ok (fattrs f) e = true.
Proof. exact all_filters_apply_thm. Qed.

(* the same for white and black lists however they were obtained *)
Theorem passes_every_list : forall q f,
  passes q f = true <->
  (q_filtered q = true ->
   (forall w, In w (q_white q) -> white_ok (fattrs f) w = true) /\
   (forall b, In b (q_black q) -> black_ok (fattrs f) b = true)).
Proof. exact passes_all_thm. Qed.

(* the order of the entries is irrelevant: to the verdict on every file, to what the checker accepts, to the
   specification and to the answer of the model *)
Theorem filter_order_irrelevant : forall flt w w' b b' xn xt,
  Permutation w w' -> Permutation b b' ->
  let q := Query flt w b xn xt in let q' := Query flt w' b' xn xt in
  (forall f, passes q f = passes q' f) /\
  (forall fs P t r, closest_ok fs q P t r = closest_ok fs q' P t r) /\
  (forall fs P t r, ClosestSpec fs q P t r <-> ClosestSpec fs q' P t r) /\
  (forall tp fill fs t, closest_model tp fill fs q t = closest_model tp fill fs q' t).
Proof. exact filter_order_irrelevant_thm. Qed.

Theorem dict_order_irrelevant : forall d d' xn xt,
  Permutation d d' ->
  (forall f, passes (dict_query d xn xt) f = passes (dict_query d' xn xt) f) /\
  (forall fs P t r, ClosestSpec fs (dict_query d xn xt) P t r <-> ClosestSpec fs (dict_query d' xn xt) P t r) /\
  (forall tp fill fs t, closest_model tp fill fs (dict_query d xn xt) t = closest_model tp fill fs (dict_query d' xn xt) t).
Proof. exact dict_order_irrelevant_thm. Qed.

(* on the tree (C01's vocabulary: placeholders and values numbered; zentry_ok = one entry lets the file pass): a
   candidate = coverage meets the window, not excluded, EVERY entry lets it pass *)
Theorem tree_all_filters_apply : forall lay t d ex f,
  let w := fst (zsplit d) in let b := snd (zsplit d) in
  tcand lay t w b ex f = true <->
  F.t0 f < snd (window lay t) /\ fst (window lay t) <= F.t1 f /\
  F.excluded_spec (window_query lay t w b ex) f = false /\ forall e, In e d -> zentry_ok f e = true.
Proof. exact tree_all_filters_apply_thm. Qed.

(* ... and the composed model (C01's directory walk, whose white lists also steer the walk) answers the same for every
   order of the white lists and of the black lists *)
Theorem tree_filter_order_irrelevant : forall lay fs exact filtered w w' b b' ex t,
  Permutation w w' -> Permutation b b' ->
  tree_closest lay fs exact filtered w b ex t = tree_closest lay fs exact filtered w' b' ex t /\
  forall f, tcand lay t w b ex f = tcand lay t w' b' ex f.
Proof. exact tree_filter_order_irrelevant_thm. Qed.

(* the two vocabularies.  For every numbering kc of the placeholder names and vc of the values that is injective on
   the names in play (K) and, per placeholder, on its values (V), with no value a proper prefix of another (black
   lists are re.match: prefix tests), a dict and its numbered image give every file the same verdict: the filter part
   of `agrees` (composed_is_flat_model) holds by construction, for any number of entries *)
Theorem encoded_filters_agree : forall (kc : str -> Z) (vc : str -> str -> Z) (K : str -> Prop) (V : str -> str -> Prop),
  (forall x y, K x -> K y -> kc x = kc y -> x = y) ->
  (forall k x y, V k x -> V k y -> vc k x = vc k y -> x = y) ->
  (forall k p v, V k p -> V k v -> is_prefix p v = true -> p = v) ->
  forall d xn xt lay t ex g f,
  F.attrs f = enc_attrs kc vc (fattrs g) -> attrs_known K V (fattrs g) -> Forall (entry_known K V) d ->
  passes (dict_query d xn xt) g =
  F.passes (window_query lay t (fst (zsplit (map (enc_entry kc vc) d))) (snd (zsplit (map (enc_entry kc vc) d))) ex) f.
Proof. exact encoded_filters_agree_thm. Qed.

(* the numbering the correspondence uses (position of the placeholder in a list of pools, position of the value in
   its pool) meets these hypotheses whenever every pool is prefix-free (a boolean) *)
Theorem pool_numbering_ok : forall ps, pools_ok ps = true ->
  (forall x y, pool_K ps x -> pool_K ps y -> pool_kc ps x = pool_kc ps y -> x = y) /\
  (forall k x y, pool_V ps k x -> pool_V ps k y -> pool_vc ps k x = pool_vc ps k y -> x = y) /\
  (forall k p v, pool_V ps k p -> pool_V ps k v -> is_prefix p v = true -> p = v).
Proof. exact pool_numbering_ok_thm. Qed.

(* composition with C01's find for a dict of several entries: the flat model the correspondence runs under the dict IS
   the composed tree model (short cut, window, C01's directory walk, first covering / first nearest) under the numbered
   white and black lists; with closest_end_to_end the answer is the covering-or-nearest file among the files passing
   ALL entries *)
Theorem dict_composed_is_flat : forall (kc : str -> Z) (vc : str -> str -> Z) (K : str -> Prop) (V : str -> str -> Prop)
  tp fill lay fs emb d xn xt t,
  (forall x y, K x -> K y -> kc x = kc y -> x = y) ->
  (forall k x y, V k x -> V k y -> vc k x = vc k y -> x = y) ->
  (forall k p v, V k p -> V k v -> is_prefix p v = true -> p = v) ->
  let zd := map (enc_entry kc vc) d in
  let w := fst (zsplit zd) in let b := snd (zsplit zd) in
  fields_of_layout tp lay -> tree_hyps lay fs -> window_ok lay t -> Forall (fun '(a, b) => a <= b) xt ->
  (forall f, In f fs ->
     ft0 (emb f) = F.t0 f /\ ft1 (emb f) = F.t1 f /\
     F.attrs f = enc_attrs kc vc (fattrs (emb f)) /\ attrs_known K V (fattrs (emb f)) /\
     excluded (dict_query d xn xt) (emb f) = F.excluded_spec (window_query lay t w b xt) f) ->
  Forall (entry_known K V) d -> Forall file_ok (map emb fs) ->
  closest_model tp fill (map emb fs) (dict_query d xn xt) t =
  t2o (tree_closest lay fs (exact_name tp fill (map emb fs) t) true w b xt t).
Proof. exact dict_composed_is_flat_thm. Qed.

(* non-vacuity of the extension.
   T1: /R/{year}/{month}/{day}/..., P = 1 day, t = 2018-03-02 00:00 exactly on a directory boundary.  Walk order:
       [0] 2018/02/27 10:00-11:00 (three directories before: no candidate)
       [1] 2018/03/01 20:00-21:00 (nearest end 3 h before t)   [2] 2018/03/01 22:00 - 03/02 00:00 (its LAST instant is t)
       [3] 2018/03/02 00:00-02:00 (its FIRST instant is t)     [4] 2018/03/02 03:00-04:00   [5] 2018/03/04 00:00-01:00
   the hypotheses hold; the answer is [2], the first covering file in walk order, which lies in the PREVIOUS directory;
   with [2] and [3] excluded by name the nearest is [1] (3 h) and not [4]; asked at 2018-03-03 00:00 with [2] and [4]
   excluded, [3] (22 h) is returned ([5] starts exactly at t + P: outside the semi-open window); asked at 03-06 12:00
   nothing is returned: [5] lies two directories away; with the exact-name short cut on [3] (get_filename(t) names it)
   [3] is returned, and [2] when [3] is excluded.  The same tree under /R/{year}/{doy}/ (same period) meets the
   hypotheses too (layout_matters_through_period).
   T2: /R/{year}/{month}/..., P = 31 days (fixed), t = 2018-01-31 23:00: the only file starts 2018-03-01 00:00, TWO month
   directories later but 28 d 1 h away: it is inside the window and is returned; from 2018-01-28 23:00 it is not. *)
Example nonvacuous_tree :
  let d := fun y m dd h => ymdh y m dd h in
  let lay := [F.CPat [F.FYear]; F.CPat [F.FMonth]; F.CPat [F.FDay]] in
  let mk := fun i a b x => F.mkfile i a b a [] x in
  let fs := fun x2 x3 x4 =>
    [mk 0 (d 2018 2 27 10) (d 2018 2 27 11) false; mk 1 (d 2018 3 1 20) (d 2018 3 1 21) false;
     mk 2 (d 2018 3 1 22) (d 2018 3 2 0) x2; mk 3 (d 2018 3 2 0) (d 2018 3 2 2) x3;
     mk 4 (d 2018 3 2 3) (d 2018 3 2 4) x4; mk 5 (d 2018 3 4 0) (d 2018 3 4 1) false] in
  let tp := [Lit (s2l "/R/"); T false FYear; Lit (s2l "/"); T false FMonth; Lit (s2l "/"); T false FDay;
             Lit (s2l "/"); T false FYear; T false FMonth; T false FDay; Lit (s2l "T"); T false FHour;
             Lit (s2l "-"); T true FDay; Lit (s2l "T"); T true FHour; Lit (s2l ".dat")] in
  let lay2 := [F.CPat [F.FYear]; F.CPat [F.FMonth]] in
  let fs2 := [mk 0 (d 2018 3 1 0) (d 2018 3 1 6) false] in
  layout_eqb (layout_of tp) lay = true /\ fields_of_layout tp lay /\ period_of tp = Some us_day /\
  tree_hyps lay (fs false false false) /\ window_ok lay (d 2018 3 2 0) /\
  tree_search lay (fs false false false) [] [] [] (d 2018 3 2 0) = TFile 2 /\
  tree_search lay (fs true true false) [] [] [] (d 2018 3 2 0) = TFile 1 /\
  tree_search lay (fs true false true) [] [] [] (d 2018 3 3 0) = TFile 3 /\
  tree_search lay (fs false false false) [] [] [] (d 2018 3 6 12) = TNone /\
  tcand lay (d 2018 3 6 12) [] [] [] (mk 5 (d 2018 3 4 0) (d 2018 3 4 1) false) = false /\
  tree_closest lay (fs false false false) (Some 3%nat) false [] [] [] (d 2018 3 2 0) = TFile 3 /\
  tree_closest lay (fs false true false) (Some 3%nat) false [] [] [] (d 2018 3 2 0) = TFile 2 /\
  tree_hyps [F.CPat [F.FYear]; F.CPat [F.FMonth; F.FDay]] (fs false false false) /\
  tree_hyps lay2 fs2 /\ window_ok lay2 (d 2018 1 31 23) /\ tree_period lay2 = Some (31 * us_day) /\
  tree_search lay2 fs2 [] [] [] (d 2018 1 31 23) = TFile 0 /\
  tree_search lay2 fs2 [] [] [] (d 2018 1 28 23) = TNone /\
  getitem (fun _ => d 2018 3 2 0) (fun t f => t2o (tree_search lay (fs false false false) [] [] [] t))
          (PSeq [PStr (s2l "2018-03-02"); PNone]) = ORead 2%nat /\
  getitem (fun _ => 0) (fun t (f : option filters) => @None nat) (PSeq [PDatetime 0]) = OIndexError.
Proof.
  cbv zeta.
  split; [vm_compute; reflexivity|].
  split; [apply fields_of_layout_decided_thm; vm_compute; reflexivity|].
  split; [vm_compute; reflexivity|].
  split; [apply Proofs.C16_tree.tree_hyps_decided; vm_compute; reflexivity|].
  split; [apply window_okb_iff; vm_compute; reflexivity|].
  do 7 (split; [vm_compute; reflexivity|]).
  split; [apply Proofs.C16_tree.tree_hyps_decided; vm_compute; reflexivity|].
  split; [apply Proofs.C16_tree.tree_hyps_decided; vm_compute; reflexivity|].
  split; [apply window_okb_iff; vm_compute; reflexivity|].
  repeat split; vm_compute; reflexivity.
Qed.

(* non-vacuity of the bridge: a flat listing with names describes T1 (agrees), its search is the tree's *)
Example nonvacuous_bridge :
  let d := fun y m dd h => ymdh y m dd h in
  let lay := [F.CPat [F.FYear]; F.CPat [F.FMonth]; F.CPat [F.FDay]] in
  let mk := fun i a b x => F.mkfile i a b a [] x in
  let fs := [mk 1 (d 2018 3 1 20) (d 2018 3 1 21) false; mk 2 (d 2018 3 1 22) (d 2018 3 2 0) true;
             mk 4 (d 2018 3 2 3) (d 2018 3 2 4) false] in
  let emb := fun f : F.file => File (if F.name_excl f then s2l "x" else s2l "n") (F.t0 f) (F.t1 f) [] in
  let q := Query false [] [] [s2l "x"] [] in
  let t := d 2018 3 2 0 in
  agrees emb q (window_query lay t [] [] []) fs /\ Forall file_ok (map emb fs) /\
  search (map emb fs) q (tree_period lay) t = Some 0%nat /\ tree_search lay fs [] [] [] t = TFile 0.
Proof.
  cbv zeta. split.
  - intros f [<-|[<-|[<-|[]]]]; vm_compute; repeat split; reflexivity.
  - split; [apply all_okb; vm_compute; reflexivity|]. split; vm_compute; reflexivity.
Qed.

(* non-vacuity of window_ok as it reads since find's look-back is clamped at datetime.min (/repo bd49e45; C01:
   lookback_clamped): /R/{year}/{month}/{day}/, P = 1 day.  t = 0001-01-02 12:00 lies between P and 2 P after
   datetime.min (formerly outside window_ok: find(t - P, ...) raised OverflowError in its own look-back): the window
   0001-01-01 12:00 -- 0001-01-03 12:00 is inside datetime, the hypotheses hold, the file of 0001-01-01 that ends
   exactly at the window start is returned when the covering one is excluded.  One microsecond before
   datetime.min + P the window itself leaves datetime: find_closest's own subtraction raises (TErr), window_ok fails. *)
Example nonvacuous_window_near_min :
  let d := fun y m dd h => ymdh y m dd h in
  let lay := [F.CPat [F.FYear]; F.CPat [F.FMonth]; F.CPat [F.FDay]] in
  let mk := fun i a b x => F.mkfile i a b a [] x in
  let fs := fun x1 => [mk 0 (d 1 1 1 10) (d 1 1 1 12) false; mk 1 (d 1 1 2 11) (d 1 1 2 13) x1;
                       mk 2 (d 1 1 3 12) (d 1 1 3 13) false] in
  let t := d 1 1 2 12 in
  tree_hyps lay (fs false) /\ window_ok lay t /\ F.lookback lay < t < 2 * F.lookback lay /\
  F.dir_start lay (fst (window lay t)) = 0 /\
  tree_search lay (fs false) [] [] [] t = TFile 1 /\
  tree_search lay (fs true) [] [] [] t = TFile 0 /\
  window_ok lay us_day /\ tree_search lay (fs true) [] [] [] us_day = TFile 0 /\
  window_okb lay (us_day - 1) = false /\ tree_search lay (fs false) [] [] [] (us_day - 1) = TErr F.OverflowErr.
Proof.
  cbv zeta.
  split; [apply Proofs.C16_tree.tree_hyps_decided; vm_compute; reflexivity|].
  split; [apply window_okb_iff; vm_compute; reflexivity|].
  split; [vm_compute; split; reflexivity|].
  do 3 (split; [vm_compute; reflexivity|]).
  split; [apply window_okb_iff; vm_compute; reflexivity|].
  repeat split; vm_compute; reflexivity.
Qed.

(* non-vacuity: a template with temporal sub-directories (P = 31 days), overlapping files, a gap with a tie, a
   far-away file; the hypotheses hold; the model takes the short cut, avoids the excluded / filtered-out file,
   picks the nearer end in the gap, accepts both files of a tie and rejects a farther one, and reports absence
   91 days away from every file *)
Example nonvacuous :
  let tp := [Lit (s2l "/R/"); T false FYear; Lit (s2l "/"); T false FMonth; Lit (s2l "/"); U (s2l "sat") (Some UAny);
             Lit (s2l "_"); T false FYear; T false FMonth; T false FDay; Lit (s2l "T"); T false FHour;
             Lit (s2l ".dat")] in
  let tq := [Lit (s2l "/R/"); T false FYear; Lit (s2l "/"); T false FMonth; Lit (s2l "/");
             T false FYear; T false FMonth; T false FDay; Lit (s2l "T"); T false FHour; Lit (s2l ".dat")] in
  let a := [(s2l "sat", s2l "a")] in let b := [(s2l "sat", s2l "b")] in
  let fs := [File (s2l "/R/2018/02/20180227T00.dat") (ymdh 2018 2 27 0) (ymdh 2018 2 27 6) a;
             File (s2l "/R/2018/03/20180302T00.dat") (ymdh 2018 3 2 0) (ymdh 2018 3 2 6) a;
             File (s2l "/R/2018/03/20180301T22.dat") (ymdh 2018 3 1 22) (ymdh 2018 3 2 4) b;
             File (s2l "/R/2018/03/20180304T00.dat") (ymdh 2018 3 4 0) (ymdh 2018 3 4 6) b;
             File (s2l "/R/2018/05/20180501T00.dat") (ymdh 2018 5 1 0) (ymdh 2018 5 1 6) a] in
  let plain := Query false [] [] [] [] in
  let P := Some (31 * us_day) in
  Forall file_ok fs /\ period_of tq = P /\ period_of tp = P /\
  name_hyp tq [] fs (ymdh 2018 3 2 0) /\ name_hyp tq [] fs (ymdh 2018 3 3 3) /\
  closest_model tq [] fs plain (ymdh 2018 3 2 0) = Some 1%nat /\
  closest_model tq [] fs (Query false [] [] [s2l "/R/2018/03/20180302T00.dat"] []) (ymdh 2018 3 2 0) = Some 2%nat /\
  closest_model tq [] fs (Query false [] [] [] [(ymdh 2018 3 2 5, ymdh 2018 3 2 7)]) (ymdh 2018 3 2 0) = Some 2%nat /\
  closest_model tp [] fs (Query true [] [(s2l "sat", [s2l "b"])] [] []) (ymdh 2018 3 2 0) = Some 1%nat /\
  closest_model tp [] fs (Query true [(s2l "sat", [s2l "b"])] [] [] []) (ymdh 2018 3 2 5) = Some 2%nat /\
  closest_model tq [] fs plain (ymdh 2018 3 3 5) = Some 3%nat /\
  closest_ok fs plain P (ymdh 2018 3 3 3) (Some 1%nat) = true /\
  closest_ok fs plain P (ymdh 2018 3 3 3) (Some 3%nat) = true /\
  closest_ok fs plain P (ymdh 2018 3 3 3) (Some 0%nat) = false /\
  closest_ok fs plain P (ymdh 2018 3 3 3) None = false /\
  closest_model tq [] fs plain (ymdh 2018 7 31 0) = None /\
  closest_ok fs plain P (ymdh 2018 7 31 0) (Some 4%nat) = false.
Proof.
  cbv zeta.
  split; [apply all_okb; vm_compute; reflexivity|].
  split; [vm_compute; reflexivity|]. split; [vm_compute; reflexivity|].
  split; [apply name_hypb_iff; vm_compute; reflexivity|].
  split; [apply name_hypb_iff; vm_compute; reflexivity|].
  repeat split; vm_compute; reflexivity.
Qed.

(* non-vacuity of extension 2.  /R/{sat}/{year}{month}{day}T{hour}_{ver}.dat (P = 366 days), four files:
   [0] metop v2 00-03   [1] noaa v2 04-05   [2] noaa v1 06-09   [3] metop v1 10-11.
   filters {"!sat": "metop", "!ver": "v1"} and the same dict with the keys swapped: [0] is forbidden by the sat entry
   and allowed by the ver entry, [2] the other way round -- neither is a candidate under either order (an evaluation in
   which only the LAST entry decides would let [0] pass under the first order and [2] under the second); asked at 01:00
   ([0] covers it) and at 07:00 ([2] covers it) the model answers [1], the only file passing both entries, and the
   checker rejects [0] and [2]; a white list with a black list; lists of values; all platforms forbidden: None *)
Example nonvacuous_filters :
  let h := fun x => ymdh 2018 1 1 x in
  let sat := s2l "sat" in let ver := s2l "ver" in
  let tp := [Lit (s2l "/R/"); U sat (Some UAny); Lit (s2l "/"); T false FYear; T false FMonth; T false FDay;
             Lit (s2l "T"); T false FHour; Lit (s2l "_"); U ver (Some UAny); Lit (s2l ".dat")] in
  let at_ := fun s v : string => [(sat, s2l s); (ver, s2l v)] in
  let f0 := File (s2l "/R/metop/20180101T00_v2.dat") (h 0) (h 3) (at_ "metop"%string "v2"%string) in
  let f1 := File (s2l "/R/noaa/20180101T04_v2.dat") (h 4) (h 5) (at_ "noaa"%string "v2"%string) in
  let f2 := File (s2l "/R/noaa/20180101T06_v1.dat") (h 6) (h 9) (at_ "noaa"%string "v1"%string) in
  let f3 := File (s2l "/R/metop/20180101T10_v1.dat") (h 10) (h 11) (at_ "metop"%string "v1"%string) in
  let fs := [f0; f1; f2; f3] in
  let e_sat := (true, sat, [s2l "metop"]) in let e_ver := (true, ver, [s2l "v1"]) in
  let q1 := dict_query [e_sat; e_ver] [] [] in let q2 := dict_query [e_ver; e_sat] [] [] in
  let P := Some (366 * us_day) in
  Permutation [e_sat; e_ver] [e_ver; e_sat] /\ period_of tp = P /\ Forall file_ok fs /\
  name_hyp tp [] fs (h 1) /\ name_hyp tp [] fs (h 7) /\
  entry_ok (fattrs f0) e_sat = false /\ entry_ok (fattrs f0) e_ver = true /\
  entry_ok (fattrs f2) e_sat = true /\ entry_ok (fattrs f2) e_ver = false /\
  passes q1 f0 = false /\ passes q2 f0 = false /\ passes q1 f2 = false /\ passes q2 f2 = false /\
  passes q1 f1 = true /\ passes q1 f3 = false /\
  closest_model tp [] fs q1 (h 1) = Some 1%nat /\ closest_model tp [] fs q2 (h 1) = Some 1%nat /\
  closest_model tp [] fs q1 (h 7) = Some 1%nat /\ closest_model tp [] fs q2 (h 7) = Some 1%nat /\
  closest_ok fs q1 P (h 1) (Some 0%nat) = false /\ closest_ok fs q2 P (h 7) (Some 2%nat) = false /\
  closest_ok fs q1 P (h 1) (Some 1%nat) = true /\
  closest_model tp [] fs (dict_query [(false, sat, [s2l "noaa"]); e_ver] [] []) (h 7) = Some 1%nat /\
  closest_model tp [] fs (dict_query [(true, ver, [s2l "v2"]); (false, sat, [s2l "noaa"; s2l "x1"])] [] []) (h 1) = Some 2%nat /\
  closest_model tp [] fs (dict_query [(true, sat, [s2l "noaa"; s2l "metop"]); e_ver] [] []) (h 1) = None.
Proof.
  cbv zeta.
  split; [apply perm_swap|].
  split; [vm_compute; reflexivity|].
  split; [apply all_okb; vm_compute; reflexivity|].
  split; [apply name_hypb_iff; vm_compute; reflexivity|].
  split; [apply name_hypb_iff; vm_compute; reflexivity|].
  repeat split; vm_compute; reflexivity.
Qed.

(* non-vacuity of the numbering: the pools of the correspondence ({sat}: noaa metop x1 n19, {ver}: v1 v2 v3) are
   prefix-free; a dict with a white and two black entries, a tree under /R/{sat}/ in C01's vocabulary and its flat
   listing meet every hypothesis of dict_composed_is_flat; both models answer [1] *)
Example nonvacuous_numbering :
  let sat := s2l "sat" in let ver := s2l "ver" in
  let ps := [(sat, [s2l "noaa"; s2l "metop"; s2l "x1"; s2l "n19"]); (ver, [s2l "v1"; s2l "v2"; s2l "v3"])] in
  let kc := pool_kc ps in let vc := pool_vc ps in let K := pool_K ps in let V := pool_V ps in
  let d := [(true, sat, [s2l "metop"]); (false, ver, [s2l "v2"; s2l "v3"]); (true, ver, [s2l "v1"])] in
  let h := fun x => ymdh 2018 1 1 x in
  let tp := [Lit (s2l "/R/"); U sat (Some UAny); Lit (s2l "/"); T false FYear; T false FMonth; T false FDay;
             Lit (s2l "T"); T false FHour; Lit (s2l "_"); U ver (Some UAny); Lit (s2l ".dat")] in
  let lay := [F.CPat []] in
  let at_ := fun s v : string => [(sat, s2l s); (ver, s2l v)] in
  let flat := [File (s2l "/R/metop/20180101T00_v2.dat") (h 0) (h 3) (at_ "metop"%string "v2"%string);
               File (s2l "/R/noaa/20180101T04_v2.dat") (h 4) (h 5) (at_ "noaa"%string "v2"%string);
               File (s2l "/R/noaa/20180101T06_v1.dat") (h 6) (h 9) (at_ "noaa"%string "v1"%string)] in
  let fs := [F.mkfile 0 (h 0) (h 3) (h 0) [(0, 1); (1, 1)] false; F.mkfile 1 (h 4) (h 5) (h 4) [(0, 0); (1, 1)] false;
             F.mkfile 2 (h 6) (h 9) (h 6) [(0, 0); (1, 0)] false] in
  let emb := fun f : F.file => nth (Z.to_nat (F.fid f)) flat (File [] 0 0 []) in
  let zd := map (enc_entry kc vc) d in
  pools_ok ps = true /\ kc ver = 1 /\ vc sat (s2l "x1") = 2 /\
  zsplit zd = ([(1, [1; 2])], [(0, [1]); (1, [0])]) /\
  Forall (entry_known K V) d /\ map emb fs = flat /\
  fields_of_layout tp lay /\ tree_hyps lay fs /\ window_ok lay (h 1) /\
  (forall f, In f fs ->
     ft0 (emb f) = F.t0 f /\ ft1 (emb f) = F.t1 f /\
     F.attrs f = enc_attrs kc vc (fattrs (emb f)) /\ attrs_known K V (fattrs (emb f)) /\
     excluded (dict_query d [] []) (emb f) =
     F.excluded_spec (window_query lay (h 1) (fst (zsplit zd)) (snd (zsplit zd)) []) f) /\
  Forall file_ok (map emb fs) /\
  closest_model tp [] (map emb fs) (dict_query d [] []) (h 1) = Some 1%nat /\
  tree_closest lay fs None true (fst (zsplit zd)) (snd (zsplit zd)) [] (h 1) = TFile 1.
Proof.
  cbv zeta.
  split; [vm_compute; reflexivity|]. split; [vm_compute; reflexivity|]. split; [vm_compute; reflexivity|].
  split; [vm_compute; reflexivity|].
  split; [repeat first [apply Forall_nil | apply Forall_cons | split]; vm_compute; tauto|].
  split; [vm_compute; reflexivity|].
  split; [apply fields_of_layout_decided_thm; vm_compute; reflexivity|].
  split; [apply Proofs.C16_tree.tree_hyps_decided; vm_compute; reflexivity|].
  split; [apply window_okb_iff; vm_compute; reflexivity|].
  split.
  { intros f [<-|[<-|[<-|[]]]];
      (split; [vm_compute; reflexivity|]); (split; [vm_compute; reflexivity|]); (split; [vm_compute; reflexivity|]);
      (split; [|vm_compute; reflexivity]);
      repeat first [apply Forall_nil | apply Forall_cons | split]; vm_compute; tauto. }
  split; [apply all_okb; vm_compute; reflexivity|].
  split; vm_compute; reflexivity.
Qed.

Print Assumptions closest_ok_iff_spec.
Print Assumptions model_meets_spec.
Print Assumptions none_iff_no_candidate.
Print Assumptions answer_is_candidate.
Print Assumptions hyps_decided.
Print Assumptions accepted_iff_spec.
Print Assumptions exact_name_covers.
Print Assumptions single_file_always.
Print Assumptions single_file_consistent.
Print Assumptions asis_refuted.
Print Assumptions search_first_in_order.
Print Assumptions accepts_exactly_minimisers.
Print Assumptions accepts_exactly_covering.
Print Assumptions period_is_lookback.
Print Assumptions fields_of_layout_decided.
Print Assumptions tree_search_uses_find.
Print Assumptions candidate_is_window_overlap.
Print Assumptions closest_end_to_end.
Print Assumptions tree_first_in_walk_order.
Print Assumptions composed_is_flat_model.
Print Assumptions tree_hyps_decided.
Print Assumptions window_ok_decided.
Print Assumptions window_edges.
Print Assumptions covering_is_candidate.
Print Assumptions two_directories_away.
Print Assumptions layout_matters_through_period.
Print Assumptions far_files_absent.
Print Assumptions getitem_datetime.
Print Assumptions getitem_string.
Print Assumptions getitem_with_filters.
Print Assumptions getitem_reads_closest.
Print Assumptions getitem_meets_spec.
Print Assumptions all_filters_apply.
Print Assumptions passes_every_list.
Print Assumptions filter_order_irrelevant.
Print Assumptions dict_order_irrelevant.
Print Assumptions tree_all_filters_apply.
Print Assumptions tree_filter_order_irrelevant.
Print Assumptions encoded_filters_agree.
Print Assumptions pool_numbering_ok.
Print Assumptions dict_composed_is_flat.
