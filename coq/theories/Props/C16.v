(* C16 -- property theorems. This file holds ONLY statements, `exact <lemma>`, non-vacuity examples and
   Print Assumptions, so that the statements cannot be weakened quietly.

   Model: Model/C16_closest.v (find_closest of typhon/files/fileset.py AFTER fixes/C16_1_*.patch: the exact-name
   short cut honours exclusions and filters; `closest_asis` is the unchanged code and is refuted below).
   Answers are `None` (NoFilesError / None) or the index of a file in the listing `fs` of the fileset.
   `candidate fs q P t f` = f is a file of the fileset whose coverage meets [t - P, t + P) (P = one sub-directory
   period; everything when the template has no sub-directory placeholder), that passes the filters and is not
   excluded.  The candidate set is the brute-force specification of FileSet.find (property C01). *)
From Coq Require Import ZArith List Bool Ascii String.
From Typhon Require Import Base.Calendar Base.CalendarProofs Model.C02_template Proofs.C02_template
  Model.C16_closest Proofs.C16_closest.
Import ListNotations.
Open Scope Z_scope.

(* CORE: the boolean checker applied to the implementation's answer decides the property's specification
   (no hypotheses): an accepted answer is a candidate, covers t whenever a candidate covers t, otherwise
   minimises min(|t0-t|, |t1-t|) over the candidates; None is accepted exactly when there is no candidate.
   Ties and several covering files are all accepted. *)
Theorem closest_ok_iff_spec : forall fs q P t r,
  closest_ok fs q P t r = true <-> ClosestSpec fs q P t r.
Proof. exact closest_ok_iff_spec_thm. Qed.

(* the algorithm of the (fixed) code -- exact-name short cut, window t +- P, first covering file, else first
   argmin -- meets the specification for every template, population (any listing order, gaps, overlaps,
   discrete files, ties), timestamp, filters and exclusions, provided the coverages are well formed and the
   timestamp is given at the resolution of the file names (a file named by get_filename(t) covers t) *)
Theorem model_meets_spec : forall tp fill fs q t,
  Forall file_ok fs -> name_hyp tp fill fs t ->
  ClosestSpec fs q (period_of tp) t (closest_model tp fill fs q t).
Proof. exact model_meets_spec_thm. Qed.

(* absence is reported (NoFilesError / None) exactly when no file passing the filters and exclusions lies in the
   neighbourhood -- never a far-away or excluded file instead *)
Theorem none_iff_no_candidate : forall tp fill fs q t,
  Forall file_ok fs -> name_hyp tp fill fs t ->
  (closest_model tp fill fs q t = None <-> forall f, ~ candidate fs q (period_of tp) t f).
Proof. exact none_iff_no_candidate_thm. Qed.

Theorem answer_is_candidate : forall fs q P t i,
  ClosestSpec fs q P t (Some i) ->
  exists g, nth_error fs i = Some g /\ near P t g /\ passes q g = true /\ excluded q g = false.
Proof. exact answer_is_candidate_thm. Qed.

(* the two hypotheses of model_meets_spec are decided by the booleans the correspondence evaluates per case *)
Theorem hyps_decided : forall tp fill fs t,
  forallb file_okb fs && name_hypb tp fill fs t = true <-> Forall file_ok fs /\ name_hyp tp fill fs t.
Proof. exact hyps_decided_thm. Qed.

(* what the correspondence accepts (algo_ok: the checker, or -- only relevant outside the hypotheses -- the exactly
   named file of the short cut) is, under the hypotheses, exactly the specification: a rejected answer of the
   implementation is a counter-example to the property *)
Theorem accepted_iff_spec : forall tp fill fs q t r,
  Forall file_ok fs -> name_hyp tp fill fs t ->
  (algo_ok tp fill fs q t r = true <-> ClosestSpec fs q (period_of tp) t r).
Proof. exact algo_ok_iff_spec_thm. Qed.

(* "t at the resolution of the file names" implies name_hyp, through the round-trip theorems of C02
   (templates without user placeholders to fill; end fields absent or spelt as completely as the start):
   when the coverage of a file is what get_info parses from its name, the file named by get_filename(t)
   starts at t and ends at or after t *)
Theorem exact_name_covers : forall c tp fill f t attrs,
  start_ok tp t -> 1000 <= year (fields t) ->
  (end_fields tp = [] /\ (forall d, coverage c = Some d -> 0 <= d /\ valid (t + d)) \/
   end_full tp = true /\ in_range (end_fields tp) (fields t) = true /\
   at_resolution (end_fields tp) (fields t) = true /\ no_parse_only (end_fields tp) = true) ->
  deterministic fill tp = true -> info_via c = ViaFilename ->
  info c tp (fname f) = Ok (ft0 f, ft1 f, attrs) ->
  render tp t t fill = Ok (fname f) -> ft0 f = t /\ t <= ft1 f.
Proof. exact exact_name_covers_thm. Qed.

(* a single-file fileset always answers with its one file, whatever the timestamp and the filters; this is also
   the answer of the general rule for the one-file population *)
Theorem single_file_always : forall t q, single_model true t q = SPath.
Proof. exact single_file_always_thm. Qed.

Theorem single_file_consistent : forall f t,
  file_ok f -> ClosestSpec [f] (Query false [] [] [] []) None t (Some 0%nat).
Proof. exact single_file_consistent_thm. Qed.

(* the UNCHANGED code (defect #12): the exact-name short cut returns a file that exclude_files excludes.
   Witness: /R/{year}/{month}/{year}{month}{day}T{hour}.dat, two files covering 2018-03-02T00, the one named
   exactly by t excluded; the hypotheses of model_meets_spec hold and the answer violates the specification. *)
Theorem asis_refuted : exists tp fs q t,
  Forall file_ok fs /\ name_hyp tp [] fs t /\
  ~ ClosestSpec fs q (period_of tp) t (closest_asis tp [] fs q t).
Proof.
  exists [Lit (s2l "/R/"); T false FYear; Lit (s2l "/"); T false FMonth; Lit (s2l "/"); T false FYear;
          T false FMonth; T false FDay; Lit (s2l "T"); T false FHour; Lit (s2l ".dat")].
  exists [File (s2l "/R/2018/03/20180302T00.dat") (ymdh 2018 3 2 0) (ymdh 2018 3 2 6) [];
          File (s2l "/R/2018/03/20180301T22.dat") (ymdh 2018 3 1 22) (ymdh 2018 3 2 4) []].
  exists (Query false [] [] [s2l "/R/2018/03/20180302T00.dat"] []).
  exists (ymdh 2018 3 2 0).
  split; [apply all_okb; vm_compute; reflexivity|].
  split; [apply name_hypb_iff; vm_compute; reflexivity|].
  intros H. apply closest_ok_iff_spec_thm in H. vm_compute in H. discriminate H.
Qed.

(* non-vacuity: a template with temporal sub-directories (P = 31 days), overlapping files, a gap with a tie, a
   far-away file; the hypotheses hold; the model takes the short cut, avoids the excluded / filtered-out file,
   picks the nearer end in the gap, accepts both files of a tie and rejects a farther one, and reports absence
   91 days away from every file *)
Example nonvacuous :
  let tp := [Lit (s2l "/R/"); T false FYear; Lit (s2l "/"); T false FMonth; Lit (s2l "/"); U (s2l "sat") (Some UAny);
             Lit (s2l "_"); T false FYear; T false FMonth; T false FDay; Lit (s2l "T"); T false FHour;
             Lit (s2l ".dat")] in
  let tq := [Lit (s2l "/R/"); T false FYear; Lit (s2l "/"); T false FMonth; Lit (s2l "/");
             T false FYear; T false FMonth; T false FDay; Lit (s2l "T"); T false FHour; Lit (s2l ".dat")] in
  let a := [(s2l "sat", s2l "a")] in let b := [(s2l "sat", s2l "b")] in
  let fs := [File (s2l "/R/2018/02/20180227T00.dat") (ymdh 2018 2 27 0) (ymdh 2018 2 27 6) a;
             File (s2l "/R/2018/03/20180302T00.dat") (ymdh 2018 3 2 0) (ymdh 2018 3 2 6) a;
             File (s2l "/R/2018/03/20180301T22.dat") (ymdh 2018 3 1 22) (ymdh 2018 3 2 4) b;
             File (s2l "/R/2018/03/20180304T00.dat") (ymdh 2018 3 4 0) (ymdh 2018 3 4 6) b;
             File (s2l "/R/2018/05/20180501T00.dat") (ymdh 2018 5 1 0) (ymdh 2018 5 1 6) a] in
  let plain := Query false [] [] [] [] in
  let P := Some (31 * us_day) in
  Forall file_ok fs /\ period_of tq = P /\ period_of tp = P /\
  name_hyp tq [] fs (ymdh 2018 3 2 0) /\ name_hyp tq [] fs (ymdh 2018 3 3 3) /\
  closest_model tq [] fs plain (ymdh 2018 3 2 0) = Some 1%nat /\
  closest_model tq [] fs (Query false [] [] [s2l "/R/2018/03/20180302T00.dat"] []) (ymdh 2018 3 2 0) = Some 2%nat /\
  closest_model tq [] fs (Query false [] [] [] [(ymdh 2018 3 2 5, ymdh 2018 3 2 7)]) (ymdh 2018 3 2 0) = Some 2%nat /\
  closest_model tp [] fs (Query true [] [(s2l "sat", [s2l "b"])] [] []) (ymdh 2018 3 2 0) = Some 1%nat /\
  closest_model tp [] fs (Query true [(s2l "sat", [s2l "b"])] [] [] []) (ymdh 2018 3 2 5) = Some 2%nat /\
  closest_model tq [] fs plain (ymdh 2018 3 3 5) = Some 3%nat /\
  closest_ok fs plain P (ymdh 2018 3 3 3) (Some 1%nat) = true /\
  closest_ok fs plain P (ymdh 2018 3 3 3) (Some 3%nat) = true /\
  closest_ok fs plain P (ymdh 2018 3 3 3) (Some 0%nat) = false /\
  closest_ok fs plain P (ymdh 2018 3 3 3) None = false /\
  closest_model tq [] fs plain (ymdh 2018 7 31 0) = None /\
  closest_ok fs plain P (ymdh 2018 7 31 0) (Some 4%nat) = false.
Proof.
  cbv zeta.
  split; [apply all_okb; vm_compute; reflexivity|].
  split; [vm_compute; reflexivity|]. split; [vm_compute; reflexivity|].
  split; [apply name_hypb_iff; vm_compute; reflexivity|].
  split; [apply name_hypb_iff; vm_compute; reflexivity|].
  repeat split; vm_compute; reflexivity.
Qed.

Print Assumptions closest_ok_iff_spec.
Print Assumptions model_meets_spec.
Print Assumptions none_iff_no_candidate.
Print Assumptions answer_is_candidate.
Print Assumptions hyps_decided.
Print Assumptions accepted_iff_spec.
Print Assumptions exact_name_covers.
Print Assumptions single_file_always.
Print Assumptions single_file_consistent.
Print Assumptions asis_refuted.
