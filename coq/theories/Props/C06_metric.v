(* C06 -- the two metrics of GeoIndex are consistent (real analysis; standard-library real axioms).
   ONLY statements, `exact <lemma>`, a non-vacuity example and Print Assumptions.

   chord Re lat1 lon1 lat2 lon2  = Euclidean distance of geocentric2cart(Re, lat1, lon1) and
                                   geocentric2cart(Re, lat2, lon2)      (what the default metric measures)
   angle lat1 lon1 lat2 lon2     = 2 asin sqrt(sin^2(dlat/2) + cos lat1 cos lat2 sin^2(dlon/2))
                                   (what the haversine metric of scikit-learn measures), angles in radians. *)
From Coq Require Import Reals Lra.
From Typhon Require Import Proofs.C06_metric.
Open Scope R_scope.

(* the chord through the Earth is 2 R sin(arc / 2R): both metrics read the same central angle *)
Theorem metric_consistent : forall Re lat1 lon1 lat2 lon2, 0 < Re ->
  chord Re lat1 lon1 lat2 lon2 = 2 * Re * sin (angle lat1 lon1 lat2 lon2 / 2).
Proof. exact chord_of_angle. Qed.

(* the haversine angle is a central angle: between 0 and half a turn, for all coordinates *)
Theorem angle_in_range : forall Re lat1 lon1 lat2 lon2, 0 < Re ->
  0 <= angle lat1 lon1 lat2 lon2 <= PI.
Proof. exact angle_range. Qed.

(* hence both metrics select the same pairs: "arc within a" (a up to half the circumference) is the same
   as "chord within 2 R sin(a/2)" *)
Theorem metrics_select_alike : forall Re lat1 lon1 lat2 lon2, 0 < Re -> forall a, 0 <= a <= PI ->
  (angle lat1 lon1 lat2 lon2 <= a <-> chord Re lat1 lon1 lat2 lon2 <= 2 * Re * sin (a / 2)).
Proof. exact same_selection. Qed.

(* non-vacuity: two antipodal points on the equator of the unit sphere are a chord of 2 apart *)
Example metric_nonvacuous : 0 < 1 /\ chord 1 0 0 0 PI = 2.
Proof.
  split; [lra|]. unfold chord, chord2, cx, cy, cz. rewrite cos_0, sin_0, cos_PI, sin_PI.
  replace ((1 * 1 * 1 - 1 * 1 * -1) ^ 2 + (1 * 1 * 0 - 1 * 1 * 0) ^ 2 + (1 * 0 - 1 * 0) ^ 2) with (2 * 2) by ring.
  apply sqrt_square. lra.
Qed.

Print Assumptions metric_consistent.
Print Assumptions angle_in_range.
Print Assumptions metrics_select_alike.
