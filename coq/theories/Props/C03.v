(* C03 -- property theorems. This file holds ONLY statements, `exact <lemma>`, non-vacuity
   examples and Print Assumptions, so that the statements cannot be weakened quietly. *)
From Coq Require Import ZArith List Bool Permutation Sorted Lia.
From Typhon Require Import Model.C03_tree Proofs.C03_tree Model.C03_match Proofs.C03_match Proofs.C03_fuel
  Model.C03_asis Proofs.C03_asis.
Import ListNotations.
Open Scope Z_scope.

(* IntervalTree(ivs).query(q) = exactly the stored closed intervals that intersect q, each once,
   for every list of well-formed intervals: any order, nesting, duplication, degenerate [a,a],
   zeros, negatives; any query interval (also one covering the whole tree). *)
Theorem query_exact : forall ivs q, Forall wf ivs ->
  Permutation (query ivs q) (map idx (filter (overlaps q) ivs)).
Proof. exact query_correct. Qed.

Theorem query_each_once : forall rows q, Forall (fun '(a, b) => a <= b) rows ->
  NoDup (query (number rows) q).
Proof. intros rows q H. apply query_nodup; [apply number_wf; exact H|apply number_nodup]. Qed.

(* query_points: exactly the intervals containing the point *)
Theorem query_points_exact : forall ivs p, Forall wf ivs ->
  Permutation (query_pt ivs p) (map idx (filter (covers p) ivs)).
Proof. exact query_pt_correct. Qed.

(* `x in tree` is true iff at least one stored interval intersects / contains x *)
Theorem contains_interval_iff : forall ivs q, Forall wf ivs ->
  contains_ivl ivs q = existsb (overlaps q) ivs.
Proof. exact contains_ivl_correct. Qed.

Theorem contains_point_iff : forall ivs p, Forall wf ivs ->
  contains_pt ivs p = existsb (covers p) ivs.
Proof. exact contains_pt_correct. Qed.

(* the answer depends only on the order of the end points, not on their numeric type:
   any strictly monotone relabelling (ranks of floats / datetimes) gives the same indices *)
Theorem rank_invariant : forall phi ivs q,
  (forall a b, a <= b <-> phi a <= phi b) -> Forall wf ivs ->
  Permutation (query (map (relabel phi) ivs) (phi (fst q), phi (snd q))) (query ivs q).
Proof. exact query_relabel. Qed.

(* FileSet.match on the coverages delivered by find(): every primary with exactly the secondaries
   whose coverage widened by max_interval intersects its own, partners in index (= time) order,
   primaries without partner omitted -- equal to the brute-force specification. *)
Theorem match_exact : forall mi prim sec, 0 <= mi -> Forall (fun '(a, b) => a <= b) sec ->
  match_model mi prim sec = match_spec mi prim sec.
Proof. exact match_model_correct. Qed.

(* non-vacuity: unsorted, nested, duplicated, degenerate, zero and negative intervals are well formed,
   and the model computes the brute-force answer on them (also through the whole-span short cut). *)
Example nonvacuous :
  let rows := [(5, 6); (1, 2); (3, 10); (0, 0); (-4, 0); (3, 10); (7, 7)] in
  Forall (fun '(a, b) => a <= b) rows /\
  sort_z (query (number rows) (0, 3)) = [1; 2; 3; 4; 5] /\
  sort_z (query (number rows) (-9, 99)) = [0; 1; 2; 3; 4; 5; 6] /\
  sort_z (query_pt (number rows) 7) = [2; 5; 6] /\
  match_model 1 [(0, 1); (20, 30); (11, 12)] [(5, 6); (1, 2); (3, 10)] = [(0, [1]); (2, [2])].
Proof. vm_compute. repeat split; repeat constructor; discriminate. Qed.

(* ====================================================================================================
   The whole of FileSet.match(other, start, end, max_interval) -- Model/C03_match.v.
   Times are integer microseconds; [dmin, dmax] is the range of datetime (DT_MIN, DT_MAX on the 1970 axis);
   mi / start / end_ = None: argument not given (open side).  prim, sec: the listings of the two filesets
   in the order of find(); the yielded numbers are positions in these listings.
   wperiod = [max(dmin, start - mi), min(dmax, end + mi) - 1us]: the widened and clamped period, closed.
   ==================================================================================================== *)

(* (1) the period clause and the matching, for the four open/closed combinations and the clamp cases alike:
   when the widened period is not empty and holds a file of either fileset, match() yields exactly the
   brute-force specification. *)
Theorem match_full_exact : forall dmin dmax mi start end_ prim sec,
  period_ok dmin dmax mi start end_ ->
  Forall (fun '(a, b) => a <= b) sec ->
  let w := wperiod dmin dmax mi start end_ in
  fst w <= snd w -> find_sel w prim <> [] -> find_sel w sec <> [] ->
  match_full dmin dmax mi start end_ prim sec = Yields (match_full_spec dmin dmax mi start end_ prim sec).
Proof. exact match_full_correct. Qed.

(* the outcome in every case: an empty widened period raises ValueError (OverflowError when end = datetime.min),
   a period without a file of one of the filesets raises NoFilesError, everything else yields the specification *)
Theorem match_full_outcome : forall dmin dmax mi start end_ prim sec,
  period_ok dmin dmax mi start end_ ->
  Forall (fun '(a, b) => a <= b) sec ->
  let w := wperiod dmin dmax mi start end_ in
  match_full dmin dmax mi start end_ prim sec =
  if snd w <? fst w then Raised (if snd w <? dmin then OverflowError else ValueError)
  else match find_sel w prim, find_sel w sec with
       | [], _ => Raised NoFilesError
       | _, [] => Raised NoFilesError
       | _, _ => Yields (match_full_spec dmin dmax mi start end_ prim sec)
       end.
Proof. exact match_full_outcome_lemma. Qed.

(* the same without the specification function: position i of the first listing is yielded iff that file
   overlaps the widened period and has at least one partner; its partner list holds exactly the positions j
   of the second listing whose file overlaps the widened period and whose coverage (whole seconds), widened by
   max_interval (whole seconds) on both sides, intersects the coverage of file i; nothing is yielded twice. *)
Theorem match_full_yields_exactly : forall dmin dmax mi start end_ prim sec out,
  period_ok dmin dmax mi start end_ ->
  Forall (fun '(a, b) => a <= b) sec ->
  match_full dmin dmax mi start end_ prim sec = Yields out ->
  let pe := wperiod dmin dmax mi start end_ in
  let ms := mi_us mi / US in
  let is_partner i j :=
      0 <= j < Z.of_nat (length sec) /\ overlaps pe (file_at sec j) = true /\
      partner ms (file_at prim i) (file_at sec j) = true in
  (forall i, In i (map fst out) <->
             0 <= i < Z.of_nat (length prim) /\ overlaps pe (file_at prim i) = true /\ exists j, is_partner i j) /\
  (forall i js, In (i, js) out -> forall j, In j js <-> is_partner i j) /\
  NoDup (map fst out) /\
  Forall (fun r => NoDup (snd r)) out.
Proof. exact match_full_yields_lemma. Qed.

(* max_interval=None behaves as max_interval=0 *)
Theorem match_none_is_zero : forall dmin dmax start end_ prim sec,
  period_ok dmin dmax None start end_ ->
  match_full dmin dmax None start end_ prim sec = match_full dmin dmax (Some 0) start end_ prim sec.
Proof. exact match_full_none_zero. Qed.

(* for files and a max_interval of whole seconds (every harness file, every time stamp without sub-second
   placeholder) the comparison in seconds is the comparison of the coverages themselves *)
Theorem partner_in_whole_seconds : forall ms p s,
  (US | lo p) -> (US | hi p) -> (US | lo s) -> (US | hi s) ->
  partner ms p s = (lo s - ms * US <=? hi p) && (lo p <=? hi s + ms * US).
Proof. exact partner_whole_seconds. Qed.

(* (2) "in time order".  What the code guarantees: primaries and partners come in the ORDER OF THE LISTINGS of
   find() (strictly increasing positions) ... *)
Theorem match_full_listing_order : forall dmin dmax mi start end_ prim sec out,
  period_ok dmin dmax mi start end_ ->
  Forall (fun '(a, b) => a <= b) sec ->
  match_full dmin dmax mi start end_ prim sec = Yields out ->
  StronglySorted Z.lt (map fst out) /\ Forall (fun r => StronglySorted Z.lt (snd r)) out.
Proof. exact match_full_order_lemma. Qed.

(* ... hence, find() listing by (start, end) (key_le; C01), primaries are yielded with non-decreasing start
   time, those of equal start with non-decreasing end time, and files equal in both in the order find() lists
   them (the order of the directory listing); the same holds inside every partner list. *)
Theorem match_full_time_order : forall dmin dmax mi start end_ prim sec out,
  period_ok dmin dmax mi start end_ ->
  Forall (fun '(a, b) => a <= b) sec ->
  match_full dmin dmax mi start end_ prim sec = Yields out ->
  (StronglySorted key_le prim ->
   StronglySorted key_le (map (fun r => nth (Z.to_nat (fst r)) prim (0, 0)) out) /\
   StronglySorted Z.le (map (fun r => fst (nth (Z.to_nat (fst r)) prim (0, 0))) out)) /\
  (StronglySorted key_le sec ->
   Forall (fun r => StronglySorted key_le (map (fun j => nth (Z.to_nat j) sec (0, 0)) (snd r)) /\
                    StronglySorted Z.le (map (fun j => fst (nth (Z.to_nat j) sec (0, 0))) (snd r))) out).
Proof. exact match_full_time_order_lemma. Qed.

(* non-vacuity: on the real datetime range, files of March 2018 (microseconds since 1970), max_interval 5 s:
   closed, open start, open end, both open, a start 3 s after datetime.min (clamped), an end at datetime.max
   (clamped); an empty period; a period without files. *)
Example match_full_nonvacuous :
  let T := 1519862400000000 in
  let prim := [(T, T + 10000000); (T + 40000000, T + 50000000); (T + 40000000, T + 90000000)] in
  let sec := [(T + 12000000, T + 20000000); (T + 55000000, T + 57000000); (T + 100000000, T + 110000000)] in
  let mi := Some 5000000 in
  period_ok DT_MIN DT_MAX mi (Some (DT_MIN + 3000000)) (Some DT_MAX) /\
  period_ok DT_MIN DT_MAX mi None None /\
  Forall (fun '(a, b) => a <= b) sec /\ StronglySorted key_le prim /\
  match_full DT_MIN DT_MAX mi (Some T) (Some (T + 30000000)) prim sec = Yields [(0, [0])] /\
  match_full DT_MIN DT_MAX mi None (Some (T + 30000000)) prim sec = Yields [(0, [0])] /\
  match_full DT_MIN DT_MAX mi (Some (T + 30000000)) None prim sec = Yields [(1, [1]); (2, [1])] /\
  match_full DT_MIN DT_MAX mi None None prim sec = Yields [(0, [0]); (1, [1]); (2, [1])] /\
  match_full DT_MIN DT_MAX mi (Some (DT_MIN + 3000000)) (Some DT_MAX) prim sec = Yields [(0, [0]); (1, [1]); (2, [1])] /\
  match_full DT_MIN DT_MAX None None None prim sec = Yields [(2, [1])] /\
  match_full DT_MIN DT_MAX None (Some T) (Some T) prim sec = Raised ValueError /\
  match_full DT_MIN DT_MAX mi (Some (T + 200000000)) None prim sec = Raised NoFilesError.
Proof.
  cbv zeta. split; [unfold period_ok, mi_us, default, DT_MIN, DT_MAX; lia|].
  split; [unfold period_ok, mi_us, default, DT_MIN, DT_MAX; lia|].
  split; [repeat constructor; lia|].
  split; [unfold key_le; repeat constructor; cbn [fst snd]; lia|].
  vm_compute. repeat split; reflexivity.
Qed.

(* ====================================================================================================
   (3) The fuel of `build` (= number of rows) is never exhausted -- Proofs/C03_fuel.v
   ==================================================================================================== *)

(* `built l t`: t is the tree _build_tree makes of l, a Leaf for the empty list ONLY.  The fuelled function
   computes it whenever the fuel is at least the number of rows (mk_tree uses exactly that). *)
Theorem build_never_starved : forall fuel l, (length l <= fuel)%nat -> Forall wf l -> built l (build fuel l).
Proof. exact build_built_lemma. Qed.

Theorem built_deterministic : forall l t1, built l t1 -> forall t2, built l t2 -> t1 = t2.
Proof. exact built_unique. Qed.

(* more fuel changes nothing *)
Theorem build_fuel_irrelevant : forall f1 f2 l, (length l <= f1)%nat -> (length l <= f2)%nat -> Forall wf l ->
  build f1 l = build f2 l.
Proof. exact build_fuel_indep. Qed.

Theorem tree_is_built : forall ivs, Forall wf ivs -> built (sort_lo ivs) (mk_tree ivs).
Proof. exact mk_tree_built. Qed.

(* depth: at most the number of intervals; at most log2(n) + 1 when the left ends are distinct *)
Theorem tree_depth_le_size : forall ivs, Forall wf ivs -> (depth (mk_tree ivs) <= length ivs)%nat.
Proof. exact mk_tree_depth. Qed.

Theorem tree_depth_logarithmic : forall ivs k, Forall wf ivs -> NoDup (map lo ivs) -> (length ivs < 2 ^ k)%nat ->
  (depth (mk_tree ivs) <= k)%nat.
Proof. exact mk_tree_depth_log. Qed.

Example fuel_nonvacuous :
  let ivs := number [(5, 6); (1, 2); (3, 10); (0, 0); (-4, 0); (4, 10); (7, 7)] in
  Forall wf ivs /\ NoDup (map lo ivs) /\ (length ivs < 2 ^ 3)%nat /\ depth (mk_tree ivs) = 3%nat /\
  depth (mk_tree (number [(0, 9); (0, 0); (0, 5); (0, 7)])) = 1%nat.
Proof.
  cbv zeta. split; [apply number_wf; repeat constructor; cbn; lia|].
  split; [cbn; repeat constructor; cbn; intuition lia|]. split; [cbn; lia|]. split; vm_compute; reflexivity.
Qed.

(* ====================================================================================================
   (4) The code as it was before the repairs -- Model/C03_asis.v (one switch per repaired defect).
   With the switches off it is the model above; each switch alone refutes the property.
   ==================================================================================================== *)
Theorem asis_switches_off_query : forall ivs q, query_asis flags_off ivs q = query ivs q.
Proof. exact asis_off_query. Qed.

Theorem asis_switches_off_point : forall ivs p fuel, (depth (mk_tree ivs) < fuel)%nat ->
  query_pt_asis flags_off fuel ivs p = Some (query_pt ivs p).
Proof. exact asis_off_point. Qed.

Theorem asis_switches_off_match : forall dmin dmax mi start end_ prim sec,
  period_ok dmin dmax mi start end_ -> start <> None -> end_ <> None ->
  match_full_asis true dmin dmax mi start end_ prim sec = match_full dmin dmax mi start end_ prim sec.
Proof. exact asis_off_match. Qed.

(* 082daed #1: np.sort(axis=0) sorted the columns independently *)
Theorem colsort_asis_refuted : exists rows q,
  Forall wf (number rows) /\
  ~ Permutation (query_asis only_colsort (number rows) q) (spec_query (number rows) q).
Proof. exact asis_colsort_refuted_lemma. Qed.

(* 082daed #2: a query covering the whole tree returned nothing *)
Theorem spannone_asis_refuted : exists rows q,
  Forall wf (number rows) /\
  ~ Permutation (query_asis only_spannone (number rows) q) (spec_query (number rows) q).
Proof. exact asis_spannone_refuted_lemma. Qed.

(* 082daed #3: `if not intervals.any()` dropped a subtree of zeros *)
Theorem anyzero_asis_refuted : exists rows q,
  Forall wf (number rows) /\
  ~ Permutation (query_asis only_anyzero (number rows) q) (spec_query (number rows) q).
Proof. exact asis_anyzero_refuted_lemma. Qed.

(* 082daed #4: _query_point recursed into the same node: no recursion budget suffices *)
Theorem ptself_asis_refuted : exists rows p,
  Forall wf (number rows) /\ spec_points (number rows) p <> [] /\
  forall fuel, query_pt_asis only_ptself fuel (number rows) p = None.
Proof. exact asis_ptself_diverges_lemma. Qed.

(* 26612d6: without clamping, a period within max_interval of datetime.min raised OverflowError *)
Theorem overflow_asis_refuted : exists dmin dmax mi start end_ prim sec,
  period_ok dmin dmax mi start end_ /\
  match_full_asis false dmin dmax mi start end_ prim sec = Raised OverflowError /\
  match_full dmin dmax mi start end_ prim sec = Yields [(0, [0])].
Proof. exact asis_overflow_refuted_lemma. Qed.

(* fdf1ba2: an open start or end together with max_interval became NaT *)
Theorem open_side_asis_refuted : exists dmin dmax mi start end_ prim sec,
  period_ok dmin dmax mi start end_ /\
  match_full_asis true dmin dmax mi start end_ prim sec = Raised NaTError /\
  match_full dmin dmax mi start end_ prim sec = Yields [(0, [0])].
Proof. exact asis_open_side_refuted_lemma. Qed.

Print Assumptions query_exact.
Print Assumptions query_each_once.
Print Assumptions query_points_exact.
Print Assumptions contains_interval_iff.
Print Assumptions contains_point_iff.
Print Assumptions rank_invariant.
Print Assumptions match_exact.
Print Assumptions match_full_exact.
Print Assumptions match_full_outcome.
Print Assumptions match_full_yields_exactly.
Print Assumptions match_none_is_zero.
Print Assumptions partner_in_whole_seconds.
Print Assumptions match_full_listing_order.
Print Assumptions match_full_time_order.
Print Assumptions build_never_starved.
Print Assumptions built_deterministic.
Print Assumptions build_fuel_irrelevant.
Print Assumptions tree_is_built.
Print Assumptions tree_depth_le_size.
Print Assumptions tree_depth_logarithmic.
Print Assumptions asis_switches_off_query.
Print Assumptions asis_switches_off_point.
Print Assumptions asis_switches_off_match.
Print Assumptions colsort_asis_refuted.
Print Assumptions spannone_asis_refuted.
Print Assumptions anyzero_asis_refuted.
Print Assumptions ptself_asis_refuted.
Print Assumptions overflow_asis_refuted.
Print Assumptions open_side_asis_refuted.
