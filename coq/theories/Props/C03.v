(* C03 -- property theorems. This file holds ONLY statements, `exact <lemma>`, non-vacuity
   examples and Print Assumptions, so that the statements cannot be weakened quietly. *)
From Coq Require Import ZArith List Bool Permutation.
From Typhon Require Import Model.C03_tree Proofs.C03_tree.
Import ListNotations.
Open Scope Z_scope.

(* IntervalTree(ivs).query(q) = exactly the stored closed intervals that intersect q, each once,
   for every list of well-formed intervals: any order, nesting, duplication, degenerate [a,a],
   zeros, negatives; any query interval (also one covering the whole tree). *)
Theorem query_exact : forall ivs q, Forall wf ivs ->
  Permutation (query ivs q) (map idx (filter (overlaps q) ivs)).
Proof. exact query_correct. Qed.

Theorem query_each_once : forall rows q, Forall (fun '(a, b) => a <= b) rows ->
  NoDup (query (number rows) q).
Proof. intros rows q H. apply query_nodup; [apply number_wf; exact H|apply number_nodup]. Qed.

(* query_points: exactly the intervals containing the point *)
Theorem query_points_exact : forall ivs p, Forall wf ivs ->
  Permutation (query_pt ivs p) (map idx (filter (covers p) ivs)).
Proof. exact query_pt_correct. Qed.

(* `x in tree` is true iff at least one stored interval intersects / contains x *)
Theorem contains_interval_iff : forall ivs q, Forall wf ivs ->
  contains_ivl ivs q = existsb (overlaps q) ivs.
Proof. exact contains_ivl_correct. Qed.

Theorem contains_point_iff : forall ivs p, Forall wf ivs ->
  contains_pt ivs p = existsb (covers p) ivs.
Proof. exact contains_pt_correct. Qed.

(* the answer depends only on the order of the end points, not on their numeric type:
   any strictly monotone relabelling (ranks of floats / datetimes) gives the same indices *)
Theorem rank_invariant : forall phi ivs q,
  (forall a b, a <= b <-> phi a <= phi b) -> Forall wf ivs ->
  Permutation (query (map (relabel phi) ivs) (phi (fst q), phi (snd q))) (query ivs q).
Proof. exact query_relabel. Qed.

(* FileSet.match on the coverages delivered by find(): every primary with exactly the secondaries
   whose coverage widened by max_interval intersects its own, partners in index (= time) order,
   primaries without partner omitted -- equal to the brute-force specification. *)
Theorem match_exact : forall mi prim sec, 0 <= mi -> Forall (fun '(a, b) => a <= b) sec ->
  match_model mi prim sec = match_spec mi prim sec.
Proof. exact match_model_correct. Qed.

(* non-vacuity: unsorted, nested, duplicated, degenerate, zero and negative intervals are well formed,
   and the model computes the brute-force answer on them (also through the whole-span short cut). *)
Example nonvacuous :
  let rows := [(5, 6); (1, 2); (3, 10); (0, 0); (-4, 0); (3, 10); (7, 7)] in
  Forall (fun '(a, b) => a <= b) rows /\
  sort_z (query (number rows) (0, 3)) = [1; 2; 3; 4; 5] /\
  sort_z (query (number rows) (-9, 99)) = [0; 1; 2; 3; 4; 5; 6] /\
  sort_z (query_pt (number rows) 7) = [2; 5; 6] /\
  match_model 1 [(0, 1); (20, 30); (11, 12)] [(5, 6); (1, 2); (3, 10)] = [(0, [1]); (2, [2])].
Proof. vm_compute. repeat split; repeat constructor; discriminate. Qed.

Print Assumptions query_exact.
Print Assumptions query_each_once.
Print Assumptions query_points_exact.
Print Assumptions contains_interval_iff.
Print Assumptions contains_point_iff.
Print Assumptions rank_invariant.
Print Assumptions match_exact.
