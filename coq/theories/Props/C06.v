(* C06 -- property theorems. This file holds ONLY statements, `exact <lemma>`, non-vacuity examples and
   Print Assumptions, so that the statements cannot be weakened quietly.

   Reading guide (Model/C06_geoindex.v): build point i and query point j are positions in the arrays as
   passed in; `dist i j` is their distance in the unit of the tree; `shuffler` is GeoIndex.shuffler (None
   for shuffle=False), `sigma` the permutation it stands for; `rq j` is what tree.query_radius answered for
   query point j as (stored position, distance); `rq_spec` says that this answer is, up to order, the stored
   positions within the radius with their distances (the scikit-learn tree is a Section variable with this
   explicit hypothesis -- Ball or KD tree, any leaf size).  `query_model` is the code of GeoIndex.query,
   `spec` the brute-force definition: filter over all index pairs. *)
From Coq Require Import String ZArith QArith List Bool Permutation.
From Typhon Require Import Model.C06_geoindex Proofs.C06_geoindex.
Import ListNotations.

(* For EVERY permutation the shuffle may draw and every correct tree the result is exactly the pairs
   (i, j) with dist i j within the radius, indices referring to the arrays as passed in, each with its own
   distance converted to kilometres. *)
Theorem pairs_exact_any_perm :
  forall (D K : Type) (n m : nat) (dist : nat -> nat -> D) (within : D -> bool) (out : D -> K)
         (shuffler : option (list nat)) (rq : nat -> list (nat * D)),
  Permutation (sigma n shuffler) (seq 0 n) ->
  rq_spec D n m dist within shuffler rq ->
  Permutation (query_model D K m out shuffler rq)
              (map (fun ij => (fst ij, snd ij, out (dist (fst ij) (snd ij))))
                   (filter (fun ij => within (dist (fst ij) (snd ij))) (list_prod (seq 0 n) (seq 0 m)))).
Proof. exact model_perm_spec. Qed.

(* ... each pair once *)
Theorem pairs_each_once :
  forall D K n m dist within out shuffler rq,
  Permutation (sigma n shuffler) (seq 0 n) -> rq_spec D n m dist within shuffler rq ->
  NoDup (map (idx K) (query_model D K m out shuffler rq)).
Proof. exact model_idx_NoDup. Qed.

(* ... the distance reported next to a pair is the distance of that pair *)
Theorem distances_aligned :
  forall D K n m dist within out shuffler rq,
  Permutation (sigma n shuffler) (seq 0 n) -> rq_spec D n m dist within shuffler rq ->
  forall x, In x (query_model D K m out shuffler rq) -> snd x = out (dist (fst (fst x)) (snd (fst x))).
Proof. exact model_aligned. Qed.

(* shuffle=False (shuffler None) is the identity permutation: the theorems above apply to it *)
Theorem no_shuffle_is_identity : forall n, Permutation (sigma n None) (seq 0 n).
Proof. exact sigma_none_perm. Qed.

(* The result does not depend on the permutation drawn, on shuffle on/off, on the tree class or leaf size:
   two indexes over the same points, each with a correct tree of its own, answer alike. *)
Theorem shuffle_and_tree_independent :
  forall D K n m dist within out s1 s2 rq1 rq2,
  Permutation (sigma n s1) (seq 0 n) -> Permutation (sigma n s2) (seq 0 n) ->
  rq_spec D n m dist within s1 rq1 -> rq_spec D n m dist within s2 rq2 ->
  Permutation (query_model D K m out s1 rq1) (query_model D K m out s2 rq2).
Proof. exact model_independent. Qed.

(* Kilometres.  R = earth_radius [m] > 0.  The tree works in metres (chord, default metric) or radians
   (central angle, haversine); tree_km is what such a distance is in kilometres (chord/1000, R*angle/1000).
   With the radius handed to the tree as the code computes it (r_tree) the result is exactly the pairs whose
   distance IN KILOMETRES is at most r IN KILOMETRES, each with that distance in kilometres
   (entries equal up to == on the rational distance). *)
Theorem radius_and_distances_in_km :
  forall R mt r_km n m dist shuffler rq, 0 < R ->
  Permutation (sigma n shuffler) (seq 0 n) ->
  rq_spec Q n m dist (within_tree R mt r_km) shuffler rq ->
  exists l, Permutation (geo_query R mt shuffler rq m) l /\
            Forall2 same_entry l
              (map (fun ij => (fst ij, snd ij, tree_km R mt (dist (fst ij) (snd ij))))
                   (filter (fun ij => Qle_bool (tree_km R mt (dist (fst ij) (snd ij))) r_km)
                           (list_prod (seq 0 n) (seq 0 m)))).
Proof. exact geo_query_exact. Qed.

(* the radius enters only through its value in kilometres: a tree that is correct for r1 is correct for
   every r2 == r1 (so '5 km' and '5000 m', equal by Props/C06_units.v, give the same result) *)
Theorem radius_only_by_value :
  forall R mt r1 r2 n m dist shuffler rq, r1 == r2 ->
  rq_spec Q n m dist (within_tree R mt r1) shuffler rq -> rq_spec Q n m dist (within_tree R mt r2) shuffler rq.
Proof. exact rq_spec_Qeq. Qed.

(* The code AS FOUND (before fixes/C06_1, C06_2) does not have the property; both statements are about
   the as-is definitions of the model and are kept as the record of the findings. *)
Theorem asis_any_shortcut_refuted :
  let rq := rq_brute Z 3 cx_dist cx_within cx_shuffler in
  Permutation (sigma 3 cx_shuffler) (seq 0 3) /\
  rq_spec Z 3 1 cx_dist cx_within cx_shuffler rq /\
  query_asis_pairs Z 1 cx_shuffler rq = [(0%nat, 0%nat)] /\
  map (idx Z) (spec Z Z 3 1 cx_dist cx_within (fun d => d)) = [(2%nat, 0%nat)].
Proof. exact asis_any_refuted. Qed.

Theorem asis_haversine_km_refuted :
  exists R d, 0 < R /\ ~ out_km_asis R Haversine d == tree_km R Haversine d.
Proof. exact asis_haversine_refuted. Qed.

(* non-vacuity: five build points (two of them at the same place), three query points, the shuffler
   [3;0;4;1;2], a tree that answers in reverse order: the hypotheses hold and the result is the expected
   one -- query 0 is next to build points 1 and 3, query 1 next to build point 0 only, query 2 next to none;
   the single-pair-at-position-zero situation of the as-is defect is part of it. *)
Definition ex_dist (i j : nat) : Z :=
  match i, j with
  | 1%nat, 0%nat => 3 | 3%nat, 0%nat => 3 | 0%nat, 1%nat => 5 | _, _ => 70
  end%Z.
Definition ex_within (d : Z) : bool := (d <=? 10)%Z.
Definition ex_shuffler := Some [3%nat; 0%nat; 4%nat; 1%nat; 2%nat].
Definition ex_rq (j : nat) := rev (rq_brute Z 5 ex_dist ex_within ex_shuffler j).

Example nonvacuous :
  Permutation (sigma 5 ex_shuffler) (seq 0 5) /\
  rq_spec Z 5 3 ex_dist ex_within ex_shuffler ex_rq /\
  query_model Z Z 3 (fun d => (d * 2)%Z) ex_shuffler ex_rq = [(1, 0, 6%Z); (3, 0, 6%Z); (0, 1, 10%Z)]%nat /\
  spec Z Z 5 3 ex_dist ex_within (fun d => (d * 2)%Z) = [(0, 1, 10%Z); (1, 0, 6%Z); (3, 0, 6%Z)]%nat.
Proof.
  split; [|split; [|split]].
  - unfold sigma, ex_shuffler. apply NoDup_Permutation.
    + repeat constructor; cbn; intuition discriminate.
    + apply seq_NoDup.
    + intros x. cbn. intuition (subst; auto).
  - intros j _. unfold ex_rq. apply Permutation_sym. apply Permutation_rev.
  - vm_compute. reflexivity.
  - vm_compute. reflexivity.
Qed.

Print Assumptions pairs_exact_any_perm.
Print Assumptions pairs_each_once.
Print Assumptions distances_aligned.
Print Assumptions no_shuffle_is_identity.
Print Assumptions shuffle_and_tree_independent.
Print Assumptions radius_and_distances_in_km.
Print Assumptions radius_only_by_value.
Print Assumptions asis_any_shortcut_refuted.
Print Assumptions asis_haversine_km_refuted.
