(* C17 -- optimal-estimation matrices satisfy their defining identities.
   The theorems are about the definitions GENERATED from typhon/retrieval/oem/{common,error}.py
   (coq/gen/oem.v, regenerated from the tree under test on every run): a wrong transpose, inverse or factor
   order in the source makes this file (or coq/gen/oem.v itself) fail to compile.
   F is any ordered field (realFieldType), K is (m+1) x (n+1) for arbitrary m, n (under- and over-determined),
   "SPD" is `spd`: M^T = M and x^T M x > 0 for all x <> 0 (Model/C17_oem.v).  No invertibility hypotheses:
   they are consequences of SPD (Proofs: posdef_unit). *)
Set Warnings "-notation-overridden,-ambiguous-paths".
From mathcomp Require Import all_ssreflect all_algebra.
From TyphonGen Require Import oem.
From Typhon Require Import Model.C17_oem Proofs.C17_oem.
Import GRing.Theory Num.Theory.
Local Open Scope ring_scope.

(* error_covariance_matrix = (K^T Sy^-1 K + Sa^-1)^-1, and that inverse exists (two-sided) *)
Theorem S_defining : forall (F : realFieldType) (m n : nat)
    (K : 'M[F]_(m.+1, n.+1)) (Sa : 'M[F]_(n.+1)) (Sy : 'M[F]_(m.+1)), spd Sa -> spd Sy ->
  let S := error_covariance_matrix K Sa Sy in
  let N := K^T *m invmx Sy *m K + invmx Sa in
  S = invmx N /\ S *m N = 1%:M /\ N *m S = 1%:M.
Proof. move=> F m n K Sa Sy ha hy /=; split; [exact: S_unfold | exact: spd_S_defining]. Qed.

(* ... is symmetric positive definite *)
Theorem S_symmetric_positive_definite : forall (F : realFieldType) (m n : nat)
    (K : 'M[F]_(m.+1, n.+1)) (Sa : 'M[F]_(n.+1)) (Sy : 'M[F]_(m.+1)), spd Sa -> spd Sy ->
  spd (error_covariance_matrix K Sa Sy).
Proof. exact: spd_S_spd. Qed.

(* ... and not larger than Sa:  x^T (Sa - S) x >= 0 for every x *)
Theorem S_le_Sa : forall (F : realFieldType) (m n : nat)
    (K : 'M[F]_(m.+1, n.+1)) (Sa : 'M[F]_(n.+1)) (Sy : 'M[F]_(m.+1)), spd Sa -> spd Sy ->
  forall x : 'cV[F]_(n.+1), 0 <= (x^T *m (Sa - error_covariance_matrix K Sa Sy) *m x) 0 0.
Proof. move=> F m n K Sa Sy ha hy x; exact: (spd_S_le_Sa K ha hy x). Qed.

(* retrieval_gain_matrix = S K^T Sy^-1 *)
Theorem gain_is_S_KT_Syinv : forall (F : fieldType) (m n : nat)
    (K : 'M[F]_(m.+1, n.+1)) (Sa : 'M[F]_(n.+1)) (Sy : 'M[F]_(m.+1)),
  retrieval_gain_matrix K Sa Sy = error_covariance_matrix K Sa Sy *m K^T *m invmx Sy.
Proof. exact: G_is_S_KT_Syinv. Qed.

(* CORE: ... = the measurement-space form Sa K^T (K Sa K^T + Sy)^-1   (push-through identity) *)
Theorem gain_m_form : forall (F : realFieldType) (m n : nat)
    (K : 'M[F]_(m.+1, n.+1)) (Sa : 'M[F]_(n.+1)) (Sy : 'M[F]_(m.+1)), spd Sa -> spd Sy ->
  retrieval_gain_matrix K Sa Sy = Sa *m K^T *m invmx (K *m Sa *m K^T + Sy)
  /\ (K *m Sa *m K^T + Sy) \in unitmx.
Proof. move=> F m n K Sa Sy ha hy; split; [exact: spd_G_m_form | exact: spd_unit (M_spd K ha hy)]. Qed.

(* the same identity over ANY field, from the bare invertibility of the four matrices (DESIGN A.9) *)
Theorem gain_m_form_units : forall (F : fieldType) (m n : nat)
    (K : 'M[F]_(m.+1, n.+1)) (Sa : 'M[F]_(n.+1)) (Sy : 'M[F]_(m.+1)),
  Sa \in unitmx -> Sy \in unitmx -> (K^T *m invmx Sy *m K + invmx Sa) \in unitmx ->
  (K *m Sa *m K^T + Sy) \in unitmx ->
  retrieval_gain_matrix K Sa Sy = Sa *m K^T *m invmx (K *m Sa *m K^T + Sy).
Proof. exact: G_m_form. Qed.

(* averaging_kernel_matrix = G K = I - S Sa^-1 *)
Theorem A_eq_GK : forall (F : fieldType) (m n : nat)
    (K : 'M[F]_(m.+1, n.+1)) (Sa : 'M[F]_(n.+1)) (Sy : 'M[F]_(m.+1)),
  averaging_kernel_matrix K Sa Sy = retrieval_gain_matrix K Sa Sy *m K.
Proof. exact: A_unfold. Qed.

Theorem A_eq_I_minus_S_Sainv : forall (F : realFieldType) (m n : nat)
    (K : 'M[F]_(m.+1, n.+1)) (Sa : 'M[F]_(n.+1)) (Sy : 'M[F]_(m.+1)), spd Sa -> spd Sy ->
  averaging_kernel_matrix K Sa Sy = 1%:M - error_covariance_matrix K Sa Sy *m invmx Sa.
Proof. exact: spd_A_eq_I_minus. Qed.

(* eigenvalues of A in [0,1): proved for every eigenvalue that lies in F (mathcomp's `eigenvalue A a`:
   v A = a v for some row vector v <> 0; A and A^T have the same eigenvalues).
   _partial: NOT proved is that A has a full set of eigenvalues in F = R (A is similar to the symmetric matrix
   S^(1/2) K^T Sy^-1 K S^(1/2); this needs the spectral theorem, which the installed libraries lack), i.e.
   complex eigenvalues are not excluded by this theorem.  The numeric sweep checks the whole spectrum. *)
Theorem A_eigenvalues_in_unit_interval_partial : forall (F : realFieldType) (m n : nat)
    (K : 'M[F]_(m.+1, n.+1)) (Sa : 'M[F]_(n.+1)) (Sy : 'M[F]_(m.+1)), spd Sa -> spd Sy ->
  forall a : F, eigenvalue (averaging_kernel_matrix K Sa Sy) a -> 0 <= a < 1.
Proof. exact: spd_A_eigenvalue_bounds. Qed.

(* The two limits.  Proved: explicit bounds that are LINEAR in the scaling factor, for every x --
     prior d*Sa:   A_d = S_d (K^T Sy^-1 K)  and  0 <= x^T S_d x <= d x^T Sa x;
     noise e*Sy (K of full column rank: K x <> 0 for x <> 0):
                   A_e = I - S_e Sa^-1      and  0 <= x^T S_e x <= e x^T (K^T Sy^-1 K)^-1 x.
   _partial: NOT formalised is the passage to the limit itself (no topology on matrices in the installed
   libraries): S_d, S_e are symmetric, so each entry is a combination of three such quadratic forms and tends to
   zero with d resp. e; hence A_d -> 0 and A_e -> I.  The numeric sweep checks ||A_d|| and ||I - A_e|| against the
   corresponding norm bounds for factors down to 1e-8. *)
Theorem A_vanishing_prior_bound_partial : forall (F : realFieldType) (m n : nat)
    (K : 'M[F]_(m.+1, n.+1)) (Sa : 'M[F]_(n.+1)) (Sy : 'M[F]_(m.+1)), spd Sa -> spd Sy ->
  forall d : F, 0 < d ->
  let S_d := error_covariance_matrix K (d *: Sa) Sy in
  averaging_kernel_matrix K (d *: Sa) Sy = S_d *m (K^T *m invmx Sy *m K) /\
  forall x : 'cV[F]_(n.+1), 0 <= (x^T *m S_d *m x) 0 0 <= d * (x^T *m Sa *m x) 0 0.
Proof. exact: prior_scaling_bound. Qed.

Theorem A_vanishing_noise_bound_partial : forall (F : realFieldType) (m n : nat)
    (K : 'M[F]_(m.+1, n.+1)) (Sa : 'M[F]_(n.+1)) (Sy : 'M[F]_(m.+1)), spd Sa -> spd Sy ->
  (forall x : 'cV[F]_(n.+1), x != 0 -> K *m x != 0) ->
  forall e : F, 0 < e ->
  let S_e := error_covariance_matrix K Sa (e *: Sy) in
  averaging_kernel_matrix K Sa (e *: Sy) = 1%:M - S_e *m invmx Sa /\
  forall x : 'cV[F]_(n.+1),
    0 <= (x^T *m S_e *m x) 0 0 <= e * (x^T *m invmx (K^T *m invmx Sy *m K) *m x) 0 0.
Proof. exact: noise_scaling_bound. Qed.

(* smoothing_error and retrieval_noise are the linear maps A (x - x_a) and G e_y *)
Theorem smoothing_error_is_A_dx : forall (F : fieldType) (n : nat) (x xa : 'cV[F]_(n.+1)) (A : 'M[F]_(n.+1)),
  smoothing_error x xa A = A *m (x - xa).
Proof. exact: smoothing_unfold. Qed.

Theorem retrieval_noise_is_G_ey : forall (F : fieldType) (m n : nat)
    (K : 'M[F]_(m.+1, n.+1)) (Sa : 'M[F]_(n.+1)) (Sy : 'M[F]_(m.+1)) (e : 'cV[F]_(m.+1)),
  retrieval_noise K Sa Sy e = retrieval_gain_matrix K Sa Sy *m e.
Proof. exact: noise_unfold. Qed.

(* non-vacuity: over the rationals, for 2 measurements of 3 state variables (and every other shape), every pair
   of correlated covariances C^T C + I, D^T D + I meets the hypotheses, whatever the Jacobian. *)
Example nonvacuous : forall (C : 'M[rat]_3) (D : 'M[rat]_2) (K : 'M[rat]_(2, 3)),
  spd (C^T *m C + 1%:M) /\ spd (D^T *m D + 1%:M) /\
  retrieval_gain_matrix K (C^T *m C + 1%:M) (D^T *m D + 1%:M)
    = (C^T *m C + 1%:M) *m K^T *m invmx (K *m (C^T *m C + 1%:M) *m K^T + (D^T *m D + 1%:M)).
Proof.
move=> C D K; split; first exact: spd_gram.
split; first exact: spd_gram.
exact: (spd_G_m_form K (spd_gram C) (spd_gram D)).
Qed.

(* non-vacuity of the full-column-rank hypothesis: the identity Jacobian (direct measurement of the state) *)
Example nonvacuous_full_rank : forall x : 'cV[rat]_3, x != 0 -> (1%:M : 'M[rat]_3) *m x != 0.
Proof. by move=> x xn0; rewrite mul1mx. Qed.

Print Assumptions S_defining.
Print Assumptions S_symmetric_positive_definite.
Print Assumptions S_le_Sa.
Print Assumptions gain_is_S_KT_Syinv.
Print Assumptions gain_m_form.
Print Assumptions gain_m_form_units.
Print Assumptions A_eq_GK.
Print Assumptions A_eq_I_minus_S_Sainv.
Print Assumptions A_eigenvalues_in_unit_interval_partial.
Print Assumptions A_vanishing_prior_bound_partial.
Print Assumptions A_vanishing_noise_bound_partial.
Print Assumptions smoothing_error_is_A_dx.
Print Assumptions retrieval_noise_is_G_ey.
