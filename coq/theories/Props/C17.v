(* C17 -- optimal-estimation matrices satisfy their defining identities.
   The theorems are about the definitions GENERATED from typhon/retrieval/oem/{common,error}.py
   (coq/gen/oem.v, regenerated from the tree under test on every run): a wrong transpose, inverse or factor
   order in the source makes this file (or coq/gen/oem.v itself) fail to compile.
   F is any ordered field (realFieldType), K is (m+1) x (n+1) for arbitrary m, n (under- and over-determined),
   "SPD" is `spd`: M^T = M and x^T M x > 0 for all x <> 0 (Model/C17_oem.v).  No invertibility hypotheses:
   they are consequences of SPD (Proofs: posdef_unit).
   Spectral clause: Proofs/C17_selfadjoint.v (every ordered field) and Proofs/C17_complex.v (real closed fields, whole
   complex spectrum); the two limits as epsilon-delta statements: Proofs/C17_limits.v.  Nothing here is `_partial` any
   more; what is not constructed is an eigenbasis of A (see the comment at A_complex_spectrum_in_unit_interval). *)
Set Warnings "-notation-overridden,-ambiguous-paths".
From mathcomp Require Import all_ssreflect all_algebra.
From mathcomp Require Import complex realalg.
From TyphonGen Require Import oem.
From Typhon Require Import Model.C17_oem Proofs.C17_oem Proofs.C17_limits Proofs.C17_selfadjoint Proofs.C17_complex.
Import GRing.Theory Num.Theory.
Local Open Scope ring_scope.

(* error_covariance_matrix = (K^T Sy^-1 K + Sa^-1)^-1, and that inverse exists (two-sided) *)
Theorem S_defining : forall (F : realFieldType) (m n : nat)
    (K : 'M[F]_(m.+1, n.+1)) (Sa : 'M[F]_(n.+1)) (Sy : 'M[F]_(m.+1)), spd Sa -> spd Sy ->
  let S := error_covariance_matrix K Sa Sy in
  let N := K^T *m invmx Sy *m K + invmx Sa in
  S = invmx N /\ S *m N = 1%:M /\ N *m S = 1%:M.
Proof. move=> F m n K Sa Sy ha hy /=; split; [exact: S_unfold | exact: spd_S_defining]. Qed.

(* ... is symmetric positive definite *)
Theorem S_symmetric_positive_definite : forall (F : realFieldType) (m n : nat)
    (K : 'M[F]_(m.+1, n.+1)) (Sa : 'M[F]_(n.+1)) (Sy : 'M[F]_(m.+1)), spd Sa -> spd Sy ->
  spd (error_covariance_matrix K Sa Sy).
Proof. exact: spd_S_spd. Qed.

(* ... and not larger than Sa:  x^T (Sa - S) x >= 0 for every x *)
Theorem S_le_Sa : forall (F : realFieldType) (m n : nat)
    (K : 'M[F]_(m.+1, n.+1)) (Sa : 'M[F]_(n.+1)) (Sy : 'M[F]_(m.+1)), spd Sa -> spd Sy ->
  forall x : 'cV[F]_(n.+1), 0 <= (x^T *m (Sa - error_covariance_matrix K Sa Sy) *m x) 0 0.
Proof. move=> F m n K Sa Sy ha hy x; exact: (spd_S_le_Sa K ha hy x). Qed.

(* retrieval_gain_matrix = S K^T Sy^-1 *)
Theorem gain_is_S_KT_Syinv : forall (F : fieldType) (m n : nat)
    (K : 'M[F]_(m.+1, n.+1)) (Sa : 'M[F]_(n.+1)) (Sy : 'M[F]_(m.+1)),
  retrieval_gain_matrix K Sa Sy = error_covariance_matrix K Sa Sy *m K^T *m invmx Sy.
Proof. exact: G_is_S_KT_Syinv. Qed.

(* CORE: ... = the measurement-space form Sa K^T (K Sa K^T + Sy)^-1   (push-through identity) *)
Theorem gain_m_form : forall (F : realFieldType) (m n : nat)
    (K : 'M[F]_(m.+1, n.+1)) (Sa : 'M[F]_(n.+1)) (Sy : 'M[F]_(m.+1)), spd Sa -> spd Sy ->
  retrieval_gain_matrix K Sa Sy = Sa *m K^T *m invmx (K *m Sa *m K^T + Sy)
  /\ (K *m Sa *m K^T + Sy) \in unitmx.
Proof. move=> F m n K Sa Sy ha hy; split; [exact: spd_G_m_form | exact: spd_unit (M_spd K ha hy)]. Qed.

(* the same identity over ANY field, from the bare invertibility of the four matrices (DESIGN A.9) *)
Theorem gain_m_form_units : forall (F : fieldType) (m n : nat)
    (K : 'M[F]_(m.+1, n.+1)) (Sa : 'M[F]_(n.+1)) (Sy : 'M[F]_(m.+1)),
  Sa \in unitmx -> Sy \in unitmx -> (K^T *m invmx Sy *m K + invmx Sa) \in unitmx ->
  (K *m Sa *m K^T + Sy) \in unitmx ->
  retrieval_gain_matrix K Sa Sy = Sa *m K^T *m invmx (K *m Sa *m K^T + Sy).
Proof. exact: G_m_form. Qed.

(* averaging_kernel_matrix = G K = I - S Sa^-1 *)
Theorem A_eq_GK : forall (F : fieldType) (m n : nat)
    (K : 'M[F]_(m.+1, n.+1)) (Sa : 'M[F]_(n.+1)) (Sy : 'M[F]_(m.+1)),
  averaging_kernel_matrix K Sa Sy = retrieval_gain_matrix K Sa Sy *m K.
Proof. exact: A_unfold. Qed.

Theorem A_eq_I_minus_S_Sainv : forall (F : realFieldType) (m n : nat)
    (K : 'M[F]_(m.+1, n.+1)) (Sa : 'M[F]_(n.+1)) (Sy : 'M[F]_(m.+1)), spd Sa -> spd Sy ->
  averaging_kernel_matrix K Sa Sy = 1%:M - error_covariance_matrix K Sa Sy *m invmx Sa.
Proof. exact: spd_A_eq_I_minus. Qed.

(* ---- the spectral clause "eigenvalues in [0, 1)" ------------------------------------------------------------
   A = G K is not symmetric, but it is SELF-ADJOINT for the inner product <x, y> = x^T Sa^-1 y (Sa^-1 A is
   symmetric) and its Rayleigh quotient x^T Sa^-1 A x / x^T Sa^-1 x lies in [0, 1): the coordinate-free form of
   "all eigenvalues real and in [0, 1)".  Over every ordered field F (no square roots, no spectral theorem): *)
Theorem A_symmetrised : forall (F : realFieldType) (m n : nat)
    (K : 'M[F]_(m.+1, n.+1)) (Sa : 'M[F]_(n.+1)) (Sy : 'M[F]_(m.+1)), spd Sa -> spd Sy ->
  let A := averaging_kernel_matrix K Sa Sy in
  (invmx Sa *m A)^T = invmx Sa *m A /\
  forall x : 'cV[F]_(n.+1), x != 0 ->
    0 <= (x^T *m (invmx Sa *m A) *m x) 0 0 < (x^T *m invmx Sa *m x) 0 0.
Proof. exact: spd_A_symmetrised. Qed.

(* every eigenvalue of A that lies in F (mathcomp's `eigenvalue A a`: v A = a v for some row vector v <> 0) is in [0,1) *)
Theorem A_eigenvalues_in_unit_interval : forall (F : realFieldType) (m n : nat)
    (K : 'M[F]_(m.+1, n.+1)) (Sa : 'M[F]_(n.+1)) (Sy : 'M[F]_(m.+1)), spd Sa -> spd Sy ->
  forall a : F, eigenvalue (averaging_kernel_matrix K Sa Sy) a -> 0 <= a < 1.
Proof. exact: spd_A_eigenvalue_bounds. Qed.

(* A has no eigenvalue with a non-zero imaginary part in F[i], written out in real and imaginary parts:
   A (u + i v) = (a + i b) (u + i v) with u + i v <> 0 forces b = 0, and then 0 <= a < 1 *)
Theorem A_complex_eigenpairs_real : forall (F : realFieldType) (m n : nat)
    (K : 'M[F]_(m.+1, n.+1)) (Sa : 'M[F]_(n.+1)) (Sy : 'M[F]_(m.+1)), spd Sa -> spd Sy ->
  let A := averaging_kernel_matrix K Sa Sy in
  forall (a b : F) (u v : 'cV[F]_(n.+1)), (u != 0) || (v != 0) ->
  A *m u = a *: u - b *: v -> A *m v = b *: u + a *: v -> b = 0 /\ 0 <= a < 1.
Proof. exact: spd_A_complex_eigenpair. Qed.

(* no Jordan blocks: a generalised eigenvector of rank 2 is an eigenvector (for every a in F) *)
Theorem A_semisimple : forall (F : realFieldType) (m n : nat)
    (K : 'M[F]_(m.+1, n.+1)) (Sa : 'M[F]_(n.+1)) (Sy : 'M[F]_(m.+1)), spd Sa -> spd Sy ->
  let A := averaging_kernel_matrix K Sa Sy in
  forall (a : F) (x : 'cV[F]_(n.+1)), (A - a%:M) *m ((A - a%:M) *m x) = 0 -> (A - a%:M) *m x = 0.
Proof. exact: spd_A_semisimple. Qed.

(* eigenvectors for different eigenvalues are orthogonal for x^T Sa^-1 y *)
Theorem A_eigenvectors_orthogonal : forall (F : realFieldType) (m n : nat)
    (K : 'M[F]_(m.+1, n.+1)) (Sa : 'M[F]_(n.+1)) (Sy : 'M[F]_(m.+1)), spd Sa -> spd Sy ->
  let A := averaging_kernel_matrix K Sa Sy in
  forall (a1 a2 : F) (x y : 'cV[F]_(n.+1)),
  A *m x = a1 *: x -> A *m y = a2 *: y -> a1 != a2 -> (x^T *m invmx Sa *m y) 0 0 = 0.
Proof. exact: spd_A_eigenvectors_orthogonal. Qed.

(* Over a REAL CLOSED field R (the reals, the real algebraic numbers) R[i] is algebraically closed (mathcomp
   real_closed), so the following two are about the WHOLE spectrum: every eigenvalue of A in R[i] is real and lies in
   [0, 1), and the characteristic polynomial of A splits over R into n+1 linear factors with roots in [0, 1).
   Remaining gap of the spectral theorem: an explicit eigenbasis (diagonalisability) is not constructed; it follows
   on paper from A_char_poly_splits_in_unit_interval + A_semisimple. *)
Theorem A_complex_spectrum_in_unit_interval : forall (R : rcfType) (m n : nat)
    (K : 'M[R]_(m.+1, n.+1)) (Sa : 'M[R]_(n.+1)) (Sy : 'M[R]_(m.+1)), spd Sa -> spd Sy ->
  forall l : R[i], eigenvalue (map_mx (real_complex R) (averaging_kernel_matrix K Sa Sy)) l ->
  complex.Im l = 0 /\ 0 <= complex.Re l < 1.
Proof. exact: spd_A_complex_spectrum. Qed.

Theorem A_char_poly_splits_in_unit_interval : forall (R : rcfType) (m n : nat)
    (K : 'M[R]_(m.+1, n.+1)) (Sa : 'M[R]_(n.+1)) (Sy : 'M[R]_(m.+1)), spd Sa -> spd Sy ->
  exists r : seq R, [/\ char_poly (averaging_kernel_matrix K Sa Sy) = \prod_(x <- r) ('X - x%:P),
                        size r = n.+1 & all (fun x => 0 <= x < 1) r].
Proof. exact: spd_A_char_poly_splits. Qed.

(* ---- the two limits -----------------------------------------------------------------------------------------
   Quadratic-form bounds that are LINEAR in the scaling factor, for every x --
     prior d*Sa:   A_d = S_d (K^T Sy^-1 K)  and  0 <= x^T S_d x <= d x^T Sa x;
     noise e*Sy (K of full column rank: K x <> 0 for x <> 0):
                   A_e = I - S_e Sa^-1      and  0 <= x^T S_e x <= e x^T (K^T Sy^-1 K)^-1 x. *)
Theorem A_vanishing_prior_bound : forall (F : realFieldType) (m n : nat)
    (K : 'M[F]_(m.+1, n.+1)) (Sa : 'M[F]_(n.+1)) (Sy : 'M[F]_(m.+1)), spd Sa -> spd Sy ->
  forall d : F, 0 < d ->
  let S_d := error_covariance_matrix K (d *: Sa) Sy in
  averaging_kernel_matrix K (d *: Sa) Sy = S_d *m (K^T *m invmx Sy *m K) /\
  forall x : 'cV[F]_(n.+1), 0 <= (x^T *m S_d *m x) 0 0 <= d * (x^T *m Sa *m x) 0 0.
Proof. exact: prior_scaling_bound. Qed.

Theorem A_vanishing_noise_bound : forall (F : realFieldType) (m n : nat)
    (K : 'M[F]_(m.+1, n.+1)) (Sa : 'M[F]_(n.+1)) (Sy : 'M[F]_(m.+1)), spd Sa -> spd Sy ->
  (forall x : 'cV[F]_(n.+1), x != 0 -> K *m x != 0) ->
  forall e : F, 0 < e ->
  let S_e := error_covariance_matrix K Sa (e *: Sy) in
  averaging_kernel_matrix K Sa (e *: Sy) = 1%:M - S_e *m invmx Sa /\
  forall x : 'cV[F]_(n.+1),
    0 <= (x^T *m S_e *m x) 0 0 <= e * (x^T *m invmx (K^T *m invmx Sy *m K) *m x) 0 0.
Proof. exact: noise_scaling_bound. Qed.

(* entry by entry, with explicit constants (bilinear forms of a symmetric PSD matrix are bounded by its quadratic
   forms: |x^T S y| <= (x^T S x + y^T S y) / 2): every entry of S_d and of A_d is O(d), every entry of S_e and of
   I - A_e is O(e) *)
Theorem A_vanishing_prior_rate : forall (F : realFieldType) (m n : nat)
    (K : 'M[F]_(m.+1, n.+1)) (Sa : 'M[F]_(n.+1)) (Sy : 'M[F]_(m.+1)), spd Sa -> spd Sy ->
  let B := K^T *m invmx Sy *m K in
  forall d : F, 0 < d -> forall i j,
  `|error_covariance_matrix K (d *: Sa) Sy i j| <= d * ((Sa i i + Sa j j) / 2%:R) /\
  `|averaging_kernel_matrix K (d *: Sa) Sy i j| <= d * ((Sa i i + (B *m Sa *m B) j j) / 2%:R).
Proof. move=> F m n K Sa Sy ha hy /= d; exact: prior_entry_rate. Qed.

Theorem A_vanishing_noise_rate : forall (F : realFieldType) (m n : nat)
    (K : 'M[F]_(m.+1, n.+1)) (Sa : 'M[F]_(n.+1)) (Sy : 'M[F]_(m.+1)), spd Sa -> spd Sy ->
  (forall x : 'cV[F]_(n.+1), x != 0 -> K *m x != 0) ->
  let Bi := invmx (K^T *m invmx Sy *m K) in
  forall e : F, 0 < e -> forall i j,
  `|error_covariance_matrix K Sa (e *: Sy) i j| <= e * ((Bi i i + Bi j j) / 2%:R) /\
  `|(1%:M - averaging_kernel_matrix K Sa (e *: Sy)) i j| <= e * ((Bi i i + (invmx Sa *m Bi *m invmx Sa) j j) / 2%:R).
Proof. move=> F m n K Sa Sy ha hy hK /= e; exact: noise_entry_rate. Qed.

(* THE LIMITS, epsilon-delta over the ordered field, uniformly in the entries (= convergence in the max norm):
     S_d -> 0 and A_d -> 0 for d -> 0+ (vanishing prior variance);
     S_e -> 0 and A_e -> I for e -> 0+ (vanishing measurement noise, K of full column rank). *)
Theorem A_vanishing_prior_limit : forall (F : realFieldType) (m n : nat)
    (K : 'M[F]_(m.+1, n.+1)) (Sa : 'M[F]_(n.+1)) (Sy : 'M[F]_(m.+1)), spd Sa -> spd Sy ->
  forall eps : F, 0 < eps -> exists d0 : F, 0 < d0 /\ forall d : F, 0 < d < d0 -> forall i j,
  `|error_covariance_matrix K (d *: Sa) Sy i j| < eps /\
  `|averaging_kernel_matrix K (d *: Sa) Sy i j| < eps.
Proof. exact: prior_entry_limit. Qed.

Theorem A_vanishing_noise_limit : forall (F : realFieldType) (m n : nat)
    (K : 'M[F]_(m.+1, n.+1)) (Sa : 'M[F]_(n.+1)) (Sy : 'M[F]_(m.+1)), spd Sa -> spd Sy ->
  (forall x : 'cV[F]_(n.+1), x != 0 -> K *m x != 0) ->
  forall eps : F, 0 < eps -> exists e0 : F, 0 < e0 /\ forall e : F, 0 < e < e0 -> forall i j,
  `|error_covariance_matrix K Sa (e *: Sy) i j| < eps /\
  `|(averaging_kernel_matrix K Sa (e *: Sy) - 1%:M) i j| < eps.
Proof. exact: noise_entry_limit. Qed.

(* smoothing_error and retrieval_noise are the linear maps A (x - x_a) and G e_y *)
Theorem smoothing_error_is_A_dx : forall (F : fieldType) (n : nat) (x xa : 'cV[F]_(n.+1)) (A : 'M[F]_(n.+1)),
  smoothing_error x xa A = A *m (x - xa).
Proof. exact: smoothing_unfold. Qed.

Theorem retrieval_noise_is_G_ey : forall (F : fieldType) (m n : nat)
    (K : 'M[F]_(m.+1, n.+1)) (Sa : 'M[F]_(n.+1)) (Sy : 'M[F]_(m.+1)) (e : 'cV[F]_(m.+1)),
  retrieval_noise K Sa Sy e = retrieval_gain_matrix K Sa Sy *m e.
Proof. exact: noise_unfold. Qed.

(* non-vacuity: over the rationals, for 2 measurements of 3 state variables (and every other shape), every pair
   of correlated covariances C^T C + I, D^T D + I meets the hypotheses, whatever the Jacobian. *)
Example nonvacuous : forall (C : 'M[rat]_3) (D : 'M[rat]_2) (K : 'M[rat]_(2, 3)),
  spd (C^T *m C + 1%:M) /\ spd (D^T *m D + 1%:M) /\
  retrieval_gain_matrix K (C^T *m C + 1%:M) (D^T *m D + 1%:M)
    = (C^T *m C + 1%:M) *m K^T *m invmx (K *m (C^T *m C + 1%:M) *m K^T + (D^T *m D + 1%:M)).
Proof.
move=> C D K; split; first exact: spd_gram.
split; first exact: spd_gram.
exact: (spd_G_m_form K (spd_gram C) (spd_gram D)).
Qed.

(* non-vacuity of the full-column-rank hypothesis: the identity Jacobian (direct measurement of the state) *)
Example nonvacuous_full_rank : forall x : 'cV[rat]_3, x != 0 -> (1%:M : 'M[rat]_3) *m x != 0.
Proof. by move=> x xn0; rewrite mul1mx. Qed.

(* non-vacuity of the eigenpair hypotheses: direct measurement of the state with unit covariances has A = I/2, so
   every u (with v = 0, b = 0) is an eigenvector for a = 1/2 -- and indeed 0 <= 1/2 < 1 *)
Example nonvacuous_eigenpair : forall u : 'cV[rat]_3,
  spd (1%:M : 'M[rat]_3) /\
  averaging_kernel_matrix (1%:M : 'M[rat]_3) 1%:M 1%:M *m u = 2%:R^-1 *: u - 0 *: (0 : 'cV[rat]_3) /\
  averaging_kernel_matrix (1%:M : 'M[rat]_3) 1%:M 1%:M *m (0 : 'cV[rat]_3) = 0 *: u + 2%:R^-1 *: 0.
Proof.
move=> u; split; first exact: spd_1.
by rewrite direct_measurement_kernel mul_scalar_mx !scale0r scaler0 subr0 mulmx0 addr0.
Qed.

(* non-vacuity of "real closed field": the real algebraic numbers, same family of covariances *)
Example nonvacuous_rcf : forall (C : 'M[realalg]_3) (D : 'M[realalg]_2) (K : 'M[realalg]_(2, 3)),
  exists r : seq realalg,
    [/\ char_poly (averaging_kernel_matrix K (C^T *m C + 1%:M) (D^T *m D + 1%:M)) = \prod_(x <- r) ('X - x%:P),
        size r = 3%N & all (fun x => 0 <= x < 1) r].
Proof. move=> C D K; exact: (spd_A_char_poly_splits K (spd_gram C) (spd_gram D)). Qed.

Print Assumptions S_defining.
Print Assumptions S_symmetric_positive_definite.
Print Assumptions S_le_Sa.
Print Assumptions gain_is_S_KT_Syinv.
Print Assumptions gain_m_form.
Print Assumptions gain_m_form_units.
Print Assumptions A_eq_GK.
Print Assumptions A_eq_I_minus_S_Sainv.
Print Assumptions A_symmetrised.
Print Assumptions A_eigenvalues_in_unit_interval.
Print Assumptions A_complex_eigenpairs_real.
Print Assumptions A_semisimple.
Print Assumptions A_eigenvectors_orthogonal.
Print Assumptions A_complex_spectrum_in_unit_interval.
Print Assumptions A_char_poly_splits_in_unit_interval.
Print Assumptions A_vanishing_prior_bound.
Print Assumptions A_vanishing_noise_bound.
Print Assumptions A_vanishing_prior_rate.
Print Assumptions A_vanishing_noise_rate.
Print Assumptions A_vanishing_prior_limit.
Print Assumptions A_vanishing_noise_limit.
Print Assumptions smoothing_error_is_A_dx.
Print Assumptions retrieval_noise_is_G_ey.
