(* C08 -- property theorems about the definitions GENERATED from typhon/physics/em.py (coq/gen/em.v,
   regenerated on every run) and about the list model of the spectral-density converters.
   x = h f / (k T) is written out with the translated constants. *)
From Coq Require Import Reals List.
From TyphonGen Require Import em.
From Typhon Require Import Model.C08_spectra Proofs.C08_planck Proofs.C08_optics.
Import ListNotations.
Open Scope R_scope.

Definition x_of (f T : R) : R := c_planck * f / (c_boltzmann * T).

(* brightness temperatures invert the radiance laws, for ALL positive f and T *)
Theorem tb_inverts_planck : forall f T, 0 < f -> 0 < T -> radiance2planckTb f (planck f T) = T.
Proof. exact tb_planck. Qed.
Theorem tb_inverts_rayleighjeans : forall f T, 0 < f -> radiance2rayleighjeansTb f (rayleighjeans f T) = T.
Proof. exact tb_rj. Qed.

(* planck is positive, increases with T, never exceeds Rayleigh-Jeans and approaches it as x -> 0 *)
Theorem planck_positive : forall f T, 0 < f -> 0 < T -> 0 < planck f T.
Proof. exact planck_pos. Qed.
Theorem planck_increasing_in_T : forall f T1 T2, 0 < f -> 0 < T1 -> T1 < T2 -> planck f T1 < planck f T2.
Proof. exact planck_incr. Qed.
Theorem planck_below_rayleighjeans : forall f T, 0 < f -> 0 < T -> planck f T < rayleighjeans f T.
Proof. exact planck_le_rj. Qed.
Theorem planck_approaches_rayleighjeans : forall f T, 0 < f -> 0 < T -> x_of f T < 1 ->
  (1 - x_of f T) * rayleighjeans f T < planck f T.
Proof. exact planck_ge_rj. Qed.

(* the three spectral forms describe the same spectrum *)
Theorem wavelength_form_consistent : forall f T, 0 < f -> 0 < T ->
  planck_wavelength (c_speed_of_light / f) T = planck f T * f ^ 2 / c_speed_of_light.
Proof. exact wavelength_form. Qed.
Theorem wavenumber_form_consistent : forall f T, 0 < f -> 0 < T ->
  planck_wavenumber (f / c_speed_of_light) T = c_speed_of_light * planck f T.
Proof. exact wavenumber_form. Qed.

(* unit converters: mutually inverse, and the triangle commutes *)
Theorem unit_converters_inverse : forall v, 0 < v ->
  wavelength2frequency (frequency2wavelength v) = v /\ frequency2wavelength (wavelength2frequency v) = v /\
  wavenumber2frequency (frequency2wavenumber v) = v /\ frequency2wavenumber (wavenumber2frequency v) = v /\
  wavenumber2wavelength (wavelength2wavenumber v) = v /\ wavelength2wavenumber (wavenumber2wavelength v) = v.
Proof. exact units_inverse. Qed.
Theorem unit_converters_commute : forall v, 0 < v ->
  wavelength2wavenumber (frequency2wavelength v) = frequency2wavenumber v /\
  wavenumber2wavelength (frequency2wavenumber v) = frequency2wavelength v /\
  wavenumber2frequency (wavelength2wavenumber v) = wavelength2frequency v.
Proof. exact units_commute. Qed.

(* spectral-density converters (spectra and grids of any length): inverse to each other ... *)
Theorem density_converters_inverse : forall ys gs, length ys = length gs -> Forall (fun g => 0 < g) gs ->
  (let '(pm, lam) := perfrequency2perwavelength ys gs in perwavelength2perfrequency pm lam = (ys, gs)) /\
  (let '(ph, fs) := perwavelength2perfrequency ys gs in perfrequency2perwavelength ph fs = (ys, gs)) /\
  (let '(pw, wn) := perfrequency2perwavenumber ys gs in perwavenumber2perfrequency pw wn = (ys, gs)) /\
  (let '(ph, fg) := perwavenumber2perfrequency ys gs in perfrequency2perwavenumber ph fg = (ys, gs)).
Proof. intros ys gs Hl Hp. split; [exact (freq_wavelength_roundtrip ys gs Hl Hp)|].
  split; [exact (wavelength_freq_roundtrip ys gs Hl Hp)|exact (freq_wavenumber_roundtrip ys gs)]. Qed.
(* ... and they map one Planck form onto the other *)
Theorem density_converters_map_planck : forall T fs, 0 < T -> Forall (fun f => 0 < f) fs ->
  (let '(pm, lam) := perfrequency2perwavelength (map (fun f => planck f T) fs) fs in
   pm = map (fun l => planck_wavelength l T) lam) /\
  (let '(pw, wn) := perfrequency2perwavenumber (map (fun f => planck f T) fs) fs in
   pw = map (fun n => planck_wavenumber n T) wn).
Proof. intros T fs HT Hp. split; [exact (planck_freq_to_wavelength T fs HT Hp)|exact (planck_freq_to_wavenumber T fs HT Hp)]. Qed.

(* Snell's law for real refractive indices, up to total reflection *)
Theorem snell_law_real : forall n1 n2 t, 0 < n1 -> 0 < n2 -> 0 <= t <= 90 -> n1 * sin (t * PI / 180) <= n2 ->
  n1 * sin (t * PI / 180) = n2 * sin (snell n1 n2 t * PI / 180).
Proof. exact snell_law. Qed.
(* complex n2 (only n2 may be complex): the branch of Liou's formula agrees with the real law when the imaginary
   part vanishes, for every angle up to total reflection -- the complex branch is a continuation of Snell's law,
   not a different function.  (The bound |R| <= 1 for complex n2 stays a numerically swept, named gap.) *)
Theorem snell_complex_reduces_to_real : forall n1 n2 t, 0 < n1 -> 0 < n2 -> 0 <= t <= 90 ->
  n1 * sin (t * PI / 180) <= n2 -> snell_complex_n2 n1 n2 0 t = snell n1 n2 t.
Proof. exact snell_complex_real_limit. Qed.
(* complex n2, every angle and every n2 with positive real part: with N = n2/n1 and w = N^2 - sin^2 t1, qr2 = (|w| + Re w)/2
   is the squared real part of sqrt w (complex_sqrt_is_sqrt), and the real angle of refraction returned by snell satisfies
   sin t2 * sqrt (sin^2 t1 + qr2) = sin t1, i.e. tan t2 = sin t1 / Re sqrt(N^2 - sin^2 t1): Snell's law n1 sin t1 = n2 sin t2c
   for the complex angle t2c, read off for the real direction of propagation (Liou 5.4.1.3). *)
Theorem snell_law_complex : forall n1 n2r n2i t, 0 < n1 -> 0 < n2r -> 0 <= t <= 90 ->
  let s := sin (t * PI / 180) in
  let wre := (n2r / n1) ^ 2 - (n2i / n1) ^ 2 - s * s in
  let wim := 2 * (n2r / n1) * (n2i / n1) in
  let qr2 := (sqrt (wre ^ 2 + wim ^ 2) + wre) / 2 in
  0 < s * s + qr2 /\
  sin (snell_complex_n2 n1 n2r n2i t * PI / 180) * sqrt (s * s + qr2) = s.
Proof. exact snell_complex_liou. Qed.
Theorem complex_sqrt_is_sqrt : forall wre wim, let W := sqrt (wre ^ 2 + wim ^ 2) in
  0 <= (W + wre) / 2 /\ 0 <= (W - wre) / 2 /\ (W + wre) / 2 - (W - wre) / 2 = wre /\
  4 * ((W + wre) / 2) * ((W - wre) / 2) = wim ^ 2.
Proof. exact complex_sqrt_parts. Qed.
Theorem snell_rejects_nonpositive_index : forall n1 n2 t, n1 <= 0 \/ n2 <= 0 -> snell_raises n1 n2 t.
Proof. intros n1 n2 t H. unfold snell_raises. exact H. Qed.

(* Fresnel (real n): |Rv|, |Rh| <= 1; |Rv| = |Rh| at normal incidence; Rv = 0 at the Brewster angle *)
Theorem fresnel_bounded_real : forall n1 n2 t, 0 < n1 -> 0 < n2 -> 0 <= t < 90 -> n1 * sin (t * PI / 180) <= n2 ->
  Rabs (fst (fresnel n1 n2 t)) <= 1 /\ Rabs (snd (fresnel n1 n2 t)) <= 1.
Proof. exact fresnel_bounded. Qed.
Theorem fresnel_normal : forall n1 n2, 0 < n1 -> 0 < n2 ->
  Rabs (fst (fresnel n1 n2 0)) = Rabs (snd (fresnel n1 n2 0)).
Proof. exact fresnel_normal_incidence. Qed.
Theorem fresnel_brewster_angle : forall n1 n2 t, 0 < n1 -> 0 < n2 -> 0 < t < 90 -> tan (t * PI / 180) = n2 / n1 ->
  fst (fresnel n1 n2 t) = 0.
Proof. exact fresnel_brewster. Qed.

(* non-vacuity: a microwave frequency at room temperature is in the domain and has small x *)
Example nonvacuous : 0 < 1e11 /\ 0 < 300 /\ x_of 1e11 300 < 1 /\ 1 * sin (30 * PI / 180) <= 1.33.
Proof. unfold x_of, c_planck, c_boltzmann. repeat split; try Lra.lra.
  pose proof (SIN_bound (30 * PI / 180)). Lra.lra. Qed.

Print Assumptions tb_inverts_planck.
Print Assumptions tb_inverts_rayleighjeans.
Print Assumptions planck_positive.
Print Assumptions planck_increasing_in_T.
Print Assumptions planck_below_rayleighjeans.
Print Assumptions planck_approaches_rayleighjeans.
Print Assumptions wavelength_form_consistent.
Print Assumptions wavenumber_form_consistent.
Print Assumptions unit_converters_inverse.
Print Assumptions unit_converters_commute.
Print Assumptions density_converters_inverse.
Print Assumptions density_converters_map_planck.
Print Assumptions snell_law_real.
Print Assumptions snell_complex_reduces_to_real.
Print Assumptions snell_law_complex.
Print Assumptions complex_sqrt_is_sqrt.
Print Assumptions snell_rejects_nonpositive_index.
Print Assumptions fresnel_bounded_real.
Print Assumptions fresnel_normal.
Print Assumptions fresnel_brewster_angle.
