(* C08 -- property theorems about the definitions GENERATED from typhon/physics/em.py (coq/gen/em.v,
   regenerated on every run) and about the list model of the spectral-density converters.
   x = h f / (k T) is written out with the translated constants. *)
From Coq Require Import Reals List.
From TyphonGen Require Import em.
From Typhon Require Import Model.C08_spectra Proofs.C08_planck Proofs.C08_optics.
Import ListNotations.
Open Scope R_scope.

Definition x_of (f T : R) : R := c_planck * f / (c_boltzmann * T).

(* brightness temperatures invert the radiance laws, for ALL positive f and T *)
Theorem tb_inverts_planck : forall f T, 0 < f -> 0 < T -> radiance2planckTb f (planck f T) = T.
Proof. exact tb_planck. Qed.
Theorem tb_inverts_rayleighjeans : forall f T, 0 < f -> radiance2rayleighjeansTb f (rayleighjeans f T) = T.
Proof. exact tb_rj. Qed.

(* planck is positive, increases with T, never exceeds Rayleigh-Jeans and approaches it as x -> 0 *)
Theorem planck_positive : forall f T, 0 < f -> 0 < T -> 0 < planck f T.
Proof. exact planck_pos. Qed.
Theorem planck_increasing_in_T : forall f T1 T2, 0 < f -> 0 < T1 -> T1 < T2 -> planck f T1 < planck f T2.
Proof. exact planck_incr. Qed.
Theorem planck_below_rayleighjeans : forall f T, 0 < f -> 0 < T -> planck f T < rayleighjeans f T.
Proof. exact planck_le_rj. Qed.
Theorem planck_approaches_rayleighjeans : forall f T, 0 < f -> 0 < T -> x_of f T < 1 ->
  (1 - x_of f T) * rayleighjeans f T < planck f T.
Proof. exact planck_ge_rj. Qed.
(* the limit clause as an epsilon-delta statement: planck / rayleighjeans -> 1 as x = h f / k T -> 0 (x > 0 for all
   positive f, T), the ratio being the function x / (e^x - 1) of x alone *)
Theorem planck_tends_to_rayleighjeans : forall eps, 0 < eps -> exists d, 0 < d /\
  forall f T, 0 < f -> 0 < T -> x_of f T < d -> Rabs (planck f T / rayleighjeans f T - 1) < eps.
Proof. exact planck_rj_limit. Qed.
Theorem planck_over_rayleighjeans_is_x_over_expm1 : forall f T, 0 < f -> 0 < T ->
  planck f T / rayleighjeans f T = x_of f T / (exp (x_of f T) - 1).
Proof. exact planck_over_rj. Qed.
Theorem x_over_expm1_tends_to_1 : forall eps, 0 < eps -> exists d, 0 < d /\
  forall x, 0 < x < d -> Rabs (x / (exp x - 1) - 1) < eps.
Proof. exact x_over_expm1_limit. Qed.

(* the three spectral forms describe the same spectrum *)
Theorem wavelength_form_consistent : forall f T, 0 < f -> 0 < T ->
  planck_wavelength (c_speed_of_light / f) T = planck f T * f ^ 2 / c_speed_of_light.
Proof. exact wavelength_form. Qed.
Theorem wavenumber_form_consistent : forall f T, 0 < f -> 0 < T ->
  planck_wavenumber (f / c_speed_of_light) T = c_speed_of_light * planck f T.
Proof. exact wavenumber_form. Qed.

(* unit converters: mutually inverse, and the triangle commutes *)
Theorem unit_converters_inverse : forall v, 0 < v ->
  wavelength2frequency (frequency2wavelength v) = v /\ frequency2wavelength (wavelength2frequency v) = v /\
  wavenumber2frequency (frequency2wavenumber v) = v /\ frequency2wavenumber (wavenumber2frequency v) = v /\
  wavenumber2wavelength (wavelength2wavenumber v) = v /\ wavelength2wavenumber (wavenumber2wavelength v) = v.
Proof. exact units_inverse. Qed.
Theorem unit_converters_commute : forall v, 0 < v ->
  wavelength2wavenumber (frequency2wavelength v) = frequency2wavenumber v /\
  wavenumber2wavelength (frequency2wavenumber v) = frequency2wavelength v /\
  wavenumber2frequency (wavelength2wavenumber v) = wavelength2frequency v.
Proof. exact units_commute. Qed.

(* spectral-density converters (spectra and grids of any length): inverse to each other ... *)
Theorem density_converters_inverse : forall ys gs, length ys = length gs -> Forall (fun g => 0 < g) gs ->
  (let '(pm, lam) := perfrequency2perwavelength ys gs in perwavelength2perfrequency pm lam = (ys, gs)) /\
  (let '(ph, fs) := perwavelength2perfrequency ys gs in perfrequency2perwavelength ph fs = (ys, gs)) /\
  (let '(pw, wn) := perfrequency2perwavenumber ys gs in perwavenumber2perfrequency pw wn = (ys, gs)) /\
  (let '(ph, fg) := perwavenumber2perfrequency ys gs in perfrequency2perwavenumber ph fg = (ys, gs)).
Proof. intros ys gs Hl Hp. split; [exact (freq_wavelength_roundtrip ys gs Hl Hp)|].
  split; [exact (wavelength_freq_roundtrip ys gs Hl Hp)|exact (freq_wavenumber_roundtrip ys gs)]. Qed.
(* ... and they map one Planck form onto the other *)
Theorem density_converters_map_planck : forall T fs, 0 < T -> Forall (fun f => 0 < f) fs ->
  (let '(pm, lam) := perfrequency2perwavelength (map (fun f => planck f T) fs) fs in
   pm = map (fun l => planck_wavelength l T) lam) /\
  (let '(pw, wn) := perfrequency2perwavenumber (map (fun f => planck f T) fs) fs in
   pw = map (fun n => planck_wavenumber n T) wn).
Proof. intros T fs HT Hp. split; [exact (planck_freq_to_wavelength T fs HT Hp)|exact (planck_freq_to_wavenumber T fs HT Hp)]. Qed.

(* Snell's law for real refractive indices, up to total reflection *)
Theorem snell_law_real : forall n1 n2 t, 0 < n1 -> 0 < n2 -> 0 <= t <= 90 -> n1 * sin (t * PI / 180) <= n2 ->
  n1 * sin (t * PI / 180) = n2 * sin (snell n1 n2 t * PI / 180).
Proof. exact snell_law. Qed.
(* complex n2 (only n2 may be complex): the branch of Liou's formula agrees with the real law when the imaginary
   part vanishes, for every angle up to total reflection -- the complex branch is a continuation of Snell's law,
   not a different function. *)
Theorem snell_complex_reduces_to_real : forall n1 n2 t, 0 < n1 -> 0 < n2 -> 0 <= t <= 90 ->
  n1 * sin (t * PI / 180) <= n2 -> snell_complex_n2 n1 n2 0 t = snell n1 n2 t.
Proof. exact snell_complex_real_limit. Qed.
(* complex n2, every angle and every n2 with positive real part: with N = n2/n1 and w = N^2 - sin^2 t1, qr2 = (|w| + Re w)/2
   is the squared real part of sqrt w (complex_sqrt_is_sqrt), and the real angle of refraction returned by snell satisfies
   sin t2 * sqrt (sin^2 t1 + qr2) = sin t1, i.e. tan t2 = sin t1 / Re sqrt(N^2 - sin^2 t1): Snell's law n1 sin t1 = n2 sin t2c
   for the complex angle t2c, read off for the real direction of propagation (Liou 5.4.1.3). *)
Theorem snell_law_complex : forall n1 n2r n2i t, 0 < n1 -> 0 < n2r -> 0 <= t <= 90 ->
  let s := sin (t * PI / 180) in
  let wre := (n2r / n1) ^ 2 - (n2i / n1) ^ 2 - s * s in
  let wim := 2 * (n2r / n1) * (n2i / n1) in
  let qr2 := (sqrt (wre ^ 2 + wim ^ 2) + wre) / 2 in
  0 < s * s + qr2 /\
  sin (snell_complex_n2 n1 n2r n2i t * PI / 180) * sqrt (s * s + qr2) = s.
Proof. exact snell_complex_liou. Qed.
Theorem complex_sqrt_is_sqrt : forall wre wim, let W := sqrt (wre ^ 2 + wim ^ 2) in
  0 <= (W + wre) / 2 /\ 0 <= (W - wre) / 2 /\ (W + wre) / 2 - (W - wre) / 2 = wre /\
  4 * ((W + wre) / 2) * ((W - wre) / 2) = wim ^ 2.
Proof. exact complex_sqrt_parts. Qed.
Theorem snell_rejects_nonpositive_index : forall n1 n2 t, n1 <= 0 \/ n2 <= 0 -> snell_raises n1 n2 t.
Proof. intros n1 n2 t H. unfold snell_raises. exact H. Qed.

(* Fresnel (real n): |Rv|, |Rh| <= 1; |Rv| = |Rh| at normal incidence; Rv = 0 at the Brewster angle *)
Theorem fresnel_bounded_real : forall n1 n2 t, 0 < n1 -> 0 < n2 -> 0 <= t < 90 -> n1 * sin (t * PI / 180) <= n2 ->
  Rabs (fst (fresnel n1 n2 t)) <= 1 /\ Rabs (snd (fresnel n1 n2 t)) <= 1.
Proof. exact fresnel_bounded. Qed.
Theorem fresnel_normal : forall n1 n2, 0 < n1 -> 0 < n2 ->
  Rabs (fst (fresnel n1 n2 0)) = Rabs (snd (fresnel n1 n2 0)).
Proof. exact fresnel_normal_incidence. Qed.
Theorem fresnel_brewster_angle : forall n1 n2 t, 0 < n1 -> 0 < n2 -> 0 < t < 90 -> tan (t * PI / 180) = n2 / n1 ->
  fst (fresnel n1 n2 t) = 0.
Proof. exact fresnel_brewster. Qed.

(* Fresnel, complex refractive index n2 = n2r + i n2i of the reflecting medium, as the code computes it (gen/em.v:
   fresnel_complex_n2, translated from the same source lines with n2 a pair of reals): theta2 is the REAL angle of refraction
   returned by snell (Liou's formula), cos(theta2) is real, and Rv, Rh are the complex quotients
   (n2 c1 - n1 c2)/(n2 c1 + n1 c2), (n1 c1 - n2 c2)/(n1 c1 + n2 c2) written out on (re, im); cabs is the modulus.
   This is not the textbook formula with a complex cos(theta2); the theorems are about what the code returns.
   No sign condition on n2i is needed (the code raises for n2i < 0: fresnel_complex_n2_raises). *)
Theorem fresnel_bounded_complex : forall n1 n2r n2i t, 0 < n1 -> 0 < n2r -> 0 <= t < 90 ->
  cabs (fst (fresnel_complex_n2 n1 n2r n2i t)) <= 1 /\ cabs (snd (fresnel_complex_n2 n1 n2r n2i t)) <= 1.
Proof. exact fresnel_complex_bounded. Qed.
(* the guard of the totalised division: under the same hypotheses both complex denominators are non-zero, so the
   bound above is not an artefact of x / 0 = 0 *)
Theorem fresnel_complex_denominators_nonzero : forall n1 n2r n2i t, 0 < n1 -> 0 < n2r -> 0 <= t < 90 ->
  let c1 := cos (t * PI / 180) in
  let c2 := cos (snell_complex_n2 n1 n2r n2i t * PI / 180) in
  0 < (n2r * c1 + n1 * c2) * (n2r * c1 + n1 * c2) + (n2i * c1) * (n2i * c1) /\
  0 < (n1 * c1 + n2r * c2) * (n1 * c1 + n2r * c2) + (n2i * c2) * (n2i * c2).
Proof. exact fresnel_complex_denominators. Qed.
(* an absorbing medium (Im n2 <> 0) never reflects totally: the bound is strict at every angle below grazing *)
Theorem fresnel_absorbing_strict : forall n1 n2r n2i t, 0 < n1 -> 0 < n2r -> n2i <> 0 -> 0 <= t < 90 ->
  cabs (fst (fresnel_complex_n2 n1 n2r n2i t)) < 1 /\ cabs (snd (fresnel_complex_n2 n1 n2r n2i t)) < 1.
Proof. exact fresnel_complex_strict. Qed.
(* |Rv| = |Rh| at normal incidence for complex n2 as well *)
Theorem fresnel_normal_complex : forall n1 n2r n2i, 0 < n1 -> 0 < n2r ->
  cabs (fst (fresnel_complex_n2 n1 n2r n2i 0)) = cabs (snd (fresnel_complex_n2 n1 n2r n2i 0)).
Proof. exact fresnel_complex_normal. Qed.
(* with a vanishing imaginary part the complex computation is the real one (up to total reflection), so the Brewster
   and normal-incidence theorems above are statements about the same function *)
Theorem fresnel_complex_reduces_to_real : forall n1 n2 t, 0 < n1 -> 0 < n2 -> 0 <= t < 90 ->
  n1 * sin (t * PI / 180) <= n2 ->
  fresnel_complex_n2 n1 n2 0 t = ((fst (fresnel n1 n2 t), 0), (snd (fresnel n1 n2 t), 0)).
Proof. exact fresnel_complex_real_limit. Qed.

(* non-vacuity: a microwave frequency at room temperature is in the domain and has small x *)
Example nonvacuous : 0 < 1e11 /\ 0 < 300 /\ x_of 1e11 300 < 1 /\ 1 * sin (30 * PI / 180) <= 1.33.
Proof. unfold x_of, c_planck, c_boltzmann. repeat split; try Lra.lra.
  pose proof (SIN_bound (30 * PI / 180)). Lra.lra. Qed.
(* sea water at microwave frequencies, n2 = 6 + 3i, seen from air at 53 degrees: in the domain of the complex theorems *)
Example nonvacuous_complex : 0 < 1 /\ 0 < 6 /\ 3 <> 0 /\ 0 <= 53 < 90.
Proof. repeat split; Lra.lra. Qed.
(* the limit statements are not vacuous: x < d is met by positive f, T (x_of 1e9 300 < 1e-3) *)
Example nonvacuous_limit : 0 < 1e9 /\ 0 < 300 /\ 0 < x_of 1e9 300 < 1e-3.
Proof. unfold x_of, c_planck, c_boltzmann. repeat split; Lra.lra. Qed.

Print Assumptions tb_inverts_planck.
Print Assumptions tb_inverts_rayleighjeans.
Print Assumptions planck_positive.
Print Assumptions planck_increasing_in_T.
Print Assumptions planck_below_rayleighjeans.
Print Assumptions planck_approaches_rayleighjeans.
Print Assumptions planck_tends_to_rayleighjeans.
Print Assumptions planck_over_rayleighjeans_is_x_over_expm1.
Print Assumptions x_over_expm1_tends_to_1.
Print Assumptions wavelength_form_consistent.
Print Assumptions wavenumber_form_consistent.
Print Assumptions unit_converters_inverse.
Print Assumptions unit_converters_commute.
Print Assumptions density_converters_inverse.
Print Assumptions density_converters_map_planck.
Print Assumptions snell_law_real.
Print Assumptions snell_complex_reduces_to_real.
Print Assumptions snell_law_complex.
Print Assumptions complex_sqrt_is_sqrt.
Print Assumptions snell_rejects_nonpositive_index.
Print Assumptions fresnel_bounded_real.
Print Assumptions fresnel_normal.
Print Assumptions fresnel_brewster_angle.
Print Assumptions fresnel_bounded_complex.
Print Assumptions fresnel_complex_denominators_nonzero.
Print Assumptions fresnel_absorbing_strict.
Print Assumptions fresnel_normal_complex.
Print Assumptions fresnel_complex_reduces_to_real.
