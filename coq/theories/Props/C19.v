(* C19 -- property theorems about the kernels GENERATED from typhon/retrieval/scores.py (coq/gen/scores.v,
   regenerated on every run) and their list-level wrappers (Model/C19_scores.v). *)
From Coq Require Import Reals List Permutation ZArith Lia.
From TyphonGen Require Import scores.
From Typhon Require Import Model.C19_scores Proofs.C19_scores.
Import ListNotations.
Open Scope R_scope.

(* quantile_score is the pinball loss *)
Theorem pinball_cases : forall y o tau,
  (y < o -> quantile_score_kernel y o tau = tau * Rabs (y - o)) /\
  (o <= y -> quantile_score_kernel y o tau = (1 - tau) * Rabs (y - o)).
Proof. intros y o tau. split; [exact (pinball_below y o tau)|exact (pinball_above y o tau)]. Qed.
Theorem pinball_nonnegative : forall y o tau, 0 < tau < 1 -> 0 <= quantile_score_kernel y o tau.
Proof. exact pinball_nonneg. Qed.
Theorem pinball_zero_iff_equal : forall y o tau, 0 < tau < 1 -> (quantile_score_kernel y o tau = 0 <-> y = o).
Proof. exact pinball_zero_iff. Qed.

(* for ANY finite sample, any tau in (0,1) and any constant c: a tau-quantile q of the sample
   (#{y < q} <= tau n <= #{y <= q}) has mean pinball loss <= that of c *)
Theorem quantile_minimises : forall tau q ys c, 0 < tau < 1 -> ys <> [] -> is_quantile tau q ys ->
  mean_loss tau q ys <= mean_loss tau c ys.
Proof. exact quantile_minimises_mean. Qed.

(* CONVERSE: a constant c whose mean loss is <= the mean loss of every constant is a tau-quantile of the sample *)
Theorem minimiser_is_quantile : forall tau c ys, 0 < tau < 1 -> ys <> [] ->
  (forall c', mean_loss tau c ys <= mean_loss tau c' ys) -> is_quantile tau c ys.
Proof. exact minimiser_is_quantile_mean. Qed.
(* ... it is enough that c is not beaten by any SAMPLE POINT (the oracle named in the property) *)
Theorem minimiser_among_sample_points_is_quantile : forall tau c ys, 0 < tau < 1 -> ys <> [] ->
  (forall y, In y ys -> mean_loss tau c ys <= mean_loss tau y ys) -> is_quantile tau c ys.
Proof. exact minimiser_over_sample_is_quantile_mean. Qed.
(* ... or by c +- delta for the deltas below any eps > 0 (a local minimiser) *)
Theorem local_minimiser_is_quantile : forall tau c ys eps, 0 < tau < 1 -> ys <> [] -> 0 < eps ->
  (forall c', Rabs (c' - c) < eps -> mean_loss tau c ys <= mean_loss tau c' ys) -> is_quantile tau c ys.
Proof. exact local_minimiser_is_quantile_mean. Qed.
Theorem quantile_iff_minimiser : forall tau c ys, 0 < tau < 1 -> ys <> [] ->
  (is_quantile tau c ys <-> forall c', mean_loss tau c ys <= mean_loss tau c' ys).
Proof. exact quantile_iff_minimiser_mean. Qed.
(* the sub-gradient argument made exact: moving c to c' without passing a sample value changes the total loss by
   (c' - c) * (#{y < c} - tau n) to the left and (c' - c) * (#{y <= c} - tau n) to the right *)
Theorem loss_slope_between_samples : forall tau c c' ys,
  (c' <= c -> (forall y, In y ys -> y < c -> y <= c') ->
     loss_sum tau c' ys - loss_sum tau c ys = (c' - c) * (cnt_lt c ys - tau * rlen ys)) /\
  (c <= c' -> (forall y, In y ys -> c < y -> c' <= y) ->
     loss_sum tau c' ys - loss_sum tau c ys = (c' - c) * (cnt_le c ys - tau * rlen ys)).
Proof. intros tau c c' ys. split; [exact (loss_left_exact tau c c' ys)|exact (loss_right_exact tau c c' ys)]. Qed.
(* the minimum over ALL constants is attained at a sample point that is a tau-quantile: the exhaustive search over the
   sample points finds the minimum *)
Theorem search_over_sample_points_exact : forall tau ys, 0 < tau < 1 -> ys <> [] ->
  exists q, In q ys /\ is_quantile tau q ys /\ forall c, mean_loss tau q ys <= mean_loss tau c ys.
Proof. exact search_over_sample_points_exact_l. Qed.

(* NaN handling (None = NaN): on NaN-free data np.nanmean and np.mean are the arithmetic mean ... *)
Theorem nanmean_is_mean_when_nan_free : forall l, l <> [] ->
  nanmean (map Some l) = Some (rmean l) /\ npmean (map Some l) = Some (rmean l).
Proof. exact nanmean_nan_free. Qed.
(* ... so mean_quantile_score = nanmean(kernel) is mean_loss on NaN-free samples; on ANY sample NaN observations are
   dropped, the result is NaN (not an exception) exactly when nothing is left; a NaN estimate or fraction gives NaN *)
Theorem mean_quantile_score_nan : forall tau c ys,
  (ys <> [] -> mqs_fl (Some tau) (Some c) (map Some ys) = Some (mean_loss tau c ys)) /\
  (forall ys', mqs_fl (Some tau) (Some c) ys' = match somes ys' with [] => None | v => Some (mean_loss tau c v) end) /\
  (forall t ys', mqs_fl t None ys' = None /\ mqs_fl None t ys' = None).
Proof. intros tau c ys. split; [exact (mqs_fl_nan_free tau c ys)|]. split; [exact (mqs_fl_value tau c)|exact mqs_fl_nan_estimate]. Qed.
Theorem scores_nan_free : forall s, s <> [] -> mape_fl (nan_free s) = Some (mape s) /\ bias_fl (nan_free s) = Some (bias s).
Proof. exact scores_fl_nan_free. Qed.

(* vector of taus: for n rows of k estimates, n observations and k fractions the score matrix is n x k, entry (i, j) is
   the pinball loss of estimate (i, j) against observation i for fraction j, i.e. column j is the pinball loss of
   column j of the estimates for taus[j] *)
Theorem score_matrix_columnwise : forall rows ys taus, rect (length ys) (length taus) rows ->
  rect (length ys) (length taus) (quantile_score_rows rows ys taus) /\
  (forall i j, (i < length ys)%nat -> (j < length taus)%nat ->
     nth j (nth i (quantile_score_rows rows ys taus) []) 0
     = quantile_score_kernel (nth j (nth i rows []) 0) (nth i ys 0) (nth j taus 0)) /\
  (forall j, (j < length taus)%nat ->
     col j (quantile_score_rows rows ys taus) = map2 (fun e y => quantile_score_kernel e y (nth j taus 0)) (col j rows) ys).
Proof. intros rows ys taus H. split; [exact (score_shape rows ys taus H)|].
  split; [exact (fun i j => score_entry rows ys taus i j H)|exact (fun j => score_column rows ys taus j H)]. Qed.
(* mean_quantile_score for a vector of constants cs (one per fraction): k entries, entry j = mean loss of cs[j] for taus[j];
   hence a vector of tau_j-quantiles minimises every entry *)
Theorem mean_quantile_score_vector_taus : forall cs ys taus, length cs = length taus ->
  length (mqs_rows (repeat cs (length ys)) ys taus) = length taus /\
  forall j, (j < length taus)%nat ->
    nth j (mqs_rows (repeat cs (length ys)) ys taus) 0 = mean_loss (nth j taus 0) (nth j cs 0) ys.
Proof. intros cs ys taus H. split; [exact (mqs_rows_length _ ys taus)|exact (fun j => mqs_rows_const cs ys taus j H)]. Qed.
Theorem vector_quantiles_minimise : forall qs cs ys taus j, ys <> [] -> length qs = length taus -> length cs = length taus ->
  (j < length taus)%nat -> 0 < nth j taus 0 < 1 -> is_quantile (nth j taus 0) (nth j qs 0) ys ->
  nth j (mqs_rows (repeat qs (length ys)) ys taus) 0 <= nth j (mqs_rows (repeat cs (length ys)) ys taus) 0.
Proof. exact vector_quantiles_minimise_l. Qed.
(* flat data (`y_tau.reshape(-1, k)`, `y_test.reshape(n, 1)`): accepted exactly when there is a fraction and
   len(y_tau) = len(y_test) * k; entry (i, j) is then the pinball loss of y_tau.flat[i * k + j] against y_test.flat[i] *)
Theorem quantile_score_flat_contract : forall flat ys taus,
  match quantile_score_flat flat ys taus with
  | Some M => taus <> [] /\ length flat = (length ys * length taus)%nat /\ rect (length ys) (length taus) M /\
      forall i j, (i < length ys)%nat -> (j < length taus)%nat ->
        nth j (nth i M []) 0 = quantile_score_kernel (nth (i * length taus + j) flat 0) (nth i ys 0) (nth j taus 0)
  | None => taus = [] \/ length flat <> (length ys * length taus)%nat
  end.
Proof. exact quantile_score_flat_spec. Qed.

(* shape contract: consistent shapes accepted (n rows), inconsistent ones rejected *)
Theorem shapes_accepted : forall n m, (0 < n)%Z -> (0 < m)%Z -> quantile_score_shape (n * m) n m = Some n.
Proof. exact shape_accepts_consistent. Qed.
Theorem shapes_rejected : forall st sy m, (0 < m)%Z -> (sy * m <> st)%Z -> quantile_score_shape st sy m = None.
Proof. exact shape_rejects_inconsistent. Qed.

(* mape / bias: 0 for perfect predictions, |p| resp. p for a uniform p percent offset (p < 0: too low) *)
Theorem scores_perfect : forall ts, ts <> [] -> Forall (fun t => t <> 0) ts ->
  mape (offset 0 ts) = 0 /\ bias (offset 0 ts) = 0.
Proof. exact perfect_predictions. Qed.
Theorem scores_uniform_offset : forall p ts, ts <> [] -> Forall (fun t => t <> 0) ts ->
  mape (offset p ts) = Rabs p /\ bias (offset p ts) = p.
Proof. intros p ts H1 H2. split; [exact (mape_uniform_offset p ts H1 H2)|exact (bias_uniform_offset p ts H1 H2)]. Qed.
(* ... ignore the order of the samples, and are scale invariant *)
Theorem scores_order_irrelevant : forall s s', Permutation s s' -> mape s = mape s' /\ bias s = bias s'.
Proof. exact scores_perm. Qed.
Theorem scores_scale_invariant : forall k s, k <> 0 -> Forall (fun '(p, t) => t <> 0) s ->
  mape (scale k s) = mape s /\ bias (scale k s) = bias s.
Proof. exact scores_scale. Qed.

(* non-vacuity: the median 2 of {1,2,2,5} is a 0.5-quantile; truths are non-zero *)
Example nonvacuous : is_quantile 0.5 2 [1; 2; 2; 5] /\ Forall (fun t => t <> 0) [3; -4].
Proof. unfold is_quantile, cnt_lt, cnt_le, rlen. cbn [map rsum].
  repeat (destruct (Rlt_dec _ _); try Lra.lra); repeat (destruct (Rle_dec _ _); try Lra.lra).
  split; [Lra.lra|repeat constructor; Lra.lra]. Qed.

(* non-vacuity of the converse: 2 is not beaten by any constant on {1,2,2,5} (so the hypothesis can be met), while the
   non-quantile 5 is strictly beaten by 2; the slope hypotheses hold for c = 2, c' = 3/2 and c' = 3 *)
Example nonvacuous_converse :
  (forall c', mean_loss 0.5 2 [1; 2; 2; 5] <= mean_loss 0.5 c' [1; 2; 2; 5]) /\
  mean_loss 0.5 2 [1; 2; 2; 5] < mean_loss 0.5 5 [1; 2; 2; 5] /\
  (forall y, In y [1; 2; 2; 5] -> y < 2 -> y <= 1.5) /\ (forall y, In y [1; 2; 2; 5] -> 2 < y -> 3 <= y).
Proof. split; [intros c'; apply quantile_minimises; [Lra.lra|discriminate|exact (proj1 nonvacuous)]|]. split.
  - unfold mean_loss, loss_sum, rlen. cbn [map rsum]. rewrite !kernel_explicit.
    repeat (destruct (Rlt_dec _ _); try Lra.lra).
  - split; intros y [<-|[<-|[<-|[<-|[]]]]]; Lra.lra. Qed.
(* non-vacuity of the NaN model and of the matrix model: a sample with a NaN, a 2 x 2 case from flat data, a rejected one *)
Example nonvacuous_nan_rows :
  nanmean [Some 1; None; Some 3] = Some 2 /\ npmean [Some 1; None; Some 3] = None /\ nanmean [None; None] = None /\
  rect 2 2 [[1; 2]; [3; 4]] /\ quantile_score_flat [1; 2; 3; 4] [2; 3] [0.9; 0.1] <> None /\
  quantile_score_flat [1; 2; 3] [2; 3] [0.9; 0.1] = None /\
  is_quantile (nth 1 [0.9; 0.5] 0) (nth 1 [5; 2] 0) [1; 2; 2; 5].
Proof. split; [unfold nanmean, rmean, rlen; cbn [somes map rsum]; f_equal; Lra.lra|]. split; [reflexivity|]. split; [reflexivity|].
  split; [split; [reflexivity|repeat constructor]|]. split.
  - intros E. pose proof (quantile_score_flat_contract [1; 2; 3; 4] [2; 3] [0.9; 0.1]) as H. rewrite E in H.
    destruct H as [H|H]; [discriminate|apply H; reflexivity].
  - split; [|exact (proj1 nonvacuous)].
    pose proof (quantile_score_flat_contract [1; 2; 3] [2; 3] [0.9; 0.1]) as H.
    destruct (quantile_score_flat [1; 2; 3] [2; 3] [0.9; 0.1]); [|reflexivity].
    destruct H as (_ & H & _). cbn [length] in H. lia. Qed.

Print Assumptions pinball_cases.
Print Assumptions pinball_nonnegative.
Print Assumptions pinball_zero_iff_equal.
Print Assumptions quantile_minimises.
Print Assumptions minimiser_is_quantile.
Print Assumptions minimiser_among_sample_points_is_quantile.
Print Assumptions local_minimiser_is_quantile.
Print Assumptions quantile_iff_minimiser.
Print Assumptions loss_slope_between_samples.
Print Assumptions search_over_sample_points_exact.
Print Assumptions nanmean_is_mean_when_nan_free.
Print Assumptions mean_quantile_score_nan.
Print Assumptions scores_nan_free.
Print Assumptions score_matrix_columnwise.
Print Assumptions mean_quantile_score_vector_taus.
Print Assumptions vector_quantiles_minimise.
Print Assumptions quantile_score_flat_contract.
Print Assumptions shapes_accepted.
Print Assumptions shapes_rejected.
Print Assumptions scores_perfect.
Print Assumptions scores_uniform_offset.
Print Assumptions scores_order_irrelevant.
Print Assumptions scores_scale_invariant.
