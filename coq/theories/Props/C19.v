(* C19 -- property theorems about the kernels GENERATED from typhon/retrieval/scores.py (coq/gen/scores.v,
   regenerated on every run) and their list-level wrappers (Model/C19_scores.v). *)
From Coq Require Import Reals List Permutation ZArith.
From TyphonGen Require Import scores.
From Typhon Require Import Model.C19_scores Proofs.C19_scores.
Import ListNotations.
Open Scope R_scope.

(* quantile_score is the pinball loss *)
Theorem pinball_cases : forall y o tau,
  (y < o -> quantile_score_kernel y o tau = tau * Rabs (y - o)) /\
  (o <= y -> quantile_score_kernel y o tau = (1 - tau) * Rabs (y - o)).
Proof. intros y o tau. split; [exact (pinball_below y o tau)|exact (pinball_above y o tau)]. Qed.
Theorem pinball_nonnegative : forall y o tau, 0 < tau < 1 -> 0 <= quantile_score_kernel y o tau.
Proof. exact pinball_nonneg. Qed.
Theorem pinball_zero_iff_equal : forall y o tau, 0 < tau < 1 -> (quantile_score_kernel y o tau = 0 <-> y = o).
Proof. exact pinball_zero_iff. Qed.

(* for ANY finite sample, any tau in (0,1) and any constant c: a tau-quantile q of the sample
   (#{y < q} <= tau n <= #{y <= q}) has mean pinball loss <= that of c *)
Theorem quantile_minimises : forall tau q ys c, 0 < tau < 1 -> ys <> [] -> is_quantile tau q ys ->
  mean_loss tau q ys <= mean_loss tau c ys.
Proof. exact quantile_minimises_mean. Qed.
(* Converse (every minimiser is a tau-quantile): NOT proved; checked numerically by exhaustive search over the
   sample points as candidate constants. *)

(* shape contract: consistent shapes accepted (n rows), inconsistent ones rejected *)
Theorem shapes_accepted : forall n m, (0 < n)%Z -> (0 < m)%Z -> quantile_score_shape (n * m) n m = Some n.
Proof. exact shape_accepts_consistent. Qed.
Theorem shapes_rejected : forall st sy m, (0 < m)%Z -> (sy * m <> st)%Z -> quantile_score_shape st sy m = None.
Proof. exact shape_rejects_inconsistent. Qed.

(* mape / bias: 0 for perfect predictions, |p| resp. p for a uniform p percent offset (p < 0: too low) *)
Theorem scores_perfect : forall ts, ts <> [] -> Forall (fun t => t <> 0) ts ->
  mape (offset 0 ts) = 0 /\ bias (offset 0 ts) = 0.
Proof. exact perfect_predictions. Qed.
Theorem scores_uniform_offset : forall p ts, ts <> [] -> Forall (fun t => t <> 0) ts ->
  mape (offset p ts) = Rabs p /\ bias (offset p ts) = p.
Proof. intros p ts H1 H2. split; [exact (mape_uniform_offset p ts H1 H2)|exact (bias_uniform_offset p ts H1 H2)]. Qed.
(* ... ignore the order of the samples, and are scale invariant *)
Theorem scores_order_irrelevant : forall s s', Permutation s s' -> mape s = mape s' /\ bias s = bias s'.
Proof. exact scores_perm. Qed.
Theorem scores_scale_invariant : forall k s, k <> 0 -> Forall (fun '(p, t) => t <> 0) s ->
  mape (scale k s) = mape s /\ bias (scale k s) = bias s.
Proof. exact scores_scale. Qed.

(* non-vacuity: the median 2 of {1,2,2,5} is a 0.5-quantile; truths are non-zero *)
Example nonvacuous : is_quantile 0.5 2 [1; 2; 2; 5] /\ Forall (fun t => t <> 0) [3; -4].
Proof. unfold is_quantile, cnt_lt, cnt_le, rlen. cbn [map rsum].
  repeat (destruct (Rlt_dec _ _); try Lra.lra); repeat (destruct (Rle_dec _ _); try Lra.lra).
  split; [Lra.lra|repeat constructor; Lra.lra]. Qed.

Print Assumptions pinball_cases.
Print Assumptions pinball_nonnegative.
Print Assumptions pinball_zero_iff_equal.
Print Assumptions quantile_minimises.
Print Assumptions shapes_accepted.
Print Assumptions shapes_rejected.
Print Assumptions scores_perfect.
Print Assumptions scores_uniform_offset.
Print Assumptions scores_order_irrelevant.
Print Assumptions scores_scale_invariant.
