(* C01 -- property theorems. This file holds ONLY statements, `exact <lemma>`, non-vacuity examples and
   Print Assumptions, so that the statements cannot be weakened quietly.

   find_model  = the search algorithm of FileSet.find after fixes C01_1 and F-C01-6 (directory pruning with a
                 look-back of one period clamped at datetime.min, per-level truncation, year-only fallback, closed-interval overlap after end - 1us, exclusion
                 through the interval tree of C03, white list, black list, stable sort by (t0, t1));
   find_spec   = sort (filter (t0 < end && start <= t1 && not excluded && passes the filters));
   hypotheses  : no_gaps lay      -- directory placeholders without gap once year, month, day are parsed
                 well_placed      -- the directory names of a file come from its start time
                 short lay        -- coverage no longer than one period of the finest directory level
                 valid_file, wf_query (start and end representable, start < end, excluded periods well formed).
   There is NO hypothesis on how close the start is to datetime.min: since /repo bd49e45 the look-back is clamped
   (dir_start = max(datetime.min, start - P)); the code before it is find_noclamp (lookback_overflow_asis_refuted). *)
From Coq Require Import ZArith List Bool Permutation Sorted.
From Typhon Require Import Base.Calendar Model.C03_tree Model.C01_find Proofs.C01_find.
Import ListNotations.
Open Scope Z_scope.

(* CORE: find() yields every qualifying file, nothing else, ordered by (t0, t1): the pruning of directories
   loses nothing, whatever the layout (temporal or not, any depth), population and period. *)
Theorem find_sound_complete : forall lay fs q,
  no_gaps lay = true -> Forall well_placed fs -> Forall (short lay) fs -> Forall valid_file fs ->
  wf_query q ->
  exists l, find_model lay fs q = Ok l /\ Sorted (fun a b => key_le a b = true) l
            /\ Permutation l (filter (selected q) fs) /\ l = find_spec fs q.
Proof. exact find_sound_complete_lemma. Qed.

(* ... each of them exactly once (files are distinguished by their identity) *)
Theorem find_each_once : forall fs q, NoDup (map fid fs) -> NoDup (map fid (find_spec fs q)).
Proof. exact find_spec_nodup. Qed.

(* the semi-open period: the code tests t0 <= end - 1us *)
Theorem semi_open : forall (f : file) (q : query), t0 f <= qend q - 1 <-> t0 f < qend q.
Proof. intros f q. exact (semi_open_lemma (t0 f) (qend q)). Qed.

(* which files are left out: exactly those excluded by name, those whose coverage intersects an excluded
   period (closed intervals), and those a white or black list rejects *)
Theorem exclusion_exact : forall fs q f,
  In f (find_spec fs q) <->
  In f fs /\ t0 f < qend q /\ qstart q <= t1 f /\ name_excl f = false /\
  (forall a b, In (a, b) (excl q) -> t1 f < a \/ b < t0 f) /\
  white_ok (white q) f = true /\ black_ok (black q) f = true.
Proof. exact find_spec_in. Qed.

(* the answer does not depend on the directory layout *)
Theorem layout_independent : forall lay1 lay2 fs q,
  no_gaps lay1 = true -> no_gaps lay2 = true -> Forall well_placed fs ->
  Forall (short lay1) fs -> Forall (short lay2) fs -> Forall valid_file fs ->
  wf_query q ->
  find_model lay1 fs q = find_model lay2 fs q.
Proof.
  intros lay1 lay2 fs q G1 G2 W S1 S2 V Q.
  rewrite (find_model_spec lay1 fs q G1 W S1 V Q), (find_model_spec lay2 fs q G2 W S2 V Q). reflexivity.
Qed.

(* `t in fileset` *)
Theorem contains_agrees : forall lay fs ex t,
  no_gaps lay = true -> Forall well_placed fs -> Forall (short lay) fs -> Forall valid_file fs ->
  valid t -> Forall (fun '(a, b) => a <= b) ex ->
  contains_model lay fs ex t = existsb (selected (instant t ex)) fs.
Proof. exact contains_agrees_lemma. Qed.

(* len(fileset) counts the files that find() without a period selects; those are all but the excluded ones *)
Theorem len_agrees : forall lay fs ex,
  no_gaps lay = true -> Forall well_placed fs -> Forall (short lay) fs -> Forall valid_file fs ->
  Forall (fun '(a, b) => a <= b) ex ->
  len_model lay fs ex = Z.of_nat (length (filter (selected (everything ex)) fs)).
Proof. exact len_agrees_lemma. Qed.

Theorem len_counts_unexcluded : forall ex f, valid_file f -> t0 f < dt_max - 1 ->
  selected (everything ex) f = negb (excluded_spec (everything ex) f).
Proof. exact selected_everything. Qed.

(* bundling by count partitions the ordered sequence: nothing lost, no empty bundle, size k except the last *)
Theorem bundle_count_partition : forall (k : nat) (l : list file), (0 < k)%nat ->
  concat (bundle_n k l) = l
  /\ Forall (fun b => (0 < length b <= k)%nat) (bundle_n k l)
  /\ all_but_last (fun b => length b = k) (bundle_n k l).
Proof. intros k l. exact (bundle_n_ok k l). Qed.

(* bundling by time bins partitions it into the maximal runs of one bin *)
Theorem bundle_freq_partition : forall (w : Z) (l : list file),
  concat (bundle_f w l) = l
  /\ Forall (fun g => g <> []) (bundle_f w l)
  /\ Forall (same_bin (bin_of w (origin_of l))) (bundle_f w l)
  /\ adjacent_differ (bin_of w (origin_of l)) (bundle_f w l).
Proof. intros w l. exact (group_runs_ok (bin_of w (origin_of l)) l). Qed.

(* ---- C01 extension: stability of the sort.  fs is the STREAM of files in the order in which the directory walk
   produces them (the harness observes that order with sort=False on the same FileSet and period; it is the sorted
   listing of fsspec's glob, level by level).  Python's sorted() is stable, the model's insertion sort is too. *)

(* the sort itself: the files of one coverage (a, b) keep their relative order *)
Theorem sort_stable : forall (l : list file) (a b : Z),
  filter (has_key a b) (sort_key l) = filter (has_key a b) l.
Proof. intros l a b. exact (sort_key_stable a b l). Qed.

(* find(): among the files with equal (t0, t1) the result keeps the order of the walk -- it lists exactly the
   qualifying files of that coverage, in the order of fs *)
Theorem find_sorted_stable : forall lay fs q,
  no_gaps lay = true -> Forall well_placed fs -> Forall (short lay) fs -> Forall valid_file fs ->
  wf_query q ->
  exists l, find_model lay fs q = Ok l /\
    forall a b, filter (has_key a b) l = filter (fun f => selected q f && has_key a b f) fs.
Proof. exact find_sorted_stable_lemma. Qed.

(* ... and this needs none of the hypotheses: whatever the layout, the files and the period, a result of the search
   algorithm (fixed or as-is) keeps the stream order of the files it found, coverage by coverage *)
Theorem find_stable_any_input : forall local lay fs q l a b, find_gen local lay fs q = Ok l ->
  filter (has_key a b) l = filter (fun f => found local lay q f && has_key a b f) fs.
Proof. exact find_gen_stable. Qed.

(* ordered by (t0, t1) + stable leaves no freedom: a sequence is the answer of find iff it is key-sorted and has,
   for every coverage, the same sub-sequence as the stream of qualifying files (this is the law the harness
   checks on the real output against the real unsorted stream) *)
Theorem find_result_unique : forall fs q l,
  l = find_spec fs q <->
  Sorted (fun a b => key_le a b = true) l /\
  forall a b, filter (has_key a b) l = filter (has_key a b) (filter (selected q) fs).
Proof. exact find_spec_characterised. Qed.

(* the bundles are unaffected: both bundlers only cut the sequence, the flattened bundles are still stable *)
Theorem bundles_keep_stable_order : forall fs q a b (k : nat) (w : Z), (0 < k)%nat ->
  filter (has_key a b) (concat (bundle_n k (find_spec fs q))) = filter (fun f => selected q f && has_key a b f) fs
  /\ filter (has_key a b) (concat (bundle_f w (find_spec fs q))) = filter (fun f => selected q f && has_key a b f) fs.
Proof. exact bundles_stable_lemma. Qed.

(* ---- C01 extension: the time bins, explicitly.  bin number of a file = floor((t0 - o) / w), o = midnight of the
   day of the first file of the sequence; bin k is the semi-open interval [o + k w, o + (k+1) w) *)
Theorem bin_edges : forall (w o k : Z) (f : file), 0 < w ->
  (bin_of w o f = k <-> bin_lo w o k <= t0 f < bin_lo w o (k + 1)).
Proof. exact bin_of_edges. Qed.

(* on a sequence ordered by (t0, t1) -- what find hands to the bundler -- every time bundle is a COMPLETE bin (all
   files of the sequence whose start lies in [o + k w, o + (k+1) w), in sequence order), the bundles come in
   strictly increasing bin order (so no bin is split over two bundles), the anchor o is midnight of the first
   file's day and the first file lies in a bin k >= 0.  Together with bundle_freq_partition: the bundles are
   exactly the non-empty bins, for ANY width w > 0 (dividing a day or not). *)
Theorem bundle_freq_bins : forall (w : Z) (l : list file), 0 < w ->
  Sorted (fun a b => key_le a b = true) l ->
  (forall g x, In g (bundle_f w l) -> In x g ->
     g = filter (fun f => bin_of w (origin_of l) f =? bin_of w (origin_of l) x) l
     /\ origin_of l + bin_of w (origin_of l) x * w <= t0 x < origin_of l + (bin_of w (origin_of l) x + 1) * w)
  /\ StronglySorted (fun g1 g2 => forall x y, In x g1 -> In y g2 -> bin_of w (origin_of l) x < bin_of w (origin_of l) y)
                    (bundle_f w l)
  /\ (forall x t, l = x :: t -> origin_of l = t0 x / us_day * us_day /\ 0 <= bin_of w (origin_of l) x).
Proof. exact bundle_f_bins. Qed.

(* a fileset whose path has no placeholder is one file with the coverage `time_coverage`: it is yielded iff
   that coverage meets the semi-open period; an empty period is a ValueError *)
Theorem single_file_exact : forall (cov : Z * Z) (s e : Z), s < e ->
  single_find cov s e = Some ((fst cov <? e) && (s <=? snd cov)).
Proof. exact single_find_ok. Qed.

Theorem single_file_empty_period : forall (cov : Z * Z) (s e : Z), e <= s -> single_find cov s e = None.
Proof. exact single_find_err. Qed.

(* the code BEFORE fix C01_1 (resolution of the current level only) violates the property on an input that
   meets every hypothesis: a non-temporal level below {year}/{month}/{day} *)
Theorem find_asis_refuted : exists lay fs q,
  no_gaps lay = true /\ Forall well_placed fs /\ Forall (short lay) fs /\ Forall valid_file fs /\
  wf_query q /\ find_asis lay fs q <> Ok (find_spec fs q).
Proof. exact find_asis_refuted_lemma. Qed.

(* ---- the look-back near datetime.min (C01 extension 2, /repo bd49e45).  find looks one period P of the finest
   directory level back from the start, because a file may outlast its directory; `start - P` is not representable
   for a start within P of datetime.min and the code clamps it: for every representable start the search of the
   directories begins at max(datetime.min, start - P).  find_sound_complete above needs no hypothesis on the start
   any more; the three theorems below say what the clamp is and what the code did without it. *)
Theorem lookback_clamped : forall lay s, lay <> [] -> 0 <= s ->
  dir_start lay s = Z.max 0 (s - lookback lay).
Proof. exact dir_start_clamp. Qed.

(* the code BEFORE bd49e45 (find_noclamp: the same algorithm, `start - P` not guarded) raised OverflowError exactly
   for the well-formed periods that start strictly between datetime.min and datetime.min + P on a fileset with
   sub directories, whatever the files; everywhere else it was the present algorithm *)
Theorem lookback_overflow_asis_exact : forall lay fs q, wf_query q ->
  (find_noclamp lay fs q = Err OverflowErr <-> lay <> [] /\ 0 < qstart q < lookback lay) /\
  (find_noclamp lay fs q <> Err OverflowErr -> find_noclamp lay fs q = find_model lay fs q).
Proof. exact find_noclamp_exact_lemma. Qed.

(* ... and that violated the property on an input that meets every hypothesis: it raises where the specification
   (and the present algorithm) has a file -- {year}/{month}/{day}, a file on 0001-01-01 12:00-13:00, the period
   0001-01-01 00:00:01 -- 0001-01-02 00:00 *)
Theorem lookback_overflow_asis_refuted : exists lay fs q,
  no_gaps lay = true /\ Forall well_placed fs /\ Forall (short lay) fs /\ Forall valid_file fs /\
  wf_query q /\ find_noclamp lay fs q = Err OverflowErr /\ find_spec fs q <> [] /\
  find_model lay fs q = Ok (find_spec fs q).
Proof. exact lookback_overflow_asis_refuted_lemma. Qed.

(* non-vacuity: a four-level layout {year}/{month}/{day}/{sensor}, a file crossing midnight, a zero-length
   file excluded by name, a file starting exactly at the (excluded) end of the period: the hypotheses hold,
   the fixed algorithm returns exactly the file crossing midnight, the unfixed one returns nothing *)
Example nonvacuous :
  hyps ex_lay ex_files = true /\ wf_queryb ex_query = true /\
  ids (find_model ex_lay ex_files ex_query) = Ok [2] /\
  map fid (find_spec ex_files ex_query) = [2] /\
  ids (find_asis ex_lay ex_files ex_query) = Ok [] /\
  map fid (find_spec ex_files (everything [])) = [0; 1; 2; 4] /\
  sizes (bundle_n 3 (find_spec ex_files (everything []))) = [3; 1] /\
  sizes (bundle_f us_day (find_spec ex_files (everything []))) = [1; 2; 1].
Proof. vm_compute. repeat split; reflexivity. Qed.

(* non-vacuity of the extension: three files of one coverage walked in the order 10, 11, 12 around an earlier
   file: the sort moves 13 to the front and keeps 10, 11, 12; the 7 h and 36 h bins (neither divides / both exceed
   a day) of the four files of ex_files, anchored at 2018-01-01 00:00: [bin; left edge; right edge; files] *)
Example nonvacuous_ext :
  map fid (sort_key ex_ties) = [13; 10; 11; 12] /\
  map fid (filter (has_key (ex_time 2018 3 5 12) (ex_time 2018 3 5 13)) (sort_key ex_ties)) = [10; 11; 12] /\
  bundle_edges (7 * us_hour) (find_spec ex_files (everything [])) =
    [ [1; ex_time 2018 1 1 7; ex_time 2018 1 1 14; 1];
      [217; ex_time 2018 3 5 7; ex_time 2018 3 5 14; 1];
      [219; ex_time 2018 3 5 21; ex_time 2018 3 6 4; 2] ] /\
  bundle_edges (36 * us_hour) (find_spec ex_files (everything [])) =
    [ [0; ex_time 2018 1 1 0; ex_time 2018 1 2 12; 1];
      [42; ex_time 2018 3 5 0; ex_time 2018 3 6 12; 3] ].
Proof. vm_compute. repeat split; reflexivity. Qed.

(* non-vacuity of extension 2: the period starts 1 s after datetime.min, the look-back of one day is clamped to
   datetime.min, the file of 0001-01-01 is found (the one starting exactly at the end and the one of 2018 are not);
   the unclamped code raises; a start exactly one look-back after datetime.min (0001-01-02 00:00) is the first that
   never needed the clamp *)
Example nonvacuous_min :
  hyps ex_min_lay ex_min_files = true /\ wf_queryb ex_min_query = true /\
  lookback ex_min_lay = us_day /\ dir_start ex_min_lay (qstart ex_min_query) = 0 /\
  ids (find_model ex_min_lay ex_min_files ex_min_query) = Ok [0] /\
  map fid (find_spec ex_min_files ex_min_query) = [0] /\
  ids (find_noclamp ex_min_lay ex_min_files ex_min_query) = Err OverflowErr /\
  ids (find_noclamp ex_min_lay ex_min_files (mkq us_day (2 * us_day) [] [] [])) = Ok [1] /\
  ids (find_noclamp ex_min_lay ex_min_files (mkq (us_day - 1) (2 * us_day) [] [] [])) = Err OverflowErr /\
  ids (find_model ex_min_lay ex_min_files (mkq (us_day - 1) (2 * us_day) [] [] [])) = Ok [1] /\
  ids (find_model ex_min_lay ex_min_files (mkq 1 (us_day / 2 + 1) [] [] [])) = Ok [0].
Proof. vm_compute. repeat split; reflexivity. Qed.

Print Assumptions find_sound_complete.
Print Assumptions find_each_once.
Print Assumptions semi_open.
Print Assumptions exclusion_exact.
Print Assumptions layout_independent.
Print Assumptions contains_agrees.
Print Assumptions len_agrees.
Print Assumptions len_counts_unexcluded.
Print Assumptions bundle_count_partition.
Print Assumptions bundle_freq_partition.
Print Assumptions sort_stable.
Print Assumptions find_sorted_stable.
Print Assumptions find_stable_any_input.
Print Assumptions find_result_unique.
Print Assumptions bundles_keep_stable_order.
Print Assumptions bin_edges.
Print Assumptions bundle_freq_bins.
Print Assumptions single_file_exact.
Print Assumptions single_file_empty_period.
Print Assumptions find_asis_refuted.
Print Assumptions lookback_clamped.
Print Assumptions lookback_overflow_asis_exact.
Print Assumptions lookback_overflow_asis_refuted.
