(* C18 -- property theorems for typhon.retrieval.bmci.BMCI.  This file holds ONLY statements, `exact <lemma>`,
   non-vacuity examples and Print Assumptions, so that the statements cannot be weakened quietly. *)
From Coq Require Import ZArith List Bool Reals Lra Lia Sorted Permutation.
From Typhon Require Import Model.C18_bmci Proofs.C18_window Proofs.C18_stats Proofs.C18_view.
Import ListNotations.
Open Scope R_scope.

(* CORE.  numpy.linalg.inv / eig are trusted through the hypotheses: S symmetric positive semi-definite, Sinv a
   right inverse of S, (lam, v) a unit eigenpair of S.  Then for every difference vector d the squared
   projection on v is at most lam * d^T Sinv d  (Cauchy-Schwarz for the form of S along the eigenvector). *)
Theorem window_sound : forall (m : nat) (S Sinv : mat) (v : vec) (lam : R),
  (forall i j, (i < m)%nat -> (j < m)%nat -> S i j = S j i) ->
  (forall u, 0 <= dot m (mulmv m S u) u) ->
  (forall d i, (i < m)%nat -> mulmv m S (mulmv m Sinv d) i = d i) ->
  (forall i, (i < m)%nat -> mulmv m S v i = lam * v i) ->
  dot m v v = 1 ->
  forall d, dot m d v * dot m d v <= lam * chi2 m Sinv d.
Proof. intros m S Sinv v lam Hsym Hpsd Hinv Heig Hunit d. exact (window_sound_form m S Hsym Hpsd Sinv Hinv v lam Heig Hunit d). Qed.

(* Every entry of the database (kept ascending along the projection, as __init__ leaves it) that
   __find_hits leaves out of [i_l, i_u) has chi^2 >= 2 * x2_max; hence chi^2 > x2_max whenever x2_max > 0.
   (At x2_max = 0 the window [s, s) is empty: everything is left out, see the report.) *)
Theorem cut_entries_exceed_x2max : forall (m : nat) (S Sinv : mat) (v : vec) (lam : R),
  (forall i j, (i < m)%nat -> (j < m)%nat -> S i j = S j i) ->
  (forall u, 0 <= dot m (mulmv m S u) u) ->
  (forall d i, (i < m)%nat -> mulmv m S (mulmv m Sinv d) i = d i) ->
  (forall i, (i < m)%nat -> mulmv m S v i = lam * v i) ->
  dot m v v = 1 -> 0 < lam ->
  forall ymean (db : list entry) yobs x2 il iu k e0,
  0 <= x2 -> ascending Rltb (projs m v ymean db) ->
  find_hits m v ymean (1 / lam) db yobs x2 = (il, iu) ->
  (k < length db)%nat -> (k < il \/ iu <= k)%nat ->
  2 * x2 <= chi2 m Sinv (vsub (fst (nth k db e0)) yobs) /\
  (0 < x2 -> x2 < chi2 m Sinv (vsub (fst (nth k db e0)) yobs)).
Proof.
  intros m S Sinv v lam Hsym Hpsd Hinv Heig Hunit Hlam ymean db yobs x2 il iu k e0 Hx Hasc Hfh Hk Hcut.
  pose proof (cut_entries_chi2 m S Sinv Hsym Hpsd Hinv v lam Heig Hunit Hlam ymean db yobs x2 il iu k e0 Hx Hasc Hfh Hk Hcut) as H.
  split; [exact H|lra].
Qed.

(* non-vacuity: a correlated 2x2 covariance with eigenvalues 1 and 2 meets every hypothesis, and the bound is
   not an identity (strict for d = (1, 0)). *)
Definition ex_S : mat := fun i j => match i, j with
  | O, O => 41/25 | O, 1%nat => -12/25 | 1%nat, O => -12/25 | 1%nat, 1%nat => 34/25 | _, _ => 0 end.
Definition ex_Sinv : mat := fun i j => match i, j with
  | O, O => 17/25 | O, 1%nat => 6/25 | 1%nat, O => 6/25 | 1%nat, 1%nat => 41/50 | _, _ => 0 end.
Definition ex_v : vec := fun i => match i with O => 3/5 | 1%nat => 4/5 | _ => 0 end.

Example window_sound_nonvacuous :
  (forall i j, (i < 2)%nat -> (j < 2)%nat -> ex_S i j = ex_S j i) /\
  (forall u, 0 <= dot 2 (mulmv 2 ex_S u) u) /\
  (forall d i, (i < 2)%nat -> mulmv 2 ex_S (mulmv 2 ex_Sinv d) i = d i) /\
  (forall i, (i < 2)%nat -> mulmv 2 ex_S ex_v i = 1 * ex_v i) /\
  dot 2 ex_v ex_v = 1 /\
  (let d : vec := fun i => match i with O => 1 | _ => 0 end in
   dot 2 d ex_v * dot 2 d ex_v = 9/25 /\ 1 * chi2 2 ex_Sinv d = 17/25).
Proof.
  repeat split.
  - intros [|[|i]] [|[|j]] Hi Hj; try reflexivity; exfalso; lia.
  - intros u. unfold mulmv, ex_S. cbn [dot].
    replace (0 + (41 / 25 * u 0%nat + -12 / 25 * u 1%nat + 0) * u 0%nat + (-12 / 25 * u 0%nat + 34 / 25 * u 1%nat + 0) * u 1%nat)
      with ((3/5 * u 0%nat + 4/5 * u 1%nat) ^ 2 + 2 * (4/5 * u 0%nat - 3/5 * u 1%nat) ^ 2) by (try field; ring).
    pose proof (pow2_ge_0 (3/5 * u 0%nat + 4/5 * u 1%nat)). pose proof (pow2_ge_0 (4/5 * u 0%nat - 3/5 * u 1%nat)). lra.
  - intros d [|[|i]] Hi; [| |exfalso; lia]; unfold mulmv, ex_S, ex_Sinv; cbn [dot]; field.
  - intros [|[|i]] Hi; [| |exfalso; lia]; unfold mulmv, ex_S, ex_v; cbn [dot]; field.
  - unfold ex_v; cbn [dot]; field.
  - unfold ex_v; cbn [dot]; field.
  - unfold chi2, mulvm, ex_Sinv; cbn [dot]; field.
Qed.


(* ---------------------------------------------------------------- predict = importance-weighted mean and std *)

(* on any list of (x, w) pairs with positive total weight, predict returns sum(w x)/sum(w) and
   sqrt(sum(w (x - mean)^2)/sum(w)) *)
Theorem predict_is_weighted_mean_std : forall xw : list (R * R),
  0 < rsum (map snd xw) ->
  predict_xw xw = Some (rsum (map (fun p => snd p * fst p) xw) / rsum (map snd xw),
                        sqrt (rsum (map (fun p => snd p * (fst p - wmean xw) ^ 2) xw) / rsum (map snd xw))).
Proof. exact predict_xw_some. Qed.

(* unrestricted mode (x2_max < 0): the statistics of the WHOLE database with w_i = exp(-chi2_i / 2) *)
Theorem predict_unrestricted_is_full_statistics : forall m Sinv v ymean pc1_e (db : list entry) yobs x2,
  x2 < 0 -> db <> [] ->
  predict m Sinv v ymean pc1_e db yobs x2 =
  Some (wmean (all_xw m Sinv yobs db), wstd (all_xw m Sinv yobs db)).
Proof. exact predict_unrestricted. Qed.

(* restricted mode: the statistics of exactly the entries whose projection lies in [y_proj - h, y_proj + h),
   NaN (None) when there is none *)
Theorem predict_windowed_is_window_statistics : forall m Sinv v ymean pc1_e (db : list entry) yobs x2,
  0 <= x2 -> ascending Rltb (projs m v ymean db) ->
  let yp := dot m v (vsub yobs ymean) in
  let h := half_width pc1_e x2 in
  let kept := filter (inwin Rltb (fun e => proj m v ymean (fst e)) (yp - h) (yp + h)) db in
  (kept <> [] -> predict m Sinv v ymean pc1_e db yobs x2 =
                 Some (wmean (all_xw m Sinv yobs kept), wstd (all_xw m Sinv yobs kept))) /\
  (kept = [] -> predict m Sinv v ymean pc1_e db yobs x2 = None).
Proof. exact predict_windowed. Qed.

(* independent of the order of the database entries, in both modes (ties of the argsort included: any two
   arrangements that are ascending along the projection) *)
Theorem predict_order_independent : forall m Sinv v ymean pc1_e (db db' : list entry) yobs x2,
  Permutation db db' ->
  ascending Rltb (projs m v ymean db) -> ascending Rltb (projs m v ymean db') ->
  predict m Sinv v ymean pc1_e db yobs x2 = predict m Sinv v ymean pc1_e db' yobs x2.
Proof. exact C18_view.predict_order_independent. Qed.

(* ---------------------------------------------------------------- the window *)

(* searchsorted on the ascending projections selects exactly the entries with sl <= key < su, in order *)
Theorem window_is_filter : forall (A E : Type) (ltb : A -> A -> bool),
  (forall a b c, ltb a b = false -> ltb b c = false -> ltb a c = false) ->
  forall (key : E -> A) (l : list E) sl su il iu,
  ascending ltb (map key l) -> ltb su sl = false ->
  window ltb (map key l) sl su = (il, iu) ->
  slice il iu l = filter (inwin ltb key sl su) l.
Proof. intros A E ltb Ht key l sl su il iu. exact (C18_view.window_is_filter ltb Ht key l sl su il iu). Qed.

(* searchsorted only compares: any order embedding (the ranks of the doubles used by the correspondence)
   gives the same index *)
Theorem searchsorted_rank_invariant : forall (A B : Type) (ltA : A -> A -> bool) (ltB : B -> B -> bool) (phi : A -> B) ps s,
  (forall a b, ltB (phi a) (phi b) = ltA a b) ->
  searchsorted ltB (map phi ps) (phi s) = searchsorted ltA ps s.
Proof. exact @C18_view.searchsorted_rank_invariant. Qed.

(* the estimate changes by no more than the left-out entries' share of the total weight (times the x range) *)
Theorem pruning_error : forall m Sinv v ymean pc1_e (db : list entry) yobs x2 lo hi il iu ws,
  0 <= x2 ->
  weights m Sinv v ymean pc1_e db yobs x2 = (il, iu, ws) ->
  Forall (fun e => lo <= snd e <= hi) db ->
  0 < rsum (map snd (window_xw m Sinv v ymean pc1_e db yobs x2)) ->
  Rabs (wmean (window_xw m Sinv v ymean pc1_e db yobs x2) - wmean (all_xw m Sinv yobs db)) <=
    rsum (map snd (all_xw m Sinv yobs (firstn il db ++ skipn iu db))) / rsum (map snd (all_xw m Sinv yobs db)) * (hi - lo).
Proof. exact pruning_error_pipeline. Qed.

(* ---------------------------------------------------------------- the x-sorted view of the window *)

(* for an ascending index view of x (contract of argsort: a permutation of 0..n-1 along which x ascends),
   `x_sorted_inds[where(i_l <= x_sorted_inds < i_u)] - i_l` addresses exactly the entries of the window,
   each once, in ascending order of x *)
Theorem view_is_sorted_window : forall (A : Type) (le : A -> A -> Prop) (d : A) (xs : list A) xinds il iu,
  (il <= iu <= length xs)%nat ->
  Permutation xinds (seq 0 (length xs)) ->
  StronglySorted le (take_idx d xs xinds) ->
  StronglySorted le (view_of d xs xinds il iu) /\
  Permutation (view xinds il iu) (seq 0 (iu - il)) /\
  Permutation (view_of d xs xinds il iu) (slice il iu xs).
Proof. intros A le d. exact (view_sorted_window le d). Qed.

(* the (x, w) pairs that cdf / predict_quantiles accumulate are exactly the pairs of the window, each once,
   taken in ascending order of x (so the cdf starts at the smallest x of the window) *)
Theorem view_pairs_are_sorted_window : forall m Sinv v ymean pc1_e (db : list entry) xinds yobs x2 il iu ws,
  weights m Sinv v ymean pc1_e db yobs x2 = (il, iu, ws) ->
  (il <= iu <= length db)%nat ->
  Permutation xinds (seq 0 (length db)) ->
  StronglySorted Rle (take_idx 0 (map snd db) xinds) ->
  Permutation (view_xw m Sinv v ymean pc1_e db xinds yobs x2) (window_xw m Sinv v ymean pc1_e db yobs x2) /\
  nondecreasing (map fst (view_xw m Sinv v ymean pc1_e db xinds yobs x2)).
Proof. exact view_xw_is_sorted_window. Qed.

(* ---------------------------------------------------------------- cdf and quantiles *)

(* cdf: non-decreasing, within [0, 1], ends at exactly 1, and its k-th value is the weight share of the first
   k+1 entries of the view (the entries with the smallest x) *)
Theorem cdf_monotone_ends_at_one : forall xw : list (R * R),
  Forall (fun p => 0 <= snd p) xw -> 0 < rsum (map snd xw) ->
  exists cs, cdf_xw xw = (map fst xw, Some cs) /\
    length cs = length xw /\ nondecreasing cs /\ last cs 0 = 1 /\
    Forall (fun c => 0 <= c <= 1) cs /\
    (forall k, (k < length xw)%nat ->
       nth k cs 0 = rsum (map snd (firstn (S k) xw)) / rsum (map snd xw)).
Proof. exact cdf_xw_spec. Qed.

(* predict_quantiles: defined, within [smallest x, largest x] of the window, non-decreasing in tau *)
Theorem quantiles_monotone_bounded : forall xw : list (R * R),
  Forall (fun p => 0 <= snd p) xw -> 0 < rsum (map snd xw) -> nondecreasing (map fst xw) ->
  (forall tau, exists q, quantile_xw xw tau = Some q /\ hd 0 (map fst xw) <= q <= last (map fst xw) 0) /\
  (forall t t' q q', t <= t' -> quantile_xw xw t = Some q -> quantile_xw xw t' = Some q' -> q <= q').
Proof. exact quantile_xw_spec. Qed.

(* ---------------------------------------------------------------- NaN instead of an exception *)

(* the model is total (option, no error value); the estimate is missing exactly when no entry of the window
   has non-zero weight -- in particular for an empty window -- and then cdf and quantiles are NaN as well *)
Theorem nan_when_no_weight : forall xw : list (R * R),
  Forall (fun p => 0 <= snd p) xw ->
  (predict_xw xw = None <-> Forall (fun p => snd p = 0) xw) /\
  (Forall (fun p => snd p = 0) xw ->
     snd (cdf_xw xw) = None /\ forall tau, quantile_xw xw tau = None).
Proof.
  intros xw Hw. split; [exact (predict_none_iff xw Hw)|].
  intros Hz. exact (proj2 (no_weight_all_nan xw Hz)).
Qed.

(* non-vacuity of the discrete statements: a window and a view with ties in x, evaluated *)
Example bookkeeping_nonvacuous :
  let ps := [1; 3; 3; 5; 8; 9]%Z in
  let xs := [40; 10; 30; 10; 20; 50]%Z in
  let xinds := [1; 3; 4; 2; 0; 5]%nat in
  ascending Z.ltb ps /\
  window Z.ltb ps 3%Z 9%Z = (1, 5)%nat /\
  Permutation xinds (seq 0 (length xs)) /\
  StronglySorted Z.le (take_idx 0%Z xs xinds) /\
  view xinds 1%nat 5%nat = [0; 2; 3; 1]%nat /\
  view_of 0%Z xs xinds 1%nat 5%nat = [10; 10; 20; 30]%Z /\
  slice 1%nat 5%nat xs = [10; 30; 10; 20]%Z.
Proof.
  cbv zeta. repeat split; try reflexivity.
  - unfold ascending. repeat constructor.
  - apply NoDup_Permutation; [repeat constructor; cbn; intuition lia|apply seq_NoDup|].
    intros k. cbn. intuition lia.
  - cbn. repeat constructor; lia.
Qed.

(* non-vacuity of the statistics: three entries, one without weight *)
Example statistics_nonvacuous :
  let xw := [(1, 1); (2, 0); (3, 3)] in
  predict_xw xw = Some (5 / 2, sqrt (3 / 4)) /\
  (exists cs, snd (cdf_xw xw) = Some cs /\ cs = [1 / 4; 1 / 4; 1]) /\
  predict_xw [(1, 0); (2, 0)] = None /\ predict_xw [] = None.
Proof.
  cbv zeta. split; [|split; [|split]].
  - rewrite predict_xw_some by (unfold wtot; cbn; lra).
    unfold wmean, wstd, wmean. cbn [map rsum fst snd]. f_equal. f_equal; [field|]. f_equal. field.
  - unfold cdf_xw, cumsum. cbn [map snd cumsum_from last]. 
    destruct (Rlt_dec 0 (0 + 1 + 0 + 3)) as [_|n]; [|exfalso; lra].
    eexists. split; [reflexivity|]. cbn [map]. repeat f_equal; field.
  - apply predict_xw_none. unfold wtot. cbn. lra.
  - apply predict_xw_none. unfold wtot. cbn. lra.
Qed.

Print Assumptions window_sound.
Print Assumptions cut_entries_exceed_x2max.
Print Assumptions predict_is_weighted_mean_std.
Print Assumptions predict_unrestricted_is_full_statistics.
Print Assumptions predict_windowed_is_window_statistics.
Print Assumptions predict_order_independent.
Print Assumptions window_is_filter.
Print Assumptions searchsorted_rank_invariant.
Print Assumptions pruning_error.
Print Assumptions view_is_sorted_window.
Print Assumptions view_pairs_are_sorted_window.
Print Assumptions cdf_monotone_ends_at_one.
Print Assumptions quantiles_monotone_bounded.
Print Assumptions nan_when_no_weight.
