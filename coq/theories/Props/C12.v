(* C12 -- property theorems. This file holds ONLY statements, `exact <lemma>`, non-vacuity
   examples and Print Assumptions, so that the statements cannot be weakened quietly.

   known / enc / encp / dec are universally quantified: the theorems hold for EVERY format table and
   EVERY codec; where the standard-library codecs matter the hypothesis is spelled out
   (dec f m (enc f m b) = DOk b).  The format table of the tree under test enters through the
   generated TyphonGen.C12_formats.known_compressions. *)
From Coq Require Import ZArith List Bool String Ascii.
From Typhon Require Import Model.C12_compress Proofs.C12_compress.
From TyphonGen Require Import C12_formats.
Import ListNotations.
Open Scope Z_scope.

(* gz, bz2, zip and xz are all keys of _known_compressions, nothing else is, and each of the four has
   a writer branch in compress_as.  (This is the statement that fails on a tree whose table says
   '.xz'.)  Stated on the TRANSLATED table. *)
Theorem advertised_formats : forall f : str,
  knownb known_compressions f = is_adv f /\ (is_adv f = true -> writer_of f <> WNone).
Proof.
  intro f. split; [|apply is_adv_writer].
  unfold is_adv, knownb, known_compressions, advertised. cbn [existsb].
  repeat match goal with |- context [str_eqb ?a ?b] => destruct (str_eqb a b) end; reflexivity.
Qed.

(* However a compress block is left -- normally, or by an exception when creating the temporary
   directory, in the caller's block (before, amid or after writing), when compress_as opens the
   temporary file or the target, wraps it, copies (after any number of blocks) or closes -- the
   temporary directories and files alive afterwards are exactly those alive before. *)
Theorem no_debris_compress : forall known enc encp st name fmtarg b (fault : cfault),
  let r := run_compress known enc encp st name fmtarg b fault in
  tdirs (c_st r) = tdirs st /\ tfiles (c_st r) = tfiles st.
Proof. exact compress_no_debris. Qed.

(* The same for decompress, for every fault point (creating the copy, opening the archive, a
   missing / truncated / corrupted archive -- any result of `dec` --, the copy after any number of
   blocks, closing, the caller's block) ... *)
Theorem no_debris_decompress : forall known dec st name target (fault : dfault),
  let r := run_decompress known dec st name target fault in
  tdirs (d_st r) = tdirs st /\ tfiles (d_st r) = tfiles st.
Proof. exact decompress_no_debris. Qed.

(* ... and a copy under a name chosen by the caller (target=) is gone as well, *)
Theorem decompressed_copy_gone : forall known dec st name t (fault : dfault),
  known (fmt_of_name name) = true -> fault <> DMktemp ->
  flook t (files (d_st (run_decompress known dec st name (Some t) fault))) = None.
Proof. exact decompress_copy_gone. Qed.

(* ... while every other file, the archive included, keeps its bytes. *)
Theorem decompress_touches_nothing_else : forall known dec st name target (fault : dfault) p,
  target <> Some p ->
  flook p (files (d_st (run_decompress known dec st name target fault))) = flook p (files st).
Proof. exact decompress_others_untouched. Qed.

(* An exception inside a compress block (or while the temporary directory is created) creates no
   target file and leaves an existing one -- indeed every user-visible file -- byte for byte as it was.
   The format must be one the table knows: a name that is passed through is written by the caller
   directly. *)
Theorem target_untouched : forall known enc encp st name fmtarg b j,
  known (eff_fmt name fmtarg) = true ->
  let r := run_compress known enc encp st name fmtarg b (CBody j) in
  files (c_st r) = files st /\ c_out r = Raised.
Proof. exact compress_body_fault. Qed.

Theorem target_untouched_mkdtemp : forall known enc encp st name fmtarg b,
  known (eff_fmt name fmtarg) = true ->
  let r := run_compress known enc encp st name fmtarg b CMkdtemp in
  c_st r = st /\ c_out r = Raised /\ c_yield r = YNone.
Proof. exact compress_mkdtemp_fault. Qed.

(* compress never changes a file other than its target, whatever happens *)
Theorem compress_touches_nothing_else : forall known enc encp st name fmtarg b (fault : cfault) p,
  p <> name ->
  flook p (files (c_st (run_compress known enc encp st name fmtarg b fault))) = flook p (files st).
Proof. intros known enc encp. exact (compress_others_untouched known enc encp). Qed.

(* An undisturbed block stores, under the name, the complete archive of exactly the bytes written, in
   the format requested by suffix or fmt= (any name: several dots, directories with dots). *)
Theorem stored_file_is_archive : forall known enc encp st name fmtarg b,
  let fmt := eff_fmt name fmtarg in
  known fmt = true -> writer_of fmt <> WNone ->
  let r := run_compress known enc encp st name fmtarg b CNone in
  c_out r = Done /\ c_yield r = YTemp /\
  files (c_st r) = fwrite name (enc fmt (member_c name fmt) b) (files st).
Proof. exact compress_stores. Qed.

(* The member name written into a zip archive is the one decompress asks for, for every name whose
   suffix is non-empty: os.path.splitext / basename / lstrip / endswith modelled on character lists. *)
Theorem zip_member_name : forall p, fmt_of_name p <> [] -> member_c p (fmt_of_name p) = member_d p.
Proof. exact member_agree. Qed.

(* Round trip.  For any codec with dec (enc b) = b, any state, name, content, tmpdir/target choice
   (target different from the archive): compress then decompress reads back exactly the bytes
   written, the stored file decodes to them, no temporary entry remains, the copy is gone and the
   archive is still there. *)
Theorem roundtrip : forall known enc encp dec,
  (forall f m b, dec f m (enc f m b) = DOk b) ->
  forall st name fmtarg target b,
  let fmt := fmt_of_name name in
  known fmt = true -> writer_of fmt <> WNone ->
  (fmtarg = None \/ fmtarg = Some fmt) -> target <> Some name ->
  let r1 := run_compress known enc encp st name fmtarg b CNone in
  let r2 := run_decompress known dec (c_st r1) name target DNone in
  c_out r1 = Done /\
  dec fmt (member_d name) (match flook name (files (c_st r1)) with Some x => x | None => [] end) = DOk b /\
  d_out r2 = Done /\ d_read r2 = Some b /\
  tdirs (d_st r2) = tdirs st /\ tfiles (d_st r2) = tfiles st /\
  flook name (files (d_st r2)) = flook name (files (c_st r1)) /\
  (forall t, target = Some t -> flook t (files (d_st r2)) = None).
Proof. exact roundtrip. Qed.

(* ... in particular for the four advertised suffixes with the table of the tree under test *)
Theorem roundtrip_advertised : forall enc encp dec,
  (forall f m b, dec f m (enc f m b) = DOk b) ->
  forall st name target b, is_adv (fmt_of_name name) = true -> target <> Some name ->
  let r1 := run_compress (knownb known_compressions) enc encp st name None b CNone in
  let r2 := run_decompress (knownb known_compressions) dec (c_st r1) name target DNone in
  d_out r2 = Done /\ d_read r2 = Some b /\ tdirs (d_st r2) = tdirs st /\ tfiles (d_st r2) = tfiles st.
Proof.
  intros enc encp dec H st name target b A NT.
  destruct (advertised_formats (fmt_of_name name)) as [K W]. rewrite A in K.
  destruct (roundtrip (knownb known_compressions) enc encp dec H st name None target b K (W A)
              (or_introl eq_refl) NT) as (_ & _ & O & R & D1 & D2 & _).
  repeat split; assumption.
Qed.

(* Names without a compression suffix are passed through untouched: the caller gets the name itself,
   no temporary entry is ever created, the bytes land in / come from the named file. *)
Theorem passthrough_compress : forall known enc encp st name fmtarg b (fault : cfault),
  known (eff_fmt name fmtarg) = false ->
  let r := run_compress known enc encp st name fmtarg b fault in
  c_yield r = YName /\ c_during r = ntemps st /\
  (fault = CNone -> c_out r = Done /\ files (c_st r) = fwrite name b (files st)).
Proof. exact compress_passthrough. Qed.

Theorem passthrough_decompress : forall known dec st name target (fault : dfault),
  known (fmt_of_name name) = false ->
  let r := run_decompress known dec st name target fault in
  d_yield r = YName /\ d_st r = st /\ (fault = DNone -> d_read r = flook name (files st)).
Proof. exact decompress_passthrough. Qed.

(* non-vacuity: the codec hypothesis is satisfiable (the codec used to run the model) *)
Theorem codec_hypothesis_satisfiable : forall f m b, toy_dec f m (toy_enc f m b) = DOk b.
Proof. exact toy_codec_ok. Qed.

(* non-vacuity: a concrete history.  An existing file, a zip name with several dots inside a
   directory with a dot, three blocks: the round trip reads them back, the member is "x.y", a fault
   in the block leaves the old bytes, a copy fault leaves no temporary entry; "plain.txt" and ".gz"
   are passed through. *)
Example nonvacuous :
  let known := knownb advertised in
  let name := s2l "sub.dir/x.y.zip" in
  let st := mkSt [(name, [7; 7])] [(5, Some [9])] [(6, [8])] 10 in
  let r1 := run_compress known toy_enc toy_encp st name None [1; 2; 3] CNone in
  let r2 := run_decompress known toy_dec (c_st r1) name (Some (s2l "copy")) DNone in
  let r3 := run_compress known toy_enc toy_encp st name None [1; 2; 3] (CBody (Some 2%nat)) in
  let r4 := run_compress known toy_enc toy_encp st name None [1; 2; 3] (CCopy 1) in
  known (fmt_of_name name) = true /\ writer_of (fmt_of_name name) = WZip /\
  member_d name = s2l "x.y" /\ member_c name (s2l "zip") = s2l "x.y" /\
  c_during r1 = 3 /\ d_read r2 = Some [1; 2; 3] /\ d_during r2 = 2 /\
  tdirs (d_st r2) = tdirs st /\ tfiles (d_st r2) = tfiles st /\ flook (s2l "copy") (files (d_st r2)) = None /\
  flook name (files (c_st r3)) = Some [7; 7] /\ c_out r3 = Raised /\ tdirs (c_st r3) = tdirs st /\
  c_out r4 = Raised /\ tdirs (c_st r4) = tdirs st /\
  decode_target toy_dec (s2l "zip") name (files (c_st r4)) = Some [1] /\
  known (fmt_of_name (s2l "plain.txt")) = false /\ known (fmt_of_name (s2l ".gz")) = false /\
  known (fmt_of_name (s2l "a.tar.gz")) = true.
Proof. vm_compute. repeat split. Qed.

Print Assumptions advertised_formats.
Print Assumptions no_debris_compress.
Print Assumptions no_debris_decompress.
Print Assumptions decompressed_copy_gone.
Print Assumptions decompress_touches_nothing_else.
Print Assumptions target_untouched.
Print Assumptions target_untouched_mkdtemp.
Print Assumptions compress_touches_nothing_else.
Print Assumptions stored_file_is_archive.
Print Assumptions zip_member_name.
Print Assumptions roundtrip.
Print Assumptions roundtrip_advertised.
Print Assumptions passthrough_compress.
Print Assumptions passthrough_decompress.
Print Assumptions codec_hypothesis_satisfiable.
