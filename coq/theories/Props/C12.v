(* C12 -- property theorems. This file holds ONLY statements, `exact <lemma>`, non-vacuity
   examples and Print Assumptions, so that the statements cannot be weakened quietly.

   known / enc / encp / dec are universally quantified: the theorems hold for EVERY format table and
   EVERY codec; where the standard-library codecs matter the hypothesis is spelled out
   (dec f m (enc f m b) = DOk b).  The format table of the tree under test enters through the
   generated TyphonGen.C12_formats.known_compressions. *)
From Coq Require Import ZArith List Bool String Ascii.
From Typhon Require Import Model.C12_compress Proofs.C12_compress Model.C12_nested Proofs.C12_nested.
From TyphonGen Require Import C12_formats.
Import ListNotations.
Open Scope Z_scope.

(* gz, bz2, zip and xz are all keys of _known_compressions, nothing else is, and each of the four has
   a writer branch in compress_as.  (This is the statement that fails on a tree whose table says
   '.xz'.)  Stated on the TRANSLATED table. *)
Theorem advertised_formats : forall f : str,
  knownb known_compressions f = is_adv f /\ (is_adv f = true -> writer_of f <> WNone).
Proof.
  intro f. split; [|apply is_adv_writer].
  unfold is_adv, knownb, known_compressions, advertised. cbn [existsb].
  repeat match goal with |- context [str_eqb ?a ?b] => destruct (str_eqb a b) end; reflexivity.
Qed.

(* However a compress block is left -- normally, or by an exception when creating the temporary
   directory, in the caller's block (before, amid or after writing), when compress_as opens the
   temporary file or the target, wraps it, copies (after any number of blocks) or closes -- the
   temporary directories and files alive afterwards are exactly those alive before. *)
Theorem no_debris_compress : forall known enc encp st name fmtarg b (fault : cfault),
  let r := run_compress known enc encp st name fmtarg b fault in
  tdirs (c_st r) = tdirs st /\ tfiles (c_st r) = tfiles st.
Proof. exact compress_no_debris. Qed.

(* The same for decompress, for every fault point (creating the copy, opening the archive, a
   missing / truncated / corrupted archive -- any result of `dec` --, the copy after any number of
   blocks, closing, the caller's block) ... *)
Theorem no_debris_decompress : forall known dec st name target (fault : dfault),
  let r := run_decompress known dec st name target fault in
  tdirs (d_st r) = tdirs st /\ tfiles (d_st r) = tfiles st.
Proof. exact decompress_no_debris. Qed.

(* ... and a copy under a name chosen by the caller (target=) is gone as well, *)
Theorem decompressed_copy_gone : forall known dec st name t (fault : dfault),
  known (fmt_of_name name) = true -> fault <> DMktemp ->
  flook t (files (d_st (run_decompress known dec st name (Some t) fault))) = None.
Proof. exact decompress_copy_gone. Qed.

(* ... while every other file, the archive included, keeps its bytes. *)
Theorem decompress_touches_nothing_else : forall known dec st name target (fault : dfault) p,
  target <> Some p ->
  flook p (files (d_st (run_decompress known dec st name target fault))) = flook p (files st).
Proof. exact decompress_others_untouched. Qed.

(* An exception inside a compress block (or while the temporary directory is created) creates no
   target file and leaves an existing one -- indeed every user-visible file -- byte for byte as it was.
   The format must be one the table knows: a name that is passed through is written by the caller
   directly. *)
Theorem target_untouched : forall known enc encp st name fmtarg b j,
  known (eff_fmt name fmtarg) = true ->
  let r := run_compress known enc encp st name fmtarg b (CBody j) in
  files (c_st r) = files st /\ c_out r = Raised.
Proof. exact compress_body_fault. Qed.

Theorem target_untouched_mkdtemp : forall known enc encp st name fmtarg b,
  known (eff_fmt name fmtarg) = true ->
  let r := run_compress known enc encp st name fmtarg b CMkdtemp in
  c_st r = st /\ c_out r = Raised /\ c_yield r = YNone.
Proof. exact compress_mkdtemp_fault. Qed.

(* compress never changes a file other than its target, whatever happens *)
Theorem compress_touches_nothing_else : forall known enc encp st name fmtarg b (fault : cfault) p,
  p <> name ->
  flook p (files (c_st (run_compress known enc encp st name fmtarg b fault))) = flook p (files st).
Proof. intros known enc encp. exact (compress_others_untouched known enc encp). Qed.

(* An undisturbed block stores, under the name, the complete archive of exactly the bytes written, in
   the format requested by suffix or fmt= (any name: several dots, directories with dots). *)
Theorem stored_file_is_archive : forall known enc encp st name fmtarg b,
  let fmt := eff_fmt name fmtarg in
  known fmt = true -> writer_of fmt <> WNone ->
  let r := run_compress known enc encp st name fmtarg b CNone in
  c_out r = Done /\ c_yield r = YTemp /\
  files (c_st r) = fwrite name (enc fmt (member_c name fmt) b) (files st).
Proof. exact compress_stores. Qed.

(* The member name written into a zip archive is the one decompress asks for, for every name whose
   suffix is non-empty: os.path.splitext / basename / lstrip / endswith modelled on character lists. *)
Theorem zip_member_name : forall p, fmt_of_name p <> [] -> member_c p (fmt_of_name p) = member_d p.
Proof. exact member_agree. Qed.

(* Round trip.  For any codec with dec (enc b) = b, any state, name, content, tmpdir/target choice
   (target different from the archive): compress then decompress reads back exactly the bytes
   written, the stored file decodes to them, no temporary entry remains, the copy is gone and the
   archive is still there. *)
Theorem roundtrip : forall known enc encp dec,
  (forall f m b, dec f m (enc f m b) = DOk b) ->
  forall st name fmtarg target b,
  let fmt := fmt_of_name name in
  known fmt = true -> writer_of fmt <> WNone ->
  (fmtarg = None \/ fmtarg = Some fmt) -> target <> Some name ->
  let r1 := run_compress known enc encp st name fmtarg b CNone in
  let r2 := run_decompress known dec (c_st r1) name target DNone in
  c_out r1 = Done /\
  dec fmt (member_d name) (match flook name (files (c_st r1)) with Some x => x | None => [] end) = DOk b /\
  d_out r2 = Done /\ d_read r2 = Some b /\
  tdirs (d_st r2) = tdirs st /\ tfiles (d_st r2) = tfiles st /\
  flook name (files (d_st r2)) = flook name (files (c_st r1)) /\
  (forall t, target = Some t -> flook t (files (d_st r2)) = None).
Proof. exact roundtrip. Qed.

(* ... in particular for the four advertised suffixes with the table of the tree under test *)
Theorem roundtrip_advertised : forall enc encp dec,
  (forall f m b, dec f m (enc f m b) = DOk b) ->
  forall st name target b, is_adv (fmt_of_name name) = true -> target <> Some name ->
  let r1 := run_compress (knownb known_compressions) enc encp st name None b CNone in
  let r2 := run_decompress (knownb known_compressions) dec (c_st r1) name target DNone in
  d_out r2 = Done /\ d_read r2 = Some b /\ tdirs (d_st r2) = tdirs st /\ tfiles (d_st r2) = tfiles st.
Proof.
  intros enc encp dec H st name target b A NT.
  destruct (advertised_formats (fmt_of_name name)) as [K W]. rewrite A in K.
  destruct (roundtrip (knownb known_compressions) enc encp dec H st name None target b K (W A)
              (or_introl eq_refl) NT) as (_ & _ & O & R & D1 & D2 & _).
  repeat split; assumption.
Qed.

(* Names without a compression suffix are passed through untouched: the caller gets the name itself,
   no temporary entry is ever created, the bytes land in / come from the named file. *)
Theorem passthrough_compress : forall known enc encp st name fmtarg b (fault : cfault),
  known (eff_fmt name fmtarg) = false ->
  let r := run_compress known enc encp st name fmtarg b fault in
  c_yield r = YName /\ c_during r = ntemps st /\
  (fault = CNone -> c_out r = Done /\ files (c_st r) = fwrite name b (files st)).
Proof. exact compress_passthrough. Qed.

Theorem passthrough_decompress : forall known dec st name target (fault : dfault),
  known (fmt_of_name name) = false ->
  let r := run_decompress known dec st name target fault in
  d_yield r = YName /\ d_st r = st /\ (fault = DNone -> d_read r = flook name (files st)).
Proof. exact decompress_passthrough. Qed.

(* non-vacuity: the codec hypothesis is satisfiable (the codec used to run the model) *)
Theorem codec_hypothesis_satisfiable : forall f m b, toy_dec f m (toy_enc f m b) = DOk b.
Proof. exact toy_codec_ok. Qed.

(* non-vacuity: a concrete history.  An existing file, a zip name with several dots inside a
   directory with a dot, three blocks: the round trip reads them back, the member is "x.y", a fault
   in the block leaves the old bytes, a copy fault leaves no temporary entry; "plain.txt" and ".gz"
   are passed through. *)
Example nonvacuous :
  let known := knownb advertised in
  let name := s2l "sub.dir/x.y.zip" in
  let st := mkSt [(name, [7; 7])] [(5, Some [9])] [(6, [8])] 10 in
  let r1 := run_compress known toy_enc toy_encp st name None [1; 2; 3] CNone in
  let r2 := run_decompress known toy_dec (c_st r1) name (Some (s2l "copy")) DNone in
  let r3 := run_compress known toy_enc toy_encp st name None [1; 2; 3] (CBody (Some 2%nat)) in
  let r4 := run_compress known toy_enc toy_encp st name None [1; 2; 3] (CCopy 1) in
  known (fmt_of_name name) = true /\ writer_of (fmt_of_name name) = WZip /\
  member_d name = s2l "x.y" /\ member_c name (s2l "zip") = s2l "x.y" /\
  c_during r1 = 3 /\ d_read r2 = Some [1; 2; 3] /\ d_during r2 = 2 /\
  tdirs (d_st r2) = tdirs st /\ tfiles (d_st r2) = tfiles st /\ flook (s2l "copy") (files (d_st r2)) = None /\
  flook name (files (c_st r3)) = Some [7; 7] /\ c_out r3 = Raised /\ tdirs (c_st r3) = tdirs st /\
  c_out r4 = Raised /\ tdirs (c_st r4) = tdirs st /\
  decode_target toy_dec (s2l "zip") name (files (c_st r4)) = Some [1] /\
  known (fmt_of_name (s2l "plain.txt")) = false /\ known (fmt_of_name (s2l ".gz")) = false /\
  known (fmt_of_name (s2l "a.tar.gz")) = true.
Proof. vm_compute. repeat split. Qed.

(* ------------------------------------------------------------------ several blocks open at the same time
   (Model/C12_nested.v).  Every temporary entry is a path in the SAME file system as the user's files;
   its name comes from an oracle; a block is split into Enter / Use / Leave, and a history is any list
   of such events over any list of blocks -- every interleaving of entries, reads / writes and exits of
   any number of compress and decompress blocks, with or without an exception in the bodies, well
   nested or not.  `ideal_hist` is the same history when every block keeps its copy where nobody else
   can reach it: there a decompress block reads the bytes decoded from ITS archive at entry however
   often and whenever it looks, leaving raises nothing, and the file system changes only at the targets
   of compress blocks.

   Given that the oracles return names that do not exist (fresh_file_ok / fresh_dir_ok: what
   NamedTemporaryFile(delete=False) and TemporaryDirectory provide) and that the caller's own names are
   not such names, the shared file system is indistinguishable from the ideal: the same observation at
   every event (entry outcome, bytes read, exit outcome), the same blocks open, and the same content
   at every path that is not the temporary path of a block still open. *)
Theorem nested_blocks_independent : forall known enc encp dec freshf freshd istmp,
  fresh_file_ok istmp freshf -> fresh_dir_ok istmp freshd ->
  forall bs, user_names_ok istmp bs ->
  forall fs0 evs,
  let r := run_hist known enc encp dec freshf freshd bs evs (mkN fs0 []) in
  let s := ideal_hist known enc encp dec bs evs (mkI fs0 []) in
  snd r = snd s /\
  map fst (n_open (fst r)) = map fst (i_open (fst s)) /\
  (forall p, ~ In p (tpaths (n_open (fst r))) -> flook p (n_fs (fst r)) = flook p (i_fs (fst s))).
Proof. exact nested_independent. Qed.

(* The ideal history touches nothing but the targets of its compress blocks (for every codec, table and
   history; no hypothesis) ... *)
Theorem ideal_touches_only_targets : forall known enc encp dec bs fs0 evs p,
  ~ In p (comp_targets bs) ->
  flook p (i_fs (fst (ideal_hist known enc encp dec bs evs (mkI fs0 [])))) = flook p fs0.
Proof. exact ideal_only_targets. Qed.

(* ... hence: once every block has been left, no temporary file remains and every path that is not the
   target of a compress block -- every archive, every bystander in the temporary directory whatever its
   name (the stem of an archive, 'temp', ...), every path that did not exist -- is byte for byte what
   it was before the history.  (The several-block form of decompress_touches_nothing_else /
   compress_touches_nothing_else / no_debris_*.) *)
Theorem nested_blocks_no_debris : forall known enc encp dec freshf freshd istmp,
  fresh_file_ok istmp freshf -> fresh_dir_ok istmp freshd ->
  forall bs, user_names_ok istmp bs ->
  forall fs0 evs,
  let r := fst (run_hist known enc encp dec freshf freshd bs evs (mkN fs0 [])) in
  n_open r = [] -> forall p, ~ In p (comp_targets bs) -> flook p (n_fs r) = flook p fs0.
Proof. exact nested_no_debris. Qed.

(* Two decompress blocks spelled out: any two archives (the same stem in different directories, the
   same stem with different suffixes, even the same archive twice), any temporary directories, nested
   (outer opened and read, inner opened and read, outer read again, inner left, outer read again, outer
   left) or overlapping (the first is left while the second is open), exceptions in the bodies or not:
   each block reads the bytes of its archive every time, leaving raises nothing, afterwards nothing is
   open and EVERY path has the content it had. *)
Theorem two_decompress_blocks_independent : forall known enc encp dec freshf freshd istmp,
  fresh_file_ok istmp freshf -> fresh_dir_ok istmp freshd ->
  forall fs0 A B tdA tdB xA xB bA bB (nested e0 e1 : bool),
  istmp A = false -> istmp B = false ->
  known (fmt_of_name A) = true -> known (fmt_of_name B) = true ->
  flook A fs0 = Some xA -> dec (fmt_of_name A) (member_d A) xA = DOk bA ->
  flook B fs0 = Some xB -> dec (fmt_of_name B) (member_d B) xB = DOk bB ->
  let bs := [BDec A tdA; BDec B tdB] in
  let evs := if nested
             then [Enter 0; Use 0; Enter 1; Use 1; Use 0; Leave 1 e1; Use 0; Leave 0 e0]
             else [Enter 0; Use 0; Enter 1; Use 1; Use 0; Leave 0 e0; Use 1; Leave 1 e1] in
  let r := run_hist known enc encp dec freshf freshd bs evs (mkN fs0 []) in
  snd r = [OEnter false YTemp; ORead (Some bA); OEnter false YTemp; ORead (Some bB); ORead (Some bA);
           OLeave false; ORead (Some (if nested then bA else bB)); OLeave false]
  /\ n_open (fst r) = [] /\ (forall p, flook p (n_fs (fst r)) = flook p fs0).
Proof. exact two_decompress_blocks. Qed.

(* One block: its three phases compose to the one-block model above (run_decompress / run_compress of
   Model/C12_compress.v) with the oracle's name in the place of target= / of the temporary directory:
   the theorems of the first part of this file speak about the same blocks. *)
Theorem one_decompress_block_is_its_phases : forall known enc encp dec freshf freshd fs tds tfs nx name td,
  known (fmt_of_name name) = true ->
  let p := freshf fs [] td name in
  let r := run_decompress known dec (mkSt fs tds tfs nx) name (Some p) DNone in
  let h := run_hist known enc encp dec freshf freshd [BDec name td] [Enter 0; Use 0; Leave 0 false] (mkN fs []) in
  n_fs (fst h) = files (d_st r) /\ n_open (fst h) = [] /\
  snd h = match d_out r with
          | Done => [OEnter false YTemp; ORead (d_read r); OLeave false]
          | Raised => [OEnter true YNone; OSkip; OSkip]
          end.
Proof. exact single_block_phases. Qed.

Theorem one_compress_block_is_its_phases : forall known enc encp dec freshf freshd st name fa b td,
  known (eff_fmt name fa) = true ->
  let d := freshd (files st) [] td in
  flook (tpath d) (files st) = None -> name <> tpath d ->
  let rc := run_compress known enc encp st name fa b CNone in
  let h := run_hist known enc encp dec freshf freshd [BComp name fa b td] [Enter 0; Use 0; Leave 0 false]
                    (mkN (files st) []) in
  (forall p, flook p (n_fs (fst h)) = flook p (files (c_st rc))) /\ n_open (fst h) = [] /\
  snd h = [OEnter false YTemp; OWrite; OLeave (raisedb (c_out rc))].
Proof. exact single_compress_phases. Qed.

(* non-vacuity: the oracle hypotheses are satisfiable (the oracle used to run the model: a name in the
   temporary directory that is longer than every existing path) *)
Theorem fresh_oracle_satisfiable : fresh_file_ok istmp0 freshf0 /\ fresh_dir_ok istmp0 freshd0.
Proof. exact fresh0_ok. Qed.

(* The freshness hypothesis is needed.  With a name that is a function of the archive's stem
   (<tmpdir>/<archive name without the compression suffix>) the statement FAILS: two archives
   2020/01/orbit.dat.gz and 2020/02/orbit.dat.gz, one temporary directory holding a bystander
   'orbit.dat', nested blocks.  The caller's names meet user_names_ok; the ideal history reads [1;2]
   in the outer block every time; the shared file system lets the outer block read the INNER
   archive's bytes, then find no file at all, then fail to leave; the bystander is gone. *)
Theorem nested_blocks_independent_refuted_for_stem_names :
  let r := run_hist (knownb advertised) toy_enc toy_encp toy_dec stem_name freshd0 wbs wevs (mkN wfs []) in
  let s := ideal_hist (knownb advertised) toy_enc toy_encp toy_dec wbs wevs (mkI wfs []) in
  user_names_ok istmp0 wbs /\
  snd s = [OEnter false YTemp; ORead (Some [1; 2]); OEnter false YTemp; ORead (Some [3]); ORead (Some [1; 2]);
           OLeave false; ORead (Some [1; 2]); OLeave false] /\
  snd r = [OEnter false YTemp; ORead (Some [1; 2]); OEnter false YTemp; ORead (Some [3]); ORead (Some [3]);
           OLeave false; ORead None; OLeave true] /\
  n_open (fst r) = [] /\
  flook (s2l "T/orbit.dat") wfs = Some [7] /\ flook (s2l "T/orbit.dat") (n_fs (fst r)) = None.
Proof. exact stem_name_refuted. Qed.

(* non-vacuity: a concrete history with the concrete fresh oracle.  The same two archives and the
   bystander; a decompress block on the first, inside it a compress block on a new target with the same
   base name and a decompress block on the second; the compress block is left first (not well nested),
   the inner decompress body ends with an exception.  Three temporary entries are alive at once; each
   decompress block reads its own bytes; the new target decodes to the bytes written; the archives and
   the bystander are unchanged; nothing else exists afterwards. *)
Example nested_nonvacuous :
  let known := knownb advertised in
  let C := s2l "W/out/orbit.dat.gz" in
  let bs := [BDec wA (s2l "T"); BComp C None [5; 6] (s2l "T"); BDec wB (s2l "T")] in
  let evs := [Enter 0; Enter 1; Enter 2; Use 0; Use 1; Use 2; Leave 1 false; Use 0; Use 2;
              Leave 2 true; Use 0; Leave 0 false]%nat in
  let r := run_codes known freshf0 freshd0 bs evs (mkN wfs []) in
  user_names_ok istmp0 bs /\
  map (fun c => nth 0 c 0) (snd r) = [1; 2; 3; 3; 3; 3; 2; 2; 2; 1; 1; 0] /\
  snd (run_hist known toy_enc toy_encp toy_dec freshf0 freshd0 bs evs (mkN wfs [])) =
    [OEnter false YTemp; OEnter false YTemp; OEnter false YTemp; ORead (Some [1; 2]); OWrite; ORead (Some [3]);
     OLeave false; ORead (Some [1; 2]); ORead (Some [3]); OLeave false; ORead (Some [1; 2]); OLeave false] /\
  n_open (fst r) = [] /\
  decode_target toy_dec (s2l "gz") C (n_fs (fst r)) = Some [5; 6] /\
  map (watch wfs (n_fs (fst r))) [wA; wB; s2l "T/orbit.dat"] = [[1; 1]; [1; 1]; [1; 1]] /\
  List.length (n_fs (fst r)) = 4%nat.
Proof.
  split; [intros b [<-|[<-|[<-|[]]]]; reflexivity|]. vm_compute. repeat split.
Qed.

Print Assumptions advertised_formats.
Print Assumptions no_debris_compress.
Print Assumptions no_debris_decompress.
Print Assumptions decompressed_copy_gone.
Print Assumptions decompress_touches_nothing_else.
Print Assumptions target_untouched.
Print Assumptions target_untouched_mkdtemp.
Print Assumptions compress_touches_nothing_else.
Print Assumptions stored_file_is_archive.
Print Assumptions zip_member_name.
Print Assumptions roundtrip.
Print Assumptions roundtrip_advertised.
Print Assumptions passthrough_compress.
Print Assumptions passthrough_decompress.
Print Assumptions codec_hypothesis_satisfiable.
Print Assumptions nested_blocks_independent.
Print Assumptions ideal_touches_only_targets.
Print Assumptions nested_blocks_no_debris.
Print Assumptions two_decompress_blocks_independent.
Print Assumptions one_decompress_block_is_its_phases.
Print Assumptions one_compress_block_is_its_phases.
Print Assumptions fresh_oracle_satisfiable.
Print Assumptions nested_blocks_independent_refuted_for_stem_names.
