(* C12 -- property theorems (statements, `exact <lemma>`, non-vacuity, Print Assumptions only). *)
From Coq Require Import ZArith List Bool String Ascii.
From Typhon Require Import Model.C12_compress Proofs.C12_compress.
From TyphonGen Require Import C12_formats.
Import ListNotations.
Open Scope Z_scope.

Theorem advertised_formats : forall f, In f advertised ->
  knownb known_compressions (s2l f) = true /\ writer_of (s2l f) <> WNone.
Proof. intros f H. repeat (destruct H as [<-|H]; [vm_compute; split; [reflexivity|discriminate]|]). destruct H. Qed.

Print Assumptions advertised_formats.
