(* C14 -- column integrals and hydrostatic conversions agree with their defining integrals.
   Statements about the list model Model/C14_column.v, which is built on the kernels, constants and the ISA table
   GENERATED from typhon/physics/atmosphere.py (coq/gen/atmosphere.v, regenerated on every run). *)
From Coq Require Import Reals List.
From TyphonGen Require Import atmosphere.
From Typhon Require Import Model.C14_column Model.C14_rint Model.C14_forms Model.C14_quad Proofs.C14_trapz Proofs.C14_rint
  Proofs.C14_hydro Proofs.C14_forms Proofs.C14_quad.
Import ListNotations.
Open Scope R_scope.

(* ---- integrate_column: the trapezoidal rule *)

(* ... is the Riemann integral, over the whole range of an increasing grid, of the piecewise-linear interpolant of (x, y)
   (interp_seg: straight lines between neighbouring data points), which passes through every data point *)
Theorem trapz_is_integral_of_interpolant_over_range : forall xs ys, increasing xs -> length ys = length xs -> (2 <= length xs)%nat ->
  integral (interp_seg xs ys) (hd 0 xs) (last xs 0) = trapz ys xs /\
  (forall k, (k < length xs)%nat -> interp_seg xs ys (nth k xs 0) = nth k ys 0).
Proof. exact trapz_interp_range. Qed.
(* ... and, on any grid without repeated neighbours (increasing or decreasing), the sum of the integrals of the straight
   lines through neighbouring data points, segment by segment *)
Theorem trapz_is_integral_of_interpolant : forall ys xs, distinct_neighbours xs ->
  trapz ys xs = rsum (segment_integrals ys xs).
Proof. exact trapz_is_RInt. Qed.
Theorem interpolant_through_data : forall x0 y0 x1 y1, x0 <> x1 ->
  line x0 y0 x1 y1 x0 = y0 /\ line x0 y0 x1 y1 x1 = y1.
Proof. exact line_ends. Qed.
(* ... is linear in y *)
Theorem trapz_linear_in_y : forall c d ys zs xs, length ys = length xs -> length zs = length xs ->
  trapz (zip2 (fun a b => c * a + d * b) ys zs) xs = c * trapz ys xs + d * trapz zs xs.
Proof. exact trapz_linear. Qed.
(* ... is additive when the range is split at any grid index *)
Theorem trapz_additive_at_grid_point : forall k ys xs, length ys = length xs -> (k < length ys)%nat ->
  trapz ys xs = trapz (firstn (S k) ys) (firstn (S k) xs) + trapz (skipn k ys) (skipn k xs).
Proof. exact trapz_split. Qed.
(* ... changes sign when the coordinate is reversed *)
Theorem trapz_reversal : forall ys xs, length ys = length xs -> trapz (rev ys) (rev xs) = - trapz ys xs.
Proof. exact trapz_rev. Qed.
(* ... defaults to unit spacing *)
Theorem trapz_default_unit_spacing : forall ys, trapz_unit ys = trapz ys (arange (length ys)).
Proof. exact trapz_unit_arange. Qed.
(* ... and, on an array of any rank (outer x n x inner), integrates every lane *)
Theorem axis_lanes : forall inner Y xs, List.Forall (List.Forall (fun r => length r = inner)) Y ->
  integrate_nd Y xs inner = map (fun rows => map (fun i => trapz (lane rows i) xs) (seq 0 inner)) Y.
Proof. exact integrate_nd_lanes. Qed.

(* non-vacuity: an irregular decreasing grid of four levels, split at index 2 *)
Example nonvacuous_trapz :
  let xs := [4; 3; 1.5; 1] in let ys := [1; 2; 0.5; 3] in
  distinct_neighbours xs /\ increasing (rev xs) /\ length ys = length xs /\ (2 < length ys)%nat /\
  trapz ys xs = - 4.25 /\ trapz (rev ys) (rev xs) = 4.25 /\
  trapz (firstn 3 ys) (firstn 3 xs) + trapz (skipn 2 ys) (skipn 2 xs) = - 4.25.
Proof. cbn [distinct_neighbours increasing length trapz rev app firstn skipn]. repeat split; try Lra.lra; try Lia.lia. Qed.

(* ---- integrate_water_vapor *)

(* non-negative for non-negative vmr and (weakly) decreasing pressure; the general form likewise over increasing z *)
Theorem iwv_nonnegative : forall vmr p, List.Forall (fun x => 0 <= x <= 1) vmr -> nonincreasing p -> 0 <= iwv_hydro vmr p.
Proof. exact iwv_hydro_nonneg. Qed.
Theorem iwv_general_nonnegative : forall vmr p T z, List.Forall (fun x => 0 <= x) vmr -> List.Forall (fun x => 0 <= x) p ->
  List.Forall (fun x => 0 < x) T -> nondecreasing z -> 0 <= iwv_general vmr p T z.
Proof. exact iwv_general_nonneg. Qed.
(* The two forms side by side.  Both are quadratures of the same integral and differ on every finite grid.  The general
   form (vmr, p, T, z) is taken over z = moist_height vmr p T, the hydrostatic height of the MOIST column as the code's own
   pressure2height gives it when called with the virtual temperature (pressure2height works with the density of dry air,
   `density(p, T)` with the default R; at T_v = T R_v / (R_d ((1 - x) Md / Mw + x)) that is the density of the moist air,
   and the vapour density of the general form is the specific humidity of the hydrostatic form times it). *)
Theorem moist_height_is_pressure2height_at_virtual_temperature : forall vmr p T,
  moist_height vmr p T = pressure2height p (zip2 virtual_temperature vmr T).
Proof. reflexivity. Qed.
Theorem virtual_temperature_is_the_textbook_one : forall x T, 0 <= x <= 1 ->
  let c := c_gas_constant_water_vapor * c_molar_mass_water / (c_gas_constant_dry_air * c_molar_mass_dry_air) in
  virtual_temperature x T = c * (T / (1 - x * (1 - c_molar_mass_water / c_molar_mass_dry_air))) /\ Rabs (c - 1) <= 2 / 10 ^ 16.
Proof. exact virtual_temperature_textbook. Qed.
Theorem vapour_density_is_q_times_moist_density : forall x p T, 0 <= x <= 1 -> 0 < T ->
  x * density p T c_gas_constant_water_vapor =
  vmr2specific_humidity x * density p (virtual_temperature x T) c_gas_constant_dry_air.
Proof. exact vapour_density. Qed.
(* (1) the exact discrete identity, layer by layer: general form - hydrostatic form = the sum over the layers of
       dp / (2 g) * (q0 - q1) * (rho0 - rho1) / (rho0 + rho1)        (layer_defect; rho the density of the moist air) *)
Theorem iwv_forms_layer_identity : forall vmr p T, length vmr = length p -> length T = length p ->
  List.Forall (fun x => 0 <= x <= 1) vmr -> List.Forall (fun x => 0 < x) p -> List.Forall (fun x => 0 < x) T ->
  iwv_general vmr p T (moist_height vmr p T) - iwv_hydro vmr p = rsum (layer_map layer_defect vmr p T).
Proof. exact forms_identity. Qed.
(* each layer defect is at most the layer's relative contrast
       (r - 1) + (Md / Mw - 1) |x0 - x1| + |T0 - T1| / T0,     r = p0 / p1   (layer_contrast: pressure, composition, temperature step)
   times the layer's contribution to the hydrostatic form, and at most contrast * (Md / Mw) |x0 - x1| * dp / (2 g) *)
Theorem iwv_layer_defect_bound : forall x0 p0 T0 x1 p1 T1, 0 <= x0 <= 1 -> 0 <= x1 <= 1 -> 0 < p1 -> p1 <= p0 -> 0 < T0 -> 0 < T1 ->
  Rabs (layer_defect x0 p0 T0 x1 p1 T1) <= layer_contrast x0 p0 T0 x1 p1 T1 * layer_hydro x0 p0 T0 x1 p1 T1 /\
  Rabs (layer_defect x0 p0 T0 x1 p1 T1) <=
    layer_contrast x0 p0 T0 x1 p1 T1 * (c_molar_mass_dry_air / c_molar_mass_water * Rabs (x0 - x1)) * ((p0 - p1) / (2 * c_earth_standard_gravity)).
Proof. exact layer_defect_bounds. Qed.
(* (2) hence, when every layer has contrast <= e, the forms differ by at most e times the hydrostatic form *)
Theorem iwv_forms_close : forall e vmr p T, length vmr = length p -> length T = length p ->
  List.Forall (fun x => 0 <= x <= 1) vmr -> List.Forall (fun x => 0 < x) p -> decreasing p -> List.Forall (fun x => 0 < x) T ->
  layer_all (fun x0 p0 T0 x1 p1 T1 => layer_contrast x0 p0 T0 x1 p1 T1 <= e) vmr p T ->
  Rabs (iwv_general vmr p T (moist_height vmr p T) - iwv_hydro vmr p) <= e * iwv_hydro vmr p.
Proof. exact forms_close. Qed.
(* ... and, when moreover |x0 - x1| <= dx in every layer, by at most e * (Md / Mw) dx * (p_first - p_last) / (2 g): second order *)
Theorem iwv_forms_close_second_order : forall e dx vmr p T, length vmr = length p -> length T = length p ->
  List.Forall (fun x => 0 <= x <= 1) vmr -> List.Forall (fun x => 0 < x) p -> decreasing p -> List.Forall (fun x => 0 < x) T ->
  layer_all (fun x0 p0 T0 x1 p1 T1 => layer_contrast x0 p0 T0 x1 p1 T1 <= e /\ Rabs (x0 - x1) <= dx) vmr p T ->
  Rabs (iwv_general vmr p T (moist_height vmr p T) - iwv_hydro vmr p) <=
  e * (c_molar_mass_dry_air / c_molar_mass_water * dx) * ((hd 0 p - last p 0) / (2 * c_earth_standard_gravity)).
Proof. exact forms_second_order. Qed.
(* for profiles whose steps are controlled by the pressure step -- |x0 - x1| <= Lx (r - 1), |T0 - T1| <= LT (r - 1), T >= Tmin
   (Lipschitz in ln p, or in p on a bounded range) -- on a grid with r - 1 <= d in every layer:
   |general - hydrostatic| <= C d * hydrostatic  and  <= C d * (Md / Mw) Lx d * (p_first - p_last) / (2 g),
   C = 1 + (Md / Mw - 1) Lx + LT / Tmin   (forms_constant).
   The pressure step alone does NOT control the difference (Example pressure_step_alone_is_not_enough below). *)
Theorem iwv_forms_close_under_refinement : forall Lx LT Tmin d vmr p T, 0 <= Lx -> 0 <= LT -> 0 < Tmin ->
  length vmr = length p -> length T = length p ->
  List.Forall (fun x => 0 <= x <= 1) vmr -> List.Forall (fun x => 0 < x) p -> decreasing p -> List.Forall (fun t => Tmin <= t) T ->
  layer_all (smooth_layer Lx LT d) vmr p T ->
  let D := iwv_general vmr p T (moist_height vmr p T) - iwv_hydro vmr p in
  Rabs D <= forms_constant Lx LT Tmin * d * iwv_hydro vmr p /\
  Rabs D <= forms_constant Lx LT Tmin * d * (c_molar_mass_dry_air / c_molar_mass_water * (Lx * d)) *
            ((hd 0 p - last p 0) / (2 * c_earth_standard_gravity)).
Proof. exact forms_close_refinement. Qed.
(* the limit: profiles x(p), T(p) sampled on ANY sequence of decreasing grids below P whose largest pressure ratio tends
   to 1 -- the two forms converge to the same value (their difference tends to 0) *)
Theorem iwv_forms_converge : forall (fx fT : R -> R) (Lx LT Tmin P : R) (grid : nat -> list R),
  0 <= Lx -> 0 <= LT -> 0 < Tmin -> 0 < P ->
  (forall a b, 0 < b -> b <= a -> a <= P -> Rabs (fx a - fx b) <= Lx * (a / b - 1) /\ Rabs (fT a - fT b) <= LT * (a / b - 1)) ->
  (forall a, 0 < a <= P -> 0 <= fx a <= 1 /\ Tmin <= fT a) ->
  (forall n, decreasing (grid n) /\ List.Forall (fun a => 0 < a <= P) (grid n)) ->
  (forall d, 0 < d -> exists N, forall n, (N <= n)%nat -> List.Forall (fun r => r - 1 <= d) (ratios (grid n))) ->
  Un_cv (fun n => iwv_general (map fx (grid n)) (grid n) (map fT (grid n)) (moist_height (map fx (grid n)) (grid n) (map fT (grid n)))
                  - iwv_hydro (map fx (grid n)) (grid n)) 0.
Proof. exact forms_converge. Qed.

(* non-vacuity: the three-level column of nonvacuous_column below with T = 290, 270, 240 K has contrast <= 0.9 and steps
   |dx| <= 0.011 per layer, is smooth with Lx = 0.03, LT = 80, d = 0.75, Tmin = 200, and holds water *)
Example nonvacuous_forms :
  let vmr := [0.02; 0.01; 0.001] in let p := [100000; 70000; 40000] in let T := [290; 270; 240] in
  length vmr = length p /\ length T = length p /\ List.Forall (fun x => 0 <= x <= 1) vmr /\ List.Forall (fun x => 0 < x) p /\
  decreasing p /\ List.Forall (fun x => 0 < x) T /\ List.Forall (fun t => 200 <= t) T /\
  layer_all (fun x0 p0 T0 x1 p1 T1 => layer_contrast x0 p0 T0 x1 p1 T1 <= 0.9 /\ Rabs (x0 - x1) <= 0.011) vmr p T /\
  layer_all (smooth_layer 0.03 80 0.75) vmr p T /\
  0 < iwv_hydro vmr p.
Proof. exact nonvacuous_forms_witness. Qed.
(* the smoothness hypotheses are needed: two levels 1 % apart in pressure, the lower warm and moist, the upper cold and dry;
   the general form lies more than a quarter of the hydrostatic form below it *)
Example pressure_step_alone_is_not_enough :
  let vmr := [0.04; 0] in let p := [100000; 99000] in let T := [330; 180] in
  List.Forall (fun r => r - 1 <= 0.0102) (ratios p) /\ 0 < iwv_hydro vmr p /\
  iwv_general vmr p T (moist_height vmr p T) - iwv_hydro vmr p <= - (1 / 4) * iwv_hydro vmr p.
Proof. exact pressure_step_alone_witness. Qed.
(* non-vacuity of the limit theorem: grids of n + 2 levels from 1000 hPa with the constant ratio 1 + 1 / (n + 1)
   (witness_grid), vmr and T linear in p *)
Example nonvacuous_converge :
  let fx := fun a => 0.02 * (a / 100000) in let fT := fun a => 200 + 90 * (a / 100000) in
  (forall a b, 0 < b -> b <= a -> a <= 100000 -> Rabs (fx a - fx b) <= 0.02 * (a / b - 1) /\ Rabs (fT a - fT b) <= 90 * (a / b - 1)) /\
  (forall a, 0 < a <= 100000 -> 0 <= fx a <= 1 /\ 200 <= fT a) /\
  (forall n, decreasing (witness_grid n) /\ List.Forall (fun a => 0 < a <= 100000) (witness_grid n)) /\
  (forall d, 0 < d -> exists N, forall n, (N <= n)%nat -> List.Forall (fun r => r - 1 <= d) (ratios (witness_grid n))) /\
  (forall n, length (witness_grid n) = S (S n)).
Proof. exact nonvacuous_converge_witness. Qed.

(* ---- each quadrature against the continuum integral.
   The integrand is a function sampled on the grid: `trapz (map f xs) xs` is integrate_column(f(x), x), and
   `iwv_hydro (map fx p) p`, `iwv_general (map fx z) (map fp z) (map fT z) z` are the two forms of integrate_water_vapor for
   profiles given as functions of pressure resp. height (vocabulary: Model/C14_quad.v; `integral` is Coquelicot's RInt). *)

(* the bridge to Coquelicot's Riemann sums: the trapezoidal sum of the list model is the mean of the Riemann sums of the grid
   pointed at the left and at the right ends of its layers, and both pointed grids are subdivisions of [a, b] with the grid's
   own points and mesh, as the filter Riemann_fine in the definition of is_RInt requires *)
Theorem trapz_is_mean_of_riemann_sums : forall (f : R -> R) xs,
  trapz (map f xs) xs = (left_sum f xs + right_sum f xs) / 2.
Proof. exact trapz_mean_of_riemann_sums. Qed.
Theorem grid_points_are_fine_subdivisions : forall a b d xs, a < b -> 0 <= d ->
  nondecreasing xs -> grid_from_to a b xs -> steps_within d xs ->
  fine_subdivision_of xs a b d (left_points xs) /\ fine_subdivision_of xs a b d (right_points xs).
Proof. exact grid_points_fine. Qed.
(* (1) convergence: for a Riemann-integrable integrand and ANY sequence of grids from a to b (uniform or not, as real
   soundings are) whose largest step tends to 0, the quadrature tends to the integral; also on decreasing grids (pressure) *)
Theorem trapz_converges_to_integral : forall (f : R -> R) a b (grid : nat -> list R), a < b -> integrable f a b ->
  (forall n, nondecreasing (grid n) /\ grid_from_to a b (grid n)) -> mesh_vanishes grid ->
  tends_to (fun n => trapz (map f (grid n)) (grid n)) (integral f a b).
Proof. exact trapz_converges. Qed.
Theorem trapz_converges_to_integral_on_decreasing_grids : forall (f : R -> R) a b (grid : nat -> list R), b < a -> integrable f a b ->
  (forall n, nonincreasing (grid n) /\ grid_from_to a b (grid n)) -> mesh_vanishes grid ->
  tends_to (fun n => trapz (map f (grid n)) (grid n)) (integral f a b).
Proof. exact trapz_converges_decreasing. Qed.
(* in particular on the uniform grids of n + 1 layers (numpy.linspace(a, b, n + 2)), whichever way they run *)
Theorem trapz_uniform_converges_to_integral : forall (f : R -> R) a b, a <> b -> integrable f a b ->
  tends_to (fun n => trapz (map f (uniform_grid a b n)) (uniform_grid a b n)) (integral f a b).
Proof. exact trapz_uniform_converges. Qed.
(* (2) error bounds on ANY grid from a to b whose steps are at most h:  (b - a) h^2 M / 12 for a C^2 integrand with |f''| <= M,
   (b - a) h L / 2 for an integrable L-Lipschitz integrand;  on the uniform grid h = (b - a) / (n + 1) *)
Theorem trapz_error_bound_C2 : forall (f df ddf : R -> R) a b M h xs,
  C2_on f df ddf a b -> (forall x, a <= x <= b -> Rabs (ddf x) <= M) ->
  nondecreasing xs -> grid_from_to a b xs -> steps_within h xs ->
  Rabs (trapz (map f xs) xs - integral f a b) <= (b - a) * h ^ 2 * M / 12.
Proof. exact trapz_error_C2_on. Qed.
Theorem trapz_error_bound_C2_on_decreasing_grids : forall (f df ddf : R -> R) a b M h xs,
  C2_on f df ddf b a -> (forall x, b <= x <= a -> Rabs (ddf x) <= M) ->
  nonincreasing xs -> grid_from_to a b xs -> steps_within h xs ->
  Rabs (trapz (map f xs) xs - integral f a b) <= (a - b) * h ^ 2 * M / 12.
Proof. exact trapz_error_C2_on_decreasing. Qed.
Theorem trapz_error_bound_C2_uniform : forall (f df ddf : R -> R) a b M n,
  a <= b -> C2_on f df ddf a b -> (forall x, a <= x <= b -> Rabs (ddf x) <= M) ->
  Rabs (trapz (map f (uniform_grid a b n)) (uniform_grid a b n) - integral f a b) <= (b - a) ^ 3 * M / (12 * INR (S n) ^ 2).
Proof. exact trapz_uniform_error_C2_on. Qed.
Theorem trapz_error_bound_lipschitz : forall (f : R -> R) a b L h xs,
  integrable f a b -> (forall x y, a <= x <= b -> a <= y <= b -> Rabs (f x - f y) <= L * Rabs (x - y)) -> 0 <= L ->
  nondecreasing xs -> grid_from_to a b xs -> steps_within h xs ->
  Rabs (trapz (map f xs) xs - integral f a b) <= (b - a) * h * L / 2.
Proof. exact trapz_error_lipschitz. Qed.
(* (3) the two forms of integrate_water_vapor.  Hydrostatic form, vmr a function of pressure, grids running down from p0 to
   p1 < p0:  the limit is - 1/g int_p0^p1 q(vmr(p)) dp;  general form, vmr / p / T functions of height, grids running up from
   z0 to z1:  the limit is int_z0^z1 vmr rho(p, T, R_v) dz.  Continuous profiles (0 <= vmr <= 1, T > 0) have integrable
   integrands.  The C^2 bounds are those of (2) (divided by g for the hydrostatic form). *)
Theorem iwv_hydro_converges_to_integral : forall (fx : R -> R) p0 p1 (grid : nat -> list R),
  p1 < p0 -> integrable (hydro_integrand fx) p0 p1 ->
  (forall n, nonincreasing (grid n) /\ grid_from_to p0 p1 (grid n)) -> mesh_vanishes grid ->
  tends_to (fun n => iwv_hydro (map fx (grid n)) (grid n)) (- integral (hydro_integrand fx) p0 p1 / c_earth_standard_gravity).
Proof. exact iwv_hydro_converges. Qed.
Theorem iwv_general_converges_to_integral : forall (fx fp fT : R -> R) z0 z1 (grid : nat -> list R),
  z0 < z1 -> integrable (vapour_integrand fx fp fT) z0 z1 ->
  (forall n, nondecreasing (grid n) /\ grid_from_to z0 z1 (grid n)) -> mesh_vanishes grid ->
  tends_to (fun n => iwv_general (map fx (grid n)) (map fp (grid n)) (map fT (grid n)) (grid n))
           (integral (vapour_integrand fx fp fT) z0 z1).
Proof. exact iwv_general_converges. Qed.
Theorem iwv_integrands_of_continuous_profiles_are_integrable :
  (forall (fx : R -> R) p0 p1, p1 <= p0 -> (forall p, p1 <= p <= p0 -> continuous_at fx p /\ 0 <= fx p <= 1) ->
     integrable (hydro_integrand fx) p0 p1) /\
  (forall (fx fp fT : R -> R) z0 z1, z0 <= z1 ->
     (forall z, z0 <= z <= z1 -> continuous_at fx z /\ continuous_at fp z /\ continuous_at fT z /\ 0 < fT z) ->
     integrable (vapour_integrand fx fp fT) z0 z1).
Proof. exact iwv_integrands_integrable. Qed.
Theorem iwv_hydro_error_bound_C2 : forall (fx dQ ddQ : R -> R) p0 p1 M h ps,
  C2_on (hydro_integrand fx) dQ ddQ p1 p0 -> (forall p, p1 <= p <= p0 -> Rabs (ddQ p) <= M) ->
  nonincreasing ps -> grid_from_to p0 p1 ps -> steps_within h ps ->
  Rabs (iwv_hydro (map fx ps) ps - integral (hydro_integrand fx) p1 p0 / c_earth_standard_gravity)
  <= (p0 - p1) * h ^ 2 * M / 12 / c_earth_standard_gravity.
Proof. exact iwv_hydro_error_C2_on. Qed.
Theorem iwv_general_error_bound_C2 : forall (fx fp fT dF ddF : R -> R) z0 z1 M h zs,
  C2_on (vapour_integrand fx fp fT) dF ddF z0 z1 -> (forall z, z0 <= z <= z1 -> Rabs (ddF z) <= M) ->
  nondecreasing zs -> grid_from_to z0 z1 zs -> steps_within h zs ->
  Rabs (iwv_general (map fx zs) (map fp zs) (map fT zs) zs - integral (vapour_integrand fx fp fT) z0 z1) <= (z1 - z0) * h ^ 2 * M / 12.
Proof. exact iwv_general_error_C2_on. Qed.
(* (4) two analytic columns, for every choice of their parameters: the integrand is integrable and its integral is the closed
   form, every grid obeys the C^2 bound with the constant of the profile, and the uniform grids converge to the closed form.
   (a) exponential water-vapour density: isothermal column at T0, vmr = x0 exp(-z / Hx), p = p0 exp(-z / Hp) between 0 and Z:
       rho_v = rho0 exp(-k z), rho0 = x0 p0 / (R_v T0), k = 1/Hx + 1/Hp;  IWV = rho0 (1 - exp(-k Z)) / k, |rho_v''| <= k^2 rho0;
   (b) specific humidity q0 (p / ps)^2 between ps and p1 (vmr = specific_humidity2vmr q):
       IWV = q0 (ps^3 - p1^3) / (3 ps^2 g), |q''| = 2 q0 / ps^2.
   The harness evaluates integrate_water_vapor on refined grids of both columns and checks these very bounds. *)
Theorem iwv_exponential_column : forall x0 p0 T0 Hx Hp Z, 0 <= x0 -> 0 <= p0 -> 0 < T0 -> 0 < Hx -> 0 < Hp -> 0 < Z ->
  let fx := fun z => x0 * exp (- (z / Hx)) in let fp := fun z => p0 * exp (- (z / Hp)) in let fT := fun _ : R => T0 in
  (integrable (vapour_integrand fx fp fT) 0 Z /\ integral (vapour_integrand fx fp fT) 0 Z = expo_column x0 p0 T0 Hx Hp Z) /\
  (forall h zs, nondecreasing zs -> grid_from_to 0 Z zs -> steps_within h zs ->
     Rabs (iwv_general (map fx zs) (map fp zs) (map fT zs) zs - expo_column x0 p0 T0 Hx Hp Z)
     <= Z * h ^ 2 * expo_curvature x0 p0 T0 Hx Hp / 12) /\
  tends_to (fun n => let zs := uniform_grid 0 Z n in iwv_general (map fx zs) (map fp zs) (map fT zs) zs)
           (expo_column x0 p0 T0 Hx Hp Z).
Proof. exact expo_column_summary. Qed.
Theorem iwv_quadratic_column : forall q0 ps p1, 0 <= q0 < 1 -> 0 <= p1 -> p1 < ps ->
  let fx := fun p => specific_humidity2vmr (q0 * (p / ps) ^ 2) in
  (integrable (hydro_integrand fx) ps p1 /\
   - integral (hydro_integrand fx) ps p1 / c_earth_standard_gravity = quad_column q0 ps p1) /\
  (forall h pg, nonincreasing pg -> grid_from_to ps p1 pg -> steps_within h pg ->
     Rabs (iwv_hydro (map fx pg) pg - quad_column q0 ps p1) <= (ps - p1) * h ^ 2 * (2 * q0 / ps ^ 2) / 12 / c_earth_standard_gravity) /\
  tends_to (fun n => let g := uniform_grid ps p1 n in iwv_hydro (map fx g) g) (quad_column q0 ps p1).
Proof. exact quad_column_summary. Qed.

(* non-vacuity.  The grid hypotheses: the uniform grids from a to b (either way) are monotone grids from a to b of n + 2 levels with
   steps |b - a| / (n + 1), and their mesh vanishes *)
Example nonvacuous_grids : forall a b,
  (forall n, grid_from_to a b (uniform_grid a b n) /\ (a <= b -> nondecreasing (uniform_grid a b n)) /\
             (b <= a -> nonincreasing (uniform_grid a b n)) /\ steps_within (Rabs (b - a) / INR (S n)) (uniform_grid a b n) /\
             length (uniform_grid a b n) = S (S n)) /\
  mesh_vanishes (uniform_grid a b).
Proof. exact uniform_grid_witness. Qed.
(* the C^2 hypotheses: 2 exp(-3 z) on [0, 1] with M = 18; its integral is the closed form *)
Example nonvacuous_C2_integrand :
  let f := fun z => 2 * exp (- (3 * z)) in
  C2_on f (fun z => - 3 * 2 * exp (- (3 * z))) (fun z => 3 ^ 2 * 2 * exp (- (3 * z))) 0 1 /\
  (forall z, 0 <= z <= 1 -> Rabs (3 ^ 2 * 2 * exp (- (3 * z))) <= 3 ^ 2 * 2) /\
  integrable f 0 1 /\ integral f 0 1 = 2 * (1 - exp (- (3 * 1))) / 3.
Proof. exact (expo_witness 2 3 1 ltac:(Lra.lra) ltac:(Lra.lra) ltac:(Lra.lra)). Qed.
(* the Lipschitz hypotheses, on an integrand that is not C^2: |x| on [-1, 1] with L = 1, integral 1 *)
Example nonvacuous_lipschitz_integrand :
  integrable Rabs (-1) 1 /\ (forall x y, -1 <= x <= 1 -> -1 <= y <= 1 -> Rabs (Rabs x - Rabs y) <= 1 * Rabs (x - y)) /\
  integral Rabs (-1) 1 = 1.
Proof. exact lipschitz_witness. Qed.
(* the two columns with numbers: 2 % vmr at 1000 hPa and 280 K, scale heights 2.5 km / 8 km, up to 10 km;
   q0 = 0.012 between 1000 and 200 hPa *)
Example nonvacuous_columns :
  (0 <= 0.02 /\ 0 <= 100000 /\ 0 < 280 /\ 0 < 2500 /\ 0 < 8000 /\ 0 < 10000) /\ (0 <= 0.012 < 1 /\ 0 <= 20000 /\ 20000 < 100000) /\
  0 < expo_column 0.02 100000 280 2500 8000 10000 /\ 0 < quad_column 0.012 100000 20000.
Proof. exact columns_witness. Qed.

(* ---- column_relative_humidity *)

(* 1 for the profile saturated with respect to the mixed phase (the saturation humidity the function itself uses), on
   any strictly decreasing pressure grid of at least two levels with e_s(T) < p *)
Theorem crh_saturated_is_one : forall t p, length t = length p -> (2 <= length p)%nat -> decreasing p ->
  List.Forall (fun tp => e_eq_mixed_mk (fst tp) < snd tp) (combine t p) ->
  crh (zip2 qsat t p) p t = 1.
Proof. exact crh_saturated. Qed.
(* scales linearly with q below saturation *)
Theorem crh_linear_in_q : forall c q p t, List.Forall (fun x => 0 <= x < 1) q -> List.Forall (fun x => 0 <= c * x < 1) q ->
  crh (map (Rmult c) q) p t = c * crh q p t.
Proof. exact crh_linear. Qed.

(* ---- pressure2height *)

(* starts at 0, one height per level *)
Theorem p2h_starts_at_zero : forall p T, p <> [] -> length T = length p ->
  hd 1 (pressure2height p T) = 0 /\ length (pressure2height p T) = length p.
Proof. exact p2h_shape. Qed.
(* increases strictly with decreasing pressure *)
Theorem p2h_strictly_increasing : forall p T, decreasing p -> List.Forall (fun x => 0 < x) p -> List.Forall (fun x => 0 < x) T ->
  increasing (pressure2height p T).
Proof. exact p2h_increasing. Qed.
(* follows z = (R T / g) ln (p0 / p) for an isothermal column: level k lies below the analytic height by at most
   (R T / g) sum_(i<k) (r_i - 1)^3 / 12, r_i = p_i / p_(i+1)  (each layer replaces ln r by 2 (r - 1) / (r + 1)) *)
Theorem p2h_isothermal_column : forall T0 p k, 0 < T0 -> List.Forall (fun x => 0 < x) p -> decreasing p -> (k < length p)%nat ->
  let H := c_gas_constant_dry_air * T0 / c_earth_standard_gravity in
  let z := nth k (pressure2height p (repeat T0 (length p))) 0 in
  z = H * rsum (map pade (firstn k (ratios p))) /\
  0 <= H * ln (nth 0 p 0 / nth k p 0) - z <= H * rsum (map (fun r => (r - 1) ^ 3 / 12) (firstn k (ratios p))).
Proof. exact p2h_isothermal. Qed.
Theorem layer_defect_bound : forall r, 1 <= r -> 0 <= ln r - pade r <= (r - 1) ^ 3 / 12.
Proof. exact ln_pade_bound. Qed.

(* ---- standard_atmosphere: piecewise linear in height resp. ln p between the tabulated levels (extrapolated outside),
        used by pressure2height when no temperature is given (pressure2height_isa, by definition), and the two
        addressings agree at the tabulated levels *)
Theorem standard_atmosphere_by_height : forall k z, (k < 7)%nat -> (k = 0%nat \/ nth k isa_h 0 < z) ->
  (k = 6%nat \/ z <= nth (S k) isa_h 0) -> standard_atmosphere_h z = seg_h k z.
Proof. exact sa_h_segment. Qed.
Theorem standard_atmosphere_by_pressure : forall k p, (k < 7)%nat -> 0 < p -> (k = 6%nat \/ nth (S k) isa_p 1 < p) ->
  (k = 0%nat \/ p <= nth k isa_p 1) -> standard_atmosphere_p p = seg_p k p.
Proof. exact sa_p_segment. Qed.
Theorem isa_height_and_pressure_agree : forall k, (k < 8)%nat ->
  standard_atmosphere_h (nth k isa_h 0) = nth k isa_kelvin 0 /\
  standard_atmosphere_p (nth k isa_p 1) = nth k isa_kelvin 0.
Proof. exact isa_levels_agree. Qed.
Theorem p2h_default_is_standard_atmosphere : forall p,
  pressure2height_isa p = pressure2height p (map standard_atmosphere_p p).
Proof. reflexivity. Qed.

(* non-vacuity: a three-level isothermal column at 250 K (1000, 700, 400 hPa) meets every hypothesis above *)
Example nonvacuous_column :
  let p := [100000; 70000; 40000] in
  0 < 250 /\ List.Forall (fun x => 0 < x) p /\ decreasing p /\ nonincreasing p /\ (2 < length p)%nat /\ p <> [] /\
  List.Forall (fun x => 0 <= x <= 1) [0.02; 0.01; 0.001] /\
  List.Forall (fun tp => e_eq_mixed_mk (fst tp) < snd tp) (combine [290; 270; 240] p).
Proof. exact nonvacuous_column_witness. Qed.

Print Assumptions trapz_is_integral_of_interpolant_over_range.
Print Assumptions trapz_is_integral_of_interpolant.
Print Assumptions interpolant_through_data.
Print Assumptions trapz_linear_in_y.
Print Assumptions trapz_additive_at_grid_point.
Print Assumptions trapz_reversal.
Print Assumptions trapz_default_unit_spacing.
Print Assumptions axis_lanes.
Print Assumptions iwv_nonnegative.
Print Assumptions iwv_general_nonnegative.
Print Assumptions moist_height_is_pressure2height_at_virtual_temperature.
Print Assumptions virtual_temperature_is_the_textbook_one.
Print Assumptions vapour_density_is_q_times_moist_density.
Print Assumptions iwv_forms_layer_identity.
Print Assumptions iwv_layer_defect_bound.
Print Assumptions iwv_forms_close.
Print Assumptions iwv_forms_close_second_order.
Print Assumptions iwv_forms_close_under_refinement.
Print Assumptions iwv_forms_converge.
Print Assumptions trapz_is_mean_of_riemann_sums.
Print Assumptions grid_points_are_fine_subdivisions.
Print Assumptions trapz_converges_to_integral.
Print Assumptions trapz_converges_to_integral_on_decreasing_grids.
Print Assumptions trapz_uniform_converges_to_integral.
Print Assumptions trapz_error_bound_C2.
Print Assumptions trapz_error_bound_C2_on_decreasing_grids.
Print Assumptions trapz_error_bound_C2_uniform.
Print Assumptions trapz_error_bound_lipschitz.
Print Assumptions iwv_hydro_converges_to_integral.
Print Assumptions iwv_general_converges_to_integral.
Print Assumptions iwv_integrands_of_continuous_profiles_are_integrable.
Print Assumptions iwv_hydro_error_bound_C2.
Print Assumptions iwv_general_error_bound_C2.
Print Assumptions iwv_exponential_column.
Print Assumptions iwv_quadratic_column.
Print Assumptions crh_saturated_is_one.
Print Assumptions crh_linear_in_q.
Print Assumptions p2h_starts_at_zero.
Print Assumptions p2h_strictly_increasing.
Print Assumptions p2h_isothermal_column.
Print Assumptions layer_defect_bound.
Print Assumptions standard_atmosphere_by_height.
Print Assumptions standard_atmosphere_by_pressure.
Print Assumptions isa_height_and_pressure_agree.
Print Assumptions p2h_default_is_standard_atmosphere.
