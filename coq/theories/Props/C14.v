(* C14 -- column integrals and hydrostatic conversions agree with their defining integrals.
   Statements about the list model Model/C14_column.v, which is built on the kernels, constants and the ISA table
   GENERATED from typhon/physics/atmosphere.py (coq/gen/atmosphere.v, regenerated on every run). *)
From Coq Require Import Reals List.
From TyphonGen Require Import atmosphere.
From Typhon Require Import Model.C14_column Model.C14_rint Proofs.C14_trapz Proofs.C14_rint Proofs.C14_hydro.
Import ListNotations.
Open Scope R_scope.

(* ---- integrate_column: the trapezoidal rule *)

(* ... is the Riemann integral, over the whole range of an increasing grid, of the piecewise-linear interpolant of (x, y)
   (interp_seg: straight lines between neighbouring data points), which passes through every data point *)
Theorem trapz_is_integral_of_interpolant_over_range : forall xs ys, increasing xs -> length ys = length xs -> (2 <= length xs)%nat ->
  integral (interp_seg xs ys) (hd 0 xs) (last xs 0) = trapz ys xs /\
  (forall k, (k < length xs)%nat -> interp_seg xs ys (nth k xs 0) = nth k ys 0).
Proof. exact trapz_interp_range. Qed.
(* ... and, on any grid without repeated neighbours (increasing or decreasing), the sum of the integrals of the straight
   lines through neighbouring data points, segment by segment *)
Theorem trapz_is_integral_of_interpolant : forall ys xs, distinct_neighbours xs ->
  trapz ys xs = rsum (segment_integrals ys xs).
Proof. exact trapz_is_RInt. Qed.
Theorem interpolant_through_data : forall x0 y0 x1 y1, x0 <> x1 ->
  line x0 y0 x1 y1 x0 = y0 /\ line x0 y0 x1 y1 x1 = y1.
Proof. exact line_ends. Qed.
(* ... is linear in y *)
Theorem trapz_linear_in_y : forall c d ys zs xs, length ys = length xs -> length zs = length xs ->
  trapz (zip2 (fun a b => c * a + d * b) ys zs) xs = c * trapz ys xs + d * trapz zs xs.
Proof. exact trapz_linear. Qed.
(* ... is additive when the range is split at any grid index *)
Theorem trapz_additive_at_grid_point : forall k ys xs, length ys = length xs -> (k < length ys)%nat ->
  trapz ys xs = trapz (firstn (S k) ys) (firstn (S k) xs) + trapz (skipn k ys) (skipn k xs).
Proof. exact trapz_split. Qed.
(* ... changes sign when the coordinate is reversed *)
Theorem trapz_reversal : forall ys xs, length ys = length xs -> trapz (rev ys) (rev xs) = - trapz ys xs.
Proof. exact trapz_rev. Qed.
(* ... defaults to unit spacing *)
Theorem trapz_default_unit_spacing : forall ys, trapz_unit ys = trapz ys (arange (length ys)).
Proof. exact trapz_unit_arange. Qed.
(* ... and, on an array of any rank (outer x n x inner), integrates every lane *)
Theorem axis_lanes : forall inner Y xs, List.Forall (List.Forall (fun r => length r = inner)) Y ->
  integrate_nd Y xs inner = map (fun rows => map (fun i => trapz (lane rows i) xs) (seq 0 inner)) Y.
Proof. exact integrate_nd_lanes. Qed.

(* non-vacuity: an irregular decreasing grid of four levels, split at index 2 *)
Example nonvacuous_trapz :
  let xs := [4; 3; 1.5; 1] in let ys := [1; 2; 0.5; 3] in
  distinct_neighbours xs /\ increasing (rev xs) /\ length ys = length xs /\ (2 < length ys)%nat /\
  trapz ys xs = - 4.25 /\ trapz (rev ys) (rev xs) = 4.25 /\
  trapz (firstn 3 ys) (firstn 3 xs) + trapz (skipn 2 ys) (skipn 2 xs) = - 4.25.
Proof. cbn [distinct_neighbours increasing length trapz rev app firstn skipn]. repeat split; try Lra.lra; try Lia.lia. Qed.

(* ---- integrate_water_vapor *)

(* non-negative for non-negative vmr and (weakly) decreasing pressure; the general form likewise over increasing z *)
Theorem iwv_nonnegative : forall vmr p, List.Forall (fun x => 0 <= x <= 1) vmr -> nonincreasing p -> 0 <= iwv_hydro vmr p.
Proof. exact iwv_hydro_nonneg. Qed.
Theorem iwv_general_nonnegative : forall vmr p T z, List.Forall (fun x => 0 <= x) vmr -> List.Forall (fun x => 0 <= x) p ->
  List.Forall (fun x => 0 < x) T -> nondecreasing z -> 0 <= iwv_general vmr p T z.
Proof. exact iwv_general_nonneg. Qed.
(* The agreement of the hydrostatic form (vmr, p) and the general form (vmr, p, T, z) when z is the hydrostatic height of
   the moist column is a CONVERGENCE statement (both are quadratures of the same integral, equal only in the limit of a
   refined grid).  It is NOT proved here; tools/props/c14.py checks it numerically on refined grids.
   Theorem iwv_forms_converge : for smooth profiles x(p), T(p) and z(p) = int_p^p0 R_moist T / (g p') dp',
     | iwv_hydro (x on grid_n) (grid_n) - iwv_general (x, grid_n, T, z on grid_n) | -> 0  as the grid is refined. *)

(* ---- column_relative_humidity *)

(* 1 for the profile saturated with respect to the mixed phase (the saturation humidity the function itself uses), on
   any strictly decreasing pressure grid of at least two levels with e_s(T) < p *)
Theorem crh_saturated_is_one : forall t p, length t = length p -> (2 <= length p)%nat -> decreasing p ->
  List.Forall (fun tp => e_eq_mixed_mk (fst tp) < snd tp) (combine t p) ->
  crh (zip2 qsat t p) p t = 1.
Proof. exact crh_saturated. Qed.
(* scales linearly with q below saturation *)
Theorem crh_linear_in_q : forall c q p t, List.Forall (fun x => 0 <= x < 1) q -> List.Forall (fun x => 0 <= c * x < 1) q ->
  crh (map (Rmult c) q) p t = c * crh q p t.
Proof. exact crh_linear. Qed.

(* ---- pressure2height *)

(* starts at 0, one height per level *)
Theorem p2h_starts_at_zero : forall p T, p <> [] -> length T = length p ->
  hd 1 (pressure2height p T) = 0 /\ length (pressure2height p T) = length p.
Proof. exact p2h_shape. Qed.
(* increases strictly with decreasing pressure *)
Theorem p2h_strictly_increasing : forall p T, decreasing p -> List.Forall (fun x => 0 < x) p -> List.Forall (fun x => 0 < x) T ->
  increasing (pressure2height p T).
Proof. exact p2h_increasing. Qed.
(* follows z = (R T / g) ln (p0 / p) for an isothermal column: level k lies below the analytic height by at most
   (R T / g) sum_(i<k) (r_i - 1)^3 / 12, r_i = p_i / p_(i+1)  (each layer replaces ln r by 2 (r - 1) / (r + 1)) *)
Theorem p2h_isothermal_column : forall T0 p k, 0 < T0 -> List.Forall (fun x => 0 < x) p -> decreasing p -> (k < length p)%nat ->
  let H := c_gas_constant_dry_air * T0 / c_earth_standard_gravity in
  let z := nth k (pressure2height p (repeat T0 (length p))) 0 in
  z = H * rsum (map pade (firstn k (ratios p))) /\
  0 <= H * ln (nth 0 p 0 / nth k p 0) - z <= H * rsum (map (fun r => (r - 1) ^ 3 / 12) (firstn k (ratios p))).
Proof. exact p2h_isothermal. Qed.
Theorem layer_defect_bound : forall r, 1 <= r -> 0 <= ln r - pade r <= (r - 1) ^ 3 / 12.
Proof. exact ln_pade_bound. Qed.

(* ---- standard_atmosphere: piecewise linear in height resp. ln p between the tabulated levels (extrapolated outside),
        used by pressure2height when no temperature is given (pressure2height_isa, by definition), and the two
        addressings agree at the tabulated levels *)
Theorem standard_atmosphere_by_height : forall k z, (k < 7)%nat -> (k = 0%nat \/ nth k isa_h 0 < z) ->
  (k = 6%nat \/ z <= nth (S k) isa_h 0) -> standard_atmosphere_h z = seg_h k z.
Proof. exact sa_h_segment. Qed.
Theorem standard_atmosphere_by_pressure : forall k p, (k < 7)%nat -> 0 < p -> (k = 6%nat \/ nth (S k) isa_p 1 < p) ->
  (k = 0%nat \/ p <= nth k isa_p 1) -> standard_atmosphere_p p = seg_p k p.
Proof. exact sa_p_segment. Qed.
Theorem isa_height_and_pressure_agree : forall k, (k < 8)%nat ->
  standard_atmosphere_h (nth k isa_h 0) = nth k isa_kelvin 0 /\
  standard_atmosphere_p (nth k isa_p 1) = nth k isa_kelvin 0.
Proof. exact isa_levels_agree. Qed.
Theorem p2h_default_is_standard_atmosphere : forall p,
  pressure2height_isa p = pressure2height p (map standard_atmosphere_p p).
Proof. reflexivity. Qed.

(* non-vacuity: a three-level isothermal column at 250 K (1000, 700, 400 hPa) meets every hypothesis above *)
Example nonvacuous_column :
  let p := [100000; 70000; 40000] in
  0 < 250 /\ List.Forall (fun x => 0 < x) p /\ decreasing p /\ nonincreasing p /\ (2 < length p)%nat /\ p <> [] /\
  List.Forall (fun x => 0 <= x <= 1) [0.02; 0.01; 0.001] /\
  List.Forall (fun tp => e_eq_mixed_mk (fst tp) < snd tp) (combine [290; 270; 240] p).
Proof. exact nonvacuous_column_witness. Qed.

Print Assumptions trapz_is_integral_of_interpolant_over_range.
Print Assumptions trapz_is_integral_of_interpolant.
Print Assumptions interpolant_through_data.
Print Assumptions trapz_linear_in_y.
Print Assumptions trapz_additive_at_grid_point.
Print Assumptions trapz_reversal.
Print Assumptions trapz_default_unit_spacing.
Print Assumptions axis_lanes.
Print Assumptions iwv_nonnegative.
Print Assumptions iwv_general_nonnegative.
Print Assumptions crh_saturated_is_one.
Print Assumptions crh_linear_in_q.
Print Assumptions p2h_starts_at_zero.
Print Assumptions p2h_strictly_increasing.
Print Assumptions p2h_isothermal_column.
Print Assumptions layer_defect_bound.
Print Assumptions standard_atmosphere_by_height.
Print Assumptions standard_atmosphere_by_pressure.
Print Assumptions isa_height_and_pressure_agree.
Print Assumptions p2h_default_is_standard_atmosphere.
