(* C02 -- property theorems. This file holds ONLY statements, `exact <lemma>`, non-vacuity examples and
   Print Assumptions.  Model: Model/C02_template.v (render = FileSet.get_filename, parse = the regex of
   _fill_placeholders + re.match, info = get_info); calendar: Base/Calendar.v.

   Every clause of the statement is a theorem here: parse_render / parse_sound / parse_complete /
   rejected_iff_no_instance (names), no_end_fields / roundtrip_end_full / roundtrip_end_partial /
   end_partial_exact / roundtrip_end_partial_exact / roundtrip_start (times), handler_overrides(_partial) /
   handler_only (info_via), unknown_placeholder / unfilled_placeholder / no_match_rejected (errors).
   Outside the statement and not claimed: end-field sets other than "as complete as the start" or a sub-day suffix
   (end_day alone with the 31-day "month", end_doy without an end year). *)
From Coq Require Import ZArith List Bool Ascii String.
From Typhon Require Import Base.Calendar Base.CalendarProofs Model.C02_template Proofs.C02_template.
Import ListNotations.
Open Scope Z_scope.

(* parse_filename(get_filename(...)) recovers every placeholder string: the dictionary is exactly the
   strings written for the placeholders (first occurrence of each), for every deterministic template *)
Theorem parse_render : forall tp s e fill n,
  valid s -> valid e -> 1000 <= year (fields s) -> 1000 <= year (fields e) ->
  deterministic fill tp = true -> render tp s e fill = Ok n ->
  exists ps, pieces (fields s) (fields e) fill tp = Ok ps /\ n = text_of ps /\
             parse tp n = Ok (first_only (binds_of ps)).
Proof. exact parse_render_thm. Qed.

(* whatever parse_filename accepts is an instance of the template: the name is the template with each placeholder
   occurrence replaced by a word of its regex (b lists them in template order, `*` by newline-free words), and the
   dictionary returned is the first occurrence of each key -- so a name that is no instance is never mis-parsed *)
Theorem parse_sound : forall tp n d, parse tp n = Ok d ->
  exists b, d = first_only b /\ is_instance tp b n.
Proof. exact parse_sound_thm. Qed.

(* conversely every instance is accepted (the backtracking of lazy quantifiers and alternations loses nothing) *)
Theorem parse_complete : forall tp b n, existsb unknown_tok tp = false -> is_instance tp b n ->
  exists d, parse tp n = Ok d.
Proof. exact parse_complete_thm. Qed.

(* hence the ValueError of parse_filename is raised exactly on the names that are no instance of the template *)
Theorem rejected_iff_no_instance : forall tp n, existsb unknown_tok tp = false ->
  (parse tp n = Error ENoMatch <-> forall b, ~ is_instance tp b n).
Proof. exact rejected_iff_thm. Qed.

(* the per-name certificate of the harness (occurrence strings and `*` words found by search, checked by
   `assemble` in Coq) is a proof that the accepted name is an instance *)
Theorem instance_certificate : forall tp b ws n, fst (run_instance tp b ws n) = true ->
  is_instance tp (map (fun kv => (fst kv, s2l (snd kv))) b) (s2l n).
Proof. exact run_instance_sound. Qed.

(* a template without end fields: start s, end = s + time_coverage (or s for discrete files), attributes = fill;
   years 1000-9999 resp. 1965-2064, leap days and doy 366 included (start_ok) *)
Theorem no_end_fields : forall c tp s e fill n,
  start_ok tp s -> valid e -> 1000 <= year (fields e) -> end_fields tp = [] ->
  deterministic fill tp = true -> info_via c = ViaFilename -> render tp s e fill = Ok n ->
  exists attrs, attrs_are fill tp attrs /\
    info c tp n = match coverage c with
                  | Some d => match add s d with Some r => Ok (s, r, attrs) | None => Error EOverflow end
                  | None => Ok (s, s, attrs)
                  end.
Proof. exact no_end_fields_thm. Qed.

(* the end spelt as completely as the start: start s, end e, attributes = fill *)
Theorem roundtrip_end_full : forall c tp s e fill n,
  start_ok tp s -> valid e -> s <= e -> end_full tp = true -> in_range (end_fields tp) (fields e) = true ->
  at_resolution (end_fields tp) (fields e) = true -> no_parse_only (end_fields tp) = true ->
  deterministic fill tp = true -> info_via c = ViaFilename -> render tp s e fill = Ok n ->
  exists attrs, attrs_are fill tp attrs /\ info c tp n = Ok (s, e, attrs).
Proof. exact roundtrip_end_full_thm. Qed.

(* only sub-day end fields (end_hour / end_minute / end_second / end_millisecond): start s; the end is e's spelt
   fields completed by the fields of s (`complete`), moved on by one day / hour / minute -- the unit above the
   coarsest spelt end field -- iff it would precede s (`roll`); OverflowError past 9999-12-31 *)
Theorem roundtrip_end_partial : forall c tp s e fill n,
  start_ok tp s -> valid e -> s <= e -> end_partial tp = true ->
  deterministic fill tp = true -> info_via c = ViaFilename -> render tp s e fill = Ok n ->
  exists r attrs, complete tp (fields s) (fields e) = Some r /\ attrs_are fill tp attrs /\
    info c tp n = if validb (roll (unit_above tp) s r) then Ok (s, roll (unit_above tp) s r, attrs)
                  else Error EOverflow.
Proof. exact roundtrip_end_partial_le_thm. Qed.

(* the completed and rolled end is e itself whenever, below that unit, the end spells every field the start
   spells, e has nothing in unspelt fields (end_exact) and 0 <= e - s < unit -- across day, month and year ends *)
Theorem end_partial_exact : forall tp s e,
  start_ok tp s -> valid e -> end_partial tp = true -> end_exact tp (fields e) = true ->
  0 <= e - s < unit_above tp ->
  exists r, complete tp (fields s) (fields e) = Some r /\ roll (unit_above tp) s r = e.
Proof. exact end_partial_exact_thm. Qed.

Theorem roundtrip_end_partial_exact : forall c tp s e fill n,
  start_ok tp s -> valid e -> end_partial tp = true -> end_exact tp (fields e) = true ->
  0 <= e - s < unit_above tp ->
  deterministic fill tp = true -> info_via c = ViaFilename -> render tp s e fill = Ok n ->
  exists attrs, attrs_are fill tp attrs /\ info c tp n = Ok (s, e, attrs).
Proof. exact end_partial_exact_info_thm. Qed.

(* the start is recovered for each end kind of the statement: none, complete, sub-day suffix *)
Theorem roundtrip_start : forall c tp s e fill n,
  start_ok tp s -> valid e -> s <= e ->
  (end_fields tp = [] /\ (forall d, coverage c = Some d -> valid (s + d)) \/
   end_full tp = true /\ in_range (end_fields tp) (fields e) = true /\ at_resolution (end_fields tp) (fields e) = true
     /\ no_parse_only (end_fields tp) = true \/
   end_partial tp = true /\ (forall r, complete tp (fields s) (fields e) = Some r -> valid (roll (unit_above tp) s r))) ->
  deterministic fill tp = true -> info_via c = ViaFilename -> render tp s e fill = Ok n ->
  exists e' attrs, attrs_are fill tp attrs /\ info c tp n = Ok (s, e', attrs).
Proof. exact roundtrip_start_thm. Qed.

(* info_via = 'both': the handler's times and attributes override those of the file name (FileInfo.update) *)
Theorem handler_overrides : forall c tp s e fill n,
  start_ok tp s -> valid e -> s <= e -> no_parse_only (end_fields tp) = true ->
  (end_fields tp = [] /\ 1000 <= year (fields e) \/
   end_full tp = true /\ in_range (end_fields tp) (fields e) = true /\ at_resolution (end_fields tp) (fields e) = true) ->
  deterministic fill tp = true -> info_via c = ViaBoth -> render tp s e fill = Ok n ->
  exists attrs, attrs_are fill tp attrs /\
    info c tp n = finish c (orelse (h_start c) (Some s))
                           (orelse (h_end c) (match end_fields tp with [] => None | _ => Some e end))
                           (upd_attrs attrs (h_attr c)).
Proof. exact handler_overrides_thm. Qed.

Theorem handler_overrides_partial : forall c tp s e fill n,
  start_ok tp s -> valid e -> s <= e -> end_partial tp = true ->
  deterministic fill tp = true -> info_via c = ViaBoth -> render tp s e fill = Ok n ->
  exists r attrs, complete tp (fields s) (fields e) = Some r /\ attrs_are fill tp attrs /\
    info c tp n = if validb (roll (unit_above tp) s r)
                  then finish c (orelse (h_start c) (Some s)) (orelse (h_end c) (Some (roll (unit_above tp) s r)))
                              (upd_attrs attrs (h_attr c))
                  else Error EOverflow.
Proof. exact handler_overrides_partial_thm. Qed.

Theorem handler_only : forall c tp n, info_via c = ViaHandler ->
  info c tp n = finish c (h_start c) (h_end c) (h_attr c).
Proof. exact info_handler. Qed.

(* dedicated errors; a name the template's regex does not match is rejected by parse_filename and get_info *)
Theorem unknown_placeholder : forall tp n, existsb unknown_tok tp = true -> parse tp n = Error EUnknown.
Proof. exact unknown_placeholder_thm. Qed.

Theorem unfilled_placeholder : forall tp ds de fill ps, pieces ds de fill tp = Ok ps ->
  existsb (fun ch => mem_char ch special_chars) (text_of ps) = true -> render_dt tp ds de fill = Error EUnfilled.
Proof. exact unfilled_thm. Qed.

Theorem no_match_rejected : forall c tp n, existsb unknown_tok tp = false -> matcher tp n = None ->
  parse tp n = Error ENoMatch /\ (info_via c <> ViaHandler -> info c tp n = Error ENoMatch).
Proof. exact no_match_rejected_thm. Qed.

(* non-vacuity: a template with directory levels, repeated placeholders (also a repeated value list), year2, doy
   366 of a leap year, milliseconds and a complete end across the year boundary meets every hypothesis, and the
   model computes the round trip; a malformed name is rejected *)
Example nonvacuous :
  let tp := [Lit (s2l "/vt/"); T false FYear2; Lit (s2l "/"); U (s2l "sat") (Some (UAlts [s2l "noaa"; s2l "metop"]));
             Lit (s2l "/"); U (s2l "sat") (Some (UAlts [s2l "noaa"; s2l "metop"])); Lit (s2l "_");
             U (s2l "orbit") (Some UAny); Lit (s2l "."); T false FYear2; T false FDoy; Lit (s2l "T");
             T false FHour; T false FMinute; T false FSecond; T false FMilli; Lit (s2l "-");
             T true FYear; T true FMonth; T true FDay; T true FHour; T true FMinute; T true FSecond; T true FMilli;
             Lit (s2l ".nc")] in
  let fill := [(KU (s2l "sat"), s2l "metop"); (KU (s2l "orbit"), s2l "o1234")] in
  let c := Cfg ViaFilename None None None [] in
  exists s e, mk 2064 12 31 23 59 58 999000 = Some s /\ mk 2065 1 1 0 0 3 5000 = Some e /\
    start_ok tp s /\ valid e /\ s <= e /\ end_full tp = true /\ in_range (end_fields tp) (fields e) = true /\
    at_resolution (end_fields tp) (fields e) = true /\ deterministic fill tp = true /\
    render tp s e fill = Ok (s2l "/vt/64/metop/metop_o1234.64366T235958999-20650101000003005.nc") /\
    info c tp (s2l "/vt/64/metop/metop_o1234.64366T235958999-20650101000003005.nc")
      = Ok (s, e, [(s2l "sat", s2l "metop"); (s2l "orbit", s2l "o1234")]) /\
    info c tp (s2l "/vt/64/metop/noaa_o1234.6436T235958999-20650101000003005.nc") = Error ENoMatch.
Proof.
  eexists. eexists. split; [vm_compute; reflexivity|]. split; [vm_compute; reflexivity|].
  unfold start_ok, valid. vm_compute. repeat split; try reflexivity; discriminate.
Qed.

(* non-vacuity of the sub-day end kind: end_hour+end_minute rolled over the year end and into a leap day (the exact
   class: the end comes back as e), a period longer than the unit (the promised end is the first such time after s,
   not e), end_minute+end_second rolled by one hour across 1999-12-31 / 2000-01-01 with year2 and doy *)
Example nonvacuous_partial :
  let tp := [Lit (s2l "/vt/"); T false FYear; Lit (s2l "/"); U (s2l "sat") (Some UAny); Lit (s2l "_");
             T false FYear; T false FMonth; T false FDay; Lit (s2l "T"); T false FHour; T false FMinute; Lit (s2l "-");
             T true FHour; T true FMinute; Lit (s2l ".nc")] in
  let tp2 := [Lit (s2l "/vt/"); T false FYear2; T false FDoy; Lit (s2l "."); T false FHour; T false FMinute;
              T false FSecond; Lit (s2l "_"); T true FMinute; T true FSecond; Lit (s2l ".dat")] in
  let fill := [(KU (s2l "sat"), s2l "noaa18")] in
  let c := Cfg ViaFilename None None None [] in
  exists s e s1 e1 s2 e2 r2 s3 e3,
    mk 2015 12 31 23 30 0 0 = Some s /\ mk 2016 1 1 0 10 0 0 = Some e /\
    mk 2016 2 28 23 50 0 0 = Some s1 /\ mk 2016 2 29 0 5 0 0 = Some e1 /\
    mk 2016 2 29 7 0 0 0 = Some s2 /\ mk 2016 3 2 6 15 0 0 = Some e2 /\ mk 2016 3 1 6 15 0 0 = Some r2 /\
    mk 1999 12 31 23 59 30 0 = Some s3 /\ mk 2000 1 1 0 0 10 0 = Some e3 /\
    start_ok tp s /\ valid e /\ end_partial tp = true /\ end_exact tp (fields e) = true /\ 0 <= e - s < unit_above tp /\
    deterministic fill tp = true /\ unit_above tp = us_day /\
    render tp s e fill = Ok (s2l "/vt/2015/noaa18_20151231T2330-0010.nc") /\
    info c tp (s2l "/vt/2015/noaa18_20151231T2330-0010.nc") = Ok (s, e, [(s2l "sat", s2l "noaa18")]) /\
    start_ok tp s1 /\ end_exact tp (fields e1) = true /\ 0 <= e1 - s1 < unit_above tp /\
    info c tp (s2l "/vt/2016/noaa18_20160228T2350-0005.nc") = Ok (s1, e1, [(s2l "sat", s2l "noaa18")]) /\
    start_ok tp s2 /\ s2 <= e2 /\ render tp s2 e2 fill = Ok (s2l "/vt/2016/noaa18_20160229T0700-0615.nc") /\
    info c tp (s2l "/vt/2016/noaa18_20160229T0700-0615.nc") = Ok (s2, r2, [(s2l "sat", s2l "noaa18")]) /\
    start_ok tp2 s3 /\ end_partial tp2 = true /\ end_exact tp2 (fields e3) = true /\ unit_above tp2 = us_hour /\
    0 <= e3 - s3 < unit_above tp2 /\ deterministic [] tp2 = true /\
    render tp2 s3 e3 [] = Ok (s2l "/vt/99365.235930_0010.dat") /\
    info c tp2 (s2l "/vt/99365.235930_0010.dat") = Ok (s3, e3, []).
Proof.
  do 9 eexists. do 9 (split; [vm_compute; reflexivity|]).
  unfold start_ok, valid. vm_compute. repeat split; try reflexivity; discriminate.
Qed.

(* non-vacuity of the rejection clause: the generated name is an instance with exactly the strings written, a
   name with a three-digit hour-minute field is no instance for any strings *)
Example nonvacuous_reject :
  let tp := [Lit (s2l "/vt/"); U (s2l "sat") (Some (UAlts [s2l "noaa"; s2l "metop"])); Lit (s2l "_"); T false FYear;
             T false FDoy; Lit (s2l "."); T false FHour; T false FMinute; Lit (s2l ".nc")] in
  existsb unknown_tok tp = false /\
  is_instance tp [(KU (s2l "sat"), s2l "metop"); (KT false FYear, s2l "2016"); (KT false FDoy, s2l "366");
                  (KT false FHour, s2l "23"); (KT false FMinute, s2l "59")] (s2l "/vt/metop_2016366.2359.nc") /\
  (forall b, ~ is_instance tp b (s2l "/vt/metop_2016366.235.nc")) /\
  (forall b, ~ is_instance tp b (s2l "/vt/metopa_2016366.2359.nc")).
Proof.
  cbv zeta. split; [reflexivity|]. split.
  - exists [], (s2l "/vt/metop_2016366.2359.nc"). split; [vm_compute; reflexivity|left; reflexivity].
  - split; apply rejected_iff_thm; vm_compute; reflexivity.
Qed.

Print Assumptions parse_render.
Print Assumptions parse_sound.
Print Assumptions parse_complete.
Print Assumptions rejected_iff_no_instance.
Print Assumptions instance_certificate.
Print Assumptions no_end_fields.
Print Assumptions roundtrip_end_full.
Print Assumptions roundtrip_end_partial.
Print Assumptions end_partial_exact.
Print Assumptions roundtrip_end_partial_exact.
Print Assumptions roundtrip_start.
Print Assumptions handler_overrides.
Print Assumptions handler_overrides_partial.
Print Assumptions handler_only.
Print Assumptions unknown_placeholder.
Print Assumptions unfilled_placeholder.
Print Assumptions no_match_rejected.
