(* C02 -- property theorems. This file holds ONLY statements, `exact <lemma>`, a non-vacuity example and
   Print Assumptions.  Model: Model/C02_template.v (render = FileSet.get_filename, parse = the regex of
   _fill_placeholders + re.match, info = get_info); calendar: Base/Calendar.v.

   NOT PROVED (kept as comments, evaluated on every generated case by tools/props/c02.py instead):
     roundtrip_end_partial : end_partial tp = true -> complete tp (fields s) (fields e) = Some c ->
        valid (roll (unit_above tp) s c) -> ... -> info c tp n = Ok (s, roll (unit_above tp) s c, attrs)
     end_partial_exact     : ... the end spells every sub-unit field the start spells ->
        0 <= e - s < unit_above tp -> roll (unit_above tp) s c = e
     parse_sound           : parse tp n = Ok b -> n is an instance of the template whose first occurrences are b
   (the first two are the sub-day "end_hour/end_minute/end_second" clause; the third the rejection clause, of
   which only the trivial direction no_match_rejected is a theorem). *)
From Coq Require Import ZArith List Bool Ascii String.
From Typhon Require Import Base.Calendar Base.CalendarProofs Model.C02_template Proofs.C02_template.
Import ListNotations.
Open Scope Z_scope.

(* parse_filename(get_filename(...)) recovers every placeholder string: the dictionary is exactly the
   strings written for the placeholders (first occurrence of each), for every deterministic template *)
Theorem parse_render : forall tp s e fill n,
  valid s -> valid e -> 1000 <= year (fields s) -> 1000 <= year (fields e) ->
  deterministic fill tp = true -> render tp s e fill = Ok n ->
  exists ps, pieces (fields s) (fields e) fill tp = Ok ps /\ n = text_of ps /\
             parse tp n = Ok (first_only (binds_of ps)).
Proof. exact parse_render_thm. Qed.

(* a template without end fields: start s, end = s + time_coverage (or s for discrete files), attributes = fill;
   years 1000-9999 resp. 1965-2064, leap days and doy 366 included (start_ok) *)
Theorem no_end_fields : forall c tp s e fill n,
  start_ok tp s -> valid e -> 1000 <= year (fields e) -> end_fields tp = [] ->
  deterministic fill tp = true -> info_via c = ViaFilename -> render tp s e fill = Ok n ->
  exists attrs, attrs_are fill tp attrs /\
    info c tp n = match coverage c with
                  | Some d => match add s d with Some r => Ok (s, r, attrs) | None => Error EOverflow end
                  | None => Ok (s, s, attrs)
                  end.
Proof. exact no_end_fields_thm. Qed.

(* the end spelt as completely as the start: start s, end e, attributes = fill *)
Theorem roundtrip_end_full : forall c tp s e fill n,
  start_ok tp s -> valid e -> s <= e -> end_full tp = true -> in_range (end_fields tp) (fields e) = true ->
  at_resolution (end_fields tp) (fields e) = true -> no_parse_only (end_fields tp) = true ->
  deterministic fill tp = true -> info_via c = ViaFilename -> render tp s e fill = Ok n ->
  exists attrs, attrs_are fill tp attrs /\ info c tp n = Ok (s, e, attrs).
Proof. exact roundtrip_end_full_thm. Qed.

(* the start is recovered -- proved for templates without end fields and with a complete end; the sub-day
   end kind (roundtrip_end_partial above) is missing, hence _partial *)
Theorem roundtrip_start_partial : forall c tp s e fill n,
  start_ok tp s -> valid e -> s <= e -> no_parse_only (end_fields tp) = true ->
  (end_fields tp = [] /\ 1000 <= year (fields e) /\ (forall d, coverage c = Some d -> valid (s + d)) \/
   end_full tp = true /\ in_range (end_fields tp) (fields e) = true /\ at_resolution (end_fields tp) (fields e) = true) ->
  deterministic fill tp = true -> info_via c = ViaFilename -> render tp s e fill = Ok n ->
  exists e' attrs, attrs_are fill tp attrs /\ info c tp n = Ok (s, e', attrs).
Proof.
  intros c tp s e fill n Hs Ve Hse Hnp [(Hne & Hye & Hcov)|(Hf & Hr & Ha)] Hdet Hv Hr'.
  - destruct (no_end_fields_thm c tp s e fill n Hs Ve Hye Hne Hdet Hv Hr') as (attrs & Hat & Hi).
    destruct (coverage c) as [d|] eqn:Ec.
    + specialize (Hcov d eq_refl). apply validb_iff in Hcov. unfold add in Hi. rewrite Hcov in Hi. eauto.
    + eauto.
  - destruct (roundtrip_end_full_thm c tp s e fill n Hs Ve Hse Hf Hr Ha Hnp Hdet Hv Hr') as (attrs & Hat & Hi). eauto.
Qed.

(* info_via = 'both': the handler's times and attributes override those of the file name (FileInfo.update) *)
Theorem handler_overrides : forall c tp s e fill n,
  start_ok tp s -> valid e -> s <= e -> no_parse_only (end_fields tp) = true ->
  (end_fields tp = [] /\ 1000 <= year (fields e) \/
   end_full tp = true /\ in_range (end_fields tp) (fields e) = true /\ at_resolution (end_fields tp) (fields e) = true) ->
  deterministic fill tp = true -> info_via c = ViaBoth -> render tp s e fill = Ok n ->
  exists attrs, attrs_are fill tp attrs /\
    info c tp n = finish c (orelse (h_start c) (Some s))
                           (orelse (h_end c) (match end_fields tp with [] => None | _ => Some e end))
                           (upd_attrs attrs (h_attr c)).
Proof. exact handler_overrides_thm. Qed.

Theorem handler_only : forall c tp n, info_via c = ViaHandler ->
  info c tp n = finish c (h_start c) (h_end c) (h_attr c).
Proof. exact info_handler. Qed.

(* dedicated errors; a name the template's regex does not match is rejected by parse_filename and get_info *)
Theorem unknown_placeholder : forall tp n, existsb unknown_tok tp = true -> parse tp n = Error EUnknown.
Proof. exact unknown_placeholder_thm. Qed.

Theorem unfilled_placeholder : forall tp ds de fill ps, pieces ds de fill tp = Ok ps ->
  existsb (fun ch => mem_char ch special_chars) (text_of ps) = true -> render_dt tp ds de fill = Error EUnfilled.
Proof. exact unfilled_thm. Qed.

Theorem no_match_rejected : forall c tp n, existsb unknown_tok tp = false -> matcher tp n = None ->
  parse tp n = Error ENoMatch /\ (info_via c <> ViaHandler -> info c tp n = Error ENoMatch).
Proof. exact no_match_rejected_thm. Qed.

(* non-vacuity: a template with directory levels, repeated placeholders (also a repeated value list), year2, doy
   366 of a leap year, milliseconds and a complete end across the year boundary meets every hypothesis, and the
   model computes the round trip; a malformed name is rejected *)
Example nonvacuous :
  let tp := [Lit (s2l "/vt/"); T false FYear2; Lit (s2l "/"); U (s2l "sat") (Some (UAlts [s2l "noaa"; s2l "metop"]));
             Lit (s2l "/"); U (s2l "sat") (Some (UAlts [s2l "noaa"; s2l "metop"])); Lit (s2l "_");
             U (s2l "orbit") (Some UAny); Lit (s2l "."); T false FYear2; T false FDoy; Lit (s2l "T");
             T false FHour; T false FMinute; T false FSecond; T false FMilli; Lit (s2l "-");
             T true FYear; T true FMonth; T true FDay; T true FHour; T true FMinute; T true FSecond; T true FMilli;
             Lit (s2l ".nc")] in
  let fill := [(KU (s2l "sat"), s2l "metop"); (KU (s2l "orbit"), s2l "o1234")] in
  let c := Cfg ViaFilename None None None [] in
  exists s e, mk 2064 12 31 23 59 58 999000 = Some s /\ mk 2065 1 1 0 0 3 5000 = Some e /\
    start_ok tp s /\ valid e /\ s <= e /\ end_full tp = true /\ in_range (end_fields tp) (fields e) = true /\
    at_resolution (end_fields tp) (fields e) = true /\ deterministic fill tp = true /\
    render tp s e fill = Ok (s2l "/vt/64/metop/metop_o1234.64366T235958999-20650101000003005.nc") /\
    info c tp (s2l "/vt/64/metop/metop_o1234.64366T235958999-20650101000003005.nc")
      = Ok (s, e, [(s2l "sat", s2l "metop"); (s2l "orbit", s2l "o1234")]) /\
    info c tp (s2l "/vt/64/metop/noaa_o1234.6436T235958999-20650101000003005.nc") = Error ENoMatch.
Proof.
  eexists. eexists. split; [vm_compute; reflexivity|]. split; [vm_compute; reflexivity|].
  unfold start_ok, valid. vm_compute. repeat split; try reflexivity; discriminate.
Qed.

Print Assumptions parse_render.
Print Assumptions no_end_fields.
Print Assumptions roundtrip_end_full.
Print Assumptions roundtrip_start_partial.
Print Assumptions handler_overrides.
Print Assumptions handler_only.
Print Assumptions unknown_placeholder.
Print Assumptions unfilled_placeholder.
Print Assumptions no_match_rejected.
