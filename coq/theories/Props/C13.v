(* C13 -- property theorems. This file holds ONLY statements, `exact <lemma>`, non-vacuity
   examples and Print Assumptions, so that the statements cannot be weakened quietly.
   Model: Model/C13_compact.v (compaction of _create_return, _rows_for_secondaries, the NaN-padded bin
   matrix of collapse, expand, concat_collocations).  Data values are an arbitrary type A: a scalar, or the
   whole vector / cube of a point for variables with extra dimensions (theorem bins_lanes); a NaN padding
   cell is None, so "NaN-ignoring" means "a function of (somes column)". *)
From Coq Require Import Arith List Bool.
From Typhon Require Import Model.C13_compact Proofs.C13_compact.
Import ListNotations.

(* ---- Collocations/pairs after the compaction: valid indices into the stored points ... *)
Theorem compact_valid : forall raw,
  Forall (fun i => i < length (fst (compact raw))) (snd (compact raw)).
Proof. exact compact_valid_l. Qed.

(* ... every stored point takes part in at least one pair ... *)
Theorem compact_surjective : forall raw i,
  i < length (fst (compact raw)) -> In i (snd (compact raw)).
Proof. exact compact_surjective_l. Qed.

(* ... and the new pairs name the same original points, each of which is stored exactly once *)
Theorem compact_same_points : forall raw,
  map (fun i => nth i (fst (compact raw)) 0) (snd (compact raw)) = raw /\
  NoDup (fst (compact raw)) /\ (forall v, In v (fst (compact raw)) <-> In v raw).
Proof. intros raw. split; [apply compact_roundtrip_l|apply compact_stored_once]. Qed.

(* the boolean checker that the correspondence applies to implementation outputs decides the invariant *)
Theorem compact_checker_sound : forall (A B : Type) (d : cds A B), compact_okb d = true <-> compact_ok d.
Proof. intros A B. exact compact_okb_iff_l. Qed.

(* ---- _rows_for_secondaries: the row of pair k is the number of earlier pairs with the same reference
   point.  Guard: the indices are in range of the counter array (np.zeros(primary.size)). *)
Theorem rows_are_running_counts : forall prim,
  Forall (fun p => p < length prim) prim ->
  length (rows_for prim) = length prim /\
  forall k, k < length prim -> nth k (rows_for prim) 0 = cnt (nth k prim 0) (firstn k prim).
Proof. exact rows_running_l. Qed.

(* ---- the bin matrix: column c holds, in pair order, exactly the values paired with reference point c,
   followed by padding only; there is one column per reference point and no partner is lost.
   Hypothesis = the invariant of the first sentence for the reference row (row_ok n prim). *)
Theorem bins_exact : forall (A : Type) (prim : list nat) (vals : list A) n c,
  length vals = length prim -> row_ok n prim -> c < n ->
  column (bin_matrix prim vals) c
    = map Some (partners prim vals c) ++ repeat None (S (list_max (rows_for prim)) - cnt c prim)
  /\ length (bin_matrix prim vals) = n
  /\ 0 < cnt c prim <= S (list_max (rows_for prim)).
Proof. intros A. exact bins_exact_l. Qed.

(* the matrix has (largest multiplicity) rows: some column carries no padding *)
Theorem bins_height : forall prim n, row_ok n prim -> prim <> [] ->
  exists c, c < n /\ cnt c prim = S (list_max (rows_for prim)).
Proof. exact bins_height_l. Qed.

(* extra dimensions: lane f (a channel, any index tuple of the extra dimensions) of the binned cube is the
   bin matrix of that lane *)
Theorem bins_lanes : forall (A B : Type) (f : A -> B) prim (vals : list A) n c,
  length vals = length prim -> row_ok n prim -> c < n ->
  map (option_map f) (column (bin_matrix prim vals) c) = column (bin_matrix prim (map f vals)) c.
Proof. intros A B. exact bins_lanes_l. Qed.

(* ---- collapse onto either reference (refrow = pairs[reference], otherrow = the other row): one column per
   reference point, holding exactly the values of its partner points ... *)
Theorem collapse_exact : forall (A : Type) (d : A) refrow otherrow (vals : list A) n c,
  length refrow = length otherrow -> row_ok n refrow -> c < n ->
  column (collapse_model d refrow otherrow vals) c
    = map Some (gather d (partner_points refrow otherrow c) vals)
      ++ repeat None (S (list_max (rows_for refrow)) - cnt c refrow)
  /\ length (collapse_model d refrow otherrow vals) = n.
Proof. intros A. exact collapse_exact_l. Qed.

(* ... hence every collapser that ignores the padding (mean, std, number, custom ones) returns its value on
   the partner values *)
Theorem collapse_any_collapser : forall (A R : Type) (stat : list A -> R) (d : A) refrow otherrow (vals : list A) n c,
  length refrow = length otherrow -> row_ok n refrow -> c < n ->
  stat (somes (column (collapse_model d refrow otherrow vals) c))
    = stat (gather d (partner_points refrow otherrow c) vals).
Proof. intros A R. exact collapse_stat_l. Qed.

(* ---- expand: one row per pair with the primary and the secondary value of that pair *)
Theorem expand_rows : forall (A B : Type) (da : A) (db : B) (d : cds A B) k,
  length (prow d) = length (srow d) -> k < length (prow d) ->
  nth k (expand da db d) (da, db) = (nth (nth k (prow d) 0) (pvals d) da, nth (nth k (srow d) 0) (svals d) db).
Proof. intros A B. exact expand_rows_l. Qed.

Theorem expand_length : forall (A B : Type) (da : A) (db : B) (d : cds A B),
  length (prow d) = length (srow d) -> length (expand da db d) = length (prow d).
Proof. intros A B. exact expand_length_l. Qed.

(* ---- concat: expands to the concatenation of the expansions, and keeps the invariant *)
Theorem expand_concat : forall (A B : Type) (da : A) (db : B) (ds : list (cds A B)),
  Forall pairs_valid ds -> expand da db (concat_c ds) = concat (map (expand da db) ds).
Proof. intros A B. exact expand_concat_l. Qed.

Theorem concat_compact_ok : forall (A B : Type) (ds : list (cds A B)),
  Forall compact_ok ds -> compact_ok (concat_c ds).
Proof. intros A B. exact concat_compact_ok_l. Qed.

(* ---- non-vacuity: an unsorted pair list with one-to-many and many-to-one multiplicities meets the
   hypotheses; the model computes what a reader expects (values 10.. / 20.. stand for the data). *)
Example nonvacuous :
  let raw_p := [7; 7; 3; 9; 3; 7] in
  let raw_s := [4; 2; 4; 4; 8; 8] in
  let cp := compact raw_p in let cs := compact raw_s in
  let d := mk_cds (snd cp) (snd cs) [10; 11; 12] [20; 21; 22] in
  cp = ([7; 3; 9], [0; 0; 1; 2; 1; 0]) /\ cs = ([4; 2; 8], [0; 1; 0; 0; 2; 2]) /\
  compact_okb d = true /\ compact_ok d /\ pairs_valid d /\
  row_ok 3 (prow d) /\ Forall (fun p => p < length (prow d)) (prow d) /\
  rows_for (prow d) = [0; 1; 0; 0; 1; 2] /\
  collapse_model 0 (prow d) (srow d) (svals d)
    = [[Some 20; Some 21; Some 22]; [Some 20; Some 22; None]; [Some 20; None; None]] /\
  collapse_model 0 (srow d) (prow d) (pvals d)
    = [[Some 10; Some 11; Some 12]; [Some 10; None; None]; [Some 11; Some 10; None]] /\
  expand 0 0 d = [(10, 20); (10, 21); (11, 20); (12, 20); (11, 22); (10, 22)] /\
  expand 0 0 (concat_c [d; d]) = expand 0 0 d ++ expand 0 0 d /\
  prow (concat_c [d; d]) = [0; 0; 1; 2; 1; 0; 3; 3; 4; 5; 4; 3].
Proof.
  cbv zeta.
  assert (E : compact_okb (mk_cds (snd (compact [7; 7; 3; 9; 3; 7])) (snd (compact [4; 2; 4; 4; 8; 8]))
                                  [10; 11; 12] [20; 21; 22]) = true) by (vm_compute; reflexivity).
  pose proof (proj1 (compact_okb_iff_l _) E) as Hok.
  repeat split; try (vm_compute; reflexivity); try exact Hok; try (apply compact_ok_valid; exact Hok);
    try (apply row_okb_iff; vm_compute; reflexivity);
    try (vm_compute; repeat constructor).
Qed.

Print Assumptions compact_valid.
Print Assumptions compact_surjective.
Print Assumptions compact_same_points.
Print Assumptions compact_checker_sound.
Print Assumptions rows_are_running_counts.
Print Assumptions bins_exact.
Print Assumptions bins_height.
Print Assumptions bins_lanes.
Print Assumptions collapse_exact.
Print Assumptions collapse_any_collapser.
Print Assumptions expand_rows.
Print Assumptions expand_length.
Print Assumptions expand_concat.
Print Assumptions concat_compact_ok.
