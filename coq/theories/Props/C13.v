(* C13 -- property theorems. This file holds ONLY statements, `exact <lemma>`, non-vacuity
   examples and Print Assumptions, so that the statements cannot be weakened quietly.
   Model: Model/C13_compact.v (compaction of _create_return, _rows_for_secondaries, the NaN-padded bin
   matrix of collapse, expand, concat_collocations).  Data values are an arbitrary type A: a scalar, or the
   whole vector / cube of a point for variables with extra dimensions (theorem bins_lanes); a NaN padding
   cell is None, so "NaN-ignoring" means "a function of (somes column)".
   Model/C13_stats.v: the three default collapser functions as functions on `option R` scalars (None = NaN, the
   padding and NaNs in the data alike), the table {**defaults, **custom} and calls of collapse. *)
From Coq Require Import String.
From Coq Require Import Arith List Bool Reals Permutation.
From Typhon Require Import Model.C13_compact Proofs.C13_compact Model.C13_stats Proofs.C13_stats.
Import ListNotations.

(* ---- Collocations/pairs after the compaction: valid indices into the stored points ... *)
Theorem compact_valid : forall raw,
  Forall (fun i => i < length (fst (compact raw))) (snd (compact raw)).
Proof. exact compact_valid_l. Qed.

(* ... every stored point takes part in at least one pair ... *)
Theorem compact_surjective : forall raw i,
  i < length (fst (compact raw)) -> In i (snd (compact raw)).
Proof. exact compact_surjective_l. Qed.

(* ... and the new pairs name the same original points, each of which is stored exactly once *)
Theorem compact_same_points : forall raw,
  map (fun i => nth i (fst (compact raw)) 0) (snd (compact raw)) = raw /\
  NoDup (fst (compact raw)) /\ (forall v, In v (fst (compact raw)) <-> In v raw).
Proof. intros raw. split; [apply compact_roundtrip_l|apply compact_stored_once]. Qed.

(* the boolean checker that the correspondence applies to implementation outputs decides the invariant *)
Theorem compact_checker_sound : forall (A B : Type) (d : cds A B), compact_okb d = true <-> compact_ok d.
Proof. intros A B. exact compact_okb_iff_l. Qed.

(* ---- the first sentence as ONE law per group (consistent raw stored idx, Model/C13_compact.v): the compact dataset holds
   exactly the collocated points, each once (NoDup stored, In v stored <-> In v raw), Collocations/pairs has one entry per
   raw pair, holds valid indices, every stored point takes part in a pair (row_ok), and pair k still names the original
   point raw[k].  The compaction of _create_return establishes it for every row of raw pairs -- whatever the order in
   which the points are met and however few points of a long dataset are collocated. *)
Theorem compact_is_consistent : forall raw, consistent raw (fst (compact raw)) (snd (compact raw)).
Proof. exact compact_is_consistent_l. Qed.

(* the order of the stored points is free (they are a rearrangement of the distinct collocated points), but the pairs are
   determined by it ... *)
Theorem consistent_pairs_determined : forall raw stored idx idx',
  consistent raw stored idx -> consistent raw stored idx' -> idx = idx'.
Proof. exact consistent_unique. Qed.

Theorem consistent_stored_points : forall raw stored idx,
  consistent raw stored idx -> Permutation stored (uniq raw) /\ length stored = length (uniq raw).
Proof. exact consistent_perm. Qed.

(* ... and two pairs share a stored point exactly when they share the original point (no two collocated points are merged
   into one stored point) *)
Theorem consistent_no_merged_points : forall raw stored idx j k,
  consistent raw stored idx -> j < length raw -> k < length raw ->
  (nth j idx 0 = nth k idx 0 <-> nth j raw 0 = nth k raw 0).
Proof. exact consistent_same_point. Qed.

(* the boolean tests that the correspondence applies to what Collocator.collocate returned decide the law *)
Theorem consistent_checker_sound : forall raw stored idx, consistentb raw stored idx = true <-> consistent raw stored idx.
Proof. exact consistentb_iff. Qed.

Theorem compaction_check_sound : forall rawp raws idp ids newp news,
  check_compaction rawp raws idp ids newp news = (true, true, true) ->
  consistent (ns rawp) (ns idp) (ns newp) /\ consistent (ns raws) (ns ids) (ns news) /\ length newp = length news.
Proof. exact check_compaction_sound. Qed.

(* the dataset built by _create_return from the raw pairs and the two original datasets is compact, and it expands to the
   raw pairs carrying the original data: row k = (primary data at rawp[k], secondary data at raws[k]) *)
Theorem create_return_expands_to_raw_pairs :
  forall (A B : Type) (da : A) (db : B) rawp raws (pdata : list A) (sdata : list B),
  length rawp = length raws ->
  compact_ok (create_return da db rawp raws pdata sdata) /\
  expand da db (create_return da db rawp raws pdata sdata) = combine (gather da rawp pdata) (gather db raws sdata).
Proof. intros A B. exact create_return_l. Qed.

(* ---- _rows_for_secondaries: the row of pair k is the number of earlier pairs with the same reference
   point.  Guard: the indices are in range of the counter array (np.zeros(primary.size)). *)
Theorem rows_are_running_counts : forall prim,
  Forall (fun p => p < length prim) prim ->
  length (rows_for prim) = length prim /\
  forall k, k < length prim -> nth k (rows_for prim) 0 = cnt (nth k prim 0) (firstn k prim).
Proof. exact rows_running_l. Qed.

(* ---- the bin matrix: column c holds, in pair order, exactly the values paired with reference point c,
   followed by padding only; there is one column per reference point and no partner is lost.
   Hypothesis = the invariant of the first sentence for the reference row (row_ok n prim). *)
Theorem bins_exact : forall (A : Type) (prim : list nat) (vals : list A) n c,
  length vals = length prim -> row_ok n prim -> c < n ->
  column (bin_matrix prim vals) c
    = map Some (partners prim vals c) ++ repeat None (S (list_max (rows_for prim)) - cnt c prim)
  /\ length (bin_matrix prim vals) = n
  /\ 0 < cnt c prim <= S (list_max (rows_for prim)).
Proof. intros A. exact bins_exact_l. Qed.

(* the matrix has (largest multiplicity) rows: some column carries no padding *)
Theorem bins_height : forall prim n, row_ok n prim -> prim <> [] ->
  exists c, c < n /\ cnt c prim = S (list_max (rows_for prim)).
Proof. exact bins_height_l. Qed.

(* extra dimensions: lane f (a channel, any index tuple of the extra dimensions) of the binned cube is the
   bin matrix of that lane *)
Theorem bins_lanes : forall (A B : Type) (f : A -> B) prim (vals : list A) n c,
  length vals = length prim -> row_ok n prim -> c < n ->
  map (option_map f) (column (bin_matrix prim vals) c) = column (bin_matrix prim (map f vals)) c.
Proof. intros A B. exact bins_lanes_l. Qed.

(* ---- collapse onto either reference (refrow = pairs[reference], otherrow = the other row): one column per
   reference point, holding exactly the values of its partner points ... *)
Theorem collapse_exact : forall (A : Type) (d : A) refrow otherrow (vals : list A) n c,
  length refrow = length otherrow -> row_ok n refrow -> c < n ->
  column (collapse_model d refrow otherrow vals) c
    = map Some (gather d (partner_points refrow otherrow c) vals)
      ++ repeat None (S (list_max (rows_for refrow)) - cnt c refrow)
  /\ length (collapse_model d refrow otherrow vals) = n.
Proof. intros A. exact collapse_exact_l. Qed.

(* ... hence every collapser that ignores the padding (mean, std, number, custom ones) returns its value on
   the partner values *)
Theorem collapse_any_collapser : forall (A R : Type) (stat : list A -> R) (d : A) refrow otherrow (vals : list A) n c,
  length refrow = length otherrow -> row_ok n refrow -> c < n ->
  stat (somes (column (collapse_model d refrow otherrow vals) c))
    = stat (gather d (partner_points refrow otherrow c) vals).
Proof. intros A R. exact collapse_stat_l. Qed.

(* ---- the statistics clause itself.  collapse(data, reference) without custom functions, on a compact dataset d whose
   two groups carry a variable with values in A (a scalar, or all lanes of the extra dimensions of a point);
   rs = false: reference = primary (the default), rs = true: reference = secondary; f reads one lane (any index tuple
   of the extra dimensions) as `option R`, None = NaN.  For every stored reference point c the output has exactly the
   fields mean, std, number, and they are the arithmetic mean (sum / n), the population standard deviation
   (sqrt (sum of squared deviations from that mean / n), numpy's ddof = 0) and the number n of the non-NaN values pv
   of lane f of the partner points of c -- NaN, NaN, 0 when there is none. *)
Theorem collapse_mean_std_number :
  forall (A : Type) (f : A -> option R) (dflt : A) (d : cds A A) (rs : bool) (c : nat),
  compact_ok d -> c < n_ref d rs ->
  let res := collapse_call f dflt (mk_call d rs []) in
  let pv := somes (map f (gather dflt (partner_points (ref_row d rs) (other_row d rs) c) (other_vals d rs))) in
  map fst res = ["mean"; "std"; "number"]%string /\
  field "mean" c res = Some (Fl (match pv with [] => None | _ => Some (sumR pv / INR (length pv))%R end)) /\
  field "std" c res
    = Some (Fl (match pv with
                | [] => None
                | _ => Some (sqrt (sumR (map (fun x => (x - mean pv) * (x - mean pv))%R pv) / INR (length pv)))
                end)) /\
  field "number" c res = Some (Cnt (length pv)).
Proof. intros A. exact collapse_mean_std_number_l. Qed.

(* `mean` and `pstd` are what their names say: the deviations from the mean cancel, the standard deviation is not
   negative and vanishes exactly for constant values *)
Theorem mean_std_laws : forall v : list R, v <> [] ->
  sumR (map (fun x => x - mean v)%R v) = 0%R /\ (0 <= pstd v)%R /\
  (pstd v = 0%R <-> Forall (fun x => x = mean v) v).
Proof. intros v Hv. split; [exact (mean_centre v Hv)|]. split; [exact (pstd_nonneg v)|exact (pstd_zero_iff v Hv)]. Qed.

(* every reference point has a partner, and its fields are NaN / NaN / 0 exactly when lane f of all of its partner
   points is NaN *)
Theorem collapse_nan_iff_all_partners_nan :
  forall (A : Type) (f : A -> option R) (dflt : A) (d : cds A A) (rs : bool) (c : nat),
  compact_ok d -> c < n_ref d rs ->
  let res := collapse_call f dflt (mk_call d rs []) in
  let partners := gather dflt (partner_points (ref_row d rs) (other_row d rs) c) (other_vals d rs) in
  partners <> [] /\
  (field "mean" c res = Some (Fl None) <-> Forall (fun a => f a = None) partners) /\
  (field "std" c res = Some (Fl None) <-> Forall (fun a => f a = None) partners) /\
  (field "number" c res = Some (Cnt 0) <-> Forall (fun a => f a = None) partners).
Proof. intros A. exact collapse_nan_iff_l. Qed.

(* the order of the pairs (the rows of a bin follow it) does not matter: any rearrangement of the pair list that
   keeps the multiplicities leaves mean, std and number of every reference point unchanged *)
Theorem collapse_pair_order_invariant :
  forall (A : Type) (f : A -> option R) (d : A) refrow otherrow refrow' otherrow' (vals : list A) n c name,
  length refrow = length otherrow -> length refrow' = length otherrow' ->
  Permutation (combine refrow otherrow) (combine refrow' otherrow') ->
  row_ok n refrow -> c < n -> In name default_names ->
  field name c (collapse_var f d refrow otherrow vals []) = field name c (collapse_var f d refrow' otherrow' vals []).
Proof. intros A. exact collapse_pair_order_l. Qed.

(* <var>_number (and with it the NaN-ness of mean and std) can be computed from validity flags alone: any
   h, g with "g (h a) is NaN exactly when f a is" count the same -- this is what run_collapse_m evaluates for the
   correspondence (h = the validity flags of all lanes of a point, g = mask_lane j) *)
Theorem collapse_number_by_mask :
  forall (A B X Y : Type) (f : A -> option X) (g : B -> option Y) (h : A -> B) (d : A) refrow otherrow (vals : list A) n c,
  (forall a, f a = None <-> g (h a) = None) ->
  length refrow = length otherrow -> row_ok n refrow -> c < n ->
  count (map (cell_view f) (column (collapse_model d refrow otherrow vals) c))
  = count (map (cell_view g) (column (collapse_model (h d) refrow otherrow (map h vals)) c)).
Proof. intros A B X Y. exact collapse_number_by_mask_l. Qed.

(* ---- collapse is a function of its arguments: whatever calls came before (h1 / h2) or come after (t1 / t2) in
   the process, a call a = (dataset, reference, custom functions) returns collapse_call a; its fields are the
   names {**defaults, **custom} of its own custom functions, and exactly mean, std, number when it has none *)
Theorem collapse_call_independent :
  forall (A : Type) (f : A -> option R) (dflt : A) (h1 t1 h2 t2 : list (call A)) (a : call A),
  nth (length h1) (run_calls f dflt (h1 ++ a :: t1)) [] = nth (length h2) (run_calls f dflt (h2 ++ a :: t2)) [] /\
  nth (length h1) (run_calls f dflt (h1 ++ a :: t1)) [] = collapse_call f dflt a /\
  map fst (collapse_call f dflt a) = collapser_names (map fst (c_custom a)) /\
  (c_custom a = [] -> map fst (collapse_call f dflt a) = ["mean"; "std"; "number"]%string).
Proof. intros A. exact collapse_call_independent_l. Qed.

(* a custom function replaces the default of its own name only (and is applied to the NaN-padded columns); every
   other field is the one of the call without custom functions *)
Theorem collapse_custom_keeps_defaults :
  forall (A : Type) (f : A -> option R) (d : A) refrow otherrow (vals : list A) (custom : dict collapser) name,
  (lookup name custom = None ->
     lookup name (collapse_var f d refrow otherrow vals custom) = lookup name (collapse_var f d refrow otherrow vals [])) /\
  (forall g, lookup name custom = Some g ->
     lookup name (collapse_var f d refrow otherrow vals custom)
     = Some (map (fun col => g (map (cell_view f) col)) (collapse_model d refrow otherrow vals))).
Proof. intros A. exact collapse_custom_l. Qed.

(* ---- arbitrary custom functions, several variables.  vars = the variables of the non-reference group (name -> one value
   per stored point), custom = the functions handed to collapse; g : list (option R) -> out is ANY function.  The value
   stored for (variable v, function name, reference point c) is g of the NaN-padded column of v: lane f of the values of v
   at the partner points of c in the order of the pair list, then NaN up to the largest number of partners
   (padded_column) -- for every variable: it does not depend on what else is in the dataset. *)
Theorem collapse_custom_function :
  forall (A : Type) (f : A -> option R) (d : A) refrow otherrow n (vars : dict (list A)) (custom : dict collapser)
         v vals name (g : collapser) c,
  length refrow = length otherrow -> row_ok n refrow -> c < n ->
  lookup v vars = Some vals -> lookup name custom = Some g ->
  field_of v name c (collapse_vars f d refrow otherrow vars custom)
    = Some (g (map f (gather d (partner_points refrow otherrow c) vals)
               ++ repeat None (S (list_max (rows_for refrow)) - cnt c refrow))) /\
  (forall vars', lookup v vars' = Some vals ->
     field_of v name c (collapse_vars f d refrow otherrow vars' custom)
     = field_of v name c (collapse_vars f d refrow otherrow vars custom)).
Proof. intros A. exact collapse_custom_function_l. Qed.

(* a custom function that ignores NaN returns its value on the non-NaN values of the partner points *)
Theorem collapse_custom_nan_ignoring :
  forall (A : Type) (f : A -> option R) (d : A) refrow otherrow n (vars : dict (list A)) (custom : dict collapser)
         v vals name (g : collapser) (g' : list R -> out) c,
  length refrow = length otherrow -> row_ok n refrow -> c < n ->
  lookup v vars = Some vals -> lookup name custom = Some g -> (forall l, g l = g' (somes l)) ->
  field_of v name c (collapse_vars f d refrow otherrow vars custom)
    = Some (g' (somes (map f (gather d (partner_points refrow otherrow c) vals)))).
Proof. intros A. exact collapse_custom_nan_ignoring_l. Qed.

(* functions that return a row of the matrix (m[k]: a view in numpy): slot k holds the value of the (k+1)-th partner in the
   order of the pair list (slot 0 = "first": the partner of the pair with the lowest position; there always is one), NaN
   when the reference point has fewer partners *)
Theorem collapse_slot_function :
  forall (A : Type) (f : A -> option R) (d : A) refrow otherrow n (vars : dict (list A)) (custom : dict collapser)
         v vals name k c,
  length refrow = length otherrow -> row_ok n refrow -> c < n ->
  lookup v vars = Some vals -> lookup name custom = Some (slot k) ->
  let pp := partner_points refrow otherrow c in
  field_of v name c (collapse_vars f d refrow otherrow vars custom)
    = Some (Fl (if k <? length pp then f (nth (nth k pp 0) vals d) else None)) /\
  length pp = cnt c refrow /\ 0 < length pp.
Proof. intros A. exact collapse_slot_l. Qed.

(* m[-1]: a value only for the reference points with the largest number of partners (their last partner), NaN otherwise *)
Theorem collapse_last_slot_function :
  forall (A : Type) (f : A -> option R) (d : A) refrow otherrow n (vars : dict (list A)) (custom : dict collapser)
         v vals name c,
  length refrow = length otherrow -> row_ok n refrow -> c < n ->
  lookup v vars = Some vals -> lookup name custom = Some last_slot ->
  let pp := partner_points refrow otherrow c in
  let h := S (list_max (rows_for refrow)) in
  length pp <= h /\
  field_of v name c (collapse_vars f d refrow otherrow vars custom)
    = Some (Fl (if length pp =? h then f (nth (last pp 0) vals d) else None)).
Proof. intros A. exact collapse_last_slot_l. Qed.

(* ---- expand: one row per pair with the primary and the secondary value of that pair *)
Theorem expand_rows : forall (A B : Type) (da : A) (db : B) (d : cds A B) k,
  length (prow d) = length (srow d) -> k < length (prow d) ->
  nth k (expand da db d) (da, db) = (nth (nth k (prow d) 0) (pvals d) da, nth (nth k (srow d) 0) (svals d) db).
Proof. intros A B. exact expand_rows_l. Qed.

Theorem expand_length : forall (A B : Type) (da : A) (db : B) (d : cds A B),
  length (prow d) = length (srow d) -> length (expand da db d) = length (prow d).
Proof. intros A B. exact expand_length_l. Qed.

(* ---- concat: expands to the concatenation of the expansions, and keeps the invariant *)
Theorem expand_concat : forall (A B : Type) (da : A) (db : B) (ds : list (cds A B)),
  Forall pairs_valid ds -> expand da db (concat_c ds) = concat (map (expand da db) ds).
Proof. intros A B. exact expand_concat_l. Qed.

Theorem concat_compact_ok : forall (A B : Type) (ds : list (cds A B)),
  Forall compact_ok ds -> compact_ok (concat_c ds).
Proof. intros A B. exact concat_compact_ok_l. Qed.

(* ---- the width of the index type.  The model's indices are naturals; concat_w W (Model/C13_compact.v) does the shift of
   concat_collocations in an integer type of W values (the in-place `+=` keeps the type of Collocations/pairs and wraps).
   Whatever W and the datasets are, it stores the model's indices modulo W and the same points ... *)
Theorem concat_width_is_mod : forall (A B : Type) (W : nat) (ds : list (cds A B)),
  prow (concat_w W ds) = map (fun i => i mod W) (prow (concat_c ds)) /\
  srow (concat_w W ds) = map (fun j => j mod W) (srow (concat_c ds)) /\
  pvals (concat_w W ds) = pvals (concat_c ds) /\ svals (concat_w W ds) = svals (concat_c ds).
Proof. intros A B. exact concat_width_is_mod_l. Qed.

(* ... so for compact datasets the width is harmless EXACTLY when the total numbers of stored points fit (that every
   single dataset fits is not enough: every stored point takes part in a pair, so the largest shifted index is total - 1) *)
Theorem concat_fits_width_iff : forall (A B : Type) (W : nat) (ds : list (cds A B)),
  0 < W -> Forall compact_ok ds ->
  (concat_w W ds = concat_c ds <-> length (flat_map pvals ds) <= W /\ length (flat_map svals ds) <= W).
Proof. intros A B. exact concat_fits_width_iff_l. Qed.

(* ... and then the concat clause holds in that index type as well (W = 2^63: the code as it is) *)
Theorem expand_concat_any_width : forall (A B : Type) (da : A) (db : B) (W : nat) (ds : list (cds A B)),
  0 < W -> Forall compact_ok ds -> length (flat_map pvals ds) <= W -> length (flat_map svals ds) <= W ->
  expand da db (concat_w W ds) = concat (map (expand da db) ds) /\ compact_ok (concat_w W ds).
Proof. intros A B. exact expand_concat_any_width_l. Qed.

(* non-vacuity: two datasets of 150 points per group each (every one fits into 8 bits, the total of 300 does not): in a
   9-bit type the concatenation is the model's, in an 8-bit type pair 260 names point 4 of the FIRST dataset and the
   result is no longer compact *)
Example nonvacuous_width :
  let d1 := mk_cds (seq 0 150) (seq 0 150) (seq 200 150) (seq 400 150) in
  let d2 := mk_cds (seq 0 150) (seq 0 150) (seq 600 150) (seq 800 150) in
  Forall compact_ok [d1; d2] /\ length (flat_map pvals [d1; d2]) = 300 /\
  concat_w 512 [d1; d2] = concat_c [d1; d2] /\
  concat_w 256 [d1; d2] <> concat_c [d1; d2] /\
  nth 260 (srow (concat_c [d1; d2])) 0 = 260 /\ nth 260 (srow (concat_w 256 [d1; d2])) 0 = 4 /\
  nth 260 (expand 0 0 (concat_c [d1; d2])) (0, 0) = (710, 910) /\
  nth 260 (expand 0 0 (concat_w 256 [d1; d2])) (0, 0) = (204, 404) /\
  compact_okb (concat_w 256 [d1; d2]) = false.
Proof. exact nonvacuous_width_l. Qed.

(* ---- non-vacuity: an unsorted pair list with one-to-many and many-to-one multiplicities meets the
   hypotheses; the model computes what a reader expects (values 10.. / 20.. stand for the data). *)
Example nonvacuous :
  let raw_p := [7; 7; 3; 9; 3; 7] in
  let raw_s := [4; 2; 4; 4; 8; 8] in
  let cp := compact raw_p in let cs := compact raw_s in
  let d := mk_cds (snd cp) (snd cs) [10; 11; 12] [20; 21; 22] in
  cp = ([7; 3; 9], [0; 0; 1; 2; 1; 0]) /\ cs = ([4; 2; 8], [0; 1; 0; 0; 2; 2]) /\
  compact_okb d = true /\ compact_ok d /\ pairs_valid d /\
  row_ok 3 (prow d) /\ Forall (fun p => p < length (prow d)) (prow d) /\
  rows_for (prow d) = [0; 1; 0; 0; 1; 2] /\
  collapse_model 0 (prow d) (srow d) (svals d)
    = [[Some 20; Some 21; Some 22]; [Some 20; Some 22; None]; [Some 20; None; None]] /\
  collapse_model 0 (srow d) (prow d) (pvals d)
    = [[Some 10; Some 11; Some 12]; [Some 10; None; None]; [Some 11; Some 10; None]] /\
  expand 0 0 d = [(10, 20); (10, 21); (11, 20); (12, 20); (11, 22); (10, 22)] /\
  expand 0 0 (concat_c [d; d]) = expand 0 0 d ++ expand 0 0 d /\
  prow (concat_c [d; d]) = [0; 0; 1; 2; 1; 0; 3; 3; 4; 5; 4; 3].
Proof.
  cbv zeta.
  assert (E : compact_okb (mk_cds (snd (compact [7; 7; 3; 9; 3; 7])) (snd (compact [4; 2; 4; 4; 8; 8]))
                                  [10; 11; 12] [20; 21; 22]) = true) by (vm_compute; reflexivity).
  pose proof (proj1 (compact_okb_iff_l _) E) as Hok.
  repeat split; try (vm_compute; reflexivity); try exact Hok; try (apply compact_ok_valid; exact Hok);
    try (apply row_okb_iff; vm_compute; reflexivity);
    try (vm_compute; repeat constructor).
Qed.

(* ---- non-vacuity of the statistics theorems: two lanes with NaNs, one of them all-NaN for a reference point, both
   references; a custom function next to the defaults *)
Example nonvacuous_stats :
  let d := mk_cds [0; 0; 1; 2; 1; 0] [0; 1; 0; 0; 2; 2]
                  [[Some 5; Some 1]; [Some 6; None]; [Some 7; Some 2]]%R
                  [[Some 1; None]; [Some 3; None]; [None; None]]%R in
  compact_ok d /\
  (* primary 0 has the partners 0, 1, 2: lane 0 holds 1, 3, NaN; lane 1 holds NaN only *)
  field "mean" 0 (collapse_call (lane 0) [] (mk_call d false [])) = Some (Fl (Some 2%R)) /\
  field "std" 0 (collapse_call (lane 0) [] (mk_call d false [])) = Some (Fl (Some 1%R)) /\
  field "number" 0 (collapse_call (lane 0) [] (mk_call d false [])) = Some (Cnt 2) /\
  field "mean" 0 (collapse_call (lane 1) [] (mk_call d false [])) = Some (Fl None) /\
  field "number" 0 (collapse_call (lane 1) [] (mk_call d false [])) = Some (Cnt 0) /\
  (* secondary 2 has the partners 1, 0 (in pair order): lane 0 holds 6, 5 *)
  field "mean" 2 (collapse_call (lane 0) [] (mk_call d true [])) = Some (Fl (Some (11 / 2)%R)) /\
  field "number" 2 (collapse_call (lane 1) [] (mk_call d true [])) = Some (Cnt 1).
Proof. exact nonvacuous_stats_l. Qed.

Example nonvacuous_names :
  collapser_names ["rec"%string] = ["mean"; "std"; "number"; "rec"]%string /\
  collapser_names ["std"%string] = ["mean"; "std"; "number"]%string /\
  collapser_names [] = default_names.
Proof. repeat split. Qed.

(* ---- non-vacuity of the custom-function theorems: two variables of one shape, view-returning functions first / slot 1 /
   last; every variable shows its own values *)
Example nonvacuous_views :
  let refrow := [0; 0; 1; 2; 1; 0] in
  let otherrow := [0; 1; 0; 0; 2; 2] in
  let vars := [("t"%string, [Some 5; Some 6; Some 7]%R); ("p"%string, [Some 1; None; Some 3]%R)] in
  let custom := [("first"%string, slot 0); ("mid"%string, slot 1); ("last"%string, last_slot)] in
  let res := collapse_vars (fun a : option R => a) None refrow otherrow vars custom in
  length refrow = length otherrow /\ row_ok 3 refrow /\
  map (partner_points refrow otherrow) [0; 1; 2] = [[0; 1; 2]; [0; 2]; [0]] /\
  S (list_max (rows_for refrow)) = 3 /\
  field_of "t" "first" 0 res = Some (Fl (Some 5%R)) /\ field_of "p" "first" 0 res = Some (Fl (Some 1%R)) /\
  field_of "t" "first" 1 res = Some (Fl (Some 5%R)) /\ field_of "t" "first" 2 res = Some (Fl (Some 5%R)) /\
  field_of "t" "mid" 0 res = Some (Fl (Some 6%R)) /\ field_of "p" "mid" 0 res = Some (Fl None) /\
  field_of "t" "mid" 1 res = Some (Fl (Some 7%R)) /\ field_of "t" "mid" 2 res = Some (Fl None) /\
  field_of "t" "last" 0 res = Some (Fl (Some 7%R)) /\ field_of "p" "last" 0 res = Some (Fl (Some 3%R)) /\
  field_of "t" "last" 1 res = Some (Fl None) /\
  field_of "p" "number" 0 res = Some (Cnt 2).
Proof. exact nonvacuous_views_l. Qed.

(* ---- non-vacuity of the consistency law: sparse matches of a long track met in non-ascending order; the positions in the
   SORTED points applied to points stored in order of first appearance are rejected *)
Example nonvacuous_consistent :
  let raw := [480; 450; 470; 450; 300] in
  compact raw = ([480; 450; 470; 300], [0; 1; 2; 1; 3]) /\
  consistent raw [480; 450; 470; 300] [0; 1; 2; 1; 3] /\
  consistent raw [300; 450; 470; 480] [3; 1; 2; 1; 0] /\
  ~ consistent raw [480; 450; 470; 300] [3; 1; 2; 1; 0] /\
  consistentb raw [480; 450; 470; 300] [4; 4; 4; 4; 0] = false.
Proof. exact nonvacuous_consistent_l. Qed.

Print Assumptions compact_valid.
Print Assumptions compact_surjective.
Print Assumptions compact_same_points.
Print Assumptions compact_checker_sound.
Print Assumptions compact_is_consistent.
Print Assumptions consistent_pairs_determined.
Print Assumptions consistent_stored_points.
Print Assumptions consistent_no_merged_points.
Print Assumptions consistent_checker_sound.
Print Assumptions compaction_check_sound.
Print Assumptions create_return_expands_to_raw_pairs.
Print Assumptions rows_are_running_counts.
Print Assumptions bins_exact.
Print Assumptions bins_height.
Print Assumptions bins_lanes.
Print Assumptions collapse_exact.
Print Assumptions collapse_any_collapser.
Print Assumptions collapse_mean_std_number.
Print Assumptions mean_std_laws.
Print Assumptions collapse_nan_iff_all_partners_nan.
Print Assumptions collapse_pair_order_invariant.
Print Assumptions collapse_number_by_mask.
Print Assumptions collapse_call_independent.
Print Assumptions collapse_custom_keeps_defaults.
Print Assumptions collapse_custom_function.
Print Assumptions collapse_custom_nan_ignoring.
Print Assumptions collapse_slot_function.
Print Assumptions collapse_last_slot_function.
Print Assumptions expand_rows.
Print Assumptions expand_length.
Print Assumptions expand_concat.
Print Assumptions concat_compact_ok.
Print Assumptions concat_width_is_mod.
Print Assumptions concat_fits_width_iff.
Print Assumptions expand_concat_any_width.
