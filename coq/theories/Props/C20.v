(* C20 -- property theorems.  This file holds ONLY statements, `exact <lemma>`, non-vacuity examples and
   Print Assumptions.  Units: a rectangle is four integers over a common denominator rD (degrees);
   grid values are in half cells (1/240 degree; cell centres are odd), see Model/C20_srtm.v. *)
From Coq Require Import ZArith List Bool String.
From TyphonGen Require Import C20_tiles.
From Typhon Require Import Model.C20_srtm Proofs.C20_srtm Model.C20_margin Proofs.C20_margin.
Import ListNotations.
Open Scope Z_scope.

(* The translated table (27 tiles as the source has them now) is well formed: every tile is
   tile_height x tile_width cells, tiles are pairwise disjoint, together they cover 60 S - 90 N x 180 W - 180 E,
   names are unique and follow the SRTM30 file naming (upper-left corner). Proved by computation on the table. *)
Theorem table_well_formed : table_ok = true.
Proof. exact table_ok_holds. Qed.

(* get_native_grids: for ANY rectangle inside the covered area the latitude and longitude vectors are accepted
   by the checker grid_ok = non-empty, consecutive cell centres (latitude descending, longitude ascending,
   spacing one cell), the block covers the rectangle and exceeds it by less than one cell on each side ... *)
Theorem grid_covers_tightly : forall r, in_coverage r ->
  grid_ok r (native_lats r) (native_lons r) = true.
Proof. exact native_grid_ok. Qed.

(* ... where the checker means exactly that (top edge = first centre + 1 hc, bottom edge = last centre - 1 hc): *)
Theorem lat_checker_meaning : forall r lats, lat_ok r lats = true ->
  exists top rest, lats = top :: rest /\ top mod 2 = 1 /\
    (forall k, (S k < List.length lats)%nat -> nth (S k) lats 0 = nth k lats 0 - 2) /\
    240 * rlat1 r <= (top + 1) * rD r /\ (top + 1 - 2) * rD r < 240 * rlat1 r /\
    (last lats top - 1) * rD r <= 240 * rlat0 r /\ 240 * rlat0 r < (last lats top - 1 + 2) * rD r.
Proof. exact lat_ok_sound. Qed.

Theorem lon_checker_meaning : forall r lons, lon_ok r lons = true ->
  exists lft rest, lons = lft :: rest /\ lft mod 2 = 1 /\
    (forall k, (S k < List.length lons)%nat -> nth (S k) lons 0 = nth k lons 0 + 2) /\
    (lft - 1) * rD r <= 240 * rlon0 r /\ 240 * rlon0 r < (lft - 1 + 2) * rD r /\
    240 * rlon1 r <= (last lons lft + 1) * rD r /\ (last lons lft + 1 - 2) * rD r < 240 * rlon1 r.
Proof. exact lon_ok_sound. Qed.

(* elevation: for ANY tile contents `dem` and ANY rectangle inside the covered area the mosaic assembly
   (boolean masks on every fetched tile and on the destination block, flat C-order assignment) succeeds, and
   entry [i, j] is the value stored in a tile pixel centred at (lat[i], lon[j]) -- across 1, 2, 4 or more tiles. *)
Theorem mosaic_cellwise : forall dem r, in_coverage r ->
  exists e, elevation dem r = Ok e /\
    forall i j, (i < List.length (native_lats r))%nat -> (j < List.length (native_lons r))%nat ->
      pixel_at dem (nth i (native_lats r) 0) (nth j (native_lons r) 0) (e (Z.of_nat i) (Z.of_nat j)).
Proof. exact mosaic_cells. Qed.

(* ... and that pixel is unique: no other tile, row or column is centred there. *)
Theorem pixel_is_unique : forall t1 r1 c1 t2 r2 c2,
  In t1 tiles -> In t2 tiles -> 0 <= r1 < H -> 0 <= c1 < W -> 0 <= r2 < H -> 0 <= c2 < W ->
  tile_lat t1 r1 = tile_lat t2 r2 -> tile_lon t1 c1 = tile_lon t2 c2 ->
  t1 = t2 /\ r1 = r2 /\ c1 = c2.
Proof. exact pixel_unique. Qed.

(* get_tiles names exactly the tiles whose area intersects the rectangle (each begins before the other ends,
   in latitude and in longitude), each once. *)
Theorem tiles_exact : forall r, in_coverage r -> forall name,
  In name (get_tiles r) <-> exists t, In t tiles /\ tname t = name /\ shares_area r t.
Proof. exact get_tiles_exact. Qed.

Theorem tiles_named_once : forall r, NoDup (get_tiles r).
Proof. exact get_tiles_nodup. Qed.

(* get_native_grids of a tile's own bounds reproduces get_grids of that tile (all tiles of the table) *)
Theorem native_of_tile_bounds : forall t, In t tiles ->
  native_lats (tile_rect t) = tile_lats t /\ native_lons (tile_rect t) = tile_lons t.
Proof. exact native_of_tile. Qed.

(* tile cache, every request history from every initial cache content: the k-th request downloads iff its tile
   was neither in the cache initially nor requested before; the requests are served in order. *)
Theorem download_iff_absent : forall init reqs,
  map fst (snd (run_cache init reqs)) = reqs /\
  forall k name, nth_error reqs k = Some name ->
    nth_error (snd (run_cache init reqs)) k =
    Some (name, negb (cached init name || cached (firstn k reqs) name)).
Proof. exact cache_law. Qed.

(* ---- robustness of the index arithmetic against perturbations of the corners (what binary64 rounding of the
   inputs can and cannot do).  A coordinate is n / D degrees; cell edges are the multiples of 1/120 degree.

   If every corner of r' lies strictly inside the same cell as the corresponding corner of r, both rectangles get
   the same block, the same mosaic (for any tile contents) and the same tile requests: *)
Theorem same_cells_same_mosaic : forall r r', in_coverage r -> 0 < rD r' -> rect_same_cells r r' ->
  native_lats r' = native_lats r /\ native_lons r' = native_lons r /\
  (forall dem, elevation dem r' = elevation dem r) /\ elevation_tiles r' = elevation_tiles r.
Proof. exact same_cells_same_block. Qed.

(* The margin, for ANY margin 1/M degree: if every corner of r is farther than 1/M degree from every cell edge
   (off_edges: for all k, |n/D - k/120| > 1/M) and r' moves every corner by at most 1/M degree (any denominators),
   then r' gets the same block, mosaic and tile requests as r -- and that block still covers r tightly.  So away
   from the edges rounding the inputs (or any other error up to the margin) cannot change the answer. *)
Theorem robust_margin : forall M r r', 0 < M -> in_coverage r -> rect_off_edges M r -> rect_within M r r' ->
  native_lats r' = native_lats r /\ native_lons r' = native_lons r /\
  (forall dem, elevation dem r' = elevation dem r) /\ elevation_tiles r' = elevation_tiles r /\
  grid_ok r (native_lats r') (native_lons r') = true.
Proof. exact robust_margin_covers. Qed.

(* the decided form of the hypothesis (two neighbouring edges only) that the harness evaluates per case with
   M = margin40 = 2^40 means exactly "farther than 1/M degree from every edge" *)
Theorem off_edges_decided : forall M r, 0 < M -> 0 < rD r -> rect_off_edges_b M r = true <-> rect_off_edges M r.
Proof. exact rect_off_edges_b_spec. Qed.

(* the hypothesis cannot be dropped: with a corner ON an edge (lat_min = 10) a perturbation of 2^-41 degree, inside
   the margin 2^-40, adds a row *)
Theorem margin_hypothesis_needed :
  let r := mkRect 1 10 10 11 11 in
  let r' := mkRect (2 ^ 41) (10 * 2 ^ 41 - 1) (10 * 2 ^ 41) (11 * 2 ^ 41) (11 * 2 ^ 41) in
  in_coverage r /\ rect_within_b margin40 r r' = true /\ rect_off_edges_b margin40 r = false /\
  List.length (native_lats r) = 120%nat /\ List.length (native_lats r') = 121%nat.
Proof. exact margin_needed. Qed.

(* the arithmetic of the tree as found does NOT have these properties (DESIGN section 6, #18 and #19);
   the witnesses, replayed on the implementation, are the findings repaired by fixes/C20_1 and C20_2 *)
Theorem native_lats_asis_refuted :
  let r := mkRect 1000 10001 10000 10050 10100 in
  in_coverage r /\ lat_ok r (native_lats_asis r) = false /\ lat_ok r (native_lats r) = true.
Proof. exact native_lats_asis_wrong. Qed.

Theorem get_tiles_asis_refuted :
  let r := mkRect 1 10 (-180) 11 (-179) in
  in_coverage r /\ get_tiles_asis r = [] /\ get_tiles r <> [].
Proof. exact get_tiles_asis_wrong. Qed.

(* non-vacuity: an unaligned rectangle around the corner 40 N / 20 E (39.96875 .. 40.03125, 19.96875 .. 20.03125)
   is inside the covered area, its block is 8 x 8 cells over four tiles, and the model's mosaic of the synthetic
   world raster equals that raster cell by cell; a three-request history downloads once. *)
Example nonvacuous :
  let r := mkRect 32 1279 639 1281 641 in
  let origin := [("w020n90", (0, 19200)); ("e020n90", (0, 24000));
                 ("w020n40", (6000, 19200)); ("e020n40", (6000, 24000))]%string in
  in_coverage r /\
  native_lats r = [9607; 9605; 9603; 9601; 9599; 9597; 9595; 9593] /\
  (let '(s, la, lo, ts, m) := run_elevation origin true r in
   s = SOk /\ ts = ["w020n90"; "e020n90"; "w020n40"; "e020n40"]%string /\ m = world_matrix la lo /\
   List.length m = 8%nat) /\
  snd (run_cache ["a"]%string ["b"; "a"; "b"]%string) = [("b", true); ("a", false); ("b", false)]%string.
Proof. vm_compute. repeat split; try reflexivity; try discriminate. Qed.

(* non-vacuity of robust_margin: the rectangle a user means by (10.1234, 0.3333, 10.3456, 0.6667) and the rectangle
   of the four doubles Python makes of these decimals: every corner of the first is farther than 2^-40 degree from
   every cell edge, the doubles differ from the decimals by less than 2^-40 degree, the block is 28 x 42 cells *)
Example robust_margin_nonvacuous :
  let r := mkRect 10000 101234 3333 103456 6667 in
  let r' := mkRect (2 ^ 54) 182366961870889920 6004199023210345 186369761219696800 12010199486271638 in
  in_coverage r /\ rect_off_edges_b margin40 r = true /\ rect_within_b margin40 r r' = true /\ r <> r' /\
  native_lats r' = native_lats r /\ List.length (native_lats r) = 28%nat /\ List.length (native_lons r) = 42%nat.
Proof. vm_compute. repeat split; try reflexivity; try discriminate. Qed.

Print Assumptions table_well_formed.
Print Assumptions grid_covers_tightly.
Print Assumptions lat_checker_meaning.
Print Assumptions lon_checker_meaning.
Print Assumptions mosaic_cellwise.
Print Assumptions pixel_is_unique.
Print Assumptions tiles_exact.
Print Assumptions tiles_named_once.
Print Assumptions native_of_tile_bounds.
Print Assumptions download_iff_absent.
Print Assumptions same_cells_same_mosaic.
Print Assumptions robust_margin.
Print Assumptions off_edges_decided.
Print Assumptions margin_hypothesis_needed.
Print Assumptions native_lats_asis_refuted.
Print Assumptions get_tiles_asis_refuted.
