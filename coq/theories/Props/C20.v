From Coq Require Import ZArith List Bool String.
From TyphonGen Require Import C20_tiles.
From Typhon Require Import Model.C20_srtm Proofs.C20_srtm.
Import ListNotations.
Open Scope Z_scope.

Theorem table_well_formed : table_ok = true.
Proof. exact table_ok_holds. Qed.

Print Assumptions table_well_formed.
