(* C10 -- property theorems. This file holds ONLY statements, `exact <lemma>` (or the direct
   combination of two lemmas), non-vacuity examples and Print Assumptions, so that the statements
   cannot be weakened quietly.

   Reading guide.  `rs : list res` are the results the per-file tasks will produce (one per file of
   the argument stream, in find() order), `w` = max_workers, `tr` = ANY sequence of actions
   Submit k / Complete i / Yield k: the theorems quantify over every trace the transition system
   `step` accepts, i.e. over every relative timing of the tasks.  `spec rs` = the values of the files
   in order up to the first task that raised, and that task's exception. *)
From Coq Require Import ZArith List Bool Arith Lia Sorted.
From Typhon Require Import Model.C10_pool Proofs.C10_pool Proofs.C10_align Model.C10_bundle Proofs.C10_bundle.
From Typhon Require Import Model.C10_args Proofs.C10_args.
Import ListNotations.

(* every reachable state of imap satisfies the invariant *)
Theorem imap_inv : forall w rs tr s, 0 < w -> run w rs init tr = Some s -> inv w rs s.
Proof. intros w rs tr s Hw H. exact (reachable_inv w rs tr s Hw H). Qed.

(* imap()/icollect(): at every moment the yielded files are a prefix 0,1,2,.. of the stream; when the
   generator ends the caller has seen exactly `spec rs`: one value per file in find() order -- or, if a
   task raised, all earlier values followed by that exception (for every schedule). *)
Theorem imap_in_order : forall w rs tr s, 0 < w -> run w rs init tr = Some s ->
  out s = seq 0 (length (out s)) /\ (final rs s -> observed rs s = spec rs).
Proof.
  intros w rs tr s Hw H. split.
  - exact (proj1 (inv_out_prefix w rs s (reachable_inv w rs tr s Hw H))).
  - exact (inv_final_observed w rs s (reachable_inv w rs tr s Hw H)).
Qed.

(* without exceptions: exactly the files 0 .. n-1, each once, in order *)
Theorem imap_all_files_in_order : forall w rs tr s, 0 < w ->
  (forall r, In r rs -> is_err r = false) ->
  run w rs init tr = Some s -> final rs s ->
  out s = seq 0 (length rs) /\ observed rs s = (map value_of rs, None).
Proof.
  intros w rs tr s Hw Hne H Hf.
  assert (Hi := reachable_inv w rs tr s Hw H).
  assert (Ho := inv_final_observed w rs s Hi Hf). rewrite (spec_noerr rs Hne) in Ho.
  split; [|exact Ho].
  destruct (inv_out_prefix w rs s Hi) as (Hp & _). rewrite Hp.
  assert (Hl : length (out s) = length rs).
  { apply (f_equal fst) in Ho. unfold observed in Ho. cbn [fst] in Ho.
    apply (f_equal (@length _)) in Ho. rewrite !map_length in Ho. exact Ho. }
  rewrite Hl. reflexivity.
Qed.

(* never more than max_workers submitted-but-unconsumed tasks *)
Theorem imap_bounded : forall w rs tr s, 0 < w -> run w rs init tr = Some s -> length (dq s) <= w.
Proof. intros w rs tr s Hw H. exact (proj1 (proj2 (reachable_inv w rs tr s Hw H))). Qed.

(* every file is submitted at most once, consumed at most once, completes at most once; the files
   submitted so far are exactly 0 .. next-1 *)
Theorem imap_exactly_once : forall w rs tr s, 0 < w -> run w rs init tr = Some s ->
  consumed s ++ dq s = seq 0 (next s) /\ NoDup (consumed s ++ dq s) /\ NoDup (done s).
Proof.
  intros w rs tr s Hw H. assert (Hi := reachable_inv w rs tr s Hw H). split.
  - exact (proj1 Hi).
  - exact (inv_nodup w rs s Hi).
Qed.

(* no reachable state is stuck before the generator has ended ... *)
Theorem imap_progress : forall w rs tr s, 0 < w -> run w rs init tr = Some s -> ~ final rs s ->
  exists a s', step w rs s a = Some s'.
Proof. intros w rs tr s Hw H. exact (inv_progress w rs s Hw (reachable_inv w rs tr s Hw H)). Qed.

(* ... and no run is longer than 3 n actions (n submits, n completions, n yields) *)
Theorem imap_terminates : forall w rs tr s, 0 < w -> run w rs init tr = Some s -> length tr <= 3 * length rs.
Proof.
  intros w rs tr s Hw H. assert (Hm := run_measure w rs tr init s H).
  assert (Hb := inv_measure_bound w rs s (reachable_inv w rs tr s Hw H)).
  unfold measure at 2 in Hm. cbn in Hm. lia.
Qed.

(* an exception in a task reaches the caller, after the results of all earlier files *)
Theorem error_propagates : forall w pre e post tr s, 0 < w ->
  (forall r, In r pre -> is_err r = false) ->
  run w (pre ++ Err e :: post) init tr = Some s -> final (pre ++ Err e :: post) s ->
  observed (pre ++ Err e :: post) s = (map value_of pre, Some e).
Proof.
  intros w pre e post tr s Hw Hpre H Hf. rewrite <- (spec_at_err pre e post Hpre).
  exact (inv_final_observed w _ s (reachable_inv w _ tr s Hw H) Hf).
Qed.

(* only read errors under error_to_warning become a warning + None, for that file only *)
Theorem only_read_errors_become_warnings : forall c t,
  task_result c t = ReadWarn <->
  (on_content c = true /\ e2w c = true /\ exists e, bundle_read (t_read t) = RdFail e).
Proof. exact task_warn_iff. Qed.

Theorem read_warning_local : forall c ts w tr s, 0 < w ->
  on_content c = true -> e2w c = true -> (forall t, In t ts -> exists v, t_func t = FRet v) ->
  run w (map (task_result c) ts) init tr = Some s -> final (map (task_result c) ts) s ->
  observed (map (task_result c) ts) s = (map warn_value ts, None).
Proof.
  intros c ts w tr s Hw Hoc Hew Hf H Hfin. rewrite <- (read_warnings_local c ts Hoc Hew Hf).
  exact (inv_final_observed w _ s (reachable_inv w _ tr s Hw H) Hfin).
Qed.

Theorem function_error_is_never_a_warning : forall c t e,
  bundle_read (t_read t) = RdOk -> t_func t = FRaise e -> task_result c t = Err e.
Proof. exact func_error_propagates. Qed.

(* map(): Executor.map = the same system with an unbounded queue (every file submitted before the
   first result is taken); whatever the completion order, the list is `spec rs`.  That the executor of
   the standard library behaves like this system is the hypothesis the correspondence run exercises. *)
Theorem map_in_order : forall rs tr s,
  run (map_width rs) rs init tr = Some s -> final rs s -> observed rs s = spec rs.
Proof.
  intros rs tr s H Hf.
  assert (Hw : 0 < map_width rs) by (unfold map_width; lia).
  exact (inv_final_observed _ rs s (reachable_inv _ rs tr s Hw H) Hf).
Qed.

(* collect(): the contents in file order, None contents dropped; an exception propagates.
   Guard: as the code is, collect() raises ValueError (CEmpty) when nothing is left. *)
Theorem collect_drops_none : forall rs, (forall r, In r rs -> is_err r = false) ->
  collect_model rs = match contents_from 0 rs with [] => CEmpty | l => CList l end
  /\ StronglySorted lt (map fst (contents_from 0 rs))
  /\ (forall i c, In (i, c) (contents_from 0 rs) <-> nth_res rs i = Ok (Some c)).
Proof.
  intros rs H. split; [exact (collect_noerr rs H)|]. split; [exact (contents_from_sorted rs 0)|].
  intros i c. rewrite (contents_from_In rs 0 i c), Nat.sub_0_r. split; [intros (_ & X); exact X|].
  intros X. split; [lia|exact X].
Qed.

Theorem collect_error_propagates : forall pre e post, (forall r, In r pre -> is_err r = false) ->
  collect_model (pre ++ Err e :: post) = CRaise e.
Proof. exact collect_err. Qed.

(* align(): the loop never raises AlignError, takes from the secondary loader exactly the unique
   secondaries in order of first appearance (each read once), consumes the loader completely ... *)
Theorem align_loads_once_in_order : forall matches,
  let s := align_model matches in
  aerr s = false /\ loads s = uniq_first (concat matches) /\ NoDup (loads s) /\ loader s = [].
Proof.
  intros matches. cbn zeta. unfold align_model.
  destruct (align_final (uses_of matches)) as (H1 & H2 & H3 & _ & _).
  unfold uses_of in *. rewrite secs_uses_from in H2.
  split; [exact H1|]. split; [exact H2|]. split; [rewrite H2; apply uniq_acc_NoDup|exact H3].
Qed.

(* ... hands every matched secondary to each primary that needs it, in order ... *)
Theorem align_delivers_all : forall matches, deliv (align_model matches) = uses_of matches.
Proof.
  intros matches. unfold align_model.
  destruct (align_final (uses_of matches)) as (_ & _ & _ & _ & H). exact H.
Qed.

(* ... and at every point of the loop the cache holds exactly the secondaries already used that a later
   pair still needs; it is empty at the end. *)
Theorem align_evicts_after_last_use : forall matches pre post, uses_of matches = pre ++ post ->
  (forall x, In x (cache (fold_left use_secondary pre (align_init (uses_of matches))))
             <-> (In x (secs pre) /\ 0 < cnt x (secs post)))
  /\ cache (align_model matches) = [].
Proof.
  intros matches pre post H. split.
  - destruct (align_prefix_inv (uses_of matches) pre post H) as (seen & Hi). exact (ai_cache _ _ _ _ _ Hi).
  - unfold align_model. destruct (align_final (uses_of matches)) as (_ & _ & _ & Hc & _). exact Hc.
Qed.

(* laziness: imap()/icollect() never run ahead of their consumer.  In every reachable state the number of
   submitted tasks (next) is at most the number of results handed to the caller plus max_workers ... *)
Theorem imap_lazy : forall w rs tr s, 0 < w -> run w rs init tr = Some s ->
  next s <= length (out s) + w.
Proof. exact reachable_lazy. Qed.

(* ... so file k is submitted only after the results of the files 0 .. k-w have been yielded: in any accepted
   trace that ends with Submit k, the caller holds more than k - w results already before that submit. *)
Theorem imap_submit_waits_for_consumer : forall w rs pre k s, 0 < w ->
  run w rs init (pre ++ [Submit k]) = Some s ->
  next s = S k /\ k < length (out s) + w
  /\ exists s0, run w rs init pre = Some s0 /\ out s = out s0 /\ k < length (out s0) + w.
Proof. exact submit_waits. Qed.

(* the bundle case of the wrapper (Model/C10_bundle.v): the members are read through the nested collect().
   With on_content, the task's result is a warning + None iff error_to_warning is set and some member
   cannot be read -- or, the degenerate case the code has, no content at all is left to hand on (empty
   bundle, every content None); otherwise it is the function applied to the members' contents in member
   order (None contents dropped by collect); without error_to_warning the error of the first unreadable
   member (in member order) reaches the caller. *)
Theorem bundle_task_result : forall c bt, on_content c = true ->
  let ms := b_members bt in
  (btask_result c bt = ReadWarn <-> (e2w c = true /\ (unreadable ms \/ contents ms = [])))
  /\ (contents ms <> [] -> (btask_result c bt = ReadWarn <-> (e2w c = true /\ unreadable ms)))
  /\ (~ unreadable ms -> contents ms <> [] -> btask_result c bt = func_result (b_func bt (contents ms)))
  /\ (e2w c = false -> forall pre e post, ms = pre ++ MFail e :: post -> ~ unreadable pre ->
        btask_result c bt = Err e).
Proof. exact bundle_task_result_lemma. Qed.

(* the explicit bundle model refines the tasks of the pool model, so every pool theorem above holds for
   streams of bundles *)
Theorem bundle_refines_task : forall c bt, btask_result c bt = task_result c (abstract_task c bt).
Proof. exact bundle_refines. Qed.

(* the nested collect() returns the same thing whatever the completion order of its member reads *)
Theorem bundle_collect_any_member_order : forall ms tr s,
  let rs := member_results ms in
  run (map_width rs) rs init tr = Some s -> final rs s -> collect_obs (observed rs s) = bundle_collect ms.
Proof. exact bundle_collect_any_order. Qed.

(* a stream of bundles under error_to_warning: for every schedule each bundle gets its own value, an
   unreadable member costs that bundle only *)
Theorem bundle_read_warning_local : forall c bts w tr s, 0 < w ->
  on_content c = true -> e2w c = true -> (forall bt l, In bt bts -> exists v, b_func bt l = FRet v) ->
  run w (map (btask_result c) bts) init tr = Some s -> final (map (btask_result c) bts) s ->
  observed (map (btask_result c) bts) s = (map bundle_value bts, None).
Proof.
  intros c bts w tr s Hw Hoc Hew Hf H Hfin. rewrite <- (bundle_warnings_local c bts Hoc Hew Hf).
  exact (inv_final_observed w _ s (reachable_inv w _ tr s Hw H) Hfin).
Qed.

(* TYPE and LENGTH of what the function of a bundle task receives (and what collect()/icollect() hand on for the
   bundle): when every member can be read and has a content, it is the LIST of the members' contents -- exactly
   one entry per member, the i-th entry the content of the i-th member -- for every bundle size >= 1 ... *)
Theorem bundle_arg_is_member_list : forall c bt, on_content c = true ->
  let ms := b_members bt in
  ms <> [] -> (forall m, In m ms -> plain m) ->
  bundle_content ms = inl (contents ms)
  /\ length (contents ms) = length ms
  /\ (forall i d, i < length ms -> nth i ms d = MOk (Some (nth i (contents ms) 0%Z)))
  /\ btask_result c bt = func_result (b_func bt (contents ms)).
Proof. exact bundle_arg_shape. Qed.

(* ... in particular for a bundle of exactly ONE file: the function is applied to the one-element list [x], not
   to the bare content x.  An observation agrees with that (arg_code = 0) only if it is the list [x]; the bare
   content x is rejected with code 2 (`oarg` keeps the two apart: the harness reports which one it saw). *)
Theorem bundle_singleton_arg : forall c bt x, on_content c = true -> b_members bt = [MOk (Some x)] ->
  btask_result c bt = func_result (b_func bt [x])
  /\ bundle_args [bt] = [Some [x]]
  /\ (forall o, arg_code (Some [x]) o = 0%Z <-> o = OList [x])
  /\ arg_code (Some [x]) (OBare x) = 2%Z.
Proof. exact bundle_singleton. Qed.

(* the comparison the tie evaluates for every bundle task: code 0 iff the function was not called where the
   read of the bundle fails, resp. was called with exactly the model's list -- a bare content never agrees *)
Theorem observed_arg_agrees_iff : forall m o, arg_code m o = 0%Z <->
  (m = None /\ o = ONot) \/ (exists l, m = Some l /\ o = OList l).
Proof. exact arg_code_zero. Qed.

(* a task's result depends on its own file only (the per-file wrapper has no state shared between tasks: the
   results of a stream are `map (task_result c)` of the stream).  In EVERY reachable state of imap / map, for any
   schedule and worker count: the i-th value handed to the caller is the value of the i-th task of the stream; an
   exception that left the generator is the one of its own task; and the i-th result is unchanged when all the
   OTHER tasks of the stream are replaced (in particular by tasks that read other files at the same time). *)
Theorem task_results_independent : forall c ts w tr s, 0 < w ->
  run w (map (task_result c) ts) init tr = Some s ->
  (forall i d, i < length (out s) ->
      i < length ts /\ nth i (fst (observed (map (task_result c) ts) s)) None = value_of (task_result c (nth i ts d)))
  /\ (forall h d, raised s = Some h ->
      h < length ts /\ exists e, task_result c (nth h ts d) = Err e /\ snd (observed (map (task_result c) ts) s) = Some e)
  /\ (forall ts' i d, i < length ts -> i < length ts' -> nth i ts d = nth i ts' d ->
      nth_res (map (task_result c) ts) i = nth_res (map (task_result c) ts') i).
Proof. intros c. exact (stream_results_independent (task_result c)). Qed.

(* the same for streams of bundles in the explicit bundle model *)
Theorem bundle_results_independent : forall c bts w tr s, 0 < w ->
  run w (map (btask_result c) bts) init tr = Some s ->
  (forall i d, i < length (out s) ->
      i < length bts /\ nth i (fst (observed (map (btask_result c) bts) s)) None = value_of (btask_result c (nth i bts d)))
  /\ (forall h d, raised s = Some h ->
      h < length bts /\ exists e, btask_result c (nth h bts d) = Err e /\ snd (observed (map (btask_result c) bts) s) = Some e)
  /\ (forall bts' i d, i < length bts -> i < length bts' -> nth i bts d = nth i bts' d ->
      nth_res (map (btask_result c) bts) i = nth_res (map (btask_result c) bts') i).
Proof. intros c. exact (stream_results_independent (btask_result c)). Qed.

(* the ARGUMENTS of the mapped function (Model/C10_args.v).  The caller's `args` object (None, a tuple or a LIST) and
   `kwargs` dict are shared by the argument tuples of all tasks; the wrapper of every task copies `args`, appends the
   content and / or the FileInfo of its own file and calls the function.  For EVERY interleaving `sch` of the
   micro-steps (copy / append content / append info / call) of the wrappers of a stream `fs`:
   the caller's objects hold afterwards what they held before; every call that happened is the call of one task
   of the stream with exactly (the caller's arguments in order, then the arguments of its OWN file) and the caller's
   keyword arguments -- a function of (caller's args, file i) only; no task calls twice; a task that made its four
   micro-steps has called, one that made fewer has not; and the call of task i is the same in any other stream
   that has the same file at position i, under any other schedule (replacing the other tasks changes nothing). *)
Theorem task_arguments_independent : forall c a kw fs sch,
  let s := run_wrappers c a kw fs sch in
  cell s = map PUser (user_args a) /\ kwcell s = kw
  /\ (forall r, In r (calls s) ->
        exists f, nth_error fs (c_task r) = Some f /\ c_pos r = task_arguments c a f /\ c_kw r = kw)
  /\ NoDup (map c_task (calls s))
  /\ (forall i f, nth_error fs i = Some f -> 4 <= count_occ Nat.eq_dec sch i ->
        call_of s i = Some {| c_task := i; c_pos := task_arguments c a f; c_kw := kw |})
  /\ (forall i, count_occ Nat.eq_dec sch i < 4 -> call_of s i = None)
  /\ (forall fs' sch' r r', In r (calls s) -> In r' (calls (run_wrappers c a kw fs' sch')) ->
        c_task r' = c_task r -> nth_error fs' (c_task r) = nth_error fs (c_task r) ->
        c_pos r' = c_pos r /\ c_kw r' = c_kw r).
Proof.
  intros c a kw fs sch. cbn zeta.
  destruct (wrappers_spec c a kw fs sch) as (H1 & H2 & H3 & H4 & H5 & H6).
  split; [exact H1|]. split; [exact H2|]. split; [exact H3|]. split; [exact H4|]. split; [exact H5|].
  split; [exact H6|]. intros fs' sch' r r'. exact (call_independent c a kw fs sch fs' sch' r r').
Qed.

(* the comparison the tie evaluates for every task of a case with extra arguments: code 0 iff the function was
   seen to be called with exactly the model's positional arguments (number, order, which object) and keyword
   arguments; and the code of the caller's `args` object after the run is 0 iff it holds what it held before
   (a list that was appended to has code 1) *)
Theorem observed_call_agrees_iff : forall r o before now x,
  (call_code (Some r) o = 0%Z <-> o = Some (c_pos r, c_kw r))
  /\ (after_code before now = 0%Z <-> now = before)
  /\ (x <> [] -> after_code before (before ++ x) = 1%Z).
Proof.
  intros r o before now x. split; [exact (call_code_zero r o)|]. split; [exact (after_code_zero before now)|].
  exact (after_code_grew before x).
Qed.

(* ------------------------------------------------------------------ non-vacuity *)

(* five files, two workers; file 1 cannot be read (warning), the function returns None for file 2;
   the scheduler tries to complete the tasks in the order 3,2,1,0,4.  The trace is accepted, ends in
   a final state and shows the values in file order.  With error_to_warning off the read error of
   file 1 reaches the caller after the value of file 0. *)
Example nonvacuous_imap :
  let ts := [mk_task [-1] 0 100; mk_task [7] 0 101; mk_task [-1] 1 0; mk_task [-1] 0 103; mk_task [-1] 0 104]%Z in
  let rs := results true true ts in
  let tr := schedule 24 2 rs [3; 2; 1; 0; 4] init in
  length tr = 15 /\
  (exists s, run 2 rs init tr = Some s /\ final rs s /\ length (done s) = 5
             /\ observed rs s = ([Some 100; None; None; Some 103; Some 104]%Z, None)) /\
  let rs' := results true false ts in
  let tr' := schedule 24 2 rs' [3; 2; 1; 0; 4] init in
  (exists s, run 2 rs' init tr' = Some s /\ final rs' s /\ observed rs' s = ([Some 100]%Z, Some 7%Z)) /\
  (* a schedule in which a later task really finishes first *)
  nth 2 tr (Yield 0) = Complete 1 /\ nth 3 tr (Yield 0) = Complete 0.
Proof.
  cbn zeta. split; [vm_compute; reflexivity|]. split.
  - eexists. split; [vm_compute; reflexivity|]. vm_compute. repeat split.
  - split; [|vm_compute; split; reflexivity].
    eexists. split; [vm_compute; reflexivity|]. vm_compute. repeat split.
Qed.

Example nonvacuous_align :
  let m := [[0; 1]; [1; 2]; [2; 0]; [3; 3]] in
  loads (align_model m) = [0; 1; 2; 3] /\ maxcache (align_model m) = 2 /\
  uses_of m = [(0, 0); (0, 1); (1, 1); (1, 2); (2, 2); (2, 0); (3, 3); (3, 3)] /\
  collect_model [Ok (Some 5%Z); ReadWarn; Ok None; Ok (Some 8%Z)] = CList [(0, 5%Z); (3, 8%Z)].
Proof. vm_compute. repeat split. Qed.

(* laziness is not vacuous: five files, two workers.  The bound is reached (two submitted, none yielded) and
   there the model refuses to submit a third file -- even once both running tasks are complete -- until
   the caller has taken the result of file 0; at the end of the complete run all five were submitted. *)
Example nonvacuous_lazy :
  let rs := [Ok (Some 1); Ok None; ReadWarn; Ok (Some 4); Ok (Some 5)]%Z in
  (exists s, run 2 rs init [Submit 0; Submit 1] = Some s /\ next s = length (out s) + 2
             /\ step 2 rs s (Submit 2) = None) /\
  (exists s, run 2 rs init [Submit 0; Submit 1; Complete 1; Complete 0] = Some s
             /\ step 2 rs s (Submit 2) = None
             /\ exists s', run 2 rs s [Yield 0; Submit 2] = Some s' /\ next s' = length (out s') + 2) /\
  (exists s, run 2 rs init (schedule 24 2 rs [4; 3; 2; 1; 0] init) = Some s /\ final rs s /\ next s = 5).
Proof.
  cbn zeta. split; [|split].
  - eexists. split; [vm_compute; reflexivity|]. vm_compute. repeat split.
  - eexists. split; [vm_compute; reflexivity|]. split; [vm_compute; reflexivity|].
    eexists. split; [vm_compute; reflexivity|]. vm_compute. reflexivity.
  - eexists. split; [vm_compute; reflexivity|]. vm_compute. repeat split.
Qed.

(* bundles: three members, the middle content is None: the function (here: the sum) sees [5; 7]; the inner
   map run with the members completing in reverse order is accepted and gives the same collect; with an
   unreadable member the task is a warning under error_to_warning and otherwise raises the error of the
   first unreadable member in member order. *)
Example nonvacuous_bundle :
  let f := fun l : list Z => FRet (Some (fold_right Z.add 0%Z l)) in
  let good := {| b_members := [MOk (Some 5%Z); MOk None; MOk (Some 7%Z)]; b_func := f; b_info := FRet None |} in
  let bad := {| b_members := [MOk (Some 5%Z); MFail 9%Z; MFail 4%Z]; b_func := f; b_info := FRet None |} in
  let cw := {| on_content := true; e2w := true |} in
  let ce := {| on_content := true; e2w := false |} in
  contents (b_members good) = [5; 7]%Z /\ ~ unreadable (b_members good) /\
  btask_result cw good = Ok (Some 12%Z) /\
  btask_result cw bad = ReadWarn /\ btask_result ce bad = Err 9%Z /\
  (let rs := member_results (b_members good) in
   let tr := [Submit 0; Submit 1; Submit 2; Complete 2; Complete 1; Complete 0; Yield 0; Yield 1; Yield 2] in
   exists s, run (map_width rs) rs init tr = Some s /\ final rs s
             /\ collect_obs (observed rs s) = CList [(0, 5%Z); (2, 7%Z)]) /\
  (* the harness's encoding: tasks (bundles) 0 and 1, task 1 has an unreadable member *)
  bresults true true [mk_btask [0; 1] [0; 1] 0 1000; mk_btask [2; 2003] [2; 3] 0 1001]%Z = [Ok (Some 1000%Z); ReadWarn] /\
  bundle_args [mk_btask [0; -1; 1] [0; 1] 0 1000]%Z = [Some [0; 1]%Z].
Proof.
  cbn zeta. split; [reflexivity|]. split.
  - intros (e & [H|[H|[H|[]]]]); discriminate.
  - split; [vm_compute; reflexivity|]. split; [vm_compute; reflexivity|]. split; [vm_compute; reflexivity|].
    split; [|split; vm_compute; reflexivity].
    eexists. split; [vm_compute; reflexivity|]. vm_compute. repeat split.
Qed.

(* a bundle of ONE file: the function (here: 100 * number of entries + their sum) sees the list [4]; the stream
   [[0,1],[2,3],[4]] of the harness: the model hands the last task the list [4]; the observation "list [4]" agrees,
   the observation "bare content 4" is code 2 *)
Example nonvacuous_singleton :
  let f := fun l : list Z => FRet (Some (Z.of_nat (length l) * 100 + fold_right Z.add 0 l))%Z in
  let one := {| b_members := [MOk (Some 4%Z)]; b_func := f; b_info := FRet None |} in
  let cw := {| on_content := true; e2w := true |} in
  btask_result cw one = Ok (Some 104%Z) /\ bundle_args [one] = [Some [4%Z]] /\
  (forall m, In m (b_members one) -> plain m) /\ b_members one <> [] /\
  let bts := [mk_btask [0; 1] [0; 1] 0 1000; mk_btask [2; 3] [2; 3] 0 1001; mk_btask [4] [4] 0 1002]%Z in
  bundle_args bts = [Some [0; 1]; Some [2; 3]; Some [4]]%Z /\
  bundle_arg_codes bts [(2, [0; 1]); (2, [2; 3]); (2, [4])]%Z = [0; 0; 0]%Z /\
  bundle_arg_codes bts [(2, [0; 1]); (2, [2; 3]); (1, [4])]%Z = [0; 0; 2]%Z /\
  bundle_arg_codes bts [(2, [1; 0]); (0, []); (2, [4; 4])]%Z = [1; 4; 1]%Z.
Proof.
  cbn zeta. split; [vm_compute; reflexivity|]. split; [vm_compute; reflexivity|]. split.
  - intros m [<-|[]]. exists 4%Z. reflexivity.
  - split; [discriminate|]. vm_compute. repeat split.
Qed.

(* independence: two streams that agree in task 1 only (task 0 of the second one cannot be read and its function
   would raise); task 1 completes FIRST in the run of the first stream (a later task finishes while the earlier one
   is still running) -- the caller gets the value of task 1 at position 1, and the result of task 1 is the same in
   both streams *)
Example nonvacuous_independent :
  let c := {| on_content := true; e2w := false |} in
  let ts := [mk_task [-1] 0 100; mk_task [-1] 0 101]%Z in
  let ts' := [mk_task [7] 2 5; mk_task [-1] 0 101]%Z in
  let tr := [Submit 0; Submit 1; Complete 1; Complete 0; Yield 0; Yield 1] in
  (exists s, run 2 (map (task_result c) ts) init tr = Some s /\ length (out s) = 2
             /\ fst (observed (map (task_result c) ts) s) = [Some 100; Some 101]%Z) /\
  nth 1 ts (mk_task [] 0 0) = nth 1 ts' (mk_task [] 0 0) /\
  nth_res (map (task_result c) ts) 1 = Ok (Some 101%Z) /\ nth_res (map (task_result c) ts') 1 = Ok (Some 101%Z) /\
  (exists s, run 2 (map (task_result c) ts') init [Submit 0; Submit 1; Complete 1; Complete 0; Yield 0] = Some s
             /\ raised s = Some 0 /\ snd (observed (map (task_result c) ts') s) = Some 7%Z).
Proof.
  cbn zeta. split.
  - eexists. split; [vm_compute; reflexivity|]. vm_compute. split; reflexivity.
  - split; [reflexivity|]. split; [vm_compute; reflexivity|]. split; [vm_compute; reflexivity|].
    eexists. split; [vm_compute; reflexivity|]. vm_compute. split; reflexivity.
Qed.

(* arguments: three files, `args` = the LIST [7; 8], kwargs {0: 5}, on_content with pass_info, the micro-steps of
   the three wrappers maximally interleaved (all copies, then all content appends, all info appends, all calls):
   every task is called with (7, 8, its own content, its own FileInfo) and the keyword arguments, the caller's
   list still holds [7; 8].  The same schedule WITHOUT the copy (the variant `run_gen false`: the wrappers
   work on the caller's list itself) calls every task with all six file arguments of all three tasks and leaves
   the caller's list grown -- this is what the theorem excludes.  The harness's encodings evaluate as intended:
   all codes 0 for the right observation; 2 for a task that saw a foreign file argument as well, 1 for the grown list. *)
Example nonvacuous_arguments :
  let c := {| a_on_content := true; a_pass_info := true |} in
  let a := AList [7; 8]%Z in
  let kw := [(0, 5)]%Z in
  let fs := [10; 11; 12] in
  let s := run_wrappers c a kw fs (round_robin 3) in
  map c_pos (calls s) = [[PUser 7; PUser 8; PContent 10; PInfo 10]; [PUser 7; PUser 8; PContent 11; PInfo 11];
                         [PUser 7; PUser 8; PContent 12; PInfo 12]]%Z /\
  map c_task (calls s) = [0; 1; 2] /\ cell s = [PUser 7; PUser 8]%Z /\
  call_of (run_wrappers c a kw fs [1; 1; 0; 1; 0; 0; 1]) 1
    = Some {| c_task := 1; c_pos := task_arguments c a 11; c_kw := kw |} /\
  call_of (run_wrappers c a kw fs [1; 1; 0; 1; 0; 0; 1]) 0 = None /\
  task_arguments {| a_on_content := false; a_pass_info := false |} ANone 4 = [PInfo 4] /\
  task_arguments {| a_on_content := true; a_pass_info := false |} (ATuple [3]%Z) 4 = [PUser 3%Z; PContent 4] /\
  (let s' := run_gen false c a kw fs (round_robin 3) in
   map (fun r => length (c_pos r)) (calls s') = [8; 8; 8] /\ length (cell s') = 8 /\
   after_code (cell s) (cell s') = 1%Z /\
   run_gen false c a kw fs [0; 0; 0; 0; 1; 1; 1; 1] <> run_wrappers c a kw fs [0; 0; 0; 0; 1; 1; 1; 1]) /\
  (args_check true true 2 [7; 8] [(0, 5)] 3 [2; 0; 1]
    [(1, [(0, 7); (0, 8); (1, 0); (2, 0)], [(0, 5)]); (1, [(0, 7); (0, 8); (1, 1); (2, 1)], [(0, 5)]);
     (1, [(0, 7); (0, 8); (1, 2); (2, 2)], [(0, 5)])] [(0, 7); (0, 8)] [(0, 5)] = ([0; 0; 0], 0, 0))%Z /\
  (args_check true true 2 [7; 8] [(0, 5)] 3 [2; 0; 1]
    [(1, [(0, 7); (0, 8); (1, 2); (2, 2); (1, 0); (2, 0)], [(0, 5)]); (0, [], []);
     (1, [(0, 7); (0, 8); (2, 2); (1, 2)], [(0, 6)])] [(0, 7); (0, 8); (1, 2); (2, 2)] [] = ([2; 1; 3], 1, 1))%Z.
Proof.
  cbn zeta. repeat (split; [vm_compute; reflexivity|]).
  split; [|split; vm_compute; reflexivity].
  repeat (split; [vm_compute; reflexivity|]). vm_compute. discriminate.
Qed.

Print Assumptions imap_inv.
Print Assumptions imap_in_order.
Print Assumptions imap_all_files_in_order.
Print Assumptions imap_bounded.
Print Assumptions imap_exactly_once.
Print Assumptions imap_progress.
Print Assumptions imap_terminates.
Print Assumptions error_propagates.
Print Assumptions only_read_errors_become_warnings.
Print Assumptions read_warning_local.
Print Assumptions function_error_is_never_a_warning.
Print Assumptions map_in_order.
Print Assumptions collect_drops_none.
Print Assumptions collect_error_propagates.
Print Assumptions align_loads_once_in_order.
Print Assumptions align_delivers_all.
Print Assumptions align_evicts_after_last_use.
Print Assumptions imap_lazy.
Print Assumptions imap_submit_waits_for_consumer.
Print Assumptions bundle_task_result.
Print Assumptions bundle_refines_task.
Print Assumptions bundle_collect_any_member_order.
Print Assumptions bundle_read_warning_local.
Print Assumptions bundle_arg_is_member_list.
Print Assumptions bundle_singleton_arg.
Print Assumptions observed_arg_agrees_iff.
Print Assumptions task_results_independent.
Print Assumptions bundle_results_independent.
Print Assumptions task_arguments_independent.
Print Assumptions observed_call_agrees_iff.
