(* C10 -- property theorems. This file holds ONLY statements, `exact <lemma>` (or the direct
   combination of two lemmas), non-vacuity examples and Print Assumptions, so that the statements
   cannot be weakened quietly.

   Reading guide.  `rs : list res` are the results the per-file tasks will produce (one per file of
   the argument stream, in find() order), `w` = max_workers, `tr` = ANY sequence of actions
   Submit k / Complete i / Yield k: the theorems quantify over every trace the transition system
   `step` accepts, i.e. over every relative timing of the tasks.  `spec rs` = the values of the files
   in order up to the first task that raised, and that task's exception. *)
From Coq Require Import ZArith List Bool Arith Lia Sorted.
From Typhon Require Import Model.C10_pool Proofs.C10_pool Proofs.C10_align.
Import ListNotations.

(* every reachable state of imap satisfies the invariant *)
Theorem imap_inv : forall w rs tr s, 0 < w -> run w rs init tr = Some s -> inv w rs s.
Proof. intros w rs tr s Hw H. exact (reachable_inv w rs tr s Hw H). Qed.

(* imap()/icollect(): at every moment the yielded files are a prefix 0,1,2,.. of the stream; when the
   generator ends the caller has seen exactly `spec rs`: one value per file in find() order -- or, if a
   task raised, all earlier values followed by that exception (for every schedule). *)
Theorem imap_in_order : forall w rs tr s, 0 < w -> run w rs init tr = Some s ->
  out s = seq 0 (length (out s)) /\ (final rs s -> observed rs s = spec rs).
Proof.
  intros w rs tr s Hw H. split.
  - exact (proj1 (inv_out_prefix w rs s (reachable_inv w rs tr s Hw H))).
  - exact (inv_final_observed w rs s (reachable_inv w rs tr s Hw H)).
Qed.

(* without exceptions: exactly the files 0 .. n-1, each once, in order *)
Theorem imap_all_files_in_order : forall w rs tr s, 0 < w ->
  (forall r, In r rs -> is_err r = false) ->
  run w rs init tr = Some s -> final rs s ->
  out s = seq 0 (length rs) /\ observed rs s = (map value_of rs, None).
Proof.
  intros w rs tr s Hw Hne H Hf.
  assert (Hi := reachable_inv w rs tr s Hw H).
  assert (Ho := inv_final_observed w rs s Hi Hf). rewrite (spec_noerr rs Hne) in Ho.
  split; [|exact Ho].
  destruct (inv_out_prefix w rs s Hi) as (Hp & _). rewrite Hp.
  assert (Hl : length (out s) = length rs).
  { apply (f_equal fst) in Ho. unfold observed in Ho. cbn [fst] in Ho.
    apply (f_equal (@length _)) in Ho. rewrite !map_length in Ho. exact Ho. }
  rewrite Hl. reflexivity.
Qed.

(* never more than max_workers submitted-but-unconsumed tasks *)
Theorem imap_bounded : forall w rs tr s, 0 < w -> run w rs init tr = Some s -> length (dq s) <= w.
Proof. intros w rs tr s Hw H. exact (proj1 (proj2 (reachable_inv w rs tr s Hw H))). Qed.

(* every file is submitted at most once, consumed at most once, completes at most once; the files
   submitted so far are exactly 0 .. next-1 *)
Theorem imap_exactly_once : forall w rs tr s, 0 < w -> run w rs init tr = Some s ->
  consumed s ++ dq s = seq 0 (next s) /\ NoDup (consumed s ++ dq s) /\ NoDup (done s).
Proof.
  intros w rs tr s Hw H. assert (Hi := reachable_inv w rs tr s Hw H). split.
  - exact (proj1 Hi).
  - exact (inv_nodup w rs s Hi).
Qed.

(* no reachable state is stuck before the generator has ended ... *)
Theorem imap_progress : forall w rs tr s, 0 < w -> run w rs init tr = Some s -> ~ final rs s ->
  exists a s', step w rs s a = Some s'.
Proof. intros w rs tr s Hw H. exact (inv_progress w rs s Hw (reachable_inv w rs tr s Hw H)). Qed.

(* ... and no run is longer than 3 n actions (n submits, n completions, n yields) *)
Theorem imap_terminates : forall w rs tr s, 0 < w -> run w rs init tr = Some s -> length tr <= 3 * length rs.
Proof.
  intros w rs tr s Hw H. assert (Hm := run_measure w rs tr init s H).
  assert (Hb := inv_measure_bound w rs s (reachable_inv w rs tr s Hw H)).
  unfold measure at 2 in Hm. cbn in Hm. lia.
Qed.

(* an exception in a task reaches the caller, after the results of all earlier files *)
Theorem error_propagates : forall w pre e post tr s, 0 < w ->
  (forall r, In r pre -> is_err r = false) ->
  run w (pre ++ Err e :: post) init tr = Some s -> final (pre ++ Err e :: post) s ->
  observed (pre ++ Err e :: post) s = (map value_of pre, Some e).
Proof.
  intros w pre e post tr s Hw Hpre H Hf. rewrite <- (spec_at_err pre e post Hpre).
  exact (inv_final_observed w _ s (reachable_inv w _ tr s Hw H) Hf).
Qed.

(* only read errors under error_to_warning become a warning + None, for that file only *)
Theorem only_read_errors_become_warnings : forall c t,
  task_result c t = ReadWarn <->
  (on_content c = true /\ e2w c = true /\ exists e, bundle_read (t_read t) = RdFail e).
Proof. exact task_warn_iff. Qed.

Theorem read_warning_local : forall c ts w tr s, 0 < w ->
  on_content c = true -> e2w c = true -> (forall t, In t ts -> exists v, t_func t = FRet v) ->
  run w (map (task_result c) ts) init tr = Some s -> final (map (task_result c) ts) s ->
  observed (map (task_result c) ts) s = (map warn_value ts, None).
Proof.
  intros c ts w tr s Hw Hoc Hew Hf H Hfin. rewrite <- (read_warnings_local c ts Hoc Hew Hf).
  exact (inv_final_observed w _ s (reachable_inv w _ tr s Hw H) Hfin).
Qed.

Theorem function_error_is_never_a_warning : forall c t e,
  bundle_read (t_read t) = RdOk -> t_func t = FRaise e -> task_result c t = Err e.
Proof. exact func_error_propagates. Qed.

(* map(): Executor.map = the same system with an unbounded queue (every file submitted before the
   first result is taken); whatever the completion order, the list is `spec rs`.  That the executor of
   the standard library behaves like this system is the hypothesis the correspondence run exercises. *)
Theorem map_in_order : forall rs tr s,
  run (map_width rs) rs init tr = Some s -> final rs s -> observed rs s = spec rs.
Proof.
  intros rs tr s H Hf.
  assert (Hw : 0 < map_width rs) by (unfold map_width; lia).
  exact (inv_final_observed _ rs s (reachable_inv _ rs tr s Hw H) Hf).
Qed.

(* collect(): the contents in file order, None contents dropped; an exception propagates.
   Guard: as the code is, collect() raises ValueError (CEmpty) when nothing is left. *)
Theorem collect_drops_none : forall rs, (forall r, In r rs -> is_err r = false) ->
  collect_model rs = match contents_from 0 rs with [] => CEmpty | l => CList l end
  /\ StronglySorted lt (map fst (contents_from 0 rs))
  /\ (forall i c, In (i, c) (contents_from 0 rs) <-> nth_res rs i = Ok (Some c)).
Proof.
  intros rs H. split; [exact (collect_noerr rs H)|]. split; [exact (contents_from_sorted rs 0)|].
  intros i c. rewrite (contents_from_In rs 0 i c), Nat.sub_0_r. split; [intros (_ & X); exact X|].
  intros X. split; [lia|exact X].
Qed.

Theorem collect_error_propagates : forall pre e post, (forall r, In r pre -> is_err r = false) ->
  collect_model (pre ++ Err e :: post) = CRaise e.
Proof. exact collect_err. Qed.

(* align(): the loop never raises AlignError, takes from the secondary loader exactly the unique
   secondaries in order of first appearance (each read once), consumes the loader completely ... *)
Theorem align_loads_once_in_order : forall matches,
  let s := align_model matches in
  aerr s = false /\ loads s = uniq_first (concat matches) /\ NoDup (loads s) /\ loader s = [].
Proof.
  intros matches. cbn zeta. unfold align_model.
  destruct (align_final (uses_of matches)) as (H1 & H2 & H3 & _ & _).
  unfold uses_of in *. rewrite secs_uses_from in H2.
  split; [exact H1|]. split; [exact H2|]. split; [rewrite H2; apply uniq_acc_NoDup|exact H3].
Qed.

(* ... hands every matched secondary to each primary that needs it, in order ... *)
Theorem align_delivers_all : forall matches, deliv (align_model matches) = uses_of matches.
Proof.
  intros matches. unfold align_model.
  destruct (align_final (uses_of matches)) as (_ & _ & _ & _ & H). exact H.
Qed.

(* ... and at every point of the loop the cache holds exactly the secondaries already used that a later
   pair still needs; it is empty at the end. *)
Theorem align_evicts_after_last_use : forall matches pre post, uses_of matches = pre ++ post ->
  (forall x, In x (cache (fold_left use_secondary pre (align_init (uses_of matches))))
             <-> (In x (secs pre) /\ 0 < cnt x (secs post)))
  /\ cache (align_model matches) = [].
Proof.
  intros matches pre post H. split.
  - destruct (align_prefix_inv (uses_of matches) pre post H) as (seen & Hi). exact (ai_cache _ _ _ _ _ Hi).
  - unfold align_model. destruct (align_final (uses_of matches)) as (_ & _ & _ & Hc & _). exact Hc.
Qed.

(* ------------------------------------------------------------------ non-vacuity *)

(* five files, two workers; file 1 cannot be read (warning), the function returns None for file 2;
   the scheduler tries to complete the tasks in the order 3,2,1,0,4.  The trace is accepted, ends in
   a final state and shows the values in file order.  With error_to_warning off the read error of
   file 1 reaches the caller after the value of file 0. *)
Example nonvacuous_imap :
  let ts := [mk_task [-1] 0 100; mk_task [7] 0 101; mk_task [-1] 1 0; mk_task [-1] 0 103; mk_task [-1] 0 104]%Z in
  let rs := results true true ts in
  let tr := schedule 24 2 rs [3; 2; 1; 0; 4] init in
  length tr = 15 /\
  (exists s, run 2 rs init tr = Some s /\ final rs s /\ length (done s) = 5
             /\ observed rs s = ([Some 100; None; None; Some 103; Some 104]%Z, None)) /\
  let rs' := results true false ts in
  let tr' := schedule 24 2 rs' [3; 2; 1; 0; 4] init in
  (exists s, run 2 rs' init tr' = Some s /\ final rs' s /\ observed rs' s = ([Some 100]%Z, Some 7%Z)) /\
  (* a schedule in which a later task really finishes first *)
  nth 2 tr (Yield 0) = Complete 1 /\ nth 3 tr (Yield 0) = Complete 0.
Proof.
  cbn zeta. split; [vm_compute; reflexivity|]. split.
  - eexists. split; [vm_compute; reflexivity|]. vm_compute. repeat split.
  - split; [|vm_compute; split; reflexivity].
    eexists. split; [vm_compute; reflexivity|]. vm_compute. repeat split.
Qed.

Example nonvacuous_align :
  let m := [[0; 1]; [1; 2]; [2; 0]; [3; 3]] in
  loads (align_model m) = [0; 1; 2; 3] /\ maxcache (align_model m) = 2 /\
  uses_of m = [(0, 0); (0, 1); (1, 1); (1, 2); (2, 2); (2, 0); (3, 3); (3, 3)] /\
  collect_model [Ok (Some 5%Z); ReadWarn; Ok None; Ok (Some 8%Z)] = CList [(0, 5%Z); (3, 8%Z)].
Proof. vm_compute. repeat split. Qed.

Print Assumptions imap_inv.
Print Assumptions imap_in_order.
Print Assumptions imap_all_files_in_order.
Print Assumptions imap_bounded.
Print Assumptions imap_exactly_once.
Print Assumptions imap_progress.
Print Assumptions imap_terminates.
Print Assumptions error_propagates.
Print Assumptions only_read_errors_become_warnings.
Print Assumptions read_warning_local.
Print Assumptions function_error_is_never_a_warning.
Print Assumptions map_in_order.
Print Assumptions collect_drops_none.
Print Assumptions collect_error_propagates.
Print Assumptions align_loads_once_in_order.
Print Assumptions align_delivers_all.
Print Assumptions align_evicts_after_last_use.
