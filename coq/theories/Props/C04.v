(* C04 -- property theorems. This file holds ONLY statements, `exact <lemma>`, non-vacuity examples and
   Print Assumptions, so that the statements cannot be weakened quietly.

   Reading guide (Model/C04_collocate.v).  A point is {pid; ptime [ns]; ppos : option P} (None = NaN latitude
   or longitude); a dataset is `Flat points` (time/lat/lon on one dimension) or `Grid lines` (time per scan
   line, positions per scan position).  `collocate tn st c dp ds` is the code of Collocator.collocate after
   fixes/C04_1..5: tn = tuning (bin width bin_factor*max_interval, bin origin, magnitude_factor, size
   threshold of the binned path), st = what the Collocator object remembers from earlier calls (kept index and
   side), c = (max_interval [ns], start, end).  It returns the new state and None or the compact result;
   `ids_opt` lists the pairs of a result by the ids of the data they carry.  `spec_pairs` is the brute-force
   definition: filter over the full product of all points.
   Section variables (external components): near = "straight-line distance <= max_distance" (GeoIndex.query
   with a correct tree, see Props/C06.v), dist = the distance reported next to a pair, ctest = the test
   that decides whether the kept index is reused.  Hypotheses: near/dist symmetric; ctest accepts only the
   very same points (true of np.array_equal, fixes/C04_2; false of np.allclose, see asis_cache_refuted);
   max_interval a whole number of seconds; bin width positive. *)
From Coq Require Import ZArith List Bool Lia.
From Typhon Require Import Model.C13_compact Model.C04_collocate Proofs.C04_collocate.
Import ListNotations.
Open Scope Z_scope.

(* The pairs reported are exactly the pairs (p, s) within distance, with |t_p - t_s| < max_interval and both
   times within [start, end]; None stands for the empty set.  For every tuning (bin_factor, bin origin,
   magnitude_factor, direct or temporally pre-binned path), every state left behind by earlier calls, flat
   and gridded layouts, NaN positions, unsorted and duplicate times. *)
Theorem pairs_exact :
  forall (P D : Type) (near : P -> P -> bool) (dist : P -> P -> D) (ctest : list P -> list P -> bool),
  (forall a b, near a b = near b a) -> (forall a b, dist a b = dist b a) ->
  (forall a b, ctest a b = true -> a = b) ->
  forall tn st c dp ds, whole_seconds (mi c) -> 0 < bw tn ->
  set_eq (ids_opt P D (snd (collocate P D near dist ctest tn st c dp ds))) (spec_pairs P near c dp ds).
Proof. exact collocate_exact. Qed.

(* None exactly when there is no such pair (a result that exists has at least one pair) *)
Theorem none_iff_no_pair :
  forall (P D : Type) (near : P -> P -> bool) (dist : P -> P -> D) (ctest : list P -> list P -> bool),
  (forall a b, near a b = near b a) -> (forall a b, dist a b = dist b a) ->
  (forall a b, ctest a b = true -> a = b) ->
  forall tn st c dp ds, whole_seconds (mi c) -> 0 < bw tn ->
  (snd (collocate P D near dist ctest tn st c dp ds) = None <-> spec_pairs P near c dp ds = []).
Proof. exact none_iff_empty. Qed.

(* the same set for every bin_factor, bin origin, magnitude_factor, path threshold and Collocator state *)
Theorem invariant_under_tuning :
  forall (P D : Type) (near : P -> P -> bool) (dist : P -> P -> D) (ctest : list P -> list P -> bool),
  (forall a b, near a b = near b a) -> (forall a b, dist a b = dist b a) ->
  (forall a b, ctest a b = true -> a = b) ->
  forall tn1 tn2 st1 st2 c dp ds, whole_seconds (mi c) -> 0 < bw tn1 -> 0 < bw tn2 ->
  set_eq (ids_opt P D (snd (collocate P D near dist ctest tn1 st1 c dp ds)))
         (ids_opt P D (snd (collocate P D near dist ctest tn2 st2 c dp ds))).
Proof. exact tuning_history_invariant. Qed.

(* a reused Collocator with ANY history of earlier calls answers like a fresh one *)
Theorem history_independent :
  forall (P D : Type) (near : P -> P -> bool) (dist : P -> P -> D) (ctest : list P -> list P -> bool),
  (forall a b, near a b = near b a) -> (forall a b, dist a b = dist b a) ->
  (forall a b, ctest a b = true -> a = b) ->
  forall (h : list (call P)) tn c dp ds, whole_seconds (mi c) -> 0 < bw tn ->
  set_eq (ids_opt P D (snd (collocate P D near dist ctest tn (after_history P D near dist ctest h) c dp ds)))
         (ids_opt P D (snd (collocate P D near dist ctest tn (init_state P) c dp ds))).
Proof.
  intros P D near dist ctest H1 H2 H3 h tn c dp ds Hw Hb.
  apply tuning_history_invariant; assumption.
Qed.

(* swapping primary and secondary transposes the set *)
Theorem transpose :
  forall (P D : Type) (near : P -> P -> bool) (dist : P -> P -> D) (ctest : list P -> list P -> bool),
  (forall a b, near a b = near b a) -> (forall a b, dist a b = dist b a) ->
  (forall a b, ctest a b = true -> a = b) ->
  forall tn1 tn2 st1 st2 c dp ds, whole_seconds (mi c) -> 0 < bw tn1 -> 0 < bw tn2 ->
  forall a b, In (a, b) (ids_opt P D (snd (collocate P D near dist ctest tn1 st1 c ds dp))) <->
              In (b, a) (ids_opt P D (snd (collocate P D near dist ctest tn2 st2 c dp ds))).
Proof. exact transposed. Qed.

(* the code compares second-truncated differences with max_interval; for whole seconds that is |dt| < max_interval *)
Theorem trunc_check_equiv : forall m t1 t2, whole_seconds m -> passes m t1 t2 = (Z.abs (t1 - t2) <? m).
Proof. exact passes_whole. Qed.

(* the spatial search alone: whichever side the index is built from and whatever index is kept, exactly the
   near pairs, each entry carrying the distance of its own pair *)
Theorem search_exact_any_cache :
  forall (P D : Type) (near : P -> P -> bool) (dist : P -> P -> D) (ctest : list P -> list P -> bool),
  (forall a b, near a b = near b a) -> (forall a b, dist a b = dist b a) ->
  (forall a b, ctest a b = true -> a = b) ->
  forall mf st L1 L2 x, In x (snd (spatial_search P D near dist ctest mf st L1 L2)) <->
    exists a b, nth_error L1 (fst (fst x)) = Some a /\ nth_error L2 (snd (fst x)) = Some b /\
                near a b = true /\ snd x = dist a b.
Proof. exact spatial_search_spec. Qed.

(* the test of fixes/C04_2 (np.array_equal) meets the hypothesis on ctest *)
Theorem array_equal_test_sound : forall (P : Type) (eqb : P -> P -> bool),
  (forall a b, eqb a b = true -> a = b) -> forall a b, list_eqb eqb a b = true -> a = b.
Proof. intros P. exact list_eqb_sound. Qed.

(* The code AS FOUND (np.allclose as cache test) does not have the property: positions on a line, near =
   within 10, close = within 3.  First call: primary at 0, secondary at 12 (no pair).  Second call on the
   same object: secondary at 10.  The kept index (12) is reused: no pair; the specification has one. *)
Definition ex_near (a b : Z) : bool := Z.abs (a - b) <=? 10.
Definition ex_dist (a b : Z) : Z := Z.abs (a - b).
Definition ex_close (a b : Z) : bool := Z.abs (a - b) <=? 3.
Definition ex_tn : tune := mk_tune (2 * sec) 0 10 1000000.
Definition ex_cfg : cfg := mk_cfg (2 * sec) (-1000 * sec) (1000 * sec).

Theorem asis_cache_refuted :
  let p := Flat [mk_pt 1 0 (Some 0)] in
  let s1 := Flat [mk_pt 2 0 (Some 12)] in
  let s2 := Flat [mk_pt 2 0 (Some 10)] in
  let st := fst (collocate Z Z ex_near ex_dist (allclose ex_close) ex_tn (init_state Z) ex_cfg p s1) in
  ids_opt Z Z (snd (collocate Z Z ex_near ex_dist (allclose ex_close) ex_tn st ex_cfg p s2)) = [] /\
  ids_opt Z Z (snd (collocate Z Z ex_near ex_dist (allclose ex_close) ex_tn (init_state Z) ex_cfg p s2)) = [(1, 2)] /\
  spec_pairs Z ex_near ex_cfg p s2 = [(1, 2)].
Proof. vm_compute. repeat split. Qed.

(* Non-vacuity: the hypotheses hold for a concrete instance (max_interval 2 s, exact equality as cache
   test), and the model computes the expected set on a grid x flat input with a NaN, unsorted and duplicate
   times, pairs exactly at max_interval (13-21, 14-21, 10-23: excluded), on the direct path and on the binned
   path (threshold 0, bin width 3 s), fresh and after an earlier call whose index is kept. *)
Definition ex_grid : dataset Z :=
  Grid [(5 * sec, [(10, Some 100); (11, None); (12, Some 300)]);
        (1 * sec + 500000000, [(13, Some 105); (14, Some 100); (15, Some 305)])].
Definition ex_flat : dataset Z :=
  Flat [mk_pt 20 (6 * sec) (Some 104); mk_pt 21 (3 * sec + 500000000) (Some 95); mk_pt 22 (1 * sec) (Some 300);
        mk_pt 23 (7 * sec) (Some 100); mk_pt 24 (1 * sec) None; mk_pt 25 (1 * sec) (Some 310)].
Definition ex_binned : tune := mk_tune (3 * sec) 0 10 (-1).
Definition zsort (l : list (Z * Z)) := isort (fun ab => fst ab * 1000 + snd ab) l.

Example nonvacuous :
  whole_seconds (mi ex_cfg) /\ 0 < bw ex_tn /\ 0 < bw ex_binned /\
  (forall a b, ex_near a b = ex_near b a) /\
  (forall a b, list_eqb Z.eqb a b = true -> a = b) /\
  let run tn st := zsort (ids_opt Z Z (snd (collocate Z Z ex_near ex_dist (list_eqb Z.eqb) tn st ex_cfg ex_grid ex_flat))) in
  let st1 := fst (collocate Z Z ex_near ex_dist (list_eqb Z.eqb) ex_binned (init_state Z) ex_cfg ex_flat ex_grid) in
  let expected := [(10, 20); (10, 21); (15, 22); (15, 25)] in
  run ex_tn (init_state Z) = expected /\ run ex_binned (init_state Z) = expected /\
  run ex_tn st1 = expected /\ run ex_binned st1 = expected /\
  zsort (spec_pairs Z ex_near ex_cfg ex_grid ex_flat) = expected.
Proof.
  split; [exists 2; reflexivity|]. split; [reflexivity|]. split; [reflexivity|].
  split; [intros a b; unfold ex_near; f_equal; lia|].
  split; [apply list_eqb_sound; intros a b; apply Z.eqb_eq|].
  vm_compute. repeat split.
Qed.

(* Stated in the property, checked on every generated case by the correspondence, NOT proved here:
   each_pair_once : NoDup (map pid (points_of dp)) -> NoDup (map pid (points_of ds)) -> NoDup (ids_opt ... (collocate ...))
   values_are_of_the_pair : the k-th interval is |t_p - t_s| / 1 s (truncated) and the k-th distance is
                            dist of the positions of the k-th pair (model: create_return maps both from the
                            same list of entries; search_exact_any_cache gives the distance of each entry). *)

Print Assumptions pairs_exact.
Print Assumptions none_iff_no_pair.
Print Assumptions invariant_under_tuning.
Print Assumptions history_independent.
Print Assumptions transpose.
Print Assumptions trunc_check_equiv.
Print Assumptions search_exact_any_cache.
Print Assumptions array_equal_test_sound.
Print Assumptions asis_cache_refuted.
