(* C04 -- property theorems. This file holds ONLY statements, `exact <lemma>`, non-vacuity examples and
   Print Assumptions, so that the statements cannot be weakened quietly.

   Reading guide (Model/C04_collocate.v).  A point is {pid; ptime [ns]; ppos : option P} (None = NaN latitude
   or longitude); a dataset is `Flat points` (time/lat/lon on one dimension) or `Grid lines` (time per scan
   line, positions per scan position).  `collocate tn st c dp ds` is the code of Collocator.collocate after
   fixes/C04_1..5: tn = tuning (bin width bin_factor*max_interval, bin origin, magnitude_factor, size
   threshold of the binned path), st = what the Collocator object remembers from earlier calls (kept index and
   side), c = (max_interval [ns], start, end).  It returns the new state and None or the compact result;
   `ids_opt` lists the pairs of a result by the ids of the data they carry.  `spec_pairs` is the brute-force
   definition: filter over the full product of all points.
   Section variables (external components): near = "straight-line distance <= max_distance" (GeoIndex.query
   with a correct tree, see Props/C06.v), dist = the distance reported next to a pair, ctest = the test
   that decides whether the kept index is reused.  Hypotheses: near/dist symmetric; ctest accepts only the
   very same points (true of np.array_equal, fixes/C04_2; false of np.allclose, see asis_cache_refuted);
   max_interval a whole number of seconds; bin width positive.
   The second half of the file (each_index_pair_once ...) states the clauses "each pair once" and "the stored
   interval and distance of each pair are its actual |dt| in seconds and distance", and the compaction. *)
From Coq Require Import ZArith List Bool Lia.
From Typhon Require Import Model.C13_compact Model.C04_collocate Proofs.C04_collocate.
Import ListNotations.
Open Scope Z_scope.

(* The pairs reported are exactly the pairs (p, s) within distance, with |t_p - t_s| < max_interval and both
   times within [start, end]; None stands for the empty set.  For every tuning (bin_factor, bin origin,
   magnitude_factor, direct or temporally pre-binned path), every state left behind by earlier calls, flat
   and gridded layouts, NaN positions, unsorted and duplicate times. *)
Theorem pairs_exact :
  forall (P D : Type) (near : P -> P -> bool) (dist : P -> P -> D) (ctest : list P -> list P -> bool),
  (forall a b, near a b = near b a) -> (forall a b, dist a b = dist b a) ->
  (forall a b, ctest a b = true -> a = b) ->
  forall tn st c dp ds, whole_seconds (mi c) -> 0 < bw tn ->
  set_eq (ids_opt P D (snd (collocate P D near dist ctest tn st c dp ds))) (spec_pairs P near c dp ds).
Proof. exact collocate_exact. Qed.

(* None exactly when there is no such pair (a result that exists has at least one pair) *)
Theorem none_iff_no_pair :
  forall (P D : Type) (near : P -> P -> bool) (dist : P -> P -> D) (ctest : list P -> list P -> bool),
  (forall a b, near a b = near b a) -> (forall a b, dist a b = dist b a) ->
  (forall a b, ctest a b = true -> a = b) ->
  forall tn st c dp ds, whole_seconds (mi c) -> 0 < bw tn ->
  (snd (collocate P D near dist ctest tn st c dp ds) = None <-> spec_pairs P near c dp ds = []).
Proof. exact none_iff_empty. Qed.

(* the same set for every bin_factor, bin origin, magnitude_factor, path threshold and Collocator state *)
Theorem invariant_under_tuning :
  forall (P D : Type) (near : P -> P -> bool) (dist : P -> P -> D) (ctest : list P -> list P -> bool),
  (forall a b, near a b = near b a) -> (forall a b, dist a b = dist b a) ->
  (forall a b, ctest a b = true -> a = b) ->
  forall tn1 tn2 st1 st2 c dp ds, whole_seconds (mi c) -> 0 < bw tn1 -> 0 < bw tn2 ->
  set_eq (ids_opt P D (snd (collocate P D near dist ctest tn1 st1 c dp ds)))
         (ids_opt P D (snd (collocate P D near dist ctest tn2 st2 c dp ds))).
Proof. exact tuning_history_invariant. Qed.

(* a reused Collocator with ANY history of earlier calls answers like a fresh one *)
Theorem history_independent :
  forall (P D : Type) (near : P -> P -> bool) (dist : P -> P -> D) (ctest : list P -> list P -> bool),
  (forall a b, near a b = near b a) -> (forall a b, dist a b = dist b a) ->
  (forall a b, ctest a b = true -> a = b) ->
  forall (h : list (call P)) tn c dp ds, whole_seconds (mi c) -> 0 < bw tn ->
  set_eq (ids_opt P D (snd (collocate P D near dist ctest tn (after_history P D near dist ctest h) c dp ds)))
         (ids_opt P D (snd (collocate P D near dist ctest tn (init_state P) c dp ds))).
Proof.
  intros P D near dist ctest H1 H2 H3 h tn c dp ds Hw Hb.
  apply tuning_history_invariant; assumption.
Qed.

(* swapping primary and secondary transposes the set *)
Theorem transpose :
  forall (P D : Type) (near : P -> P -> bool) (dist : P -> P -> D) (ctest : list P -> list P -> bool),
  (forall a b, near a b = near b a) -> (forall a b, dist a b = dist b a) ->
  (forall a b, ctest a b = true -> a = b) ->
  forall tn1 tn2 st1 st2 c dp ds, whole_seconds (mi c) -> 0 < bw tn1 -> 0 < bw tn2 ->
  forall a b, In (a, b) (ids_opt P D (snd (collocate P D near dist ctest tn1 st1 c ds dp))) <->
              In (b, a) (ids_opt P D (snd (collocate P D near dist ctest tn2 st2 c dp ds))).
Proof. exact transposed. Qed.

(* the code compares second-truncated differences with max_interval; for whole seconds that is |dt| < max_interval *)
Theorem trunc_check_equiv : forall m t1 t2, whole_seconds m -> passes m t1 t2 = (Z.abs (t1 - t2) <? m).
Proof. exact passes_whole. Qed.

(* the spatial search alone: whichever side the index is built from and whatever index is kept, exactly the
   near pairs, each entry carrying the distance of its own pair *)
Theorem search_exact_any_cache :
  forall (P D : Type) (near : P -> P -> bool) (dist : P -> P -> D) (ctest : list P -> list P -> bool),
  (forall a b, near a b = near b a) -> (forall a b, dist a b = dist b a) ->
  (forall a b, ctest a b = true -> a = b) ->
  forall mf st L1 L2 x, In x (snd (spatial_search P D near dist ctest mf st L1 L2)) <->
    exists a b, nth_error L1 (fst (fst x)) = Some a /\ nth_error L2 (snd (fst x)) = Some b /\
                near a b = true /\ snd x = dist a b.
Proof. exact spatial_search_spec. Qed.

(* the test of fixes/C04_2 (np.array_equal) meets the hypothesis on ctest *)
Theorem array_equal_test_sound : forall (P : Type) (eqb : P -> P -> bool),
  (forall a b, eqb a b = true -> a = b) -> forall a b, list_eqb eqb a b = true -> a = b.
Proof. intros P. exact list_eqb_sound. Qed.

(* The code AS FOUND (np.allclose as cache test) does not have the property: positions on a line, near =
   within 10, close = within 3.  First call: primary at 0, secondary at 12 (no pair).  Second call on the
   same object: secondary at 10.  The kept index (12) is reused: no pair; the specification has one. *)
Definition ex_near (a b : Z) : bool := Z.abs (a - b) <=? 10.
Definition ex_dist (a b : Z) : Z := Z.abs (a - b).
Definition ex_close (a b : Z) : bool := Z.abs (a - b) <=? 3.
Definition ex_tn : tune := mk_tune (2 * sec) 0 10 1000000.
Definition ex_cfg : cfg := mk_cfg (2 * sec) (-1000 * sec) (1000 * sec).

Theorem asis_cache_refuted :
  let p := Flat [mk_pt 1 0 (Some 0)] in
  let s1 := Flat [mk_pt 2 0 (Some 12)] in
  let s2 := Flat [mk_pt 2 0 (Some 10)] in
  let st := fst (collocate Z Z ex_near ex_dist (allclose ex_close) ex_tn (init_state Z) ex_cfg p s1) in
  ids_opt Z Z (snd (collocate Z Z ex_near ex_dist (allclose ex_close) ex_tn st ex_cfg p s2)) = [] /\
  ids_opt Z Z (snd (collocate Z Z ex_near ex_dist (allclose ex_close) ex_tn (init_state Z) ex_cfg p s2)) = [(1, 2)] /\
  spec_pairs Z ex_near ex_cfg p s2 = [(1, 2)].
Proof. vm_compute. repeat split. Qed.

(* Non-vacuity: the hypotheses hold for a concrete instance (max_interval 2 s, exact equality as cache
   test), and the model computes the expected set on a grid x flat input with a NaN, unsorted and duplicate
   times, pairs exactly at max_interval (13-21, 14-21, 10-23: excluded), on the direct path and on the binned
   path (threshold 0, bin width 3 s), fresh and after an earlier call whose index is kept. *)
Definition ex_grid : dataset Z :=
  Grid [(5 * sec, [(10, Some 100); (11, None); (12, Some 300)]);
        (1 * sec + 500000000, [(13, Some 105); (14, Some 100); (15, Some 305)])].
Definition ex_flat : dataset Z :=
  Flat [mk_pt 20 (6 * sec) (Some 104); mk_pt 21 (3 * sec + 500000000) (Some 95); mk_pt 22 (1 * sec) (Some 300);
        mk_pt 23 (7 * sec) (Some 100); mk_pt 24 (1 * sec) None; mk_pt 25 (1 * sec) (Some 310)].
Definition ex_binned : tune := mk_tune (3 * sec) 0 10 (-1).
Definition zsort (l : list (Z * Z)) := isort (fun ab => fst ab * 1000 + snd ab) l.

Example nonvacuous :
  whole_seconds (mi ex_cfg) /\ 0 < bw ex_tn /\ 0 < bw ex_binned /\
  (forall a b, ex_near a b = ex_near b a) /\
  (forall a b, list_eqb Z.eqb a b = true -> a = b) /\
  let run tn st := zsort (ids_opt Z Z (snd (collocate Z Z ex_near ex_dist (list_eqb Z.eqb) tn st ex_cfg ex_grid ex_flat))) in
  let st1 := fst (collocate Z Z ex_near ex_dist (list_eqb Z.eqb) ex_binned (init_state Z) ex_cfg ex_flat ex_grid) in
  let expected := [(10, 20); (10, 21); (15, 22); (15, 25)] in
  run ex_tn (init_state Z) = expected /\ run ex_binned (init_state Z) = expected /\
  run ex_tn st1 = expected /\ run ex_binned st1 = expected /\
  zsort (spec_pairs Z ex_near ex_cfg ex_grid ex_flat) = expected.
Proof.
  split; [exists 2; reflexivity|]. split; [reflexivity|]. split; [reflexivity|].
  split; [intros a b; unfold ex_near; f_equal; lia|].
  split; [apply list_eqb_sound; intros a b; apply Z.eqb_eq|].
  vm_compute. repeat split.
Qed.

(* ------------------------------------------------------------------ each pair once
   Reading guide.  `checked tn st c dp ds` = the rows pairs[:, passed_temporal_check] with their distances, as
   (index into the NaN-free primary points, index into the NaN-free secondary points, distance);
   `ipair` = the index pair of a row; `original_pairs` = the argument of _create_return (indices into the selected
   points `selected_p` / `selected_s`, NaN points counted); `pair_pts res` = the k-th pair of the output as the two
   stored points it names; `pos_dist p s` = Some (dist of their positions); `as_cds res` = the output as a compact
   dataset of Model/C13_compact.v (pairs rows + stored points of both groups). *)

(* No row is reported twice, on the direct and on the binned path, for every state of the Collocator: the
   search lists each index pair once whichever side the index is built from (the row swap is injective), a bin
   adds its offsets to rows of its own chunk, and a point of the binned dataset lies in one bin only - so no pair
   comes from two bins, however far the secondary slices [bin start - max_interval, bin max + max_interval] of
   neighbouring bins overlap. *)
Theorem each_index_pair_once :
  forall (P D : Type) (near : P -> P -> bool) (dist : P -> P -> D) (ctest : list P -> list P -> bool),
  (forall a b, near a b = near b a) -> (forall a b, dist a b = dist b a) ->
  (forall a b, ctest a b = true -> a = b) ->
  forall tn st c dp ds, 0 < bw tn ->
  NoDup (map (ipair D) (checked P D near dist ctest tn st c dp ds)).
Proof. exact checked_once. Qed.

(* each pair once, identified by the data it carries: ids unique within each dataset *)
Theorem each_pair_once :
  forall (P D : Type) (near : P -> P -> bool) (dist : P -> P -> D) (ctest : list P -> list P -> bool),
  (forall a b, near a b = near b a) -> (forall a b, dist a b = dist b a) ->
  (forall a b, ctest a b = true -> a = b) ->
  forall tn st c dp ds, 0 < bw tn ->
  NoDup (map pid (points_of P dp)) -> NoDup (map pid (points_of P ds)) ->
  NoDup (ids_opt P D (snd (collocate P D near dist ctest tn st c dp ds))).
Proof. exact pairs_once. Qed.

(* The three arrays stay aligned through the temporal filter, the row swap, the bin offsets, _to_original and the
   compaction: the k-th stored interval is |t_p - t_s| in whole seconds (truncated) and the k-th stored distance
   is the distance the index reports for the positions of exactly the two points (p, s) that the k-th column of
   Collocations/pairs names; these are points of the two inputs, and the id pair of row k is theirs. *)
Theorem values_are_of_the_pair :
  forall (P D : Type) (near : P -> P -> bool) (dist : P -> P -> D) (ctest : list P -> list P -> bool),
  (forall a b, near a b = near b a) -> (forall a b, dist a b = dist b a) ->
  (forall a b, ctest a b = true -> a = b) ->
  forall tn st c dp ds res, 0 < bw tn ->
  snd (collocate P D near dist ctest tn st c dp ds) = Some res ->
  r_int res = map (fun ps => Z.abs (ptime (fst ps) - ptime (snd ps)) / sec) (pair_pts P D res) /\
  map Some (r_dist res) = map (fun ps => pos_dist P D dist (fst ps) (snd ps)) (pair_pts P D res) /\
  Forall (fun ps => In (fst ps) (points_of P dp) /\ In (snd ps) (points_of P ds)) (pair_pts P D res) /\
  ids P D res = map (fun ps => (pid (fst ps), pid (snd ps))) (pair_pts P D res).
Proof. exact values_of_the_pair. Qed.

(* The compact output names exactly the reported pairs: it is a valid compact dataset (rows of equal length,
   every index in range, every stored point used - compact_ok of Model/C13_compact.v), expanding it gives the
   rows of original_pairs in their order, each as the two selected points it indexes, and each group stores the
   points of its row of original_pairs once, in the order of first appearance. *)
Theorem compaction_consistent :
  forall (P D : Type) (near : P -> P -> bool) (dist : P -> P -> D) (ctest : list P -> list P -> bool),
  (forall a b, near a b = near b a) -> (forall a b, dist a b = dist b a) ->
  (forall a b, ctest a b = true -> a = b) ->
  forall tn st c dp ds res, 0 < bw tn ->
  snd (collocate P D near dist ctest tn st c dp ds) = Some res ->
  let f1 := selected_p P c dp ds in let f2 := selected_s P c dp ds in
  let op := original_pairs P D near dist ctest tn st c dp ds in
  op <> [] /\
  Forall (fun ij => (fst ij < length f1)%nat /\ (snd ij < length f2)%nat) op /\
  compact_ok (as_cds P D res) /\
  expand (d0 P) (d0 P) (as_cds P D res) = map (fun ij => (nth (fst ij) f1 (d0 P), nth (snd ij) f2 (d0 P))) op /\
  r_prim res = gather (d0 P) (uniq (map fst op)) f1 /\ r_sec res = gather (d0 P) (uniq (map snd op)) f2.
Proof. exact compaction_ok. Qed.

(* None exactly when no row passes the temporal check (every code path that returns self.empty) *)
Theorem none_iff_no_row :
  forall (P D : Type) (near : P -> P -> bool) (dist : P -> P -> D) (ctest : list P -> list P -> bool),
  forall tn st c dp ds,
  snd (collocate P D near dist ctest tn st c dp ds) = None <-> original_pairs P D near dist ctest tn st c dp ds = [].
Proof. exact none_iff_no_original. Qed.

(* every original point is stored once: the ids stored in each group are distinct *)
Theorem stored_points_once :
  forall (P D : Type) (near : P -> P -> bool) (dist : P -> P -> D) (ctest : list P -> list P -> bool),
  (forall a b, near a b = near b a) -> (forall a b, dist a b = dist b a) ->
  (forall a b, ctest a b = true -> a = b) ->
  forall tn st c dp ds res, 0 < bw tn ->
  snd (collocate P D near dist ctest tn st c dp ds) = Some res ->
  NoDup (map pid (points_of P dp)) -> NoDup (map pid (points_of P ds)) ->
  NoDup (map pid (r_prim res)) /\ NoDup (map pid (r_sec res)).
Proof. exact stored_once. Qed.

(* The code does not carry rows (i, j, distance) but three arrays - pairs (2 x n), distances, intervals - and
   keeps them aligned by repeating each step on each array: the row swap exchanges the two rows of `pairs` only,
   the bin offsets are added per row, np.hstack runs over the list of pairs and over the list of distances, the
   mask of the temporal check is applied to pairs, intervals and distances separately.  `collocate_a`
   (Model/C04_collocate.v, Section Arrays) does exactly that; it returns the same state and the same result as
   `collocate`, so every theorem of this file is a theorem about the array form, and the correspondence
   evaluates the array form. *)
Theorem arrays_agree :
  forall (P D : Type) (near : P -> P -> bool) (dist : P -> P -> D) (ctest : list P -> list P -> bool),
  forall tn st c dp ds,
  collocate_a P D near dist ctest tn st c dp ds = collocate P D near dist ctest tn st c dp ds.
Proof. exact collocate_a_eq. Qed.

(* The checker the harness applies to what the implementation returned (pairs rows, stored ids): a passed
   check means a valid compact dataset with distinct stored ids, and the third component is its expansion ... *)
Theorem checker_sound :
  forall prow srow pids sids e, check_output prow srow pids sids = (true, true, e) ->
  compact_ok (mk_cds (ns prow) (ns srow) pids sids) /\ NoDup pids /\ NoDup sids /\
  e = expand 0 0 (mk_cds (ns prow) (ns srow) pids sids).
Proof. exact checker_sound_l. Qed.

(* ... and every output of the model passes, with its own id pairs: a rejected output differs from the model *)
Theorem checker_accepts_model :
  forall (P D : Type) (near : P -> P -> bool) (dist : P -> P -> D) (ctest : list P -> list P -> bool),
  (forall a b, near a b = near b a) -> (forall a b, dist a b = dist b a) ->
  (forall a b, ctest a b = true -> a = b) ->
  forall tn st c dp ds res, 0 < bw tn ->
  NoDup (map pid (points_of P dp)) -> NoDup (map pid (points_of P ds)) ->
  snd (collocate P D near dist ctest tn st c dp ds) = Some res ->
  check_output (zs (r_prow res)) (zs (r_srow res)) (map pid (r_prim res)) (map pid (r_sec res)) = (true, true, ids P D res).
Proof. exact checker_accepts. Qed.

(* Non-vacuity of the new hypotheses on the instance of `nonvacuous` (ids distinct, a result exists), direct and
   binned path, fresh and after an earlier call with the datasets swapped: rows (id pair, interval [s], distance),
   the pairs rows, the stored ids, and original_pairs with the ids of the selected points they index. *)
Definition ex_rows (r : option (result Z Z)) : list (Z * Z * Z * Z) :=
  match r with None => [] | Some x => combine (combine (ids Z Z x) (r_int x)) (r_dist x) end.
Definition ex_compact (r : option (result Z Z)) : list nat * list nat * list Z * list Z :=
  match r with None => ([], [], [], []) | Some x => (r_prow x, r_srow x, map pid (r_prim x), map pid (r_sec x)) end.

Example nonvacuous_values :
  NoDup (map pid (points_of Z ex_grid)) /\ NoDup (map pid (points_of Z ex_flat)) /\
  let run tn st := snd (collocate Z Z ex_near ex_dist (list_eqb Z.eqb) tn st ex_cfg ex_grid ex_flat) in
  let st1 := fst (collocate Z Z ex_near ex_dist (list_eqb Z.eqb) ex_binned (init_state Z) ex_cfg ex_flat ex_grid) in
  let rows := [(15, 22, 0, 5); (15, 25, 0, 5); (10, 21, 1, 5); (10, 20, 1, 4)] in
  let comp := ([0; 0; 1; 1]%nat, [0; 1; 2; 3]%nat, [15; 10], [22; 25; 21; 20]) in
  ex_rows (run ex_tn (init_state Z)) = rows /\ ex_rows (run ex_binned (init_state Z)) = rows /\
  isort (fun r => fst (fst (fst r)) * 1000 + snd (fst (fst r))) (ex_rows (run ex_tn st1)) =
    [(10, 20, 1, 4); (10, 21, 1, 5); (15, 22, 0, 5); (15, 25, 0, 5)] /\
  ex_compact (run ex_tn (init_state Z)) = comp /\ ex_compact (run ex_binned (init_state Z)) = comp /\
  original_pairs Z Z ex_near ex_dist (list_eqb Z.eqb) ex_binned (init_state Z) ex_cfg ex_grid ex_flat
    = [(2, 0); (2, 2); (3, 3); (3, 4)]%nat /\
  map pid (selected_p Z ex_cfg ex_grid ex_flat) = [13; 14; 15; 10; 11; 12] /\
  map pid (selected_s Z ex_cfg ex_grid ex_flat) = [22; 24; 25; 21; 20; 23].
Proof.
  split; [apply nodupZ_iff; reflexivity|]. split; [apply nodupZ_iff; reflexivity|].
  vm_compute. repeat split.
Qed.

Print Assumptions pairs_exact.
Print Assumptions none_iff_no_pair.
Print Assumptions invariant_under_tuning.
Print Assumptions history_independent.
Print Assumptions transpose.
Print Assumptions trunc_check_equiv.
Print Assumptions search_exact_any_cache.
Print Assumptions array_equal_test_sound.
Print Assumptions asis_cache_refuted.
Print Assumptions each_index_pair_once.
Print Assumptions each_pair_once.
Print Assumptions values_are_of_the_pair.
Print Assumptions compaction_consistent.
Print Assumptions none_iff_no_row.
Print Assumptions stored_points_once.
Print Assumptions arrays_agree.
Print Assumptions checker_sound.
Print Assumptions checker_accepts_model.
