(* C15 -- property theorems. This file holds ONLY statements, `exact <lemma>`, non-vacuity
   examples and Print Assumptions, so that the statements cannot be weakened quietly.

   The theorems about restarts and truncation come twice: for any codec `render` / `parse` with the
   hypothesis parse (render v) = Some v (and, for truncation, that no proper prefix of a dumped
   list parses), and -- the `..._json` theorems at the end -- for the model of what the code really
   calls, json.dump / json.load of CPython with their default arguments (Model/C15_json.v: integers,
   strings with every escape incl. surrogate pairs, lists, dictionaries, null/true/false; floats are
   outside the modelled subset), for which both hypotheses are theorems (json_roundtrip,
   json_prefix_free).  POSIX rename is the atomic `Rename` primitive of the model.
   Everything else is proved. *)
From Coq Require Import ZArith List Bool.
From Typhon Require Import Model.C15_cache Proofs.C15_cache Model.C15_json Proofs.C15_json.
Import ListNotations.
Open Scope Z_scope.

(* If saving is interrupted after any number k of primitives (creating the backup, each write,
   closing, the rename), whatever the two files held before (also a stale backup of an earlier
   crash), the cache file is the previous one or the complete new document -- never a truncated or
   mixed one; it is the new one exactly when the last primitive was reached. *)
Theorem crash_safe : forall (A : Type) (k : nat) (doc : list A) (d : disk A),
  let d' := crash_after k (save_ops doc) d in
  (main d' = main d \/ main d' = Some doc) /\
  main d' = if (length (save_ops doc) <=? k)%nat then Some doc else main d.
Proof. intros A k doc d. split; [apply crash_safe_lemma|apply crash_main_exact]. Qed.

(* all sequences of saves, each completing or dying anywhere: the cache file always holds the
   document of the last save that ran to its end (or what was there at the start) *)
Theorem history_safe : forall (A : Type) (h : list (event A)) (d : disk A),
  main (run_history h d) = last_completed (main d) h.
Proof. intros A. exact history_safe_lemma. Qed.

(* strptime reads back what to_json_dict writes, for every datetime from datetime.min to
   datetime.max, to the microsecond *)
Theorem time_roundtrip : forall t, valid_time t = true -> parse_time (fmt_time t) = Some t.
Proof. exact parse_fmt_time. Qed.

(* the unchanged code (unpadded %Y): the round trip fails for every year below 1000, e.g.
   datetime.min, which every non-temporal fileset stores; from year 1000 on nothing differs *)
Theorem asis_time_roundtrip_refuted :
  (exists t, valid_time t = true /\ parse_time (fmt_time_asis t) = None) /\
  (forall t, 1 <= yr t < 1000 -> valid_time t = true -> parse_time (fmt_time_asis t) = None) /\
  (forall t, 1000 <= yr t -> fmt_time_asis t = fmt_time t).
Proof.
  split; [eexists; exact asis_min_unreadable|].
  split; [exact asis_short_below_1000|exact asis_same_from_1000].
Qed.

(* save_cache followed by a new FileSet with the same info_cache file restores every entry:
   same paths, same start and end times, same attributes, same order; no warning *)
Theorem save_load_roundtrip :
  forall (A : Type) (render : json -> list A) (parse : list A -> option json),
  (forall v, parse (render v) = Some v) ->
  forall c d, cache_ok c -> restart parse (save render c d) = (c, Quiet).
Proof. exact @save_load_roundtrip_lemma. Qed.

(* ... and after a save that died anywhere the new interpreter sees the old cache or the new one *)
Theorem crash_then_restart :
  forall (A : Type) (render : json -> list A) (parse : list A -> option json),
  (forall v, parse (render v) = Some v) ->
  forall k c d, cache_ok c ->
  let d' := crash_after k (save_ops (render (doc_of c))) d in
  restart parse d' = restart parse d \/ restart parse d' = (c, Quiet).
Proof. exact @crash_then_restart_lemma. Qed.

(* all sequences of save / crash / restart *)
Theorem history_restart :
  forall (A : Type) (render : json -> list A) (parse : list A -> option json),
  (forall v, parse (render v) = Some v) ->
  forall (h : list (cache * option nat)) (m : option cache) b,
  Forall (fun e => cache_ok (fst e)) h -> (forall c, m = Some c -> cache_ok c) ->
  restart parse (run_history (map (cache_event render) h)
                             {| main := option_map (fun c => render (doc_of c)) m; backup := b |})
  = match last_cache render m h with Some c => (c, Quiet) | None => ([], Quiet) end.
Proof. exact @history_restart_lemma. Qed.

(* A document that is not a sequence of complete entries leaves the cache exactly as it was and
   warns; a well-formed one adds exactly the entries it spells out.  Nothing in between: a bad last
   entry does not let the earlier ones in. *)
Theorem malformed_all_or_nothing : forall c0 v,
  (~ well_formed_doc v /\ load c0 v = (c0, Warned)) \/
  (exists l es, items v = Some l /\ Forall2 represents l es /\
                load c0 v = (update c0 (update [] es), Quiet)).
Proof. exact load_all_or_nothing_lemma. Qed.

Theorem malformed_warns : forall c0 v, ~ well_formed_doc v -> load c0 v = (c0, Warned).
Proof. exact load_malformed_lemma. Qed.

(* the kinds of damage of the statement: an element that is not an object, a missing key, times
   that are null / not strings / fewer than two, a time string strptime rejects -- anywhere in the
   list -- and a document that is a bare scalar *)
Theorem damaged_entry_rejected : forall c0 l j, In j l -> decode_entry j = None ->
  load c0 (JArr l) = (c0, Warned).
Proof. exact bad_entry_lemma. Qed.

Theorem damage_kinds : forall kv,
  decode_entry JNull = None /\ (forall b, decode_entry (JBool b) = None) /\ (forall n, decode_entry (JNum n) = None) /\
  (forall s, decode_entry (JStr s) = None) /\ (forall l, decode_entry (JArr l) = None) /\
  (get k_path kv = None -> decode_entry (JObj kv) = None) /\
  (get k_times kv = None -> decode_entry (JObj kv) = None) /\
  (get k_attr kv = None -> decode_entry (JObj kv) = None) /\
  (forall ts, get k_times kv = Some ts ->
     (forall s0 s1 rest, ts <> JArr (JStr s0 :: JStr s1 :: rest)) -> decode_entry (JObj kv) = None) /\
  (forall s0 s1 rest, get k_times kv = Some (JArr (JStr s0 :: JStr s1 :: rest)) ->
     parse_time s0 = None \/ parse_time s1 = None -> decode_entry (JObj kv) = None).
Proof. exact bad_entry_kinds. Qed.

(* no invented times: whatever is loaded is a valid datetime the document spells out *)
Theorem loaded_times_are_valid : forall j e, represents j e ->
  valid_time (e_t0 e) = true /\ valid_time (e_t1 e) = true.
Proof. exact loaded_times_valid. Qed.

(* a missing file: empty cache, silently; an unreadable one, one json.load rejects, one whose
   value is malformed: warning, cache untouched *)
Theorem damaged_file :
  forall (A : Type) (parse : list A -> option json) c0,
  load_file parse c0 Missing = (c0, Quiet) /\
  load_file parse c0 Unreadable = (c0, Warned) /\
  (forall b, parse b = None -> load_file parse c0 (Content b) = (c0, Warned)) /\
  (forall b v, parse b = Some v -> ~ well_formed_doc v -> load_file parse c0 (Content b) = (c0, Warned)).
Proof. exact @damaged_file_lemma. Qed.

(* truncation at any byte, given that json.load rejects every proper prefix of a dumped list *)
Theorem truncated_file :
  forall (A : Type) (render : json -> list A) (parse : list A -> option json),
  (forall l p, strict_prefix p (render (JArr l)) -> parse p = None) ->
  forall c0 c p, strict_prefix p (render (doc_of c)) -> load_file parse c0 (Content p) = (c0, Warned).
Proof. exact @truncated_lemma. Qed.

(* find() gives the same answers with or without the cache: as long as every cached entry is what
   get_info would work out for its path (true for the empty cache, kept by every get_info, and --
   by save_load_roundtrip -- by a restart), the search over any candidate list returns what it
   returns without a cache *)
Theorem find_same_with_cache : forall (info_of : json -> entry),
  (forall p, e_path (info_of p) = p) ->
  forall keep paths c, consistent info_of c ->
  fst (find_with info_of keep c paths) = filter keep (map info_of paths) /\
  consistent info_of (snd (find_with info_of keep c paths)).
Proof. exact find_same_lemma. Qed.

(* ---------------------------------------------------------------------------------------------
   the json module as it is: json_dump / json_load of Model/C15_json.v *)

(* json.load reads back what json.dump wrote, for every value of the subset: integers of any size,
   strings of code points 0..0x10FFFF in which no high surrogate is directly followed by a low one
   (lone surrogates are fine), lists, dictionaries with distinct string keys, null, true, false *)
Theorem json_roundtrip : forall v, in_subset v -> json_load (json_dump v) = Some v.
Proof. exact json_roundtrip_lemma. Qed.

(* no proper prefix of a dumped list is accepted -- whatever the list holds (no hypothesis on l):
   every truncation of a cache file, at any byte, is rejected by json.load *)
Theorem json_prefix_free : forall l p, strict_prefix p (json_dump (JArr l)) -> json_load p = None.
Proof. exact json_prefix_free_lemma. Qed.

(* why: whatever json.load accepts ends outside every string and with every bracket closed ... *)
Theorem json_load_accepts_closed_texts : forall s v, json_load s = Some v -> lex (LOut, 0) s = (LOut, 0).
Proof. exact json_load_balanced. Qed.

(* ... and a dumped list is at depth >= 1 from its first character up to, not including, its last *)
Theorem json_dump_list_open_until_end : forall l p q,
  p ++ q = json_dump (JArr l) -> p <> [] -> q <> [] -> 1 <= snd (lex (LOut, 0) p).
Proof. exact dump_arr_prefix_depth. Qed.

(* a cache that save_cache can hold (cache_ok) whose paths and attributes json can write and read
   back (in the subset); the times are digits and punctuation *)
Theorem cache_doc_in_subset : forall c, cache_json_ok c -> in_subset (doc_of c).
Proof. intros c [H1 H2]. exact (doc_in_subset c H1 H2). Qed.

(* save_load_roundtrip, crash_then_restart, history_restart, truncated_file with no hypothesis on
   the codec *)
Theorem save_load_roundtrip_json : forall c d, cache_json_ok c ->
  restart json_load (save json_dump c d) = (c, Quiet).
Proof. exact save_load_roundtrip_json_lemma. Qed.

Theorem crash_then_restart_json : forall k c d, cache_json_ok c ->
  let d' := crash_after k (save_ops (json_dump (doc_of c))) d in
  restart json_load d' = restart json_load d \/ restart json_load d' = (c, Quiet).
Proof. exact crash_then_restart_json_lemma. Qed.

Theorem history_restart_json : forall (h : list (cache * option nat)) (m : option cache) b,
  Forall (fun e => cache_json_ok (fst e)) h -> (forall c, m = Some c -> cache_json_ok c) ->
  restart json_load (run_history (map (cache_event json_dump) h)
                                 {| main := option_map (fun c => json_dump (doc_of c)) m; backup := b |})
  = match last_cache json_dump m h with Some c => (c, Quiet) | None => ([], Quiet) end.
Proof. exact history_restart_json_lemma. Qed.

(* truncation of the cache file at any byte: warning, cache untouched -- for EVERY cache c *)
Theorem truncated_file_json : forall c0 c p, strict_prefix p (json_dump (doc_of c)) ->
  load_file json_load c0 (Content p) = (c0, Warned).
Proof. exact truncated_json_lemma. Qed.

(* ---------------------------------------------------------------------------------------------
   non-vacuity: a toy json module (one atom per value) meets both hypotheses; a cache with
   datetime.min / datetime.max, microseconds, a leap day, user attributes is cache_ok; it survives
   a restart, every crash point, and a damaged document changes nothing. *)
Definition toy_render (v : json) : list json := [v].
Definition toy_parse (l : list json) : option json := match l with [v] => Some v | _ => None end.

Example toy_codec_ok :
  (forall v, toy_parse (toy_render v) = Some v) /\
  (forall l p, strict_prefix p (toy_render (JArr l)) -> toy_parse p = None).
Proof.
  split; [reflexivity|]. intros l p [r [Hr E]]. unfold toy_render in E.
  destruct p as [|x p]; [reflexivity|]. destruct p as [|y p]; [|reflexivity].
  inversion E as [[E1 E2]]. destruct r; [contradiction|discriminate].
Qed.

Definition ex_cache : cache :=
  [ mk_entry (JStr [47; 97]) [1; 1; 1; 0; 0; 0; 0] [9999; 12; 31; 23; 59; 59; 999999] (JObj []);
    mk_entry (JStr [47; 98]) [2016; 2; 29; 23; 59; 59; 1] [2016; 3; 1; 0; 0; 0; 0]
             (JObj [([115; 97; 116], JStr [120])]);
    mk_entry (JStr [47; 99]) [999; 12; 31; 0; 0; 0; 500000] [1000; 1; 1; 0; 0; 0; 0] (JObj []) ].

Example nonvacuous :
  cache_ok ex_cache /\
  restart toy_parse (save toy_render ex_cache {| main := None; backup := Some [JNull] |}) = (ex_cache, Quiet) /\
  map (fun d => main d) (prefix_states (save_ops [1; 2; 3]) {| main := Some [9]; backup := Some [7; 7] |})
    = [Some [9]; Some [9]; Some [9]; Some [9]; Some [9]; Some [9]; Some [1; 2; 3]] /\
  load ex_cache (JArr [entry_json (mk_entry (JStr [47; 100]) [2018; 1; 1; 0; 0; 0; 0] [2018; 1; 1; 0; 0; 0; 0] (JObj []));
                       JObj [(k_path, JStr [47; 101]); (k_times, JArr [JNull; JNull]); (k_attr, JObj [])]])
    = (ex_cache, Warned) /\
  ~ well_formed_doc (JObj [([120], JNull)]) /\
  parse_time (fmt_time_asis (mk_time [1; 1; 1; 0; 0; 0; 0])) = None.
Proof.
  split.
  { split.
    - repeat constructor; try reflexivity; eexists; reflexivity.
    - cbn. repeat constructor; cbn; intuition discriminate. }
  split; [vm_compute; reflexivity|].
  split; [vm_compute; reflexivity|].
  split; [vm_compute; reflexivity|].
  split; [|vm_compute; reflexivity].
  intros (l & es & Hi & Hr). cbn in Hi. inversion Hi; subst l.
  inversion Hr as [|j e l' es' Hrep _]; subst.
  destruct Hrep as (kv & s0 & s1 & rest & a & Hj & _). discriminate Hj.
Qed.


(* non-vacuity of the ..._json theorems: a cache whose paths hold a quote, a backslash, a newline,
   DEL, e acute, the euro sign, an astral character (U+1F600) and a lone surrogate (os.fsdecode), with
   nested user attributes and a 30-digit integer, is cache_json_ok; the bytes json_dump writes for a
   small cache are the ones a reader expects; the restart through json_load (json_dump ...) restores
   it; every proper prefix of the file is rejected; and the subset hypothesis of json_roundtrip is
   needed: two adjacent surrogate code points come back as one character. *)
Definition ex_json_cache : cache :=
  [ mk_entry (JStr [47; 34; 92; 10; 127; 233; 8364; 128512; 56448; 47; 97]) [1; 1; 1; 0; 0; 0; 0]
             [9999; 12; 31; 23; 59; 59; 999999]
             (JObj [([115; 97; 116], JStr [120]); ([110], JNum (-123456789012345678901234567890));
                    ([108], JArr [JNull; JBool true; JBool false; JNum 0; JObj []; JArr []])]);
    mk_entry (JStr [47; 98]) [2016; 2; 29; 23; 59; 59; 1] [2016; 3; 1; 0; 0; 0; 0] (JObj []) ].

Example nonvacuous_json :
  cache_json_ok ex_json_cache /\
  json_dump (doc_of [mk_entry (JStr [47; 34; 233]) [1; 1; 1; 0; 0; 0; 0] [2016; 2; 29; 23; 59; 59; 1] (JObj [([97], JNum (-7))])])
    = (* the text [{"path": "/\QUOTE\u00e9", "times": ["0001-01-01T00:00:00.000000", "2016-02-29T23:59:59.000001"], "attr": {"a": -7}}]
         with \QUOTE standing for backslash, double quote *)
      [91; 123; 34; 112; 97; 116; 104; 34; 58; 32; 34; 47; 92; 34; 92; 117; 48; 48; 101; 57; 34; 44; 32;
       34; 116; 105; 109; 101; 115; 34; 58; 32; 91;
       34; 48; 48; 48; 49; 45; 48; 49; 45; 48; 49; 84; 48; 48; 58; 48; 48; 58; 48; 48; 46; 48; 48; 48; 48; 48; 48; 34; 44; 32;
       34; 50; 48; 49; 54; 45; 48; 50; 45; 50; 57; 84; 50; 51; 58; 53; 57; 58; 53; 57; 46; 48; 48; 48; 48; 48; 49; 34; 93; 44; 32;
       34; 97; 116; 116; 114; 34; 58; 32; 123; 34; 97; 34; 58; 32; 45; 55; 125; 125; 93] /\
  restart json_load (save json_dump ex_json_cache {| main := None; backup := Some [1; 2] |}) = (ex_json_cache, Quiet) /\
  (let v := prefix_verdicts (json_dump (doc_of ex_json_cache)) in
   forallb negb (removelast v) = true /\ last v false = true /\ (300 <? length v)%nat = true) /\
  json_load (json_dump (JStr [55357; 56832])) = Some (JStr [128512]) /\
  json_load [32; 91; 49; 32; 44; 10; 34; 92; 117; 68; 56; 51; 68; 92; 117; 68; 69; 48; 48; 92; 47; 34; 93; 13] (* space [1 space , newline "\uD83D\uDE00\/"] carriage-return *)
    = Some (JArr [JNum 1; JStr [128512; 47]]).
Proof.
  split.
  { split.
    - split.
      + repeat constructor; try reflexivity; eexists; reflexivity.
      + cbn. repeat constructor; cbn; intuition discriminate.
    - apply cache_subsetb_spec. vm_compute. reflexivity. }
  split; [vm_compute; reflexivity|].
  split; [vm_compute; reflexivity|].
  split; [vm_compute; repeat split; reflexivity|].
  split; vm_compute; reflexivity.
Qed.

Print Assumptions crash_safe.
Print Assumptions history_safe.
Print Assumptions time_roundtrip.
Print Assumptions asis_time_roundtrip_refuted.
Print Assumptions save_load_roundtrip.
Print Assumptions crash_then_restart.
Print Assumptions history_restart.
Print Assumptions malformed_all_or_nothing.
Print Assumptions malformed_warns.
Print Assumptions damaged_entry_rejected.
Print Assumptions damage_kinds.
Print Assumptions loaded_times_are_valid.
Print Assumptions damaged_file.
Print Assumptions truncated_file.
Print Assumptions find_same_with_cache.
Print Assumptions json_roundtrip.
Print Assumptions json_prefix_free.
Print Assumptions json_load_accepts_closed_texts.
Print Assumptions json_dump_list_open_until_end.
Print Assumptions cache_doc_in_subset.
Print Assumptions save_load_roundtrip_json.
Print Assumptions crash_then_restart_json.
Print Assumptions history_restart_json.
Print Assumptions truncated_file_json.
