(* C05 -- property theorems. This file holds ONLY statements, `exact <lemma>`, non-vacuity examples and
   Print Assumptions.  Models: Model/C05_pipeline.v (collocate_filesets on top of C03's match_model),
   Model/C05_queue.v (the result queue between workers and parent, all interleavings) and Model/C05_queue_live.v
   (scheduler, measures and weaker parents used to state liveness and the role of the final drain);
   Model/C05_skips.v (the worker's loop over a flat pair list in which some pairs yield nothing at all, and the loop of
   seeded change C05-j whose final flush is guarded by processed == len(matches)). *)
From Coq Require Import ZArith List Bool Permutation.
From Typhon Require Import Model.C03_tree Model.C05_pipeline Model.C05_queue Model.C05_queue_live Model.C05_skips.
From Typhon Require Import Proofs.C05_bundle Proofs.C05_pipeline Proofs.C05_queue Proofs.C05_queue_live Proofs.C05_skips.
Import ListNotations.
Open Scope Z_scope.

Section WithCollocate.
  (* Collocator.collocate (property C04) and the spatial relation are parameters; what is assumed: collocate
     returns exactly the pairs of the given points that meet the criterion (both inside the period, closer in
     time than max_interval, spatially near), each once. *)
  Variable near : Z -> Z -> bool.
  Variable collocate : cfg -> list pt -> list pt -> cset.
  Hypothesis collocate_exact : forall c P S p s,
    In (p, s) (collocate c P S) <-> In p P /\ In s S /\ okpair near c p s = true.
  Hypothesis collocate_once : forall c P S, NoDup P -> NoDup S -> NoDup (collocate c P S).

  (* CORE: when every point is stored in exactly one file whose coverage contains its time and max_interval is a
     whole number of seconds, the collocations of the matched file pairs (find with the widened period, file
     coverages floored to seconds, secondaries widened by max_interval, centred interval tree of C03), taken
     together, are exactly the collocations of all data of A with all data of B -- each once. *)
  Theorem union_over_matches : forall c A B,
    0 <= mi c -> unique_points A -> unique_points B ->
    coverage_contains A -> coverage_contains B -> coverage_wf B ->
    Permutation (flat_map (coll_pair collocate c A B) (flat (matches c A B)))
                (collocate c (all_pts A) (all_pts B)).
  Proof. exact (union_over_matches_lemma near collocate collocate_exact collocate_once). Qed.

  (* the whole pipeline: matches split over min(k, #matches) workers by array_split, per worker the flat pairs,
     None results, the bundling state machine of the given mode and the final flush: summed over all workers and
     bundles exactly collocate(all A, all B), for EVERY process count k >= 1 and every bundle mode *)
  Theorem pipeline_exact : forall c k md A B, (0 < k)%nat ->
    0 <= mi c -> unique_points A -> unique_points B ->
    coverage_contains A -> coverage_contains B -> coverage_wf B ->
    Permutation (total collocate c k md None A B) (collocate c (all_pts A) (all_pts B)).
  Proof. exact (pipeline_exact_lemma near collocate collocate_exact collocate_once). Qed.

  (* ... hence the same multiset for any two process counts, bundle modes and splits of the same data into files *)
  Theorem independent_of_split_processes_bundle : forall c k k' md md' A A' B B',
    (0 < k)%nat -> (0 < k')%nat -> 0 <= mi c ->
    unique_points A -> unique_points B -> coverage_contains A -> coverage_contains B -> coverage_wf B ->
    unique_points A' -> unique_points B' -> coverage_contains A' -> coverage_contains B' -> coverage_wf B' ->
    Permutation (all_pts A) (all_pts A') -> Permutation (all_pts B) (all_pts B') ->
    Permutation (total collocate c k md None A B) (total collocate c k' md' None A' B').
  Proof. exact (independence_lemma near collocate collocate_exact collocate_once). Qed.

  (* skip_file_errors: an unreadable file (bad = (primary?, index among the found files)) removes exactly the
     collocations with a point of that file *)
  Theorem skip_errors_local : forall c k md bad A B, (0 < k)%nat -> 0 <= snd bad ->
    0 <= mi c -> unique_points A -> unique_points B ->
    coverage_contains A -> coverage_contains B -> coverage_wf B ->
    Permutation (total collocate c k md (Some bad) A B)
                (filter (fun ps => negb (in_bad_file c bad A B ps)) (collocate c (all_pts A) (all_pts B))).
  Proof. exact (skip_errors_local_lemma near collocate collocate_exact collocate_once). Qed.
End WithCollocate.

(* the bundling loop of _process_caller (None / primary / daily, any tags): every collocation set is handed to
   _save_and_return exactly once, in order, and never an empty bundle *)
Theorem bundling_lossless : forall md items,
  concat (map (@concat (pt * pt)) (loop md items [] None)) = concat (somes items).
Proof. exact bundling_lossless_lemma. Qed.

Theorem bundles_nonempty : forall md items, Forall (fun g => g <> []) (loop md items [] None).
Proof. exact bundles_nonempty_lemma. Qed.

(* BUNDLING WITH SKIPPED PAIRS.  res = one entry per file pair of the worker's flat list `matches`: the pair is skipped
   (align yields nothing: a file was unreadable and skip_file_errors is set), yields None, or yields a collocation set --
   in ARBITRARY positions.  The loop sees fewer items than pairs, tags the k-th yielded result with the primary of the
   k-th pair (`matches[processed]` lags behind) and `processed` never reaches len(matches); all the same the bundles
   handed to _save_and_return, the last cached one included, hold exactly the sets of the pairs that were not skipped,
   in order -- for every bundle mode. *)
Theorem bundling_lossless_with_skips : forall md (res : list (Z * pres)),
  concat (map (@concat (pt * pt)) (loop md (items_of res) [] None)) = concat (founds res).
Proof. exact bundling_lossless_with_skips_lemma. Qed.

(* ... and this IS the item list of a worker of the pipeline model (skip_errors_local is proved about it): the pairs of
   the unreadable file are PSkipped, the others PNone / PFound by collocate *)
Theorem worker_items_with_skips : forall collocate c bad A B ch,
  worker_items collocate c bad A B ch = items_of (worker_results collocate c bad A B ch).
Proof. exact worker_items_results. Qed.

(* the loop of seeded change C05-j (final flush inside the loop body, guarded by processed == len(matches)), exactly:
   without a skipped pair it is the real loop; with one it hands over everything but the worker's last bundle; and
   that bundle is not empty as soon as the worker found anything and bundling is on *)
Theorem guarded_final_flush_exact : forall md (res : list (Z * pres)),
  (has_skip res = false ->
     loop_counted md (length res) (items_of res) 0 [] None = loop md (items_of res) [] None) /\
  (has_skip res = true ->
     loop md (items_of res) [] None
     = loop_counted md (length res) (items_of res) 0 [] None ++ last_bundle md (items_of res)) /\
  (md <> MNone -> founds res <> [] -> last_bundle md (items_of res) <> []).
Proof. exact counted_flush_exact_lemma. Qed.

(* ... hence collocations are lost (a strict prefix comes out) for EVERY worker with a skipped pair, bundling and a
   result -- wherever the skipped pair is, whether or not the lost collocations have to do with the unreadable file *)
Theorem guarded_final_flush_loses : forall md (res : list (Z * pres)),
  has_skip res = true -> md <> MNone -> founds res <> [] -> Forall (fun s : cset => s <> []) (founds res) ->
  exists lost : cset, lost <> [] /\
    concat (map (@concat (pt * pt)) (loop_counted md (length res) (items_of res) 0 [] None)) ++ lost
    = concat (founds res).
Proof. exact counted_flush_loses_lemma. Qed.

(* np.array_split over k >= 1 workers is a partition of the match list into k consecutive chunks *)
Theorem array_split_partition : forall X k (l : list X), (0 < k)%nat ->
  concat (array_split k l) = l /\ length (array_split k l) = k.
Proof. intros X k l H. split; [apply array_split_concat_lemma|apply array_split_length_lemma]; exact H. Qed.

(* output to a fileset: what is read back is what was emitted PROVIDED the rendered names are pairwise distinct *)
Theorem file_output_lossless : forall (nm : cset -> Z * Z) (sets : list cset),
  NoDup (map nm sets) -> Permutation (map snd (write_all nm sets)) sets.
Proof. exact file_output_lossless_lemma. Qed.

(* ... and the code does nothing to make them distinct: two different sets with the same first/last primary time
   (one primary point with partners in two secondary files) get one name, the second write replaces the first
   (DESIGN section 6 #22, open finding F-C05-3) *)
Theorem same_name_overwrites : exists s1 s2 : cset, s1 <> s2 /\ name_of US s1 = name_of US s2 /\
  map snd (write_all (name_of US) [s1; s2]) = [s2].
Proof. exact output_collision_refuted. Qed.

(* the result queue, for EVERY interleaving of workers, feeder threads and the polling parent: when the parent has
   left its loop it has yielded exactly what the workers put, each once, and nothing is left in the queue *)
Theorem queue_exactly_once : forall cap items tr s,
  qrun cap (init items) tr = Some s -> pc s = Exited ->
  Permutation (yielded s) (concat items) /\ vis s = [] /\
  Forall (fun w => alive w = false /\ pend w = [] /\ infl w = []) (ws s).
Proof. exact queue_exactly_once_lemma. Qed.

Theorem queue_bounded : forall cap items tr s,
  qrun cap (init items) tr = Some s -> (occupied s <= cap)%nat.
Proof. exact queue_bounded_lemma. Qed.

Theorem queue_parent_never_stuck : forall cap items tr s, (0 < cap)%nat ->
  qrun cap (init items) tr = Some s -> pc s <> Exited -> exists a s', step cap s a = Some s'.
Proof. exact queue_progress_lemma. Qed.

(* LIVENESS.  From EVERY reachable state (whatever the workers, the feeder threads and the parent have done so far,
   queue of any capacity >= 1) a finite sequence of enabled actions leads to the parent's exit: the run of the explicit
   scheduler `sched` (feeders flush, the parent takes what is visible, workers put / end, the parent's final passes).
   Its length is bounded by the explicit measure mu s = 5 (4 #pending + 3 #in-flight + #alive + (1|2) #visible) +
   rank of the parent's position, and at the exit everything has been yielded. *)
Theorem queue_liveness : forall cap items tr s, (0 < cap)%nat ->
  qrun cap (init items) tr = Some s ->
  exists s', qrun cap s (sched_trace cap (mu s) s) = Some s' /\ pc s' = Exited /\
             (length (sched_trace cap (mu s) s) <= mu s)%nat /\
             Permutation (yielded s') (concat items) /\ vis s' = [].
Proof. exact queue_liveness_lemma. Qed.

(* no deadlock, for the system as a whole (queue_parent_never_stuck is about the parent alone): while the parent has
   not left, the scheduled action is enabled and strictly decreases mu *)
Theorem queue_no_deadlock : forall cap items tr s, (0 < cap)%nat ->
  qrun cap (init items) tr = Some s -> pc s <> Exited ->
  exists a s', sched s = Some a /\ step cap s a = Some s' /\ (mu s' < mu s)%nat.
Proof. exact queue_no_deadlock_lemma. Qed.

(* the measure at the start, in closed form *)
Theorem queue_measure_init : forall items,
  mu (init items) = (20 * length (concat items) + 5 * length items + match items with [] => 1 | _ => 3 end)%nat.
Proof. exact mu_init. Qed.

(* ... and for ANY run, however it is scheduled: every action other than the parent's polling (Snapshot / EmptyTrue)
   uses up one unit of work0; a run holds at most 3 #items + #workers + 1 of them -- the only thing that can go on for
   ever is the parent polling while a worker computes *)
Theorem queue_work_bounded : forall cap items tr s, qrun cap (init items) tr = Some s ->
  (work_actions tr + work0 s = 3 * length (concat items) + length items + 1)%nat.
Proof. exact queue_work_exact_init. Qed.

(* DRAIN NEEDED, exactly.  For the parent that leaves as soon as its snapshot shows no living worker (no drain after
   the last worker died), EVERY run that reaches the exit is a run tr0 of the real system to a state s0 in which no
   worker is alive and none has anything left, followed by Leave; what it fails to yield is exactly what is visible in
   the queue in s0 (at most cap items); it yields everything iff the queue is empty there; a non-empty queue in s0 is
   only possible right after the snapshot (pc = Drain) -- results made visible since the parent last found the queue
   empty; and when s0 is at the head of the loop the run is a run of the real parent. *)
Theorem drain_needed : forall cap items tr s,
  qrun_nodrain cap (init items) tr = Some s -> pc s = Exited ->
  exists tr0 s0, tr = tr0 ++ [Leave] /\ qrun cap (init items) tr0 = Some s0 /\ s = exit_now s0 /\
    run_flag s0 = false /\
    Forall (fun w => alive w = false /\ pend w = [] /\ infl w = []) (ws s0) /\
    Permutation (yielded s ++ vis s0) (concat items) /\
    (length (vis s0) <= cap)%nat /\
    (Permutation (yielded s) (concat items) <-> vis s0 = []) /\
    (vis s0 <> [] -> pc s0 = Drain) /\
    (pc s0 = Head -> qrun cap (init items) tr = Some s).
Proof. exact drain_needed_lemma. Qed.

(* ... and such a run exists for EVERY non-empty workload and every capacity (not only the single witness below): the
   last result is put and flushed, all workers end, the parent's snapshot sees nobody alive *)
Theorem drain_needed_everywhere : forall cap items, (0 < cap)%nat -> concat items <> [] ->
  exists tr s, qrun_nodrain cap (init items) tr = Some s /\ pc s = Exited /\ vis s <> [] /\
    ~ Permutation (yielded s) (concat items).
Proof. exact drain_needed_everywhere_lemma. Qed.

(* the parent of seeded change C05-a (one result per pass of the outer loop) loses results as well *)
Theorem one_get_per_pass_refuted : exists cap items tr s,
  qrun_oneget cap (init items) tr = Some s /\ pc s = Exited /\ vis s <> [] /\
  ~ Permutation (yielded s) (concat items).
Proof. exact oneget_refuted. Qed.

(* ... but only when the queue has more than one slot (collocate_filesets: Queue(maxsize=processes), so only with two
   or more processes): with ONE slot that parent yields everything under every interleaving *)
Theorem one_get_per_pass_single_slot_safe : forall items tr s,
  qrun_oneget 1 (init items) tr = Some s -> pc s = Exited ->
  Permutation (yielded s) (concat items) /\ vis s = [].
Proof. exact oneget_single_slot_safe. Qed.

(* the statements are not vacuous for weaker code: without the drain after the last worker died, and without the
   final flush of the bundle, results are lost *)
Theorem without_final_drain_refuted : exists cap items tr s,
  qrun_nodrain cap (init items) tr = Some s /\ pc s = Exited /\ ~ Permutation (yielded s) (concat items).
Proof. exact nodrain_refuted. Qed.

Theorem without_final_flush_refuted : exists md items,
  concat (concat (loop_noflush md items [] None)) <> concat (somes items).
Proof. exact noflush_refuted. Qed.

(* non-vacuity: the brute-force collocate meets both hypotheses; three primary and two secondary files (a primary
   point with partners in two secondary files, a period cutting off the last partner), two workers, bundling by
   primary: the hypotheses hold and the model emits the four collocations in three bundles. *)
Example nonvacuous :
  let U := 1000000 in
  let A := map mk_file [ (0, 599*U, [(10*U,0);(300*U,1);(590*U,2)]); (600*U,1199*U,[(610*U,3);(900*U,4)]);
                         (1200*U,1799*U,[(1210*U,5)]) ] in
  let B := map mk_file [ (0, 899*U, [(12*U,100);(305*U,101);(880*U,102)]);
                         (900*U,1799*U,[(905*U,103);(1215*U,104);(1700*U,105)]) ] in
  let near := near_of [(0,100);(1,101);(4,102);(4,103);(5,104);(5,105)] in
  let c := {| p_start := -100*U; p_end := 1212*U; mi := 30 |} in
  (forall c P S p s, In (p, s) (collocate_bf near c P S) <-> In p P /\ In s S /\ okpair near c p s = true) /\
  (forall c P S, NoDup P -> NoDup S -> NoDup (collocate_bf near c P S)) /\
  unique_points A /\ unique_points B /\ coverage_contains A /\ coverage_contains B /\ coverage_wf B /\
  matches c A B = [(0, [0]); (1, [0; 1]); (2, [1])] /\
  map (map ids) (pipeline (collocate_bf near) c 2 MPrimary None A B)
    = [[[(0, 100); (1, 101)]; [(4, 102); (4, 103)]]; []] /\
  ids (collocate_bf near c (all_pts A) (all_pts B)) = [(0, 100); (1, 101); (4, 102); (4, 103)].
Proof.
  cbv zeta. split; [intros; apply bf_exact|]. split; [intros; apply bf_once; assumption|].
  split; [apply nodupb_NoDup; vm_compute; reflexivity|].
  split; [apply nodupb_NoDup; vm_compute; reflexivity|].
  split; [apply cover_ok_spec; vm_compute; reflexivity|].
  split; [apply cover_ok_spec; vm_compute; reflexivity|].
  split; [apply wf_ok_spec; vm_compute; reflexivity|].
  vm_compute. repeat split.
Qed.

(* non-vacuity of the theorems on skipped pairs: four file pairs, the SECOND (middle) one skipped, collocations in the
   pairs after it, the last one on the next day.  The tags lag behind (the set of primary 1 is tagged 0), bundling by
   primary and by day both give [s0; s1] and [s2]; the real loop hands over both bundles, the loop of seeded change
   C05-j only the first: the collocation of primary 2 is lost although primary 2 and its partner were readable. *)
Example skips_nonvacuous :
  let P := fun t i => {| ptime := t; pid := i |} in
  let s0 := [(P 10 0, P 12 100)] in let s1 := [(P 20 1, P 21 101)] in let s2 := [(P (DAY + 5) 2, P (DAY + 7) 102)] in
  let res := [(0, PFound s0); (0, PSkipped); (1, PFound s1); (2, PFound s2)] in
  has_skip res = true /\ founds res = [s0; s1; s2] /\ Forall (fun s : cset => s <> []) (founds res) /\
  items_of res = [(0, Some s0); (0, Some s1); (1, Some s2)] /\
  loop MPrimary (items_of res) [] None = [[s0; s1]; [s2]] /\
  loop MDaily (items_of res) [] None = [[s0; s1]; [s2]] /\
  loop_counted MPrimary (length res) (items_of res) 0 [] None = [[s0; s1]] /\
  loop_counted MDaily (length res) (items_of res) 0 [] None = [[s0; s1]] /\
  last_bundle MDaily (items_of res) = [[s2]].
Proof.
  cbv zeta. split; [reflexivity|]. split; [reflexivity|].
  split; [repeat first [apply Forall_nil | apply Forall_cons]; intros H; discriminate H|].
  vm_compute. repeat split.
Qed.

Example queue_nonvacuous : exists tr s,
  qrun 2 (init [[1; 2]; [3]]) tr = Some s /\ pc s = Exited /\ yielded s = [3; 1; 2].
Proof. exact queue_example. Qed.

(* non-vacuity of queue_liveness: a state in the middle of a run (two results handed to the feeders, the parent at the
   head of its loop): measure 63, the scheduler needs 14 actions and everything is yielded *)
Example queue_liveness_nonvacuous : exists s s',
  qrun 2 (init [[1; 2]; [3]]) [Snapshot; EmptyTrue; Put 1; Put 0] = Some s /\ pc s = Head /\ mu s = 63%nat /\
  sched_trace 2 (mu s) s = [Flush 0; Flush 1; Snapshot; Get; Get; Put 0; Flush 0; Get; Die 0; Die 1;
                            EmptyTrue; Snapshot; EmptyTrue; Leave] /\
  qrun 2 s (sched_trace 2 (mu s) s) = Some s' /\ pc s' = Exited /\ yielded s' = [1; 3; 2].
Proof. eexists. eexists. split; [vm_compute; reflexivity|]. vm_compute. repeat split. Qed.

(* non-vacuity of drain_needed: a run of the weaker parent that takes two results, then leaves with the third one
   visible in the queue (11 of its 16 actions are not polling) *)
Example drain_needed_nonvacuous : exists s,
  qrun_nodrain 2 (init [[1; 2]; [3]])
    [Snapshot; EmptyTrue; Put 1; Put 0; Flush 1; Flush 0; Snapshot; Get; Get; EmptyTrue; Put 0; Flush 0;
     Die 1; Die 0; Snapshot; Leave] = Some s /\
  pc s = Exited /\ yielded s = [3; 1] /\ vis s = [2].
Proof. eexists. split; [vm_compute; reflexivity|]. repeat split. Qed.

(* non-vacuity of one_get_per_pass_single_slot_safe: one worker, one slot, the one-get parent reaches its exit *)
Example one_get_single_slot_nonvacuous : exists s,
  qrun_oneget 1 (init [[1; 2]]) [Put 0; Flush 0; Snapshot; Get; Put 0; Flush 0; Die 0; Snapshot; Get; Leave] = Some s /\
  pc s = Exited /\ yielded s = [1; 2].
Proof. eexists. split; [vm_compute; reflexivity|]. repeat split. Qed.

Print Assumptions union_over_matches.
Print Assumptions pipeline_exact.
Print Assumptions independent_of_split_processes_bundle.
Print Assumptions skip_errors_local.
Print Assumptions bundling_lossless.
Print Assumptions bundles_nonempty.
Print Assumptions bundling_lossless_with_skips.
Print Assumptions worker_items_with_skips.
Print Assumptions guarded_final_flush_exact.
Print Assumptions guarded_final_flush_loses.
Print Assumptions array_split_partition.
Print Assumptions file_output_lossless.
Print Assumptions same_name_overwrites.
Print Assumptions queue_exactly_once.
Print Assumptions queue_bounded.
Print Assumptions queue_parent_never_stuck.
Print Assumptions queue_liveness.
Print Assumptions queue_no_deadlock.
Print Assumptions queue_measure_init.
Print Assumptions queue_work_bounded.
Print Assumptions drain_needed.
Print Assumptions drain_needed_everywhere.
Print Assumptions one_get_per_pass_refuted.
Print Assumptions one_get_per_pass_single_slot_safe.
Print Assumptions without_final_drain_refuted.
Print Assumptions without_final_flush_refuted.
