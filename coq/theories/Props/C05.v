(* C05 -- property theorems. This file holds ONLY statements, `exact <lemma>`, non-vacuity examples and
   Print Assumptions.  Models: Model/C05_pipeline.v (collocate_filesets on top of C03's match_model) and
   Model/C05_queue.v (the result queue between workers and parent, all interleavings). *)
From Coq Require Import ZArith List Bool Permutation.
From Typhon Require Import Model.C03_tree Model.C05_pipeline Model.C05_queue.
From Typhon Require Import Proofs.C05_bundle Proofs.C05_pipeline Proofs.C05_queue.
Import ListNotations.
Open Scope Z_scope.

Section WithCollocate.
  (* Collocator.collocate (property C04) and the spatial relation are parameters; what is assumed: collocate
     returns exactly the pairs of the given points that meet the criterion (both inside the period, closer in
     time than max_interval, spatially near), each once. *)
  Variable near : Z -> Z -> bool.
  Variable collocate : cfg -> list pt -> list pt -> cset.
  Hypothesis collocate_exact : forall c P S p s,
    In (p, s) (collocate c P S) <-> In p P /\ In s S /\ okpair near c p s = true.
  Hypothesis collocate_once : forall c P S, NoDup P -> NoDup S -> NoDup (collocate c P S).

  (* CORE: when every point is stored in exactly one file whose coverage contains its time and max_interval is a
     whole number of seconds, the collocations of the matched file pairs (find with the widened period, file
     coverages floored to seconds, secondaries widened by max_interval, centred interval tree of C03), taken
     together, are exactly the collocations of all data of A with all data of B -- each once. *)
  Theorem union_over_matches : forall c A B,
    0 <= mi c -> unique_points A -> unique_points B ->
    coverage_contains A -> coverage_contains B -> coverage_wf B ->
    Permutation (flat_map (coll_pair collocate c A B) (flat (matches c A B)))
                (collocate c (all_pts A) (all_pts B)).
  Proof. exact (union_over_matches_lemma near collocate collocate_exact collocate_once). Qed.

  (* the whole pipeline: matches split over min(k, #matches) workers by array_split, per worker the flat pairs,
     None results, the bundling state machine of the given mode and the final flush: summed over all workers and
     bundles exactly collocate(all A, all B), for EVERY process count k >= 1 and every bundle mode *)
  Theorem pipeline_exact : forall c k md A B, (0 < k)%nat ->
    0 <= mi c -> unique_points A -> unique_points B ->
    coverage_contains A -> coverage_contains B -> coverage_wf B ->
    Permutation (total collocate c k md None A B) (collocate c (all_pts A) (all_pts B)).
  Proof. exact (pipeline_exact_lemma near collocate collocate_exact collocate_once). Qed.

  (* ... hence the same multiset for any two process counts, bundle modes and splits of the same data into files *)
  Theorem independent_of_split_processes_bundle : forall c k k' md md' A A' B B',
    (0 < k)%nat -> (0 < k')%nat -> 0 <= mi c ->
    unique_points A -> unique_points B -> coverage_contains A -> coverage_contains B -> coverage_wf B ->
    unique_points A' -> unique_points B' -> coverage_contains A' -> coverage_contains B' -> coverage_wf B' ->
    Permutation (all_pts A) (all_pts A') -> Permutation (all_pts B) (all_pts B') ->
    Permutation (total collocate c k md None A B) (total collocate c k' md' None A' B').
  Proof. exact (independence_lemma near collocate collocate_exact collocate_once). Qed.

  (* skip_file_errors: an unreadable file (bad = (primary?, index among the found files)) removes exactly the
     collocations with a point of that file *)
  Theorem skip_errors_local : forall c k md bad A B, (0 < k)%nat -> 0 <= snd bad ->
    0 <= mi c -> unique_points A -> unique_points B ->
    coverage_contains A -> coverage_contains B -> coverage_wf B ->
    Permutation (total collocate c k md (Some bad) A B)
                (filter (fun ps => negb (in_bad_file c bad A B ps)) (collocate c (all_pts A) (all_pts B))).
  Proof. exact (skip_errors_local_lemma near collocate collocate_exact collocate_once). Qed.
End WithCollocate.

(* the bundling loop of _process_caller (None / primary / daily, any tags): every collocation set is handed to
   _save_and_return exactly once, in order, and never an empty bundle *)
Theorem bundling_lossless : forall md items,
  concat (map (@concat (pt * pt)) (loop md items [] None)) = concat (somes items).
Proof. exact bundling_lossless_lemma. Qed.

Theorem bundles_nonempty : forall md items, Forall (fun g => g <> []) (loop md items [] None).
Proof. exact bundles_nonempty_lemma. Qed.

(* np.array_split over k >= 1 workers is a partition of the match list into k consecutive chunks *)
Theorem array_split_partition : forall X k (l : list X), (0 < k)%nat ->
  concat (array_split k l) = l /\ length (array_split k l) = k.
Proof. intros X k l H. split; [apply array_split_concat_lemma|apply array_split_length_lemma]; exact H. Qed.

(* output to a fileset: what is read back is what was emitted PROVIDED the rendered names are pairwise distinct *)
Theorem file_output_lossless : forall (nm : cset -> Z * Z) (sets : list cset),
  NoDup (map nm sets) -> Permutation (map snd (write_all nm sets)) sets.
Proof. exact file_output_lossless_lemma. Qed.

(* ... and the code does nothing to make them distinct: two different sets with the same first/last primary time
   (one primary point with partners in two secondary files) get one name, the second write replaces the first
   (DESIGN section 6 #22, open finding F-C05-3) *)
Theorem same_name_overwrites : exists s1 s2 : cset, s1 <> s2 /\ name_of US s1 = name_of US s2 /\
  map snd (write_all (name_of US) [s1; s2]) = [s2].
Proof. exact output_collision_refuted. Qed.

(* the result queue, for EVERY interleaving of workers, feeder threads and the polling parent: when the parent has
   left its loop it has yielded exactly what the workers put, each once, and nothing is left in the queue *)
Theorem queue_exactly_once : forall cap items tr s,
  qrun cap (init items) tr = Some s -> pc s = Exited ->
  Permutation (yielded s) (concat items) /\ vis s = [] /\
  Forall (fun w => alive w = false /\ pend w = [] /\ infl w = []) (ws s).
Proof. exact queue_exactly_once_lemma. Qed.

Theorem queue_bounded : forall cap items tr s,
  qrun cap (init items) tr = Some s -> (occupied s <= cap)%nat.
Proof. exact queue_bounded_lemma. Qed.

Theorem queue_parent_never_stuck : forall cap items tr s, (0 < cap)%nat ->
  qrun cap (init items) tr = Some s -> pc s <> Exited -> exists a s', step cap s a = Some s'.
Proof. exact queue_progress_lemma. Qed.

(* the statements are not vacuous for weaker code: without the drain after the last worker died, and without the
   final flush of the bundle, results are lost *)
Theorem without_final_drain_refuted : exists cap items tr s,
  qrun_nodrain cap (init items) tr = Some s /\ pc s = Exited /\ ~ Permutation (yielded s) (concat items).
Proof. exact nodrain_refuted. Qed.

Theorem without_final_flush_refuted : exists md items,
  concat (concat (loop_noflush md items [] None)) <> concat (somes items).
Proof. exact noflush_refuted. Qed.

(* non-vacuity: the brute-force collocate meets both hypotheses; three primary and two secondary files (a primary
   point with partners in two secondary files, a period cutting off the last partner), two workers, bundling by
   primary: the hypotheses hold and the model emits the four collocations in three bundles. *)
Example nonvacuous :
  let U := 1000000 in
  let A := map mk_file [ (0, 599*U, [(10*U,0);(300*U,1);(590*U,2)]); (600*U,1199*U,[(610*U,3);(900*U,4)]);
                         (1200*U,1799*U,[(1210*U,5)]) ] in
  let B := map mk_file [ (0, 899*U, [(12*U,100);(305*U,101);(880*U,102)]);
                         (900*U,1799*U,[(905*U,103);(1215*U,104);(1700*U,105)]) ] in
  let near := near_of [(0,100);(1,101);(4,102);(4,103);(5,104);(5,105)] in
  let c := {| p_start := -100*U; p_end := 1212*U; mi := 30 |} in
  (forall c P S p s, In (p, s) (collocate_bf near c P S) <-> In p P /\ In s S /\ okpair near c p s = true) /\
  (forall c P S, NoDup P -> NoDup S -> NoDup (collocate_bf near c P S)) /\
  unique_points A /\ unique_points B /\ coverage_contains A /\ coverage_contains B /\ coverage_wf B /\
  matches c A B = [(0, [0]); (1, [0; 1]); (2, [1])] /\
  map (map ids) (pipeline (collocate_bf near) c 2 MPrimary None A B)
    = [[[(0, 100); (1, 101)]; [(4, 102); (4, 103)]]; []] /\
  ids (collocate_bf near c (all_pts A) (all_pts B)) = [(0, 100); (1, 101); (4, 102); (4, 103)].
Proof.
  cbv zeta. split; [intros; apply bf_exact|]. split; [intros; apply bf_once; assumption|].
  split; [apply nodupb_NoDup; vm_compute; reflexivity|].
  split; [apply nodupb_NoDup; vm_compute; reflexivity|].
  split; [apply cover_ok_spec; vm_compute; reflexivity|].
  split; [apply cover_ok_spec; vm_compute; reflexivity|].
  split; [apply wf_ok_spec; vm_compute; reflexivity|].
  vm_compute. repeat split.
Qed.

Example queue_nonvacuous : exists tr s,
  qrun 2 (init [[1; 2]; [3]]) tr = Some s /\ pc s = Exited /\ yielded s = [3; 1; 2].
Proof. exact queue_example. Qed.

Print Assumptions union_over_matches.
Print Assumptions pipeline_exact.
Print Assumptions independent_of_split_processes_bundle.
Print Assumptions skip_errors_local.
Print Assumptions bundling_lossless.
Print Assumptions bundles_nonempty.
Print Assumptions array_split_partition.
Print Assumptions file_output_lossless.
Print Assumptions same_name_overwrites.
Print Assumptions queue_exactly_once.
Print Assumptions queue_bounded.
Print Assumptions queue_parent_never_stuck.
Print Assumptions without_final_drain_refuted.
Print Assumptions without_final_flush_refuted.
