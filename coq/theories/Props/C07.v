(* C07 -- Geodesy: coordinate conversions invert each other, distances are true metrics.
   Statements about the definitions GENERATED from typhon/geodesy.py (coq/gen/geodesy.v, regenerated from the source
   on every run) and about the hand-written model of the loop / line-of-sight code (Model/C07_geodesy.v).
   ONLY statements, `exact <lemma>`, non-vacuity examples and Print Assumptions.  Angles are degrees, as in the code. *)
From Coq Require Import Reals Lra List String.
From Typhon Require Import Base.RealAux Model.C07_geodesy Proofs.C07_geodesy Proofs.C07_iteration.
From TyphonGen Require Import geodesy.
Open Scope R_scope.

(* ---- core 1: spherical <-> cartesian are mutually inverse -------------------------------------------------- *)
Theorem spherical_cartesian_inverse : forall r lat lon, 0 < r -> -90 < lat < 90 -> -180 < lon <= 180 ->
  (let '(x, y, z) := geocentric2cart r lat lon in cart2geocentric x y z) = (r, lat, lon).
Proof. exact sph_cart_sph. Qed.

Theorem cartesian_spherical_inverse : forall x y z, x ^ 2 + y ^ 2 + z ^ 2 <> 0 ->
  (let '(r, lat, lon) := cart2geocentric x y z in geocentric2cart r lat lon) = (x, y, z).
Proof. exact cart_sph_cart. Qed.

(* ---- core 2: chord = 2 R sin(arc / 2R), in metres and in degrees -------------------------------------------- *)
Theorem chord_is_2R_sin_half_arc : forall Re lat1 lon1 lat2 lon2, 0 < Re ->
  tunnel Re lat1 lon1 lat2 lon2 = 2 * Re * sin (great_circle_distance_r lat1 lon1 lat2 lon2 Re / (2 * Re)) /\
  tunnel Re lat1 lon1 lat2 lon2 = 2 * Re * sin (great_circle_distance_deg lat1 lon1 lat2 lon2 * PI / 180 / 2).
Proof. intros Re lat1 lon1 lat2 lon2 H. split; [exact (chord_arc Re lat1 lon1 lat2 lon2 H)|exact (chord_arc_deg Re lat1 lon1 lat2 lon2 H)]. Qed.

(* ---- distance laws ------------------------------------------------------------------------------------------ *)
Theorem distances_symmetric : forall Re lat1 lon1 lat2 lon2 r,
  great_circle_distance_r lat1 lon1 lat2 lon2 r = great_circle_distance_r lat2 lon2 lat1 lon1 r /\
  great_circle_distance_deg lat1 lon1 lat2 lon2 = great_circle_distance_deg lat2 lon2 lat1 lon1 /\
  tunnel Re lat1 lon1 lat2 lon2 = tunnel Re lat2 lon2 lat1 lon1.
Proof. intros Re lat1 lon1 lat2 lon2 r. destruct (gcd_sym lat1 lon1 lat2 lon2 r) as [A B].
  split; [exact A|split; [exact B|exact (tunnel_sym Re lat1 lon1 lat2 lon2)]]. Qed.

Theorem distances_zero_iff_coincident : forall Re lat1 lon1 lat2 lon2, 0 < Re ->
  great_circle_distance_r lat1 lon1 lat1 lon1 Re = 0 /\ great_circle_distance_deg lat1 lon1 lat1 lon1 = 0 /\
  tunnel Re lat1 lon1 lat1 lon1 = 0 /\
  (tunnel Re lat1 lon1 lat2 lon2 = 0 <-> geocentric2cart Re lat1 lon1 = geocentric2cart Re lat2 lon2) /\
  (great_circle_distance_r lat1 lon1 lat2 lon2 Re = 0 -> geocentric2cart Re lat1 lon1 = geocentric2cart Re lat2 lon2).
Proof. intros Re lat1 lon1 lat2 lon2 H. destruct (gcd_self lat1 lon1 Re) as [A B].
  split; [exact A|split; [exact B|split; [exact (tunnel_self Re lat1 lon1)|split;
  [exact (tunnel_zero_iff Re lat1 lon1 lat2 lon2)|exact (gcd_zero_coincident Re lat1 lon1 lat2 lon2 H)]]]]. Qed.

(* bounded by half the circumference / the diameter *)
Theorem distances_bounded : forall Re lat1 lon1 lat2 lon2, 0 < Re ->
  0 <= great_circle_distance_r lat1 lon1 lat2 lon2 Re <= PI * Re /\
  0 <= great_circle_distance_deg lat1 lon1 lat2 lon2 <= 180 /\
  0 <= tunnel Re lat1 lon1 lat2 lon2 <= 2 * Re.
Proof. intros Re lat1 lon1 lat2 lon2 H. destruct (gcd_bounds lat1 lon1 lat2 lon2 Re H) as [A B].
  split; [exact A|split; [exact B|exact (tunnel_bounds Re lat1 lon1 lat2 lon2 H)]]. Qed.

Theorem distances_invariant_under_longitude_shift : forall lat1 lon1 lat2 lon2 s r Re,
  great_circle_distance_r lat1 (lon1 + s) lat2 (lon2 + s) r = great_circle_distance_r lat1 lon1 lat2 lon2 r /\
  great_circle_distance_deg lat1 (lon1 + s) lat2 (lon2 + s) = great_circle_distance_deg lat1 lon1 lat2 lon2 /\
  tunnel Re lat1 (lon1 + s) lat2 (lon2 + s) = tunnel Re lat1 lon1 lat2 lon2.
Proof. exact lon_shift. Qed.

Theorem tunnel_triangle_inequality : forall Re lat1 lon1 lat2 lon2 lat3 lon3,
  tunnel Re lat1 lon1 lat3 lon3 <= tunnel Re lat1 lon1 lat2 lon2 + tunnel Re lat2 lon2 lat3 lon3.
Proof. exact tunnel_triangle. Qed.

(* ---- points on the ellipsoid have the radius given by ellipsoid_r_geodetic / ellipsoid_r_geocentric ---------- *)
Theorem on_ellipsoid_radius : forall a e lat lon, 0 < a -> 0 <= e < 1 ->
  let '(x, y, z) := geodetic2cart 0 lat lon a e in
  let '(r, latc, lonc) := cart2geocentric x y z in
  ellipsoid_r_geocentric a e latc = r /\ ellipsoid_r_geodetic a e lat = r /\
  (x ^ 2 + y ^ 2) * (1 - e ^ 2) + z ^ 2 = a ^ 2 * (1 - e ^ 2).
Proof.
  intros a e lat lon Ha He. pose proof (surface_radii_agree a e lat lon Ha He) as H1.
  pose proof (surface_on_ellipsoid a e lat lon Ha He) as H2.
  destruct (geodetic2cart 0 lat lon a e) as [[x y] z]. destruct (cart2geocentric x y z) as [[r latc] lonc].
  destruct H1 as [A B]. split; [exact A|split; [exact B|exact H2]].
Qed.

Theorem geocentric_radius_is_on_the_ellipse : forall a e lat, 0 < a -> 0 <= e < 1 ->
  let r := ellipsoid_r_geocentric a e lat in
  0 < r /\ (r * cosd lat) ^ 2 * (1 - e ^ 2) + (r * sind lat) ^ 2 = a ^ 2 * (1 - e ^ 2).
Proof. exact geocentric_radius_on_ellipse. Qed.

(* every model of the table generated from ellipsoidmodels._data meets 0 < a, 0 <= e < 1 *)
Theorem all_ellipsoid_models_admissible :
  Forall (fun m : String.string * (R * R) => 0 < fst (snd m) /\ 0 <= snd (snd m) < 1) ellipsoid_models.
Proof. exact ellipsoid_table_valid. Qed.

(* ---- geodetic <-> cartesian --------------------------------------------------------------------------------- *)
(* the true geodetic latitude is a fixed point of the body of the while loop, the height computed there is the
   true height, and the longitude is recovered (all ellipsoids, heights above -a(1-e^2), i.e. -6335 km for WGS84) *)
Theorem geodetic_fixed_point : forall a e h lat lon,
  0 < a -> 0 <= e < 1 -> -90 < lat < 90 -> -180 < lon <= 180 -> - (a * (1 - e ^ 2)) < h ->
  let '(x, y, z) := geodetic2cart h lat lon a e in
  let p := hypot x y in
  let B := lat * PI / 180 in
  0 < p /\ geod_T a (e ^ 2) p z B = B /\ geod_h a (e ^ 2) p B = h /\ atan2 y x * 180 / PI = lon.
Proof. exact geodetic_fixed_point. Qed.

(* conversely any fixed point of the loop body is a geodetic position of (x, y, z): what the loop converges to
   maps back to the point exactly *)
Theorem fixed_point_maps_back : forall a e x y z B,
  0 < a -> 0 <= e < 1 -> 0 < hypot x y -> - (PI / 2) < B < PI / 2 ->
  let p := hypot x y in
  let h := geod_h a (e ^ 2) p B in
  0 < geod_N a (e ^ 2) B * (1 - e ^ 2) + h ->
  geod_T a (e ^ 2) p z B = B ->
  geodetic2cart h (B * 180 / PI) (atan2 y x * 180 / PI) a e = (x, y, z).
Proof. exact fixed_point_maps_back. Qed.

(* the loop returns an iterate of the map at which the stop criterion holds *)
Theorem geodetic_loop_stops_at_an_iterate : forall a e2 p z tol fuel B0 B,
  geod_loop a e2 p z tol fuel B0 = Some B ->
  exists n, B = geod_iter a e2 p z n B0 /\ Rabs (B - geod_T a e2 p z B) <= tol.
Proof. exact geod_loop_stops. Qed.

(* the spherical short cut is an exact inverse *)
Theorem geodetic_spherical_inverse : forall a h lat lon, 0 < a + h -> -90 < lat < 90 -> -180 < lon <= 180 ->
  (let '(x, y, z) := geodetic2cart h lat lon a 0 in cart2geodetic_sph x y z a) = (h, lat, lon).
Proof. exact geodetic_spherical_inverse. Qed.

(* ---- the iteration of cart2geodetic converges to the stated accuracy (the former named gap iteration_accuracy) ------ *)
(* the loop body T is Lipschitz on the whole open interval of latitudes, with the explicit constant
   e^2 a / (sqrt (1 - e^2) D0), for every point (p, z) that is at least D0 away from all centres of curvature
   (e^2 N cos B, 0), 0 <= e^2 N cos B <= e^2 a  (mean value theorem; T' = z e^2 g' / ((p - e^2 g)^2 + z^2)) *)
Theorem geodetic_iteration_lipschitz : forall a e2 p z D0,
  0 < a -> 0 <= e2 < 1 -> e2 * a < p -> 0 < D0 -> D0 ^ 2 <= (p - e2 * a) ^ 2 + z ^ 2 ->
  forall B1 B2, - (PI / 2) < B1 < PI / 2 -> - (PI / 2) < B2 < PI / 2 ->
  Rabs (geod_T a e2 p z B1 - geod_T a e2 p z B2) <= e2 * a / (sqrt (1 - e2) * D0) * Rabs (B1 - B2).
Proof. exact iteration_lipschitz_general. Qed.

(* every model of the generated table has 3000 km <= a <= 70000 km and e <= 0.11: the next three theorems cover all six *)
Theorem all_ellipsoid_models_in_iteration_domain :
  Forall (fun m : String.string * (R * R) => 3000000 <= fst (snd m) <= 70000000 /\ 0 <= snd (snd m) <= 0.11) ellipsoid_models.
Proof. exact ellipsoid_table_in_iteration_domain. Qed.

(* on the stated domain the loop body contracts with q = 0.0126 (~ e^2 N / (N + h)), between any two latitudes and
   towards the true geodetic latitude *)
Theorem iteration_contraction : forall a e h lat lon,
  3000000 <= a <= 70000000 -> 0 <= e <= 0.11 -> -10000 <= h <= 1000000 -> -88 <= lat <= 88 ->
  let '(x, y, z) := geodetic2cart h lat lon a e in
  let T := geod_T a (e ^ 2) (hypot x y) z in
  (forall B1 B2, - (PI / 2) < B1 < PI / 2 -> - (PI / 2) < B2 < PI / 2 -> Rabs (T B1 - T B2) <= 0.0126 * Rabs (B1 - B2)) /\
  (forall B, - (PI / 2) < B < PI / 2 -> Rabs (T B - lat * PI / 180) <= 0.0126 * Rabs (B - lat * PI / 180)).
Proof. exact iteration_contraction. Qed.

(* a-posteriori: ANY latitude B at which the stop criterion |B - T(B)| <= tol holds is within tol / (1 - q) of the true
   latitude; for tol <= 2e-12 rad the latitude is within 2e-10 deg (stated: 1e-7) and the height the code computes at B
   within 5 mm (stated: 1 cm) of the true geodetic position *)
Theorem iteration_accuracy : forall a e h lat lon,
  3000000 <= a <= 70000000 -> 0 <= e <= 0.11 -> -10000 <= h <= 1000000 -> -88 <= lat <= 88 ->
  let '(x, y, z) := geodetic2cart h lat lon a e in
  let p := hypot x y in
  forall B tol, - (PI / 2) < B < PI / 2 -> Rabs (B - geod_T a (e ^ 2) p z B) <= tol ->
    Rabs (B - lat * PI / 180) <= tol / (1 - 0.0126) /\
    (tol <= 2e-12 -> Rabs (B * 180 / PI - lat) <= 2e-10 /\ Rabs (geod_h a (e ^ 2) p B - h) <= 0.005).
Proof. exact iteration_accuracy. Qed.

(* total correctness of the loop on the domain: started at atan2(z, p) with the tolerance of the code (1e-12; any
   tolerance in [1e-12, 2e-12]) it stops after at most 8 passes and returns the position to 2e-10 deg / 5 mm;
   the longitude is exact *)
Theorem cart2geodetic_terminates_within_accuracy : forall a e h lat lon,
  3000000 <= a <= 70000000 -> 0 <= e <= 0.11 -> -10000 <= h <= 1000000 -> -88 <= lat <= 88 -> -180 < lon <= 180 ->
  let '(x, y, z) := geodetic2cart h lat lon a e in
  let p := hypot x y in
  forall tol fuel, 1e-12 <= tol <= 2e-12 -> (8 <= fuel)%nat ->
    exists B, geod_loop a (e ^ 2) p z tol fuel (atan2 z p) = Some B /\
      Rabs (B * 180 / PI - lat) <= 2e-10 /\ Rabs (geod_h a (e ^ 2) p B - h) <= 0.005 /\ atan2 y x * 180 / PI = lon.
Proof. exact cart2geodetic_total. Qed.

(* ---- position + line of sight: zenith AND azimuth angle are returned ------------------------------------------ *)
Theorem los_angles_recovered : forall r lat lon za aa,
  0 < r -> Rabs lat <= 90 - 1e-8 -> -180 < lon <= 180 -> 1e-6 <= za <= 180 - 1e-6 -> -180 < aa <= 180 ->
  let '(x, y, z, (dx, dy, dz)) := poslos2cart r lat lon za aa in
  dx ^ 2 + dy ^ 2 + dz ^ 2 = 1 /\ cartposlos2geoc x y z dx dy dz = (r, lat, lon, (za, aa)).
Proof. exact los_roundtrip. Qed.

(* ---- the arc obeys the triangle inequality (spherical triangle; Gram determinant of three unit vectors) --------- *)
Theorem great_circle_triangle_inequality : forall lat1 lon1 lat2 lon2 lat3 lon3 r, 0 <= r ->
  great_circle_distance_r lat1 lon1 lat3 lon3 r <=
    great_circle_distance_r lat1 lon1 lat2 lon2 r + great_circle_distance_r lat2 lon2 lat3 lon3 r /\
  great_circle_distance_deg lat1 lon1 lat3 lon3 <=
    great_circle_distance_deg lat1 lon1 lat2 lon2 + great_circle_distance_deg lat2 lon2 lat3 lon3.
Proof. exact gcd_triangle. Qed.

(* ---- non-vacuity ---------------------------------------------------------------------------------------------- *)
(* the hypotheses of the inverse theorems are met by a non-trivial position, for WGS84 *)
Example inverse_hypotheses_nonvacuous :
  0 < 6378137 /\ 0 <= 0.0818191908426 < 1 /\ -90 < 45 < 90 /\ -180 < 180 <= 180 /\
  - (6378137 * (1 - 0.0818191908426 ^ 2)) < -10000 /\ In ("WGS84"%string, (6378137, 0.0818191908426)) ellipsoid_models.
Proof. repeat split; try lra. right. left. reflexivity. Qed.

(* the hypotheses of the iteration theorems are met at the worst-conditioned corner of the domain, for WGS84 and for
   the most eccentric model of the table *)
Example iteration_hypotheses_nonvacuous :
  (3000000 <= 6378137 <= 70000000 /\ 0 <= 0.0818191908426 <= 0.11 /\ -10000 <= -10000 <= 1000000 /\ -88 <= 88 <= 88 /\
   -180 < -180 + 1 <= 180 /\ 1e-12 <= 1e-12 <= 2e-12 /\ (8 <= 8)%nat) /\
  In ("EllipsoidMars"%string, (3396190, 0.1083)) ellipsoid_models /\ 3000000 <= 3396190 <= 70000000 /\ 0 <= 0.1083 <= 0.11.
Proof. repeat split; try lra; try apply le_n. do 4 right. left. reflexivity. Qed.

(* antipodal points on the equator: the arc is half the circumference, the chord the diameter *)
Example antipodal_points : tunnel 1 0 0 0 180 = 2.
Proof.
  unfold tunnel. rewrite !geocentric2cart_spec. cbv beta iota zeta.
  replace (0 * PI / 180) with 0 by field. replace (180 * PI / 180) with PI by field.
  rewrite cos_0, sin_0, cos_PI, sin_PI.
  match goal with |- sqrt ?t = 2 => replace t with (2 * 2) by ring end.
  apply sqrt_square. lra.
Qed.

(* the line-of-sight hypotheses hold e.g. for a limb view towards the south-west at 60N *)
Example los_hypotheses_nonvacuous :
  0 < 7000000 /\ Rabs 60 <= 90 - 1e-8 /\ -180 < -170 <= 180 /\ 1e-6 <= 100 <= 180 - 1e-6 /\ -180 < -135 <= 180.
Proof. rewrite Rabs_pos_eq by lra. repeat split; lra. Qed.

Print Assumptions spherical_cartesian_inverse.
Print Assumptions cartesian_spherical_inverse.
Print Assumptions chord_is_2R_sin_half_arc.
Print Assumptions distances_symmetric.
Print Assumptions distances_zero_iff_coincident.
Print Assumptions distances_bounded.
Print Assumptions distances_invariant_under_longitude_shift.
Print Assumptions tunnel_triangle_inequality.
Print Assumptions on_ellipsoid_radius.
Print Assumptions geocentric_radius_is_on_the_ellipse.
Print Assumptions all_ellipsoid_models_admissible.
Print Assumptions geodetic_fixed_point.
Print Assumptions fixed_point_maps_back.
Print Assumptions geodetic_loop_stops_at_an_iterate.
Print Assumptions geodetic_spherical_inverse.
Print Assumptions geodetic_iteration_lipschitz.
Print Assumptions all_ellipsoid_models_in_iteration_domain.
Print Assumptions iteration_contraction.
Print Assumptions iteration_accuracy.
Print Assumptions cart2geodetic_terminates_within_accuracy.
Print Assumptions los_angles_recovered.
Print Assumptions great_circle_triangle_inequality.
