(* C06 -- property theorems about the unit of the radius. ONLY statements, `exact <lemma>`, non-vacuity
   examples and Print Assumptions.  gen_units is the table UNITS_CONVERSION_FACTORS of the tree under test,
   translated into coq/gen/C06_units.v on every run. *)
From Coq Require Import String ZArith QArith List Bool.
From Typhon Require Import Model.C06_geoindex Proofs.C06_geoindex Proofs.C06_units.
From TyphonGen Require Import C06_units.
Import ListNotations.

(* the table as written in the source = the definitions of the units in kilometres
   (cm 1e-5, m 1e-3, km 1, mi 1.609344, yd 9.144e-4, ft 3.048e-4), spelling by spelling *)
Theorem units_exact : table_equiv gen_units si_units.
Proof. exact gen_units_exact. Qed.

(* to_kilometers with the table of the source = to_kilometers with the definitions, for every argument
   (numbers, strings without unit, zero lengths and unknown units refused alike) *)
Theorem to_km_by_definition : forall r, opt_Qeq (to_km gen_units r) (to_km si_units r).
Proof. exact gen_to_km_si. Qed.

(* the same length written in two units is the same number of kilometres: '5 km' = '5000 m' *)
Theorem same_length_same_km : forall x1 u1 f1 x2 u2 f2,
  ~ x1 == 0 -> ~ x2 == 0 -> u1 <> ""%string -> u2 <> ""%string ->
  lookup_unit gen_units u1 = Some f1 -> lookup_unit gen_units u2 = Some f2 -> x1 * f1 == x2 * f2 ->
  opt_Qeq (to_km gen_units (RStr x1 u1)) (to_km gen_units (RStr x2 u2)).
Proof. exact gen_same_length. Qed.

(* non-vacuity: the spellings of the statement *)
Example units_nonvacuous :
  opt_Qeq (to_km gen_units (RStr 5 "km")) (to_km gen_units (RStr 5000 "m")) /\
  opt_Qeq (to_km gen_units (RStr 5 "km")) (to_km gen_units (RStr 500000 "cm")) /\
  opt_Qeq (to_km gen_units (RStr 5 "kilometers")) (Some 5) /\
  opt_Qeq (to_km gen_units (RStr (31 # 10) "miles")) (Some (49889664 # 10000000)) /\
  opt_Qeq (to_km gen_units (RStr 1760 "yards")) (to_km gen_units (RStr 1 "mile")) /\
  opt_Qeq (to_km gen_units (RStr 3 "feet")) (to_km gen_units (RStr 1 "yd")) /\
  to_km gen_units (RStr 5 "parsec") = None /\ to_km gen_units (RStr 0 "km") = None /\
  opt_Qeq (to_km gen_units (RStr 7 "")) (Some 7) /\ to_km gen_units (RNum 7) = Some 7.
Proof. vm_compute. repeat split; reflexivity. Qed.

Print Assumptions units_exact.
Print Assumptions to_km_by_definition.
Print Assumptions same_length_same_km.
