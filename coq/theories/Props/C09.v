(* C09 -- property theorems about the definitions GENERATED from typhon/physics/atmosphere.py
   (coq/gen/atmosphere.v is regenerated from the source on every run, so these statements are
   re-checked against what the code says now). Only statements, `exact`, Print Assumptions. *)
From Coq Require Import Reals.
From Coquelicot Require Import Coquelicot.
From TyphonGen Require Import atmosphere.
From Typhon Require Import Proofs.C09_humidity.
Open Scope R_scope.

(* -- each of the six converters is the exact inverse of its counterpart on [0,1) resp. [0,inf) -- *)
Theorem converters_inverse : forall x w q, 0 <= x < 1 -> 0 <= w -> 0 <= q < 1 ->
  mixing_ratio2vmr (vmr2mixing_ratio x) = x /\ vmr2mixing_ratio (mixing_ratio2vmr w) = w /\
  specific_humidity2vmr (vmr2specific_humidity x) = x /\ vmr2specific_humidity (specific_humidity2vmr q) = q /\
  specific_humidity2mixing_ratio (mixing_ratio2specific_humidity w) = w /\
  mixing_ratio2specific_humidity (specific_humidity2mixing_ratio q) = q.
Proof. intros x w q Hx Hw Hq. repeat split;
  [exact (inv_x_w x Hx)|exact (inv_w_x w Hw)|exact (inv_x_q x Hx)|exact (inv_q_x q Hq)|exact (inv_w_q w Hw)|exact (inv_q_w q Hq)]. Qed.

(* -- every two-step route equals the direct one -- *)
Theorem routes_agree : forall x w q, 0 <= x < 1 -> 0 <= w -> 0 <= q < 1 ->
  mixing_ratio2specific_humidity (vmr2mixing_ratio x) = vmr2specific_humidity x /\
  specific_humidity2mixing_ratio (vmr2specific_humidity x) = vmr2mixing_ratio x /\
  vmr2specific_humidity (mixing_ratio2vmr w) = mixing_ratio2specific_humidity w /\
  specific_humidity2vmr (mixing_ratio2specific_humidity w) = mixing_ratio2vmr w /\
  vmr2mixing_ratio (specific_humidity2vmr q) = specific_humidity2mixing_ratio q /\
  mixing_ratio2vmr (specific_humidity2mixing_ratio q) = specific_humidity2vmr q.
Proof. intros x w q Hx Hw Hq. repeat split;
  [exact (route_x_w_q x Hx)|exact (route_x_q_w x Hx)|exact (route_w_x_q w Hw)|exact (route_w_q_x w Hw)
  |exact (route_q_x_w q Hq)|exact (route_q_w_x q Hq)]. Qed.

(* -- all map 0 to 0 and are strictly increasing -- *)
Theorem converters_zero :
  vmr2mixing_ratio 0 = 0 /\ vmr2specific_humidity 0 = 0 /\ mixing_ratio2vmr 0 = 0 /\
  mixing_ratio2specific_humidity 0 = 0 /\ specific_humidity2vmr 0 = 0 /\ specific_humidity2mixing_ratio 0 = 0.
Proof. exact zero_all. Qed.

Theorem converters_increasing : forall a b, 0 <= a < b ->
  (b < 1 -> vmr2mixing_ratio a < vmr2mixing_ratio b) /\
  (b < 1 -> vmr2specific_humidity a < vmr2specific_humidity b) /\
  mixing_ratio2vmr a < mixing_ratio2vmr b /\
  mixing_ratio2specific_humidity a < mixing_ratio2specific_humidity b /\
  (b < 1 -> specific_humidity2mixing_ratio a < specific_humidity2mixing_ratio b) /\
  (b < 1 -> specific_humidity2vmr a < specific_humidity2vmr b).
Proof. intros a b H. repeat split;
  [exact (incr_x_w a b H)|exact (incr_x_q a b H)|exact (incr_w_x a b H)|exact (incr_w_q a b H)
  |exact (incr_q_w a b H)|exact (incr_q_x a b H)]. Qed.

(* -- saturation pressures: positive, strictly increasing on [100, 400] K -- *)
Theorem saturation_positive : forall T, 0 < e_eq_water_mk T /\ 0 < e_eq_ice_mk T.
Proof. intros T. split; [exact (e_liq_pos T)|exact (e_ice_pos T)]. Qed.

Theorem saturation_increasing : forall T1 T2, 100 <= T1 -> T1 < T2 -> T2 <= 400 ->
  e_eq_water_mk T1 < e_eq_water_mk T2 /\ e_eq_ice_mk T1 < e_eq_ice_mk T2.
Proof. intros T1 T2 H1 H12 H2. split; [exact (e_liq_incr T1 T2 H1 H12 H2)|exact (e_ice_incr T1 T2 H1 H12 H2)]. Qed.

(* -- ice <= liquid below the triple point; equal there to 1e-6 relative -- *)
Theorem ice_below_liquid : forall T, 100 <= T <= c_triple_point_water ->
  e_eq_ice_mk T <= e_eq_water_mk T * (1 + 1e-6).
Proof. exact ice_le_liq. Qed.

Theorem equal_at_triple_point :
  Rabs (e_eq_water_mk c_triple_point_water / e_eq_ice_mk c_triple_point_water - 1) <= 1e-6.
Proof. exact eq_at_triple_point. Qed.

(* -- mixed phase: ice below T_t - 23, liquid above T_t, positive and between them everywhere, the blend takes the
      pure-phase values at the two joints, and the function is continuous at every T > 0 -- in particular at the
      two temperatures where the translated piecewise definition switches branches -- spelled out with epsilon
      and delta -- *)
Theorem mixed_phase : forall T,
  (T < c_triple_point_water - 23 -> e_eq_mixed_mk T = e_eq_ice_mk T) /\
  (c_triple_point_water < T -> e_eq_mixed_mk T = e_eq_water_mk T) /\
  Rmin (e_eq_ice_mk T) (e_eq_water_mk T) <= e_eq_mixed_mk T <= Rmax (e_eq_ice_mk T) (e_eq_water_mk T) /\
  0 < e_eq_mixed_mk T /\
  e_eq_mixed_mk (c_triple_point_water - 23) = e_eq_ice_mk (c_triple_point_water - 23) /\
  e_eq_mixed_mk c_triple_point_water = e_eq_water_mk c_triple_point_water /\
  (0 < T -> forall eps, 0 < eps -> exists delta, 0 < delta /\
     forall T', Rabs (T' - T) < delta -> Rabs (e_eq_mixed_mk T' - e_eq_mixed_mk T) < eps).
Proof. intros T. repeat split;
  [exact (mixed_is_ice T)|exact (mixed_is_liquid T)|exact (proj1 (mixed_between T))|exact (proj2 (mixed_between T))
  |exact (mixed_pos T)|exact mixed_joint_ice|exact mixed_joint_liquid|exact (mixed_eps_delta T)]. Qed.

(* -- the same continuity in the vocabulary of Coquelicot (filters) and of the standard library -- *)
Theorem mixed_phase_continuous : forall T, 0 < T ->
  continuous e_eq_mixed_mk T /\ continuity_pt e_eq_mixed_mk T.
Proof. intros T H. split; [exact (mixed_continuous T H)|exact (mixed_continuity_pt T H)]. Qed.

(* -- the mixed-phase pressure is strictly increasing on all of [100, 400] K, across both joints
      (ice branch, blend -- derivative sign by interval arithmetic -- and liquid branch, chained at the joints) -- *)
Theorem mixed_phase_increasing : forall T1 T2, 100 <= T1 -> T1 < T2 -> T2 <= 400 ->
  e_eq_mixed_mk T1 < e_eq_mixed_mk T2.
Proof. exact mixed_incr. Qed.

(* -- non-positive temperatures are rejected -- *)
Theorem nonpositive_temperature_rejected : forall T, T <= 0 -> e_eq_water_mk_raises T /\ e_eq_ice_mk_raises T.
Proof. exact nonpositive_rejected. Qed.

(* -- RH <-> VMR inverse for ANY saturation function -- *)
Theorem rh_vmr_inverse_any_e_eq : forall (e_eq : R -> R) a p T, 0 < e_eq T -> 0 < p ->
  vmr2relative_humidity (relative_humidity2vmr a p T e_eq) p T e_eq = a /\
  relative_humidity2vmr (vmr2relative_humidity a p T e_eq) p T e_eq = a.
Proof. intros e_eq a p T He Hp. split; [exact (rh_vmr_inverse e_eq a p T He Hp)|exact (vmr_rh_inverse e_eq a p T He Hp)]. Qed.

(* -- moist lapse rate in (0, g/cp], approaching g/cp as the saturation mixing ratio w vanishes -- *)
Theorem lapse_rate_bounds : forall (e_eq : R -> R) p T, 0 < T <= 400 -> 0 <= e_eq T / p < 1 ->
  let w := vmr2mixing_ratio (e_eq T / p) in
  0 < moist_lapse_rate p T e_eq <= c_earth_standard_gravity / c_isobaric_mass_heat_capacity /\
  Rabs (moist_lapse_rate p T e_eq - c_earth_standard_gravity / c_isobaric_mass_heat_capacity)
    <= c_earth_standard_gravity / c_isobaric_mass_heat_capacity
       * (c_heat_of_vaporization ^ 2 / (c_isobaric_mass_heat_capacity * c_gas_constant_water_vapor * T ^ 2)) * w.
Proof. exact lapse_bounds. Qed.

(* non-vacuity: the hypotheses are met by ordinary atmospheric values *)
Example nonvacuous : (0 <= 0.02 < 1) /\ (100 <= 250 <= c_triple_point_water) /\ (0 < 300 <= 400).
Proof. unfold c_triple_point_water. repeat split; Lra.lra. Qed.

(* non-vacuity of the new hypotheses: both joints are positive temperatures (continuity applies there), and the
   monotonicity theorem applies to pairs that straddle each joint *)
Example nonvacuous_mixed :
  (0 < c_triple_point_water - 23) /\ (0 < c_triple_point_water) /\
  e_eq_mixed_mk 240 < e_eq_mixed_mk 260 /\ e_eq_mixed_mk 260 < e_eq_mixed_mk 280 /\
  continuity_pt e_eq_mixed_mk (c_triple_point_water - 23) /\ continuity_pt e_eq_mixed_mk c_triple_point_water.
Proof. unfold c_triple_point_water. repeat split; try Lra.lra;
  try (apply mixed_phase_increasing; Lra.lra); apply mixed_phase_continuous; Lra.lra. Qed.

Print Assumptions converters_inverse.
Print Assumptions routes_agree.
Print Assumptions converters_zero.
Print Assumptions converters_increasing.
Print Assumptions saturation_positive.
Print Assumptions saturation_increasing.
Print Assumptions ice_below_liquid.
Print Assumptions equal_at_triple_point.
Print Assumptions mixed_phase.
Print Assumptions mixed_phase_continuous.
Print Assumptions mixed_phase_increasing.
Print Assumptions nonpositive_temperature_rejected.
Print Assumptions rh_vmr_inverse_any_e_eq.
Print Assumptions lapse_rate_bounds.
