(* C10 -- lemmas about the pool model (Model/C10_pool.v). *)
From Coq Require Import ZArith List Bool Arith Lia Sorted.
From Typhon Require Import Model.C10_pool.
Import ListNotations.

(* ------------------------------------------------------------------ small list facts *)

Lemma mem_In i l : mem i l = true <-> In i l.
Proof.
  unfold mem. rewrite existsb_exists. split.
  - intros (x & Hx & He). apply Nat.eqb_eq in He. subst. exact Hx.
  - intros H. exists i. split; [exact H|apply Nat.eqb_refl].
Qed.

Lemma mem_false i l : mem i l = false <-> ~ In i l.
Proof.
  rewrite <- mem_In. destruct (mem i l); split; intro H.
  - discriminate.
  - exfalso. apply H. reflexivity.
  - intro H'. discriminate.
  - reflexivity.
Qed.

Lemma app_seq_split (a b : list nat) s m :
  a ++ b = seq s m -> a = seq s (length a) /\ b = seq (s + length a) (m - length a) /\ length a <= m.
Proof.
  revert s m. induction a as [|x a IH]; intros s m H; cbn [app length] in *.
  - rewrite Nat.add_0_r, Nat.sub_0_r. repeat split; [exact H|lia].
  - destruct m as [|m]; [discriminate|]. cbn [seq] in H. injection H as Hx Ht. subst x.
    destruct (IH _ _ Ht) as (Ha & Hb & Hl).
    repeat split.
    + cbn [seq]. f_equal. exact Ha.
    + replace (s + S (length a)) with (S s + length a) by lia. cbn [Nat.sub]. exact Hb.
    + lia.
Qed.

Lemma map_nth_shift {B} (g : nat -> B) k :
  map g (seq 0 (S k)) = g 0 :: map (fun i => g (S i)) (seq 0 k).
Proof. cbn [seq map]. f_equal. rewrite <- seq_shift, map_map. reflexivity. Qed.

(* ------------------------------------------------------------------ spec facts *)

Lemma nth_res_cons r rs i : nth_res (r :: rs) (S i) = nth_res rs i.
Proof. reflexivity. Qed.

Lemma spec_cons_ok r t : is_err r = false ->
  spec (r :: t) = (value_of r :: fst (spec t), snd (spec t)).
Proof. intros H. destruct r; cbn in *; try discriminate; destruct (spec t); reflexivity. Qed.

(* the first k results carry no exception: the spec is their values, followed by the k-th
   result's exception or by normal termination *)
Lemma spec_prefix rs : forall k,
  (forall i, i < k -> is_err (nth_res rs i) = false) ->
  (k = length rs -> spec rs = (map (fun i => value_of (nth_res rs i)) (seq 0 k), None))
  /\ (forall e, nth_res rs k = Err e ->
        spec rs = (map (fun i => value_of (nth_res rs i)) (seq 0 k), Some e)).
Proof.
  induction rs as [|r t IH]; intros k Hk.
  - split.
    + intros ->. reflexivity.
    + intros e He. unfold nth_res in He. destruct k; discriminate.
  - destruct k as [|k].
    + split; [discriminate|]. intros e He. cbn in He. subst r. reflexivity.
    + assert (Hr : is_err r = false) by (apply (Hk 0); lia).
      assert (Hk' : forall i, i < k -> is_err (nth_res t i) = false).
      { intros i Hi. rewrite <- (nth_res_cons r). apply Hk. lia. }
      destruct (IH k Hk') as (IH1 & IH2).
      rewrite map_nth_shift. rewrite (spec_cons_ok _ _ Hr). split.
      * intros Hl. cbn [length] in Hl. rewrite IH1 by lia. reflexivity.
      * intros e He. rewrite nth_res_cons in He. rewrite (IH2 e He). reflexivity.
Qed.

Lemma spec_noerr rs : (forall r, In r rs -> is_err r = false) -> spec rs = (map value_of rs, None).
Proof.
  induction rs as [|r t IH]; intros H; [reflexivity|].
  rewrite spec_cons_ok by (apply H; left; reflexivity).
  rewrite IH by (intros x Hx; apply H; right; exact Hx). reflexivity.
Qed.

Lemma spec_at_err pre e post : (forall r, In r pre -> is_err r = false) ->
  spec (pre ++ Err e :: post) = (map value_of pre, Some e).
Proof.
  induction pre as [|r t IH]; intros H; [reflexivity|].
  cbn [app]. rewrite spec_cons_ok by (apply H; left; reflexivity).
  rewrite IH by (intros x Hx; apply H; right; exact Hx). reflexivity.
Qed.

(* ------------------------------------------------------------------ the invariant *)

Lemma inv_init w rs : inv w rs init.
Proof.
  unfold inv, init, consumed; cbn [next dq done out raised app length seq].
  split; [reflexivity|]. split; [lia|]. split; [lia|]. split; [intros x []|].
  split; [constructor|]. split; [intros i []|]. intros h H. discriminate.
Qed.

Ltac split7 := split; [|split; [|split; [|split; [|split; [|split]]]]].

Lemma step_inv w rs s a s' : 0 < w -> inv w rs s -> step w rs s a = Some s' -> inv w rs s'.
Proof.
  intros Hw (Hseq & Hlen & Hn & Hdone & Hnd & Hout & Hrz) Hstep.
  destruct a as [k|i|k]; cbn [step] in Hstep.
  - (* Submit *)
    destruct (raised s) eqn:Hr; [discriminate|].
    destruct ((k =? next s) && (next s <? length rs) && (length (dq s) <? w)) eqn:Hg; [|discriminate].
    apply andb_prop in Hg. destruct Hg as (Hg & Hg3). apply andb_prop in Hg. destruct Hg as (Hg1 & Hg2).
    apply Nat.eqb_eq in Hg1. apply Nat.ltb_lt in Hg2. apply Nat.ltb_lt in Hg3.
    injection Hstep as <-. unfold consumed in Hseq. rewrite Hr in Hseq.
    unfold inv, consumed; cbn [next dq done out raised]. split7.
    + rewrite app_assoc, Hseq, seq_S. cbn [Nat.add]. subst k. reflexivity.
    + rewrite app_length. cbn [length]. lia.
    + lia.
    + intros x Hx. rewrite seq_S. apply in_or_app. left. apply Hdone. exact Hx.
    + exact Hnd.
    + exact Hout.
    + intros h H. discriminate.
  - (* Complete *)
    destruct ((i <? next s) && negb (mem i (done s))) eqn:Hg; [|discriminate].
    apply andb_prop in Hg. destruct Hg as (Hg1 & Hg2). apply Nat.ltb_lt in Hg1.
    apply negb_true_iff in Hg2. apply mem_false in Hg2.
    injection Hstep as <-. unfold inv, consumed in *; cbn [next dq done out raised]. split7.
    + exact Hseq.
    + exact Hlen.
    + exact Hn.
    + intros x [Hx|Hx]; [subst x; apply in_seq; lia|apply Hdone; exact Hx].
    + constructor; assumption.
    + exact Hout.
    + exact Hrz.
  - (* Yield *)
    destruct (raised s) eqn:Hr; [discriminate|].
    destruct (dq s) as [|h rest] eqn:Hq; [discriminate|].
    destruct ((k =? h) && mem h (done s)
              && ((w <=? length (h :: rest)) && (next s <? length rs) || (length rs <=? next s))) eqn:Hg;
      [|discriminate].
    unfold consumed in Hseq. rewrite Hr in Hseq. rewrite app_nil_r in Hseq.
    cbn [length] in Hlen.
    destruct (is_err (nth_res rs h)) eqn:He; injection Hstep as <-;
      unfold inv, consumed; cbn [next dq done out raised]; split7.
    + rewrite <- app_assoc. exact Hseq.
    + lia.
    + exact Hn.
    + exact Hdone.
    + exact Hnd.
    + exact Hout.
    + intros h' H. injection H as <-. exact He.
    + rewrite app_nil_r, <- app_assoc. exact Hseq.
    + lia.
    + exact Hn.
    + exact Hdone.
    + exact Hnd.
    + intros i Hi. apply in_app_or in Hi. destruct Hi as [Hi|[Hi|[]]]; [apply Hout; exact Hi|subst i; exact He].
    + intros h' H. discriminate.
Qed.

Lemma run_inv w rs : 0 < w -> forall tr s s', inv w rs s -> run w rs s tr = Some s' -> inv w rs s'.
Proof.
  intros Hw. induction tr as [|a t IH]; intros s s' Hi Hr; cbn [run] in Hr.
  - injection Hr as <-. exact Hi.
  - destruct (step w rs s a) as [s1|] eqn:Hs; [|discriminate].
    apply (IH s1 s'); [apply (step_inv w rs s a s1 Hw Hi Hs)|exact Hr].
Qed.

Lemma reachable_inv w rs tr s : 0 < w -> run w rs init tr = Some s -> inv w rs s.
Proof. intros Hw H. apply (run_inv w rs Hw tr init s (inv_init w rs) H). Qed.

(* ------------------------------------------------------------------ consequences *)

Lemma inv_final_observed w rs s : inv w rs s -> final rs s -> observed rs s = spec rs.
Proof.
  intros (Hseq & Hlen & Hn & Hdone & Hnd & Hout & Hrz) Hf.
  unfold final in Hf. unfold observed, consumed in *.
  destruct (raised s) as [h|] eqn:Hr.
  - (* the generator raised at h *)
    rewrite <- app_assoc in Hseq.
    destruct (app_seq_split _ _ _ _ Hseq) as (Ho & Hrest & Hl).
    cbn [app] in Hrest. cbn [Nat.add] in Hrest.
    assert (Hh : h = length (out s)).
    { destruct (next s - length (out s)) as [|m] eqn:Hm; cbn [seq] in Hrest; [discriminate|].
      injection Hrest as Hh _. exact Hh. }
    assert (He : is_err (nth_res rs h) = true) by (apply Hrz; reflexivity).
    destruct (nth_res rs h) as [v|e|] eqn:Hnth; cbn in He; try discriminate.
    assert (Hpre : forall i, i < h -> is_err (nth_res rs i) = false).
    { intros i Hi. apply Hout. rewrite Ho. apply in_seq. lia. }
    destruct (spec_prefix rs h Hpre) as (_ & H2).
    rewrite (H2 e Hnth). rewrite Ho at 1. rewrite <- Hh. reflexivity.
  - destruct Hf as (Hnx & Hq). rewrite Hq, !app_nil_r in Hseq.
    assert (Hpre : forall i, i < length rs -> is_err (nth_res rs i) = false).
    { intros i Hi. apply Hout. rewrite Hseq. apply in_seq. lia. }
    destruct (spec_prefix rs (length rs) Hpre) as (H1 & _).
    rewrite (H1 eq_refl). rewrite Hseq, Hnx. reflexivity.
Qed.

Lemma inv_out_prefix w rs s : inv w rs s -> out s = seq 0 (length (out s)) /\ length (out s) <= next s.
Proof.
  intros (Hseq & _). unfold consumed in Hseq. rewrite <- app_assoc in Hseq.
  destruct (app_seq_split _ _ _ _ Hseq) as (Ho & _ & Hl). split; assumption.
Qed.

Lemma inv_nodup w rs s : inv w rs s -> NoDup (consumed s ++ dq s) /\ NoDup (done s).
Proof.
  intros (Hseq & _ & _ & _ & Hnd & _). split; [rewrite Hseq; apply seq_NoDup|exact Hnd].
Qed.

Lemma inv_progress w rs s : 0 < w -> inv w rs s -> ~ final rs s -> exists a s', step w rs s a = Some s'.
Proof.
  intros Hw (Hseq & Hlen & Hn & Hdone & Hnd & Hout & Hrz) Hnf.
  unfold final in Hnf. destruct (raised s) as [h|] eqn:Hr; [exfalso; apply Hnf; exact I|].
  destruct (dq s) as [|h rest] eqn:Hq.
  - (* nothing queued: the stream is not exhausted, submit *)
    assert (Hlt : next s < length rs).
    { destruct (Nat.eq_dec (next s) (length rs)) as [E|E]; [exfalso; apply Hnf; split; [exact E|reflexivity]|lia]. }
    exists (Submit (next s)). eexists. cbn [step]. rewrite Hr, Hq. cbn [length].
    rewrite Nat.eqb_refl. replace (next s <? length rs) with true by (symmetry; apply Nat.ltb_lt; lia).
    replace (0 <? w) with true by (symmetry; apply Nat.ltb_lt; lia). reflexivity.
  - assert (Hin : In h (seq 0 (next s))).
    { rewrite <- Hseq. apply in_or_app. right. try rewrite Hq. left. reflexivity. }
    apply in_seq in Hin.
    destruct (mem h (done s)) eqn:Hm.
    + (* the head is complete: yield it, or submit when the queue is not full *)
      destruct (((w <=? length (dq s)) && (next s <? length rs)) || (length rs <=? next s)) eqn:Hg.
      * exists (Yield h). cbn [step]. rewrite Hr, Hq. rewrite Hq in Hg. rewrite Nat.eqb_refl, Hm, Hg. cbn [andb].
        destruct (is_err (nth_res rs h)); eexists; reflexivity.
      * apply orb_false_iff in Hg. destruct Hg as (Hg1 & Hg2). apply Nat.leb_gt in Hg2.
        apply andb_false_iff in Hg1. destruct Hg1 as [Hg1|Hg1];
          [apply Nat.leb_gt in Hg1|apply Nat.ltb_ge in Hg1; lia].
        exists (Submit (next s)). eexists. cbn [step]. rewrite Hr, Nat.eqb_refl.
        replace (next s <? length rs) with true by (symmetry; apply Nat.ltb_lt; lia).
        replace (length (dq s) <? w) with true by (symmetry; apply Nat.ltb_lt; lia). reflexivity.
    + (* the head is still running: it may complete *)
      exists (Complete h). eexists. cbn [step].
      replace (h <? next s) with true by (symmetry; apply Nat.ltb_lt; lia). rewrite Hm. reflexivity.
Qed.

(* every step adds exactly one to next + |done| + |consumed| *)
Definition measure (s : st) : nat := next s + length (done s) + length (consumed s).

Lemma step_measure w rs s a s' : step w rs s a = Some s' -> measure s' = S (measure s).
Proof.
  intros Hstep. destruct a as [k|i|k]; cbn [step] in Hstep.
  - destruct (raised s) eqn:Hr; [discriminate|].
    destruct ((k =? next s) && (next s <? length rs) && (length (dq s) <? w)); [|discriminate].
    injection Hstep as <-. unfold measure, consumed; cbn [next dq done out raised]. rewrite Hr. lia.
  - destruct ((i <? next s) && negb (mem i (done s))); [|discriminate].
    injection Hstep as <-. unfold measure, consumed; cbn [next dq done out raised length]. lia.
  - destruct (raised s) eqn:Hr; [discriminate|]. destruct (dq s) as [|h rest]; [discriminate|].
    destruct ((k =? h) && mem h (done s)
              && ((w <=? length (h :: rest)) && (next s <? length rs) || (length rs <=? next s)));
      [|discriminate].
    destruct (is_err (nth_res rs h)); injection Hstep as <-; unfold measure, consumed;
      cbn [next dq done out raised]; rewrite Hr, !app_length; cbn [length]; lia.
Qed.

Lemma run_measure w rs : forall tr s s', run w rs s tr = Some s' -> measure s' = length tr + measure s.
Proof.
  induction tr as [|a t IH]; intros s s' Hr; cbn [run] in Hr.
  - injection Hr as <-. reflexivity.
  - destruct (step w rs s a) as [s1|] eqn:Hs; [|discriminate].
    rewrite (IH _ _ Hr), (step_measure _ _ _ _ _ Hs). cbn [length]. lia.
Qed.

Lemma inv_measure_bound w rs s : inv w rs s -> measure s <= 3 * length rs.
Proof.
  intros (Hseq & Hlen & Hn & Hdone & Hnd & _).
  assert (H1 : length (done s) <= next s).
  { rewrite <- (seq_length (next s) 0). apply NoDup_incl_length; assumption. }
  assert (H2 : length (consumed s) <= next s).
  { rewrite <- (seq_length (next s) 0), <- Hseq, app_length. lia. }
  unfold measure. lia.
Qed.

(* the deterministic scheduler only emits enabled actions *)
Lemma schedule_accepted w rs prio : forall fuel s, exists s', run w rs s (schedule fuel w rs prio s) = Some s'.
Proof.
  induction fuel as [|f IH]; intros s; cbn [schedule].
  - exists s. reflexivity.
  - destruct (sched_move w rs prio s) as [a|]; [|exists s; reflexivity].
    destruct (step w rs s a) as [s1|] eqn:Hs; [|exists s; reflexivity].
    destruct (IH s1) as (s' & H). exists s'. cbn [run]. rewrite Hs. exact H.
Qed.

(* ------------------------------------------------------------------ collect *)

Lemma keep_some_contents rs : (forall r, In r rs -> is_err r = false) ->
  forall a, keep_some (combine (seq a (length rs)) (map value_of rs)) = contents_from a rs.
Proof.
  induction rs as [|r t IH]; intros H a; [reflexivity|].
  assert (Ht : forall x, In x t -> is_err x = false) by (intros x Hx; apply H; right; exact Hx).
  assert (Hr : is_err r = false) by (apply H; left; reflexivity).
  cbn [length seq map combine]. destruct r as [[c|]|e|]; cbn [value_of keep_some contents_from];
    try (rewrite IH by exact Ht; reflexivity);
    try (cbn in Hr; discriminate).
Qed.

Lemma collect_noerr rs : (forall r, In r rs -> is_err r = false) ->
  collect_model rs = match contents_from 0 rs with [] => CEmpty | l => CList l end.
Proof.
  intros H. unfold collect_model. rewrite (spec_noerr rs H). rewrite map_length.
  rewrite (keep_some_contents rs H 0). reflexivity.
Qed.

Lemma collect_err pre e post : (forall r, In r pre -> is_err r = false) ->
  collect_model (pre ++ Err e :: post) = CRaise e.
Proof. intros H. unfold collect_model. rewrite (spec_at_err pre e post H). reflexivity. Qed.

Lemma contents_from_In rs : forall a i c,
  In (i, c) (contents_from a rs) <-> (a <= i /\ nth_res rs (i - a) = Ok (Some c)).
Proof.
  induction rs as [|r t IH]; intros a i c.
  - cbn. split; [intros []|]. intros (_ & H). unfold nth_res in H. destruct (i - a); discriminate.
  - assert (Hgen : In (i, c) (contents_from (S a) t) <-> (a <= i /\ i <> a /\ nth_res (r :: t) (i - a) = Ok (Some c))).
    { rewrite IH. split.
      - intros (Hle & Hn). repeat split; try lia. replace (i - a) with (S (i - S a)) by lia. exact Hn.
      - intros (Hle & Hne & Hn). split; [lia|]. replace (i - a) with (S (i - S a)) in Hn by lia. exact Hn. }
    destruct r as [[v|]|e|]; cbn [contents_from].
    + cbn [In]. rewrite Hgen. split.
      * intros [H|H]; [injection H as <- <-; split; [lia|]; rewrite Nat.sub_diag; reflexivity|].
        destruct H as (H1 & _ & H3). split; assumption.
      * intros (Hle & Hn). destruct (Nat.eq_dec i a) as [E|E].
        -- left. subst i. rewrite Nat.sub_diag in Hn. cbn in Hn. injection Hn as <-. reflexivity.
        -- right. repeat split; assumption.
    + rewrite Hgen. split; [intros (H1 & _ & H3); split; assumption|].
      intros (Hle & Hn). repeat split; try assumption. intros E. subst i. rewrite Nat.sub_diag in Hn. discriminate.
    + rewrite Hgen. split; [intros (H1 & _ & H3); split; assumption|].
      intros (Hle & Hn). repeat split; try assumption. intros E. subst i. rewrite Nat.sub_diag in Hn. discriminate.
    + rewrite Hgen. split; [intros (H1 & _ & H3); split; assumption|].
      intros (Hle & Hn). repeat split; try assumption. intros E. subst i. rewrite Nat.sub_diag in Hn. discriminate.
Qed.

Lemma contents_from_sorted rs : forall a,
  StronglySorted lt (map fst (contents_from a rs)).
Proof.
  induction rs as [|r t IH]; intros a; [constructor|].
  destruct r as [[v|]|e|]; cbn [contents_from]; try apply IH.
  cbn [map fst]. constructor; [apply IH|].
  apply Forall_forall. intros j Hj. apply in_map_iff in Hj. destruct Hj as ((i & c) & <- & Hin).
  apply contents_from_In in Hin. cbn [fst]. lia.
Qed.

(* ------------------------------------------------------------------ the per-file wrapper *)

Lemma task_warn_iff c t :
  task_result c t = ReadWarn <->
  (on_content c = true /\ e2w c = true /\ exists e, bundle_read (t_read t) = RdFail e).
Proof.
  unfold task_result, func_result. split.
  - destruct (on_content c).
    + destruct (bundle_read (t_read t)) as [|e].
      * destruct (t_func t); discriminate.
      * destruct (e2w c); [|discriminate]. intros _. repeat split. exists e. reflexivity.
    + destruct (t_func t); discriminate.
  - intros (-> & -> & (e & ->)). reflexivity.
Qed.

Definition warn_value (t : task) : option Z :=
  match bundle_read (t_read t), t_func t with
  | RdOk, FRet v => v
  | _, _ => None
  end.

(* under error_to_warning, when the user's function does not raise, no exception reaches the caller
   and every file has its own value: None where its read failed, the function's value elsewhere *)
Lemma read_warnings_local c ts :
  on_content c = true -> e2w c = true ->
  (forall t, In t ts -> exists v, t_func t = FRet v) ->
  spec (map (task_result c) ts) = (map warn_value ts, None).
Proof.
  intros Hoc Hew Hf.
  rewrite spec_noerr.
  - rewrite map_map. f_equal. apply map_ext_in. intros t Ht. destruct (Hf t Ht) as (v & Hv).
    unfold task_result, warn_value, func_result. rewrite Hoc, Hew, Hv.
    destruct (bundle_read (t_read t)); reflexivity.
  - intros r Hr. apply in_map_iff in Hr. destruct Hr as (t & <- & Ht). destruct (Hf t Ht) as (v & Hv).
    unfold task_result, func_result. rewrite Hoc, Hew, Hv. destruct (bundle_read (t_read t)); reflexivity.
Qed.

(* an exception of the user's function is never turned into a warning *)
Lemma func_error_propagates c t e :
  bundle_read (t_read t) = RdOk -> t_func t = FRaise e -> task_result c t = Err e.
Proof.
  intros Hr Hf. unfold task_result, func_result. rewrite Hr, Hf. destruct (on_content c); reflexivity.
Qed.

Lemma read_error_propagates c t e :
  on_content c = true -> e2w c = false -> bundle_read (t_read t) = RdFail e -> task_result c t = Err e.
Proof. intros Hoc Hew Hr. unfold task_result. rewrite Hoc, Hr, Hew. reflexivity. Qed.

(* a bundle read fails iff one of its files fails, with the error of the first failing file *)
Lemma bundle_read_ok l : bundle_read l = RdOk <-> Forall (fun r => r = RdOk) l.
Proof.
  induction l as [|r t IH]; cbn [bundle_read].
  - split; [constructor|reflexivity].
  - destruct r as [|e].
    + rewrite IH. split; [intros H; constructor; [reflexivity|exact H]|intros H; inversion H; assumption].
    + split; [discriminate|]. intros H. inversion H. discriminate.
Qed.

(* ------------------------------------------------------------------ laziness
   imap never runs ahead of its consumer: the number of submitted tasks never exceeds the number of results
   handed to the caller by more than max_workers. *)
Definition lazy (w : nat) (s : st) : Prop := next s <= length (out s) + w.

Lemma step_lazy w rs s a s' : inv w rs s -> lazy w s -> step w rs s a = Some s' -> lazy w s'.
Proof.
  intros (Hseq & Hlen & _) Hl Hstep. unfold lazy in *.
  destruct a as [k|i|k]; cbn [step] in Hstep.
  - destruct (raised s) eqn:Hr; [discriminate|].
    destruct ((k =? next s) && (next s <? length rs) && (length (dq s) <? w)) eqn:Hg; [|discriminate].
    apply andb_prop in Hg. destruct Hg as (_ & Hg3). apply Nat.ltb_lt in Hg3.
    injection Hstep as <-. cbn [next out].
    unfold consumed in Hseq. rewrite Hr, app_nil_r in Hseq.
    apply (f_equal (@length _)) in Hseq. rewrite app_length, seq_length in Hseq. lia.
  - destruct ((i <? next s) && negb (mem i (done s))); [|discriminate].
    injection Hstep as <-. cbn [next out]. exact Hl.
  - destruct (raised s) eqn:Hr; [discriminate|]. destruct (dq s) as [|h rest]; [discriminate|].
    destruct ((k =? h) && mem h (done s)
              && ((w <=? length (h :: rest)) && (next s <? length rs) || (length rs <=? next s)));
      [|discriminate].
    destruct (is_err (nth_res rs h)); injection Hstep as <-; cbn [next out]; [exact Hl|].
    rewrite app_length. cbn [length]. lia.
Qed.

Lemma run_lazy w rs : 0 < w -> forall tr s s', inv w rs s -> lazy w s -> run w rs s tr = Some s' -> lazy w s'.
Proof.
  intros Hw. induction tr as [|a t IH]; intros s s' Hi Hl Hr; cbn [run] in Hr.
  - injection Hr as <-. exact Hl.
  - destruct (step w rs s a) as [s1|] eqn:Hs; [|discriminate].
    apply (IH s1 s'); [exact (step_inv w rs s a s1 Hw Hi Hs)|exact (step_lazy w rs s a s1 Hi Hl Hs)|exact Hr].
Qed.

Lemma reachable_lazy w rs tr s : 0 < w -> run w rs init tr = Some s -> next s <= length (out s) + w.
Proof.
  intros Hw H. apply (run_lazy w rs Hw tr init s (inv_init w rs)); [|exact H].
  unfold lazy, init. cbn. lia.
Qed.

Lemma run_app w rs : forall tr1 tr2 s, run w rs s (tr1 ++ tr2) =
  match run w rs s tr1 with Some s1 => run w rs s1 tr2 | None => None end.
Proof.
  induction tr1 as [|a t IH]; intros tr2 s; cbn [app run]; [reflexivity|].
  destruct (step w rs s a); [apply IH|reflexivity].
Qed.

(* file k is not submitted before the result of file k - w has been handed to the caller *)
Lemma submit_waits w rs pre k s : 0 < w -> run w rs init (pre ++ [Submit k]) = Some s ->
  next s = S k /\ k < length (out s) + w
  /\ exists s0, run w rs init pre = Some s0 /\ out s = out s0 /\ k < length (out s0) + w.
Proof.
  intros Hw H. assert (Hl := reachable_lazy w rs _ s Hw H).
  rewrite run_app in H. destruct (run w rs init pre) as [s0|] eqn:H0; [|discriminate].
  cbn [run] in H. destruct (step w rs s0 (Submit k)) as [s1|] eqn:Hs; [|discriminate]. injection H as ->.
  cbn [step] in Hs. destruct (raised s0); [discriminate|].
  destruct ((k =? next s0) && (next s0 <? length rs) && (length (dq s0) <? w)) eqn:Hg; [|discriminate].
  apply andb_prop in Hg. destruct Hg as (Hg & _). apply andb_prop in Hg. destruct Hg as (Hg & _).
  apply Nat.eqb_eq in Hg. injection Hs as <-. cbn [next out] in *.
  split; [lia|]. split; [lia|]. exists s0. split; [reflexivity|]. split; [reflexivity|lia].
Qed.

(* ------------------------------------------------------------------ independence
   the per-file wrapper has no state shared between tasks: the results of a stream are `map f` of the stream *)
Section Independent.
  Context {A : Type} (f : A -> res).

  Lemma nth_res_map (xs : list A) i d : i < length xs -> nth_res (map f xs) i = f (nth i xs d).
  Proof.
    intros Hi. unfold nth_res. rewrite (nth_indep (map f xs) ReadWarn (f d)) by (rewrite map_length; exact Hi).
    apply map_nth.
  Qed.

  (* every reachable state, ANY schedule: the i-th value handed to the caller is the value of the i-th task
     of the stream, a raised exception is the one of its own task, and the i-th result does not change when
     the OTHER tasks of the stream are replaced *)
  Lemma stream_results_independent (xs : list A) w tr s : 0 < w ->
    run w (map f xs) init tr = Some s ->
    (forall i d, i < length (out s) ->
        i < length xs /\ nth i (fst (observed (map f xs) s)) None = value_of (f (nth i xs d)))
    /\ (forall h d, raised s = Some h ->
        h < length xs /\ exists e, f (nth h xs d) = Err e /\ snd (observed (map f xs) s) = Some e)
    /\ (forall xs' i d, i < length xs -> i < length xs' -> nth i xs d = nth i xs' d ->
        nth_res (map f xs) i = nth_res (map f xs') i).
  Proof.
    intros Hw H. assert (Hi := reachable_inv w _ tr s Hw H).
    destruct (inv_out_prefix w _ s Hi) as (Hp & Hle).
    destruct Hi as (Hseq & _ & Hn & _ & _ & _ & Hrz). rewrite map_length in Hn.
    split; [|split].
    - intros i d Hlt. assert (Hx : i < length xs) by lia. split; [exact Hx|].
      unfold observed. cbn [fst]. rewrite Hp.
      set (g := fun j => value_of (nth_res (map f xs) j)).
      rewrite (nth_indep (map g (seq 0 (length (out s)))) None (g 0))
        by (rewrite map_length, seq_length; exact Hlt).
      rewrite map_nth, seq_nth by exact Hlt. cbn [Nat.add]. unfold g.
      rewrite (nth_res_map xs i d Hx). reflexivity.
    - intros h d Hr. assert (Hh : h < length xs).
      { assert (Hin : In h (seq 0 (next s))).
        { rewrite <- Hseq. unfold consumed. rewrite Hr. apply in_or_app. left. apply in_or_app. right.
          left. reflexivity. }
        apply in_seq in Hin. lia. }
      split; [exact Hh|]. specialize (Hrz h Hr). unfold observed. cbn [snd]. rewrite Hr.
      rewrite (nth_res_map xs h d Hh) in *. destruct (f (nth h xs d)) as [v|e|]; try discriminate.
      exists e. split; reflexivity.
    - intros xs' i d H1 H2 He. rewrite (nth_res_map xs i d H1), (nth_res_map xs' i d H2), He. reflexivity.
  Qed.
End Independent.
