(* C03 -- the fuel of `build` is never exhausted; depth of the tree *)
From Coq Require Import ZArith List Bool Lia Permutation Sorted PeanoNat.
From Typhon Require Import Model.C03_tree Proofs.C03_tree Model.C03_match.
Import ListNotations.
Open Scope Z_scope.

Definition pc (c : Z) := fun i : ivl => (lo i <=? c) && (c <=? hi i).
Definition pl (c : Z) := fun i : ivl => hi i <? c.
Definition pr (c : Z) := fun i : ivl => c <? lo i.

(* both sub-lists are strictly shorter: the row that gave the centre stays in the centre bin *)
Lemma sublists_shorter l : l <> [] -> Forall wf l ->
  (length (filter (pl (center_of l)) l) < length l)%nat /\
  (length (filter (pr (center_of l)) l) < length l)%nat.
Proof.
  intros Hne Hwf. destruct (center_in l Hne) as (x & Hx & Hxc).
  assert (Hxwf : wf x) by (rewrite Forall_forall in Hwf; auto).
  split; apply filter_length_lt with x; try exact Hx; unfold pl, pr, wf in *; lia.
Qed.

Lemma build_built_lemma : forall fuel l, (length l <= fuel)%nat -> Forall wf l -> built l (build fuel l).
Proof.
  induction fuel as [|f IH]; intros l Hlen Hwf.
  - destruct l; [constructor|cbn [length] in Hlen; lia].
  - destruct l as [|a0 t0]; [constructor|]. remember (a0 :: t0) as l eqn:El.
    assert (Hne : l <> []) by (rewrite El; discriminate). clear El a0 t0.
    rewrite (build_S f l Hne).
    destruct (sublists_shorter l Hne Hwf) as [Hl Hr]. unfold pl, pr in Hl, Hr.
    constructor; [exact Hne| |]; apply IH; try lia; apply Forall_filter; exact Hwf.
Qed.

Lemma build_fuel_indep : forall f1 f2 l, (length l <= f1)%nat -> (length l <= f2)%nat -> Forall wf l ->
  build f1 l = build f2 l.
Proof.
  induction f1 as [|f1 IH]; intros f2 l H1 H2 Hwf.
  - destruct l; [destruct f2; reflexivity|cbn [length] in H1; lia].
  - destruct l as [|a0 t0]; [destruct f2; reflexivity|]. remember (a0 :: t0) as l eqn:El.
    assert (Hne : l <> []) by (rewrite El; discriminate).
    destruct f2 as [|f2]; [rewrite El in H2; cbn [length] in H2; lia|]. clear El a0 t0.
    rewrite !(build_S _ l Hne).
    destruct (sublists_shorter l Hne Hwf) as [Hl Hr]. unfold pl, pr in Hl, Hr.
    f_equal; apply IH; try lia; apply Forall_filter; exact Hwf.
Qed.

Lemma build_fuel_enough fuel l : (length l <= fuel)%nat -> Forall wf l -> build fuel l = build (length l) l.
Proof. intros H Hwf. apply build_fuel_indep; [exact H|lia|exact Hwf]. Qed.

Lemma built_unique l t1 : built l t1 -> forall t2, built l t2 -> t1 = t2.
Proof.
  induction 1 as [|l tl tr Hne Hl IHl Hr IHr]; intros t2 H2.
  - inversion H2; [reflexivity|]. subst. contradiction.
  - inversion H2 as [|l' tl' tr' Hne' Hl' Hr']; subst; [contradiction|].
    f_equal; [apply IHl|apply IHr]; assumption.
Qed.

Lemma depth_le_length : forall fuel l, Forall wf l -> (depth (build fuel l) <= length l)%nat.
Proof.
  induction fuel as [|f IH]; intros l Hwf; [cbn; lia|].
  destruct l as [|a0 t0]; [cbn; lia|]. remember (a0 :: t0) as l eqn:El.
  assert (Hne : l <> []) by (rewrite El; discriminate). clear El a0 t0.
  rewrite (build_S f l Hne). cbn [depth].
  destruct (sublists_shorter l Hne Hwf) as [Hl Hr]. unfold pl, pr in Hl, Hr.
  pose proof (IH _ (Forall_filter wf (fun i => hi i <? center_of l) l Hwf)).
  pose proof (IH _ (Forall_filter wf (fun i => center_of l <? lo i) l Hwf)).
  lia.
Qed.

(* ---------- distinct left ends: both sub-lists hold at most half of the rows ---------- *)
Definition lo_lt (a b : ivl) : Prop := lo a < lo b.

Lemma ssorted_app_inv {A} (R : A -> A -> Prop) (a : list A) x b :
  StronglySorted R (a ++ x :: b) -> Forall (fun y => R y x) a /\ Forall (R x) b.
Proof.
  induction a as [|y a IH]; cbn [app]; intros H.
  - inversion H; subst. split; [constructor|assumption].
  - inversion H as [|? ? Hs Hall]; subst. destruct (IH Hs) as [H1 H2]. split; [|exact H2].
    constructor; [|exact H1]. rewrite Forall_forall in Hall. apply Hall. apply in_or_app. right. left. reflexivity.
Qed.

Lemma ssorted_filter {A} (R : A -> A -> Prop) f (l : list A) : StronglySorted R l -> StronglySorted R (filter f l).
Proof.
  induction 1 as [|a l Hs IH Hall]; cbn [filter]; [constructor|].
  destruct (f a); [|exact IH]. constructor; [exact IH|].
  rewrite Forall_forall in *. intros x Hx. apply filter_In in Hx. apply Hall. tauto.
Qed.

Lemma div2_bounds n : (n <= 2 * Nat.div2 n + 1)%nat /\ (2 * Nat.div2 n <= n)%nat.
Proof. pose proof (Nat.div2_odd n) as H. destruct (Nat.odd n); cbn [Nat.b2n] in H; lia. Qed.

Lemma sublists_half l : l <> [] -> Forall wf l -> StronglySorted lo_lt l ->
  (length (filter (pl (center_of l)) l) <= Nat.div2 (length l))%nat /\
  (length (filter (pr (center_of l)) l) <= Nat.div2 (length l))%nat.
Proof.
  intros Hne Hwf Hs. unfold center_of.
  set (d := {| lo := 0; hi := 0; idx := 0 |}). set (m := Nat.div2 (length l)).
  assert (Hm : (m < length l)%nat).
  { destruct l; [contradiction|]. apply Nat.lt_div2. cbn [length]. lia. }
  destruct (nth_split l d Hm) as (a & b & El & Ha).
  set (x := nth m l d) in *. set (c := lo x).
  assert (Hlen : length l = (m + S (length b))%nat).
  { rewrite El at 1. rewrite app_length. cbn [length]. lia. }
  rewrite El in Hs. destruct (ssorted_app_inv lo_lt a x b Hs) as [Hlt Hgt].
  assert (Hwfb : Forall wf (x :: b)).
  { rewrite El in Hwf. apply Forall_app in Hwf. tauto. }
  pose proof (div2_bounds (length l)) as [Hd1 Hd2]. fold m in Hd1, Hd2.
  split.
  - rewrite El at 1. rewrite filter_app, app_length.
    rewrite (filter_all_false (pl c) (x :: b)).
    + cbn [length]. pose proof (filter_length_le' (pl c) a). lia.
    + intros y Hy. rewrite Forall_forall in Hwfb. specialize (Hwfb y Hy). unfold wf in Hwfb.
      unfold pl, c. destruct Hy as [<-|Hy]; [lia|].
      rewrite Forall_forall in Hgt. specialize (Hgt y Hy). unfold lo_lt in Hgt. lia.
  - rewrite El at 1. rewrite filter_app, app_length.
    rewrite (filter_all_false (pr c) a).
    + cbn [filter length]. assert (E : pr c x = false) by (unfold pr, c; lia). rewrite E.
      pose proof (filter_length_le' (pr c) b). lia.
    + intros y Hy. rewrite Forall_forall in Hlt. specialize (Hlt y Hy). unfold lo_lt in Hlt.
      unfold pr, c. lia.
Qed.

Lemma depth_log_lemma : forall k fuel l, Forall wf l -> StronglySorted lo_lt l ->
  (length l < 2 ^ k)%nat -> (depth (build fuel l) <= k)%nat.
Proof.
  induction k as [|k IH]; intros fuel l Hwf Hs Hlen.
  - cbn in Hlen. destruct l; [destruct fuel; cbn; lia|cbn [length] in Hlen; lia].
  - destruct fuel as [|f]; [cbn; lia|].
    destruct l as [|a0 t0]; [cbn; lia|]. remember (a0 :: t0) as l eqn:El.
    assert (Hne : l <> []) by (rewrite El; discriminate). clear El a0 t0.
    rewrite (build_S f l Hne). cbn [depth].
    destruct (sublists_half l Hne Hwf Hs) as [Hl Hr]. unfold pl, pr in Hl, Hr.
    pose proof (div2_bounds (length l)) as [Hd1 Hd2].
    rewrite Nat.pow_succ_r' in Hlen.
    assert (H1 : (depth (build f (filter (fun i => (hi i <? center_of l)%Z) l)) <= k)%nat).
    { apply IH; [apply Forall_filter; exact Hwf|apply ssorted_filter; exact Hs|lia]. }
    assert (H2 : (depth (build f (filter (fun i => (center_of l <? lo i)%Z) l)) <= k)%nat).
    { apply IH; [apply Forall_filter; exact Hwf|apply ssorted_filter; exact Hs|lia]. }
    lia.
Qed.

(* ---------- the list handed to build by mk_tree ---------- *)
Lemma insert_lo_lt_sorted x l : StronglySorted lo_lt l -> ~ In (lo x) (map lo l) -> StronglySorted lo_lt (insert_lo x l).
Proof.
  induction l as [|y t IH]; cbn [insert_lo map In]; intros Hs Hnin.
  - repeat constructor.
  - inversion Hs as [|? ? Hs' Hall]; subst.
    assert (Hxy : lo x <> lo y) by (intros E; apply Hnin; left; symmetry; exact E).
    destruct (lo x <=? lo y) eqn:E.
    + constructor; [exact Hs|]. constructor; [unfold lo_lt; lia|].
      rewrite Forall_forall in *. intros z Hz. specialize (Hall z Hz). unfold lo_lt in *. lia.
    + constructor; [apply IH; [exact Hs'|intros H; apply Hnin; right; exact H]|].
      rewrite Forall_forall in *. intros z Hz.
      apply (Permutation_in _ (insert_lo_perm x t)) in Hz. destruct Hz as [<-|Hz]; [unfold lo_lt; lia|auto].
Qed.

Lemma sort_lo_lt_sorted l : NoDup (map lo l) -> StronglySorted lo_lt (sort_lo l).
Proof.
  unfold sort_lo. induction l as [|x t IH]; cbn [sort_lo_rev map]; intros Hnd; [constructor|].
  inversion Hnd as [|? ? Hnin Hnd']; subst.
  apply insert_lo_lt_sorted; [apply IH; exact Hnd'|].
  intros Hin. apply Hnin. eapply Permutation_in; [|exact Hin].
  apply Permutation_map. apply (sort_lo_perm t).
Qed.

Lemma sort_lo_wf ivs : Forall wf ivs -> Forall wf (sort_lo ivs).
Proof. intros H. eapply Permutation_Forall; [symmetry; apply sort_lo_perm|exact H]. Qed.

Lemma sort_lo_length ivs : length (sort_lo ivs) = length ivs.
Proof. apply Permutation_length, sort_lo_perm. Qed.

Lemma mk_tree_built ivs : Forall wf ivs -> built (sort_lo ivs) (mk_tree ivs).
Proof.
  intros H. unfold mk_tree. apply build_built_lemma; [rewrite sort_lo_length; lia|apply sort_lo_wf; exact H].
Qed.

Lemma mk_tree_more_fuel ivs k : Forall wf ivs -> build (length ivs + k) (sort_lo ivs) = mk_tree ivs.
Proof.
  intros H. unfold mk_tree. apply build_fuel_indep; try (rewrite sort_lo_length; lia). apply sort_lo_wf; exact H.
Qed.

Lemma mk_tree_depth ivs : Forall wf ivs -> (depth (mk_tree ivs) <= length ivs)%nat.
Proof.
  intros H. unfold mk_tree. rewrite <- (sort_lo_length ivs) at 2. apply depth_le_length. apply sort_lo_wf; exact H.
Qed.

Lemma mk_tree_depth_log ivs k : Forall wf ivs -> NoDup (map lo ivs) -> (length ivs < 2 ^ k)%nat ->
  (depth (mk_tree ivs) <= k)%nat.
Proof.
  intros H Hnd Hlen. unfold mk_tree. apply depth_log_lemma.
  - apply sort_lo_wf; exact H.
  - apply sort_lo_lt_sorted; exact Hnd.
  - rewrite sort_lo_length. exact Hlen.
Qed.
