(* C05 -- proofs about the bundling state machine, np.array_split and the output fileset of
   Collocator.collocate_filesets (Model/C05_pipeline.v).

   (1) the bundling loop loses nothing and never emits an empty bundle;
   (2) array_split k l has k chunks whose concatenation is l;
   (3) writing the sets under pairwise distinct names keeps them all; with equal names one is lost
       (refutation example with the microsecond-truncated name);
   (4) the mutant without the final flush loses data. *)
From Coq Require Import ZArith List Bool Lia Permutation Arith.
From Typhon Require Import Model.C05_pipeline.
Import ListNotations.

(* ------------------------------------------------------------------ *)
(* (1) bundling loop                                                   *)
(* ------------------------------------------------------------------ *)

Lemma concat_map_concat : forall X (L : list (list (list X))),
  concat (map (@concat X) L) = concat (concat L).
Proof.
  intros X L. induction L as [|g L IH].
  - reflexivity.
  - cbn [map concat]. rewrite concat_app. rewrite IH. reflexivity.
Qed.

Lemma somes_cons_some : forall pidx s r, somes ((pidx, Some s) :: r) = s :: somes r.
Proof. intros pidx s r. reflexivity. Qed.

Lemma somes_cons_none : forall pidx r, somes ((pidx, None) :: r) = somes r.
Proof. intros pidx r. reflexivity. Qed.

Lemma loop_lossless_nil_items : forall md cache cur,
  concat (concat (loop md [] cache cur)) = concat cache ++ concat (somes []).
Proof.
  intros md cache cur. cbn [loop somes flat_map concat]. rewrite app_nil_r.
  destruct cache as [|c0 cr].
  - reflexivity.
  - cbn [concat]. rewrite app_nil_r. reflexivity.
Qed.

(* NOTE on the statement: in mode MNone the loop emits [s] immediately and flushes `cache` only at the
   end, so with a NON-EMPTY initial cache the order differs (s comes before the cache) and the equality
   is false (see loop_lossless_unrestricted_refuted).  The code never fills the cache in mode MNone;
   hence the side condition  md = MNone -> cache = [].  Without it only a permutation holds
   (loop_lossless_perm). *)
Lemma loop_lossless : forall md items cache cur,
  (md = MNone -> cache = []) ->
  concat (concat (loop md items cache cur)) = concat cache ++ concat (somes items).
Proof.
  intros md items. induction items as [|it r IH]; intros cache cur Hc.
  - apply loop_lossless_nil_items.
  - destruct it as [pidx o]. destruct o as [s|].
    + rewrite somes_cons_some. cbn [concat].
      destruct md eqn:Emd.
      * (* MNone *)
        cbn [loop]. cbn [concat]. rewrite concat_app. rewrite (IH cache cur Hc).
        rewrite (Hc eq_refl). cbn [concat app]. rewrite app_nil_r. reflexivity.
      * (* MPrimary *)
        cbn [loop].
        destruct (match cur with None => false | Some t0 => negb (Z.eqb t0 (tag_of MPrimary pidx s)) end)
          eqn:Esave.
        -- cbn [concat]. rewrite concat_app.
           rewrite IH by (intros Hd; discriminate Hd).
           cbn [concat]. rewrite app_nil_r. reflexivity.
        -- rewrite IH by (intros Hd; discriminate Hd).
           rewrite concat_app. cbn [concat]. rewrite app_nil_r. rewrite <- app_assoc. reflexivity.
      * (* MDaily *)
        cbn [loop].
        destruct (match cur with None => false | Some t0 => negb (Z.eqb t0 (tag_of MDaily pidx s)) end)
          eqn:Esave.
        -- cbn [concat]. rewrite concat_app.
           rewrite IH by (intros Hd; discriminate Hd).
           cbn [concat]. rewrite app_nil_r. reflexivity.
        -- rewrite IH by (intros Hd; discriminate Hd).
           rewrite concat_app. cbn [concat]. rewrite app_nil_r. rewrite <- app_assoc. reflexivity.
    + rewrite somes_cons_none. cbn [loop]. apply IH. exact Hc.
Qed.

Lemma loop_lossless_perm : forall md items cache cur,
  Permutation (concat (concat (loop md items cache cur))) (concat cache ++ concat (somes items)).
Proof.
  intros md items cache cur. destruct md eqn:Emd.
  - (* MNone : the only mode in which the order can differ *)
    revert cache cur. induction items as [|it r IH]; intros cache cur.
    + rewrite (loop_lossless_nil_items MNone cache cur). apply Permutation_refl.
    + destruct it as [pidx o]. destruct o as [s|].
      * rewrite somes_cons_some. cbn [loop concat]. rewrite concat_app. cbn [concat].
        rewrite app_nil_r.
        eapply Permutation_trans.
        -- apply Permutation_app_head. apply IH.
        -- rewrite !app_assoc. apply Permutation_app_tail. apply Permutation_app_comm.
      * rewrite somes_cons_none. cbn [loop]. apply IH.
  - rewrite loop_lossless by (intros Hd; discriminate Hd). apply Permutation_refl.
  - rewrite loop_lossless by (intros Hd; discriminate Hd). apply Permutation_refl.
Qed.

Example loop_lossless_unrestricted_refuted : exists md items cache cur,
  concat (concat (loop md items cache cur)) <> concat cache ++ concat (somes items).
Proof.
  pose (a := {| ptime := 0; pid := 1 |}). pose (b := {| ptime := 0; pid := 2 |}).
  exists MNone, [(0%Z, Some [(b, b)])], [[(a, a)]], None.
  vm_compute. intros H. discriminate H.
Qed.

Theorem bundling_lossless_lemma : forall md items,
  concat (map (@concat (pt * pt)) (loop md items [] None)) = concat (somes items).
Proof.
  intros md items. rewrite concat_map_concat.
  rewrite loop_lossless by (intros _; reflexivity). reflexivity.
Qed.

Lemma loop_nonempty : forall md items cache cur,
  (cur <> None -> cache <> []) -> Forall (fun g : list cset => g <> []) (loop md items cache cur).
Proof.
  intros md items. induction items as [|it r IH]; intros cache cur Hc.
  - cbn [loop]. destruct cache as [|c0 cr].
    + constructor.
    + constructor.
      * intros Hd. discriminate Hd.
      * constructor.
  - destruct it as [pidx o]. destruct o as [s|].
    + assert (Hsnoc : forall c : list cset, c ++ [s] <> []).
      { intros c Hd. apply app_eq_nil in Hd. destruct Hd as [_ Hd]. discriminate Hd. }
      destruct md eqn:Emd.
      * cbn [loop]. constructor.
        -- intros Hd. discriminate Hd.
        -- apply IH. exact Hc.
      * cbn [loop]. destruct cur as [t0|].
        -- destruct (negb (Z.eqb t0 (tag_of MPrimary pidx s))) eqn:Esave.
           ++ constructor.
              ** apply Hc. intros Hd. discriminate Hd.
              ** apply IH. intros _ Hd. discriminate Hd.
           ++ apply IH. intros _. apply Hsnoc.
        -- apply IH. intros _. apply Hsnoc.
      * cbn [loop]. destruct cur as [t0|].
        -- destruct (negb (Z.eqb t0 (tag_of MDaily pidx s))) eqn:Esave.
           ++ constructor.
              ** apply Hc. intros Hd. discriminate Hd.
              ** apply IH. intros _ Hd. discriminate Hd.
           ++ apply IH. intros _. apply Hsnoc.
        -- apply IH. intros _. apply Hsnoc.
    + cbn [loop]. apply IH. exact Hc.
Qed.

Theorem bundles_nonempty_lemma : forall md items,
  Forall (fun g => g <> []) (loop md items [] None).
Proof.
  intros md items. apply loop_nonempty. intros Hd. exfalso. apply Hd. reflexivity.
Qed.

(* ------------------------------------------------------------------ *)
(* (2) np.array_split                                                  *)
(* ------------------------------------------------------------------ *)

Lemma take_chunks_concat : forall X (sizes : list nat) (l : list X),
  (length l <= fold_right Nat.add 0 sizes)%nat -> concat (take_chunks sizes l) = l.
Proof.
  intros X sizes. induction sizes as [|s r IH]; intros l Hlen.
  - cbn [fold_right] in Hlen. destruct l as [|x l].
    + reflexivity.
    + cbn [length] in Hlen. lia.
  - cbn [take_chunks concat]. cbn [fold_right] in Hlen.
    rewrite IH.
    + apply firstn_skipn.
    + rewrite skipn_length. lia.
Qed.

Lemma take_chunks_length : forall X (sizes : list nat) (l : list X),
  length (take_chunks sizes l) = length sizes.
Proof.
  intros X sizes. induction sizes as [|s r IH]; intros l.
  - reflexivity.
  - cbn [take_chunks length]. rewrite IH. reflexivity.
Qed.

Lemma sum_repeat : forall a m, fold_right Nat.add 0%nat (repeat a m) = (m * a)%nat.
Proof.
  intros a m. induction m as [|m IH].
  - reflexivity.
  - cbn [repeat fold_right]. rewrite IH. lia.
Qed.

Lemma sum_app : forall l1 l2,
  fold_right Nat.add 0%nat (l1 ++ l2) = (fold_right Nat.add 0 l1 + fold_right Nat.add 0 l2)%nat.
Proof.
  intros l1 l2. induction l1 as [|x l1 IH].
  - reflexivity.
  - cbn [app fold_right]. rewrite IH. lia.
Qed.

Lemma split_sizes_sum : forall n k, (0 < k)%nat -> fold_right Nat.add 0%nat (split_sizes n k) = n.
Proof.
  intros n k Hk. unfold split_sizes. rewrite sum_app, !sum_repeat.
  assert (Hk0 : k <> 0%nat) by lia.
  pose proof (Nat.div_mod n k Hk0) as Hdm.
  pose proof (Nat.mod_upper_bound n k Hk0) as Hub.
  remember (n / k)%nat as q eqn:Eq.
  remember (n mod k)%nat as m eqn:Em.
  remember (k - m)%nat as d eqn:Ed.
  assert (Hkd : k = (m + d)%nat) by lia.
  rewrite Hkd in Hdm. nia.
Qed.

Lemma split_sizes_length : forall n k, (0 < k)%nat -> length (split_sizes n k) = k.
Proof.
  intros n k Hk. unfold split_sizes. rewrite app_length, !repeat_length.
  assert (Hk0 : k <> 0%nat) by lia.
  pose proof (Nat.mod_upper_bound n k Hk0) as Hub. lia.
Qed.

Theorem array_split_concat_lemma : forall X k (l : list X),
  (0 < k)%nat -> concat (array_split k l) = l.
Proof.
  intros X k l Hk. unfold array_split. apply take_chunks_concat.
  rewrite split_sizes_sum by exact Hk. apply Nat.le_refl.
Qed.

Theorem array_split_length_lemma : forall X k (l : list X),
  (0 < k)%nat -> length (array_split k l) = k.
Proof.
  intros X k l Hk. unfold array_split. rewrite take_chunks_length.
  apply split_sizes_length. exact Hk.
Qed.

Lemma array_split_nil0 : forall X, @array_split X 0 [] = [].
Proof. intros X. reflexivity. Qed.

(* ------------------------------------------------------------------ *)
(* (3) output fileset                                                  *)
(* ------------------------------------------------------------------ *)

Lemma fs_write_fresh : forall (name : Z * Z) (data : cset) (d : fs),
  ~ In name (map fst d) -> fs_write name data d = d ++ [(name, data)].
Proof.
  intros name data d. induction d as [|e r IH]; intros Hnin.
  - reflexivity.
  - destruct e as [n x]. cbn [fs_write app].
    destruct ((fst n =? fst name)%Z && (snd n =? snd name)%Z) eqn:Etest.
    + exfalso. apply Hnin. cbn [map fst]. left.
      apply andb_true_iff in Etest. destruct Etest as [E1 E2].
      apply Z.eqb_eq in E1. apply Z.eqb_eq in E2.
      destruct n as [n1 n2]. destruct name as [m1 m2]. cbn [fst snd] in E1, E2.
      subst. reflexivity.
    + rewrite IH.
      * reflexivity.
      * intros Hin. apply Hnin. cbn [map]. right. exact Hin.
Qed.

Lemma write_fold_fresh : forall (nm : cset -> Z * Z) (sets : list cset) (d : fs),
  NoDup (map fst d ++ map nm sets) ->
  map snd (fold_left (fun d s => fs_write (nm s) s d) sets d) = map snd d ++ sets.
Proof.
  intros nm sets. induction sets as [|s r IH]; intros d Hnd.
  - cbn [fold_left]. rewrite app_nil_r. reflexivity.
  - cbn [fold_left]. cbn [map] in Hnd.
    assert (Hfresh : ~ In (nm s) (map fst d)).
    { apply NoDup_remove_2 in Hnd. intros Hin. apply Hnd. apply in_or_app. left. exact Hin. }
    rewrite (fs_write_fresh (nm s) s d Hfresh).
    rewrite IH.
    + rewrite map_app. cbn [map snd]. rewrite <- app_assoc. reflexivity.
    + rewrite map_app. cbn [map fst]. rewrite <- app_assoc. exact Hnd.
Qed.

Theorem file_output_lossless_lemma : forall (nm : cset -> Z * Z) (sets : list cset),
  NoDup (map nm sets) -> Permutation (map snd (write_all nm sets)) sets.
Proof.
  intros nm sets Hnd. unfold write_all.
  rewrite write_fold_fresh.
  - cbn [map app]. apply Permutation_refl.
  - cbn [map app]. exact Hnd.
Qed.

Theorem output_collision_refuted : exists s1 s2 : cset, s1 <> s2 /\ name_of US s1 = name_of US s2 /\
  map snd (write_all (name_of US) [s1; s2]) = [s2].
Proof.
  pose (p := {| ptime := 600000005; pid := 1 |}).
  exists [(p, {| ptime := 600000001; pid := 1001 |})],
         [(p, {| ptime := 600000002; pid := 1002 |})].
  split.
  - intros H. discriminate H.
  - split.
    + vm_compute. reflexivity.
    + vm_compute. reflexivity.
Qed.

(* ------------------------------------------------------------------ *)
(* (4) mutant: no final flush                                          *)
(* ------------------------------------------------------------------ *)

Theorem noflush_refuted : exists md items,
  concat (concat (loop_noflush md items [] None)) <> concat (somes items).
Proof.
  pose (p := {| ptime := 0; pid := 1 |}). pose (s := {| ptime := 0; pid := 2 |}).
  exists MPrimary, [(0%Z, Some [(p, s)])].
  vm_compute. intros H. discriminate H.
Qed.
