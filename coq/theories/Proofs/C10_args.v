(* C10 -- lemmas about the arguments of the per-file wrapper (Model/C10_args.v). *)
From Coq Require Import ZArith List Bool Arith Lia.
From Typhon Require Import Model.C10_args.
Import ListNotations.

(* ------------------------------------------------------------------ deciders *)
Lemma list_eqb_eq {A : Type} (eqb : A -> A -> bool) :
  (forall x y, eqb x y = true <-> x = y) -> forall l l', list_eqb eqb l l' = true <-> l = l'.
Proof.
  intros He. induction l as [|x t IH]; intros [|y t']; cbn [list_eqb]; try (split; [discriminate|discriminate]).
  - split; reflexivity.
  - rewrite andb_true_iff, He, IH. split.
    + intros (-> & ->). reflexivity.
    + intros H. injection H as -> ->. split; reflexivity.
Qed.

Lemma parg_eqb_eq x y : parg_eqb x y = true <-> x = y.
Proof.
  destruct x as [a|a|a|a b], y as [a'|a'|a'|a' b']; cbn [parg_eqb]; try (split; discriminate).
  - rewrite Z.eqb_eq. split; [intros ->; reflexivity|intros H; injection H as ->; reflexivity].
  - rewrite Nat.eqb_eq. split; [intros ->; reflexivity|intros H; injection H as ->; reflexivity].
  - rewrite Nat.eqb_eq. split; [intros ->; reflexivity|intros H; injection H as ->; reflexivity].
  - rewrite andb_true_iff, !Z.eqb_eq. split; [intros (-> & ->); reflexivity|intros H; injection H as -> ->; split; reflexivity].
Qed.

Lemma zpair_eqb_eq x y : zpair_eqb x y = true <-> x = y.
Proof.
  destruct x as (a, b), y as (a', b'). unfold zpair_eqb. cbn [fst snd]. rewrite andb_true_iff, !Z.eqb_eq. split.
  - intros (-> & ->). reflexivity.
  - intros H. injection H as -> ->. split; reflexivity.
Qed.

(* the comparison the tie evaluates: code 0 iff the observed call is exactly the model's call *)
Lemma call_code_zero r o : call_code (Some r) o = 0%Z <-> o = Some (c_pos r, c_kw r).
Proof.
  unfold call_code. destruct o as [(p, k)|]; [|split; discriminate].
  destruct (Nat.eqb (length p) (length (c_pos r))) eqn:El; cbn [negb].
  - destruct (list_eqb parg_eqb p (c_pos r)) eqn:Ep; cbn [negb].
    + destruct (list_eqb zpair_eqb k (c_kw r)) eqn:Ek; cbn [negb].
      * apply (list_eqb_eq _ parg_eqb_eq) in Ep. apply (list_eqb_eq _ zpair_eqb_eq) in Ek. subst.
        split; reflexivity.
      * split; [discriminate|]. intros H. injection H as _ ->.
        rewrite (proj2 (list_eqb_eq _ zpair_eqb_eq _ _) eq_refl) in Ek. discriminate.
    + split; [discriminate|]. intros H. injection H as -> _.
      rewrite (proj2 (list_eqb_eq _ parg_eqb_eq _ _) eq_refl) in Ep. discriminate.
  - split; [discriminate|]. intros H. injection H as -> _. rewrite Nat.eqb_refl in El. discriminate.
Qed.

Lemma after_code_zero before now : after_code before now = 0%Z <-> now = before.
Proof.
  unfold after_code. destruct (list_eqb parg_eqb now before) eqn:E.
  - apply (list_eqb_eq _ parg_eqb_eq) in E. split; [intros _; exact E|reflexivity].
  - split.
    + destruct (length before <? length now); discriminate.
    + intros ->. rewrite (proj2 (list_eqb_eq _ parg_eqb_eq _ _) eq_refl) in E. discriminate.
Qed.

Lemma after_code_grew before x : x <> [] -> after_code before (before ++ x) = 1%Z.
Proof.
  intros Hx. unfold after_code. destruct (list_eqb parg_eqb (before ++ x) before) eqn:E.
  - apply (list_eqb_eq _ parg_eqb_eq) in E. exfalso. apply Hx.
    rewrite <- (app_nil_r before) in E at 2. exact (app_inv_head _ _ _ E).
  - rewrite app_length. destruct x as [|y t]; [contradiction|]. cbn [length].
    destruct (Nat.ltb_spec (length before) (length before + S (length t))); [reflexivity|lia].
Qed.

(* ------------------------------------------------------------------ the machine, every task copying *)
Lemma upd_same {A} (g : nat -> A) i v : upd g i v i = v.
Proof. unfold upd. rewrite Nat.eqb_refl. reflexivity. Qed.

Lemma upd_other {A} (g : nat -> A) i j v : j <> i -> upd g i v j = g j.
Proof. intros H. unfold upd. destruct (Nat.eqb_spec j i); [contradiction|reflexivity]. Qed.

Lemma NoDup_snoc {A} (l : list A) x : NoDup l -> ~ In x l -> NoDup (l ++ [x]).
Proof.
  induction l as [|y t IH]; intros Hnd Hn; cbn [app].
  - constructor; [intros []|constructor].
  - inversion Hnd as [|y' t' Hy Ht]; subst. constructor.
    + intros Hin. apply in_app_or in Hin. destruct Hin as [H|[H|[]]]; [contradiction|].
      subst. apply Hn. left. reflexivity.
    + apply IH; [exact Ht|]. intros H. apply Hn. right. exact H.
Qed.

(* what the local list of a task holds at each point of its wrapper *)
Definition exp_loc (c : acfg) (cell0 : list parg) (p f : nat) : list parg :=
  match p with
  | 0 => []
  | 1 => cell0
  | 2 => cell0 ++ content_part c f
  | _ => cell0 ++ content_part c f ++ info_part c f
  end.

Definition winv (c : acfg) (fs : list nat) (cell0 : list parg) (kw0 : list (Z * Z)) (s : wst) : Prop :=
  cell s = cell0
  /\ kwcell s = kw0
  /\ (forall i f, nth_error fs i = Some f -> loc s i = exp_loc c cell0 (pc s i) f)
  /\ (forall i, pc s i <= 4)
  /\ (forall r, In r (calls s) -> pc s (c_task r) = 4 /\
        exists f, nth_error fs (c_task r) = Some f /\ c_pos r = cell0 ++ file_args c f /\ c_kw r = kw0)
  /\ (forall i, pc s i = 4 -> exists r, In r (calls s) /\ c_task r = i)
  /\ NoDup (map c_task (calls s)).

Lemma winv_init c fs a kw : winv c fs (map PUser (user_args a)) kw (winit a kw).
Proof.
  unfold winv, winit. cbn. repeat split; try reflexivity.
  - intros i. lia.
  - contradiction.
  - contradiction.
  - intros i H. discriminate.
  - constructor.
Qed.

Lemma winv_step c fs cell0 kw0 s i : winv c fs cell0 kw0 s -> winv c fs cell0 kw0 (mstep true c fs s i).
Proof.
  intros H0. assert (H00 := H0). destruct H0 as (Hc & Hk & Hl & Hp & Hcalls & Hdone & Hnd). unfold mstep.
  destruct (nth_error fs i) as [f|] eqn:Ef; [|exact H00].
  destruct (pc s i) as [|[|[|[|p]]]] eqn:Epc.
  - (* copy *)
    unfold winv. cbn [cell kwcell pc loc calls]. split; [exact Hc|]. split; [exact Hk|]. split; [|split; [|split; [|split]]].
    + intros j g Hg. destruct (Nat.eq_dec j i) as [->|Hne].
      * rewrite !upd_same. cbn [exp_loc]. exact Hc.
      * rewrite !upd_other by exact Hne. exact (Hl j g Hg).
    + intros j. destruct (Nat.eq_dec j i) as [->|Hne]; [rewrite upd_same; lia|rewrite upd_other by exact Hne; apply Hp].
    + intros r Hr. destruct (Hcalls r Hr) as (H4 & Hex). split; [|exact Hex].
      destruct (Nat.eq_dec (c_task r) i) as [E|Hne]; [rewrite E in H4; rewrite H4 in Epc; discriminate|].
      rewrite upd_other by exact Hne. exact H4.
    + intros j Hj. destruct (Nat.eq_dec j i) as [->|Hne]; [rewrite upd_same in Hj; discriminate|].
      rewrite upd_other in Hj by exact Hne. exact (Hdone j Hj).
    + exact Hnd.
  - (* append the content *)
    unfold append, winv. cbn [cell kwcell pc loc calls]. split; [exact Hc|]. split; [exact Hk|]. split; [|split; [|split; [|split]]].
    + intros j g Hg. destruct (Nat.eq_dec j i) as [->|Hne].
      * rewrite !upd_same. rewrite (Hl i g Hg), Epc. cbn [exp_loc]. rewrite Ef in Hg. injection Hg as ->. reflexivity.
      * rewrite !upd_other by exact Hne. exact (Hl j g Hg).
    + intros j. destruct (Nat.eq_dec j i) as [->|Hne]; [rewrite upd_same; lia|rewrite upd_other by exact Hne; apply Hp].
    + intros r Hr. destruct (Hcalls r Hr) as (H4 & Hex). split; [|exact Hex].
      destruct (Nat.eq_dec (c_task r) i) as [E|Hne]; [rewrite E in H4; rewrite H4 in Epc; discriminate|].
      rewrite upd_other by exact Hne. exact H4.
    + intros j Hj. destruct (Nat.eq_dec j i) as [->|Hne]; [rewrite upd_same in Hj; discriminate|].
      rewrite upd_other in Hj by exact Hne. exact (Hdone j Hj).
    + exact Hnd.
  - (* append the info *)
    unfold append, winv. cbn [cell kwcell pc loc calls]. split; [exact Hc|]. split; [exact Hk|]. split; [|split; [|split; [|split]]].
    + intros j g Hg. destruct (Nat.eq_dec j i) as [->|Hne].
      * rewrite !upd_same. rewrite (Hl i g Hg), Epc. cbn [exp_loc]. rewrite Ef in Hg. injection Hg as ->.
        rewrite <- app_assoc. reflexivity.
      * rewrite !upd_other by exact Hne. exact (Hl j g Hg).
    + intros j. destruct (Nat.eq_dec j i) as [->|Hne]; [rewrite upd_same; lia|rewrite upd_other by exact Hne; apply Hp].
    + intros r Hr. destruct (Hcalls r Hr) as (H4 & Hex). split; [|exact Hex].
      destruct (Nat.eq_dec (c_task r) i) as [E|Hne]; [rewrite E in H4; rewrite H4 in Epc; discriminate|].
      rewrite upd_other by exact Hne. exact H4.
    + intros j Hj. destruct (Nat.eq_dec j i) as [->|Hne]; [rewrite upd_same in Hj; discriminate|].
      rewrite upd_other in Hj by exact Hne. exact (Hdone j Hj).
    + exact Hnd.
  - (* the call *)
    unfold winv, cur. cbn [cell kwcell pc loc calls]. split; [exact Hc|]. split; [exact Hk|]. split; [|split; [|split; [|split]]].
    + intros j g Hg. destruct (Nat.eq_dec j i) as [->|Hne].
      * rewrite upd_same. rewrite (Hl i g Hg), Epc. reflexivity.
      * rewrite upd_other by exact Hne. exact (Hl j g Hg).
    + intros j. destruct (Nat.eq_dec j i) as [->|Hne]; [rewrite upd_same; lia|rewrite upd_other by exact Hne; apply Hp].
    + intros r Hr. apply in_app_or in Hr. destruct Hr as [Hr|[<-|[]]].
      * destruct (Hcalls r Hr) as (H4 & Hex). split; [|exact Hex].
        destruct (Nat.eq_dec (c_task r) i) as [E|Hne]; [rewrite E; apply upd_same|rewrite upd_other by exact Hne; exact H4].
      * cbn [c_task c_pos c_kw]. split; [apply upd_same|]. exists f. split; [exact Ef|]. split; [|exact Hk].
        rewrite (Hl i f Ef), Epc. reflexivity.
    + intros j Hj. destruct (Nat.eq_dec j i) as [->|Hne].
      * eexists. split; [apply in_or_app; right; left; reflexivity|reflexivity].
      * rewrite upd_other in Hj by exact Hne. destruct (Hdone j Hj) as (r & Hr & E).
        exists r. split; [apply in_or_app; left; exact Hr|exact E].
    + rewrite map_app. cbn [map c_task]. apply NoDup_snoc; [exact Hnd|].
      intros Hin. apply in_map_iff in Hin. destruct Hin as (r & E & Hr).
      destruct (Hcalls r Hr) as (H4 & _). rewrite E, Epc in H4. discriminate.
  - exact H00.
Qed.

Lemma winv_run c fs cell0 kw0 sch : forall s, winv c fs cell0 kw0 s ->
  winv c fs cell0 kw0 (fold_left (mstep true c fs) sch s).
Proof.
  induction sch as [|i t IH]; intros s H; cbn [fold_left]; [exact H|].
  apply IH. apply winv_step. exact H.
Qed.

(* how far a task has come = the number of its micro-steps in the schedule, at most 4 *)
Lemma pc_step c fs s j i : pc s i <= 4 ->
  pc (mstep true c fs s j) i =
  match nth_error fs j with
  | Some _ => if i =? j then Nat.min 4 (S (pc s i)) else pc s i
  | None => pc s i
  end.
Proof.
  intros Hle. unfold mstep. destruct (nth_error fs j) as [f|]; [|reflexivity].
  destruct (Nat.eqb_spec i j) as [->|Hne].
  - destruct (pc s j) as [|[|[|[|p]]]] eqn:E; unfold append; cbn [pc]; rewrite ?upd_same; try reflexivity.
    rewrite E. lia.
  - destruct (pc s j) as [|[|[|[|p]]]] eqn:E; unfold append; cbn [pc]; rewrite ?upd_other by exact Hne; reflexivity.
Qed.

Lemma pc_run c fs cell0 kw0 sch i f : nth_error fs i = Some f -> forall s, winv c fs cell0 kw0 s ->
  pc (fold_left (mstep true c fs) sch s) i = Nat.min 4 (pc s i + count_occ Nat.eq_dec sch i).
Proof.
  intros Hf. induction sch as [|j t IH]; intros s H; cbn [fold_left count_occ].
  - destruct H as (_ & _ & _ & Hp & _). specialize (Hp i). lia.
  - assert (Hle : pc s i <= 4) by (destruct H as (_ & _ & _ & Hp & _); apply Hp).
    rewrite (IH _ (winv_step c fs cell0 kw0 s j H)), (pc_step c fs s j i Hle).
    destruct (Nat.eq_dec j i) as [->|Hne].
    + rewrite Hf, Nat.eqb_refl. lia.
    + destruct (nth_error fs j); [|reflexivity].
      destruct (Nat.eqb_spec i j) as [->|_]; [contradiction|reflexivity].
Qed.

Lemma call_of_some s i r : call_of s i = Some r -> In r (calls s) /\ c_task r = i.
Proof.
  unfold call_of. intros H. apply find_some in H. destruct H as (Hin & E). apply Nat.eqb_eq in E. split; assumption.
Qed.

Lemma call_of_unique s i r : NoDup (map c_task (calls s)) -> In r (calls s) -> c_task r = i -> call_of s i = Some r.
Proof.
  unfold call_of. induction (calls s) as [|x t IH]; intros Hnd Hin E; [contradiction|].
  cbn [map] in Hnd. inversion Hnd as [|y t' Hx Ht]; subst. cbn [find].
  destruct Hin as [->|Hin].
  - rewrite Nat.eqb_refl. reflexivity.
  - destruct (Nat.eqb_spec (c_task x) (c_task r)) as [E|_].
    + exfalso. apply Hx. rewrite E. apply in_map. exact Hin.
    + apply IH; [exact Ht|exact Hin|reflexivity].
Qed.

Lemma task_arguments_cell c a f : task_arguments c a f = map PUser (user_args a) ++ file_args c f.
Proof. reflexivity. Qed.

(* the wrappers of a stream under ANY interleaving of their micro-steps *)
Lemma wrappers_spec c a kw fs sch :
  let s := run_wrappers c a kw fs sch in
  cell s = map PUser (user_args a) /\ kwcell s = kw
  /\ (forall r, In r (calls s) ->
        exists f, nth_error fs (c_task r) = Some f /\ c_pos r = task_arguments c a f /\ c_kw r = kw)
  /\ NoDup (map c_task (calls s))
  /\ (forall i f, nth_error fs i = Some f -> 4 <= count_occ Nat.eq_dec sch i ->
        call_of s i = Some {| c_task := i; c_pos := task_arguments c a f; c_kw := kw |})
  /\ (forall i, count_occ Nat.eq_dec sch i < 4 -> call_of s i = None).
Proof.
  cbn zeta. unfold run_wrappers, run_gen.
  assert (Hi := winv_run c fs _ _ sch _ (winv_init c fs a kw)).
  set (s := fold_left (mstep true c fs) sch (winit a kw)) in *.
  assert (Hi0 := Hi). destruct Hi as (Hc & Hk & _ & _ & Hcalls & Hdone & Hnd).
  split; [exact Hc|]. split; [exact Hk|]. split; [|split; [exact Hnd|split]].
  - intros r Hr. destruct (Hcalls r Hr) as (_ & f & Hf & Hp & Hkw). exists f. split; [exact Hf|].
    split; [exact Hp|exact Hkw].
  - intros i f Hf Hcnt.
    assert (Hpc : pc s i = 4).
    { unfold s. rewrite (pc_run c fs _ _ sch i f Hf _ (winv_init c fs a kw)). cbn [winit pc]. lia. }
    destruct (Hdone i Hpc) as (r & Hr & E). rewrite (call_of_unique s i r Hnd Hr E). f_equal.
    destruct (Hcalls r Hr) as (_ & g & Hg & Hp & Hkw). rewrite E, Hf in Hg. injection Hg as <-.
    destruct r as [t p k]. cbn [c_task c_pos c_kw] in *. rewrite E, Hp, Hkw. reflexivity.
  - intros i Hcnt. destruct (call_of s i) as [r|] eqn:E; [|reflexivity]. exfalso.
    apply call_of_some in E. destruct E as (Hr & E). destruct (Hcalls r Hr) as (H4 & f & Hf & _).
    rewrite E in H4, Hf. unfold s in H4.
    rewrite (pc_run c fs _ _ sch i f Hf _ (winv_init c fs a kw)) in H4. cbn [winit pc] in H4. lia.
Qed.

(* the arguments of a task do not depend on the other tasks of the stream nor on the schedule *)
Lemma call_independent c a kw fs sch fs' sch' r r' :
  In r (calls (run_wrappers c a kw fs sch)) -> In r' (calls (run_wrappers c a kw fs' sch')) ->
  c_task r' = c_task r -> nth_error fs' (c_task r) = nth_error fs (c_task r) ->
  c_pos r' = c_pos r /\ c_kw r' = c_kw r.
Proof.
  intros Hr Hr' Et En.
  destruct (wrappers_spec c a kw fs sch) as (_ & _ & H & _). destruct (H r Hr) as (f & Hf & Hp & Hk).
  destruct (wrappers_spec c a kw fs' sch') as (_ & _ & H' & _). destruct (H' r' Hr') as (f' & Hf' & Hp' & Hk').
  rewrite Et, En, Hf in Hf'. injection Hf' as <-. rewrite Hp, Hp', Hk, Hk'. split; reflexivity.
Qed.
