(* C03 -- proofs about Model/C03_tree.v *)
From Coq Require Import ZArith List Bool Lia Permutation Sorted.
From Typhon Require Import Model.C03_tree.
Import ListNotations.
Open Scope Z_scope.

(* ---------- generic list lemmas ---------- *)
Lemma filter_length_le' {A} (f : A -> bool) (l : list A) : (length (filter f l) <= length l)%nat.
Proof. induction l as [|y t IH]; cbn [filter length]; [lia|]. destruct (f y); cbn [length]; lia. Qed.

Lemma filter_length_lt {A} (f : A -> bool) (l : list A) (x : A) :
  In x l -> f x = false -> (length (filter f l) < length l)%nat.
Proof.
  induction l as [|y t IH]; cbn [In filter length]; intros Hin Hf; [contradiction|].
  pose proof (filter_length_le' f t) as Hle.
  destruct Hin as [->|Hin].
  - rewrite Hf. lia.
  - specialize (IH Hin Hf). destruct (f y); cbn [length]; lia.
Qed.

Lemma filter_all_false {A} (f : A -> bool) (l : list A) :
  (forall x, In x l -> f x = false) -> filter f l = [].
Proof.
  induction l as [|y t IH]; cbn [filter]; intros H; [reflexivity|].
  rewrite (H y (or_introl eq_refl)). apply IH. intros x Hx. apply H. right; exact Hx.
Qed.

Lemma filter_all_true {A} (f : A -> bool) (l : list A) :
  (forall x, In x l -> f x = true) -> filter f l = l.
Proof.
  induction l as [|y t IH]; cbn [filter]; intros H; [reflexivity|].
  rewrite (H y (or_introl eq_refl)). f_equal. apply IH. intros x Hx. apply H. right; exact Hx.
Qed.

Definition one_of3 {A} (p1 p2 p3 : A -> bool) (x : A) : Prop :=
  (p1 x = true /\ p2 x = false /\ p3 x = false) \/
  (p1 x = false /\ p2 x = true /\ p3 x = false) \/
  (p1 x = false /\ p2 x = false /\ p3 x = true).

Lemma partition3 {A} (p1 p2 p3 : A -> bool) (l : list A) :
  (forall x, In x l -> one_of3 p1 p2 p3 x) ->
  Permutation l (filter p1 l ++ filter p2 l ++ filter p3 l).
Proof.
  induction l as [|y t IH]; cbn [filter]; intros H; [constructor|].
  assert (Ht : forall x, In x t -> one_of3 p1 p2 p3 x) by (intros x Hx; apply H; right; exact Hx).
  specialize (IH Ht).
  destruct (H y (or_introl eq_refl)) as [(E1 & E2 & E3)|[(E1 & E2 & E3)|(E1 & E2 & E3)]];
    rewrite E1, E2, E3.
  - cbn [app]. constructor. exact IH.
  - apply Permutation_cons_app. exact IH.
  - rewrite app_assoc. apply Permutation_cons_app. rewrite <- app_assoc. exact IH.
Qed.

Lemma filter_perm {A} (f : A -> bool) (l l' : list A) :
  Permutation l l' -> Permutation (filter f l) (filter f l').
Proof.
  induction 1 as [|x l l' _ IH|x y l|l l' l'' _ IH1 _ IH2]; cbn [filter].
  - constructor.
  - destruct (f x); [constructor|]; exact IH.
  - destruct (f x), (f y); try reflexivity. constructor.
  - etransitivity; eassumption.
Qed.

(* ---------- sorting by the left end ---------- *)
Lemma insert_lo_perm x l : Permutation (insert_lo x l) (x :: l).
Proof.
  induction l as [|y t IH]; cbn [insert_lo]; [reflexivity|].
  destruct (lo x <=? lo y); [reflexivity|].
  etransitivity; [apply perm_skip, IH|apply perm_swap].
Qed.

Lemma sort_lo_perm l : Permutation (sort_lo l) l.
Proof.
  unfold sort_lo. induction l as [|x t IH]; cbn [sort_lo_rev]; [constructor|].
  etransitivity; [apply insert_lo_perm|]. constructor. exact IH.
Qed.

(* ---------- the tree ---------- *)
Lemma center_in (l : list ivl) : l <> [] -> exists x, In x l /\ lo x = center_of l.
Proof.
  intros Hne. unfold center_of.
  set (d := {| lo := 0; hi := 0; idx := 0 |}).
  exists (nth (Nat.div2 (length l)) l d). split; [|reflexivity].
  apply nth_In. destruct l as [|a t]; [contradiction|].
  apply Nat.lt_div2. cbn [length]. lia.
Qed.

Lemma split_one_of3 c (i : ivl) : wf i ->
  one_of3 (fun i => (lo i <=? c) && (c <=? hi i)) (fun i => hi i <? c) (fun i => c <? lo i) i.
Proof.
  unfold wf, one_of3. intros Hwf.
  destruct (lo i <=? c) eqn:E1, (c <=? hi i) eqn:E2, (hi i <? c) eqn:E3, (c <? lo i) eqn:E4;
    cbn [andb]; lia.
Qed.

Lemma Forall_filter {A} (P : A -> Prop) f (l : list A) : Forall P l -> Forall P (filter f l).
Proof.
  intros H. apply Forall_forall. intros x Hx. apply filter_In in Hx.
  rewrite Forall_forall in H. apply H. tauto.
Qed.

Lemma build_S f l : l <> [] ->
  build (S f) l =
  Node (center_of l)
    (filter (fun i => (lo i <=? center_of l) && (center_of l <=? hi i)) l)
    (build f (filter (fun i => hi i <? center_of l) l))
    (build f (filter (fun i => center_of l <? lo i) l)).
Proof. destruct l; [contradiction|reflexivity]. Qed.

(* the central lemma: for ANY list (whatever its order), the tree built with enough fuel
   answers the brute-force query *)
Lemma build_query (q : Z * Z) : forall fuel l,
  (length l <= fuel)%nat -> Forall wf l ->
  Permutation (tquery (build fuel l) q) (spec_query l q).
Proof.
  induction fuel as [|f IH]; intros l Hlen Hwf.
  - destruct l; [constructor | cbn [length] in Hlen; lia].
  - destruct l as [|a0 t0]; [constructor|]. remember (a0 :: t0) as l eqn:El.
    assert (Hne : l <> []) by (rewrite El; discriminate). clear El a0 t0.
    rewrite (build_S f l Hne).
    set (c := center_of l).
    set (pc := fun i : ivl => (lo i <=? c) && (c <=? hi i)).
    set (pl := fun i : ivl => hi i <? c).
    set (pr := fun i : ivl => c <? lo i).
    destruct (center_in l Hne) as (x & Hx & Hxc). fold c in Hxc.
    assert (Hxwf : wf x) by (rewrite Forall_forall in Hwf; auto).
    assert (Hl : (length (filter pl l) < length l)%nat).
    { apply filter_length_lt with x; [exact Hx|]. unfold pl, wf in *. lia. }
    assert (Hr : (length (filter pr l) < length l)%nat).
    { apply filter_length_lt with x; [exact Hx|]. unfold pr, wf in *. lia. }
    cbn [tquery]. unfold spec_query.
    assert (Hp : Permutation l (filter pc l ++ filter pl l ++ filter pr l)).
    { apply partition3. intros i Hi. apply split_one_of3. rewrite Forall_forall in Hwf; auto. }
    rewrite (Permutation_map idx (filter_perm (overlaps q) _ _ Hp)).
    rewrite !filter_app, !map_app.
    apply Permutation_app; [reflexivity|]. apply Permutation_app.
    + destruct (fst q <=? c) eqn:Eq.
      * apply IH; [lia|apply Forall_filter; exact Hwf].
      * rewrite (filter_all_false (overlaps q) (filter pl l)); [constructor|].
        intros i Hi. apply filter_In in Hi. destruct Hi as [_ Hi]. unfold pl in Hi.
        unfold overlaps. lia.
    + destruct (c <=? snd q) eqn:Eq.
      * apply IH; [lia|apply Forall_filter; exact Hwf].
      * rewrite (filter_all_false (overlaps q) (filter pr l)); [constructor|].
        intros i Hi. apply filter_In in Hi. destruct Hi as [_ Hi]. unfold pr in Hi.
        unfold overlaps. lia.
Qed.

Lemma build_query_pt (p : Z) : forall fuel l,
  (length l <= fuel)%nat -> Forall wf l ->
  Permutation (tquery_pt (build fuel l) p) (spec_points l p).
Proof.
  induction fuel as [|f IH]; intros l Hlen Hwf.
  - destruct l; [constructor | cbn [length] in Hlen; lia].
  - destruct l as [|a0 t0]; [constructor|]. remember (a0 :: t0) as l eqn:El.
    assert (Hne : l <> []) by (rewrite El; discriminate). clear El a0 t0.
    rewrite (build_S f l Hne).
    set (c := center_of l).
    set (pc := fun i : ivl => (lo i <=? c) && (c <=? hi i)).
    set (pl := fun i : ivl => hi i <? c).
    set (pr := fun i : ivl => c <? lo i).
    destruct (center_in l Hne) as (x & Hx & Hxc). fold c in Hxc.
    assert (Hxwf : wf x) by (rewrite Forall_forall in Hwf; auto).
    assert (Hl : (length (filter pl l) < length l)%nat).
    { apply filter_length_lt with x; [exact Hx|]. unfold pl, wf in *. lia. }
    assert (Hr : (length (filter pr l) < length l)%nat).
    { apply filter_length_lt with x; [exact Hx|]. unfold pr, wf in *. lia. }
    cbn [tquery_pt]. unfold spec_points.
    assert (Hp : Permutation l (filter pc l ++ filter pl l ++ filter pr l)).
    { apply partition3. intros i Hi. apply split_one_of3. rewrite Forall_forall in Hwf; auto. }
    rewrite (Permutation_map idx (filter_perm (covers p) _ _ Hp)).
    rewrite !filter_app, !map_app.
    apply Permutation_app; [reflexivity|]. apply Permutation_app.
    + destruct (p <? c) eqn:Eq.
      * apply IH; [lia|apply Forall_filter; exact Hwf].
      * rewrite (filter_all_false (covers p) (filter pl l)); [constructor|].
        intros i Hi. apply filter_In in Hi. destruct Hi as [_ Hi]. unfold pl in Hi.
        unfold covers. lia.
    + destruct (c <? p) eqn:Eq.
      * apply IH; [lia|apply Forall_filter; exact Hwf].
      * rewrite (filter_all_false (covers p) (filter pr l)); [constructor|].
        intros i Hi. apply filter_In in Hi. destruct Hi as [_ Hi]. unfold pr in Hi.
        unfold covers. lia.
Qed.

Lemma mk_tree_query ivs q : Forall wf ivs -> Permutation (tquery (mk_tree ivs) q) (spec_query ivs q).
Proof.
  intros Hwf. unfold mk_tree.
  etransitivity.
  - apply build_query.
    + rewrite (Permutation_length (sort_lo_perm ivs)). lia.
    + eapply Permutation_Forall; [symmetry; apply sort_lo_perm|exact Hwf].
  - unfold spec_query. apply Permutation_map, filter_perm, sort_lo_perm.
Qed.

Lemma mk_tree_query_pt ivs p : Forall wf ivs -> Permutation (tquery_pt (mk_tree ivs) p) (spec_points ivs p).
Proof.
  intros Hwf. unfold mk_tree.
  etransitivity.
  - apply build_query_pt.
    + rewrite (Permutation_length (sort_lo_perm ivs)). lia.
    + eapply Permutation_Forall; [symmetry; apply sort_lo_perm|exact Hwf].
  - unfold spec_points. apply Permutation_map, filter_perm, sort_lo_perm.
Qed.

(* ---------- extreme values ---------- *)
Lemma zmin_list_le d l : zmin_list d l <= d /\ forall x, In x l -> zmin_list d l <= x.
Proof.
  induction l as [|y t [IH1 IH2]]; cbn [zmin_list fold_right In]; [split; [lia|contradiction]|].
  fold (zmin_list d t). split; [lia|]. intros x [->|Hx]; [lia|]. specialize (IH2 x Hx). lia.
Qed.
Lemma zmax_list_ge d l : d <= zmax_list d l /\ forall x, In x l -> x <= zmax_list d l.
Proof.
  induction l as [|y t [IH1 IH2]]; cbn [zmax_list fold_right In]; [split; [lia|contradiction]|].
  fold (zmax_list d t). split; [lia|]. intros x [->|Hx]; [lia|]. specialize (IH2 x Hx). lia.
Qed.

Lemma ends_bounds ivs i : In i ivs ->
  tmin ivs <= lo i /\ tmin ivs <= hi i /\ lo i <= tmax ivs /\ hi i <= tmax ivs.
Proof.
  intros Hi.
  assert (Hlo : In (lo i) (all_ends ivs)).
  { unfold all_ends. apply in_flat_map. exists i. split; [exact Hi|left; reflexivity]. }
  assert (Hhi : In (hi i) (all_ends ivs)).
  { unfold all_ends. apply in_flat_map. exists i. split; [exact Hi|right; left; reflexivity]. }
  unfold tmin, tmax. destruct (all_ends ivs) as [|x t]; [contradiction|].
  destruct (zmin_list_le x t) as [m1 m2]. destruct (zmax_list_ge x t) as [M1 M2].
  repeat split.
  - destruct Hlo as [<-|H]; [lia|auto].
  - destruct Hhi as [<-|H]; [lia|auto].
  - destruct Hlo as [<-|H]; [lia|auto].
  - destruct Hhi as [<-|H]; [lia|auto].
Qed.

(* ---------- the public operations ---------- *)
Lemma query_correct ivs q : Forall wf ivs -> Permutation (query ivs q) (spec_query ivs q).
Proof.
  intros Hwf. unfold query.
  destruct ((fst q <=? tmin ivs) && (tmin ivs <=? snd q) && (fst q <=? tmax ivs) && (tmax ivs <=? snd q)) eqn:E.
  - unfold spec_query. rewrite filter_all_true; [reflexivity|].
    intros i Hi. destruct (ends_bounds ivs i Hi) as (H1 & H2 & H3 & H4). unfold overlaps. lia.
  - apply mk_tree_query. exact Hwf.
Qed.

Lemma query_pt_correct ivs p : Forall wf ivs -> Permutation (query_pt ivs p) (spec_points ivs p).
Proof.
  intros Hwf. unfold query_pt.
  destruct (negb ((tmin ivs <=? p) && (p <=? tmax ivs))) eqn:E.
  - unfold spec_points. rewrite filter_all_false; [constructor|].
    intros i Hi. destruct (ends_bounds ivs i Hi) as (H1 & H2 & H3 & H4). unfold covers. lia.
  - apply mk_tree_query_pt. exact Hwf.
Qed.

Lemma perm_nil_iff {A} (a b : list A) : Permutation a b -> (a = [] <-> b = []).
Proof.
  intros H. split; intros ->.
  - apply Permutation_nil. exact H.
  - apply Permutation_nil. symmetry. exact H.
Qed.

Lemma filter_nil_existsb {A} (f : A -> bool) l : filter f l = [] <-> existsb f l = false.
Proof.
  induction l as [|x t IH]; cbn [filter existsb]; [tauto|].
  destruct (f x); cbn [orb]; [split; discriminate|exact IH].
Qed.

Lemma map_nil_iff {A B} (g : A -> B) l : map g l = [] <-> l = [].
Proof. destruct l; cbn [map]; split; congruence. Qed.

Lemma contains_ivl_correct ivs q : Forall wf ivs -> contains_ivl ivs q = existsb (overlaps q) ivs.
Proof.
  intros Hwf. unfold contains_ivl. pose proof (perm_nil_iff _ _ (query_correct ivs q Hwf)) as H.
  unfold spec_query in H. rewrite map_nil_iff, filter_nil_existsb in H.
  destruct (query ivs q) as [|z t]; destruct (existsb (overlaps q) ivs); try reflexivity.
  - destruct H as [H _]. specialize (H eq_refl). discriminate.
  - destruct H as [_ H]. specialize (H eq_refl). discriminate.
Qed.

Lemma contains_pt_correct ivs p : Forall wf ivs -> contains_pt ivs p = existsb (covers p) ivs.
Proof.
  intros Hwf. unfold contains_pt. pose proof (perm_nil_iff _ _ (query_pt_correct ivs p Hwf)) as H.
  unfold spec_points in H. rewrite map_nil_iff, filter_nil_existsb in H.
  destruct (query_pt ivs p) as [|z t]; destruct (existsb (covers p) ivs); try reflexivity.
  - destruct H as [H _]. specialize (H eq_refl). discriminate.
  - destruct H as [_ H]. specialize (H eq_refl). discriminate.
Qed.

(* ---------- each index once ---------- *)
Lemma NoDup_map_filter {A B} (g : A -> B) (f : A -> bool) l : NoDup (map g l) -> NoDup (map g (filter f l)).
Proof.
  induction l as [|x t IH]; cbn [map filter]; intros H; [constructor|].
  inversion H as [|? ? Hnin Hnd]; subst.
  destruct (f x); cbn [map]; [|auto].
  constructor; [|auto]. intros Hin. apply Hnin. apply in_map_iff in Hin. destruct Hin as (y & Hy & Hin).
  apply in_map_iff. exists y. split; [exact Hy|]. apply filter_In in Hin. tauto.
Qed.

Lemma query_nodup ivs q : Forall wf ivs -> NoDup (map idx ivs) -> NoDup (query ivs q).
Proof.
  intros Hwf Hnd. eapply Permutation_NoDup; [symmetry; apply query_correct; exact Hwf|].
  apply NoDup_map_filter. exact Hnd.
Qed.

Lemma query_pt_nodup ivs p : Forall wf ivs -> NoDup (map idx ivs) -> NoDup (query_pt ivs p).
Proof.
  intros Hwf Hnd. eapply Permutation_NoDup; [symmetry; apply query_pt_correct; exact Hwf|].
  apply NoDup_map_filter. exact Hnd.
Qed.

(* ---------- numbering ---------- *)
Lemma number_from_idx k l i : In i (number_from k l) -> k <= idx i < k + Z.of_nat (length l).
Proof.
  revert k; induction l as [|[a b] t IH]; intros k; cbn [number_from In length]; [contradiction|].
  intros [<-|H]; cbn [idx]; [lia|]. specialize (IH _ H). lia.
Qed.

Lemma number_nodup l : NoDup (map idx (number l)).
Proof.
  unfold number. generalize 0. induction l as [|[a b] t IH]; intros k; cbn [number_from map]; [constructor|].
  constructor; [|apply IH]. cbn [idx]. intros Hin. apply in_map_iff in Hin. destruct Hin as (i & Hi & Hin).
  apply number_from_idx in Hin. lia.
Qed.

Lemma number_wf l : Forall (fun '(a, b) => a <= b) l -> Forall wf (number l).
Proof.
  unfold number. generalize 0. induction l as [|[a b] t IH]; intros k H; cbn [number_from]; constructor.
  - inversion H; subst. unfold wf; cbn [lo hi]. assumption.
  - apply IH. inversion H; assumption.
Qed.

(* ---------- sorting index lists; uniqueness of sorted permutations ---------- *)
Lemma insert_z_perm x l : Permutation (insert_z x l) (x :: l).
Proof.
  induction l as [|y t IH]; cbn [insert_z]; [reflexivity|].
  destruct (x <=? y); [reflexivity|]. etransitivity; [apply perm_skip, IH|apply perm_swap].
Qed.
Lemma sort_z_perm l : Permutation (sort_z l) l.
Proof.
  unfold sort_z. induction l as [|x t IH]; cbn [fold_right]; [constructor|].
  etransitivity; [apply insert_z_perm|]. constructor. exact IH.
Qed.
Lemma insert_z_sorted x l : StronglySorted Z.le l -> StronglySorted Z.le (insert_z x l).
Proof.
  induction l as [|y t IH]; cbn [insert_z]; intros H.
  - repeat constructor.
  - inversion H as [|? ? Hs Hall]; subst. destruct (x <=? y) eqn:E.
    + constructor; [exact H|]. constructor; [lia|]. rewrite Forall_forall in *. intros z Hz. specialize (Hall z Hz). lia.
    + constructor; [apply IH; exact Hs|]. rewrite Forall_forall in *. intros z Hz.
      apply (Permutation_in _ (insert_z_perm x t)) in Hz. destruct Hz as [<-|Hz]; [lia|auto].
Qed.
Lemma sort_z_sorted l : StronglySorted Z.le (sort_z l).
Proof. unfold sort_z. induction l as [|x t IH]; cbn [fold_right]; [constructor|apply insert_z_sorted, IH]. Qed.

Lemma sorted_perm_eq (a b : list Z) :
  StronglySorted Z.le a -> StronglySorted Z.le b -> Permutation a b -> a = b.
Proof.
  revert b; induction a as [|x a IH]; intros b Ha Hb Hp.
  - apply Permutation_nil in Hp. congruence.
  - destruct b as [|y b]; [symmetry in Hp; apply Permutation_nil in Hp; discriminate|].
    inversion Ha as [|? ? Hsa Hfa]; inversion Hb as [|? ? Hsb Hfb]; subst.
    assert (x = y).
    { assert (Hx : In x (y :: b)) by (eapply Permutation_in; [exact Hp|left; reflexivity]).
      assert (Hy : In y (x :: a)) by (eapply Permutation_in; [symmetry; exact Hp|left; reflexivity]).
      rewrite Forall_forall in Hfa, Hfb.
      destruct Hx as [->|Hx]; [reflexivity|]. destruct Hy as [->|Hy]; [reflexivity|].
      specialize (Hfa _ Hy). specialize (Hfb _ Hx). lia. }
    subst y. f_equal. apply IH; [assumption|assumption|]. eapply Permutation_cons_inv; exact Hp.
Qed.

(* ---------- FileSet.match ---------- *)
Lemma partner_ids_spec mi p sec k :
  partner_ids k mi p sec = map idx (filter (overlaps p) (number_from k (widen mi sec))).
Proof.
  revert k; induction sec as [|[a b] t IH]; intros k; cbn [partner_ids widen map number_from filter]; [reflexivity|].
  unfold widened_overlap, overlaps at 1. cbn [fst snd lo hi].
  destruct ((a - mi <=? snd p) && (fst p <=? b + mi)); cbn [app map idx]; rewrite IH; reflexivity.
Qed.

Lemma number_from_sorted f k l : StronglySorted Z.le (map idx (filter f (number_from k l))).
Proof.
  revert k; induction l as [|[a b] t IH]; intros k; cbn [number_from filter map]; [constructor|].
  destruct (f _); cbn [map idx]; [|apply IH].
  constructor; [apply IH|]. rewrite Forall_forall. intros z Hz. apply in_map_iff in Hz.
  destruct Hz as (i & <- & Hi). apply filter_In in Hi. destruct Hi as [Hi _].
  apply number_from_idx in Hi. lia.
Qed.

Lemma widen_wf mi sec : 0 <= mi -> Forall (fun '(a, b) => a <= b) sec -> Forall (fun '(a, b) => a <= b) (widen mi sec).
Proof.
  intros Hmi H. unfold widen. rewrite Forall_forall in *. intros [a b] Hab. apply in_map_iff in Hab.
  destruct Hab as ([a' b'] & E & Hin). inversion E; subst. specialize (H _ Hin). cbn in H. lia.
Qed.

Lemma match_model_correct mi prim sec :
  0 <= mi -> Forall (fun '(a, b) => a <= b) sec -> match_model mi prim sec = match_spec mi prim sec.
Proof.
  intros Hmi Hsec. unfold match_model, match_spec. generalize 0 at 1 2.
  induction prim as [|p t IH]; intros k; cbn [match_from match_spec_from]; [reflexivity|].
  assert (E : sort_z (query (number (widen mi sec)) p) = partner_ids 0 mi p sec).
  { apply sorted_perm_eq; [apply sort_z_sorted| |].
    - rewrite partner_ids_spec. apply number_from_sorted.
    - etransitivity; [apply sort_z_perm|]. rewrite partner_ids_spec.
      apply query_correct. apply number_wf, widen_wf; assumption. }
  rewrite E. destruct (partner_ids 0 mi p sec); rewrite IH; reflexivity.
Qed.

(* ---------- invariance under strictly monotone relabelling of the end points
   (what justifies handing float / datetime end points to the model as ranks) ---------- *)
Definition relabel (phi : Z -> Z) (i : ivl) : ivl := {| lo := phi (lo i); hi := phi (hi i); idx := idx i |}.

Lemma spec_query_relabel phi ivs q :
  (forall a b, a <= b <-> phi a <= phi b) ->
  spec_query (map (relabel phi) ivs) (phi (fst q), phi (snd q)) = spec_query ivs q.
Proof.
  intros Hphi. unfold spec_query. induction ivs as [|i t IH]; cbn [map filter]; [reflexivity|].
  assert (E : overlaps (phi (fst q), phi (snd q)) (relabel phi i) = overlaps q i).
  { unfold overlaps, relabel. cbn [lo hi fst snd].
    pose proof (Hphi (lo i) (snd q)). pose proof (Hphi (fst q) (hi i)).
    destruct (lo i <=? snd q) eqn:E1, (fst q <=? hi i) eqn:E2,
             (phi (lo i) <=? phi (snd q)) eqn:E3, (phi (fst q) <=? phi (hi i)) eqn:E4; cbn [andb]; lia. }
  rewrite E. destruct (overlaps q i); cbn [map idx relabel]; rewrite IH; reflexivity.
Qed.

Lemma query_relabel phi ivs q :
  (forall a b, a <= b <-> phi a <= phi b) -> Forall wf ivs ->
  Permutation (query (map (relabel phi) ivs) (phi (fst q), phi (snd q))) (query ivs q).
Proof.
  intros Hphi Hwf.
  etransitivity; [apply query_correct|].
  - rewrite Forall_forall in *. intros i Hi. apply in_map_iff in Hi. destruct Hi as (j & <- & Hj).
    unfold wf, relabel; cbn [lo hi]. apply (proj1 (Hphi (lo j) (hi j))). apply (Hwf j Hj).
  - rewrite spec_query_relabel by exact Hphi. symmetry. apply query_correct. exact Hwf.
Qed.
