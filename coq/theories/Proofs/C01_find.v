(* C01 -- lemmas about the model of FileSet.find (Model/C01_find.v). *)
From Coq Require Import ZArith List Bool Lia ZifyBool Permutation Sorted RelationClasses.
From Typhon Require Import Base.Calendar Base.CalendarProofs Model.C03_tree Proofs.C03_tree Model.C01_find.
Import ListNotations.
Open Scope Z_scope.

Lemma semi_open_lemma (a e : Z) : a <= e - 1 <-> a < e.
Proof. lia. Qed.

(* ------------------------------------------------------------------ insertion sort by (t0, t1) *)

Definition key_rel (a b : file) : Prop := key_le a b = true.

Lemma key_le_total a b : key_le a b = false -> key_le b a = true.
Proof. unfold key_le. lia. Qed.

Lemma insert_key_perm x l : Permutation (insert_key x l) (x :: l).
Proof.
  induction l as [|y t IH]; cbn [insert_key]; [reflexivity|].
  destruct (key_le x y); [reflexivity|].
  rewrite IH. apply perm_swap.
Qed.

Lemma sort_key_perm l : Permutation (sort_key l) l.
Proof.
  induction l as [|x t IH]; cbn [sort_key fold_right]; [reflexivity|].
  fold (sort_key t). rewrite insert_key_perm. constructor. exact IH.
Qed.

Lemma insert_key_hdrel a x l : HdRel key_rel a l -> key_rel a x -> HdRel key_rel a (insert_key x l).
Proof.
  intros H Hax. destruct l as [|y t]; cbn [insert_key]; [constructor; exact Hax|].
  destruct (key_le x y); constructor; [exact Hax|]. inversion H; assumption.
Qed.

Lemma insert_key_sorted x l : Sorted key_rel l -> Sorted key_rel (insert_key x l).
Proof.
  induction l as [|y t IH]; intros Hs; cbn [insert_key].
  - constructor; constructor.
  - destruct (key_le x y) eqn:E.
    + constructor; [exact Hs|]. constructor. exact E.
    + inversion Hs as [|? ? Hst Hhd]; subst. constructor; [apply IH; exact Hst|].
      apply insert_key_hdrel; [exact Hhd|]. apply key_le_total. exact E.
Qed.

Lemma sort_key_sorted l : Sorted key_rel (sort_key l).
Proof.
  induction l as [|x t IH]; cbn [sort_key fold_right]; [constructor|].
  fold (sort_key t). apply insert_key_sorted. exact IH.
Qed.

Lemma sort_key_nil l : sort_key l = [] <-> l = [].
Proof.
  split; intros H; [|subst; reflexivity].
  pose proof (sort_key_perm l) as P. rewrite H in P. apply Permutation_nil in P. exact P.
Qed.

(* ------------------------------------------------------------------ calendar facts *)

Lemma year_of_mono a b : valid a -> valid b -> a <= b -> year_of a <= year_of b.
Proof.
  intros Va Vb Hab. pose proof (valid_day a Va) as Ha. pose proof (valid_day b Vb) as Hb.
  assert (Hd : a / us_day <= b / us_day) by (unfold us_day; lia).
  unfold year_of, fields.
  destruct (Z.eq_dec (a / us_day) (b / us_day)) as [E|NE].
  - rewrite E. destruct (civil_from_days (b / us_day)) as [[y m] d]. cbn [year]. lia.
  - assert (Hlt : 0 <= a / us_day < b / us_day) by lia.
    pose proof (cfd_mono _ _ Hlt) as L.
    destruct (civil_from_days (a / us_day)) as [[y m] d].
    destruct (civil_from_days (b / us_day)) as [[y' m'] d']. cbn [year].
    unfold lex_lt in L. lia.
Qed.

Lemma year_of_trunc r t : valid t -> year_of (trunc_to r t) = year_of t.
Proof.
  intros V. unfold year_of. rewrite (trunc_fields r t V). destruct r; reflexivity.
Qed.

Lemma mk_trunc r t : valid t -> mk_dt (fields (trunc_to r t)) = Some (trunc_to r t).
Proof. intros V. apply mk_fields. apply trunc_valid. exact V. Qed.

Lemma period_pos r : 0 < period r.
Proof. destruct r; cbn [period]; unfold us_day, us_hour, us_minute, us_second; lia. Qed.

Lemma finest_rank l : res_rank (finest l) <= 5.
Proof.
  induction l as [|f t IH]; cbn [finest fold_right]; [cbn; lia|].
  fold (finest t). unfold finer. destruct (res_rank (tf_res f) <? res_rank (finest t)); [exact IH|].
  destruct f; cbn; lia.
Qed.

(* with a full, gap-free date the directory time is the truncated datetime *)
Lemma dir_time_contig acc d : valid d ->
  has FMonth acc = true -> has FDay acc = true -> contiguous acc = true ->
  dir_time acc d = Some (trunc_to (finest acc) d).
Proof.
  intros V HM HD HC. unfold dir_time. rewrite HM, HD. cbn [andb].
  unfold contiguous in HC. cbn [forallb] in HC. rewrite !andb_true_iff in HC.
  destruct HC as (_ & _ & H3 & H4 & H5 & H6 & _).
  apply eqb_prop in H3, H4, H5, H6. rewrite HD in H3. rewrite H4, H5, H6.
  pose proof (finest_rank acc) as HR.
  pose proof (mk_trunc (finest acc) d V) as MK. rewrite (trunc_fields (finest acc) d V) in MK.
  destruct (finest acc); cbn [res_rank tf_res] in H3, HR |- *;
    cbn [Z.leb Z.compare Pos.compare Pos.compare_cont] in H3 |- *; try discriminate; try lia; exact MK.
Qed.

(* ------------------------------------------------------------------ the pruning never loses a file *)

Lemma level_ok_true acc own ds e d :
  valid ds -> valid e -> valid d -> ds <= d <= e ->
  (if has FYear acc && has FMonth acc && has FDay acc then contiguous acc else true) = true ->
  level_ok false acc own ds e d = true.
Proof.
  intros Vs Ve Vd [Hsd Hde] HC. unfold level_ok.
  destruct (has FYear acc) eqn:HY; [|reflexivity]. cbn [andb] in HC.
  set (r := finest acc).
  destruct (has FMonth acc && has FDay acc) eqn:HMD.
  - apply andb_true_iff in HMD. destruct HMD as [HM HD].
    rewrite (dir_time_contig acc d Vd HM HD HC). fold r.
    pose proof (trunc_mono r ds d Vs Vd Hsd). pose proof (trunc_mono r d e Vd Ve Hde). lia.
  - unfold dir_time. rewrite HMD.
    rewrite (year_of_trunc r ds Vs), (year_of_trunc r e Ve).
    pose proof (year_of_mono ds d Vs Vd Hsd). pose proof (year_of_mono d e Vd Ve Hde). lia.
Qed.

Lemma visited_true lay : forall acc ds e d,
  valid ds -> valid e -> valid d -> ds <= d <= e ->
  no_gaps_from acc lay = true -> visited false acc lay ds e d = true.
Proof.
  induction lay as [|c rest IH]; intros acc ds e d Vs Ve Vd Hr HG; cbn [visited]; [reflexivity|].
  destruct c as [|own]; cbn [no_gaps_from] in HG.
  - apply IH; assumption.
  - rewrite !andb_true_iff in HG. destruct HG as [[HC _] HG].
    rewrite (level_ok_true (acc ++ own) own ds e d Vs Ve Vd Hr HC). cbn [andb].
    apply IH; assumption.
Qed.

Lemma lookback_nonneg lay : 0 <= lookback lay.
Proof. unfold lookback. destruct lay; [lia|]. pose proof (period_pos (finest (all_fields (c :: lay)))). lia. Qed.

(* the clamped look-back: for a representable start, dir_start = max(0, start - P); it is representable itself and
   never later than start *)
Lemma dir_start_clamp lay s : lay <> [] -> 0 <= s -> dir_start lay s = Z.max 0 (s - lookback lay).
Proof.
  intros Hl Hs. pose proof (lookback_nonneg lay) as HP. unfold dir_start.
  destruct lay as [|c rest]; [congruence|].
  destruct (s =? 0) eqn:E0; [lia|]. destruct (s - lookback (c :: rest) <? 0) eqn:E1; lia.
Qed.

Lemma dir_start_range lay s : 0 <= s ->
  0 <= dir_start lay s <= s /\ (dir_start lay s = 0 \/ dir_start lay s = s - lookback lay).
Proof.
  intros Hs. pose proof (lookback_nonneg lay) as HP. unfold dir_start.
  destruct lay as [|c rest]; [cbn [lookback] in *; lia|].
  destruct (s =? 0) eqn:E0; [lia|]. destruct (s - lookback (c :: rest) <? 0) eqn:E1; lia.
Qed.

(* ------------------------------------------------------------------ exclusion *)

Lemma excluded_model_spec q f : Forall (fun '(a, b) => a <= b) (excl q) -> excluded_model q f = excluded_spec q f.
Proof.
  intros H. unfold excluded_model, excluded_spec. f_equal.
  destruct (excl q) as [|p t] eqn:E; [reflexivity|].
  apply contains_ivl_correct. apply number_wf. exact H.
Qed.

Lemma existsb_number_from (q : Z * Z) l : forall k,
  existsb (overlaps q) (number_from k l) = existsb (fun '(a, b) => (a <=? snd q) && (fst q <=? b)) l.
Proof.
  induction l as [|[a b] t IH]; intros k; cbn [number_from existsb]; [reflexivity|].
  rewrite IH. reflexivity.
Qed.

Lemma excluded_spec_iff q f :
  excluded_spec q f = false <->
  name_excl f = false /\ (forall a b, In (a, b) (excl q) -> t1 f < a \/ b < t0 f).
Proof.
  unfold excluded_spec, number. rewrite existsb_number_from. cbn [fst snd]. rewrite orb_false_iff.
  split.
  - intros [Hn He]. split; [exact Hn|]. intros a b Hin.
    destruct (Z_lt_dec (t1 f) a) as [|N1]; [left; assumption|].
    destruct (Z_lt_dec b (t0 f)) as [|N2]; [right; assumption|].
    exfalso. assert (existsb (fun '(a0, b0) => (a0 <=? t1 f) && (t0 f <=? b0)) (excl q) = true) as T.
    { apply existsb_exists. exists (a, b). split; [exact Hin|]. lia. }
    congruence.
  - intros [Hn He]. split; [exact Hn|].
    destruct (existsb _ (excl q)) eqn:E; [|reflexivity].
    apply existsb_exists in E. destruct E as ([a b] & Hin & Hov). specialize (He a b Hin). lia.
Qed.

(* ------------------------------------------------------------------ found = selected *)

Lemma found_selected lay q f :
  no_gaps lay = true -> well_placed f -> short lay f -> valid_file f -> wf_query q ->
  found false lay q f = selected q f.
Proof.
  intros HG HW HS (V0 & V1 & H01) (Vq & [Hse Hemax] & Hex).
  unfold found, selected, passes. rewrite (excluded_model_spec q f Hex).
  destruct (white_ok (white q) f); [|cbn [andb]; lia]. cbn [andb].
  destruct ((t0 f <=? qend q - 1) && (t1 f >=? qstart q)) eqn:Hov.
  - assert (Hv : visited false [] lay (dir_start lay (qstart q)) (qend q - 1) (tdir f) = true).
    { rewrite HW. unfold valid in *.
      destruct lay as [|c rest]; [reflexivity|].
      destruct (dir_start_range (c :: rest) (qstart q) (proj1 Vq)) as [[D0 D1] D2].
      unfold short in HS.
      apply visited_true; [| | | |exact HG]; unfold valid; lia. }
    rewrite Hv. cbn [andb].
    replace ((t0 f <? qend q) && (qstart q <=? t1 f)) with true by lia. cbn [andb]. reflexivity.
  - rewrite andb_false_r. cbn [andb].
    replace ((t0 f <? qend q) && (qstart q <=? t1 f)) with false by lia. reflexivity.
Qed.

Lemma find_model_spec lay fs q :
  no_gaps lay = true -> Forall well_placed fs -> Forall (short lay) fs -> Forall valid_file fs ->
  wf_query q ->
  find_model lay fs q = Ok (find_spec fs q).
Proof.
  intros HG HW HS HV HQ. unfold find_model, find_gen, find_spec.
  pose proof HQ as (Vq & [Hse Hemax] & Hex).
  replace (qend q - 1 <? qstart q) with false by lia.
  f_equal. f_equal. apply filter_ext_in. intros f Hin.
  rewrite Forall_forall in HW, HS, HV.
  apply found_selected; auto.
Qed.

Lemma find_sound_complete_lemma lay fs q :
  no_gaps lay = true -> Forall well_placed fs -> Forall (short lay) fs -> Forall valid_file fs ->
  wf_query q ->
  exists l, find_model lay fs q = Ok l /\ Sorted key_rel l /\ Permutation l (filter (selected q) fs)
            /\ l = find_spec fs q.
Proof.
  intros. exists (find_spec fs q). split; [apply find_model_spec; assumption|].
  split; [apply sort_key_sorted|]. split; [apply sort_key_perm|reflexivity].
Qed.

(* each file at most once *)
Lemma nodup_map_filter {A B} (g : A -> B) (p : A -> bool) l : NoDup (map g l) -> NoDup (map g (filter p l)).
Proof.
  induction l as [|x t IH]; cbn [map filter]; intros H; [constructor|].
  inversion H as [|? ? Hn Ht]; subst. destruct (p x); cbn [map]; [|apply IH; exact Ht].
  constructor; [|apply IH; exact Ht]. intros Hin. apply Hn.
  apply in_map_iff in Hin. destruct Hin as (y & Hy & Hin). apply filter_In in Hin.
  apply in_map_iff. exists y. tauto.
Qed.

Lemma find_spec_nodup fs q : NoDup (map fid fs) -> NoDup (map fid (find_spec fs q)).
Proof.
  intros H. unfold find_spec.
  apply (Permutation_NoDup (l := map fid (filter (selected q) fs))).
  - apply Permutation_map. symmetry. apply sort_key_perm.
  - apply nodup_map_filter. exact H.
Qed.

Lemma find_spec_in fs q f :
  In f (find_spec fs q) <->
  In f fs /\ t0 f < qend q /\ qstart q <= t1 f /\ name_excl f = false /\
  (forall a b, In (a, b) (excl q) -> t1 f < a \/ b < t0 f) /\ white_ok (white q) f = true /\ black_ok (black q) f = true.
Proof.
  unfold find_spec. split.
  - intros H. apply (Permutation_in _ (sort_key_perm _)) in H. apply filter_In in H. destruct H as [Hin Hs].
    unfold selected, passes in Hs. rewrite !andb_true_iff in Hs. destruct Hs as [[[Ha Hb] He] [Hw Hbl]].
    rewrite negb_true_iff in He. apply excluded_spec_iff in He. destruct He as [Hn Hp].
    repeat split; try assumption; lia.
  - intros (Hin & Ha & Hb & Hn & Hp & Hw & Hbl).
    apply (Permutation_in _ (Permutation_sym (sort_key_perm _))). apply filter_In. split; [exact Hin|].
    unfold selected, passes. rewrite !andb_true_iff, negb_true_iff. repeat split; try assumption; try lia.
    apply excluded_spec_iff. split; assumption.
Qed.

(* ------------------------------------------------------------------ `in` and len *)

Lemma filter_nil_existsb' {A} (p : A -> bool) l : filter p l = [] <-> existsb p l = false.
Proof.
  induction l as [|x t IH]; cbn [filter existsb]; [tauto|].
  destruct (p x); cbn [orb]; [split; discriminate|exact IH].
Qed.

Lemma instant_wf t ex : valid t -> Forall (fun '(a, b) => a <= b) ex -> wf_query (instant t ex).
Proof. intros V H. unfold wf_query, instant; cbn. unfold valid in *. repeat split; try lia. exact H. Qed.

Lemma contains_agrees_lemma lay fs ex t :
  no_gaps lay = true -> Forall well_placed fs -> Forall (short lay) fs -> Forall valid_file fs ->
  valid t -> Forall (fun '(a, b) => a <= b) ex ->
  contains_model lay fs ex t = existsb (selected (instant t ex)) fs.
Proof.
  intros HG HW HS HV Vt Hex. unfold contains_model.
  rewrite (find_model_spec lay fs (instant t ex) HG HW HS HV (instant_wf t ex Vt Hex)).
  unfold find_spec. destruct (sort_key _) as [|x l] eqn:E.
  - apply (proj1 (sort_key_nil _)) in E. apply (proj1 (filter_nil_existsb' _ _)) in E. symmetry. exact E.
  - destruct (existsb _ fs) eqn:E2; [reflexivity|]. apply (proj2 (filter_nil_existsb' _ _)) in E2. rewrite E2 in E. discriminate.
Qed.

Lemma everything_wf ex : Forall (fun '(a, b) => a <= b) ex -> wf_query (everything ex).
Proof. intros H. unfold wf_query, everything; cbn. unfold valid, dt_max. repeat split; try lia. exact H. Qed.

Lemma len_agrees_lemma lay fs ex :
  no_gaps lay = true -> Forall well_placed fs -> Forall (short lay) fs -> Forall valid_file fs ->
  Forall (fun '(a, b) => a <= b) ex ->
  len_model lay fs ex = Z.of_nat (length (filter (selected (everything ex)) fs)).
Proof.
  intros HG HW HS HV Hex. unfold len_model.
  rewrite (find_model_spec lay fs (everything ex) HG HW HS HV (everything_wf ex Hex)).
  unfold find_spec. rewrite (Permutation_length (sort_key_perm _)). reflexivity.
Qed.

(* with the open period only excluded files are left out (a file may not start at datetime.max itself) *)
Lemma selected_everything ex f : valid_file f -> t0 f < dt_max - 1 ->
  selected (everything ex) f = negb (excluded_spec (everything ex) f).
Proof.
  intros (V0 & V1 & H01) Hlt. unfold selected, passes, everything; cbn [qstart qend white black white_ok black_ok forallb].
  unfold valid in *. replace (t0 f <? dt_max - 1) with true by lia. replace (0 <=? t1 f) with true by lia.
  cbn [andb]. rewrite andb_true_r. reflexivity.
Qed.

(* ------------------------------------------------------------------ bundles by count *)

Fixpoint all_but_last {A} (P : A -> Prop) (l : list A) : Prop :=
  match l with
  | [] => True
  | x :: t => match t with [] => True | _ => P x end /\ all_but_last P t
  end.

Lemma bundle_n_aux_nil {A} fuel k (l : list A) : (length l <= fuel)%nat ->
  (bundle_n_aux fuel k l = [] <-> l = []).
Proof.
  destruct fuel as [|fu]; cbn [bundle_n_aux]; intros H.
  - destruct l; cbn [length] in H; [tauto|lia].
  - destruct l; [tauto|]. split; discriminate.
Qed.

Lemma bundle_n_aux_ok {A} k : (0 < k)%nat -> forall fuel (l : list A), (length l <= fuel)%nat ->
  concat (bundle_n_aux fuel k l) = l
  /\ Forall (fun b => (0 < length b <= k)%nat) (bundle_n_aux fuel k l)
  /\ all_but_last (fun b => length b = k) (bundle_n_aux fuel k l).
Proof.
  intros Hk. induction fuel as [|fu IH]; intros l Hl; cbn [bundle_n_aux].
  - destruct l; cbn [length] in Hl; [|lia]. cbn. repeat split; constructor.
  - destruct l as [|x t] eqn:El; [cbn; repeat split; constructor|]. rewrite <- El in *.
    assert (Hne : (0 < length l)%nat) by (rewrite El; cbn [length]; lia).
    assert (Hsk : (length (skipn k l) <= fu)%nat) by (rewrite skipn_length; lia).
    destruct (IH (skipn k l) Hsk) as (Hc & Hf & Ha).
    cbn [concat]. rewrite Hc, firstn_skipn. split; [reflexivity|]. split.
    + constructor; [|exact Hf]. rewrite firstn_length. lia.
    + cbn [all_but_last]. split; [|exact Ha].
      destruct (bundle_n_aux fu k (skipn k l)) eqn:Eb; [exact I|].
      assert (Hnn : skipn k l <> []).
      { intros E. apply (bundle_n_aux_nil fu k (skipn k l) Hsk) in E. rewrite E in Eb. discriminate. }
      rewrite firstn_length. assert (length (skipn k l) <> 0)%nat by (destruct (skipn k l); [congruence|cbn; lia]).
      rewrite skipn_length in H. lia.
Qed.

Lemma bundle_n_ok {A} k (l : list A) : (0 < k)%nat ->
  concat (bundle_n k l) = l
  /\ Forall (fun b => (0 < length b <= k)%nat) (bundle_n k l)
  /\ all_but_last (fun b => length b = k) (bundle_n k l).
Proof. intros Hk. unfold bundle_n. apply bundle_n_aux_ok; [exact Hk|lia]. Qed.

(* ------------------------------------------------------------------ bundles by time bin *)

Definition same_bin {A} (b : A -> Z) (g : list A) : Prop := forall x y, In x g -> In y g -> b x = b y.
Fixpoint adjacent_differ {A} (b : A -> Z) (gs : list (list A)) : Prop :=
  match gs with
  | [] => True
  | g1 :: rest =>
      match rest with
      | [] => True
      | g2 :: _ => forall x y, In x g1 -> In y g2 -> b x <> b y
      end /\ adjacent_differ b rest
  end.

Lemma group_runs_ok {A} (b : A -> Z) (l : list A) :
  concat (group_runs b l) = l
  /\ Forall (fun g => g <> []) (group_runs b l)
  /\ Forall (same_bin b) (group_runs b l)
  /\ adjacent_differ b (group_runs b l).
Proof.
  induction l as [|x t (Hc & Hn & Hs & Ha)]; cbn [group_runs]; [cbn; repeat split; constructor|].
  destruct (group_runs b t) as [|g gs] eqn:E.
  - cbn [concat] in Hc. subst t. cbn. repeat split; try constructor; try constructor; try discriminate.
    intros u v [<-|[]] [<-|[]]. reflexivity.
  - destruct g as [|y g].
    + exfalso. inversion Hn; subst. congruence.
    + inversion Hn as [|? ? _ Hn']; subst. inversion Hs as [|? ? Hsg Hs']; subst.
      cbn [adjacent_differ] in Ha. destruct Ha as [Ha1 Ha2].
      destruct (b x =? b y) eqn:Exy.
      * cbn [concat] in *. split; [cbn [app]; f_equal; exact Hc|]. split; [constructor; [discriminate|exact Hn']|].
        split.
        -- constructor; [|exact Hs'].
           assert (Hx : forall u, In u (x :: y :: g) -> b u = b y).
           { intros u [<-|Hu]; [lia|]. apply Hsg; [exact Hu|left; reflexivity]. }
           intros u v Hu Hv. rewrite (Hx u Hu), (Hx v Hv). reflexivity.
        -- cbn [adjacent_differ]. split; [|exact Ha2].
           destruct gs as [|g2 gs']; [exact I|]. intros u v [<-|Hu] Hv.
           ++ assert (b y <> b v) by (apply Ha1; [left; reflexivity|exact Hv]). lia.
           ++ apply Ha1; assumption.
      * cbn [concat] in *. split; [cbn [app]; f_equal; exact Hc|].
        split; [constructor; [discriminate|constructor; [discriminate|exact Hn']]|].
        split.
        -- constructor; [|constructor; assumption]. intros u v [<-|[]] [<-|[]]. reflexivity.
        -- cbn [adjacent_differ]. split; [|split; assumption].
           intros u v [<-|[]] Hv. assert (b v = b y) by (apply Hsg; [exact Hv|left; reflexivity]). lia.
Qed.

(* ------------------------------------------------------------------ boolean hypotheses are sound *)

Lemma hyp_fileb_sound lay f : hyp_fileb lay f = true -> well_placed f /\ short lay f /\ valid_file f.
Proof.
  unfold hyp_fileb, valid_fileb, well_placed, short, valid_file. rewrite !andb_true_iff.
  intros [[[[V0 V1] H01] HW] HS]. apply validb_iff in V0, V1.
  unfold valid in *. split; [lia|]. split; [destruct lay; [exact I|lia]|]. lia.
Qed.

Lemma hyps_sound lay fs : hyps lay fs = true ->
  no_gaps lay = true /\ Forall well_placed fs /\ Forall (short lay) fs /\ Forall valid_file fs.
Proof.
  unfold hyps. rewrite andb_true_iff. intros [HG HF]. split; [exact HG|].
  rewrite forallb_forall in HF. repeat split; apply Forall_forall; intros f Hin;
    destruct (hyp_fileb_sound lay f (HF f Hin)) as (A & B & C); assumption.
Qed.

Lemma wf_queryb_sound q : wf_queryb q = true -> wf_query q.
Proof.
  unfold wf_queryb, wf_query. rewrite !andb_true_iff. intros [[[V H1] H2] H3]. apply validb_iff in V.
  split; [exact V|]. split; [lia|]. apply Forall_forall. intros [a b] Hin.
  rewrite forallb_forall in H3. specialize (H3 _ Hin). cbn in H3. lia.
Qed.

(* the code before fix C01_1 loses files on an input that satisfies every hypothesis *)
Lemma find_asis_refuted_lemma : exists lay fs q,
  no_gaps lay = true /\ Forall well_placed fs /\ Forall (short lay) fs /\ Forall valid_file fs /\
  wf_query q /\ find_asis lay fs q <> Ok (find_spec fs q).
Proof.
  exists ex_lay, ex_files, ex_query.
  assert (H : hyps ex_lay ex_files = true) by (vm_compute; reflexivity).
  destruct (hyps_sound _ _ H) as (A & B & C & D).
  split; [exact A|]. split; [exact B|]. split; [exact C|]. split; [exact D|].
  split; [apply wf_queryb_sound; vm_compute; reflexivity|].
  vm_compute. discriminate.
Qed.

(* ------------------------------------------------------------------ the look-back near datetime.min *)

(* where the unclamped look-back is representable the code before bd49e45 is the present code ... *)
Lemma find_noclamp_agrees lay fs q : lookback_overflows lay (qstart q) = false ->
  find_noclamp lay fs q = find_model lay fs q.
Proof.
  intros H. unfold find_noclamp, find_model, find_gen. rewrite H. destruct (qend q - 1 <? qstart q); reflexivity.
Qed.

(* ... and it raises exactly for the starts strictly between datetime.min and datetime.min + P *)
Lemma lookback_overflows_iff lay s : 0 <= s ->
  (lookback_overflows lay s = true <-> lay <> [] /\ 0 < s < lookback lay).
Proof.
  intros Hs. unfold lookback_overflows. destruct lay as [|c rest].
  - split; [discriminate|]. intros [H _]. congruence.
  - split.
    + intros H. split; [discriminate|]. lia.
    + intros [_ H]. lia.
Qed.

Lemma find_noclamp_raises lay fs q : wf_query q -> lay <> [] -> 0 < qstart q < lookback lay ->
  find_noclamp lay fs q = Err OverflowErr.
Proof.
  intros (Vq & [Hse Hemax] & _) Hl Hr. unfold find_noclamp.
  replace (qend q - 1 <? qstart q) with false by lia.
  assert (H : lookback_overflows lay (qstart q) = true) by (apply lookback_overflows_iff; [lia|tauto]).
  rewrite H. reflexivity.
Qed.

Lemma find_noclamp_overflow_iff lay fs q : wf_query q ->
  (find_noclamp lay fs q = Err OverflowErr <-> lay <> [] /\ 0 < qstart q < lookback lay).
Proof.
  intros HQ. split; [|intros [Hl Hr]; apply find_noclamp_raises; assumption].
  pose proof HQ as (Vq & [Hse Hemax] & _). unfold valid in Vq.
  unfold find_noclamp, find_model, find_gen. replace (qend q - 1 <? qstart q) with false by lia.
  destruct (lookback_overflows lay (qstart q)) eqn:E; [|discriminate].
  intros _. apply lookback_overflows_iff; [lia|exact E].
Qed.

Lemma find_noclamp_exact_lemma lay fs q : wf_query q ->
  (find_noclamp lay fs q = Err OverflowErr <-> lay <> [] /\ 0 < qstart q < lookback lay) /\
  (find_noclamp lay fs q <> Err OverflowErr -> find_noclamp lay fs q = find_model lay fs q).
Proof.
  intros HQ. split; [exact (find_noclamp_overflow_iff lay fs q HQ)|].
  intros H. apply find_noclamp_agrees. destruct (lookback_overflows lay (qstart q)) eqn:E; [|reflexivity].
  exfalso. apply H. apply find_noclamp_raises; [exact HQ| |];
    apply (lookback_overflows_iff lay (qstart q)) in E; try tauto; destruct HQ as ([? _] & _); assumption.
Qed.

(* the code before bd49e45 raises OverflowError on an input that satisfies every hypothesis and for which the
   specification (and the present algorithm) has a file *)
Lemma lookback_overflow_asis_refuted_lemma : exists lay fs q,
  no_gaps lay = true /\ Forall well_placed fs /\ Forall (short lay) fs /\ Forall valid_file fs /\
  wf_query q /\ find_noclamp lay fs q = Err OverflowErr /\ find_spec fs q <> [] /\
  find_model lay fs q = Ok (find_spec fs q).
Proof.
  exists ex_min_lay, ex_min_files, ex_min_query.
  assert (H : hyps ex_min_lay ex_min_files = true) by (vm_compute; reflexivity).
  destruct (hyps_sound _ _ H) as (A & B & C & D).
  assert (Q : wf_query ex_min_query) by (apply wf_queryb_sound; vm_compute; reflexivity).
  split; [exact A|]. split; [exact B|]. split; [exact C|]. split; [exact D|]. split; [exact Q|].
  split; [vm_compute; reflexivity|]. split; [vm_compute; discriminate|].
  apply find_model_spec; assumption.
Qed.

(* ------------------------------------------------------------------ single-file filesets *)

Lemma single_find_ok cov s e : s < e ->
  single_find cov s e = Some ((fst cov <? e) && (s <=? snd cov)).
Proof. intros H. unfold single_find. replace (e - 1 <? s) with false by lia. f_equal. lia. Qed.

Lemma single_find_err cov s e : e <= s -> single_find cov s e = None.
Proof. intros H. unfold single_find. replace (e - 1 <? s) with true by lia. reflexivity. Qed.

(* ================================================================== C01 extension: stability, time bins *)
(* ------------------------------------------------------------------ stability of the sort *)

Lemma insert_key_stable a b x l : Sorted key_rel l ->
  filter (has_key a b) (insert_key x l) = filter (has_key a b) (x :: l).
Proof.
  induction l as [|y t IH]; intros Hs; cbn [insert_key]; [reflexivity|].
  destruct (key_le x y) eqn:E; [reflexivity|].
  inversion Hs as [|? ? Hst Hhd]; subst.
  cbn [filter]. rewrite (IH Hst). cbn [filter].
  destruct (has_key a b x) eqn:Hx; [|reflexivity].
  destruct (has_key a b y) eqn:Hy; [|reflexivity].
  exfalso. unfold has_key, key_le in *. lia.
Qed.

Lemma sort_key_stable a b l : filter (has_key a b) (sort_key l) = filter (has_key a b) l.
Proof.
  induction l as [|x t IH]; cbn [sort_key fold_right]; [reflexivity|]. fold (sort_key t).
  rewrite (insert_key_stable a b x (sort_key t) (sort_key_sorted t)). cbn [filter]. rewrite IH. reflexivity.
Qed.

Lemma filter_filter_comm {A} (p r : A -> bool) l : filter p (filter r l) = filter (fun x => r x && p x) l.
Proof.
  induction l as [|x t IH]; cbn [filter]; [reflexivity|].
  destruct (r x); cbn [filter andb]; [destruct (p x)|]; rewrite IH; reflexivity.
Qed.

(* whatever the input (no hypothesis on layout, files or period): when find returns, the files of one
   coverage (a, b) appear in the order of the stream of found files, which is the order of fs *)
Lemma find_gen_stable local lay fs q l a b : find_gen local lay fs q = Ok l ->
  filter (has_key a b) l = filter (fun f => found local lay q f && has_key a b f) fs.
Proof.
  unfold find_gen. destruct (qend q - 1 <? qstart q); [discriminate|].
  intros H. injection H as <-. rewrite sort_key_stable. apply filter_filter_comm.
Qed.

Lemma find_spec_stable fs q a b :
  filter (has_key a b) (find_spec fs q) = filter (fun f => selected q f && has_key a b f) fs.
Proof. unfold find_spec. rewrite sort_key_stable. apply filter_filter_comm. Qed.

Lemma find_sorted_stable_lemma lay fs q :
  no_gaps lay = true -> Forall well_placed fs -> Forall (short lay) fs -> Forall valid_file fs ->
  wf_query q ->
  exists l, find_model lay fs q = Ok l /\
    forall a b, filter (has_key a b) l = filter (fun f => selected q f && has_key a b f) fs.
Proof.
  intros. exists (find_spec fs q). split; [apply find_model_spec; assumption|].
  intros a b. apply find_spec_stable.
Qed.

(* ------------------------------------------------------------------ sorted + stable determines the result *)

Lemma key_rel_trans : Transitive key_rel.
Proof. intros x y z. unfold key_rel, key_le. lia. Qed.

Lemma sorted_head_le x l y : Sorted key_rel (x :: l) -> In y l -> key_rel x y.
Proof.
  intros Hs Hin. apply (Sorted_StronglySorted key_rel_trans) in Hs.
  inversion Hs as [|? ? _ Hall]; subst. rewrite Forall_forall in Hall. apply Hall. exact Hin.
Qed.

Lemma has_key_self x : has_key (t0 x) (t1 x) x = true.
Proof. unfold has_key. lia. Qed.

Lemma in_filter_key y l : In y l -> In y (filter (has_key (t0 y) (t1 y)) l).
Proof. intros H. apply filter_In. split; [exact H|apply has_key_self]. Qed.

(* two key-sorted lists with the same sub-sequence of files for every key are equal *)
Lemma stable_sorted_unique_lemma : forall l1 l2,
  Sorted key_rel l1 -> Sorted key_rel l2 ->
  (forall a b, filter (has_key a b) l1 = filter (has_key a b) l2) -> l1 = l2.
Proof.
  induction l1 as [|x t1' IH]; intros l2 S1 S2 H.
  - destruct l2 as [|y t2']; [reflexivity|]. specialize (H (t0 y) (t1 y)). cbn [filter] in H.
    rewrite has_key_self in H. discriminate.
  - destruct l2 as [|y t2'].
    + specialize (H (t0 x) (t1 x)). cbn [filter] in H. rewrite has_key_self in H. discriminate.
    + assert (Hxy : x = y).
      { pose proof (H (t0 x) (t1 x)) as Hx. cbn [filter] in Hx. rewrite has_key_self in Hx.
        destruct (has_key (t0 x) (t1 x) y) eqn:Ey; [injection Hx as Hx _; exact Hx|].
        (* y has another key: x occurs later in l2 and some y' with the key of y occurs in l1 *)
        exfalso.
        assert (Hx2 : In x t2').
        { assert (I : In x (filter (has_key (t0 x) (t1 x)) t2')) by (rewrite <- Hx; left; reflexivity).
          apply filter_In in I. tauto. }
        pose proof (sorted_head_le y t2' x S2 Hx2) as Lyx.
        pose proof (H (t0 y) (t1 y)) as Hy. cbn [filter] in Hy. rewrite has_key_self in Hy.
        assert (Hnk : has_key (t0 y) (t1 y) x = false) by (unfold has_key in *; lia).
        rewrite Hnk in Hy.
        assert (I : In y (filter (has_key (t0 y) (t1 y)) t1')) by (rewrite Hy; left; reflexivity).
        apply filter_In in I. destruct I as [I _].
        pose proof (sorted_head_le x t1' y S1 I) as Lxy.
        unfold key_rel, key_le, has_key in *. lia. }
      subst y. f_equal. apply IH.
      * inversion S1; assumption.
      * inversion S2; assumption.
      * intros a b. specialize (H a b). cbn [filter] in H. destruct (has_key a b x); [injection H as H; exact H|exact H].
Qed.

(* hence: a list is the result of find iff it is key-sorted and keeps, key by key, the order of the stream *)
Lemma find_spec_characterised fs q l :
  l = find_spec fs q <->
  Sorted key_rel l /\ forall a b, filter (has_key a b) l = filter (has_key a b) (filter (selected q) fs).
Proof.
  split.
  - intros ->. split; [apply sort_key_sorted|]. intros a b. unfold find_spec. apply sort_key_stable.
  - intros [S H]. apply stable_sorted_unique_lemma; [exact S|apply sort_key_sorted|].
    intros a b. rewrite H. unfold find_spec. symmetry. apply sort_key_stable.
Qed.



(* ------------------------------------------------------------------ time bins: edges, complete bins *)

(* bin k of width w anchored at o is the semi-open interval [o + k w, o + (k+1) w) *)
Lemma bin_edges_lemma (w o t k : Z) : 0 < w -> ((t - o) / w = k <-> o + k * w <= t < o + (k + 1) * w).
Proof.
  intros Hw. split.
  - intros <-. pose proof (Z.mul_div_le (t - o) w Hw). pose proof (Z.mul_succ_div_gt (t - o) w Hw). lia.
  - intros H. symmetry. apply (Z.div_unique_pos (t - o) w k (t - o - k * w)); lia.
Qed.

Definition groups_increase {A} (b : A -> Z) : list (list A) -> Prop :=
  StronglySorted (fun g1 g2 => forall x y, In x g1 -> In y g2 -> b x < b y).

Lemma in_concat_group {A} (gs : list (list A)) g x : In g gs -> In x g -> In x (concat gs).
Proof. intros Hg Hx. apply in_concat. exists g. tauto. Qed.

(* on a sequence whose bin numbers never decrease, the runs have strictly increasing bin numbers *)
Lemma group_runs_increase {A} (b : A -> Z) (l : list A) :
  StronglySorted (fun x y => b x <= b y) l -> groups_increase b (group_runs b l).
Proof.
  induction l as [|x t IH]; intros Hs; cbn [group_runs]; [constructor|].
  apply StronglySorted_inv in Hs. destruct Hs as [Hst Hall]. specialize (IH Hst). rewrite Forall_forall in Hall.
  destruct (group_runs_ok b t) as (Hc & _ & Hsb & _).
  destruct (group_runs b t) as [|g gs] eqn:E; [repeat constructor|].
  destruct g as [|y g]; [repeat constructor|].
  apply StronglySorted_inv in IH. destruct IH as [IHgs IHall]. rewrite Forall_forall in IHall.
  pose proof (Forall_inv Hsb) as Hsg.
  assert (Hyt : forall v, In v (y :: g) -> In v t).
  { intros v Hv. rewrite <- Hc. apply (in_concat_group _ (y :: g)); [left; reflexivity|exact Hv]. }
  destruct (b x =? b y) eqn:Exy.
  - constructor; [exact IHgs|]. apply Forall_forall. intros g2 Hg2 u v [<-|Hu] Hv.
    + assert (b y < b v) by (apply (IHall g2 Hg2); [left; reflexivity|exact Hv]). lia.
    + apply (IHall g2 Hg2); assumption.
  - assert (Hlt : b x < b y) by (assert (b x <= b y) by (apply Hall, Hyt; left; reflexivity); lia).
    constructor; [constructor; [exact IHgs|apply Forall_forall; exact IHall]|]. apply Forall_forall. intros g2 [<-|Hg2] u v [<-|[]] Hv.
    + assert (b v = b y) by (apply Hsg; [exact Hv|left; reflexivity]). lia.
    + assert (b y < b v) by (apply (IHall g2 Hg2); [left; reflexivity|exact Hv]). lia.
Qed.

Lemma filter_all {A} (p : A -> bool) l : (forall x, In x l -> p x = true) -> filter p l = l.
Proof.
  induction l as [|x t IH]; intros H; cbn [filter]; [reflexivity|].
  rewrite (H x (or_introl eq_refl)). f_equal. apply IH. intros y Hy. apply H. right. exact Hy.
Qed.

Lemma filter_none {A} (p : A -> bool) l : (forall x, In x l -> p x = false) -> filter p l = [].
Proof.
  induction l as [|x t IH]; intros H; cbn [filter]; [reflexivity|].
  rewrite (H x (or_introl eq_refl)). apply IH. intros y Hy. apply H. right. exact Hy.
Qed.

(* groups with one bin each and increasing bins: each group is ALL of the sequence that falls into its bin *)
Lemma groups_complete {A} (b : A -> Z) (gs : list (list A)) :
  Forall (same_bin b) gs -> groups_increase b gs ->
  forall g x, In g gs -> In x g -> g = filter (fun f => b f =? b x) (concat gs).
Proof.
  induction gs as [|g1 rest IH]; intros Hsb Hinc g x Hg Hx; [destruct Hg|].
  inversion Hsb as [|? ? Hs1 Hsr]; subst. inversion Hinc as [|? ? Hir Hall]; subst. rewrite Forall_forall in Hall.
  cbn [concat]. rewrite filter_app. destruct Hg as [<-|Hg].
  - rewrite filter_all, filter_none; [symmetry; apply app_nil_r| |].
    + intros v Hv. apply in_concat in Hv. destruct Hv as (g2 & Hg2 & Hv).
      assert (b x < b v) by (apply (Hall g2 Hg2); assumption). lia.
    + intros v Hv. assert (b v = b x) by (apply Hs1; assumption). lia.
  - rewrite filter_none; [cbn [app]; apply IH; assumption|].
    intros v Hv. assert (b v < b x) by (apply (Hall g Hg); assumption). lia.
Qed.

Lemma sorted_t0_mono l : Sorted key_rel l -> StronglySorted (fun x y : file => t0 x <= t0 y) l.
Proof.
  intros Hs. apply (Sorted_StronglySorted key_rel_trans) in Hs.
  induction Hs as [|x t Hst IH Hall]; constructor; [exact IH|].
  rewrite Forall_forall in *. intros y Hy. specialize (Hall y Hy). unfold key_rel, key_le in Hall. lia.
Qed.

Lemma strongly_sorted_impl {A} (R S : A -> A -> Prop) l : (forall x y, R x y -> S x y) -> StronglySorted R l -> StronglySorted S l.
Proof.
  intros HRS Hs. induction Hs as [|x t Hst IH Hall]; constructor; [exact IH|].
  rewrite Forall_forall in *. intros y Hy. apply HRS, Hall, Hy.
Qed.

(* the time bundles of a key-sorted sequence: every bundle is a complete bin [o + k w, o + (k+1) w) of the
   sequence, the bundles come in increasing bin order, and o is midnight of the day of the first file *)
Lemma bundle_f_bins (w : Z) (l : list file) : 0 < w -> Sorted key_rel l ->
  (forall g x, In g (bundle_f w l) -> In x g ->
     g = filter (fun f => bin_of w (origin_of l) f =? bin_of w (origin_of l) x) l
     /\ origin_of l + bin_of w (origin_of l) x * w <= t0 x < origin_of l + (bin_of w (origin_of l) x + 1) * w)
  /\ groups_increase (bin_of w (origin_of l)) (bundle_f w l)
  /\ (forall x t, l = x :: t -> origin_of l = t0 x / us_day * us_day /\ 0 <= bin_of w (origin_of l) x).
Proof.
  intros Hw Hs. set (o := origin_of l). unfold bundle_f. fold o.
  destruct (group_runs_ok (bin_of w o) l) as (Hc & _ & Hsb & _).
  assert (Hinc : groups_increase (bin_of w o) (group_runs (bin_of w o) l)).
  { apply group_runs_increase. apply (strongly_sorted_impl (fun x y : file => t0 x <= t0 y)); [|apply sorted_t0_mono; exact Hs].
    intros x y Hxy. unfold bin_of. apply Z.div_le_mono; lia. }
  split; [|split; [exact Hinc|]].
  - intros g x Hg Hx. split.
    + pose proof (groups_complete (bin_of w o) _ Hsb Hinc g x Hg Hx) as G. rewrite Hc in G. exact G.
    + apply (bin_edges_lemma w o (t0 x) (bin_of w o x) Hw). reflexivity.
  - intros x t ->. subst o. cbn [origin_of trunc_to]. split; [reflexivity|].
    unfold bin_of. cbn [origin_of trunc_to]. apply Z.div_pos; [|lia].
    pose proof (Z.mul_div_le (t0 x) us_day). unfold us_day in *. lia.
Qed.

(* bundling does not disturb that order: both bundlers only cut the sequence *)
Lemma bundles_stable_lemma fs q a b (k : nat) (w : Z) : (0 < k)%nat ->
  filter (has_key a b) (concat (bundle_n k (find_spec fs q))) = filter (fun f => selected q f && has_key a b f) fs
  /\ filter (has_key a b) (concat (bundle_f w (find_spec fs q))) = filter (fun f => selected q f && has_key a b f) fs.
Proof.
  intros Hk. destruct (bundle_n_ok k (find_spec fs q) Hk) as (C1 & _).
  destruct (group_runs_ok (bin_of w (origin_of (find_spec fs q))) (find_spec fs q)) as (C2 & _).
  unfold bundle_f. rewrite C1, C2. split; apply find_spec_stable.
Qed.

Lemma bin_of_edges (w o k : Z) (f : file) : 0 < w -> (bin_of w o f = k <-> bin_lo w o k <= t0 f < bin_lo w o (k + 1)).
Proof. intros Hw. unfold bin_of, bin_lo. apply bin_edges_lemma. exact Hw. Qed.
