(* C20 -- lemmas about the SRTM30 model (Model/C20_srtm.v). *)
From Coq Require Import ZArith List Bool String Lia ZifyBool.
From TyphonGen Require Import C20_tiles.
From Typhon Require Import Model.C20_srtm.
Import ListNotations.
Open Scope Z_scope.
Ltac Zify.zify_post_hook ::= Z.to_euclidean_division_equations.

(* ------------------------------------------------------------------ zrange / arange *)

Lemma zrange_length : forall n a, List.length (zrange a n) = n.
Proof. induction n as [|n IH]; intros a; cbn [zrange List.length]; [reflexivity|now rewrite IH]. Qed.

Lemma in_zrange : forall n a x, In x (zrange a n) <-> a <= x < a + Z.of_nat n.
Proof.
  induction n as [|n IH]; intros a x; cbn [zrange In].
  - split; [tauto|lia].
  - rewrite IH. lia.
Qed.

Lemma nth_zrange : forall n a k d, (k < n)%nat -> nth k (zrange a n) d = a + Z.of_nat k.
Proof.
  induction n as [|n IH]; intros a k d Hk; [lia|].
  destruct k as [|k]; cbn [zrange nth]; [lia|]. rewrite IH by lia. lia.
Qed.

Lemma map_zrange_shift : forall {A} (f : Z -> A) n a s,
  map f (zrange (a + s) n) = map (fun i => f (i + s)) (zrange a n).
Proof.
  intros A f; induction n as [|n IH]; intros a s; cbn [zrange map]; [reflexivity|].
  f_equal. replace (a + s + 1) with ((a + 1) + s) by lia. apply IH.
Qed.

Lemma arange_nil : forall a b, b <= a -> arange a b = [].
Proof. intros a b Hab. unfold arange. replace (Z.to_nat (b - a)) with O by lia. reflexivity. Qed.

Lemma arange_cons : forall a b, a < b -> arange a b = a :: arange (a + 1) b.
Proof.
  intros a b Hab. unfold arange.
  replace (Z.to_nat (b - a)) with (S (Z.to_nat (b - (a + 1)))) by lia. reflexivity.
Qed.

Lemma in_arange : forall a b x, In x (arange a b) <-> a <= x < b.
Proof. intros a b x. unfold arange. rewrite in_zrange. lia. Qed.

(* ------------------------------------------------------------------ trunc *)

Lemma trunc_spec : forall num D, 0 < D -> 0 <= num ->
  trunc num D * D <= num < (trunc num D + 1) * D.
Proof.
  intros num D HD Hn. unfold trunc. rewrite Z.quot_div_nonneg by lia.
  pose proof (Z.mul_div_le num D HD) as H1.
  pose proof (Z.mul_succ_div_gt num D HD) as H2. lia.
Qed.

Lemma mul_lt_cancel : forall a b D, 0 < D -> a * D < b * D -> a < b.
Proof. intros a b D HD Hab. apply (Z.mul_lt_mono_pos_r D); assumption. Qed.

Lemma mul_le_lt_cancel : forall a b c D, 0 < D -> a * D <= c -> c < b * D -> a < b.
Proof. intros a b c D HD H1 H2. apply (mul_lt_cancel a b D HD). lia. Qed.

(* the four index bounds of get_native_grids, inside the covered area *)
Lemma rows_cols_spec : forall r, in_coverage r ->
  let D := rD r in
  (row_top r - 1) * D <= rowq D (rlat1 r) < row_top r * D /\
  (row_bot r - 1) * D < rowq D (rlat0 r) <= row_bot r * D /\
  col_left r * D <= colq D (rlon0 r) < (col_left r + 1) * D /\
  col_right r * D < colq D (rlon1 r) <= (col_right r + 1) * D.
Proof.
  intros r (HD & H1 & H2 & H3 & H4 & H5 & H6). cbv zeta.
  assert (Q1 : 0 <= rowq (rD r) (rlat1 r)) by (unfold rowq; lia).
  assert (Q0 : 0 <= rowq (rD r) (rlat0 r)) by (unfold rowq; lia).
  assert (P0 : 0 <= colq (rD r) (rlon0 r)) by (unfold colq; lia).
  assert (P1 : 0 <= colq (rD r) (rlon1 r)) by (unfold colq; lia).
  pose proof (trunc_spec _ _ HD Q1) as T1. pose proof (trunc_spec _ _ HD Q0) as T0.
  pose proof (trunc_spec _ _ HD P0) as S0. pose proof (trunc_spec _ _ HD P1) as S1.
  unfold row_top, row_bot, col_left, col_right. cbv zeta.
  destruct (trunc (rowq (rD r) (rlat0 r)) (rD r) * rD r <? rowq (rD r) (rlat0 r)) eqn:E0;
  destruct (trunc (colq (rD r) (rlon1 r)) (rD r) * rD r <? colq (rD r) (rlon1 r)) eqn:E1;
  repeat split; lia.
Qed.

Lemma rows_cols_range : forall r, in_coverage r ->
  1 <= row_top r /\ row_top r <= row_bot r /\ row_bot r <= 18000 /\
  0 <= col_left r /\ col_left r <= col_right r /\ col_right r <= 43199.
Proof.
  intros r Hc. pose proof (rows_cols_spec r Hc) as S. cbv zeta in S.
  destruct Hc as (HD & H1 & H2 & H3 & H4 & H5 & H6).
  destruct S as ((A1 & A2) & (B1 & B2) & (C1 & C2) & (E1 & E2)).
  unfold rowq, colq in *.
  assert (0 < row_top r) by (apply (mul_le_lt_cancel 0 (row_top r) ((90 * rD r - rlat1 r) * 120) (rD r)); lia).
  assert (row_top r - 1 < row_bot r)
    by (apply (mul_le_lt_cancel _ _ ((90 * rD r - rlat1 r) * 120) (rD r)); lia).
  assert (row_bot r - 1 < 18000)
    by (apply (mul_lt_cancel _ _ (rD r)); lia).
  assert (-1 < col_left r) by (apply (mul_lt_cancel _ _ (rD r)); lia).
  assert (col_left r < col_right r + 1)
    by (apply (mul_le_lt_cancel _ _ ((rlon0 r + 180 * rD r) * 120) (rD r)); lia).
  assert (col_right r < 43200) by (apply (mul_lt_cancel _ _ (rD r)); lia).
  lia.
Qed.

(* ------------------------------------------------------------------ shape of the native grids *)

Lemma steps_lat : forall n a, steps (-2) (map lat_hc (zrange a n)) = true.
Proof.
  induction n as [|n IH]; intros a; [reflexivity|].
  destruct n as [|n]; [reflexivity|].
  specialize (IH (a + 1)). cbn [zrange map steps] in *. rewrite IH. unfold lat_hc. lia.
Qed.

Lemma steps_lon : forall n a, steps 2 (map lon_hc (zrange a n)) = true.
Proof.
  induction n as [|n IH]; intros a; [reflexivity|].
  destruct n as [|n]; [reflexivity|].
  specialize (IH (a + 1)). cbn [zrange map steps] in *. rewrite IH. unfold lon_hc. lia.
Qed.

Lemma last_map_zrange : forall (f : Z -> Z) n a d, last (map f (zrange a (S n))) d = f (a + Z.of_nat n).
Proof.
  intros f; induction n as [|n IH]; intros a d.
  - cbn. f_equal. lia.
  - specialize (IH (a + 1) d). cbn [zrange map] in *. cbn [last].
    cbn [last] in IH. rewrite IH. f_equal. lia.
Qed.

Lemma native_lats_eq : forall r, in_coverage r ->
  exists n, native_lats r = map lat_hc (zrange (row_top r) (S n)) /\ Z.of_nat n = row_bot r - row_top r.
Proof.
  intros r Hc. pose proof (rows_cols_range r Hc) as R.
  exists (Z.to_nat (row_bot r - row_top r)). split; [|lia].
  unfold native_lats, arange. f_equal. f_equal. lia.
Qed.

Lemma native_lons_eq : forall r, in_coverage r ->
  exists m, native_lons r = map lon_hc (zrange (col_left r) (S m)) /\ Z.of_nat m = col_right r - col_left r.
Proof.
  intros r Hc. pose proof (rows_cols_range r Hc) as R.
  exists (Z.to_nat (col_right r - col_left r)). split; [|lia].
  unfold native_lons, arange. f_equal. f_equal. lia.
Qed.

Lemma native_lat_ok : forall r, in_coverage r -> lat_ok r (native_lats r) = true.
Proof.
  intros r Hc. destruct (native_lats_eq r Hc) as (n & E & Hn).
  pose proof (rows_cols_spec r Hc) as S. cbv zeta in S.
  destruct S as ((A1 & A2) & (B1 & B2) & _).
  unfold lat_ok. rewrite E. cbn [zrange map].
  change (lat_hc (row_top r) :: map lat_hc (zrange (row_top r + 1) n))
    with (map lat_hc (zrange (row_top r) (S n))).
  rewrite last_map_zrange, steps_lat.
  replace (row_top r + Z.of_nat n) with (row_bot r) by lia.
  unfold rowq, lat_hc in *.
  assert ((21601 - 2 * row_top r) mod 2 = 1).
  { replace (21601 - 2 * row_top r) with (1 + (10800 - row_top r) * 2) by lia.
    rewrite Z.mod_add by lia. reflexivity. }
  lia.
Qed.

Lemma native_lon_ok : forall r, in_coverage r -> lon_ok r (native_lons r) = true.
Proof.
  intros r Hc. destruct (native_lons_eq r Hc) as (m & E & Hm).
  pose proof (rows_cols_spec r Hc) as S. cbv zeta in S.
  destruct S as (_ & _ & (C1 & C2) & (E1 & E2)).
  unfold lon_ok. rewrite E. cbn [zrange map].
  change (lon_hc (col_left r) :: map lon_hc (zrange (col_left r + 1) m))
    with (map lon_hc (zrange (col_left r) (S m))).
  rewrite last_map_zrange, steps_lon.
  replace (col_left r + Z.of_nat m) with (col_right r) by lia.
  unfold colq, lon_hc in *.
  assert ((-43199 + 2 * col_left r) mod 2 = 1).
  { replace (-43199 + 2 * col_left r) with (1 + (col_left r - 21600) * 2) by lia.
    rewrite Z.mod_add by lia. reflexivity. }
  lia.
Qed.

Lemma native_grid_ok : forall r, in_coverage r -> grid_ok r (native_lats r) (native_lons r) = true.
Proof. intros r Hc. unfold grid_ok. now rewrite native_lat_ok, native_lon_ok. Qed.

(* what the boolean checker says, in words *)
Lemma lat_ok_sound : forall r lats, lat_ok r lats = true ->
  exists top n, lats = top :: n /\ top mod 2 = 1 /\
    (forall k, (S k < List.length lats)%nat -> nth (S k) lats 0 = nth k lats 0 - 2) /\
    240 * rlat1 r <= (top + 1) * rD r /\ (top + 1 - 2) * rD r < 240 * rlat1 r /\
    (last lats top - 1) * rD r <= 240 * rlat0 r /\ 240 * rlat0 r < (last lats top - 1 + 2) * rD r.
Proof.
  intros r lats H. unfold lat_ok in H. destruct lats as [|top n]; [discriminate|]. cbv zeta in H.
  rewrite !andb_true_iff in H. destruct H as (((((P1 & St) & P2) & P3) & P4) & P5).
  exists top, n. split; [reflexivity|].
  assert (G : forall l k, steps (-2) l = true -> (S k < List.length l)%nat -> nth (S k) l 0 = nth k l 0 - 2).
  { induction l as [|x l IH]; intros k Hs Hk; [cbn in Hk; lia|].
    destruct l as [|y l]; [cbn in Hk; lia|].
    cbn [steps] in Hs. apply andb_prop in Hs. destruct Hs as [Hs1 Hs2].
    destruct k as [|k]; [cbn; lia|].
    change (nth (S (S k)) (x :: y :: l) 0) with (nth (S k) (y :: l) 0).
    change (nth (S k) (x :: y :: l) 0) with (nth k (y :: l) 0).
    apply IH; [exact Hs2|cbn in Hk |- *; lia]. }
  split; [lia|]. split; [intros k Hk; apply G; assumption|]. lia.
Qed.

Lemma lon_ok_sound : forall r lons, lon_ok r lons = true ->
  exists lft n, lons = lft :: n /\ lft mod 2 = 1 /\
    (forall k, (S k < List.length lons)%nat -> nth (S k) lons 0 = nth k lons 0 + 2) /\
    (lft - 1) * rD r <= 240 * rlon0 r /\ 240 * rlon0 r < (lft - 1 + 2) * rD r /\
    240 * rlon1 r <= (last lons lft + 1) * rD r /\ (last lons lft + 1 - 2) * rD r < 240 * rlon1 r.
Proof.
  intros r lons H. unfold lon_ok in H. destruct lons as [|lft n]; [discriminate|]. cbv zeta in H.
  rewrite !andb_true_iff in H. destruct H as (((((P1 & St) & P2) & P3) & P4) & P5).
  exists lft, n. split; [reflexivity|].
  assert (G : forall l k, steps 2 l = true -> (S k < List.length l)%nat -> nth (S k) l 0 = nth k l 0 + 2).
  { induction l as [|x l IH]; intros k Hs Hk; [cbn in Hk; lia|].
    destruct l as [|y l]; [cbn in Hk; lia|].
    cbn [steps] in Hs. apply andb_prop in Hs. destruct Hs as [Hs1 Hs2].
    destruct k as [|k]; [cbn; lia|].
    change (nth (S (S k)) (x :: y :: l) 0) with (nth (S k) (y :: l) 0).
    change (nth (S k) (x :: y :: l) 0) with (nth k (y :: l) 0).
    apply IH; [exact Hs2|cbn in Hk |- *; lia]. }
  split; [lia|]. split; [intros k Hk; apply G; assumption|]. lia.
Qed.

(* ------------------------------------------------------------------ the table *)

Lemma table_ok_holds : table_ok = true.
Proof. vm_compute. reflexivity. Qed.

Lemma table_parts :
  (1 <? H) = true /\ (1 <? W) = true /\
  forallb tile_shape_ok tiles = true /\
  forallb (fun a => forallb (fun b => tile_eqb a b || disjoint_b a b) tiles) tiles = true /\
  forallb (fun b => existsb (box_in b) tiles) boxes = true /\
  nodup_names tiles = true /\
  forallb (fun t => String.eqb (tname t) (srtm_name (tlon0 t) (tlat1 t))) tiles = true.
Proof. pose proof table_ok_holds as T. unfold table_ok in T. rewrite !andb_true_iff in T. tauto. Qed.

Record tile_facts (t : tile) : Prop := {
  tf_h : (tlat1 t - tlat0 t) * 120 = H;
  tf_w : (tlon1 t - tlon0 t) * 120 = W;
  tf_lat0 : -60 <= tlat0 t; tf_lat1 : tlat1 t <= 90;
  tf_lon0 : -180 <= tlon0 t; tf_lon1 : tlon1 t <= 180 }.

Lemma HW_pos : 1 < H /\ 1 < W.
Proof. destruct table_parts as (A & B & _). lia. Qed.

Lemma tile_facts_of : forall t, In t tiles -> tile_facts t.
Proof.
  intros t Ht. destruct table_parts as (_ & _ & S & _).
  rewrite forallb_forall in S. specialize (S t Ht). unfold tile_shape_ok in S.
  constructor; lia.
Qed.

Lemma tile_eqb_eq : forall a b, tile_eqb a b = true -> a = b.
Proof.
  intros [[[[n1 a1] b1] c1] d1] [[[[n2 a2] b2] c2] d2]. unfold tile_eqb. cbn.
  intros E. rewrite !andb_true_iff in E. destruct E as ((((En & E1) & E2) & E3) & E4).
  apply String.eqb_eq in En. subst n2.
  repeat f_equal; lia.
Qed.

Lemma tiles_disjoint : forall a b, In a tiles -> In b tiles -> a = b \/ disjoint_b a b = true.
Proof.
  intros a b Ha Hb. destruct table_parts as (_ & _ & _ & S & _).
  rewrite forallb_forall in S. specialize (S a Ha). rewrite forallb_forall in S. specialize (S b Hb).
  destruct (tile_eqb a b) eqn:E; [left; now apply tile_eqb_eq|right; exact S].
Qed.

Lemma find_tile_in : forall t, In t tiles -> find_tile (tname t) = Some t.
Proof.
  intros t Ht. destruct table_parts as (_ & _ & _ & _ & _ & S & _).
  unfold find_tile. revert S Ht. generalize tiles as l.
  induction l as [|u l IH]; intros S Ht; [contradiction|].
  cbn [nodup_names] in S. apply andb_prop in S. destruct S as [S1 S2]. cbn [find].
  destruct Ht as [->|Ht].
  - now rewrite String.eqb_refl.
  - destruct (String.eqb (tname u) (tname t)) eqn:E.
    + exfalso. assert (X : existsb (fun v => String.eqb (tname v) (tname u)) l = true).
      { apply existsb_exists. exists t. split; [assumption|]. rewrite String.eqb_sym. exact E. }
      rewrite X in S1. discriminate.
    + apply IH; assumption.
Qed.

(* every cell of the covered area lies in some tile: lifted from the 540 ten-degree boxes *)
Lemma tile_covering : forall la lo, -14400 <= la < 21600 -> -43200 <= lo < 43200 ->
  exists t, In t tiles /\ tlat0 t * 240 <= la < tlat1 t * 240 /\ tlon0 t * 240 <= lo < tlon1 t * 240.
Proof.
  intros la lo Hla Hlo. destruct table_parts as (_ & _ & _ & _ & S & _).
  rewrite forallb_forall in S.
  set (p := (la + 14400) / 2400). set (q := (lo + 43200) / 2400).
  assert (Hp : 0 <= p < 15 /\ 2400 * p <= la + 14400 < 2400 * p + 2400) by (unfold p; lia).
  assert (Hq : 0 <= q < 36 /\ 2400 * q <= lo + 43200 < 2400 * q + 2400) by (unfold q; lia).
  specialize (S (p, q)).
  assert (I : In (p, q) boxes).
  { unfold boxes. apply in_prod; apply in_zrange; lia. }
  specialize (S I). apply existsb_exists in S. destruct S as (t & Ht & B).
  exists t. split; [assumption|]. unfold box_in in B. cbn [fst snd] in B. lia.
Qed.

(* ------------------------------------------------------------------ get_tiles *)

Lemma norm_lo_id : forall D x, 0 < D -> -180 * D <= x < 180 * D -> norm_lo D x = x.
Proof.
  intros D x HD Hx. unfold norm_lo. cbv zeta.
  destruct (Z_lt_le_dec x 0) as [N|P].
  - replace (x mod (360 * D)) with (x + 360 * D).
    + destruct (180 * D <=? x + 360 * D) eqn:E; lia.
    + symmetry. replace x with ((x + 360 * D) + (-1) * (360 * D)) at 1 by lia.
      rewrite Z.mod_add by lia. apply Z.mod_small. lia.
  - rewrite Z.mod_small by lia. destruct (180 * D <=? x) eqn:E; lia.
Qed.

Lemma norm_hi_id : forall D x, 0 < D -> -180 * D < x <= 180 * D -> norm_hi D x = x.
Proof.
  intros D x HD Hx. unfold norm_hi. cbv zeta.
  destruct (Z_lt_le_dec x 0) as [N|P].
  - replace (x mod (360 * D)) with (x + 360 * D).
    + destruct (180 * D <? x + 360 * D) eqn:E; lia.
    + symmetry. replace x with ((x + 360 * D) + (-1) * (360 * D)) at 1 by lia.
      rewrite Z.mod_add by lia. apply Z.mod_small. lia.
  - rewrite Z.mod_small by lia. destruct (180 * D <? x) eqn:E; lia.
Qed.

(* the rectangle and the tile share area: each begins before the other ends, in both directions *)
Definition shares_area (r : rect) (t : tile) : Prop :=
  rlat0 r < tlat1 t * rD r /\ tlat0 t * rD r < rlat1 r /\
  rlon0 r < tlon1 t * rD r /\ tlon0 t * rD r < rlon1 r.

Lemma do_overlap_iff : forall r t, in_coverage r -> In t tiles ->
  (do_overlap (rD r) (rlat0 r) (norm_lo (rD r) (rlon0 r)) (rlat1 r) (norm_hi (rD r) (rlon1 r)) t = true
   <-> shares_area r t).
Proof.
  intros r t Hc Ht. pose proof (tile_facts_of t Ht) as F. destruct F.
  pose proof HW_pos as (HH & HWW).
  destruct Hc as (HD & H1 & H2 & H3 & H4 & H5 & H6).
  rewrite norm_lo_id, norm_hi_id by lia.
  unfold do_overlap, shares_area. cbv zeta.
  assert (tlat0 t * rD r < tlat1 t * rD r) by (apply Z.mul_lt_mono_pos_r; lia).
  assert (tlon0 t * rD r < tlon1 t * rD r) by (apply Z.mul_lt_mono_pos_r; lia).
  rewrite andb_true_iff, !Z.ltb_lt. lia.
Qed.

Lemma get_tiles_exact : forall r, in_coverage r -> forall name,
  In name (get_tiles r) <-> exists t, In t tiles /\ tname t = name /\ shares_area r t.
Proof.
  intros r Hc name. unfold get_tiles, get_tiles_with. cbv zeta. rewrite in_map_iff. split.
  - intros (t & E & I). apply filter_In in I. destruct I as (I & O).
    exists t. split; [assumption|]. split; [assumption|]. apply (do_overlap_iff r t Hc I). exact O.
  - intros (t & I & E & S). exists t. split; [assumption|]. apply filter_In. split; [assumption|].
    apply (do_overlap_iff r t Hc I). exact S.
Qed.

(* each tile is named at most once *)
Lemma nodup_names_spec : forall l, nodup_names l = true -> NoDup (map tname l).
Proof.
  induction l as [|t l IH]; intros S; cbn [map]; [constructor|].
  cbn [nodup_names] in S. apply andb_prop in S. destruct S as [S1 S2].
  constructor; [|now apply IH].
  intros I. apply in_map_iff in I. destruct I as (u & E & I).
  assert (X : existsb (fun v => String.eqb (tname v) (tname t)) l = true).
  { apply existsb_exists. exists u. split; [assumption|]. rewrite E. apply String.eqb_refl. }
  rewrite X in S1. discriminate.
Qed.

Lemma NoDup_map_filter : forall {A B} (f : A -> B) p l, NoDup (map f l) -> NoDup (map f (filter p l)).
Proof.
  intros A B f p; induction l as [|x l IH]; intros N; cbn [filter map]; [constructor|].
  cbn [map] in N. inversion N as [|? ? N1 N2]; subst.
  destruct (p x); [|now apply IH]. cbn [map]. constructor; [|now apply IH].
  intros I. apply N1. apply in_map_iff in I. destruct I as (y & E & I). apply filter_In in I.
  apply in_map_iff. exists y. tauto.
Qed.

Lemma get_tiles_nodup : forall r, NoDup (get_tiles r).
Proof.
  intros r. unfold get_tiles, get_tiles_with. cbv zeta. apply NoDup_map_filter.
  apply nodup_names_spec. destruct table_parts as (_ & _ & _ & _ & _ & S & _). exact S.
Qed.

(* the tree as found: lon_min = -180 is mapped to +180 and no tile is named (defect #19) *)
Lemma get_tiles_asis_wrong :
  let r := mkRect 1 10 (-180) 11 (-179) in
  in_coverage r /\ get_tiles_asis r = [] /\ get_tiles r <> [].
Proof. vm_compute. repeat split; try discriminate; intros; discriminate. Qed.

(* ------------------------------------------------------------------ grids of a tile *)

Fixpoint zlist_eqb (a b : list Z) : bool :=
  match a, b with
  | [], [] => true
  | x :: a', y :: b' => (x =? y) && zlist_eqb a' b'
  | _, _ => false
  end.

Lemma zlist_eqb_eq : forall a b, zlist_eqb a b = true -> a = b.
Proof.
  induction a as [|x a IH]; intros [|y b] E; cbn [zlist_eqb] in E; try discriminate; [reflexivity|].
  apply andb_prop in E. destruct E as [E1 E2]. f_equal; [lia|now apply IH].
Qed.

Lemma tile_grids_check :
  forallb (fun t => zlist_eqb (native_lats (tile_rect t)) (tile_lats t) &&
                    zlist_eqb (native_lons (tile_rect t)) (tile_lons t)) tiles = true.
Proof. vm_compute. reflexivity. Qed.

Lemma native_of_tile : forall t, In t tiles ->
  native_lats (tile_rect t) = tile_lats t /\ native_lons (tile_rect t) = tile_lons t.
Proof.
  intros t Ht. pose proof tile_grids_check as C. rewrite forallb_forall in C. specialize (C t Ht).
  apply andb_prop in C. destruct C as [C1 C2]. split; now apply zlist_eqb_eq.
Qed.

(* the unrepaired latitude arithmetic: an unaligned rectangle is not covered (defect #18) *)
Lemma native_lats_asis_wrong :
  let r := mkRect 1000 10001 10000 10050 10100 in      (* 10.001 .. 10.05 N, 10 .. 10.1 E *)
  in_coverage r /\ lat_ok r (native_lats_asis r) = false /\ lat_ok r (native_lats r) = true.
Proof. vm_compute. repeat split; try reflexivity; intros; discriminate. Qed.

(* ------------------------------------------------------------------ tile cache *)

Fixpoint trace (c : list string) (reqs : list string) : list (string * bool) :=
  match reqs with
  | [] => []
  | n :: rs => if cached c n then (n, false) :: trace c rs else (n, true) :: trace (n :: c) rs
  end.

Lemma run_cache_trace : forall reqs c log, snd (fold_left cache_step reqs (c, log)) = log ++ trace c reqs.
Proof.
  induction reqs as [|n rs IH]; intros c log; cbn [fold_left trace].
  - now rewrite app_nil_r.
  - unfold cache_step at 2. destruct (cached c n); rewrite IH, <- app_assoc; reflexivity.
Qed.

Lemma cached_cons : forall c n x, cached (n :: c) x = String.eqb x n || cached c x.
Proof. reflexivity. Qed.

Lemma cached_true_eq : forall c n x, String.eqb x n = true -> cached c n = true -> cached c x = true.
Proof. intros c n x E. apply String.eqb_eq in E. now subst. Qed.

Lemma trace_spec : forall reqs c k name, nth_error reqs k = Some name ->
  nth_error (trace c reqs) k = Some (name, negb (cached c name || cached (firstn k reqs) name)).
Proof.
  induction reqs as [|n rs IH]; intros c k name Hk; [destruct k; discriminate|].
  destruct k as [|k]; cbn [nth_error firstn trace] in *.
  - inversion Hk; subst. destruct (cached c name) eqn:E; cbn; reflexivity.
  - destruct (cached c n) eqn:E; cbn [nth_error]; rewrite (IH _ _ _ Hk); do 3 f_equal;
      rewrite !cached_cons.
    + destruct (String.eqb name n) eqn:En.
      * rewrite (cached_true_eq c n name En E). reflexivity.
      * reflexivity.
    + destruct (String.eqb name n), (cached c name), (cached (firstn k rs) name); reflexivity.
Qed.

Lemma cache_law : forall init reqs,
  map fst (snd (run_cache init reqs)) = reqs /\
  forall k name, nth_error reqs k = Some name ->
    nth_error (snd (run_cache init reqs)) k =
    Some (name, negb (cached init name || cached (firstn k reqs) name)).
Proof.
  intros init reqs. unfold run_cache. rewrite run_cache_trace. cbn [app]. split.
  - revert init. induction reqs as [|n rs IH]; intros c; cbn [trace map]; [reflexivity|].
    destruct (cached c n); cbn [map fst]; now rewrite IH.
  - intros k name Hk. now apply trace_spec.
Qed.

(* ------------------------------------------------------------------ masks are index intervals *)

Lemma nonzero_interval : forall (f : Z -> Z) lo hi a b n k,
  (forall x, k <= x < k + Z.of_nat n -> ((lo <=? f x) && (f x <? hi)) = ((a <=? x) && (x <? b))) ->
  nonzero_from k (in_mask lo hi (map f (zrange k n))) = arange (Z.max k a) (Z.min (k + Z.of_nat n) b).
Proof.
  intros f lo hi a b. unfold in_mask. induction n as [|n IH]; intros k Hf.
  - cbn. symmetry. apply arange_nil. lia.
  - cbn [zrange map nonzero_from].
    rewrite (Hf k) by lia. rewrite IH by (intros x Hx; apply Hf; lia).
    destruct ((a <=? k) && (k <? b)) eqn:E.
    + rewrite (arange_cons (Z.max k a)) by lia. f_equal; [lia|]. f_equal; lia.
    + destruct (Z_lt_le_dec k a).
      * f_equal; lia.
      * rewrite !arange_nil by lia. reflexivity.
Qed.

Lemma map_zrange_0 : forall {A} (f : Z -> A) n a, map f (zrange a n) = map (fun i => f (i + a)) (zrange 0 n).
Proof. intros A f n a. rewrite <- map_zrange_shift. f_equal. Qed.

Lemma nth_map_zrange : forall (f : Z -> Z) n a k d, (k < n)%nat -> nth k (map f (zrange a n)) d = f (a + Z.of_nat k).
Proof.
  intros f; induction n as [|n IH]; intros a k d Hk; [lia|].
  destruct k as [|k]; cbn [zrange map nth]; [f_equal; lia|]. rewrite IH by lia. f_equal; lia.
Qed.

Definition K0 (t : tile) : Z := 10801 - 120 * tlat1 t.     (* 1-based global row of tile row 0 *)
Definition J0 (t : tile) : Z := 120 * tlon0 t + 21600.     (* global column of tile column 0 *)

Lemma tile_lat_eq : forall t x, In t tiles -> tile_lat t x = lat_hc (K0 t + x).
Proof.
  intros t x Ht. destruct (tile_facts_of t Ht). pose proof HW_pos as (HH & HWW).
  unfold tile_lat, linspace, lat_hc, K0.
  replace (tlat1 t * 240 - 1 - (tlat0 t * 240 + 1)) with (2 * (H - 1)) by lia.
  rewrite Z.div_mul by lia. lia.
Qed.

Lemma tile_lon_eq : forall t x, In t tiles -> tile_lon t x = lon_hc (J0 t + x).
Proof.
  intros t x Ht. destruct (tile_facts_of t Ht). pose proof HW_pos as (HH & HWW).
  unfold tile_lon, linspace, lon_hc, J0.
  replace (tlon1 t * 240 - 1 - (tlon0 t * 240 + 1)) with (2 * (W - 1)) by lia.
  rewrite Z.div_mul by lia. lia.
Qed.

Lemma rows_s_eq : forall t top bot, In t tiles ->
  nonzero (in_mask (lat_hc bot - 1) (lat_hc top + 1) (tile_lats t)) =
  arange (Z.max 0 (top - K0 t)) (Z.min H (bot + 1 - K0 t)).
Proof.
  intros t top bot Ht. pose proof HW_pos as (HH & HWW). unfold nonzero, tile_lats. unfold arange at 1.
  rewrite (nonzero_interval (tile_lat t) _ _ (top - K0 t) (bot + 1 - K0 t)).
  - f_equal; lia.
  - intros x Hx. rewrite tile_lat_eq by assumption. unfold lat_hc. lia.
Qed.

Lemma cols_s_eq : forall t lft rgt, In t tiles ->
  nonzero (in_mask (lon_hc lft - 1) (lon_hc rgt + 1) (tile_lons t)) =
  arange (Z.max 0 (lft - J0 t)) (Z.min W (rgt + 1 - J0 t)).
Proof.
  intros t lft rgt Ht. pose proof HW_pos as (HH & HWW). unfold nonzero, tile_lons. unfold arange at 1.
  rewrite (nonzero_interval (tile_lon t) _ _ (lft - J0 t) (rgt + 1 - J0 t)).
  - f_equal; lia.
  - intros x Hx. rewrite tile_lon_eq by assumption. unfold lon_hc. lia.
Qed.

Lemma rows_d_eq : forall t top n, In t tiles ->
  nonzero (in_mask (tlat0 t * 240) (tlat1 t * 240) (map lat_hc (zrange top n))) =
  arange (Z.max 0 (K0 t - top)) (Z.min (Z.of_nat n) (K0 t + H - top)).
Proof.
  intros t top n Ht. destruct (tile_facts_of t Ht). unfold nonzero. rewrite map_zrange_0.
  rewrite (nonzero_interval (fun i => lat_hc (i + top)) _ _ (K0 t - top) (K0 t + H - top)).
  - f_equal; lia.
  - intros x Hx. unfold lat_hc, K0. lia.
Qed.

Lemma cols_d_eq : forall t lft m, In t tiles ->
  nonzero (in_mask (tlon0 t * 240) (tlon1 t * 240) (map lon_hc (zrange lft m))) =
  arange (Z.max 0 (J0 t - lft)) (Z.min (Z.of_nat m) (J0 t + W - lft)).
Proof.
  intros t lft m Ht. destruct (tile_facts_of t Ht). unfold nonzero. rewrite map_zrange_0.
  rewrite (nonzero_interval (fun i => lon_hc (i + lft)) _ _ (J0 t - lft) (J0 t + W - lft)).
  - f_equal; lia.
  - intros x Hx. unfold lon_hc, J0. lia.
Qed.

(* ------------------------------------------------------------------ the masked assignment *)

Lemma combine_app_eq : forall {A B} (l1 l2 : list A) (m1 m2 : list B), List.length l1 = List.length m1 ->
  combine (l1 ++ l2) (m1 ++ m2) = combine l1 m1 ++ combine l2 m2.
Proof.
  intros A B; induction l1 as [|x l1 IH]; intros l2 [|y m1] m2 E; cbn in *; try discriminate; [reflexivity|].
  f_equal. apply IH. now inversion E.
Qed.

Lemma assign_app : forall e p1 p2 v1 v2, List.length p1 = List.length v1 ->
  assign e (p1 ++ p2) (v1 ++ v2) = assign (assign e p1 v1) p2 v2.
Proof. intros. unfold assign. rewrite combine_app_eq by assumption. apply fold_left_app. Qed.

Lemma assign_row : forall (g : Z -> Z) i0 cnt bd bs e i j,
  assign e (map (pair i0) (zrange bd cnt)) (map g (zrange bs cnt)) i j =
  if (i =? i0) && (bd <=? j) && (j <? bd + Z.of_nat cnt) then g (j - bd + bs) else e i j.
Proof.
  intros g i0. induction cnt as [|cnt IH]; intros bd bs e i j.
  - cbn [zrange map assign combine fold_left].
    destruct ((i =? i0) && (bd <=? j) && (j <? bd + Z.of_nat 0)) eqn:E; [exfalso; lia|reflexivity].
  - cbn [zrange map]. unfold assign in *. cbn [combine fold_left fst snd]. rewrite IH.
    unfold upd. cbn [fst snd].
    destruct ((i =? i0) && (bd + 1 <=? j) && (j <? bd + 1 + Z.of_nat cnt)) eqn:E1;
    destruct ((i =? i0) && (bd <=? j) && (j <? bd + Z.of_nat (S cnt))) eqn:E2;
    destruct ((i =? i0) && (j =? bd)) eqn:E3;
    first [reflexivity | (f_equal; lia) | (exfalso; lia)].
Qed.

Lemma assign_box : forall (f : Z -> Z -> Z) cc bd bs cr ad as_ e i j,
  assign e (flat_map (fun i => map (pair i) (zrange bd cc)) (zrange ad cr))
           (flat_map (fun r => map (f r) (zrange bs cc)) (zrange as_ cr)) i j =
  if (ad <=? i) && (i <? ad + Z.of_nat cr) && (bd <=? j) && (j <? bd + Z.of_nat cc)
  then f (i - ad + as_) (j - bd + bs) else e i j.
Proof.
  intros f cc bd bs. induction cr as [|cr IH]; intros ad as_ e i j.
  - cbn [zrange flat_map assign combine fold_left].
    destruct ((ad <=? i) && (i <? ad + Z.of_nat 0) && (bd <=? j) && (j <? bd + Z.of_nat cc)) eqn:E;
      [exfalso; lia|reflexivity].
  - cbn [zrange flat_map]. rewrite assign_app by (rewrite !map_length, !zrange_length; reflexivity).
    rewrite IH. rewrite assign_row.
    destruct ((ad + 1 <=? i) && (i <? ad + 1 + Z.of_nat cr) && (bd <=? j) && (j <? bd + Z.of_nat cc)) eqn:E1;
    destruct ((i =? ad) && (bd <=? j) && (j <? bd + Z.of_nat cc)) eqn:E2;
    destruct ((ad <=? i) && (i <? ad + Z.of_nat (S cr)) && (bd <=? j) && (j <? bd + Z.of_nat cc)) eqn:E3;
    first [reflexivity | (f_equal; lia) | (exfalso; lia)].
Qed.

Lemma flat_map_const_length : forall {A B} (g : A -> list B) c l,
  (forall x, List.length (g x) = c) -> List.length (flat_map g l) = (List.length l * c)%nat.
Proof.
  intros A B g c; induction l as [|x l IH]; intros Hg; cbn [flat_map List.length]; [reflexivity|].
  rewrite app_length, Hg, IH by assumption. lia.
Qed.

(* ------------------------------------------------------------------ block bounds *)

Lemma fold_min_lat : forall n a, fold_left Z.min (map lat_hc (zrange (a + 1) n)) (lat_hc a) = lat_hc (a + Z.of_nat n).
Proof.
  induction n as [|n IH]; intros a; cbn [zrange map fold_left]; [f_equal; lia|].
  replace (Z.min (lat_hc a) (lat_hc (a + 1))) with (lat_hc (a + 1)) by (unfold lat_hc; lia).
  rewrite IH. f_equal; lia.
Qed.

Lemma fold_max_lat : forall n a acc, lat_hc a <= acc -> fold_left Z.max (map lat_hc (zrange a n)) acc = acc.
Proof.
  induction n as [|n IH]; intros a acc Ha; cbn [zrange map fold_left]; [reflexivity|].
  rewrite Z.max_l by lia. apply IH. unfold lat_hc in *. lia.
Qed.

Lemma fold_max_lon : forall n a, fold_left Z.max (map lon_hc (zrange (a + 1) n)) (lon_hc a) = lon_hc (a + Z.of_nat n).
Proof.
  induction n as [|n IH]; intros a; cbn [zrange map fold_left]; [f_equal; lia|].
  replace (Z.max (lon_hc a) (lon_hc (a + 1))) with (lon_hc (a + 1)) by (unfold lon_hc; lia).
  rewrite IH. f_equal; lia.
Qed.

Lemma fold_min_lon : forall n a acc, acc <= lon_hc a -> fold_left Z.min (map lon_hc (zrange a n)) acc = acc.
Proof.
  induction n as [|n IH]; intros a acc Ha; cbn [zrange map fold_left]; [reflexivity|].
  rewrite Z.min_l by lia. apply IH. unfold lon_hc in *. lia.
Qed.

(* ------------------------------------------------------------------ the mosaic *)

Section Mosaic.
  Variable dem : string -> Z -> Z -> Z.
  Variable r : rect.
  Hypothesis Hc : in_coverage r.

  Local Notation top := (row_top r).
  Local Notation bot := (row_bot r).
  Local Notation lft := (col_left r).
  Local Notation rgt := (col_right r).
  Local Notation lats := (native_lats r).
  Local Notation lons := (native_lons r).
  Local Notation blk := (lat_hc bot - 1, lon_hc lft - 1, lat_hc top + 1, lon_hc rgt + 1).

  Lemma block_of_native : block_of lats lons = Some blk.
  Proof.
    destruct (native_lats_eq r Hc) as (n & E & Hn). destruct (native_lons_eq r Hc) as (m & F & Hm).
    rewrite E, F. unfold block_of, list_min, list_max. cbn [zrange map].
    rewrite fold_min_lat, fold_max_lon.
    rewrite fold_max_lat by (unfold lat_hc; lia). rewrite fold_min_lon by (unfold lon_hc; lia).
    replace (top + Z.of_nat n) with bot by lia. replace (lft + Z.of_nat m) with rgt by lia. reflexivity.
  Qed.

  (* the tile holds the cell [i, j] of the block *)
  Definition covers_b (t : tile) (i j : Z) : bool :=
    (K0 t <=? top + i) && (top + i <? K0 t + H) && (J0 t <=? lft + j) && (lft + j <? J0 t + W).

  Lemma tile_step_eq : forall t e, In t tiles ->
    exists e', tile_step dem blk lats lons (Ok e) (tname t) = Ok e' /\
      forall i j, 0 <= i <= bot - top -> 0 <= j <= rgt - lft ->
        e' i j = if covers_b t i j then dem (tname t) (top + i - K0 t) (lft + j - J0 t) else e i j.
  Proof.
    intros t e Ht.
    destruct (native_lats_eq r Hc) as (n & E & Hn). destruct (native_lons_eq r Hc) as (m & F & Hm).
    pose proof HW_pos as (HH & HWW).
    unfold tile_step. rewrite (find_tile_in t Ht).
    rewrite (rows_s_eq t top bot Ht), (cols_s_eq t lft rgt Ht).
    rewrite E, F, (rows_d_eq t top (S n) Ht), (cols_d_eq t lft (S m) Ht).
    unfold arange.
    replace (Z.to_nat (Z.min (Z.of_nat (S n)) (K0 t + H - top) - Z.max 0 (K0 t - top)))
      with (Z.to_nat (Z.min H (bot + 1 - K0 t) - Z.max 0 (top - K0 t))) by lia.
    replace (Z.to_nat (Z.min (Z.of_nat (S m)) (J0 t + W - lft) - Z.max 0 (J0 t - lft)))
      with (Z.to_nat (Z.min W (rgt + 1 - J0 t) - Z.max 0 (lft - J0 t))) by lia.
    set (cr := Z.to_nat (Z.min H (bot + 1 - K0 t) - Z.max 0 (top - K0 t))).
    set (cc := Z.to_nat (Z.min W (rgt + 1 - J0 t) - Z.max 0 (lft - J0 t))).
    rewrite (flat_map_const_length _ cc) by (intros; now rewrite map_length, zrange_length).
    rewrite (flat_map_const_length _ cc) by (intros; now rewrite map_length, zrange_length).
    rewrite !zrange_length, Nat.eqb_refl.
    eexists. split; [reflexivity|].
    intros i j Hi Hj. rewrite (assign_box (dem (tname t))). unfold covers_b.
    destruct ((Z.max 0 (K0 t - top) <=? i) && (i <? Z.max 0 (K0 t - top) + Z.of_nat cr) &&
              (Z.max 0 (J0 t - lft) <=? j) && (j <? Z.max 0 (J0 t - lft) + Z.of_nat cc)) eqn:E1;
    destruct ((K0 t <=? top + i) && (top + i <? K0 t + H) && (J0 t <=? lft + j) && (lft + j <? J0 t + W)) eqn:E2;
    first [reflexivity | (f_equal; lia) | (exfalso; unfold cr, cc in *; lia)].
  Qed.

  Definition good (e : Z -> Z -> Z) (i j : Z) : Prop :=
    exists t, In t tiles /\ covers_b t i j = true /\ e i j = dem (tname t) (top + i - K0 t) (lft + j - J0 t).

  Lemma fold_tiles : forall l, (forall t, In t l -> In t tiles) -> forall e,
    exists e', fold_left (tile_step dem blk lats lons) (map tname l) (Ok e) = Ok e' /\
      forall i j, 0 <= i <= bot - top -> 0 <= j <= rgt - lft ->
        (good e i j -> good e' i j) /\ ((exists t, In t l /\ covers_b t i j = true) -> good e' i j).
  Proof.
    induction l as [|a l IH]; intros Hl e.
    - exists e. split; [reflexivity|]. intros i j Hi Hj. split; [auto|]. intros (t & [] & _).
    - destruct (tile_step_eq a e (Hl a (or_introl eq_refl))) as (e1 & E1 & F1).
      destruct (IH (fun t Ht => Hl t (or_intror Ht)) e1) as (e2 & E2 & F2).
      exists e2. split. { cbn [map fold_left]. rewrite E1. exact E2. }
      intros i j Hi Hj. destruct (F2 i j Hi Hj) as (G1 & G2).
      assert (Step : good e i j \/ covers_b a i j = true -> good e1 i j).
      { intros G. destruct (covers_b a i j) eqn:Cv.
        - exists a. split; [apply Hl; now left|]. split; [assumption|].
          rewrite F1 by assumption. now rewrite Cv.
        - destruct G as [(t & It & Ct & Et)|G]; [|discriminate].
          exists t. split; [assumption|]. split; [assumption|].
          rewrite F1 by assumption. rewrite Cv. exact Et. }
      split.
      + intros G. apply G1, Step. now left.
      + intros (t & [->|It] & Ct).
        * apply G1, Step. now right.
        * apply G2. exists t. tauto.
  Qed.

  Lemma mosaic_cells : exists e, elevation dem r = Ok e /\
    forall i j, (i < List.length lats)%nat -> (j < List.length lons)%nat ->
      pixel_at dem (nth i lats 0) (nth j lons 0) (e (Z.of_nat i) (Z.of_nat j)).
  Proof.
    destruct (native_lats_eq r Hc) as (n & E & Hn). destruct (native_lons_eq r Hc) as (m & F & Hm).
    pose proof (rows_cols_range r Hc) as R. pose proof HW_pos as (HH & HWW).
    unfold elevation. rewrite block_of_native. unfold block_tiles, get_tiles, get_tiles_with.
    cbn [rD rlat0 rlon0 rlat1 rlon1].
    rewrite norm_lo_id, norm_hi_id by (unfold lon_hc; lia).
    set (l := filter (do_overlap 240 (lat_hc bot - 1) (lon_hc lft - 1) (lat_hc top + 1) (lon_hc rgt + 1)) tiles).
    assert (Hl : forall t, In t l -> In t tiles) by (intros t Ht; apply filter_In in Ht; tauto).
    destruct (fold_tiles l Hl (fun _ _ => 0)) as (e' & Ee & Fe).
    exists e'. split; [exact Ee|].
    intros i j Hi Hj. rewrite E in Hi. rewrite F in Hj. rewrite map_length, zrange_length in Hi, Hj.
    assert (Ri : 0 <= Z.of_nat i <= bot - top) by lia. assert (Rj : 0 <= Z.of_nat j <= rgt - lft) by lia.
    destruct (Fe _ _ Ri Rj) as (_ & G2).
    destruct (tile_covering (lat_hc (top + Z.of_nat i)) (lon_hc (lft + Z.of_nat j))) as (t & It & Tla & Tlo);
      [unfold lat_hc; lia|unfold lon_hc; lia|].
    destruct (tile_facts_of t It).
    assert (Cv : covers_b t (Z.of_nat i) (Z.of_nat j) = true).
    { unfold covers_b, K0, J0. unfold lat_hc, lon_hc in Tla, Tlo. lia. }
    assert (Il : In t l).
    { apply filter_In. split; [assumption|]. unfold do_overlap.
      unfold covers_b, K0, J0 in Cv. unfold lat_hc, lon_hc.
      rewrite andb_true_iff, !Z.ltb_lt. lia. }
    destruct (G2 (ex_intro _ t (conj Il Cv))) as (t' & It' & Ct' & Et').
    exists t', (top + Z.of_nat i - K0 t'), (lft + Z.of_nat j - J0 t').
    unfold covers_b in Ct'.
    split; [assumption|]. split; [lia|]. split; [lia|].
    rewrite tile_lat_eq, tile_lon_eq by assumption.
    rewrite E, F, !nth_map_zrange by lia.
    split; [f_equal; lia|]. split; [f_equal; lia|]. exact Et'.
  Qed.
End Mosaic.

(* "the one tile pixel": a cell centre belongs to exactly one pixel of exactly one tile *)
Lemma pixel_unique : forall t1 r1 c1 t2 r2 c2,
  In t1 tiles -> In t2 tiles -> 0 <= r1 < H -> 0 <= c1 < W -> 0 <= r2 < H -> 0 <= c2 < W ->
  tile_lat t1 r1 = tile_lat t2 r2 -> tile_lon t1 c1 = tile_lon t2 c2 ->
  t1 = t2 /\ r1 = r2 /\ c1 = c2.
Proof.
  intros t1 r1 c1 t2 r2 c2 I1 I2 R1 C1 R2 C2 Ela Elo.
  rewrite !tile_lat_eq in Ela by assumption. rewrite !tile_lon_eq in Elo by assumption.
  unfold lat_hc, K0 in Ela. unfold lon_hc, J0 in Elo.
  destruct (tile_facts_of t1 I1). destruct (tile_facts_of t2 I2).
  destruct (tiles_disjoint t1 t2 I1 I2) as [->|Dj].
  - split; [reflexivity|]. lia.
  - exfalso. unfold disjoint_b in Dj. lia.
Qed.
