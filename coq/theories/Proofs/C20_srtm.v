From Coq Require Import ZArith List Bool String Lia.
From TyphonGen Require Import C20_tiles.
From Typhon Require Import Model.C20_srtm.
Import ListNotations.
Open Scope Z_scope.

Lemma table_ok_holds : table_ok = true.
Proof. vm_compute. reflexivity. Qed.
