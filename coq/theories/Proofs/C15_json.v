(* C15 -- lemmas about the model of json.dump / json.load (Model/C15_json.v):
   load (dump v) = v on the subset, no proper prefix of a dumped list is accepted, and the theorems
   about restarts and truncation with this codec in place of a hypothesis. *)
From Coq Require Import ZArith List Bool Lia ZifyBool.
From Typhon Require Import Model.C15_cache Proofs.C15_cache Model.C15_json.
Import ListNotations.
Open Scope Z_scope.
Ltac Zify.zify_post_hook ::= Z.to_euclidean_division_equations.

(* ====================================================================================== *)
(* 1. integers                                                                             *)
(* ====================================================================================== *)
Definition numf (z : Z) (ds : str) : Z := fold_left (fun acc c => acc * 10 + (c - 48)) ds z.

Lemma dec_aux_num : forall f n acc, 0 <= n < 2 ^ Z.of_nat (S f) ->
  numf 0 (dec_aux (S f) n acc) = numf n acc.
Proof.
  induction f as [|f IH]; intros n acc Hn.
  - cbn [dec_aux]. change (2 ^ Z.of_nat 1) with 2 in Hn.
    destruct (n <? 10) eqn:E; [|lia]. unfold numf, digit. cbn [fold_left]. f_equal. lia.
  - cbn [dec_aux]. destruct (n <? 10) eqn:E.
    + unfold numf, digit. cbn [fold_left]. f_equal. lia.
    + change (dec_aux f (n / 10 / 10) ?a) with (dec_aux f (n / 10 / 10) a).
      assert (Hp : 2 ^ Z.of_nat (S (S f)) = 2 * 2 ^ Z.of_nat (S f)).
      { rewrite (Nat2Z.inj_succ (S f)). rewrite Z.pow_succ_r by lia. reflexivity. }
      assert (Hpos : 0 < 2 ^ Z.of_nat (S f)) by (apply Z.pow_pos_nonneg; lia).
      specialize (IH (n / 10) (digit (n mod 10) :: acc)).
      cbn [dec_aux] in IH. rewrite IH by lia.
      unfold numf, digit. cbn [fold_left]. f_equal. lia.
Qed.

Lemma log2_fuel : forall n, 0 <= n -> n < 2 ^ Z.of_nat (S (Z.to_nat (Z.log2 n))).
Proof.
  intros n Hn. rewrite Nat2Z.inj_succ. rewrite Z2Nat.id by apply Z.log2_nonneg.
  destruct (Z.eq_dec n 0) as [->|Hz]; [reflexivity|].
  apply Z.log2_spec. lia.
Qed.

Lemma num_dec : forall n, 0 <= n -> num_of (dec n) = n.
Proof.
  intros n Hn. unfold dec. change (num_of ?x) with (numf 0 x).
  rewrite dec_aux_num by (split; [exact Hn|apply log2_fuel; exact Hn]). reflexivity.
Qed.

Lemma dec_aux_digits : forall f n acc, 0 <= n -> Forall (fun c => is_digit c = true) acc ->
  Forall (fun c => is_digit c = true) (dec_aux f n acc).
Proof.
  induction f as [|f IH]; intros n acc Hn Ha; cbn [dec_aux]; [exact Ha|].
  destruct (n <? 10) eqn:E.
  - constructor; [apply is_digit_digit; lia|exact Ha].
  - apply IH; [lia|]. constructor; [apply is_digit_digit; lia|exact Ha].
Qed.

Lemma dec_digits : forall n, 0 <= n -> Forall (fun c => is_digit c = true) (dec n).
Proof. intros n Hn. apply dec_aux_digits; [exact Hn|constructor]. Qed.

(* the first digit: 0 only for zero *)
Lemma dec_aux_head : forall f n acc, 0 <= n < 2 ^ Z.of_nat (S f) ->
  exists d t, dec_aux (S f) n acc = d :: t /\ (n = 0 -> d = 48) /\ (0 < n -> 49 <= d <= 57).
Proof.
  induction f as [|f IH]; intros n acc Hn.
  - cbn [dec_aux]. change (2 ^ Z.of_nat 1) with 2 in Hn.
    destruct (n <? 10) eqn:E; [|lia].
    exists (digit n), acc. unfold digit. repeat split; lia.
  - assert (Hp : 2 ^ Z.of_nat (S (S f)) = 2 * 2 ^ Z.of_nat (S f)).
    { rewrite (Nat2Z.inj_succ (S f)). rewrite Z.pow_succ_r by lia. reflexivity. }
    assert (Hpos : 0 < 2 ^ Z.of_nat (S f)) by (apply Z.pow_pos_nonneg; lia).
    change (dec_aux (S (S f)) n acc) with
      (if n <? 10 then digit n :: acc else dec_aux (S f) (n / 10) (digit (n mod 10) :: acc)).
    destruct (n <? 10) eqn:E.
    + exists (digit n), acc. unfold digit. repeat split; lia.
    + destruct (IH (n / 10) (digit (n mod 10) :: acc)) as (d & t & Hd & _ & H1); [lia|].
      exists d, t. split; [exact Hd|]. split; [lia|]. intros _. apply H1. lia.
Qed.

Lemma dec_head : forall n, 0 <= n ->
  exists d t, dec n = d :: t /\ (n = 0 -> d = 48) /\ (0 < n -> 49 <= d <= 57).
Proof. intros n Hn. apply dec_aux_head. split; [exact Hn|apply log2_fuel; exact Hn]. Qed.

Lemma dec_zero : dec 0 = [48].
Proof. reflexivity. Qed.

(* what may follow a value in a dumped text: nothing that continues a number *)
Definition follow_ok (r : str) : Prop :=
  match r with [] => True | c :: _ => is_digit c = false /\ c <> 46 /\ c <> 101 /\ c <> 69 end.

Lemma follow_ok_no_float : forall r, follow_ok r -> no_float_next r = true.
Proof. intros [|c r] H; [reflexivity|]. cbn [follow_ok no_float_next] in *. lia. Qed.

Lemma follow_ok_span : forall r, follow_ok r -> match r with [] => True | c :: _ => is_digit c = false end.
Proof. intros [|c r] H; [exact I|]. exact (proj1 H). Qed.

Lemma parse_nat_dec : forall n rest, 0 <= n -> follow_ok rest -> parse_nat (dec n ++ rest) = Some (n, rest).
Proof.
  intros n rest Hn Hf. destruct (Z.eq_dec n 0) as [->|Hz]; [reflexivity|].
  destruct (dec_head n Hn) as (d & t & Hd & _ & H1). specialize (H1 ltac:(lia)).
  pose proof (span_digits_app (dec n) rest (dec_digits n Hn) (follow_ok_span rest Hf)) as Hs.
  rewrite Hd in *. cbn [app parse_nat] in *.
  replace (d =? 48) with false by lia. replace ((49 <=? d) && (d <=? 57)) with true by lia.
  rewrite Hs. rewrite <- Hd. rewrite (num_dec n Hn). reflexivity.
Qed.

Lemma parse_number_dump : forall n rest, follow_ok rest ->
  parse_number (dump_int n ++ rest) = Some (JNum n, rest).
Proof.
  intros n rest Hf. unfold dump_int. destruct (n <? 0) eqn:E.
  - cbn [app parse_number]. rewrite Z.eqb_refl.
    rewrite parse_nat_dec by (try lia; exact Hf). rewrite (follow_ok_no_float rest Hf).
    rewrite Z.opp_involutive. reflexivity.
  - assert (Hn : 0 <= n) by lia. destruct (dec_head n Hn) as (d & t & Hd & H0 & H1).
    pose proof (parse_nat_dec n rest Hn Hf) as Hp. rewrite Hd in *. cbn [app] in *.
    cbn [parse_number]. replace (d =? 45) with false by lia. rewrite Hp.
    rewrite (follow_ok_no_float rest Hf). reflexivity.
Qed.

(* ====================================================================================== *)
(* 2. strings                                                                              *)
(* ====================================================================================== *)
Lemma hexval_hexdig : forall d, 0 <= d < 16 -> hexval (hexdig d) = Some (d).
Proof.
  intros d H. unfold hexval, hexdig. destruct (d <? 10) eqn:E.
  - replace ((48 <=? 48 + d) && (48 + d <=? 57)) with true by lia. f_equal. lia.
  - replace ((48 <=? 87 + d) && (87 + d <=? 57)) with false by lia.
    replace ((97 <=? 87 + d) && (87 + d <=? 102)) with true by lia. f_equal. lia.
Qed.

Lemma hex4val_hex4 : forall x r, 0 <= x < 65536 -> hex4val (hex4 x ++ r) = Some (x, r).
Proof.
  intros x r H. unfold hex4. cbn [app hex4val].
  rewrite !hexval_hexdig by lia. f_equal. f_equal. lia.
Qed.

Lemma scan_step_quote : forall f r, scan_string (S f) (34 :: r) = Some ([], r).
Proof. reflexivity. Qed.

Lemma scan_step_u : forall f r1,
  scan_string (S f) (92 :: 117 :: r1) =
  match hex4val r1 with
  | None => None
  | Some (x, r2) =>
      match (if is_high x then pair_low r2 else None) with
      | Some (y, r3) => match scan_string f r3 with
                        | Some (t, r') => Some (65536 + (x - 55296) * 1024 + (y - 56320) :: t, r')
                        | None => None
                        end
      | None => match scan_string f r2 with
                | Some (t, r') => Some (x :: t, r')
                | None => None
                end
      end
  end.
Proof. reflexivity. Qed.

Lemma pair_low_u : forall r, pair_low (92 :: 117 :: r) =
  match hex4val r with
  | Some (y, r') => if is_low y then Some (y, r') else None
  | None => None
  end.
Proof. reflexivity. Qed.

Lemma uesc_app : forall x r, uesc x ++ r = 92 :: 117 :: hex4 x ++ r.
Proof. reflexivity. Qed.

Definition cp_ok (c : Z) : Prop := 0 <= c <= 1114111.

Lemma scan_esc : forall c f tail, cp_ok c ->
  (is_high c = true -> pair_low tail = None) ->
  scan_string (S f) (esc_char c ++ tail) =
  match scan_string f tail with Some (t, r') => Some (c :: t, r') | None => None end.
Proof.
  intros c f tail Hc Hp. unfold cp_ok in Hc. unfold esc_char.
  destruct (c =? 34) eqn:E1; [apply Z.eqb_eq in E1; subst c; reflexivity|].
  destruct (c =? 92) eqn:E2; [apply Z.eqb_eq in E2; subst c; reflexivity|].
  destruct (c =? 10) eqn:E3; [apply Z.eqb_eq in E3; subst c; reflexivity|].
  destruct (c =? 13) eqn:E4; [apply Z.eqb_eq in E4; subst c; reflexivity|].
  destruct (c =? 9) eqn:E5; [apply Z.eqb_eq in E5; subst c; reflexivity|].
  destruct (c =? 8) eqn:E6; [apply Z.eqb_eq in E6; subst c; reflexivity|].
  destruct (c =? 12) eqn:E7; [apply Z.eqb_eq in E7; subst c; reflexivity|].
  destruct ((32 <=? c) && (c <=? 126)) eqn:E8.
  - cbn [app scan_string]. rewrite E1, E2. replace (c <=? 31) with false by lia. reflexivity.
  - destruct (c <? 65536) eqn:E9.
    + rewrite uesc_app, scan_step_u. rewrite hex4val_hex4 by lia.
      destruct (is_high c) eqn:Eh; [rewrite (Hp eq_refl)|]; reflexivity.
    + rewrite <- app_assoc. rewrite uesc_app, scan_step_u. rewrite hex4val_hex4 by lia.
      replace (is_high (55296 + (c - 65536) / 1024)) with true by (unfold is_high; lia).
      rewrite uesc_app, pair_low_u. rewrite hex4val_hex4 by lia.
      replace (is_low (56320 + (c - 65536) mod 1024)) with true by (unfold is_low; lia).
      replace (65536 + (55296 + (c - 65536) / 1024 - 55296) * 1024 + (56320 + (c - 65536) mod 1024 - 56320))
        with c by lia.
      reflexivity.
Qed.

Lemma pair_low_esc : forall d tail, cp_ok d -> is_low d = false -> pair_low (esc_char d ++ tail) = None.
Proof.
  intros d tail Hd Hl. unfold cp_ok in Hd. unfold esc_char.
  destruct (d =? 34) eqn:E1; [reflexivity|].
  destruct (d =? 92) eqn:E2; [reflexivity|].
  destruct (d =? 10) eqn:E3; [reflexivity|].
  destruct (d =? 13) eqn:E4; [reflexivity|].
  destruct (d =? 9) eqn:E5; [reflexivity|].
  destruct (d =? 8) eqn:E6; [reflexivity|].
  destruct (d =? 12) eqn:E7; [reflexivity|].
  destruct ((32 <=? d) && (d <=? 126)) eqn:E8.
  - cbn [app pair_low]. destruct tail as [|u r]; [reflexivity|]. rewrite E2. reflexivity.
  - destruct (d <? 65536) eqn:E9.
    + rewrite uesc_app, pair_low_u. rewrite hex4val_hex4 by lia. rewrite Hl. reflexivity.
    + rewrite <- app_assoc. rewrite uesc_app, pair_low_u. rewrite hex4val_hex4 by lia.
      replace (is_low (55296 + (d - 65536) / 1024)) with false by (unfold is_low; lia). reflexivity.
Qed.

Lemma str_ok_cons : forall c x, str_ok (c :: x) = true ->
  cp_ok c /\ str_ok x = true /\
  (is_high c = true -> match x with d :: _ => is_low d = false | [] => True end).
Proof.
  intros c x H. cbn [str_ok] in H. apply andb_prop in H. destruct H as [H Hx].
  apply andb_prop in H. destruct H as [H Hp]. unfold cp_ok. split; [lia|]. split; [exact Hx|].
  intros Hh. rewrite Hh in Hp. destruct x as [|d x']; [exact I|].
  destruct (is_low d); [discriminate Hp|reflexivity].
Qed.

Lemma scan_dump : forall x f rest, str_ok x = true -> (length x < f)%nat ->
  scan_string f (flat_map esc_char x ++ 34 :: rest) = Some (x, rest).
Proof.
  induction x as [|c x IH]; intros f rest Hok Hf.
  - destruct f as [|f]; [inversion Hf|]. reflexivity.
  - destruct f as [|f]; [inversion Hf|]. cbn [length] in Hf.
    destruct (str_ok_cons c x Hok) as (Hc & Hx & Hp).
    cbn [flat_map]. rewrite <- app_assoc. rewrite scan_esc.
    + rewrite IH by (try exact Hx; lia). reflexivity.
    + exact Hc.
    + intros Hh. specialize (Hp Hh). destruct x as [|d x'].
      * cbn [flat_map app]. destruct rest as [|u r]; reflexivity.
      * cbn [flat_map]. rewrite <- app_assoc.
        destruct (str_ok_cons d x' Hx) as (Hd & _). apply pair_low_esc; assumption.
Qed.

(* ====================================================================================== *)
(* 3. values: load (dump v) = v                                                            *)
(* ====================================================================================== *)
Section JsonInd.
  Variable P : json -> Prop.
  Hypothesis Hnull : P JNull.
  Hypothesis Hbool : forall b, P (JBool b).
  Hypothesis Hnum : forall n, P (JNum n).
  Hypothesis Hstr : forall s, P (JStr s).
  Hypothesis Harr : forall l, Forall P l -> P (JArr l).
  Hypothesis Hobj : forall kv, Forall (fun p => P (snd p)) kv -> P (JObj kv).

  Fixpoint json_ind' (v : json) : P v :=
    match v with
    | JNull => Hnull
    | JBool b => Hbool b
    | JNum n => Hnum n
    | JStr s => Hstr s
    | JArr l => Harr l ((fix go (l : list json) : Forall P l :=
                           match l with
                           | [] => Forall_nil P
                           | x :: t => Forall_cons x (json_ind' x) (go t)
                           end) l)
    | JObj kv => Hobj kv ((fix go (kv : list (str * json)) : Forall (fun p => P (snd p)) kv :=
                             match kv with
                             | [] => Forall_nil _
                             | p :: t => Forall_cons p (json_ind' (snd p)) (go t)
                             end) kv)
    end.
End JsonInd.

Definition member (p : str * json) : str := dump_string (fst p) ++ 58 :: 32 :: json_dump (snd p).

Lemma dump_obj : forall kv, json_dump (JObj kv) = 123 :: join (map member kv) ++ [125].
Proof.
  intros kv. cbn [json_dump]. f_equal. f_equal. f_equal.
  apply map_ext. intros [k x]. reflexivity.
Qed.

Lemma dump_arr : forall l, json_dump (JArr l) = 91 :: join (map json_dump l) ++ [93].
Proof. reflexivity. Qed.

(* a text that starts a value: no whitespace, no closing bracket *)
Definition starts_value (s : str) : Prop :=
  match s with c :: _ => is_ws c = false /\ c <> 93 /\ c <> 125 | [] => False end.

Lemma dump_int_head : forall n, exists d t, dump_int n = d :: t /\ (d = 45 \/ 48 <= d <= 57).
Proof.
  intros n. unfold dump_int. destruct (n <? 0) eqn:E.
  - eexists _, _. split; [reflexivity|left; reflexivity].
  - destruct (dec_head n ltac:(lia)) as (d & t & Hd & H0 & H1). exists d, t. split; [exact Hd|]. right. lia.
Qed.

Lemma dump_starts : forall v tail, starts_value (json_dump v ++ tail).
Proof.
  intros v tail. destruct v as [|b|n|s|l|kv].
  - cbn. repeat split; discriminate.
  - destruct b; cbn; repeat split; discriminate.
  - destruct (dump_int_head n) as (d & t & Hd & H). cbn [json_dump]. rewrite Hd. cbn [app starts_value].
    unfold is_ws. repeat split; lia.
  - cbn. repeat split; discriminate.
  - cbn. repeat split; discriminate.
  - rewrite dump_obj. cbn. repeat split; discriminate.
Qed.

Lemma skip_ws_starts : forall s, starts_value s -> skip_ws s = s.
Proof. intros [|c r] H; [reflexivity|]. destruct H as (Hw & _). cbn [skip_ws]. rewrite Hw. reflexivity. Qed.

Lemma esc_len : forall c, (1 <= length (esc_char c))%nat.
Proof.
  intros c. unfold esc_char.
  repeat match goal with |- context [if ?b then _ else _] => destruct b end; cbn; try lia.
Qed.

Lemma flat_esc_len : forall x, (length x <= length (flat_map esc_char x))%nat.
Proof.
  induction x as [|c x IH]; [apply Nat.le_refl|]. cbn [flat_map length]. rewrite app_length.
  pose proof (esc_len c). lia.
Qed.

Lemma parse_value_number : forall f s,
  match s with c :: _ => c = 45 \/ 48 <= c <= 57 | [] => False end ->
  parse_value (S f) s = parse_number s.
Proof.
  intros f [|c r] H; [contradiction|]. cbn [parse_value].
  replace (c =? 34) with false by lia. replace (c =? 91) with false by lia.
  replace (c =? 123) with false by lia.
  cbn [strip_prefix c_null c_true c_false].
  replace (c =? 110) with false by lia. replace (c =? 116) with false by lia.
  replace (c =? 102) with false by lia. reflexivity.
Qed.

Lemma parse_value_str : forall f r,
  parse_value (S f) (34 :: r) = match scan_string f r with Some (x, r') => Some (JStr x, r') | None => None end.
Proof. reflexivity. Qed.

Lemma parse_value_arr : forall f s, starts_value s ->
  parse_value (S f) (91 :: s) =
  match parse_elems (parse_value f) f s with Some (l, r'') => Some (JArr l, r'') | None => None end.
Proof.
  intros f [|d r'] H; [contradiction|]. destruct H as (Hw & H93 & _).
  change (parse_value (S f) (91 :: d :: r')) with
    (match skip_ws (d :: r') with
     | d0 :: r0 => if d0 =? 93 then Some (JArr [], r0)
                   else match parse_elems (parse_value f) f (d0 :: r0) with
                        | Some (l, r'') => Some (JArr l, r'') | None => None end
     | [] => None end).
  cbn [skip_ws]. rewrite Hw. replace (d =? 93) with false by lia. reflexivity.
Qed.

Lemma parse_value_obj : forall f s, starts_value s ->
  parse_value (S f) (123 :: s) =
  match parse_members (parse_value f) f s with
  | Some (l, r'') => Some (JObj (dict_of_pairs l), r'') | None => None end.
Proof.
  intros f [|d r'] H; [contradiction|]. destruct H as (Hw & _ & H125).
  change (parse_value (S f) (123 :: d :: r')) with
    (match skip_ws (d :: r') with
     | d0 :: r0 => if d0 =? 125 then Some (JObj [], r0)
                   else match parse_members (parse_value f) f (d0 :: r0) with
                        | Some (l, r'') => Some (JObj (dict_of_pairs l), r'') | None => None end
     | [] => None end).
  cbn [skip_ws]. rewrite Hw. replace (d =? 125) with false by lia. reflexivity.
Qed.

(* what the induction hypothesis says about one value *)
Definition reads_back (v : json) : Prop :=
  json_ok v = true -> forall fuel rest, (length (json_dump v ++ rest) < fuel)%nat -> follow_ok rest ->
  parse_value fuel (json_dump v ++ rest) = Some (v, rest).

Lemma follow_93 : forall r, follow_ok (93 :: r). Proof. intros r. cbn. repeat split; discriminate. Qed.
Lemma follow_125 : forall r, follow_ok (125 :: r). Proof. intros r. cbn. repeat split; discriminate. Qed.
Lemma follow_44 : forall r, follow_ok (44 :: r). Proof. intros r. cbn. repeat split; discriminate. Qed.

Lemma join_cons2 : forall (a b : str) l, join (a :: b :: l) = a ++ 44 :: 32 :: join (b :: l).
Proof. reflexivity. Qed.

Lemma parse_elems_dump : forall f t x n rest,
  Forall reads_back (x :: t) -> forallb json_ok (x :: t) = true ->
  (length (join (map json_dump (x :: t)) ++ 93%Z :: rest) < f)%nat ->
  (length (join (map json_dump (x :: t)) ++ 93%Z :: rest) <= n)%nat ->
  parse_elems (parse_value f) n (join (map json_dump (x :: t)) ++ 93 :: rest) = Some (x :: t, rest).
Proof.
  intros f. induction t as [|y t IH]; intros x n rest HP Hok Hf Hn.
  - inversion HP as [|? ? Hx _]; subst. cbn [forallb] in Hok. apply andb_prop in Hok. destruct Hok as [Hokx _].
    cbn [map join] in *. destruct n as [|n]; [rewrite app_length in Hn; cbn in Hn; lia|].
    cbn [parse_elems]. rewrite (Hx Hokx f (93 :: rest) Hf (follow_93 rest)). reflexivity.
  - inversion HP as [|? ? Hx HP']; subst. cbn [forallb] in Hok. apply andb_prop in Hok. destruct Hok as [Hokx Hok'].
    cbn [map] in *. rewrite join_cons2 in *. rewrite <- app_assoc in *. cbn [app] in *.
    destruct n as [|n]; [rewrite app_length in Hn; cbn in Hn; lia|].
    cbn [parse_elems]. rewrite (Hx Hokx f _ Hf (follow_44 _)).
    change (skip_ws (44 :: ?r)) with (44 :: r). cbn iota. change (44 =? 93) with false. change (44 =? 44) with true.
    cbn iota.
    change (skip_ws (32 :: ?r)) with (skip_ws r).
    rewrite skip_ws_starts.
    2:{ change (json_dump y :: map json_dump t) with (map json_dump (y :: t)).
        destruct t; cbn [map join]; [|rewrite <- app_assoc]; apply dump_starts. }
    rewrite app_length in Hf, Hn. cbn [length] in Hf, Hn.
    cbn [map] in *.
    rewrite (IH y n rest HP' Hok'); [reflexivity|lia|lia].
Qed.

Lemma member_app : forall k x T,
  member (k, x) ++ T = 34 :: flat_map esc_char k ++ 34 :: 58 :: 32 :: json_dump x ++ T.
Proof.
  intros k x T. unfold member, dump_string. cbn [fst snd]. rewrite <- !app_assoc. cbn [app].
  rewrite <- !app_assoc. reflexivity.
Qed.

Lemma parse_member_step : forall f n k x T,
  str_ok k = true -> json_ok x = true -> reads_back x ->
  (length k < n)%nat -> (length (json_dump x ++ T) < f)%nat -> follow_ok T ->
  match T with c :: _ => is_ws c = false | [] => True end ->
  parse_members (parse_value f) (S n) (member (k, x) ++ T) =
  match T with
  | d :: r3 =>
      if d =? 125 then Some ([(k, x)], r3)
      else if d =? 44 then
        match parse_members (parse_value f) n (skip_ws r3) with
        | Some (l, r4) => Some ((k, x) :: l, r4)
        | None => None
        end
      else None
  | [] => None
  end.
Proof.
  intros f n k x T Hk Hx HP Hn Hf Hfo Hws. rewrite member_app.
  cbn [parse_members]. change (34 =? 34) with true. cbn iota.
  rewrite (scan_dump k n _ Hk Hn).
  change (skip_ws (58 :: ?r)) with (58 :: r). cbn iota. change (58 =? 58) with true. cbn iota.
  change (skip_ws (32 :: ?r)) with (skip_ws r).
  rewrite (skip_ws_starts _ (dump_starts x T)).
  rewrite (HP Hx f T Hf Hfo).
  destruct T as [|d r3]; [reflexivity|]. cbn [skip_ws]. rewrite Hws. reflexivity.
Qed.

Definition member_ok (p : str * json) : bool := match p with (k, x) => str_ok k && json_ok x end.

Lemma member_len : forall k x T, (length k + 4 + length (json_dump x ++ T) <= length (member (k, x) ++ T))%nat.
Proof.
  intros k x T. rewrite member_app. cbn [length]. rewrite !app_length. cbn [length]. rewrite !app_length.
  pose proof (flat_esc_len k). lia.
Qed.

Lemma member_starts : forall p T, starts_value (member p ++ T).
Proof. intros [k x] T. rewrite member_app. cbn. repeat split; discriminate. Qed.

Lemma parse_members_dump : forall f t p n rest,
  Forall (fun p => reads_back (snd p)) (p :: t) -> forallb member_ok (p :: t) = true ->
  (length (join (map member (p :: t)) ++ 125%Z :: rest) < f)%nat ->
  (length (join (map member (p :: t)) ++ 125%Z :: rest) <= n)%nat ->
  parse_members (parse_value f) n (join (map member (p :: t)) ++ 125 :: rest) = Some (p :: t, rest).
Proof.
  intros f. induction t as [|q t IH]; intros [k x] n rest HP Hok Hf Hn.
  - inversion HP as [|? ? Hx _]; subst. cbn [forallb member_ok] in Hok.
    rewrite andb_true_r in Hok. apply andb_prop in Hok. destruct Hok as [Hk Hokx].
    cbn [map join] in *. pose proof (member_len k x (125 :: rest)) as Hl.
    pose proof (Nat.le_trans _ _ _ Hl Hn) as Hn'. pose proof (Nat.le_lt_trans _ _ _ Hl Hf) as Hf'. cbn [snd] in Hx.
    destruct n as [|n]; [lia|].
    rewrite parse_member_step; try assumption; try lia; [reflexivity|apply follow_125|reflexivity].
  - inversion HP as [|? ? Hx HP']; subst. cbn [forallb] in Hok. apply andb_prop in Hok. destruct Hok as [Hok1 Hok'].
    cbn [member_ok] in Hok1. apply andb_prop in Hok1. destruct Hok1 as [Hk Hokx].
    cbn [map] in *. rewrite join_cons2 in *. rewrite <- app_assoc in *. cbn [app] in *.
    pose proof (member_len k x (44 :: 32 :: join (member q :: map member t) ++ 125 :: rest)) as Hl.
    pose proof (Nat.le_trans _ _ _ Hl Hn) as Hn'. pose proof (Nat.le_lt_trans _ _ _ Hl Hf) as Hf'. cbn [snd] in Hx.
    cbn [length] in Hn', Hf'.
    destruct n as [|n]; [lia|].
    rewrite parse_member_step; try assumption; try lia; [|apply follow_44|reflexivity].
    change (44 =? 125) with false. change (44 =? 44) with true. cbn iota.
    change (skip_ws (32 :: ?r)) with (skip_ws r).
    rewrite skip_ws_starts.
    2:{ destruct t; cbn [map join]; [|rewrite <- app_assoc]; apply member_starts. }
    rewrite app_length in Hn', Hf'. cbn [length] in Hn', Hf'.
    rewrite (IH q n rest HP' Hok'); [reflexivity|lia|lia].
Qed.

(* a dictionary built from pairs with distinct keys is the list of pairs *)
Lemma existsb_str_false : forall k t, existsb (str_eqb k) t = false -> ~ In k t.
Proof.
  intros k t H Hin. assert (existsb (str_eqb k) t = true).
  { apply existsb_exists. exists k. split; [exact Hin|apply str_eqb_refl]. }
  congruence.
Qed.

Lemma keys_unique_NoDup : forall ks, keys_unique ks = true -> NoDup ks.
Proof.
  induction ks as [|k t IH]; intros H; [constructor|].
  cbn [keys_unique] in H. apply andb_prop in H. destruct H as [H1 H2].
  constructor; [apply existsb_str_false; destruct (existsb (str_eqb k) t); [discriminate|reflexivity]|apply IH; exact H2].
Qed.

Lemma dict_set_fresh : forall k v d, ~ In k (map fst d) -> dict_set k v d = d ++ [(k, v)].
Proof.
  intros k v. induction d as [|[k' v'] d IH]; intros H; [reflexivity|].
  cbn [dict_set map fst In app] in *.
  destruct (str_eqb k' k) eqn:E; [apply str_eqb_true in E; exfalso; apply H; left; exact E|].
  rewrite IH by (intro Hin; apply H; right; exact Hin). reflexivity.
Qed.

Lemma dict_fold_app : forall l acc, NoDup (map fst (acc ++ l)) ->
  fold_left (fun d p => dict_set (fst p) (snd p) d) l acc = acc ++ l.
Proof.
  induction l as [|[k v] l IH]; intros acc H; [rewrite app_nil_r; reflexivity|].
  cbn [fold_left fst snd].
  assert (Hfresh : ~ In k (map fst acc)).
  { rewrite map_app in H. cbn [map fst] in H. apply NoDup_remove_2 in H.
    intro Hin. apply H. apply in_or_app. left. exact Hin. }
  rewrite (dict_set_fresh k v acc Hfresh).
  replace (acc ++ (k, v) :: l) with ((acc ++ [(k, v)]) ++ l) in * by (rewrite <- app_assoc; reflexivity).
  apply IH. exact H.
Qed.

Lemma dict_of_pairs_unique : forall kv, keys_unique (map fst kv) = true -> dict_of_pairs kv = kv.
Proof. intros kv H. unfold dict_of_pairs. rewrite dict_fold_app; [reflexivity|apply keys_unique_NoDup; exact H]. Qed.

Lemma parse_dump : forall v, reads_back v.
Proof.
  apply json_ind'; unfold reads_back.
  - intros _ [|f] rest Hf _; [inversion Hf|]. reflexivity.
  - intros [|] _ [|f] rest Hf _; try (inversion Hf; fail); reflexivity.
  - intros n _ [|f] rest Hf Hfo; [inversion Hf|]. cbn [json_dump].
    rewrite parse_value_number.
    + apply parse_number_dump. exact Hfo.
    + destruct (dump_int_head n) as (d & t & Hd & H). rewrite Hd. exact H.
  - intros s Hok [|f] rest Hf _; [inversion Hf|]. cbn [json_dump json_ok] in *.
    unfold dump_string in *. cbn [app] in *. rewrite <- app_assoc in *. cbn [app] in *.
    rewrite parse_value_str. rewrite scan_dump; [reflexivity|exact Hok|].
    cbn [length] in Hf. rewrite app_length in Hf. pose proof (flat_esc_len s). lia.
  - intros l HP Hok [|f] rest Hf _; [inversion Hf|]. rewrite dump_arr in *. cbn [json_ok] in Hok.
    cbn [app] in *. rewrite <- app_assoc in *. cbn [app length] in *.
    destruct l as [|x t]; [reflexivity|].
    rewrite parse_value_arr.
    2:{ destruct t; cbn [map join]; [|rewrite <- app_assoc]; apply dump_starts. }
    rewrite parse_elems_dump; [reflexivity|exact HP|exact Hok|lia|lia].
  - intros kv HP Hok [|f] rest Hf _; [inversion Hf|]. rewrite dump_obj in *. cbn [json_ok] in Hok.
    apply andb_prop in Hok. destruct Hok as [Hu Hok].
    cbn [app] in *. rewrite <- app_assoc in *. cbn [app length] in *.
    destruct kv as [|p t]; [reflexivity|].
    rewrite parse_value_obj.
    2:{ destruct t; cbn [map join]; [|rewrite <- app_assoc]; apply member_starts. }
    rewrite parse_members_dump; [|exact HP|exact Hok|lia|lia].
    rewrite (dict_of_pairs_unique _ Hu). reflexivity.
Qed.

Lemma json_roundtrip_lemma : forall v, in_subset v -> json_load (json_dump v) = Some v.
Proof.
  intros v Hv. unfold json_load.
  pose proof (dump_starts v []) as Hs. rewrite app_nil_r in Hs. rewrite (skip_ws_starts _ Hs).
  pose proof (parse_dump v Hv (S (length (json_dump v))) []) as H. rewrite app_nil_r in H.
  rewrite H; [reflexivity|apply Nat.lt_succ_diag_r|exact I].
Qed.

(* ====================================================================================== *)
(* 4. lexical balance: whatever json.load accepts has its brackets closed                  *)
(* ====================================================================================== *)
Ltac norm_app := repeat (progress cbn [app] || rewrite <- app_assoc).

Lemma lex_app : forall a b st, lex st (a ++ b) = lex (lex st a) b.
Proof. intros a b st. unfold lex. apply fold_left_app. Qed.

Lemma lex_cons : forall c t st, lex st (c :: t) = lex (lstep st c) t.
Proof. reflexivity. Qed.

(* net effect of a text read from outside a string: outside again, depth changed by k *)
Definition net (k : Z) (t : str) : Prop := forall d, lex (LOut, d) t = (LOut, d + k).
(* inside a string: still inside / closed *)
Definition inS (t : str) : Prop := forall d, lex (LIn, d) t = (LIn, d).
Definition closes (t : str) : Prop := forall d, lex (LIn, d) t = (LOut, d).

Definition plainb (c : Z) : bool :=
  negb ((c =? 34) || (c =? 91) || (c =? 123) || (c =? 93) || (c =? 125)).

Lemma lstep_plain : forall c d, plainb c = true -> lstep (LOut, d) c = (LOut, d).
Proof.
  intros c d H. unfold plainb in H. unfold lstep. cbn [fst snd].
  replace (c =? 34) with false by lia. replace ((c =? 91) || (c =? 123)) with false by lia.
  replace ((c =? 93) || (c =? 125)) with false by lia. reflexivity.
Qed.

Lemma net_nil : net 0 [].
Proof. intros d. cbn. f_equal. lia. Qed.

Lemma net_app : forall a b t1 t2, net a t1 -> net b t2 -> net (a + b) (t1 ++ t2).
Proof. intros a b t1 t2 H1 H2 d. rewrite lex_app, H1, H2. f_equal. lia. Qed.

Lemma net_plain : forall t, Forall (fun c => plainb c = true) t -> net 0 t.
Proof.
  induction t as [|c t IH]; intros H; [apply net_nil|].
  inversion H as [|? ? Hc Ht]; subst. intros d. rewrite lex_cons, (lstep_plain c d Hc). apply IH. exact Ht.
Qed.

Lemma net_plain1 : forall c, plainb c = true -> net 0 [c].
Proof. intros c H. apply net_plain. constructor; [exact H|constructor]. Qed.

Lemma net_open : forall c, c = 91 \/ c = 123 -> net 1 [c].
Proof. intros c [->| ->] d; reflexivity. Qed.
Lemma net_close : forall c, c = 93 \/ c = 125 -> net (-1) [c].
Proof. intros c [->| ->] d; cbn; f_equal; lia. Qed.

Lemma net_string : forall t, closes t -> net 0 (34 :: t).
Proof. intros t H d. rewrite lex_cons. change (lstep (LOut, d) 34) with (LIn, d). rewrite H. f_equal. lia. Qed.

Lemma inS_app_closes : forall a b, inS a -> closes b -> closes (a ++ b).
Proof. intros a b Ha Hb d. rewrite lex_app, Ha, Hb. reflexivity. Qed.

Lemma inS_esc : forall e, inS [92; e].
Proof. intros e d. reflexivity. Qed.

Definition instr (c : Z) : Prop := c <> 34 /\ c <> 92.

Lemma inS_instr : forall t, Forall instr t -> inS t.
Proof.
  induction t as [|c t IH]; intros H d; [reflexivity|].
  inversion H as [|? ? [H1 H2] Ht]; subst. rewrite lex_cons. unfold lstep. cbn [fst snd].
  replace (c =? 34) with false by lia. replace (c =? 92) with false by lia. apply IH. exact Ht.
Qed.

Lemma inS_app : forall a b, inS a -> inS b -> inS (a ++ b).
Proof. intros a b Ha Hb d. rewrite lex_app, Ha, Hb. reflexivity. Qed.

Lemma hexval_instr : forall c v, hexval c = Some v -> instr c.
Proof.
  intros c v H. unfold hexval in H. unfold instr.
  destruct ((48 <=? c) && (c <=? 57)) eqn:E1; [lia|].
  destruct ((97 <=? c) && (c <=? 102)) eqn:E2; [lia|].
  destruct ((65 <=? c) && (c <=? 70)) eqn:E3; [lia|discriminate].
Qed.

Lemma hex4val_lex : forall s x r, hex4val s = Some (x, r) -> exists h, s = h ++ r /\ inS h.
Proof.
  intros s x r H. unfold hex4val in H.
  destruct s as [|a [|b [|c [|d r0]]]]; try discriminate.
  destruct (hexval a) eqn:Ea; [|discriminate]. destruct (hexval b) eqn:Eb; [|discriminate].
  destruct (hexval c) eqn:Ec; [|discriminate]. destruct (hexval d) eqn:Ed; [|discriminate].
  inversion H; subst. exists [a; b; c; d]. split; [reflexivity|].
  apply inS_instr. repeat constructor; eapply hexval_instr; eassumption.
Qed.

Lemma pair_low_lex : forall s y r, pair_low s = Some (y, r) -> exists h, s = h ++ r /\ inS h.
Proof.
  intros s y r H. unfold pair_low in H. destruct s as [|b [|u r0]]; try discriminate.
  destruct ((b =? 92) && (u =? 117)) eqn:E; [|discriminate].
  destruct (hex4val r0) as [[y0 r1]|] eqn:Eh; [|discriminate].
  destruct (is_low y0); [|discriminate]. inversion H; subst.
  destruct (hex4val_lex _ _ _ Eh) as (h & -> & Hh).
  exists (b :: u :: h). split; [reflexivity|].
  assert (b = 92) by lia. subst b. change (92 :: u :: h) with ([92; u] ++ h).
  apply inS_app; [apply inS_esc|exact Hh].
Qed.

Lemma scan_string_lex : forall f s x r, scan_string f s = Some (x, r) -> exists t, s = t ++ r /\ closes t.
Proof.
  induction f as [|f IH]; intros s x r H; [discriminate|]. cbn [scan_string] in H.
  destruct s as [|c s']; [discriminate|].
  destruct (c =? 34) eqn:E34.
  { inversion H; subst. apply Z.eqb_eq in E34. subst c. exists [34]. split; [reflexivity|]. intros d. reflexivity. }
  destruct (c =? 92) eqn:E92.
  { apply Z.eqb_eq in E92. subst c. destruct s' as [|e r1]; [discriminate|].
    destruct (e =? 117) eqn:Eu.
    - destruct (hex4val r1) as [[x0 r2]|] eqn:Eh; [|discriminate].
      destruct (hex4val_lex _ _ _ Eh) as (h & -> & Hh).
      destruct (if is_high x0 then pair_low r2 else None) as [[y r3]|] eqn:Ep.
      + destruct (is_high x0); [|discriminate].
        destruct (pair_low_lex _ _ _ Ep) as (h2 & -> & Hh2).
        destruct (scan_string f r3) as [[t r']|] eqn:Es; [|discriminate]. inversion H; subst.
        destruct (IH _ _ _ Es) as (t' & -> & Ht').
        exists (([92; e] ++ h) ++ h2 ++ t'). split; [norm_app; reflexivity|].
        apply inS_app_closes; [apply inS_app; [apply inS_esc|exact Hh]|].
        apply inS_app_closes; assumption.
      + destruct (scan_string f r2) as [[t r']|] eqn:Es; [|discriminate]. inversion H; subst.
        destruct (IH _ _ _ Es) as (t' & -> & Ht').
        exists (([92; e] ++ h) ++ t'). split; [norm_app; reflexivity|].
        apply inS_app_closes; [apply inS_app; [apply inS_esc|exact Hh]|exact Ht'].
    - destruct (unescape e); [|discriminate].
      destruct (scan_string f r1) as [[t r']|] eqn:Es; [|discriminate]. inversion H; subst.
      destruct (IH _ _ _ Es) as (t' & -> & Ht').
      exists ([92; e] ++ t'). split; [reflexivity|]. apply inS_app_closes; [apply inS_esc|exact Ht']. }
  destruct (c <=? 31); [discriminate|].
  destruct (scan_string f s') as [[t r']|] eqn:Es; [|discriminate]. inversion H; subst.
  destruct (IH _ _ _ Es) as (t' & -> & Ht').
  exists ([c] ++ t'). split; [reflexivity|].
  apply inS_app_closes; [apply inS_instr; repeat constructor; lia|exact Ht'].
Qed.

Lemma is_ws_plain : forall c, is_ws c = true -> plainb c = true.
Proof. intros c H. unfold is_ws in H. unfold plainb. lia. Qed.

Lemma skip_ws_split : forall s, exists w, s = w ++ skip_ws s /\ net 0 w.
Proof.
  induction s as [|c r IH]; [exists []; split; [reflexivity|apply net_nil]|].
  cbn [skip_ws]. destruct (is_ws c) eqn:E.
  - destruct IH as (w & Hw & Hn). exists (c :: w). split; [cbn [app]; f_equal; exact Hw|].
    change (c :: w) with ([c] ++ w). change 0 with (0 + 0). apply net_app; [apply net_plain1, is_ws_plain, E|exact Hn].
  - exists []. split; [reflexivity|apply net_nil].
Qed.

Lemma span_digits_inv : forall s ds r, span_digits s = (ds, r) ->
  s = ds ++ r /\ Forall (fun c => is_digit c = true) ds.
Proof.
  induction s as [|c s IH]; intros ds r H; cbn [span_digits] in H.
  - inversion H; subst. split; [reflexivity|constructor].
  - destruct (is_digit c) eqn:E.
    + destruct (span_digits s) as [d0 r0] eqn:Es. inversion H; subst.
      destruct (IH d0 r eq_refl) as [-> Hd]. split; [reflexivity|constructor; assumption].
    + inversion H; subst. split; [reflexivity|constructor].
Qed.

Lemma digit_plain : forall c, is_digit c = true -> plainb c = true.
Proof. intros c H. unfold is_digit in H. unfold plainb. lia. Qed.

Lemma parse_nat_lex : forall s n r, parse_nat s = Some (n, r) -> exists t, s = t ++ r /\ net 0 t.
Proof.
  intros s n r H. unfold parse_nat in H. destruct s as [|c s']; [discriminate|].
  destruct (c =? 48) eqn:E0.
  - inversion H; subst. exists [c]. split; [reflexivity|]. apply net_plain1. unfold plainb. lia.
  - destruct ((49 <=? c) && (c <=? 57)); [|discriminate].
    destruct (span_digits (c :: s')) as [ds r'] eqn:Es. inversion H; subst.
    destruct (span_digits_inv _ _ _ Es) as [Hs Hd]. exists ds. split; [exact Hs|].
    apply net_plain. eapply Forall_impl; [|exact Hd]. intros a Ha. apply digit_plain. exact Ha.
Qed.

Lemma parse_number_lex : forall s v r, parse_number s = Some (v, r) -> exists t, s = t ++ r /\ net 0 t.
Proof.
  intros s v r H. unfold parse_number in H. destruct s as [|c s']; [discriminate|].
  destruct (c =? 45) eqn:E.
  - destruct (parse_nat s') as [[n r']|] eqn:Ep; [|discriminate].
    destruct (no_float_next r'); [|discriminate]. inversion H; subst.
    destruct (parse_nat_lex _ _ _ Ep) as (t & -> & Ht). exists ([c] ++ t). split; [reflexivity|].
    change 0 with (0 + 0). apply net_app; [apply net_plain1; unfold plainb; lia|exact Ht].
  - destruct (parse_nat (c :: s')) as [[n r']|] eqn:Ep; [|discriminate].
    destruct (no_float_next r'); [|discriminate]. inversion H; subst.
    exact (parse_nat_lex _ _ _ Ep).
Qed.

Lemma strip_prefix_inv : forall w s r, strip_prefix w s = Some r -> s = w ++ r.
Proof.
  induction w as [|a w IH]; intros s r H; cbn [strip_prefix] in H; [inversion H; reflexivity|].
  destruct s as [|c s']; [discriminate|]. destruct (c =? a) eqn:E; [|discriminate].
  apply Z.eqb_eq in E. subst c. rewrite (IH _ _ H). reflexivity.
Qed.

Section LoopsLex.
  Variable pv : str -> option (json * str).
  Hypothesis pv_lex : forall s v r, pv s = Some (v, r) -> exists t, s = t ++ r /\ net 0 t.

  Lemma parse_elems_lex : forall n s l r, parse_elems pv n s = Some (l, r) ->
    exists t, s = t ++ r /\ net (-1) t.
  Proof.
    induction n as [|n IH]; intros s l r H; [discriminate|]. cbn [parse_elems] in H.
    destruct (pv s) as [[v r0]|] eqn:Ev; [|discriminate].
    destruct (pv_lex _ _ _ Ev) as (t0 & -> & Ht0).
    destruct (skip_ws_split r0) as (w & Hw & Hnw).
    destruct (skip_ws r0) as [|c r'] eqn:Es; [discriminate|]. rewrite Hw.
    destruct (c =? 93) eqn:E93.
    - inversion H; subst. exists (t0 ++ w ++ [c]). split; [norm_app; reflexivity|].
      change (-1) with (0 + (0 + -1)). apply net_app; [exact Ht0|]. apply net_app; [exact Hnw|].
      apply net_close. lia.
    - destruct (c =? 44) eqn:E44; [|discriminate].
      destruct (parse_elems pv n (skip_ws r')) as [[l' r'']|] eqn:Ep; [|discriminate]. inversion H; subst.
      destruct (IH _ _ _ Ep) as (t1 & Ht1 & Hn1).
      destruct (skip_ws_split r') as (w' & Hw' & Hnw'). rewrite Hw', Ht1.
      exists (t0 ++ w ++ [c] ++ w' ++ t1). split; [norm_app; reflexivity|].
      change (-1) with (0 + (0 + (0 + (0 + -1)))).
      repeat (apply net_app; try assumption). apply net_plain1. unfold plainb. lia.
  Qed.

  Lemma parse_members_lex : forall n s l r, parse_members pv n s = Some (l, r) ->
    exists t, s = t ++ r /\ net (-1) t.
  Proof.
    induction n as [|n IH]; intros s l r H; [discriminate|]. cbn [parse_members] in H.
    destruct s as [|q s1]; [discriminate|]. destruct (q =? 34) eqn:Eq; [|discriminate].
    apply Z.eqb_eq in Eq. subst q.
    destruct (scan_string n s1) as [[k r0]|] eqn:Ek; [|discriminate].
    destruct (scan_string_lex _ _ _ _ Ek) as (tk & -> & Htk).
    destruct (skip_ws_split r0) as (w0 & Hw0 & Hn0).
    destruct (skip_ws r0) as [|c r1] eqn:Es0; [discriminate|]. rewrite Hw0.
    destruct (c =? 58) eqn:E58; [|discriminate].
    destruct (skip_ws_split r1) as (w1 & Hw1 & Hn1). rewrite Hw1.
    destruct (pv (skip_ws r1)) as [[v r2]|] eqn:Ev; [|discriminate].
    destruct (pv_lex _ _ _ Ev) as (tv & -> & Htv).
    destruct (skip_ws_split r2) as (w2 & Hw2 & Hn2).
    destruct (skip_ws r2) as [|d r3] eqn:Es2; [discriminate|]. rewrite Hw2.
    assert (Hhead : net 0 ((34 :: tk) ++ w0 ++ [c] ++ w1 ++ tv ++ w2)).
    { change 0 with (0 + (0 + (0 + (0 + (0 + 0))))).
      repeat (apply net_app; try assumption); [apply net_string; exact Htk|apply net_plain1; unfold plainb; lia]. }
    destruct (d =? 125) eqn:E125.
    - inversion H; subst.
      exists (((34 :: tk) ++ w0 ++ [c] ++ w1 ++ tv ++ w2) ++ [d]).
      split; [norm_app; reflexivity|].
      change (-1) with (0 + -1). apply net_app; [exact Hhead|apply net_close; lia].
    - destruct (d =? 44) eqn:E44; [|discriminate].
      destruct (parse_members pv n (skip_ws r3)) as [[l' r4]|] eqn:Ep; [|discriminate]. inversion H; subst.
      destruct (IH _ _ _ Ep) as (t3 & Ht3 & Hn3).
      destruct (skip_ws_split r3) as (w3 & Hw3 & Hnw3). rewrite Hw3, Ht3.
      exists (((34 :: tk) ++ w0 ++ [c] ++ w1 ++ tv ++ w2) ++ [d] ++ w3 ++ t3).
      split; [norm_app; reflexivity|].
      change (-1) with (0 + (0 + (0 + -1))).
      repeat (apply net_app; try assumption). apply net_plain1. unfold plainb. lia.
  Qed.
End LoopsLex.

Lemma net_lit : forall w, w = c_null \/ w = c_true \/ w = c_false -> net 0 w.
Proof. intros w [->|[->| ->]] d; cbn; f_equal; lia. Qed.

Lemma parse_value_lex : forall f s v r, parse_value f s = Some (v, r) -> exists t, s = t ++ r /\ net 0 t.
Proof.
  induction f as [|f IH]; intros s v r H; [discriminate|]. cbn [parse_value] in H.
  destruct s as [|c s']; [discriminate|].
  destruct (c =? 34) eqn:E34.
  { apply Z.eqb_eq in E34. subst c.
    destruct (scan_string f s') as [[x r']|] eqn:Es; [|discriminate]. inversion H; subst.
    destruct (scan_string_lex _ _ _ _ Es) as (t & -> & Ht). exists (34 :: t). split; [reflexivity|].
    apply net_string. exact Ht. }
  destruct (c =? 91) eqn:E91.
  { destruct (skip_ws_split s') as (w & Hw & Hnw).
    destruct (skip_ws s') as [|d r'] eqn:Es; [discriminate|]. rewrite Hw.
    destruct (d =? 93) eqn:E93.
    - inversion H; subst. exists ([c] ++ w ++ [d]). split; [norm_app; reflexivity|].
      change 0 with (1 + (0 + -1)). apply net_app; [apply net_open; lia|]. apply net_app; [exact Hnw|apply net_close; lia].
    - destruct (parse_elems (parse_value f) f (d :: r')) as [[l r'']|] eqn:Ep; [|discriminate]. inversion H; subst.
      destruct (parse_elems_lex _ IH _ _ _ _ Ep) as (t & Ht & Hn). rewrite Ht.
      exists ([c] ++ w ++ t). split; [norm_app; reflexivity|].
      change 0 with (1 + (0 + -1)). apply net_app; [apply net_open; lia|]. apply net_app; assumption. }
  destruct (c =? 123) eqn:E123.
  { destruct (skip_ws_split s') as (w & Hw & Hnw).
    destruct (skip_ws s') as [|d r'] eqn:Es; [discriminate|]. rewrite Hw.
    destruct (d =? 125) eqn:E125.
    - inversion H; subst. exists ([c] ++ w ++ [d]). split; [norm_app; reflexivity|].
      change 0 with (1 + (0 + -1)). apply net_app; [apply net_open; lia|]. apply net_app; [exact Hnw|apply net_close; lia].
    - destruct (parse_members (parse_value f) f (d :: r')) as [[l r'']|] eqn:Ep; [|discriminate]. inversion H; subst.
      destruct (parse_members_lex _ IH _ _ _ _ Ep) as (t & Ht & Hn). rewrite Ht.
      exists ([c] ++ w ++ t). split; [norm_app; reflexivity|].
      change 0 with (1 + (0 + -1)). apply net_app; [apply net_open; lia|]. apply net_app; assumption. }
  destruct (strip_prefix c_null (c :: s')) as [r1|] eqn:P1.
  { inversion H; subst. exists c_null. split; [apply strip_prefix_inv; exact P1|apply net_lit; auto]. }
  destruct (strip_prefix c_true (c :: s')) as [r2|] eqn:P2.
  { inversion H; subst. exists c_true. split; [apply strip_prefix_inv; exact P2|apply net_lit; auto]. }
  destruct (strip_prefix c_false (c :: s')) as [r3|] eqn:P3.
  { inversion H; subst. exists c_false. split; [apply strip_prefix_inv; exact P3|apply net_lit; auto]. }
  exact (parse_number_lex _ _ _ H).
Qed.

(* json.load accepts only texts that end outside every string and bracket *)
Lemma json_load_balanced : forall s v, json_load s = Some v -> lex (LOut, 0) s = (LOut, 0).
Proof.
  intros s v H. unfold json_load in H.
  destruct (parse_value (S (length s)) (skip_ws s)) as [[v0 r]|] eqn:Ep; [|discriminate].
  destruct (skip_ws r) as [|c r'] eqn:Er; [|discriminate].
  destruct (parse_value_lex _ _ _ _ Ep) as (t & Ht & Hn).
  destruct (skip_ws_split s) as (w & Hw & Hnw). destruct (skip_ws_split r) as (w' & Hw' & Hnw').
  rewrite Er, app_nil_r in Hw'. subst w'.
  rewrite Hw, Ht. rewrite !lex_app. rewrite Hnw, Hn, Hnw'. reflexivity.
Qed.

(* ====================================================================================== *)
(* 5. a dumped value: depth never below the start, strictly above inside a list / object   *)
(* ====================================================================================== *)
(* every state after at least one character has depth >= k *)
Fixpoint stays (k : Z) (st : lmode * Z) (s : str) : Prop :=
  match s with
  | [] => True
  | c :: r => k <= snd (lstep st c) /\ stays k (lstep st c) r
  end.

Lemma stays_app : forall k a b st, stays k st a -> stays k (lex st a) b -> stays k st (a ++ b).
Proof.
  intros k. induction a as [|c a IH]; intros b st Ha Hb; [exact Hb|].
  cbn [app stays] in *. destruct Ha as [H1 H2]. split; [exact H1|]. apply IH; [exact H2|exact Hb].
Qed.

Lemma stays_prefix : forall k p q st, stays k st (p ++ q) -> p <> [] -> k <= snd (lex st p).
Proof.
  intros k. induction p as [|c p IH]; intros q st H Hp; [contradiction|].
  cbn [app stays] in H. destruct H as [H1 H2]. rewrite lex_cons.
  destruct p as [|c' p']; [exact H1|]. apply (IH q); [exact H2|discriminate].
Qed.

Lemma stays_weaken : forall k k' s st, k' <= k -> stays k st s -> stays k' st s.
Proof.
  intros k k' s. induction s as [|c s IH]; intros st Hk H; [exact I|].
  cbn [stays] in *. destruct H as [H1 H2]. split; [lia|apply IH; assumption].
Qed.

(* a text that keeps mode m and depth: e.g. plain characters outside a string *)
Definition keeps (m : lmode) (t : str) : Prop :=
  forall d, lex (m, d) t = (m, d) /\ stays d (m, d) t.

Lemma keeps_nil : forall m, keeps m [].
Proof. intros m d. split; [reflexivity|exact I]. Qed.

Lemma keeps_app : forall m a b, keeps m a -> keeps m b -> keeps m (a ++ b).
Proof.
  intros m a b Ha Hb d. destruct (Ha d) as [A1 A2]. destruct (Hb d) as [B1 B2]. split.
  - rewrite lex_app, A1. exact B1.
  - apply stays_app; [exact A2|rewrite A1; exact B2].
Qed.

Lemma keeps_plain : forall t, Forall (fun c => plainb c = true) t -> keeps LOut t.
Proof.
  induction t as [|c t IH]; intros H; [apply keeps_nil|].
  inversion H as [|? ? Hc Ht]; subst. intros d. destruct (IH Ht d) as [I1 I2].
  cbn [stays]. rewrite lex_cons, (lstep_plain c d Hc). cbn [snd]. split; [exact I1|]. split; [lia|exact I2].
Qed.

Lemma keeps_instr : forall t, Forall instr t -> keeps LIn t.
Proof.
  induction t as [|c t IH]; intros H; [apply keeps_nil|].
  inversion H as [|? ? [H1 H2] Ht]; subst. intros d. destruct (IH Ht d) as [I1 I2].
  assert (E : lstep (LIn, d) c = (LIn, d)).
  { unfold lstep. cbn [fst snd]. replace (c =? 34) with false by lia. replace (c =? 92) with false by lia. reflexivity. }
  cbn [stays]. rewrite lex_cons, E. cbn [snd]. split; [exact I1|]. split; [lia|exact I2].
Qed.

Lemma keeps_esc2 : forall e, keeps LIn [92; e].
Proof. intros e d. cbn. repeat split; lia. Qed.

Lemma hexdig_instr : forall y, 0 <= y < 16 -> instr (hexdig y).
Proof. intros y H. unfold instr, hexdig. destruct (y <? 10) eqn:E; lia. Qed.

Lemma keeps_uesc : forall x, keeps LIn (uesc x).
Proof.
  intros x. unfold uesc. change (92 :: 117 :: hex4 x) with ([92; 117] ++ hex4 x).
  apply keeps_app; [apply keeps_esc2|]. apply keeps_instr. unfold hex4.
  repeat constructor; apply hexdig_instr; apply Z.mod_pos_bound; lia.
Qed.

Lemma keeps_esc_char : forall c, keeps LIn (esc_char c).
Proof.
  intros c. unfold esc_char.
  repeat match goal with |- context [if ?b then _ else _] => destruct b eqn:? end;
    try apply keeps_esc2; try apply keeps_uesc.
  - apply keeps_instr. repeat constructor; lia.
  - apply keeps_app; apply keeps_uesc.
Qed.

Lemma keeps_flat_esc : forall x, keeps LIn (flat_map esc_char x).
Proof.
  induction x as [|c x IH]; [apply keeps_nil|]. cbn [flat_map]. apply keeps_app; [apply keeps_esc_char|exact IH].
Qed.

Lemma keeps_dump_string : forall x, keeps LOut (dump_string x).
Proof.
  intros x d. unfold dump_string. destruct (keeps_flat_esc x d) as [K1 K2].
  rewrite lex_cons. change (lstep (LOut, d) 34) with (LIn, d). rewrite lex_app, K1. split; [reflexivity|].
  cbn [stays]. change (lstep (LOut, d) 34) with (LIn, d). cbn [snd]. split; [lia|].
  apply stays_app; [exact K2|]. rewrite K1. cbn. split; [lia|exact I].
Qed.

Lemma keeps_dump_int : forall n, keeps LOut (dump_int n).
Proof.
  intros n. apply keeps_plain. unfold dump_int. destruct (n <? 0) eqn:E.
  - constructor; [reflexivity|]. eapply Forall_impl; [|apply dec_digits; lia]. intros a Ha. apply digit_plain. exact Ha.
  - eapply Forall_impl; [|apply dec_digits; lia]. intros a Ha. apply digit_plain. exact Ha.
Qed.

(* between brackets: depth one higher all the way *)
Lemma keeps_bracket : forall o c body, (o = 91 /\ c = 93) \/ (o = 123 /\ c = 125) ->
  keeps LOut body -> keeps LOut (o :: body ++ [c]).
Proof.
  intros o c body Hoc Hb d. destruct (Hb (d + 1)) as [B1 B2].
  assert (Eo : lstep (LOut, d) o = (LOut, d + 1)) by (destruct Hoc as [[-> _]|[-> _]]; reflexivity).
  assert (Ec : lstep (LOut, d + 1) c = (LOut, d)).
  { destruct Hoc as [[_ ->]|[_ ->]]; cbn; f_equal; lia. }
  split.
  - rewrite lex_cons, Eo, lex_app, B1. cbn [lex fold_left]. exact Ec.
  - cbn [stays]. rewrite Eo. cbn [snd]. split; [lia|].
    apply stays_app; [apply (stays_weaken (d + 1)); [lia|exact B2]|].
    rewrite B1. cbn [stays]. rewrite Ec. cbn [snd]. split; [lia|exact I].
Qed.

Lemma keeps_join : forall l, Forall (keeps LOut) l -> keeps LOut (join l).
Proof.
  induction l as [|x t IH]; intros H; [apply keeps_nil|].
  inversion H as [|? ? Hx Ht]; subst. destruct t as [|y t']; [exact Hx|].
  rewrite join_cons2. apply keeps_app; [exact Hx|].
  change (44 :: 32 :: join (y :: t')) with ([44; 32] ++ join (y :: t')).
  apply keeps_app; [apply keeps_plain; repeat constructor|apply IH; exact Ht].
Qed.

Lemma keeps_dump : forall v, keeps LOut (json_dump v).
Proof.
  apply json_ind'.
  - apply keeps_plain. repeat constructor.
  - intros [|]; apply keeps_plain; repeat constructor.
  - intros n. apply keeps_dump_int.
  - intros s. apply keeps_dump_string.
  - intros l H. rewrite dump_arr. apply keeps_bracket; [left; split; reflexivity|].
    apply keeps_join. apply Forall_map. exact H.
  - intros kv H. rewrite dump_obj. apply keeps_bracket; [right; split; reflexivity|].
    apply keeps_join. apply Forall_map. eapply Forall_impl; [|exact H].
    intros [k x] Hx. unfold member. cbn [fst snd] in *. apply keeps_app; [apply keeps_dump_string|].
    change (58 :: 32 :: json_dump x) with ([58; 32] ++ json_dump x).
    apply keeps_app; [apply keeps_plain; repeat constructor|exact Hx].
Qed.

(* a proper, non-empty prefix of a dumped list ends at depth >= 1 *)
Lemma dump_arr_prefix_depth : forall l p q, p ++ q = json_dump (JArr l) -> p <> [] -> q <> [] ->
  1 <= snd (lex (LOut, 0) p).
Proof.
  intros l p q E Hp Hq. rewrite dump_arr in E.
  destruct p as [|c p']; [contradiction|]. cbn [app] in E. inversion E as [[Ec E']]; subst c.
  destruct (exists_last Hq) as (q' & a & ->).
  rewrite app_assoc in E'. apply app_inj_tail in E'. destruct E' as [Eb _].
  assert (Hk : keeps LOut (join (map json_dump l))).
  { apply keeps_join. apply Forall_map. apply Forall_forall. intros v _. apply keeps_dump. }
  destruct (Hk 1) as [_ K2]. rewrite <- Eb in K2.
  rewrite lex_cons. change (lstep (LOut, 0) 91) with (LOut, 1).
  destruct p' as [|c' p'']; [cbn; lia|].
  apply (stays_prefix 1 (c' :: p'') q'); [exact K2|discriminate].
Qed.

Lemma json_prefix_free_lemma : forall l p, strict_prefix p (json_dump (JArr l)) -> json_load p = None.
Proof.
  intros l p (q & Hq & E). destruct (json_load p) as [v|] eqn:Hl; [|reflexivity]. exfalso.
  destruct p as [|c p']; [discriminate Hl|].
  pose proof (json_load_balanced _ _ Hl) as Hb.
  pose proof (dump_arr_prefix_depth l (c :: p') q (eq_sym E) ltac:(discriminate) Hq) as Hd.
  rewrite Hb in Hd. cbn in Hd. lia.
Qed.

(* ====================================================================================== *)
(* 6. the cache theorems with this codec                                                   *)
(* ====================================================================================== *)
Lemma str_ok_ascii : forall s, Forall (fun c => 0 <= c < 128) s -> str_ok s = true.
Proof.
  induction s as [|c s IH]; intros H; [reflexivity|]. inversion H as [|? ? Hc Hs]; subst.
  cbn [str_ok]. rewrite (IH Hs). replace (is_high c) with false by (unfold is_high; lia).
  cbn [andb negb]. lia.
Qed.

Lemma digits_ascii : forall s, Forall (fun c => is_digit c = true) s -> Forall (fun c => 0 <= c < 128) s.
Proof. intros s H. eapply Forall_impl; [|exact H]. intros a Ha. unfold is_digit in Ha. lia. Qed.

Lemma fmt_time_ascii : forall t, valid_time t = true -> Forall (fun c => 0 <= c < 128) (fmt_time t).
Proof.
  intros t Hv. pose proof (valid_time_bounds t Hv) as (Hy & Hm & Hd & Hh & Hmi & Hs & Hu).
  pose proof (dim_bounds (yr t) (mo t)) as Hdim.
  unfold fmt_time, fmt_rest.
  repeat (apply Forall_app; split);
    try (apply digits_ascii; first [apply fmt4_digits|apply fmt2_digits|apply fmt6_digits]; lia);
    repeat constructor; unfold c_dash, c_T, c_colon, c_dot; lia.
Qed.

Lemma entry_in_subset : forall e, entry_ok e -> json_ok (e_path e) = true -> json_ok (e_attr e) = true ->
  json_ok (entry_json e) = true.
Proof.
  intros e (H0 & H1 & _) Hp Ha. unfold entry_json, entry_json_with.
  cbn [json_ok map fst forallb keys_unique].
  rewrite Hp, Ha. rewrite (str_ok_ascii _ (fmt_time_ascii _ H0)), (str_ok_ascii _ (fmt_time_ascii _ H1)).
  reflexivity.
Qed.

Lemma doc_in_subset : forall c, cache_ok c -> cache_in_subset c -> in_subset (doc_of c).
Proof.
  intros c [Hok _] Hs. unfold in_subset, doc_of. cbn [json_ok].
  induction c as [|e c IH]; [reflexivity|].
  inversion Hok as [|? ? He Hc]; subst. inversion Hs as [|? ? [Hp Ha] Hs']; subst.
  cbn [map forallb]. rewrite (entry_in_subset e He Hp Ha). apply IH; assumption.
Qed.

Lemma cache_subsetb_spec : forall c, cache_subsetb c = true -> cache_in_subset c.
Proof.
  induction c as [|e c IH]; intros H; [constructor|]. cbn [cache_subsetb forallb] in H.
  apply andb_prop in H. destruct H as [H1 H2]. apply andb_prop in H1. destruct H1 as [Hp Ha].
  constructor; [split; assumption|apply IH; exact H2].
Qed.

(* the lemmas of Proofs/C15_cache.v section 4 for a codec that reads back the values of a class *)
Section GoodCodec.
  Context {A : Type} (render : json -> list A) (parse : list A -> option json).
  Variable good : json -> Prop.
  Hypothesis parse_render_good : forall v, good v -> parse (render v) = Some v.

  Definition good_cache (c : cache) : Prop := cache_ok c /\ good (doc_of c).

  Lemma restart_of_doc_good : forall c b, good_cache c ->
    restart parse {| main := Some (render (doc_of c)); backup := b |} = (c, Quiet).
  Proof.
    intros c b [[Hok Hnd] Hg]. unfold restart. cbn [main file_of load_file].
    rewrite (parse_render_good _ Hg). apply load_doc_of; assumption.
  Qed.

  Lemma save_load_roundtrip_good : forall c d, good_cache c -> restart parse (save render c d) = (c, Quiet).
  Proof. intros c d H. unfold save. rewrite run_save. apply restart_of_doc_good. exact H. Qed.

  Lemma crash_then_restart_good : forall k c d, good_cache c ->
    let d' := crash_after k (save_ops (render (doc_of c))) d in
    restart parse d' = restart parse d \/ restart parse d' = (c, Quiet).
  Proof.
    intros k c d Hc d'. pose proof (crash_main_exact k (render (doc_of c)) d) as E. fold d' in E.
    destruct (length (save_ops (render (doc_of c))) <=? k)%nat.
    - right. destruct d' as [m b]. cbn [main] in E. subst m. apply restart_of_doc_good. exact Hc.
    - left. unfold restart. rewrite E. reflexivity.
  Qed.

  Lemma last_cache_good : forall (h : list (cache * option nat)) (m : option cache),
    Forall (fun e => good_cache (fst e)) h -> (forall c, m = Some c -> good_cache c) ->
    forall c, last_cache render m h = Some c -> good_cache c.
  Proof.
    induction h as [|e h IH]; intros m Hh Hm c Hc; cbn [last_cache] in Hc.
    - apply Hm. exact Hc.
    - inversion Hh as [|? ? He Hh']; subst.
      apply (IH (if completed (cache_event render e) then Some (fst e) else m) Hh') with (c := c); [|exact Hc].
      intros c' Hc'. destruct (completed (cache_event render e)); [inversion Hc'; subst; exact He|apply Hm; exact Hc'].
  Qed.

  Lemma history_restart_good : forall (h : list (cache * option nat)) (m : option cache) b,
    Forall (fun e => good_cache (fst e)) h -> (forall c, m = Some c -> good_cache c) ->
    restart parse (run_history (map (cache_event render) h)
                               {| main := option_map (fun c => render (doc_of c)) m; backup := b |})
    = match last_cache render m h with Some c => (c, Quiet) | None => ([], Quiet) end.
  Proof.
    intros h m b Hh Hm.
    pose proof (last_cache_good h m Hh Hm) as Hlast.
    unfold restart. rewrite history_safe_lemma. cbn [main]. rewrite last_completed_cache.
    destruct (last_cache render m h) as [c|] eqn:E; cbn [option_map file_of load_file].
    - destruct (Hlast c eq_refl) as [[Hok Hnd] Hg]. rewrite (parse_render_good _ Hg). apply load_doc_of; assumption.
    - reflexivity.
  Qed.
End GoodCodec.

(* a cache that save_cache can hold and json can write and read back: what cache_ok says, and paths
   and attributes in the subset *)
Definition cache_json_ok (c : cache) : Prop := cache_ok c /\ cache_in_subset c.

Lemma cache_json_good : forall c, cache_json_ok c -> good_cache in_subset c.
Proof. intros c [H1 H2]. split; [exact H1|apply doc_in_subset; assumption]. Qed.

Lemma save_load_roundtrip_json_lemma : forall c d, cache_json_ok c ->
  restart json_load (save json_dump c d) = (c, Quiet).
Proof.
  intros c d H. apply (save_load_roundtrip_good json_dump json_load in_subset json_roundtrip_lemma).
  apply cache_json_good. exact H.
Qed.

Lemma crash_then_restart_json_lemma : forall k c d, cache_json_ok c ->
  let d' := crash_after k (save_ops (json_dump (doc_of c))) d in
  restart json_load d' = restart json_load d \/ restart json_load d' = (c, Quiet).
Proof.
  intros k c d H. apply (crash_then_restart_good json_dump json_load in_subset json_roundtrip_lemma).
  apply cache_json_good. exact H.
Qed.

Lemma history_restart_json_lemma : forall (h : list (cache * option nat)) (m : option cache) b,
  Forall (fun e => cache_json_ok (fst e)) h -> (forall c, m = Some c -> cache_json_ok c) ->
  restart json_load (run_history (map (cache_event json_dump) h)
                                 {| main := option_map (fun c => json_dump (doc_of c)) m; backup := b |})
  = match last_cache json_dump m h with Some c => (c, Quiet) | None => ([], Quiet) end.
Proof.
  intros h m b Hh Hm. apply (history_restart_good json_dump json_load in_subset json_roundtrip_lemma).
  - eapply Forall_impl; [|exact Hh]. intros e He. apply cache_json_good. exact He.
  - intros c Hc. apply cache_json_good. apply Hm. exact Hc.
Qed.

Lemma truncated_json_lemma : forall c0 c p, strict_prefix p (json_dump (doc_of c)) ->
  load_file json_load c0 (Content p) = (c0, Warned).
Proof. exact (truncated_lemma json_dump json_load json_prefix_free_lemma). Qed.
