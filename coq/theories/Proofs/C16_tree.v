(* Proofs/C16_tree.v -- lemmas about Model/C16_tree.v *)
From Coq Require Import ZArith List Bool Ascii String Lia Sorted Permutation.
From Typhon Require Import Base.Calendar Base.CalendarProofs Model.C02_template Model.C16_closest Proofs.C16_closest
  Model.C16_tree.
From Typhon Require Model.C03_tree Model.C01_find Proofs.C01_find.
Import ListNotations.
Open Scope Z_scope.

Module FP := Typhon.Proofs.C01_find.

(* ------------------------------------------------------------------ lists *)

Definition lt_fst {A} (p q : nat * A) : Prop := (fst p < fst q)%nat.

Lemma indexed_from_sorted {A} (l : list A) : forall k, StronglySorted lt_fst (indexed_from k l).
Proof.
  induction l as [|a l IH]; intros k; cbn [indexed_from].
  - constructor.
  - constructor; [apply IH|]. apply Forall_forall. intros [i x] Hin.
    apply indexed_from_In in Hin. destruct Hin as [Hk _]. unfold lt_fst. cbn [fst]. lia.
Qed.

Lemma filter_sorted {A} (R : A -> A -> Prop) (p : A -> bool) l :
  StronglySorted R l -> StronglySorted R (filter p l).
Proof.
  induction 1 as [|a l Hs IH Hf]; cbn [filter]; [constructor|].
  destruct (p a); [|exact IH]. constructor; [exact IH|].
  rewrite Forall_forall in *. intros x Hx. apply filter_In in Hx. apply Hf. tauto.
Qed.

Lemma sorted_mid {A} (R : A -> A -> Prop) l1 b l2 :
  StronglySorted R (l1 ++ b :: l2) -> (forall y, In y l1 -> R y b) /\ (forall y, In y l2 -> R b y).
Proof.
  induction l1 as [|a l1 IH]; cbn [app]; intros H.
  - inversion H as [|? ? _ Hf]; subst. split; [intros y []|]. rewrite Forall_forall in Hf. exact Hf.
  - inversion H as [|? ? Hs Hf]; subst. destruct (IH Hs) as [H1 H2]. split; [|exact H2].
    intros y [Hy|Hy]; [subst y|exact (H1 y Hy)]. rewrite Forall_forall in Hf. apply Hf.
    apply in_or_app. right. left. reflexivity.
Qed.

Lemma find_split {A} (p : A -> bool) l x :
  find p l = Some x -> exists l1 l2, l = l1 ++ x :: l2 /\ p x = true /\ forall y, In y l1 -> p y = false.
Proof.
  induction l as [|a l IH]; cbn [find]; [discriminate|].
  destruct (p a) eqn:Ea.
  - intros H. inversion H; subst. exists [], l. split; [reflexivity|]. split; [exact Ea|]. intros y [].
  - intros H. destruct (IH H) as (l1 & l2 & E & Hp & Hn). exists (a :: l1), l2. subst l.
    split; [reflexivity|]. split; [exact Hp|]. intros y [Hy|Hy]; [subst; exact Ea|exact (Hn y Hy)].
Qed.

(* ------------------------------------------------------------------ the choice *)

Section ChooseProofs.
  Context {A : Type}.
  Variables (c0 c1 : A -> Z).
  Notation dist := (gdist c0 c1).
  Notation cov := (gcov c0 c1).
  Notation better := (gbetter c0 c1).

  (* np.argmin: the FIRST minimum *)
  Lemma fold_first_min t (l : list (nat * A)) : forall c,
    let b := fold_left (better t) l c in
    exists l1 l2, c :: l = l1 ++ b :: l2 /\
      (forall y, In y l1 -> dist t (snd b) < dist t (snd y)) /\
      (forall y, In y l2 -> dist t (snd b) <= dist t (snd y)).
  Proof.
    induction l as [|a l IH]; intros c; cbn [fold_left].
    - exists [], []. split; [reflexivity|]. split; intros y [].
    - specialize (IH (better t c a)). cbn zeta in IH.
      set (b := fold_left (better t) l (better t c a)) in *. clearbody b.
      destruct IH as (l1 & l2 & E & H1 & H2).
      unfold gbetter in E. destruct (dist t (snd a) <? dist t (snd c)) eqn:Elt.
      + apply Z.ltb_lt in Elt.
        (* the candidate became a *)
        assert (Hba : dist t (snd b) <= dist t (snd a)).
        { destruct l1 as [|x l1']; cbn [app] in E; inversion E; subst.
          - lia.
          - assert (dist t (snd b) < dist t (snd x)) by (apply H1; left; reflexivity). lia. }
        exists (c :: l1), l2. split; [cbn [app]; rewrite <- E; reflexivity|]. split; [|exact H2].
        intros y [Hy|Hy]; [subst y; lia|exact (H1 y Hy)].
      + apply Z.ltb_ge in Elt.
        destruct l1 as [|x l1']; cbn [app] in E; inversion E; subst.
        * exists [], (a :: l2). split; [reflexivity|]. split; [intros y []|].
          intros y [Hy|Hy]; [subst y; exact Elt|exact (H2 y Hy)].
        * exists (x :: a :: l1'), l2. split; [reflexivity|]. split; [|exact H2].
          assert (Hx : dist t (snd b) < dist t (snd x)) by (apply H1; left; reflexivity).
          intros y [Hy|[Hy|Hy]]; [subst y; exact Hx|subst y; lia|apply H1; right; exact Hy].
  Qed.

  Lemma gsearch_first sel t fs : FirstSpec c0 c1 sel t fs (gsearch c0 c1 sel t fs).
  Proof.
    unfold gsearch.
    set (L := filter (fun p : nat * A => sel (snd p)) (indexed fs)).
    assert (HL : forall i a, In (i, a) L <-> nth_error fs i = Some a /\ sel a = true).
    { intros i a. unfold L. rewrite filter_In, indexed_In. cbn [snd]. tauto. }
    assert (HS : StronglySorted lt_fst L).
    { unfold L. apply filter_sorted. apply indexed_from_sorted. }
    destruct L as [|c cs'] eqn:EL; cbn [gchoose].
    - cbn [FirstSpec]. intros a Hin. destruct (sel a) eqn:Es; [|reflexivity].
      apply In_nth_error in Hin. destruct Hin as [i Hi]. exfalso.
      assert (H : In (i, a) []) by (apply HL; split; assumption). exact H.
    - destruct (find (fun p : nat * A => cov t (snd p)) (c :: cs')) as [[i g]|] eqn:Efind.
      + destruct (find_split _ _ _ Efind) as (l1 & l2 & E & Hc & Hn). cbn [snd] in Hc. cbn [fst].
        assert (Hin : In (i, g) (c :: cs')) by (rewrite E; apply in_or_app; right; left; reflexivity).
        apply HL in Hin. destruct Hin as [Hnth Hsel].
        exists g. split; [exact Hnth|]. split; [exact Hsel|]. left. split; [exact Hc|].
        intros j a Hj Hja Hsa.
        assert (Hin : In (j, a) (c :: cs')) by (apply HL; split; assumption).
        rewrite E in HS. destruct (sorted_mid _ _ _ _ HS) as [Hl Hr].
        rewrite E in Hin. apply in_app_or in Hin. destruct Hin as [Hin|[Hin|Hin]].
        * exact (Hn _ Hin).
        * inversion Hin; subst. lia.
        * specialize (Hr _ Hin). unfold lt_fst in Hr. cbn [fst] in Hr. lia.
      + pose proof (fold_first_min t cs' c) as Hf. cbn zeta in Hf.
        destruct (fold_left (better t) cs' c) as [i g] eqn:Eb. cbn [fst snd] in *.
        destruct Hf as (l1 & l2 & E & H1 & H2).
        assert (Hin : In (i, g) (c :: cs')) by (rewrite E; apply in_or_app; right; left; reflexivity).
        apply HL in Hin. destruct Hin as [Hnth Hsel].
        exists g. split; [exact Hnth|]. split; [exact Hsel|]. right. split.
        * intros a Hin Hsa. apply In_nth_error in Hin. destruct Hin as [j Hj].
          assert (Hin : In (j, a) (c :: cs')) by (apply HL; split; assumption).
          exact (find_none _ _ Efind _ Hin).
        * intros j a Hja Hsa.
          assert (Hin : In (j, a) (c :: cs')) by (apply HL; split; assumption).
          rewrite E in HS. destruct (sorted_mid _ _ _ _ HS) as [Hl Hr].
          rewrite E in Hin. apply in_app_or in Hin. destruct Hin as [Hin|[Hin|Hin]].
          -- specialize (H1 _ Hin). cbn [snd] in H1. split; [lia|]. intros _. exact H1.
          -- inversion Hin; subst. split; [lia|]. lia.
          -- specialize (H2 _ Hin). cbn [snd] in H2. split; [exact H2|]. intros Hlt.
             specialize (Hr _ Hin). unfold lt_fst in Hr. cbn [fst] in Hr. lia.
  Qed.

  (* the rule leaves no freedom *)
  Lemma first_unique sel t fs r r' :
    FirstSpec c0 c1 sel t fs r -> FirstSpec c0 c1 sel t fs r' -> r = r'.
  Proof.
    assert (Hnone : forall i, FirstSpec c0 c1 sel t fs (Some i) -> FirstSpec c0 c1 sel t fs None -> False).
    { intros i (g & Hn & Hs & _) H0. cbn [FirstSpec] in H0. apply nth_error_In in Hn.
      rewrite (H0 g Hn) in Hs. discriminate. }
    destruct r as [i|], r' as [i'|]; intros H H'.
    - f_equal. cbn [FirstSpec] in H, H'.
      destruct H as (g & Hn & Hs & Hc). destruct H' as (g' & Hn' & Hs' & Hc').
      pose proof (nth_error_In _ _ Hn) as Hin. pose proof (nth_error_In _ _ Hn') as Hin'.
      destruct Hc as [[Hcg Hfirst]|[Hnoc Hmin]], Hc' as [[Hcg' Hfirst']|[Hnoc' Hmin']].
      + destruct (Nat.lt_trichotomy i i') as [Hlt|[He|Hgt]]; [|exact He|].
        * rewrite (Hfirst' i g Hlt Hn Hs) in Hcg. discriminate.
        * rewrite (Hfirst i' g' Hgt Hn' Hs') in Hcg'. discriminate.
      + rewrite (Hnoc' g Hin Hs) in Hcg. discriminate.
      + rewrite (Hnoc g' Hin' Hs') in Hcg'. discriminate.
      + destruct (Nat.lt_trichotomy i i') as [Hlt|[He|Hgt]]; [|exact He|].
        * destruct (Hmin' i g Hn Hs) as [_ Hx]. specialize (Hx Hlt).
          destruct (Hmin i' g' Hn' Hs') as [Hy _]. lia.
        * destruct (Hmin i' g' Hn' Hs') as [_ Hx]. specialize (Hx Hgt).
          destruct (Hmin' i g Hn Hs) as [Hy _]. lia.
    - exfalso. exact (Hnone i H H').
    - exfalso. exact (Hnone i' H' H).
    - reflexivity.
  Qed.

  (* hence: an answer is the one of the algorithm iff it obeys the rule *)
  Lemma gsearch_iff sel t fs r : gsearch c0 c1 sel t fs = r <-> FirstSpec c0 c1 sel t fs r.
  Proof.
    split.
    - intros <-. apply gsearch_first.
    - intros H. eapply first_unique; [apply gsearch_first|exact H].
  Qed.

  (* the rule implies the property's "covering, else nearest" *)
  Lemma first_covering_or_nearest sel t fs i :
    FirstSpec c0 c1 sel t fs (Some i) ->
    exists g, nth_error fs i = Some g /\ sel g = true /\
      ((exists a, In a fs /\ sel a = true /\ cov t a = true) -> cov t g = true) /\
      ((forall a, In a fs -> sel a = true -> cov t a = false) ->
       forall a, In a fs -> sel a = true -> dist t g <= dist t a).
  Proof.
    intros (g & Hn & Hs & Hc). exists g. split; [exact Hn|]. split; [exact Hs|].
    destruct Hc as [[Hcg _]|[Hnoc Hmin]].
    - split; [intros _; exact Hcg|]. intros Hno. pose proof (nth_error_In _ _ Hn) as Hin.
      rewrite (Hno g Hin Hs) in Hcg. discriminate.
    - split.
      + intros (a & Ha & Hsa & Hca). rewrite (Hnoc a Ha Hsa) in Hca. discriminate.
      + intros _ a Ha Hsa. apply In_nth_error in Ha. destruct Ha as [j Hj]. exact (proj1 (Hmin j a Hj Hsa)).
  Qed.
End ChooseProofs.

(* the rule is about coverages and verdicts only: it transfers along any description of the same files *)
Lemma first_spec_emb {A B} (emb : A -> B) (c0 c1 : B -> Z) (d0 d1 : A -> Z) (sel : B -> bool) (sel' : A -> bool)
  t fs r :
  (forall a, In a fs -> c0 (emb a) = d0 a /\ c1 (emb a) = d1 a /\ sel (emb a) = sel' a) ->
  FirstSpec d0 d1 sel' t fs r -> FirstSpec c0 c1 sel t (map emb fs) r.
Proof.
  intros Hag.
  assert (Hcov : forall a, In a fs -> gcov c0 c1 t (emb a) = gcov d0 d1 t a).
  { intros a Ha. destruct (Hag a Ha) as (E0 & E1 & _). unfold gcov. rewrite E0, E1. reflexivity. }
  assert (Hdist : forall a, In a fs -> gdist c0 c1 t (emb a) = gdist d0 d1 t a).
  { intros a Ha. destruct (Hag a Ha) as (E0 & E1 & _). unfold gdist. rewrite E0, E1. reflexivity. }
  assert (Hsel : forall a, In a fs -> sel (emb a) = sel' a).
  { intros a Ha. exact (proj2 (proj2 (Hag a Ha))). }
  assert (Hnth : forall j b, nth_error (map emb fs) j = Some b -> exists a, nth_error fs j = Some a /\ b = emb a).
  { intros j b H. rewrite nth_error_map in H. destruct (nth_error fs j) as [a|]; [|discriminate].
    inversion H. exists a. split; reflexivity. }
  destruct r as [i|]; cbn [FirstSpec].
  - intros (g & Hn & Hs & Hc). pose proof (nth_error_In _ _ Hn) as Hin.
    exists (emb g). split; [rewrite nth_error_map, Hn; reflexivity|].
    split; [rewrite Hsel; assumption|].
    destruct Hc as [[Hcg Hfirst]|[Hnoc Hmin]].
    + left. split; [rewrite Hcov; assumption|].
      intros j b Hj Hjb Hsb. destruct (Hnth j b Hjb) as (a & Ha & ->).
      pose proof (nth_error_In _ _ Ha) as Hina. rewrite Hcov by exact Hina. rewrite Hsel in Hsb by exact Hina.
      exact (Hfirst j a Hj Ha Hsb).
    + right. split.
      * intros b Hb Hsb. apply in_map_iff in Hb. destruct Hb as (a & <- & Hina).
        rewrite Hcov by exact Hina. rewrite Hsel in Hsb by exact Hina. exact (Hnoc a Hina Hsb).
      * intros j b Hjb Hsb. destruct (Hnth j b Hjb) as (a & Ha & ->).
        pose proof (nth_error_In _ _ Ha) as Hina. rewrite Hsel in Hsb by exact Hina.
        rewrite !Hdist by assumption. exact (Hmin j a Ha Hsb).
  - intros H b Hb. apply in_map_iff in Hb. destruct Hb as (a & <- & Hina).
    rewrite Hsel by exact Hina. exact (H a Hina).
Qed.

Lemma first_spec_ext {A} (c0 c1 : A -> Z) (sel sel' : A -> bool) t fs r :
  (forall a, In a fs -> sel a = sel' a) -> FirstSpec c0 c1 sel' t fs r -> FirstSpec c0 c1 sel t fs r.
Proof.
  intros H Hf. rewrite <- (map_id fs). apply (first_spec_emb (fun a => a) c0 c1 c0 c1 sel sel'); [|exact Hf].
  intros a Ha. split; [reflexivity|]. split; [reflexivity|]. exact (H a Ha).
Qed.

(* ------------------------------------------------------------------ the flat model obeys the rule (no hypotheses) *)

Lemma search_is_gsearch fs q P t : search fs q P t = gsearch ft0 ft1 (found q P t) t fs.
Proof. reflexivity. Qed.

Theorem search_first_in_order_thm fs q P t r :
  search fs q P t = r <-> FirstSpec ft0 ft1 (found q P t) t fs r.
Proof. rewrite search_is_gsearch. apply gsearch_iff. Qed.

(* the checker accepts exactly the minimisers (when no candidate covers t) / exactly the covering candidates *)
Theorem accepts_exactly_minimisers_thm fs q P t i :
  (forall f, candidate fs q P t f -> ~ covers t f) ->
  (closest_ok fs q P t (Some i) = true <->
   exists g, nth_error fs i = Some g /\ candidate fs q P t g /\
             forall f, candidate fs q P t f -> dist t g <= dist t f).
Proof.
  intros Hno. rewrite closest_ok_iff_spec_thm. cbn [ClosestSpec]. split.
  - intros (g & Hn & Hc & _ & Hmin). exists g. split; [exact Hn|]. split; [exact Hc|]. exact (Hmin Hno).
  - intros (g & Hn & Hc & Hmin). exists g. split; [exact Hn|]. split; [exact Hc|]. split.
    + intros (f & Hf & Hcf). exfalso. exact (Hno f Hf Hcf).
    + intros _. exact Hmin.
Qed.

Theorem accepts_exactly_covering_thm fs q P t i :
  (exists f, candidate fs q P t f /\ covers t f) ->
  (closest_ok fs q P t (Some i) = true <->
   exists g, nth_error fs i = Some g /\ candidate fs q P t g /\ covers t g).
Proof.
  intros Hex. rewrite closest_ok_iff_spec_thm. cbn [ClosestSpec]. split.
  - intros (g & Hn & Hc & Hcov & _). exists g. split; [exact Hn|]. split; [exact Hc|]. exact (Hcov Hex).
  - intros (g & Hn & Hc & Hcg). exists g. split; [exact Hn|]. split; [exact Hc|]. split.
    + intros _. exact Hcg.
    + intros Hno. exfalso. exact (Hno g Hc Hcg).
Qed.

(* ------------------------------------------------------------------ the window *)

Lemma lookback_pos lay : lay <> [] -> 0 < F.lookback lay.
Proof. destruct lay as [|c r]; [congruence|]. intros _. cbn [F.lookback]. apply FP.period_pos. Qed.

Lemma window_okb_iff lay t : window_okb lay t = true <-> window_ok lay t.
Proof.
  unfold window_okb, window_ok. rewrite andb_true_iff. rewrite (validb_iff t).
  destruct lay as [|c r]; [rewrite Z.leb_le; tauto|].
  rewrite andb_true_iff, !Z.leb_le. tauto.
Qed.

Lemma window_wf lay t w b ex :
  window_ok lay t -> Forall (fun '(a, b) => a <= b) ex ->
  F.wf_query (window_query lay t w b ex) /\ window_overflows lay t = false.
Proof.
  intros [Vt Hw] Hex. unfold window_query, window, window_overflows.
  destruct lay as [|c r].
  - unfold F.mkq. cbn [fst snd]. split; [|reflexivity].
    unfold F.wf_query. cbn [F.qstart F.qend F.excl]. unfold valid, dt_max. split; [lia|]. split; [lia|exact Hex].
  - set (lay := c :: r) in *. assert (HP : 0 < F.lookback lay) by (apply lookback_pos; discriminate).
    destruct Hw as [H2 Hmax]. unfold valid in Vt. unfold F.mkq. cbn [fst snd].
    split.
    + unfold F.wf_query. cbn [F.qstart F.qend F.excl]. unfold valid. split; [lia|]. split; [lia|exact Hex].
    + apply orb_false_iff. split; [apply Z.ltb_ge; lia|apply Z.ltb_ge; lia].
Qed.

(* ------------------------------------------------------------------ composition with C01 *)

Definition tree_hyps (lay : F.layout) (fs : list F.file) : Prop :=
  F.no_gaps lay = true /\ Forall F.well_placed fs /\ Forall (F.short lay) fs /\ Forall F.valid_file fs.

Lemma tree_hyps_decided lay fs : F.hyps lay fs = true -> tree_hyps lay fs.
Proof. intros H. exact (FP.hyps_sound lay fs H). Qed.

(* C01's algorithm with its final sort = the sort of the unsorted walk *)
Lemma find_model_unsorted lay fs q :
  F.find_model lay fs q =
  match find_unsorted lay fs q with F.Ok l => F.Ok (F.sort_key l) | F.Err e => F.Err e end.
Proof.
  unfold F.find_model, F.find_gen, find_unsorted.
  destruct (F.qend q - 1 <? F.qstart q); reflexivity.
Qed.

(* the files tree_search chooses from are exactly, and in the same order, those of find(start, end, sort=False) *)
Lemma indexed_from_snd {A} (l : list A) : forall k, map snd (indexed_from k l) = l.
Proof. induction l as [|a l IH]; intros k; cbn [indexed_from map snd]; [reflexivity|]. rewrite IH. reflexivity. Qed.

Lemma filter_indexed_snd {A} (p : A -> bool) (l : list A) : forall k,
  map snd (filter (fun x => p (snd x)) (indexed_from k l)) = filter p l.
Proof.
  induction l as [|a l IH]; intros k; cbn [indexed_from filter map snd]; [reflexivity|].
  destruct (p a); cbn [map snd]; rewrite IH; reflexivity.
Qed.

Theorem tree_search_uses_find_thm lay fs w b ex t l :
  window_overflows lay t = false ->
  find_unsorted lay fs (window_query lay t w b ex) = F.Ok l ->
  exists L, map snd L = l /\
    tree_search lay fs w b ex t = match gchoose F.t0 F.t1 t L with Some i => TFile i | None => TNone end /\
    F.find_model lay fs (window_query lay t w b ex) = F.Ok (F.sort_key l).
Proof.
  intros Hov Hf.
  exists (filter (fun p => F.found false lay (window_query lay t w b ex) (snd p)) (indexed fs)).
  rewrite find_model_unsorted, Hf.
  unfold find_unsorted in Hf. unfold tree_search. rewrite Hov.
  destruct (F.qend (window_query lay t w b ex) - 1 <? F.qstart (window_query lay t w b ex)); [discriminate|].
  inversion Hf. split; [apply filter_indexed_snd|]. split; reflexivity.
Qed.

(* CORE of the extension: on a tree inside C01's hypotheses the composed model -- window from the layout, C01's
   directory walk, first covering / first nearest -- obeys the rule with the BRUTE-FORCE candidates *)
Theorem closest_end_to_end_thm lay fs w b ex t :
  tree_hyps lay fs -> window_ok lay t -> Forall (fun '(a, b) => a <= b) ex ->
  exists r, tree_search lay fs w b ex t = match r with Some i => TFile i | None => TNone end /\
            FirstSpec F.t0 F.t1 (tcand lay t w b ex) t fs r.
Proof.
  intros (HG & HW & HS & HV) Hwin Hex.
  destruct (window_wf lay t w b ex Hwin Hex) as (Hq & Hov).
  set (q := window_query lay t w b ex) in *.
  exists (gsearch F.t0 F.t1 (F.found false lay q) t fs). split.
  - unfold tree_search. fold q. rewrite Hov.
    pose proof Hq as (Vq & [Hse Hemax] & _).
    replace (F.qend q - 1 <? F.qstart q) with false by lia.
    reflexivity.
  - apply (first_spec_ext F.t0 F.t1 (tcand lay t w b ex) (F.found false lay q)).
    + intros f Hin. unfold tcand. fold q. symmetry. rewrite Forall_forall in HW, HS, HV.
      apply FP.found_selected; auto.
    + apply gsearch_first.
Qed.

(* what a candidate is, spelled out *)
Lemma tcand_iff lay t w b ex f :
  tcand lay t w b ex f = true <->
  F.t0 f < snd (window lay t) /\ fst (window lay t) <= F.t1 f /\
  F.excluded_spec (window_query lay t w b ex) f = false /\ F.passes (window_query lay t w b ex) f = true.
Proof.
  unfold tcand, F.selected, window_query, F.mkq. cbn [F.qstart F.qend].
  rewrite !andb_true_iff, negb_true_iff, Z.ltb_lt, Z.leb_le. tauto.
Qed.

(* the flat model of Model/C16_closest on a listing that describes the tree = the composed model *)
Theorem flat_is_tree_thm lay fs emb q w b t :
  tree_hyps lay fs -> window_ok lay t -> Forall (fun '(a, b) => a <= b) (q_xtimes q) ->
  agrees emb q (window_query lay t w b (q_xtimes q)) fs -> Forall file_ok (map emb fs) ->
  search (map emb fs) q (tree_period lay) t = t2o (tree_search lay fs w b (q_xtimes q) t).
Proof.
  intros Hh Hwin Hex Hag Hok.
  destruct (closest_end_to_end_thm lay fs w b (q_xtimes q) t Hh Hwin Hex) as (r & Hr & Hspec).
  rewrite Hr. replace (t2o match r with Some i => TFile i | None => TNone end) with r by (destruct r; reflexivity).
  apply search_first_in_order_thm.
  apply (first_spec_emb emb ft0 ft1 F.t0 F.t1 _ (tcand lay t w b (q_xtimes q))); [|exact Hspec].
  intros f Hin. destruct (Hag f Hin) as (E0 & E1 & Ep & Ee). split; [exact E0|]. split; [exact E1|].
  assert (Hfo : file_ok (emb f)).
  { rewrite Forall_forall in Hok. apply Hok. apply in_map. exact Hin. }
  rewrite (found_candb q (tree_period lay) t (emb f) Hfo).
  unfold candb, tcand, F.selected. rewrite Ep, Ee. unfold nearb, tree_period, window_query, window.
  destruct lay as [|c rest]; cbn [F.mkq F.qstart F.qend fst snd].
  - destruct Hfo as (H0 & H1 & H2). rewrite E0, E1 in *.
    replace (F.t0 f <? dt_max - 1) with true by lia. replace (0 <=? F.t1 f) with true by lia.
    cbn [andb]. destruct (F.passes _ f), (F.excluded_spec _ f); reflexivity.
  - rewrite E0, E1.
    destruct (F.t0 f <? t + F.lookback (c :: rest)), (t - F.lookback (c :: rest) <=? F.t1 f),
      (F.passes _ f), (F.excluded_spec _ f); reflexivity.
Qed.

(* ------------------------------------------------------------------ the period of a template = the look-back of its layout *)

Lemma finest_app l1 l2 : F.finest (l1 ++ l2) = fold_right (fun f r => F.finer (F.tf_res f) r) (F.finest l2) l1.
Proof. unfold F.finest. apply fold_right_app. Qed.

Lemma period_fields (l : list tfield) :
  forallb (fun f => negb (subsecond f)) l = true ->
  fold_right Z.min (366 * us_day) (map field_period l) = period (F.finest (flat_map std_field l)).
Proof.
  induction l as [|f l IH]; cbn [forallb map fold_right flat_map]; intros H.
  - reflexivity.
  - apply andb_true_iff in H. destruct H as [Hf Hl]. rewrite (IH Hl). clear IH.
    pose proof (FP.finest_rank (flat_map std_field l)) as Hr.
    rewrite finest_app.
    set (r := F.finest (flat_map std_field l)) in *. clearbody r.
    destruct f; cbn [subsecond negb] in Hf; try discriminate;
      destruct r; cbn [res_rank] in Hr; try lia; vm_compute; reflexivity.
Qed.

Theorem period_is_lookback_thm tp lay :
  fields_of_layout tp lay -> period_of tp = tree_period lay.
Proof.
  intros (Hf & Hnil & Hss). unfold period_of, tree_period.
  destruct (forallb is_lit (dir_part tp)) eqn:El.
  - assert (lay = []) by (apply Hnil; reflexivity). subst lay. reflexivity.
  - destruct lay as [|c rest].
    + exfalso. assert (Hx : false = true) by (apply Hnil; reflexivity). discriminate Hx.
    + f_equal. rewrite (period_fields _ Hss). unfold F.lookback. rewrite Hf. reflexivity.
Qed.

Lemma tf_eqb_eq a b : F.tf_eqb a b = true -> a = b.
Proof. unfold F.tf_eqb. destruct a, b; cbn; intros H; try reflexivity; discriminate. Qed.

Lemma tfl_eqb_eq a : forall b, tfl_eqb a b = true -> a = b.
Proof.
  unfold tfl_eqb. induction a as [|x a IH]; intros [|y b] H; cbn in H; try discriminate; [reflexivity|].
  apply andb_true_iff in H. destruct H as [Hn H]. apply andb_true_iff in H. destruct H as [Hxy H].
  apply tf_eqb_eq in Hxy. subst y. f_equal. apply IH. apply andb_true_iff. split; assumption.
Qed.

Theorem fields_of_layout_decided_thm tp lay : fields_of_layoutb tp lay = true -> fields_of_layout tp lay.
Proof.
  unfold fields_of_layoutb, fields_of_layout. intros H.
  apply andb_true_iff in H. destruct H as [H H3]. apply andb_true_iff in H. destruct H as [H1 H2].
  split; [apply tfl_eqb_eq; exact H1|]. split; [|exact H3].
  apply Bool.eqb_prop in H2. rewrite <- H2. destruct lay; split; intros; try reflexivity; discriminate.
Qed.

(* ------------------------------------------------------------------ edge cases of the window *)

(* the window is closed on the left and open on the right: a file ending exactly at t - P is a candidate, a file
   starting exactly at t + P is not *)
Theorem window_edges_thm c rest t w b ex f :
  let lay := c :: rest in let P := F.lookback lay in
  F.t0 f <= F.t1 f ->
  F.excluded_spec (window_query lay t w b ex) f = false -> F.passes (window_query lay t w b ex) f = true ->
  (F.t1 f = t - P -> tcand lay t w b ex f = true) /\
  (F.t0 f = t + P -> tcand lay t w b ex f = false) /\
  (F.t1 f < t - P -> tcand lay t w b ex f = false) /\
  (F.t0 f = t + P - 1 -> tcand lay t w b ex f = true).
Proof.
  intros lay P H01 He Hp.
  assert (HP : 0 < P) by (apply lookback_pos; discriminate).
  assert (Hiff := tcand_iff lay t w b ex f). rewrite He, Hp in Hiff.
  subst lay. cbn [window fst snd] in Hiff. fold P in Hiff. clearbody P.
  destruct (tcand (c :: rest) t w b ex f).
  - destruct (proj1 Hiff eq_refl) as (A1 & A2 & _). repeat split; intros E; try reflexivity; lia.
  - repeat split; intros E; try reflexivity; exfalso;
      assert (Hx : false = true) by (apply Hiff; repeat split; lia); discriminate Hx.
Qed.

(* a file that covers t is a candidate wherever its directory is (the previous directory, typically): together
   with closest_end_to_end, a covering file in a neighbouring directory is returned *)
Theorem covering_is_candidate_thm lay t w b ex f :
  window_ok lay t -> F.t0 f <= t <= F.t1 f ->
  F.excluded_spec (window_query lay t w b ex) f = false -> F.passes (window_query lay t w b ex) f = true ->
  tcand lay t w b ex f = true.
Proof.
  intros [Vt Hw] Hc He Hp. apply tcand_iff. unfold window. unfold valid in Vt.
  destruct lay as [|c rest]; cbn [fst snd].
  - repeat split; try assumption; lia.
  - assert (HP : 0 < F.lookback (c :: rest)) by (apply lookback_pos; discriminate).
    repeat split; try assumption; lia.
Qed.

(* fixed-length directory levels (day, hour, minute, second; P = the length of one directory): a file that lies
   two or more directories after the directory of t, or ends two or more directories before it, is outside the
   window -- however near it is compared with the other files, it is never returned *)
Theorem two_directories_away_thm c rest t w b ex f :
  let lay := c :: rest in let P := F.lookback lay in
  F.t0 f <= F.t1 f ->
  (dir_index P t + 2 <= dir_index P (F.t0 f) \/ dir_index P (F.t1 f) + 2 <= dir_index P t) ->
  tcand lay t w b ex f = false.
Proof.
  intros lay P H01 Hfar.
  assert (HP : 0 < P) by (apply lookback_pos; discriminate).
  destruct (tcand lay t w b ex f) eqn:E; [|reflexivity]. exfalso.
  apply tcand_iff in E. destruct E as (A1 & A2 & _).
  subst lay. cbn [window fst snd] in A1, A2. fold P in A1, A2. clearbody P.
  unfold dir_index in Hfar.
  assert (Ht := Z.div_mod t P ltac:(lia)). assert (Hr := Z.mod_pos_bound t P HP).
  assert (H0 := Z.div_mod (F.t0 f) P ltac:(lia)). assert (Hr0 := Z.mod_pos_bound (F.t0 f) P HP).
  assert (H1 := Z.div_mod (F.t1 f) P ltac:(lia)). assert (Hr1 := Z.mod_pos_bound (F.t1 f) P HP).
  destruct Hfar as [Hfar|Hfar]; nia.
Qed.

(* hence absence: when every file that passes is that far away, nothing is returned *)
Theorem far_files_absent_thm lay fs w b ex t :
  tree_hyps lay fs -> window_ok lay t -> Forall (fun '(a, b) => a <= b) ex ->
  (forall f, In f fs -> tcand lay t w b ex f = false) ->
  tree_search lay fs w b ex t = TNone.
Proof.
  intros Hh Hwin Hex Hno.
  destruct (closest_end_to_end_thm lay fs w b ex t Hh Hwin Hex) as (r & Hr & Hspec).
  destruct r as [i|]; [|exact Hr]. exfalso. destruct Hspec as (g & Hn & Hs & _).
  apply nth_error_In in Hn. rewrite (Hno g Hn) in Hs. discriminate.
Qed.

(* the directories matter through their period only: two layouts of the same period (both inside C01's hypotheses
   for the tree) give the same answer -- in particular nothing changes when t sits exactly on a directory boundary *)
Theorem layout_matters_through_period_thm lay1 lay2 fs w b ex t :
  tree_hyps lay1 fs -> tree_hyps lay2 fs -> window_ok lay1 t -> window_ok lay2 t ->
  Forall (fun '(a, b) => a <= b) ex -> tree_period lay1 = tree_period lay2 ->
  tree_search lay1 fs w b ex t = tree_search lay2 fs w b ex t.
Proof.
  intros H1 H2 W1 W2 Hex HP.
  destruct (closest_end_to_end_thm lay1 fs w b ex t H1 W1 Hex) as (r1 & E1 & S1).
  destruct (closest_end_to_end_thm lay2 fs w b ex t H2 W2 Hex) as (r2 & E2 & S2).
  rewrite E1, E2.
  assert (Hw : window lay1 t = window lay2 t).
  { unfold window. unfold tree_period in HP. destruct lay1 as [|c1 l1], lay2 as [|c2 l2]; try discriminate; [reflexivity|].
    assert (HL : F.lookback (c1 :: l1) = F.lookback (c2 :: l2)) by congruence. rewrite HL. reflexivity. }
  assert (Hc : forall f, tcand lay1 t w b ex f = tcand lay2 t w b ex f).
  { intros f. unfold tcand, window_query. rewrite Hw. reflexivity. }
  assert (S1' : FirstSpec F.t0 F.t1 (tcand lay2 t w b ex) t fs r1).
  { apply (first_spec_ext F.t0 F.t1 _ (tcand lay1 t w b ex)); [|exact S1]. intros f _. symmetry. apply Hc. }
  rewrite (first_unique F.t0 F.t1 _ t fs r1 r2 S1' S2). reflexivity.
Qed.

(* ------------------------------------------------------------------ the whole of find_closest on the tree *)

Lemma first_to_tree lay fs w b ex t r :
  FirstSpec F.t0 F.t1 (tcand lay t w b ex) t fs r -> TreeSpec lay fs w b ex t r.
Proof.
  destruct r as [i|]; [|intros H; exact H].
  intros H. destruct (first_covering_or_nearest F.t0 F.t1 _ t fs i H) as (g & Hn & Hs & Hc & Hm).
  exists g. split; [exact Hn|]. split; [exact Hs|]. split; [exact Hc|exact Hm].
Qed.

Theorem tree_closest_end_to_end_thm lay fs exact filtered w b ex t :
  tree_hyps lay fs -> window_ok lay t -> Forall (fun '(a, b) => a <= b) ex ->
  (filtered = false -> w = [] /\ b = []) ->
  (forall i f, exact = Some i -> nth_error fs i = Some f -> F.t0 f <= t <= F.t1 f) ->
  exists r, tree_closest lay fs exact filtered w b ex t = o2t r /\ TreeSpec lay fs w b ex t r.
Proof.
  intros Hh Hwin Hex Hfilt Hname.
  destruct (closest_end_to_end_thm lay fs w b ex t Hh Hwin Hex) as (r & Hr & Hspec).
  apply first_to_tree in Hspec.
  unfold tree_closest.
  destruct exact as [i|]; [|exists r; split; assumption].
  destruct (nth_error fs i) as [f|] eqn:En; [|exists r; split; assumption].
  destruct (negb filtered && negb (F.excluded_model (window_query lay t w b ex) f)) eqn:Eb;
    [|exists r; split; assumption].
  apply andb_true_iff in Eb. destruct Eb as [Hf He]. apply negb_true_iff in Hf, He.
  destruct (Hfilt Hf) as [-> ->].
  rewrite (FP.excluded_model_spec _ f) in He by exact Hex.
  assert (Hcov : F.t0 f <= t <= F.t1 f) by (eapply Hname; [reflexivity|exact En]).
  assert (Hcand : tcand lay t [] [] ex f = true).
  { apply covering_is_candidate_thm; [exact Hwin|exact Hcov|exact He|reflexivity]. }
  assert (Hg : gcov F.t0 F.t1 t f = true) by (unfold gcov; lia).
  exists (Some i). split; [reflexivity|]. exists f. split; [exact En|]. split; [exact Hcand|]. split.
  - intros _. exact Hg.
  - intros Hno. pose proof (nth_error_In _ _ En) as Hin. rewrite (Hno f Hin Hcand) in Hg. discriminate.
Qed.

(* the model of Model/C16_closest (names, short cut through C02's render, flat search) on a listing that describes
   the tree IS the composed model *)
Theorem composed_is_flat_thm tp fill lay fs emb q w b t :
  fields_of_layout tp lay -> tree_hyps lay fs -> window_ok lay t -> Forall (fun '(a, b) => a <= b) (q_xtimes q) ->
  agrees emb q (window_query lay t w b (q_xtimes q)) fs -> Forall file_ok (map emb fs) ->
  closest_model tp fill (map emb fs) q t =
  t2o (tree_closest lay fs (exact_name tp fill (map emb fs) t) (q_filtered q) w b (q_xtimes q) t).
Proof.
  intros Hlay Hh Hwin Hex Hag Hok. unfold closest_model, tree_closest.
  rewrite (period_is_lookback_thm tp lay Hlay).
  rewrite (flat_is_tree_thm lay fs emb q w b t Hh Hwin Hex Hag Hok).
  destruct (exact_name tp fill (map emb fs) t) as [i|]; [|reflexivity].
  rewrite nth_error_map. destruct (nth_error fs i) as [f|] eqn:En; cbn [option_map]; [|reflexivity].
  pose proof (nth_error_In _ _ En) as Hin. destruct (Hag f Hin) as (_ & _ & _ & Ee).
  rewrite Ee. rewrite (FP.excluded_model_spec _ f) by exact Hex.
  destruct (negb (q_filtered q) && negb (F.excluded_spec (window_query lay t w b (q_xtimes q)) f)); reflexivity.
Qed.

(* ------------------------------------------------------------------ fileset[...] *)

Section GetItemProofs.
  Variable parse : str -> Z.
  Context {R : Type}.
  Variable closest : Z -> option filters -> option R.
  Notation getitem := (getitem parse closest).

  Lemma getitem_datetime_lemma t : getitem (PDatetime t) = of_closest (closest t None).
  Proof. reflexivity. Qed.
  Lemma getitem_str_lemma s : getitem (PStr s) = of_closest (closest (parse s) None).
  Proof. reflexivity. Qed.
  Lemma getitem_seq_datetime_lemma t f rest :
    getitem (PSeq (PDatetime t :: PFilters f :: rest)) = of_closest (closest t (Some f)).
  Proof. reflexivity. Qed.
  Lemma getitem_seq_str_lemma s f rest :
    getitem (PSeq (PStr s :: PFilters f :: rest)) = of_closest (closest (parse s) (Some f)).
  Proof. reflexivity. Qed.
  Lemma getitem_seq_none_lemma t rest : getitem (PSeq (PDatetime t :: PNone :: rest)) = of_closest (closest t None).
  Proof. reflexivity. Qed.

  (* whatever is indexed with: a file is read only if find_closest names it for the timestamp and the filters the
     item designates; None comes from find_closest's None or from an item that is no timestamp *)
  Lemma getitem_reads_closest_lemma item r :
    getitem item = ORead r ->
    exists t f, closest t f = Some r /\
      ((item = PDatetime t /\ f = None) \/ (exists s, item = PStr s /\ t = parse s /\ f = None) \/
       (exists ta fl rest, item = PSeq (ta :: fl :: rest) /\ as_filters fl = Some f /\
                           (ta = PDatetime t \/ exists s, ta = PStr s /\ t = parse s))).
  Proof.
    unfold C16_tree.getitem. destruct item as [| s | t | | f | items | ]; cbn [split_item as_filters of_closest];
      try discriminate.
    - destruct (closest (parse s) None) as [x|] eqn:E; cbn [of_closest]; [|discriminate].
      intros H. inversion H; subst. exists (parse s), None. split; [exact E|]. right. left. exists s. tauto.
    - destruct (closest t None) as [x|] eqn:E; cbn [of_closest]; [|discriminate].
      intros H. inversion H; subst. exists t, None. split; [exact E|]. left. tauto.
    - destruct items as [|ta [|fl rest]]; try discriminate.
      destruct ta as [| s | t | | f' | items' | ]; try discriminate.
      + destruct (as_filters fl) as [f|] eqn:Ef; [|discriminate].
        destruct (closest (parse s) f) as [x|] eqn:E; cbn [of_closest]; [|discriminate].
        intros H. inversion H; subst. exists (parse s), f. split; [exact E|]. right. right.
        exists (PStr s), fl, rest. split; [reflexivity|]. split; [exact Ef|]. right. exists s. tauto.
      + destruct (as_filters fl) as [f|] eqn:Ef; [|discriminate].
        destruct (closest t f) as [x|] eqn:E; cbn [of_closest]; [|discriminate].
        intros H. inversion H; subst. exists t, f. split; [exact E|]. right. right.
        exists (PDatetime t), fl, rest. split; [reflexivity|]. split; [exact Ef|]. left. reflexivity.
  Qed.
End GetItemProofs.

(* fileset[t] / fileset[t, filters] with the model of find_closest: the answer meets the property's specification
   for the configured exclusions and the filters given in the item *)
Theorem getitem_meets_spec_thm parse tp fill fs xn xt item :
  Forall file_ok fs -> (forall t, name_hyp tp fill fs t) ->
  match getitem parse (closest_call tp fill fs xn xt) item with
  | ORead i => exists t f, ClosestSpec fs (with_filters xn xt f) (period_of tp) t (Some i)
  | _ => True
  end.
Proof.
  intros Hok Hname.
  destruct (getitem parse (closest_call tp fill fs xn xt) item) as [i| | | |] eqn:E; try exact I.
  apply getitem_reads_closest_lemma in E. destruct E as (t & f & Hc & _). exists t, f.
  unfold closest_call in Hc. rewrite <- Hc. apply model_meets_spec_thm; [exact Hok|apply Hname].
Qed.

(* ================================================================== several filter entries at once *)

Lemma forallb_perm {A} (p : A -> bool) l l' : Permutation l l' -> forallb p l = forallb p l'.
Proof.
  induction 1 as [|x l l' _ IH|x y l|l l' l'' _ IH1 _ IH2]; cbn.
  - reflexivity.
  - rewrite IH; reflexivity.
  - destruct (p x), (p y); reflexivity.
  - rewrite IH1; exact IH2.
Qed.

Lemma perm_filter {A} (p : A -> bool) l l' : Permutation l l' -> Permutation (filter p l) (filter p l').
Proof.
  induction 1 as [|x l l' _ IH|x y l|l l' l'' _ IH1 _ IH2]; cbn.
  - constructor.
  - destruct (p x); [constructor|]; exact IH.
  - destruct (p x), (p y); try apply Permutation_refl. apply perm_swap.
  - eapply Permutation_trans; eassumption.
Qed.

Lemma split_dict_perm d d' : Permutation d d' ->
  Permutation (fst (split_dict d)) (fst (split_dict d')) /\ Permutation (snd (split_dict d)) (snd (split_dict d')).
Proof. intros H. split; cbn; apply Permutation_map, perm_filter, H. Qed.

(* white and black lists of the split dict, entry by entry *)
Lemma wb_entries a d :
  forallb (white_ok a) (fst (split_dict d)) && forallb (black_ok a) (snd (split_dict d)) = forallb (entry_ok a) d.
Proof.
  induction d as [|[[neg k] vs] d IH]; [reflexivity|].
  unfold split_dict in *. cbn [fst snd filter entry_neg map forallb] in *.
  unfold entry_ok at 1. cbn [entry_neg fst snd].
  destruct neg; cbn [negb filter map forallb fst snd]; rewrite <- IH.
  - destruct (black_ok a (entry_list (true, k, vs))); [rewrite andb_true_l; reflexivity|].
    rewrite andb_false_l, andb_false_r. reflexivity.
  - rewrite andb_assoc. reflexivity.
Qed.

Lemma passes_dict d xn xt f : passes (dict_query d xn xt) f = forallb (entry_ok (fattrs f)) d.
Proof. unfold passes, dict_query, with_filters. destruct (split_dict d) as [w b] eqn:E. cbn [q_filtered q_white q_black negb orb].
  rewrite <- wb_entries, E. reflexivity. Qed.

(* a file is a candidate iff it lies in the neighbourhood, is not excluded and EVERY entry of the dict lets it pass *)
Theorem all_filters_apply_thm fs d xn xt P t f :
  candidate fs (dict_query d xn xt) P t f <->
  In f fs /\ near P t f /\ excluded (dict_query d xn xt) f = false /\
  forall e, In e d -> entry_ok (fattrs f) e = true.
Proof.
  unfold candidate. rewrite passes_dict, forallb_forall. tauto.
Qed.

(* the general form: white lists and black lists, whichever way they were obtained *)
Theorem passes_all_thm q f :
  passes q f = true <->
  (q_filtered q = true ->
   (forall w, In w (q_white q) -> white_ok (fattrs f) w = true) /\
   (forall b, In b (q_black q) -> black_ok (fattrs f) b = true)).
Proof.
  unfold passes. destruct (q_filtered q); cbn [negb orb].
  - rewrite andb_true_iff, !forallb_forall. split; [intros H _; exact H|intros H; apply H; reflexivity].
  - split; [intros _ H; discriminate H|reflexivity].
Qed.

(* the order of the entries is irrelevant: to the verdict on every file, to what the checker accepts, to the specification
   and to the answer of the model *)
Lemma same_verdicts q q' :
  q_filtered q = q_filtered q' -> q_xnames q = q_xnames q' -> q_xtimes q = q_xtimes q' ->
  (forall f, passes q f = passes q' f) ->
  (forall fs P t r, closest_ok fs q P t r = closest_ok fs q' P t r) /\
  (forall tp fill fs t, closest_model tp fill fs q t = closest_model tp fill fs q' t).
Proof.
  intros Hf Hn Ht Hp.
  assert (Ex : forall f, excluded q f = excluded q' f) by (intros f; unfold excluded; rewrite Hn, Ht; reflexivity).
  split.
  - intros fs P t r.
    assert (E : forall f, candb q P t f = candb q' P t f) by (intros f; unfold candb; rewrite Hp, Ex; reflexivity).
    unfold closest_ok. rewrite (filter_ext _ _ E).
    destruct r as [i|]; [|reflexivity]. destruct (nth_error fs i) as [g|]; [|reflexivity]. rewrite E.
    destruct (existsb (coversb t) (filter (candb q' P t) fs)); reflexivity.
  - intros tp fill fs t.
    assert (E : forall P f, found q P t f = found q' P t f) by (intros P f; unfold found; rewrite Hp, Ex; reflexivity).
    assert (S : forall P, search fs q P t = search fs q' P t).
    { intros P. unfold search. rewrite (filter_ext _ _ (fun p => E P (snd p))). reflexivity. }
    unfold closest_model. rewrite S, Hf.
    destruct (exact_name tp fill fs t) as [i|]; [|reflexivity].
    destruct (nth_error fs i) as [g|]; [|reflexivity]. rewrite Ex. reflexivity.
Qed.

Theorem filter_order_irrelevant_thm flt w w' b b' xn xt :
  Permutation w w' -> Permutation b b' ->
  let q := Query flt w b xn xt in let q' := Query flt w' b' xn xt in
  (forall f, passes q f = passes q' f) /\
  (forall fs P t r, closest_ok fs q P t r = closest_ok fs q' P t r) /\
  (forall fs P t r, ClosestSpec fs q P t r <-> ClosestSpec fs q' P t r) /\
  (forall tp fill fs t, closest_model tp fill fs q t = closest_model tp fill fs q' t).
Proof.
  intros Hw Hb q q'.
  assert (Hp : forall f, passes q f = passes q' f).
  { intros f. unfold passes, q, q'. cbn [q_filtered q_white q_black].
    rewrite (forallb_perm _ _ _ Hw), (forallb_perm _ _ _ Hb). reflexivity. }
  destruct (same_verdicts q q' eq_refl eq_refl eq_refl Hp) as [Hc Hm].
  split; [exact Hp|]. split; [exact Hc|]. split; [|exact Hm].
  intros fs P t r. rewrite <- !closest_ok_iff_spec_thm, Hc. tauto.
Qed.

Theorem dict_order_irrelevant_thm d d' xn xt :
  Permutation d d' ->
  (forall f, passes (dict_query d xn xt) f = passes (dict_query d' xn xt) f) /\
  (forall fs P t r, ClosestSpec fs (dict_query d xn xt) P t r <-> ClosestSpec fs (dict_query d' xn xt) P t r) /\
  (forall tp fill fs t, closest_model tp fill fs (dict_query d xn xt) t = closest_model tp fill fs (dict_query d' xn xt) t).
Proof.
  intros H. destruct (split_dict_perm d d' H) as [Hw Hb].
  unfold dict_query, with_filters.
  destruct (split_dict d) as [w b], (split_dict d') as [w' b']. cbn [fst snd] in Hw, Hb.
  destruct (filter_order_irrelevant_thm true w w' b b' xn xt Hw Hb) as (H1 & _ & H3 & H4).
  split; [exact H1|]. split; [exact H3|exact H4].
Qed.

(* ---- the same on the tree (C01's vocabulary) *)
Lemma zwhite d f : F.white_ok (fst (zsplit d)) f = forallb (fun e => fst (fst e) || zentry_ok f e) d.
Proof.
  induction d as [|[[neg p] vs] d IH]; [reflexivity|].
  unfold zsplit, F.white_ok in *. cbn [fst snd filter map forallb] in *.
  destruct neg; cbn [negb orb filter map forallb fst snd]; [exact IH|].
  rewrite IH. unfold zentry_ok at 2. destruct (F.lookup p (F.attrs f)); reflexivity.
Qed.
Lemma zblack d f : F.black_ok (snd (zsplit d)) f = forallb (fun e => negb (fst (fst e)) || zentry_ok f e) d.
Proof.
  induction d as [|[[neg p] vs] d IH]; [reflexivity|].
  unfold zsplit, F.black_ok in *. cbn [fst snd filter map forallb] in *.
  destruct neg; cbn [negb orb filter map forallb fst snd]; [|exact IH].
  rewrite IH. unfold zentry_ok at 2. destruct (F.lookup p (F.attrs f)); reflexivity.
Qed.
Lemma zpasses lay t d ex f :
  F.passes (window_query lay t (fst (zsplit d)) (snd (zsplit d)) ex) f = forallb (zentry_ok f) d.
Proof.
  unfold F.passes, window_query, F.mkq. cbn [F.white F.black]. rewrite zwhite, zblack.
  induction d as [|[[neg p] vs] d IH]; [reflexivity|]. cbn [forallb fst snd]. rewrite <- IH.
  destruct neg; cbn [negb orb]; destruct (zentry_ok f (_, p, vs)); cbn [andb]; try reflexivity;
    rewrite ?andb_false_r, ?andb_true_r; reflexivity.
Qed.

Theorem tree_all_filters_apply_thm lay t d ex f :
  let w := fst (zsplit d) in let b := snd (zsplit d) in
  tcand lay t w b ex f = true <->
  F.t0 f < snd (window lay t) /\ fst (window lay t) <= F.t1 f /\
  F.excluded_spec (window_query lay t w b ex) f = false /\ forall e, In e d -> zentry_ok f e = true.
Proof.
  cbv zeta. rewrite tcand_iff, zpasses, forallb_forall. tauto.
Qed.

Lemma found_perm lay t w w' b b' ex f :
  Permutation w w' -> Permutation b b' ->
  F.found false lay (window_query lay t w b ex) f = F.found false lay (window_query lay t w' b' ex) f.
Proof.
  intros Hw Hb. unfold F.found, window_query, F.mkq, F.excluded_model. cbn [F.white F.black F.qstart F.qend F.excl].
  unfold F.white_ok, F.black_ok. rewrite (forallb_perm _ _ _ Hw), (forallb_perm _ _ _ Hb). reflexivity.
Qed.

Theorem tree_filter_order_irrelevant_thm lay fs exact filtered w w' b b' ex t :
  Permutation w w' -> Permutation b b' ->
  tree_closest lay fs exact filtered w b ex t = tree_closest lay fs exact filtered w' b' ex t /\
  forall f, tcand lay t w b ex f = tcand lay t w' b' ex f.
Proof.
  intros Hw Hb. split.
  - assert (S : tree_search lay fs w b ex t = tree_search lay fs w' b' ex t).
    { unfold tree_search. cbv zeta.
      replace (F.qend (window_query lay t w' b' ex)) with (F.qend (window_query lay t w b ex)) by reflexivity.
      replace (F.qstart (window_query lay t w' b' ex)) with (F.qstart (window_query lay t w b ex)) by reflexivity.
      unfold gsearch.
      rewrite (filter_ext _ _ (fun p => found_perm lay t w w' b b' ex (snd p) Hw Hb)). reflexivity. }
    unfold tree_closest. cbv zeta. rewrite S.
    destruct exact as [i|]; [|reflexivity]. destruct (nth_error fs i) as [g|]; [|reflexivity].
    replace (F.excluded_model (window_query lay t w' b' ex) g) with (F.excluded_model (window_query lay t w b ex) g)
      by reflexivity.
    reflexivity.
  - intros f. unfold tcand, F.selected, F.passes, window_query, F.mkq, F.excluded_spec.
    cbn [F.white F.black F.qstart F.qend F.excl]. unfold F.white_ok, F.black_ok.
    rewrite (forallb_perm _ _ _ Hw), (forallb_perm _ _ _ Hb). reflexivity.
Qed.

(* ---- the two vocabularies: string placeholders / values (flat listing) and numbered ones (C01's model).  For every
   numbering that is injective on the placeholder names in play and, per placeholder, on its values, and values of
   which none is a proper prefix of another (black lists are prefix matches in the code, re.match), a dict of entries
   and its numbered image give every file the same verdict: the `passes` part of `agrees` holds by construction *)
Lemma is_prefix_refl p : is_prefix p p = true.
Proof. induction p as [|a p IH]; [reflexivity|]. cbn. rewrite Ascii.eqb_refl. exact IH. Qed.

Section Encode.
  Variables (kc : str -> Z) (vc : str -> str -> Z) (K : str -> Prop) (V : str -> str -> Prop).
  Hypothesis kc_inj : forall x y, K x -> K y -> kc x = kc y -> x = y.
  Hypothesis vc_inj : forall k x y, V k x -> V k y -> vc k x = vc k y -> x = y.
  Hypothesis pfree : forall k p v, V k p -> V k v -> is_prefix p v = true -> p = v.

  Definition enc_attrs (a : list (str * str)) : list (Z * Z) := map (fun kv => (kc (fst kv), vc (fst kv) (snd kv))) a.
  Definition enc_entry (e : fentry) : zentry := (entry_neg e, kc (snd (fst e)), map (vc (snd (fst e))) (snd e)).
  Definition attrs_known (a : list (str * str)) : Prop := Forall (fun kv => K (fst kv) /\ V (fst kv) (snd kv)) a.
  Definition entry_known (e : fentry) : Prop := K (snd (fst e)) /\ Forall (V (snd (fst e))) (snd e).

  Lemma lookup_enc a k : attrs_known a -> K k ->
    F.lookup (kc k) (enc_attrs a) = option_map (vc k) (alookup k a) /\
    (forall v, alookup k a = Some v -> V k v).
  Proof.
    intros Ha Hk. induction Ha as [|[k' v] a [Hk' Hv] _ IH]; [split; [reflexivity|discriminate]|].
    cbn [enc_attrs map F.lookup alookup fst snd] in *.
    destruct (str_eqb k k') eqn:E.
    - apply str_eqb_eq in E. subst k'. rewrite Z.eqb_refl. split; [reflexivity|].
      intros v0 H0. injection H0 as <-. exact Hv.
    - destruct (kc k' =? kc k) eqn:E2; [|exact IH].
      apply Z.eqb_eq in E2. apply kc_inj in E2; [|exact Hk'|exact Hk]. subst k'.
      rewrite str_eqb_refl in E. discriminate E.
  Qed.

  Lemma mem_enc k v vs : V k v -> Forall (V k) vs ->
    F.memz (vc k v) (map (vc k) vs) = existsb (str_eqb v) vs /\
    F.memz (vc k v) (map (vc k) vs) = existsb (fun p => is_prefix p v) vs.
  Proof.
    intros Hv Hvs. induction Hvs as [|x vs Hx _ [IH1 IH2]]; [split; reflexivity|].
    unfold F.memz in *. cbn [map existsb]. rewrite IH1. split.
    - f_equal. destruct (str_eqb v x) eqn:E.
      + apply str_eqb_eq in E. subst x. apply Z.eqb_refl.
      + destruct (vc k v =? vc k x) eqn:E2; [|reflexivity].
        apply Z.eqb_eq in E2. apply vc_inj in E2; [|exact Hv|exact Hx]. subst x.
        rewrite str_eqb_refl in E. discriminate E.
    - rewrite <- IH2, IH1. f_equal. destruct (is_prefix x v) eqn:E.
      + apply (pfree k) in E; [|exact Hx|exact Hv]. subst x. apply Z.eqb_refl.
      + destruct (vc k v =? vc k x) eqn:E2; [|reflexivity].
        apply Z.eqb_eq in E2. apply vc_inj in E2; [|exact Hv|exact Hx]. subst x.
        rewrite is_prefix_refl in E. discriminate E.
  Qed.

  Lemma entry_enc a e f : F.attrs f = enc_attrs a -> attrs_known a -> entry_known e ->
    zentry_ok f (enc_entry e) = entry_ok a e.
  Proof.
    intros Hf Ha [Hk Hvs]. destruct e as [[neg k] vs]. cbn [fst snd] in Hk, Hvs.
    unfold zentry_ok, enc_entry, entry_ok, entry_neg, entry_list, white_ok, black_ok. cbn [fst snd].
    rewrite Hf. destruct (lookup_enc a k Ha Hk) as [-> Hv].
    destruct (alookup k a) as [v|]; cbn [option_map]; [|destruct neg; reflexivity].
    destruct (mem_enc k v vs (Hv v eq_refl) Hvs) as [M1 M2].
    destruct neg; [rewrite M2|rewrite M1]; reflexivity.
  Qed.

  Theorem encoded_filters_agree_thm d xn xt lay t ex g f :
    F.attrs f = enc_attrs (fattrs g) -> attrs_known (fattrs g) -> Forall entry_known d ->
    passes (dict_query d xn xt) g =
    F.passes (window_query lay t (fst (zsplit (map enc_entry d))) (snd (zsplit (map enc_entry d))) ex) f.
  Proof.
    intros Hf Ha Hd. rewrite passes_dict, zpasses.
    induction Hd as [|e d He _ IH]; [reflexivity|].
    cbn [map forallb]. rewrite IH, (entry_enc _ _ _ Hf Ha He). reflexivity.
  Qed.
End Encode.

(* the composition with C01's find for a dict of several entries: the flat model under the dict = the composed tree model
   under the numbered white / black lists, for every numbering as above *)
Theorem dict_composed_is_flat_thm (kc : str -> Z) (vc : str -> str -> Z) (K : str -> Prop) (V : str -> str -> Prop)
  tp fill lay fs emb d xn xt t :
  (forall x y, K x -> K y -> kc x = kc y -> x = y) ->
  (forall k x y, V k x -> V k y -> vc k x = vc k y -> x = y) ->
  (forall k p v, V k p -> V k v -> is_prefix p v = true -> p = v) ->
  let zd := map (enc_entry kc vc) d in
  let w := fst (zsplit zd) in let b := snd (zsplit zd) in
  fields_of_layout tp lay -> tree_hyps lay fs -> window_ok lay t -> Forall (fun '(a, b) => a <= b) xt ->
  (forall f, In f fs ->
     ft0 (emb f) = F.t0 f /\ ft1 (emb f) = F.t1 f /\
     F.attrs f = enc_attrs kc vc (fattrs (emb f)) /\ attrs_known K V (fattrs (emb f)) /\
     excluded (dict_query d xn xt) (emb f) = F.excluded_spec (window_query lay t w b xt) f) ->
  Forall (entry_known K V) d -> Forall file_ok (map emb fs) ->
  closest_model tp fill (map emb fs) (dict_query d xn xt) t =
  t2o (tree_closest lay fs (exact_name tp fill (map emb fs) t) true w b xt t).
Proof.
  intros Hk Hv Hp zd w b Hl Ht Hw Hx Hf Hd Hok.
  apply (composed_is_flat_thm tp fill lay fs emb (dict_query d xn xt) w b t Hl Ht Hw Hx); [|exact Hok].
  intros f Hin. destruct (Hf f Hin) as (H0 & H1 & Ha & Hkn & He).
  split; [exact H0|]. split; [exact H1|]. split; [|exact He].
  exact (encoded_filters_agree_thm kc vc K V Hk Hv Hp d xn xt lay t xt (emb f) f Ha Hkn Hd).
Qed.

(* ---- the numbering by positions meets the hypotheses of encoded_filters_agree *)
Lemma pos_nonneg v l : 0 <= pos v l.
Proof. induction l as [|x l IH]; cbn [pos]; [lia|]. destruct (str_eqb v x); lia. Qed.

Lemma str_eqb_neq a b : str_eqb a b = false -> a <> b.
Proof. intros E ->. rewrite str_eqb_refl in E. discriminate E. Qed.

Lemma pos_inj l x y : In x l -> pos x l = pos y l -> x = y.
Proof.
  induction l as [|a l IH]; intros Hx E; [destruct Hx|]. cbn [pos] in E.
  destruct (str_eqb x a) eqn:Ex, (str_eqb y a) eqn:Ey.
  - apply str_eqb_eq in Ex, Ey. congruence.
  - pose proof (pos_nonneg y l). lia.
  - pose proof (pos_nonneg x l). lia.
  - apply IH; [|lia]. destruct Hx as [->|Hx]; [|exact Hx]. rewrite str_eqb_refl in Ex. discriminate Ex.
Qed.

Lemma prefix_free_spec vs : prefix_free vs = true ->
  forall p v, In p vs -> In v vs -> is_prefix p v = true -> p = v.
Proof.
  induction vs as [|a vs IH]; intros H p v Hp Hv E; [destruct Hp|].
  cbn [prefix_free] in H. apply andb_true_iff in H. destruct H as [Ha Hr]. rewrite forallb_forall in Ha.
  destruct Hp as [<-|Hp], Hv as [<-|Hv].
  - reflexivity.
  - specialize (Ha v Hv). rewrite E in Ha. discriminate Ha.
  - specialize (Ha p Hp). rewrite E, andb_false_r in Ha. discriminate Ha.
  - exact (IH Hr p v Hp Hv E).
Qed.

Theorem pool_numbering_ok_thm ps : pools_ok ps = true ->
  (forall x y, pool_K ps x -> pool_K ps y -> pool_kc ps x = pool_kc ps y -> x = y) /\
  (forall k x y, pool_V ps k x -> pool_V ps k y -> pool_vc ps k x = pool_vc ps k y -> x = y) /\
  (forall k p v, pool_V ps k p -> pool_V ps k v -> is_prefix p v = true -> p = v).
Proof.
  intros H. split; [|split].
  - intros x y Hx _ E. exact (pos_inj _ x y Hx E).
  - intros k x y Hx _ E. exact (pos_inj _ x y Hx E).
  - intros k p v Hp Hv E. unfold pool_V, pool_of in *.
    destruct (find (fun p0 => str_eqb k (fst p0)) ps) as [pl|] eqn:Ef; [|destruct Hp].
    apply find_some in Ef. destruct Ef as [Hin _].
    unfold pools_ok in H. rewrite forallb_forall in H.
    exact (prefix_free_spec _ (H pl Hin) p v Hp Hv E).
Qed.
