(* C14 -- the trapezoidal rule of integrate_column: linearity, additivity at grid indices, reversal, unit spacing,
   sign, lanes of an array of any rank, and the Riemann integral of the piecewise-linear interpolant. *)
From Coq Require Import Reals List Lra Lia.
From Coquelicot Require Import Coquelicot.
From Typhon Require Import Model.C14_column Model.C14_rint.
Import ListNotations.
Open Scope R_scope.

Lemma trapz_cons2 y0 y1 ys x0 x1 xs :
  trapz (y0 :: y1 :: ys) (x0 :: x1 :: xs) = (x1 - x0) * (y1 + y0) / 2 + trapz (y1 :: ys) (x1 :: xs).
Proof. reflexivity. Qed.
Lemma trapz_single_l y xs : trapz [y] xs = 0.
Proof. destruct xs as [|x0 [|x1 xs]]; reflexivity. Qed.
Lemma trapz_single_r ys x : trapz ys [x] = 0.
Proof. destruct ys as [|y0 [|y1 ys]]; reflexivity. Qed.
Lemma trapz_nil_r ys : trapz ys [] = 0.
Proof. destruct ys as [|y0 [|y1 ys]]; reflexivity. Qed.

(* ---- linear in y *)
Lemma trapz_linear c d : forall ys zs xs, length ys = length xs -> length zs = length xs ->
  trapz (zip2 (fun a b => c * a + d * b) ys zs) xs = c * trapz ys xs + d * trapz zs xs.
Proof.
  induction ys as [|y0 ys IH]; intros zs xs Hy Hz.
  - destruct xs; [|discriminate]. destruct zs; [|discriminate]. cbn [zip2 trapz]. lra.
  - destruct xs as [|x0 xs]; [discriminate|]. destruct zs as [|z0 zs]; [discriminate|].
    cbn [length] in Hy, Hz. injection Hy as Hy. injection Hz as Hz.
    destruct ys as [|y1 ys].
    + destruct xs; [|discriminate]. destruct zs; [|discriminate]. cbn [zip2 trapz]. lra.
    + destruct xs as [|x1 xs]; [discriminate|]. destruct zs as [|z1 zs]; [discriminate|].
      specialize (IH (z1 :: zs) (x1 :: xs) Hy Hz).
      cbn [zip2] in IH |- *. rewrite !trapz_cons2. rewrite IH. lra.
Qed.

Lemma trapz_scale c ys : forall xs, trapz (map (Rmult c) ys) xs = c * trapz ys xs.
Proof.
  induction ys as [|y0 ys IH]; intros xs.
  - cbn [map trapz]. lra.
  - destruct ys as [|y1 ys].
    + cbn [map]. rewrite !trapz_single_l. lra.
    + destruct xs as [|x0 [|x1 xs]].
      * cbn [map]. rewrite !trapz_nil_r. lra.
      * rewrite !trapz_single_r. lra.
      * specialize (IH (x1 :: xs)). cbn [map] in IH |- *. rewrite !trapz_cons2, IH. lra.
Qed.

(* ---- additive when the range is split at a grid index *)
Lemma trapz_split : forall k ys xs, length ys = length xs -> (k < length ys)%nat ->
  trapz ys xs = trapz (firstn (S k) ys) (firstn (S k) xs) + trapz (skipn k ys) (skipn k xs).
Proof.
  induction k as [|k IH]; intros ys xs Hl Hk.
  - destruct ys as [|y0 ys]; [cbn in Hk; lia|]. destruct xs as [|x0 xs]; [discriminate|].
    cbn [firstn skipn]. rewrite trapz_single_l. lra.
  - destruct ys as [|y0 ys]; [cbn in Hk; lia|]. destruct xs as [|x0 xs]; [discriminate|].
    cbn [length] in Hl, Hk. injection Hl as Hl.
    destruct ys as [|y1 ys]; [cbn in Hk; lia|]. destruct xs as [|x1 xs]; [discriminate|].
    assert (Hk' : (k < length (y1 :: ys))%nat) by lia.
    specialize (IH (y1 :: ys) (x1 :: xs) Hl Hk').
    change (firstn (S (S k)) (y0 :: y1 :: ys)) with (y0 :: y1 :: firstn k ys).
    change (firstn (S (S k)) (x0 :: x1 :: xs)) with (x0 :: x1 :: firstn k xs).
    change (firstn (S k) (y1 :: ys)) with (y1 :: firstn k ys) in IH.
    change (firstn (S k) (x1 :: xs)) with (x1 :: firstn k xs) in IH.
    change (skipn (S k) (y0 :: y1 :: ys)) with (skipn k (y1 :: ys)).
    change (skipn (S k) (x0 :: x1 :: xs)) with (skipn k (x1 :: xs)).
    rewrite !trapz_cons2. rewrite IH. lra.
Qed.

(* ---- sign change under reversal of the coordinate (and the data with it) *)
Lemma trapz_snoc y0 y1 x0 x1 : forall ys xs, length ys = length xs ->
  trapz (ys ++ [y0; y1]) (xs ++ [x0; x1]) = trapz (ys ++ [y0]) (xs ++ [x0]) + (x1 - x0) * (y1 + y0) / 2.
Proof.
  induction ys as [|a ys IH]; intros xs Hl.
  - destruct xs; [|discriminate]. cbn [app trapz]. lra.
  - destruct xs as [|b xs]; [discriminate|]. cbn [length] in Hl. injection Hl as Hl.
    destruct ys as [|a' ys].
    + destruct xs; [|discriminate]. cbn [app trapz]. lra.
    + destruct xs as [|b' xs]; [discriminate|].
      specialize (IH (b' :: xs) Hl). cbn [app] in IH |- *. rewrite !trapz_cons2, IH. lra.
Qed.

Lemma trapz_rev : forall ys xs, length ys = length xs -> trapz (rev ys) (rev xs) = - trapz ys xs.
Proof.
  induction ys as [|y0 ys IH]; intros xs Hl.
  - destruct xs; [|discriminate]. cbn [rev trapz]. lra.
  - destruct xs as [|x0 xs]; [discriminate|]. cbn [length] in Hl. injection Hl as Hl.
    destruct ys as [|y1 ys].
    + destruct xs; [|discriminate]. cbn [rev app trapz]. lra.
    + destruct xs as [|x1 xs]; [discriminate|].
      specialize (IH (x1 :: xs) Hl).
      change (rev (y0 :: y1 :: ys)) with ((rev ys ++ [y1]) ++ [y0]).
      change (rev (x0 :: x1 :: xs)) with ((rev xs ++ [x1]) ++ [x0]).
      change (rev (y1 :: ys)) with (rev ys ++ [y1]) in IH.
      change (rev (x1 :: xs)) with (rev xs ++ [x1]) in IH.
      rewrite <- !app_assoc. cbn [app].
      rewrite trapz_snoc by (rewrite !rev_length; cbn [length] in Hl; lia).
      rewrite IH, trapz_cons2. lra.
Qed.

(* ---- x = None is unit spacing *)
Lemma trapz_unit_seq : forall ys s, trapz ys (map INR (seq s (length ys))) = trapz_unit ys.
Proof.
  induction ys as [|y0 ys IH]; intros s.
  - reflexivity.
  - destruct ys as [|y1 ys].
    + reflexivity.
    + specialize (IH (S s)). cbn [length seq map] in IH |- *.
      rewrite trapz_cons2, IH.
      change (trapz_unit (y0 :: y1 :: ys)) with (1 * (y1 + y0) / 2 + trapz_unit (y1 :: ys)).
      rewrite S_INR. lra.
Qed.
Lemma trapz_unit_arange ys : trapz_unit ys = trapz ys (arange (length ys)).
Proof. unfold arange. symmetry. apply trapz_unit_seq. Qed.

(* ---- sign: a non-negative integrand over a non-increasing coordinate integrates to <= 0 (and >= 0 over a
        non-decreasing one) *)
Lemma trapz_nonpos : forall ys xs, List.Forall (fun y => 0 <= y) ys -> nonincreasing xs -> trapz ys xs <= 0.
Proof.
  induction ys as [|y0 ys IH]; intros xs Hy Hx.
  - cbn [trapz]. lra.
  - destruct ys as [|y1 ys]; [rewrite trapz_single_l; lra|].
    destruct xs as [|x0 [|x1 xs]]; [rewrite trapz_nil_r; lra|rewrite trapz_single_r; lra|].
    rewrite trapz_cons2. inversion Hy as [|? ? Hy0 Hy']; subst. inversion Hy' as [|? ? Hy1 _]; subst.
    destruct Hx as [Hx0 Hx']. specialize (IH (x1 :: xs) Hy' Hx'). nra.
Qed.
Lemma trapz_nonneg : forall ys xs, List.Forall (fun y => 0 <= y) ys -> nondecreasing xs -> 0 <= trapz ys xs.
Proof.
  induction ys as [|y0 ys IH]; intros xs Hy Hx.
  - cbn [trapz]. lra.
  - destruct ys as [|y1 ys]; [rewrite trapz_single_l; lra|].
    destruct xs as [|x0 [|x1 xs]]; [rewrite trapz_nil_r; lra|rewrite trapz_single_r; lra|].
    rewrite trapz_cons2. inversion Hy as [|? ? Hy0 Hy']; subst. inversion Hy' as [|? ? Hy1 _]; subst.
    destruct Hx as [Hx0 Hx']. specialize (IH (x1 :: xs) Hy' Hx'). nra.
Qed.

(* ---- arrays of any rank: numpy's slice-wise evaluation integrates every lane *)
Lemma vadd_length a b : length (vadd a b) = Nat.min (length a) (length b).
Proof. revert b; induction a as [|x a IH]; intros [|y b]; cbn [vadd zip2 length]; auto. unfold vadd in IH. rewrite IH. reflexivity. Qed.
Lemma vadd_nth : forall a b i, (i < length a)%nat -> (i < length b)%nat -> nth i (vadd a b) 0 = nth i a 0 + nth i b 0.
Proof.
  induction a as [|x a IH]; intros [|y b] i Ha Hb; cbn [length] in *; try lia.
  destruct i as [|i]; cbn [vadd zip2 nth]; [reflexivity|]. apply IH; lia.
Qed.
Lemma trapz_rows_cons2 r0 r1 rows x0 x1 xs inner :
  trapz_rows (r0 :: r1 :: rows) (x0 :: x1 :: xs) inner =
  vadd (map (fun s => (x1 - x0) * s / 2) (vadd r1 r0)) (trapz_rows (r1 :: rows) (x1 :: xs) inner).
Proof. reflexivity. Qed.
Lemma trapz_rows_length inner : forall rows xs, List.Forall (fun r => length r = inner) rows ->
  length (trapz_rows rows xs inner) = inner.
Proof.
  induction rows as [|r0 rows IH]; intros xs Hr.
  - cbn [trapz_rows]. apply repeat_length.
  - destruct rows as [|r1 rows]; [cbn [trapz_rows]; apply repeat_length|].
    destruct xs as [|x0 [|x1 xs]]; try (cbn [trapz_rows]; apply repeat_length).
    inversion Hr as [|? ? H0 Hr']; subst. inversion Hr' as [|? ? H1 _]; subst.
    rewrite trapz_rows_cons2, vadd_length, map_length, vadd_length, (IH (x1 :: xs) Hr'). lia.
Qed.
Lemma nth_repeat0 n i : nth i (repeat 0 n) 0 = 0.
Proof. revert i; induction n as [|n IH]; intros [|i]; cbn [repeat nth]; auto. Qed.

Lemma trapz_rows_nth inner : forall rows xs i, List.Forall (fun r => length r = inner) rows -> (i < inner)%nat ->
  nth i (trapz_rows rows xs inner) 0 = trapz (lane rows i) xs.
Proof.
  induction rows as [|r0 rows IH]; intros xs i Hr Hi.
  - cbn [trapz_rows lane map trapz]. apply nth_repeat0.
  - destruct rows as [|r1 rows].
    + cbn [trapz_rows lane map]. rewrite trapz_single_l. apply nth_repeat0.
    + destruct xs as [|x0 [|x1 xs]].
      * cbn [trapz_rows]. rewrite trapz_nil_r. apply nth_repeat0.
      * cbn [trapz_rows]. rewrite trapz_single_r. apply nth_repeat0.
      * inversion Hr as [|? ? H0 Hr']; subst. inversion Hr' as [|? ? H1 Hr'']; subst.
        specialize (IH (x1 :: xs) i Hr' Hi).
        change (lane (r0 :: r1 :: rows) i) with (nth i r0 0 :: nth i r1 0 :: lane rows i).
        change (lane (r1 :: rows) i) with (nth i r1 0 :: lane rows i) in IH.
        rewrite trapz_cons2, <- IH, trapz_rows_cons2.
        rewrite vadd_nth.
        2:{ rewrite map_length, vadd_length. lia. }
        2:{ rewrite (trapz_rows_length (length r0)); [exact Hi|exact Hr']. }
        f_equal.
        rewrite (nth_indep _ 0 ((fun s => (x1 - x0) * s / 2) 0)) by (rewrite map_length, vadd_length; lia).
        etransitivity; [exact (map_nth (fun s : R => (x1 - x0) * s / 2) (vadd r1 r0) 0 i)|].
        cbv beta. rewrite vadd_nth by lia. reflexivity.
Qed.

Lemma trapz_rows_lanes inner rows xs : List.Forall (fun r => length r = inner) rows ->
  trapz_rows rows xs inner = map (fun i => trapz (lane rows i) xs) (seq 0 inner).
Proof.
  intros Hr. apply (nth_ext _ _ 0 0).
  - rewrite (trapz_rows_length inner _ _ Hr), map_length, seq_length. reflexivity.
  - intros i Hi. rewrite (trapz_rows_length inner _ _ Hr) in Hi.
    rewrite (trapz_rows_nth inner _ _ _ Hr Hi).
    rewrite (nth_indep _ 0 ((fun i => trapz (lane rows i) xs) 0%nat)) by (rewrite map_length, seq_length; exact Hi).
    etransitivity; [|symmetry; exact (map_nth (fun i : nat => trapz (lane rows i) xs) (seq 0 inner) 0%nat i)].
    cbv beta. rewrite seq_nth by exact Hi. reflexivity.
Qed.

Lemma integrate_nd_lanes inner Y xs : List.Forall (List.Forall (fun r => length r = inner)) Y ->
  integrate_nd Y xs inner = map (fun rows => map (fun i => trapz (lane rows i) xs) (seq 0 inner)) Y.
Proof.
  intros HY. unfold integrate_nd. apply map_ext_in. intros rows Hin.
  apply trapz_rows_lanes. rewrite Forall_forall in HY. exact (HY rows Hin).
Qed.

(* ---- the Riemann integral of the piecewise-linear interpolant, segment by segment *)
Lemma line_RInt x0 y0 x1 y1 : x0 <> x1 ->
  RInt (line x0 y0 x1 y1) x0 x1 = (x1 - x0) * (y1 + y0) / 2.
Proof.
  intros Hx. apply is_RInt_unique.
  pose (F := fun x => y0 * (x - x0) + (y1 - y0) / (x1 - x0) * ((x - x0) ^ 2 / 2)).
  replace ((x1 - x0) * (y1 + y0) / 2) with (F x1 - F x0) by (unfold F; field; lra).
  apply (is_RInt_derive F (line x0 y0 x1 y1)).
  - intros x _. unfold F, line. auto_derive; [exact I|]. field. lra.
  - intros x _. apply (ex_derive_continuous (line x0 y0 x1 y1)). unfold line. auto_derive. exact I.
Qed.

Lemma trapz_is_RInt : forall ys xs, distinct_neighbours xs -> trapz ys xs = rsum (segment_integrals ys xs).
Proof.
  induction ys as [|y0 ys IH]; intros xs Hx.
  - reflexivity.
  - destruct ys as [|y1 ys]; [rewrite trapz_single_l; destruct xs as [|? [|? ?]]; reflexivity|].
    destruct xs as [|x0 [|x1 xs]]; [reflexivity|reflexivity|].
    destruct Hx as [H01 Hx']. specialize (IH (x1 :: xs) Hx').
    change (segment_integrals (y0 :: y1 :: ys) (x0 :: x1 :: xs))
      with (RInt (line x0 y0 x1 y1) x0 x1 :: segment_integrals (y1 :: ys) (x1 :: xs)).
    rewrite trapz_cons2. cbn [rsum]. rewrite <- IH, line_RInt by exact H01. reflexivity.
Qed.

(* the interpolant takes the tabulated values at both ends of its segment *)
Lemma line_ends x0 y0 x1 y1 : x0 <> x1 -> line x0 y0 x1 y1 x0 = y0 /\ line x0 y0 x1 y1 x1 = y1.
Proof. intros H. unfold line. split; field; lra. Qed.
