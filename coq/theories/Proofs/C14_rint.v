(* C14 -- integrate_column equals the Riemann integral (Coquelicot) of THE piecewise-linear interpolant over the whole
   range of an increasing grid: the interpolant is interp_seg of Model/C14_column.v (the function scipy's interp1d
   computes), which passes through every data point. *)
From Coq Require Import Reals List Lra Lia.
From Coquelicot Require Import Coquelicot.
From Typhon Require Import Model.C14_column Model.C14_rint Proofs.C14_trapz.
Import ListNotations.
Open Scope R_scope.

Lemma line_is_RInt x0 y0 x1 y1 : x0 <> x1 ->
  is_RInt (line x0 y0 x1 y1) x0 x1 ((x1 - x0) * (y1 + y0) / 2).
Proof.
  intros Hx.
  pose (F := fun x => y0 * (x - x0) + (y1 - y0) / (x1 - x0) * ((x - x0) ^ 2 / 2)).
  replace ((x1 - x0) * (y1 + y0) / 2) with (minus (F x1) (F x0)) by (unfold minus, plus, opp; cbn; unfold F; field; lra).
  apply (is_RInt_derive F (line x0 y0 x1 y1)).
  - intros x _. unfold F, line. auto_derive; [exact I|]. field. lra.
  - intros x _. apply (ex_derive_continuous (line x0 y0 x1 y1)). unfold line. auto_derive. exact I.
Qed.

Lemma increasing_hd_le_last : forall l a, increasing (a :: l) -> a <= last (a :: l) 0.
Proof.
  induction l as [|b l IH]; intros a H; [cbn; lra|].
  destruct H as [Hab H']. specialize (IH b H').
  change (last (a :: b :: l) 0) with (last (b :: l) 0). lra.
Qed.

Lemma interp_first x0 x1 xs2 y0 y1 ys2 x : x <= x1 ->
  interp_seg (x0 :: x1 :: xs2) (y0 :: y1 :: ys2) x = line x0 y0 x1 y1 x.
Proof. intros H. cbn [interp_seg]. destruct xs2; [reflexivity|]. destruct (Rle_dec x x1); [reflexivity|contradiction]. Qed.
Lemma interp_skip x0 x1 x2 xs3 y0 y1 ys2 x : x1 < x ->
  interp_seg (x0 :: x1 :: x2 :: xs3) (y0 :: y1 :: ys2) x = interp_seg (x1 :: x2 :: xs3) (y1 :: ys2) x.
Proof. intros H. cbn [interp_seg]. destruct (Rle_dec x x1); [lra|reflexivity]. Qed.

Lemma trapz_is_RInt_of_interpolant : forall xs ys, increasing xs -> length ys = length xs -> (2 <= length xs)%nat ->
  is_RInt (interp_seg xs ys) (hd 0 xs) (last xs 0) (trapz ys xs).
Proof.
  induction xs as [|x0 xs IH]; intros ys Hinc Hl Hn; [cbn in Hn; lia|].
  destruct xs as [|x1 xs]; [cbn in Hn; lia|].
  destruct ys as [|y0 [|y1 ys]]; [discriminate|discriminate|].
  destruct Hinc as [H01 Hinc'].
  destruct xs as [|x2 xs].
  - (* two levels *)
    destruct ys; [|discriminate]. cbn [hd last]. rewrite trapz_cons2, trapz_single_l, Rplus_0_r.
    apply (is_RInt_ext (line x0 y0 x1 y1)); [|apply line_is_RInt; lra].
    intros x _. reflexivity.
  - assert (Hl' : length (y1 :: ys) = length (x1 :: x2 :: xs)) by (cbn [length] in *; lia).
    assert (Hn' : (2 <= length (x1 :: x2 :: xs))%nat) by (cbn [length]; lia).
    specialize (IH (y1 :: ys) Hinc' Hl' Hn').
    change (hd 0 (x1 :: x2 :: xs)) with x1 in IH.
    change (hd 0 (x0 :: x1 :: x2 :: xs)) with x0.
    change (last (x0 :: x1 :: x2 :: xs) 0) with (last (x1 :: x2 :: xs) 0).
    pose proof (increasing_hd_le_last _ _ Hinc') as Hlast.
    rewrite trapz_cons2.
    change ((x1 - x0) * (y1 + y0) / 2 + trapz (y1 :: ys) (x1 :: x2 :: xs))
      with (plus ((x1 - x0) * (y1 + y0) / 2) (trapz (y1 :: ys) (x1 :: x2 :: xs))).
    refine (@is_RInt_Chasles R_NormedModule _ x0 x1 (last (x1 :: x2 :: xs) 0)
              ((x1 - x0) * (y1 + y0) / 2) (trapz (y1 :: ys) (x1 :: x2 :: xs)) _ _).
    + apply (is_RInt_ext (line x0 y0 x1 y1)); [|apply line_is_RInt; lra].
      intros x Hx. rewrite Rmin_left, Rmax_right in Hx by lra. symmetry. apply interp_first. lra.
    + apply (is_RInt_ext (interp_seg (x1 :: x2 :: xs) (y1 :: ys))); [|exact IH].
      intros x Hx. rewrite Rmin_left, Rmax_right in Hx by lra. symmetry. apply interp_skip. lra.
Qed.

Lemma trapz_RInt_interp xs ys : increasing xs -> length ys = length xs -> (2 <= length xs)%nat ->
  RInt (interp_seg xs ys) (hd 0 xs) (last xs 0) = trapz ys xs.
Proof. intros H1 H2 H3. apply is_RInt_unique. apply trapz_is_RInt_of_interpolant; assumption. Qed.

Lemma increasing_hd_lt_nth : forall l a j, increasing (a :: l) -> (S j < length (a :: l))%nat -> a < nth (S j) (a :: l) 0.
Proof.
  induction l as [|b l IHl]; intros a j Hi Hj; [cbn in Hj; lia|].
  destruct Hi as [Hab Hi']. destruct j as [|j]; [cbn [nth]; exact Hab|].
  change (nth (S (S j)) (a :: b :: l) 0) with (nth (S j) (b :: l) 0).
  assert (b < nth (S j) (b :: l) 0) by (apply IHl; [exact Hi'|cbn [length] in *; lia]). lra.
Qed.

(* the interpolant passes through every data point *)
Lemma interp_through_data : forall xs ys k, increasing xs -> length ys = length xs -> (2 <= length xs)%nat -> (k < length xs)%nat ->
  interp_seg xs ys (nth k xs 0) = nth k ys 0.
Proof.
  induction xs as [|x0 xs IH]; intros ys k Hinc Hl Hn Hk; [cbn in Hn; lia|].
  destruct xs as [|x1 xs]; [cbn in Hn; lia|].
  destruct ys as [|y0 [|y1 ys]]; [discriminate|discriminate|].
  destruct Hinc as [H01 Hinc'].
  destruct k as [|k].
  - cbn [nth]. rewrite interp_first by lra. unfold line. field. lra.
  - destruct k as [|k].
    + cbn [nth]. rewrite interp_first by lra. unfold line. field. lra.
    + destruct xs as [|x2 xs]; [cbn in Hk; lia|].
      assert (Hl' : length (y1 :: ys) = length (x1 :: x2 :: xs)) by (cbn [length] in *; lia).
      assert (Hn' : (2 <= length (x1 :: x2 :: xs))%nat) by (cbn [length]; lia).
      assert (Hk' : (S k < length (x1 :: x2 :: xs))%nat) by (cbn [length] in *; lia).
      specialize (IH (y1 :: ys) (S k) Hinc' Hl' Hn' Hk').
      change (nth (S (S k)) (x0 :: x1 :: x2 :: xs) 0) with (nth (S k) (x1 :: x2 :: xs) 0).
      change (nth (S (S k)) (y0 :: y1 :: ys) 0) with (nth (S k) (y1 :: ys) 0).
      rewrite interp_skip; [exact IH|].
      apply increasing_hd_lt_nth; assumption.
Qed.

Lemma trapz_interp_range xs ys : increasing xs -> length ys = length xs -> (2 <= length xs)%nat ->
  integral (interp_seg xs ys) (hd 0 xs) (last xs 0) = trapz ys xs /\
  (forall k, (k < length xs)%nat -> interp_seg xs ys (nth k xs 0) = nth k ys 0).
Proof.
  intros H1 H2 H3. split; [exact (trapz_RInt_interp xs ys H1 H2 H3)|].
  intros k Hk. exact (interp_through_data xs ys k H1 H2 H3 Hk).
Qed.
