(* C08 -- Planck / Rayleigh-Jeans / brightness temperatures / unit converters.
   Statements are about the definitions GENERATED from typhon/physics/em.py. *)
From Coq Require Import Reals Lra Lia List.
From Coquelicot Require Import Rcomplements.
From TyphonGen Require Import em.
Import ListNotations.
Open Scope R_scope.

Lemma h_pos : 0 < c_planck. Proof. unfold c_planck; lra. Qed.
Lemma k_pos : 0 < c_boltzmann. Proof. unfold c_boltzmann; lra. Qed.
Lemma c_pos : 0 < c_speed_of_light. Proof. unfold c_speed_of_light; lra. Qed.

Section Planck.
(* only positivity of the three constants is used *)
Let h := c_planck. Let k := c_boltzmann. Let c := c_speed_of_light.
Let Hh : 0 < h := h_pos. Let Hk : 0 < k := k_pos. Let Hc : 0 < c := c_pos.

Definition xarg (f T : R) : R := h * f / (k * T).

Lemma xarg_pos f T : 0 < f -> 0 < T -> 0 < xarg f T.
Proof. intros Hf HT. unfold xarg. apply Rdiv_lt_0_compat; nra. Qed.

Lemma expm1_pos x : 0 < x -> 0 < exp x - 1.
Proof. intros Hx. assert (1 + x < exp x) by (apply exp_ineq1; lra). lra. Qed.

Lemma planck_eq f T : planck f T = 2 * h * f ^ 3 / (c ^ 2 * (exp (xarg f T) - 1)).
Proof. reflexivity. Qed.

Lemma c2_pos : 0 < c ^ 2. Proof. apply pow_lt; exact Hc. Qed.

Lemma planck_pos f T : 0 < f -> 0 < T -> 0 < planck f T.
Proof. intros Hf HT. rewrite planck_eq. pose proof (expm1_pos _ (xarg_pos f T Hf HT)). pose proof c2_pos.
  assert (0 < f ^ 3) by (apply pow_lt; lra).
  apply Rdiv_lt_0_compat; [|apply Rmult_lt_0_compat; assumption].
  apply Rmult_lt_0_compat; [lra|assumption]. Qed.

(* radiance2planckTb inverts planck *)
Lemma tb_planck f T : 0 < f -> 0 < T -> radiance2planckTb f (planck f T) = T.
Proof.
  intros Hf HT. unfold radiance2planckTb. cbv zeta. rewrite planck_eq. fold h k c.
  set (x := xarg f T). assert (Hx : 0 < x) by (apply xarg_pos; assumption).
  assert (He : 0 < exp x - 1) by (apply expm1_pos; exact Hx).
  replace (2 * h / c ^ 2 * f ^ 3 / (2 * h * f ^ 3 / (c ^ 2 * (exp x - 1))) + 1) with (exp x).
  2:{ field. repeat split; try lra; try (apply pow_nonzero; lra). }
  rewrite ln_exp. unfold x, xarg. field. repeat split; lra.
Qed.

(* radiance2rayleighjeansTb inverts rayleighjeans *)
Lemma tb_rj f T : 0 < f -> radiance2rayleighjeansTb f (rayleighjeans f T) = T.
Proof. intros Hf. unfold radiance2rayleighjeansTb, rayleighjeans. cbv zeta. fold k c.
  field. repeat split; lra. Qed.

(* planck = rayleighjeans * x / (exp x - 1) *)
Lemma planck_rj f T : 0 < f -> 0 < T ->
  planck f T = rayleighjeans f T * (xarg f T / (exp (xarg f T) - 1)).
Proof. intros Hf HT. rewrite planck_eq. unfold rayleighjeans. cbv zeta. fold k c.
  pose proof (expm1_pos _ (xarg_pos f T Hf HT)). unfold xarg in *. field. repeat split; lra. Qed.

Lemma rj_pos f T : 0 < f -> 0 < T -> 0 < rayleighjeans f T.
Proof. intros Hf HT. unfold rayleighjeans. cbv zeta. fold k c. apply Rdiv_lt_0_compat; [|exact c2_pos].
  assert (0 < f ^ 2) by (apply pow_lt; lra).
  apply Rmult_lt_0_compat; [|lra]. apply Rmult_lt_0_compat; [lra|lra]. Qed.

(* never exceeds Rayleigh-Jeans ... *)
Lemma planck_le_rj f T : 0 < f -> 0 < T -> planck f T < rayleighjeans f T.
Proof. intros Hf HT. rewrite planck_rj by assumption.
  pose proof (rj_pos f T Hf HT). set (x := xarg f T). assert (Hx : 0 < x) by (apply xarg_pos; assumption).
  assert (1 + x < exp x) by (apply exp_ineq1; lra).
  assert (x / (exp x - 1) < 1) by (apply Rlt_div_l; lra). nra. Qed.

(* ... and approaches it as x = h f / k T -> 0: relative deficit below x *)
Lemma planck_ge_rj f T : 0 < f -> 0 < T -> xarg f T < 1 ->
  (1 - xarg f T) * rayleighjeans f T < planck f T.
Proof. intros Hf HT Hx1. rewrite planck_rj by assumption.
  pose proof (rj_pos f T Hf HT). set (x := xarg f T) in *. assert (Hx : 0 < x) by (apply xarg_pos; assumption).
  assert (He : 0 < exp x - 1) by (apply expm1_pos; exact Hx).
  assert (Hm : 1 - x < exp (- x)) by (replace (1 - x) with (1 + - x) by ring; apply exp_ineq1; lra).
  assert (Hex : exp x * exp (- x) = 1) by (rewrite <- exp_plus; replace (x + - x) with 0 by ring; apply exp_0).
  assert (Hep : 0 < exp x) by apply exp_pos.
  assert (1 - x < x / (exp x - 1)).
  { apply Rlt_div_r; [lra|]. (* (1-x)(e^x - 1) < x  <=  (1-x) e^x < 1 *)
    assert ((1 - x) * exp x < 1) by nra. nra. }
  nra. Qed.

(* strictly increasing in T *)
Lemma planck_incr f T1 T2 : 0 < f -> 0 < T1 -> T1 < T2 -> planck f T1 < planck f T2.
Proof. intros Hf H1 H12. rewrite !planck_eq.
  assert (H2 : 0 < T2) by lra.
  pose proof (expm1_pos _ (xarg_pos f T1 Hf H1)) as E1. pose proof (expm1_pos _ (xarg_pos f T2 Hf H2)) as E2.
  assert (Hx : xarg f T2 < xarg f T1).
  { unfold xarg. apply Rminus_lt_0.
    replace (h * f / (k * T1) - h * f / (k * T2)) with (h * f * (T2 - T1) / (k * T1 * T2)) by (field; lra).
    apply Rdiv_lt_0_compat; (apply Rmult_lt_0_compat; [apply Rmult_lt_0_compat; lra|lra]). }
  apply exp_increasing in Hx.
  assert (0 < 2 * h * f ^ 3) by (assert (0 < f ^ 3) by (apply pow_lt; lra); apply Rmult_lt_0_compat; lra).
  pose proof c2_pos as Hc2.
  unfold Rdiv. apply Rmult_lt_compat_l; [assumption|]. apply Rinv_lt_contravar.
  - apply Rmult_lt_0_compat; apply Rmult_lt_0_compat; assumption.
  - apply Rmult_lt_compat_l; [assumption|lra]. Qed.

(* the wavelength and wavenumber forms describe the same spectrum *)
Lemma wavelength_form f T : 0 < f -> 0 < T -> planck_wavelength (c / f) T = planck f T * f ^ 2 / c.
Proof. intros Hf HT. rewrite planck_eq. unfold planck_wavelength. cbv zeta. fold h k c.
  replace (h * c / (c / f * k * T)) with (xarg f T) by (unfold xarg; field; repeat split; lra).
  pose proof (expm1_pos _ (xarg_pos f T Hf HT)). field. repeat split; lra. Qed.
Lemma wavenumber_form f T : 0 < f -> 0 < T -> planck_wavenumber (f / c) T = c * planck f T.
Proof. intros Hf HT. rewrite planck_eq. unfold planck_wavenumber. cbv zeta. fold h k c.
  replace (h * c * (f / c) / (k * T)) with (xarg f T) by (unfold xarg; field; repeat split; lra).
  pose proof (expm1_pos _ (xarg_pos f T Hf HT)). field. repeat split; lra. Qed.

(* frequency / wavelength / wavenumber converters are mutually inverse and commute *)
Lemma units_inverse v : 0 < v ->
  wavelength2frequency (frequency2wavelength v) = v /\ frequency2wavelength (wavelength2frequency v) = v /\
  wavenumber2frequency (frequency2wavenumber v) = v /\ frequency2wavenumber (wavenumber2frequency v) = v /\
  wavenumber2wavelength (wavelength2wavenumber v) = v /\ wavelength2wavenumber (wavenumber2wavelength v) = v.
Proof. intros Hv. unfold wavelength2frequency, frequency2wavelength, wavenumber2frequency, frequency2wavenumber,
  wavenumber2wavelength, wavelength2wavenumber. fold c. repeat split; field; lra. Qed.
Lemma units_commute v : 0 < v ->
  wavelength2wavenumber (frequency2wavelength v) = frequency2wavenumber v /\
  wavenumber2wavelength (frequency2wavenumber v) = frequency2wavelength v /\
  wavenumber2frequency (wavelength2wavenumber v) = wavelength2frequency v.
Proof. intros Hv. unfold wavelength2frequency, frequency2wavelength, wavenumber2frequency, frequency2wavenumber,
  wavenumber2wavelength, wavelength2wavenumber. fold c. repeat split; field; lra. Qed.
End Planck.

(* ---------- planck / rayleighjeans -> 1 as x = h f / k T -> 0 ---------- *)
Lemma planck_over_rj f T : 0 < f -> 0 < T ->
  planck f T / rayleighjeans f T = xarg f T / (exp (xarg f T) - 1).
Proof. intros Hf HT. rewrite planck_rj by assumption. pose proof (rj_pos f T Hf HT).
  pose proof (expm1_pos _ (xarg_pos f T Hf HT)). field. split; lra. Qed.

Lemma planck_rj_limit eps : 0 < eps -> exists d, 0 < d /\
  forall f T, 0 < f -> 0 < T -> xarg f T < d -> Rabs (planck f T / rayleighjeans f T - 1) < eps.
Proof. intros He. exists (Rmin eps 1). split; [apply Rmin_glb_lt; lra|].
  intros f T Hf HT Hx. pose proof (Rmin_l eps 1). pose proof (Rmin_r eps 1).
  pose proof (xarg_pos f T Hf HT) as Hx0. pose proof (rj_pos f T Hf HT) as Hr.
  pose proof (planck_le_rj f T Hf HT) as Hu. assert (Hx1 : xarg f T < 1) by lra.
  pose proof (planck_ge_rj f T Hf HT Hx1) as Hl.
  assert (Hq1 : planck f T / rayleighjeans f T < 1) by (apply Rlt_div_l; lra).
  assert (Hq2 : 1 - xarg f T < planck f T / rayleighjeans f T) by (apply Rlt_div_r; lra).
  apply Rabs_def1; lra. Qed.

(* the same limit in the variable x alone *)
Lemma x_over_expm1_limit eps : 0 < eps -> exists d, 0 < d /\
  forall x, 0 < x < d -> Rabs (x / (exp x - 1) - 1) < eps.
Proof. intros He. exists (Rmin eps 1). split; [apply Rmin_glb_lt; lra|].
  intros x [Hx0 Hx]. pose proof (Rmin_l eps 1). pose proof (Rmin_r eps 1).
  assert (Hep : 1 + x < exp x) by (apply exp_ineq1; lra).
  assert (Hm : 1 - x < exp (- x)) by (replace (1 - x) with (1 + - x) by ring; apply exp_ineq1; lra).
  assert (Hex : exp x * exp (- x) = 1) by (rewrite <- exp_plus; replace (x + - x) with 0 by ring; apply exp_0).
  assert (Hq1 : x / (exp x - 1) < 1) by (apply Rlt_div_l; lra).
  assert (Hq2 : 1 - x < x / (exp x - 1)).
  { apply Rlt_div_r; [lra|]. assert ((1 - x) * exp x < 1) by nra. nra. }
  apply Rabs_def1; lra. Qed.
