(* C15 -- lemmas about the cache model (Model/C15_cache.v). *)
From Coq Require Import ZArith List Bool Lia ZifyBool.
From Typhon Require Import Model.C15_cache.
Import ListNotations.
Open Scope Z_scope.
Ltac Zify.zify_post_hook ::= Z.to_euclidean_division_equations.

(* ====================================================================================== *)
(* 1. crash safety of the write-to-backup-then-rename sequence                             *)
(* ====================================================================================== *)
Section DiskProofs.
  Context {A : Type}.
  Implicit Types (d : disk A) (doc : list A).

  Lemma run_app : forall (a b : list (op A)) d, run (a ++ b) d = run b (run a d).
  Proof. intros a b d. unfold run. apply fold_left_app. Qed.

  Definition not_rename (o : op A) : Prop := match o with Rename => False | _ => True end.

  Lemma step_main : forall d o, not_rename o -> main (step d o) = main d.
  Proof. intros d o H. destruct o; simpl in *; try reflexivity. contradiction. Qed.

  Lemma run_main : forall ops d, Forall not_rename ops -> main (run ops d) = main d.
  Proof.
    induction ops as [|o ops IH]; intros d H; [reflexivity|].
    inversion H as [|? ? Ho Hops]; subst. cbn [run fold_left].
    change (fold_left step ops (step d o)) with (run ops (step d o)).
    rewrite IH by exact Hops. apply step_main; exact Ho.
  Qed.

  Lemma run_writes : forall (l : list A) (m : option (list A)) (b : list A),
    run (map Write l) {| main := m; backup := Some b |} = {| main := m; backup := Some (b ++ l) |}.
  Proof.
    induction l as [|a l IH]; intros m b; cbn [map run fold_left].
    - rewrite app_nil_r. reflexivity.
    - change (fold_left step (map Write l) ?x) with (run (map Write l) x).
      cbn [step main backup]. rewrite IH. rewrite <- app_assoc. reflexivity.
  Qed.

  (* the part of save_cache before the rename *)
  Definition pre_ops doc : list (op A) := OpenTrunc :: map Write doc ++ [Close].

  Lemma save_ops_split : forall doc, save_ops doc = pre_ops doc ++ [Rename].
  Proof. intros doc. unfold save_ops, pre_ops. cbn [app]. rewrite <- app_assoc. reflexivity. Qed.

  Lemma pre_ops_no_rename : forall doc, Forall not_rename (pre_ops doc).
  Proof.
    intros doc. unfold pre_ops. constructor; [exact I|].
    apply Forall_app. split.
    - apply Forall_forall. intros o Ho. apply in_map_iff in Ho. destruct Ho as [a [Ha _]]. subst o. exact I.
    - constructor; [exact I|constructor].
  Qed.

  Lemma run_pre : forall doc d, run (pre_ops doc) d = {| main := main d; backup := Some doc |}.
  Proof.
    intros doc d. unfold pre_ops. cbn [run fold_left].
    change (fold_left step ?l ?x) with (run l x).
    rewrite run_app. cbn [step]. rewrite run_writes. reflexivity.
  Qed.

  Lemma run_save : forall doc d, run (save_ops doc) d = {| main := Some doc; backup := None |}.
  Proof. intros doc d. rewrite save_ops_split, run_app, run_pre. reflexivity. Qed.

  Lemma length_save_ops : forall doc, length (save_ops doc) = S (length (pre_ops doc)).
  Proof. intros doc. rewrite save_ops_split, app_length. simpl. lia. Qed.

  Lemma Forall_firstn : forall (P : op A -> Prop) k l, Forall P l -> Forall P (firstn k l).
  Proof.
    intros P k. induction k as [|k IH]; intros l H; [constructor|].
    destruct l as [|x l]; [constructor|]. inversion H; subst. cbn [firstn]. constructor; auto.
  Qed.

  (* the main file after a crash: untouched before the last primitive, the new document after it *)
  Lemma crash_main_exact : forall k doc d,
    main (crash_after k (save_ops doc) d) =
    if (length (save_ops doc) <=? k)%nat then Some doc else main d.
  Proof.
    intros k doc d. unfold crash_after.
    destruct (length (save_ops doc) <=? k)%nat eqn:E.
    - apply Nat.leb_le in E. rewrite firstn_all2 by exact E. rewrite run_save. reflexivity.
    - apply Nat.leb_gt in E. rewrite length_save_ops in E.
      rewrite save_ops_split. rewrite firstn_app.
      replace (k - length (pre_ops doc))%nat with 0%nat by lia.
      cbn [firstn]. rewrite app_nil_r.
      apply run_main. apply Forall_firstn. apply pre_ops_no_rename.
  Qed.

  Lemma crash_safe_lemma : forall k doc d,
    let d' := crash_after k (save_ops doc) d in
    main d' = main d \/ main d' = Some doc.
  Proof.
    intros k doc d d'. unfold d'. rewrite crash_main_exact.
    destruct (length (save_ops doc) <=? k)%nat; [right|left]; reflexivity.
  Qed.

  Lemma do_event_main : forall d (e : event A),
    main (do_event d e) = if completed e then Some (doc_of_event e) else main d.
  Proof.
    intros d [doc [k|]]; cbn [do_event completed doc_of_event].
    - apply crash_main_exact.
    - rewrite run_save. reflexivity.
  Qed.

  Lemma history_safe_lemma : forall (h : list (event A)) d, main (run_history h d) = last_completed (main d) h.
  Proof.
    induction h as [|e h IH]; intros d; [reflexivity|].
    unfold run_history in *. cbn [fold_left last_completed]. rewrite IH. rewrite do_event_main. reflexivity.
  Qed.

  (* the main file is never anything but the initial one or a document some save wrote completely *)
  Lemma last_completed_in : forall (h : list (event A)) (m : option (list A)),
    last_completed m h = m \/ exists e, In e h /\ completed e = true /\ last_completed m h = Some (doc_of_event e).
  Proof.
    induction h as [|e h IH]; intros m; [left; reflexivity|].
    cbn [last_completed]. destruct (completed e) eqn:E.
    - destruct (IH (Some (doc_of_event e))) as [H|[e' [Hin [Hc H]]]].
      + right. exists e. split; [left; reflexivity|]. split; [exact E|exact H].
      + right. exists e'. split; [right; exact Hin|]. split; assumption.
    - destruct (IH m) as [H|[e' [Hin [Hc H]]]]; [left; exact H|].
      right. exists e'. split; [right; exact Hin|]. split; assumption.
  Qed.

  Lemma states_nth : forall ops k d dflt, (k <= length ops)%nat ->
    nth k (prefix_states ops d) dflt = crash_after k ops d.
  Proof.
    induction ops as [|o ops IH]; intros k d dflt Hk.
    - cbn in Hk. assert (k = 0)%nat by lia. subst. reflexivity.
    - destruct k as [|k]; [reflexivity|].
      cbn [prefix_states nth]. unfold crash_after. cbn [firstn run fold_left].
      change (fold_left step ?l ?x) with (run l x).
      rewrite IH by (cbn in Hk; lia). reflexivity.
  Qed.

  Lemma length_prefix_states : forall ops d, length (prefix_states ops d) = S (length ops).
  Proof. induction ops as [|o ops IH]; intros d; cbn [prefix_states length]; [reflexivity|]. rewrite IH. reflexivity. Qed.
End DiskProofs.

(* ====================================================================================== *)
(* 2. strptime (strftime t) = t, digit by digit                                            *)
(* ====================================================================================== *)
Lemma span_digits_app : forall ds r,
  Forall (fun c => is_digit c = true) ds ->
  match r with [] => True | c :: _ => is_digit c = false end ->
  span_digits (ds ++ r) = (ds, r).
Proof.
  induction ds as [|c ds IH]; intros r Hds Hr.
  - cbn [app]. destruct r as [|c r]; [reflexivity|]. cbn [span_digits]. rewrite Hr. reflexivity.
  - inversion Hds as [|? ? Hc Hds']; subst. cbn [app span_digits]. rewrite Hc.
    rewrite (IH r Hds' Hr). reflexivity.
Qed.

Lemma is_digit_digit : forall d, 0 <= d <= 9 -> is_digit (digit d) = true.
Proof. intros d H. unfold is_digit, digit. lia. Qed.

Lemma fmt2_digits : forall z, 0 <= z < 100 -> Forall (fun c => is_digit c = true) (fmt2 z).
Proof. intros z H. unfold fmt2. repeat constructor; apply is_digit_digit; lia. Qed.
Lemma fmt4_digits : forall z, 0 <= z < 10000 -> Forall (fun c => is_digit c = true) (fmt4 z).
Proof. intros z H. unfold fmt4. repeat constructor; apply is_digit_digit; lia. Qed.
Lemma fmt6_digits : forall z, 0 <= z < 1000000 -> Forall (fun c => is_digit c = true) (fmt6 z).
Proof. intros z H. unfold fmt6. repeat constructor; apply is_digit_digit; lia. Qed.

Lemma num_fmt2 : forall z, 0 <= z < 100 -> num_of (fmt2 z) = z.
Proof. intros z H. unfold num_of, fmt2, digit. cbn [fold_left]. lia. Qed.
Lemma num_fmt4 : forall z, 0 <= z < 10000 -> num_of (fmt4 z) = z.
Proof. intros z H. unfold num_of, fmt4, digit. cbn [fold_left]. lia. Qed.
Lemma num_fmt6 : forall z, 0 <= z < 1000000 -> num_of (fmt6 z) = z.
Proof. intros z H. unfold num_of, fmt6, digit. cbn [fold_left]. lia. Qed.

Definition sep (c : Z) : Prop := is_digit c = false.

Lemma field_fmt2 : forall lo hi z c r, 0 <= z < 100 -> lo <= z <= hi -> sep c ->
  field 1 2 lo hi (fmt2 z ++ c :: r) = Some (z, c :: r).
Proof.
  intros lo hi z c r Hz Hb Hc. unfold field.
  rewrite (span_digits_app (fmt2 z) (c :: r) (fmt2_digits z Hz) Hc).
  rewrite (num_fmt2 z Hz).
  replace (len (fmt2 z)) with 2 by reflexivity.
  replace ((1 <=? 2) && (2 <=? 2) && (lo <=? z) && (z <=? hi)) with true by lia.
  reflexivity.
Qed.

Lemma field_fmt4 : forall z c r, 0 <= z <= 9999 -> sep c ->
  field 4 4 0 9999 (fmt4 z ++ c :: r) = Some (z, c :: r).
Proof.
  intros z c r Hz Hc. unfold field.
  assert (Hz' : 0 <= z < 10000) by lia.
  rewrite (span_digits_app (fmt4 z) (c :: r) (fmt4_digits z Hz') Hc).
  rewrite (num_fmt4 z Hz').
  replace (len (fmt4 z)) with 4 by reflexivity.
  replace ((4 <=? 4) && (4 <=? 4) && (0 <=? z) && (z <=? 9999)) with true by lia.
  reflexivity.
Qed.

Lemma field_day_fmt2 : forall z c r, 1 <= z <= 31 -> sep c ->
  field_day (fmt2 z ++ c :: r) = Some (z, c :: r).
Proof.
  intros z c r Hz Hc.
  assert (E : field_day (fmt2 z ++ c :: r) = field 1 2 1 31 (fmt2 z ++ c :: r)).
  { unfold fmt2 at 1. cbn [app field_day].
    replace (digit (z / 10) =? c_space) with false by (unfold digit, c_space; lia).
    reflexivity. }
  rewrite E. apply field_fmt2; [lia|lia|exact Hc].
Qed.

Lemma field_frac_fmt6 : forall z, 0 <= z <= 999999 -> field_frac (fmt6 z) = Some z.
Proof.
  intros z Hz. unfold field_frac.
  assert (Hz' : 0 <= z < 1000000) by lia.
  pose proof (span_digits_app (fmt6 z) [] (fmt6_digits z Hz') I) as E.
  rewrite app_nil_r in E. rewrite E.
  rewrite (num_fmt6 z Hz').
  replace (len (fmt6 z)) with 6 by reflexivity.
  cbn [Z.leb Z.compare Pos.compare Pos.compare_cont andb Z.sub Z.opp Z.add Z.pos_sub Pos.pred_double Z.pow Z.pow_pos Pos.iter Z.succ_double Z.pred_double Z.double].
  f_equal. lia.
Qed.

Lemma dim_bounds : forall y m, 28 <= days_in_month y m <= 31.
Proof.
  intros y m. unfold days_in_month.
  destruct (m =? 2); [destruct (is_leap y); lia|].
  destruct ((m =? 4) || (m =? 6) || (m =? 9) || (m =? 11)); lia.
Qed.

Lemma valid_time_bounds : forall t, valid_time t = true ->
  1 <= yr t <= 9999 /\ 1 <= mo t <= 12 /\ 1 <= dy t <= days_in_month (yr t) (mo t) /\
  0 <= hh t <= 23 /\ 0 <= mi t <= 59 /\ 0 <= ss t <= 59 /\ 0 <= us t <= 999999.
Proof.
  intros t H. unfold valid_time in H.
  repeat (apply andb_prop in H; let H2 := fresh "H" in destruct H as [H H2]).
  repeat split; lia.
Qed.

Lemma expect_hit : forall cs c r, existsb (Z.eqb c) cs = true -> expect cs (c :: r) = Some r.
Proof. intros cs c r H. cbn [expect]. rewrite H. reflexivity. Qed.

Lemma parse_fmt_time : forall t, valid_time t = true -> parse_time (fmt_time t) = Some t.
Proof.
  intros t Hv. pose proof (valid_time_bounds t Hv) as (Hy & Hm & Hd & Hh & Hmi & Hs & Hu).
  pose proof (dim_bounds (yr t) (mo t)) as Hdim.
  destruct t as [y m d h n s u]. cbn [yr mo dy hh mi ss us] in *.
  unfold parse_time, fmt_time, fmt_rest. cbn [yr mo dy hh mi ss us].
  repeat match goal with |- context [ [?c] ++ ?x ] => change ([c] ++ x) with (c :: x) end.
  rewrite field_fmt4 by (try lia; reflexivity). cbn [bind].
  rewrite expect_hit by reflexivity. cbn [bind].
  rewrite field_fmt2 by (try lia; reflexivity). cbn [bind].
  rewrite expect_hit by reflexivity. cbn [bind].
  rewrite field_day_fmt2 by (try lia; reflexivity). cbn [bind].
  rewrite expect_hit by reflexivity. cbn [bind].
  rewrite field_fmt2 by (try lia; reflexivity). cbn [bind].
  rewrite expect_hit by reflexivity. cbn [bind].
  rewrite field_fmt2 by (try lia; reflexivity). cbn [bind].
  rewrite expect_hit by reflexivity. cbn [bind].
  rewrite field_fmt2 by (try lia; reflexivity). cbn [bind].
  rewrite expect_hit by reflexivity. cbn [bind].
  rewrite field_frac_fmt6 by lia. cbn [bind].
  rewrite Hv. reflexivity.
Qed.

(* whatever strptime accepts is a valid datetime: nothing out of range enters the cache *)
Lemma parse_time_valid : forall s t, parse_time s = Some t -> valid_time t = true.
Proof.
  intros s t H. unfold parse_time in H.
  repeat match type of H with
  | bind ?o _ = Some _ => destruct o as [[? ?]|] eqn:?; cbn [bind] in H; [|discriminate H]
  | bind ?o _ = Some _ => destruct o as [?|] eqn:?; cbn [bind] in H; [|discriminate H]
  end.
  match type of H with (if ?b then _ else _) = _ => destruct b eqn:E; [|discriminate H] end.
  inversion H; subst. exact E.
Qed.

(* the unchanged code: glibc's %Y is not padded, strptime's %Y wants four digits *)
Lemma asis_min_unreadable :
  let t := {| yr := 1; mo := 1; dy := 1; hh := 0; mi := 0; ss := 0; us := 0 |} in
  valid_time t = true /\ parse_time (fmt_time_asis t) = None.
Proof. vm_compute. split; reflexivity. Qed.

Lemma asis_same_from_1000 : forall t, 1000 <= yr t -> fmt_time_asis t = fmt_time t.
Proof.
  intros t H. unfold fmt_time_asis, fmt_time, fmt_plain.
  destruct (yr t <? 10) eqn:E1; [lia|]. destruct (yr t <? 100) eqn:E2; [lia|].
  destruct (yr t <? 1000) eqn:E3; [lia|]. reflexivity.
Qed.

Lemma asis_short_below_1000 : forall t, 1 <= yr t < 1000 -> valid_time t = true ->
  parse_time (fmt_time_asis t) = None.
Proof.
  intros t Hy Hv. pose proof (valid_time_bounds t Hv) as (_ & Hm & _).
  destruct t as [y m d h n s u]. cbn [yr mo] in *.
  unfold parse_time, fmt_time_asis, fmt_rest, fmt_plain. cbn [yr mo dy hh mi ss us].
  change ([c_dash] ++ ?x) with (c_dash :: x).
  assert (Hsep : sep c_dash) by reflexivity.
  assert (Hdig : forall a, 0 <= a <= 9 -> is_digit (digit a) = true) by (intros; apply is_digit_digit; lia).
  destruct (y <? 10) eqn:E1; [|destruct (y <? 100) eqn:E2; [|destruct (y <? 1000) eqn:E3; [|lia]]].
  - unfold field. change ([digit y] ++ ?x) with ([digit y] ++ x).
    rewrite (span_digits_app [digit y] (c_dash :: _)); [|repeat constructor; apply Hdig; lia|exact Hsep].
    reflexivity.
  - unfold field.
    rewrite (span_digits_app (fmt2 y) (c_dash :: _)); [|apply fmt2_digits; lia|exact Hsep].
    reflexivity.
  - unfold field.
    rewrite (span_digits_app [digit (y / 100); digit (y / 10 mod 10); digit (y mod 10)] (c_dash :: _));
      [|repeat constructor; apply Hdig; lia|exact Hsep].
    reflexivity.
Qed.

(* ====================================================================================== *)
(* 3. dictionaries, FileInfo <-> JSON, load_cache                                          *)
(* ====================================================================================== *)
Lemma str_eqb_true : forall a b, str_eqb a b = true -> a = b.
Proof.
  induction a as [|x a IH]; intros [|y b] H; cbn [str_eqb] in H; try discriminate; [reflexivity|].
  apply andb_prop in H. destruct H as [H1 H2]. apply Z.eqb_eq in H1. subst y.
  rewrite (IH b H2). reflexivity.
Qed.

Lemma str_eqb_refl : forall a, str_eqb a a = true.
Proof. induction a as [|x a IH]; cbn [str_eqb]; [reflexivity|]. rewrite Z.eqb_refl, IH. reflexivity. Qed.

Lemma key_eqb_true : forall a b, key_eqb a b = true -> a = b.
Proof.
  intros a b H. destruct a, b; cbn [key_eqb] in H; try discriminate; try reflexivity.
  - apply Bool.eqb_prop in H. subst. reflexivity.
  - apply Z.eqb_eq in H. subst. reflexivity.
  - apply str_eqb_true in H. subst. reflexivity.
Qed.

Lemma key_eqb_refl : forall a, hashable a = true -> key_eqb a a = true.
Proof.
  intros a H. destruct a; cbn [key_eqb hashable] in *; try discriminate; try reflexivity.
  - apply Bool.eqb_reflx.
  - apply Z.eqb_refl.
  - apply str_eqb_refl.
Qed.

Lemma key_eqb_neq : forall a b, a <> b -> key_eqb a b = false.
Proof. intros a b H. destruct (key_eqb a b) eqn:E; [|reflexivity]. apply key_eqb_true in E. contradiction. Qed.

Lemma upsert_fresh : forall e c, ~ In (e_path e) (map e_path c) -> upsert e c = c ++ [e].
Proof.
  intros e. induction c as [|x c IH]; intros H; [reflexivity|].
  cbn [upsert map In app] in *.
  rewrite key_eqb_neq by (intro E; apply H; left; exact E).
  rewrite IH by (intro E; apply H; right; exact E). reflexivity.
Qed.

Lemma update_app : forall es acc, NoDup (map e_path (acc ++ es)) -> update acc es = acc ++ es.
Proof.
  induction es as [|e es IH]; intros acc H.
  - rewrite app_nil_r. reflexivity.
  - unfold update in *. cbn [fold_left].
    assert (Hfresh : ~ In (e_path e) (map e_path acc)).
    { rewrite map_app in H. cbn [map] in H. apply NoDup_remove_2 in H.
      intro Hin. apply H. apply in_or_app. left. exact Hin. }
    rewrite (upsert_fresh e acc Hfresh).
    replace (acc ++ e :: es) with ((acc ++ [e]) ++ es) in * by (rewrite <- app_assoc; reflexivity).
    apply IH. exact H.
Qed.

Lemma update_nil : forall c, NoDup (map e_path c) -> update [] c = c.
Proof. intros c H. rewrite update_app; [reflexivity|exact H]. Qed.

Lemma get_path3 : forall p t a, get k_path [(k_path, p); (k_times, t); (k_attr, a)] = Some p.
Proof. reflexivity. Qed.
Lemma get_times3 : forall p t a, get k_times [(k_path, p); (k_times, t); (k_attr, a)] = Some t.
Proof. reflexivity. Qed.
Lemma get_attr3 : forall p t a, get k_attr [(k_path, p); (k_times, t); (k_attr, a)] = Some a.
Proof. reflexivity. Qed.

Lemma decode_entry_json : forall e, entry_ok e -> decode_entry (entry_json e) = Some e.
Proof.
  intros e (H0 & H1 & Hh & kv & Ha). destruct e as [p t0 t1 a]. cbn [e_path e_t0 e_t1 e_attr] in *.
  unfold entry_json, entry_json_with, decode_entry. cbn [e_path e_t0 e_t1 e_attr].
  rewrite get_path3. cbn [bind]. rewrite Hh. cbn [negb].
  rewrite get_times3. cbn [bind time_of].
  rewrite (parse_fmt_time t0 H0), (parse_fmt_time t1 H1). cbn [bind].
  rewrite get_attr3. cbn [bind]. subst a. reflexivity.
Qed.

Lemma decode_all_json : forall c, Forall entry_ok c -> decode_all (map entry_json c) = Some c.
Proof.
  induction c as [|e c IH]; intros H; [reflexivity|].
  inversion H as [|? ? He Hc]; subst. cbn [map decode_all].
  rewrite (decode_entry_json e He), (IH Hc). reflexivity.
Qed.

Lemma load_doc_of : forall c, Forall entry_ok c -> NoDup (map e_path c) -> load [] (doc_of c) = (c, Quiet).
Proof.
  intros c Hok Hnd. unfold load, doc_of. cbn [items].
  rewrite (decode_all_json c Hok). rewrite (update_nil c Hnd), (update_nil c Hnd). reflexivity.
Qed.

(* decode_entry is exactly the declarative `represents` *)
Lemma decode_entry_represents : forall j e, decode_entry j = Some e -> represents j e.
Proof.
  intros j e H. destruct j as [| | | | |kv]; cbn [decode_entry] in H; try discriminate.
  destruct (get k_path kv) as [p|] eqn:Ep; cbn [bind] in H; [|discriminate].
  destruct (hashable p) eqn:Eh; cbn [negb] in H; [|discriminate].
  destruct (get k_times kv) as [ts|] eqn:Et; cbn [bind] in H; [|discriminate].
  destruct ts as [| | | |l|]; try discriminate.
  destruct l as [|a [|b rest]]; try discriminate.
  destruct a as [| | |s0| |]; cbn [time_of bind] in H; try discriminate.
  destruct (parse_time s0) as [t0|] eqn:E0; cbn [bind] in H; [|discriminate].
  destruct b as [| | |s1| |]; cbn [time_of bind] in H; try discriminate.
  destruct (parse_time s1) as [t1|] eqn:E1; cbn [bind] in H; [|discriminate].
  destruct (get k_attr kv) as [at_|] eqn:Ea; cbn [bind] in H; [|discriminate].
  inversion H; subst e; clear H.
  exists kv, s0, s1, rest, at_. cbn [e_path e_t0 e_t1 e_attr]. repeat split; assumption || reflexivity.
Qed.

Lemma represents_decode_entry : forall j e, represents j e -> decode_entry j = Some e.
Proof.
  intros j e (kv & s0 & s1 & rest & a & Hj & Hp & Hh & Ht & H0 & H1 & Ha & Hat).
  subst j. destruct e as [p t0 t1 at_]. cbn [e_path e_t0 e_t1 e_attr] in *.
  cbn [decode_entry]. rewrite Hp. cbn [bind]. rewrite Hh. cbn [negb]. rewrite Ht. cbn [bind time_of].
  rewrite H0, H1. cbn [bind]. rewrite Ha. cbn [bind]. subst at_. reflexivity.
Qed.

Lemma decode_all_spec : forall l es, decode_all l = Some es <-> Forall2 represents l es.
Proof.
  induction l as [|j l IH]; intros es; cbn [decode_all].
  - split; intros H; [inversion H; constructor|inversion H; reflexivity].
  - split.
    + intros H. destruct (decode_entry j) as [e|] eqn:E; [|discriminate].
      destruct (decode_all l) as [es'|] eqn:E'; [|discriminate]. inversion H; subst.
      constructor; [apply decode_entry_represents; exact E|apply IH; reflexivity].
    + intros H. inversion H as [|? e ? es' Hr Hrest]; subst.
      rewrite (represents_decode_entry j e Hr). apply IH in Hrest. rewrite Hrest. reflexivity.
Qed.

Lemma load_wellformed_lemma : forall c0 v l es, items v = Some l -> Forall2 represents l es ->
  load c0 v = (update c0 (update [] es), Quiet).
Proof.
  intros c0 v l es Hi Hr. unfold load. rewrite Hi. apply decode_all_spec in Hr. rewrite Hr. reflexivity.
Qed.

Lemma load_malformed_lemma : forall c0 v, ~ well_formed_doc v -> load c0 v = (c0, Warned).
Proof.
  intros c0 v H. unfold load. destruct (items v) as [l|] eqn:Ei; [|reflexivity].
  destruct (decode_all l) as [es|] eqn:Ed; [|reflexivity].
  exfalso. apply H. exists l, es. split; [exact Ei|apply decode_all_spec; exact Ed].
Qed.

Lemma load_all_or_nothing_lemma : forall c0 v,
  (~ well_formed_doc v /\ load c0 v = (c0, Warned)) \/
  (exists l es, items v = Some l /\ Forall2 represents l es /\ load c0 v = (update c0 (update [] es), Quiet)).
Proof.
  intros c0 v. unfold load. destruct (items v) as [l|] eqn:Ei.
  - destruct (decode_all l) as [es|] eqn:Ed.
    + right. exists l, es. split; [reflexivity|]. split; [apply decode_all_spec; exact Ed|reflexivity].
    + left. split; [|reflexivity]. intros (l' & es & Hi & Hr). rewrite Ei in Hi. inversion Hi; subst l'.
      apply decode_all_spec in Hr. rewrite Hr in Ed. discriminate.
  - left. split; [|reflexivity]. intros (l' & es & Hi & _). rewrite Ei in Hi. discriminate.
Qed.

(* one bad entry anywhere spoils the whole document *)
Lemma decode_all_bad : forall l j, In j l -> decode_entry j = None -> decode_all l = None.
Proof.
  induction l as [|x l IH]; intros j Hin Hbad; [contradiction|].
  cbn [decode_all]. destruct Hin as [->|Hin].
  - rewrite Hbad. reflexivity.
  - destruct (decode_entry x); [|reflexivity]. rewrite (IH j Hin Hbad). reflexivity.
Qed.

Lemma bad_entry_lemma : forall c0 l j, In j l -> decode_entry j = None -> load c0 (JArr l) = (c0, Warned).
Proof. intros c0 l j Hin Hbad. unfold load. cbn [items]. rewrite (decode_all_bad l j Hin Hbad). reflexivity. Qed.

(* the kinds of damaged entries of the property statement, each rejected *)
Lemma bad_entry_kinds : forall kv,
  (* not an object *)
  decode_entry JNull = None /\ (forall b, decode_entry (JBool b) = None) /\ (forall n, decode_entry (JNum n) = None) /\
  (forall s, decode_entry (JStr s) = None) /\ (forall l, decode_entry (JArr l) = None) /\
  (* a missing key *)
  (get k_path kv = None -> decode_entry (JObj kv) = None) /\
  (get k_times kv = None -> decode_entry (JObj kv) = None) /\
  (get k_attr kv = None -> decode_entry (JObj kv) = None) /\
  (* times that are not a list of at least two strings: null, a number, too short ... *)
  (forall ts, get k_times kv = Some ts ->
     (forall s0 s1 rest, ts <> JArr (JStr s0 :: JStr s1 :: rest)) -> decode_entry (JObj kv) = None) /\
  (* a time string strptime rejects *)
  (forall s0 s1 rest, get k_times kv = Some (JArr (JStr s0 :: JStr s1 :: rest)) ->
     parse_time s0 = None \/ parse_time s1 = None -> decode_entry (JObj kv) = None).
Proof.
  intros kv. repeat split; try reflexivity.
  - intros H. cbn [decode_entry]. rewrite H. reflexivity.
  - intros H. cbn [decode_entry]. destruct (get k_path kv) as [p|]; [|reflexivity]. cbn [bind].
    destruct (negb (hashable p)); [reflexivity|]. rewrite H. reflexivity.
  - intros H. destruct (decode_entry (JObj kv)) as [e|] eqn:E; [|reflexivity].
    apply decode_entry_represents in E. destruct E as (kv' & s0 & s1 & rest & a & Hj & _ & _ & _ & _ & _ & Ha & _).
    inversion Hj; subst kv'. rewrite H in Ha. discriminate.
  - intros ts Hts Hne. destruct (decode_entry (JObj kv)) as [e|] eqn:E; [|reflexivity].
    apply decode_entry_represents in E. destruct E as (kv' & s0 & s1 & rest & a & Hj & _ & _ & Ht & _).
    inversion Hj; subst kv'. rewrite Hts in Ht. inversion Ht. exfalso. apply (Hne s0 s1 rest). assumption.
  - intros s0 s1 rest Hts Hbad. destruct (decode_entry (JObj kv)) as [e|] eqn:E; [|reflexivity].
    apply decode_entry_represents in E. destruct E as (kv' & s0' & s1' & rest' & a & Hj & _ & _ & Ht & H0 & H1 & _).
    inversion Hj; subst kv'. rewrite Hts in Ht. inversion Ht; subst.
    destruct Hbad as [Hb|Hb]; [rewrite Hb in H0|rewrite Hb in H1]; discriminate.
Qed.

(* a document that is not a sequence at all *)
Lemma scalar_doc_lemma : forall c0,
  load c0 JNull = (c0, Warned) /\ (forall b, load c0 (JBool b) = (c0, Warned)) /\
  (forall n, load c0 (JNum n) = (c0, Warned)).
Proof. intros c0. repeat split. Qed.

(* every time that load puts into the cache is a valid datetime that the document spells out *)
Lemma loaded_times_valid : forall j e, represents j e -> valid_time (e_t0 e) = true /\ valid_time (e_t1 e) = true.
Proof.
  intros j e (kv & s0 & s1 & rest & a & _ & _ & _ & _ & H0 & H1 & _).
  split; eapply parse_time_valid; eassumption.
Qed.

(* ====================================================================================== *)
(* 4. save, crash, restart -- with the json module as a parameter                          *)
(* ====================================================================================== *)
Section CodecProofs.
  Context {A : Type} (render : json -> list A) (parse : list A -> option json).
  Hypothesis parse_render : forall v, parse (render v) = Some v.

  Lemma restart_of_doc : forall c b, cache_ok c ->
    restart parse {| main := Some (render (doc_of c)); backup := b |} = (c, Quiet).
  Proof.
    intros c b [Hok Hnd]. unfold restart. cbn [main file_of load_file].
    rewrite parse_render. apply load_doc_of; assumption.
  Qed.

  Lemma save_load_roundtrip_lemma : forall c d, cache_ok c -> restart parse (save render c d) = (c, Quiet).
  Proof. intros c d H. unfold save. rewrite run_save. apply restart_of_doc. exact H. Qed.

  Lemma restart_main : forall d1 d2, main d1 = main d2 -> restart parse d1 = restart parse d2.
  Proof. intros d1 d2 H. unfold restart. rewrite H. reflexivity. Qed.

  (* a save that dies after any number of primitives: the next interpreter sees the old cache or the new one *)
  Lemma crash_then_restart_lemma : forall k c d, cache_ok c ->
    let d' := crash_after k (save_ops (render (doc_of c))) d in
    restart parse d' = restart parse d \/ restart parse d' = (c, Quiet).
  Proof.
    intros k c d Hc d'. pose proof (crash_main_exact k (render (doc_of c)) d) as E. fold d' in E.
    destruct (length (save_ops (render (doc_of c))) <=? k)%nat.
    - right. unfold restart. rewrite E. cbn [file_of load_file]. rewrite parse_render.
      destruct Hc as [Hok Hnd]. apply load_doc_of; assumption.
    - left. apply restart_main. exact E.
  Qed.

  Lemma last_completed_cache : forall (h : list (cache * option nat)) (m : option cache),
    last_completed (option_map (fun c => render (doc_of c)) m) (map (cache_event render) h)
    = option_map (fun c => render (doc_of c)) (last_cache render m h).
  Proof.
    induction h as [|e h IH]; intros m; [reflexivity|].
    cbn [map last_completed last_cache].
    destruct (completed (cache_event render e)) eqn:E.
    - rewrite <- (IH (Some (fst e))). reflexivity.
    - apply IH.
  Qed.

  Lemma last_cache_ok : forall (h : list (cache * option nat)) (m : option cache),
    Forall (fun e => cache_ok (fst e)) h -> (forall c, m = Some c -> cache_ok c) ->
    forall c, last_cache render m h = Some c -> cache_ok c.
  Proof.
    induction h as [|e h IH]; intros m Hh Hm c Hc; cbn [last_cache] in Hc.
    - apply Hm. exact Hc.
    - inversion Hh as [|? ? He Hh']; subst.
      apply (IH (if completed (cache_event render e) then Some (fst e) else m) Hh') with (c := c); [|exact Hc].
      intros c' Hc'. destruct (completed (cache_event render e)); [inversion Hc'; subst; exact He|apply Hm; exact Hc'].
  Qed.

  (* any history of saves and crashes, starting from a saved cache c0 (or no file): a restart finds
     exactly the cache of the last save that ran to its end *)
  Lemma history_restart_lemma : forall (h : list (cache * option nat)) (m : option cache) b,
    Forall (fun e => cache_ok (fst e)) h -> (forall c, m = Some c -> cache_ok c) ->
    restart parse (run_history (map (cache_event render) h)
                               {| main := option_map (fun c => render (doc_of c)) m; backup := b |})
    = match last_cache render m h with Some c => (c, Quiet) | None => ([], Quiet) end.
  Proof.
    intros h m b Hh Hm.
    pose proof (last_cache_ok h m Hh Hm) as Hlast.
    unfold restart. rewrite history_safe_lemma. cbn [main]. rewrite last_completed_cache.
    destruct (last_cache render m h) as [c|] eqn:E; cbn [option_map file_of load_file].
    - rewrite parse_render. destruct (Hlast c eq_refl) as [Hok Hnd]. apply load_doc_of; assumption.
    - reflexivity.
  Qed.

  (* damage to the file itself *)
  Lemma damaged_file_lemma : forall c0,
    load_file parse c0 Missing = (c0, Quiet) /\
    load_file parse c0 Unreadable = (c0, Warned) /\
    (forall b, parse b = None -> load_file parse c0 (Content b) = (c0, Warned)) /\
    (forall b v, parse b = Some v -> ~ well_formed_doc v -> load_file parse c0 (Content b) = (c0, Warned)).
  Proof.
    intros c0. repeat split; try reflexivity.
    - intros b H. cbn [load_file]. rewrite H. reflexivity.
    - intros b v H Hv. cbn [load_file]. rewrite H. apply load_malformed_lemma. exact Hv.
  Qed.

  (* truncation at any byte: json.load rejects every proper prefix of a dumped list *)
  Hypothesis prefix_rejected : forall l p, strict_prefix p (render (JArr l)) -> parse p = None.

  Lemma truncated_lemma : forall c0 c p, strict_prefix p (render (doc_of c)) ->
    load_file parse c0 (Content p) = (c0, Warned).
  Proof. intros c0 c p H. cbn [load_file]. unfold doc_of in H. rewrite (prefix_rejected _ p H). reflexivity. Qed.
End CodecProofs.

(* ====================================================================================== *)
(* 5. find() with and without the cache                                                    *)
(* ====================================================================================== *)
Section FindProofs.
  Variable info_of : json -> entry.
  Hypothesis path_of_info : forall p, e_path (info_of p) = p.

  Lemma lookup_hit : forall p c e, lookup p c = Some e -> In e c /\ e_path e = p.
  Proof.
    intros p. induction c as [|x c IH]; intros e H; cbn [lookup] in H; [discriminate|].
    destruct (key_eqb (e_path x) p) eqn:E.
    - inversion H; subst. split; [left; reflexivity|apply key_eqb_true; exact E].
    - destruct (IH e H) as [Hin Hp]. split; [right; exact Hin|exact Hp].
  Qed.

  Lemma upsert_consistent : forall e c, e = info_of (e_path e) -> consistent info_of c -> consistent info_of (upsert e c).
  Proof.
    intros e c He. unfold consistent. induction c as [|x c IH]; intros H; cbn [upsert].
    - constructor; [exact He|constructor].
    - inversion H as [|? ? Hx Hc]; subst. destruct (key_eqb (e_path x) (e_path e)).
      + constructor; [exact He|exact Hc].
      + constructor; [exact Hx|apply IH; exact Hc].
  Qed.

  Lemma get_info_same : forall c p, consistent info_of c ->
    fst (get_info info_of c p) = info_of p /\ consistent info_of (snd (get_info info_of c p)).
  Proof.
    intros c p Hc. unfold get_info. destruct (lookup p c) as [e|] eqn:E; cbn [fst snd].
    - destruct (lookup_hit p c e E) as [Hin Hp]. split; [|exact Hc].
      unfold consistent in Hc. rewrite Forall_forall in Hc. rewrite (Hc e Hin). rewrite Hp. reflexivity.
    - split; [reflexivity|]. apply upsert_consistent; [|exact Hc]. rewrite path_of_info. reflexivity.
  Qed.

  Lemma find_same_lemma : forall keep paths c, consistent info_of c ->
    fst (find_with info_of keep c paths) = filter keep (map info_of paths) /\
    consistent info_of (snd (find_with info_of keep c paths)).
  Proof.
    intros keep. induction paths as [|p paths IH]; intros c Hc; cbn [find_with map filter].
    - split; [reflexivity|exact Hc].
    - pose proof (get_info_same c p Hc) as [H1 H2].
      destruct (get_info info_of c p) as [e c1]. cbn [fst snd] in H1, H2. subst e.
      destruct (IH c1 H2) as [H3 H4].
      destruct (find_with info_of keep c1 paths) as [r c2]. cbn [fst snd] in *. subst r.
      split; [|exact H4]. destruct (keep (info_of p)); reflexivity.
  Qed.

  Lemma consistent_nil : consistent info_of [].
  Proof. constructor. Qed.
End FindProofs.
