(* C18 -- the index bookkeeping between the two sort orders of BMCI: the x-sorted index view restricted and
   shifted to the chi^2 window, the window as a filter on the projections, and rank invariance of searchsorted. *)
From Coq Require Import ZArith List Bool Reals Lra Lia Sorted Permutation.
From Typhon Require Import Model.C18_bmci Proofs.C18_window Proofs.C18_stats.
Import ListNotations.

(* ------------------------------------------------------------------ list access *)
Lemma nth_firstn_lt {A} (l : list A) n i d : (i < n)%nat -> nth i (firstn n l) d = nth i l d.
Proof.
  revert n i. induction l as [|a l IH]; intros n i H; [rewrite firstn_nil; reflexivity|].
  destruct n as [|n]; [lia|]. destruct i as [|i]; [reflexivity|]. cbn [firstn nth]. apply IH. lia.
Qed.
Lemma nth_skipn_add {A} (l : list A) n i d : nth i (skipn n l) d = nth (n + i) l d.
Proof.
  revert l. induction n as [|n IH]; intros l; [reflexivity|].
  destruct l as [|a l]; [destruct i; reflexivity|]. cbn [skipn Nat.add nth]. apply IH.
Qed.
Lemma nth_slice {A} (l : list A) il iu k d : (il <= k < iu)%nat -> nth (k - il) (slice il iu l) d = nth k l d.
Proof.
  intros H. unfold slice. rewrite nth_firstn_lt by lia. rewrite nth_skipn_add. f_equal. lia.
Qed.
Lemma slice_length {A} (l : list A) il iu : (il <= iu <= length l)%nat -> length (slice il iu l) = (iu - il)%nat.
Proof. intros H. unfold slice. rewrite firstn_length, skipn_length. lia. Qed.

Lemma in_range_iff il iu k : in_range il iu k = true <-> (il <= k < iu)%nat.
Proof. unfold in_range. rewrite andb_true_iff, Nat.leb_le, Nat.ltb_lt. tauto. Qed.

Lemma take_idx_seq {A} (d : A) (l : list A) : take_idx d l (seq 0 (length l)) = l.
Proof.
  unfold take_idx. induction l as [|a l IH]; [reflexivity|].
  cbn [length seq map nth]. f_equal. rewrite <- seq_shift, map_map. cbn [nth]. exact IH.
Qed.

Lemma map_sub_seq il a c : map (fun k => (k - il)%nat) (seq (il + a) c) = seq a c.
Proof.
  revert a. induction c as [|c IH]; intros a; [reflexivity|].
  cbn [seq map]. f_equal; [lia|]. replace (S (il + a)) with (il + S a)%nat by lia. apply IH.
Qed.

(* ------------------------------------------------------------------ the view *)
Section View.
  Context {A : Type}.
  Variable le : A -> A -> Prop.
  Variable d : A.

  (* the shift by i_l addresses, inside the window slice, exactly the entries the x-sorted view selects *)
  Lemma view_of_unshifted (l : list A) xinds il iu :
    view_of d l xinds il iu = take_idx d l (filter (in_range il iu) xinds).
  Proof.
    unfold view_of, view, take_idx. rewrite map_map.
    apply map_ext_in. intros k Hk. apply filter_In in Hk as [_ Hk]. apply in_range_iff in Hk.
    apply nth_slice. exact Hk.
  Qed.

  Lemma sorted_filter_map {B} (f : B -> A) (P : B -> bool) l :
    StronglySorted le (map f l) -> StronglySorted le (map f (filter P l)).
  Proof.
    induction l as [|b l IH]; intros H; [constructor|].
    cbn [map] in H. inversion H as [|a0 l0 Hs Hf]; subst.
    cbn [filter]. destruct (P b); [|apply IH; exact Hs].
    cbn [map]. constructor; [apply IH; exact Hs|].
    rewrite Forall_map in *. rewrite Forall_forall in *. intros x Hx. apply Hf.
    apply filter_In in Hx as [Hx _]. exact Hx.
  Qed.

  Lemma view_perm_seq xinds n il iu : (il <= iu <= n)%nat -> Permutation xinds (seq 0 n) ->
    Permutation (view xinds il iu) (seq 0 (iu - il)).
  Proof.
    intros Hr HP. unfold view.
    rewrite <- (map_sub_seq il 0 (iu - il)). apply Permutation_map. rewrite Nat.add_0_r.
    apply NoDup_Permutation.
    - apply NoDup_filter. eapply Permutation_NoDup; [symmetry; exact HP|apply seq_NoDup].
    - apply seq_NoDup.
    - intros k. rewrite filter_In, in_range_iff, in_seq. split.
      + intros [_ H]. lia.
      + intros H. split; [|lia]. eapply Permutation_in; [symmetry; exact HP|]. apply in_seq. lia.
  Qed.

  (* view_is_sorted_window: for an ascending index view of x (the contract of argsort), the double index
     bookkeeping yields exactly the entries of the window, in ascending order of x. *)
  Lemma view_sorted_window (xs : list A) xinds il iu :
    (il <= iu <= length xs)%nat ->
    Permutation xinds (seq 0 (length xs)) ->
    StronglySorted le (take_idx d xs xinds) ->
    StronglySorted le (view_of d xs xinds il iu) /\
    Permutation (view xinds il iu) (seq 0 (iu - il)) /\
    Permutation (view_of d xs xinds il iu) (slice il iu xs).
  Proof.
    intros Hr HP Hs. split; [|split].
    - rewrite view_of_unshifted. unfold take_idx in *. apply sorted_filter_map. exact Hs.
    - apply view_perm_seq with (n := length xs); assumption.
    - unfold view_of.
      pose proof (view_perm_seq xinds (length xs) il iu Hr HP) as Hv.
      rewrite <- (take_idx_seq d (slice il iu xs)) at 2. rewrite slice_length by exact Hr.
      unfold take_idx. apply Permutation_map. exact Hv.
  Qed.
End View.

(* ------------------------------------------------------------------ searchsorted only compares *)
Lemma searchsorted_rank_invariant {A B} (ltA : A -> A -> bool) (ltB : B -> B -> bool) (phi : A -> B) ps s :
  (forall a b, ltB (phi a) (phi b) = ltA a b) ->
  searchsorted ltB (map phi ps) (phi s) = searchsorted ltA ps s.
Proof.
  intros H. induction ps as [|p r IH]; [reflexivity|]. cbn [map searchsorted]. rewrite H, IH. reflexivity.
Qed.

(* ------------------------------------------------------------------ the window is a filter on the projections *)
Section Filter.
  Context {A E : Type}.
  Variable ltb : A -> A -> bool.
  Hypothesis ge_trans : forall a b c, ltb a b = false -> ltb b c = false -> ltb a c = false.
  Variable key : E -> A.

  Definition inwin (sl su : A) (e : E) : bool := negb (ltb (key e) sl) && ltb (key e) su.

  Lemma filter_all_ge l s p0 : ltb p0 s = false -> Forall (fun e => ltb (key e) p0 = false) l ->
    filter (fun e => ltb (key e) s) l = [].
  Proof.
    intros H0 Hf. induction Hf as [|e l He _ IH]; [reflexivity|]. cbn [filter].
    rewrite (ge_trans _ _ _ He H0). exact IH.
  Qed.

  Lemma firstn_searchsorted l s : ascending ltb (map key l) ->
    firstn (searchsorted ltb (map key l) s) l = filter (fun e => ltb (key e) s) l.
  Proof.
    induction l as [|e l IH]; intros Hs; [reflexivity|].
    cbn [map] in Hs. inversion Hs as [|a0 l0 Hs' Hf]; subst.
    cbn [map searchsorted filter]. destruct (ltb (key e) s) eqn:E0.
    - cbn [firstn]. f_equal. apply IH. exact Hs'.
    - cbn [firstn]. symmetry. apply filter_all_ge with (p0 := key e); [exact E0|].
      rewrite Forall_map in Hf. exact Hf.
  Qed.

  Lemma skipn_searchsorted l s : ascending ltb (map key l) ->
    skipn (searchsorted ltb (map key l) s) l = filter (fun e => negb (ltb (key e) s)) l.
  Proof.
    induction l as [|e l IH]; intros Hs; [reflexivity|].
    cbn [map] in Hs. inversion Hs as [|a0 l0 Hs' Hf]; subst.
    cbn [map searchsorted filter]. destruct (ltb (key e) s) eqn:E0; cbn [negb skipn].
    - apply IH. exact Hs'.
    - f_equal. rewrite Forall_map in Hf. clear IH Hs Hs'. induction Hf as [|e' l' He' _ IH']; [reflexivity|].
      cbn [filter]. rewrite (ge_trans _ _ _ He' E0). cbn [negb]. f_equal. exact IH'.
  Qed.

  Lemma ascending_filter (P : E -> bool) l : ascending ltb (map key l) -> ascending ltb (map key (filter P l)).
  Proof. unfold ascending. apply sorted_filter_map. Qed.

  Lemma searchsorted_filter_ge l sl su : ascending ltb (map key l) -> ltb su sl = false ->
    (searchsorted ltb (map key l) su - searchsorted ltb (map key l) sl)%nat
    = searchsorted ltb (map key (filter (fun e => negb (ltb (key e) sl)) l)) su.
  Proof.
    (* sl <= su: entries below sl are also below su *)
    intros Hs Hle. induction l as [|e l IH]; [reflexivity|].
    cbn [map] in Hs. inversion Hs as [|a0 l0 Hs' Hf]; subst.
    cbn [map searchsorted filter]. destruct (ltb (key e) sl) eqn:E1.
    - assert (E2 : ltb (key e) su = true).
      { destruct (ltb (key e) su) eqn:E2; [reflexivity|]. rewrite (ge_trans _ _ _ E2 Hle) in E1. discriminate. }
      rewrite E2. cbn [negb]. cbn [Nat.sub]. apply IH. exact Hs'.
    - cbn [negb map searchsorted]. rewrite Nat.sub_0_r. destruct (ltb (key e) su) eqn:E2; [|reflexivity].
      f_equal. rewrite Forall_map in Hf.
      assert (Hall : filter (fun e0 => negb (ltb (key e0) sl)) l = l).
      { clear IH Hs Hs' E2. induction Hf as [|e' l' He' _ IH']; [reflexivity|]. cbn [filter].
        rewrite (ge_trans _ _ _ He' E1). cbn [negb]. f_equal. exact IH'. }
      rewrite Hall. reflexivity.
  Qed.

  (* on a list kept ascending along the key, the searchsorted window [i_l, i_u) holds exactly the entries
     with sl <= key < su, in their order *)
  Lemma window_is_filter l sl su il iu : ascending ltb (map key l) -> ltb su sl = false ->
    window ltb (map key l) sl su = (il, iu) ->
    slice il iu l = filter (inwin sl su) l.
  Proof.
    intros Hs Hle Hw. unfold window in Hw. injection Hw as <- <-. unfold slice.
    rewrite skipn_searchsorted by exact Hs.
    rewrite (searchsorted_filter_ge l sl su Hs Hle).
    rewrite firstn_searchsorted by (apply ascending_filter; exact Hs).
    unfold inwin. clear. induction l as [|e l IH]; [reflexivity|]. cbn [filter].
    destruct (ltb (key e) sl); cbn [negb andb filter]; [exact IH|].
    destruct (ltb (key e) su); [f_equal|]; exact IH.
  Qed.
End Filter.

(* ------------------------------------------------------------------ order independence, both modes *)
Open Scope R_scope.

Lemma half_width_nonneg_any pc1_e x2 : 0 <= half_width pc1_e x2.
Proof. unfold half_width. apply sqrt_pos. Qed.

Lemma predict_window_as_filter m Sinv v ymean pc1_e db yobs x2 :
  0 <= x2 -> ascending Rltb (projs m v ymean db) ->
  let yp := dot m v (vsub yobs ymean) in
  let h := half_width pc1_e x2 in
  window_xw m Sinv v ymean pc1_e db yobs x2 =
  all_xw m Sinv yobs (filter (inwin Rltb (fun e => proj m v ymean (fst e)) (yp - h) (yp + h)) db).
Proof.
  intros Hx Hs yp h. unfold window_xw, weights.
  destruct (Rlt_dec x2 0) as [Hn|_]; [lra|].
  destruct (find_hits m v ymean pc1_e db yobs x2) as [il iu] eqn:Efh. cbv beta iota zeta.
  unfold find_hits in Efh. fold yp h in Efh. unfold projs in Efh, Hs.
  assert (Hle : Rltb (yp + h) (yp - h) = false).
  { apply Rltb_false. pose proof (half_width_nonneg_any pc1_e x2). fold h in H. lra. }
  unfold entry in *.
  rewrite (window_is_filter Rltb Rltb_ge_trans (fun e => proj m v ymean (fst e)) db _ _ il iu Hs Hle Efh).
  unfold gauss_prob, all_xw. apply combine_map2.
Qed.

Lemma filter_perm {A} (P : A -> bool) l l' : Permutation l l' -> Permutation (filter P l) (filter P l').
Proof.
  intros HP. induction HP as [|a l l' _ IH|a b l|l1 l2 l3 _ IH1 _ IH2]; cbn [filter].
  - constructor.
  - destruct (P a); [constructor|]; exact IH.
  - destruct (P a), (P b); try apply Permutation_refl. apply perm_swap.
  - eapply Permutation_trans; eassumption.
Qed.

Lemma predict_order_independent m Sinv v ymean pc1_e db db' yobs x2 :
  Permutation db db' ->
  ascending Rltb (projs m v ymean db) -> ascending Rltb (projs m v ymean db') ->
  predict m Sinv v ymean pc1_e db yobs x2 = predict m Sinv v ymean pc1_e db' yobs x2.
Proof.
  intros HP Hs Hs'. unfold predict. destruct (Rlt_dec x2 0) as [Hn|Hp].
  - rewrite !window_xw_unrestricted by exact Hn. apply predict_xw_perm. apply all_xw_perm. exact HP.
  - rewrite !predict_window_as_filter by (try lra; assumption). cbv zeta.
    apply predict_xw_perm. apply all_xw_perm.
    apply filter_perm. exact HP.
Qed.

(* ------------------------------------------------------------------ pipeline-level statements *)
Lemma all_xw_wtot_pos m Sinv yobs db : db <> [] -> 0 < wtot (all_xw m Sinv yobs db).
Proof.
  intros Hne. unfold wtot, all_xw. rewrite map_map.
  destruct db as [|e db]; [contradiction|]. cbn [map rsum snd].
  pose proof (weight_pos m Sinv yobs (fst e)) as H1.
  set (r := rsum _).
  assert (H2 : 0 <= r).
  { unfold r. apply rsum_nonneg. rewrite Forall_map. rewrite Forall_forall. intros x _. cbn [snd]. left. apply weight_pos. }
  lra.
Qed.

Lemma all_xw_weights_nonneg m Sinv yobs db : Forall (fun p => 0 <= snd p) (all_xw m Sinv yobs db).
Proof. unfold all_xw. rewrite Forall_map. rewrite Forall_forall. intros x _. cbn [snd]. left. apply weight_pos. Qed.

Lemma predict_unrestricted m Sinv v ymean pc1_e db yobs x2 : x2 < 0 -> db <> [] ->
  predict m Sinv v ymean pc1_e db yobs x2 =
  Some (wmean (all_xw m Sinv yobs db), wstd (all_xw m Sinv yobs db)).
Proof.
  intros Hx Hne. unfold predict. rewrite window_xw_unrestricted by exact Hx.
  apply predict_xw_some. apply all_xw_wtot_pos. exact Hne.
Qed.

Lemma predict_windowed m Sinv v ymean pc1_e db yobs x2 :
  0 <= x2 -> ascending Rltb (projs m v ymean db) ->
  let yp := dot m v (vsub yobs ymean) in
  let h := half_width pc1_e x2 in
  let kept := filter (inwin Rltb (fun e => proj m v ymean (fst e)) (yp - h) (yp + h)) db in
  (kept <> [] -> predict m Sinv v ymean pc1_e db yobs x2 =
                 Some (wmean (all_xw m Sinv yobs kept), wstd (all_xw m Sinv yobs kept))) /\
  (kept = [] -> predict m Sinv v ymean pc1_e db yobs x2 = None).
Proof.
  intros Hx Hs yp h kept. unfold predict.
  rewrite (predict_window_as_filter m Sinv v ymean pc1_e db yobs x2 Hx Hs). cbv zeta. fold yp h kept. split.
  - intros Hne. apply predict_xw_some. apply all_xw_wtot_pos. exact Hne.
  - intros ->. apply predict_xw_none. unfold wtot, all_xw. cbn. lra.
Qed.

Lemma all_xw_slice m Sinv yobs db il iu : all_xw m Sinv yobs (slice il iu db) = slice il iu (all_xw m Sinv yobs db).
Proof. unfold all_xw, slice. rewrite skipn_map, firstn_map. reflexivity. Qed.

Lemma pruning_error_pipeline m Sinv v ymean pc1_e db yobs x2 lo hi il iu ws :
  0 <= x2 ->
  weights m Sinv v ymean pc1_e db yobs x2 = (il, iu, ws) ->
  Forall (fun e => lo <= snd e <= hi) db ->
  0 < wtot (window_xw m Sinv v ymean pc1_e db yobs x2) ->
  Rabs (wmean (window_xw m Sinv v ymean pc1_e db yobs x2) - wmean (all_xw m Sinv yobs db)) <=
    wtot (all_xw m Sinv yobs (firstn il db ++ skipn iu db)) / wtot (all_xw m Sinv yobs db) * (hi - lo).
Proof.
  intros Hx Hw Hb. unfold window_xw. rewrite Hw. revert Hw. unfold weights.
  destruct (Rlt_dec x2 0) as [Hn|_]; [lra|].
  destruct (find_hits m v ymean pc1_e db yobs x2) as [il' iu'] eqn:Efh. intros Hw. injection Hw as <- <- <-.
  unfold gauss_prob. rewrite combine_map2. fold (all_xw m Sinv yobs (slice il' iu' db)).
  rewrite all_xw_slice. intros Hpos.
  destruct (le_lt_dec il' iu') as [Hle|Hgt].
  - assert (E : all_xw m Sinv yobs (firstn il' db ++ skipn iu' db)
               = firstn il' (all_xw m Sinv yobs db) ++ skipn iu' (all_xw m Sinv yobs db)).
    { unfold all_xw. rewrite map_app, firstn_map, skipn_map. reflexivity. }
    rewrite E. apply pruning_error_slice; [exact Hle| |exact Hpos].
    unfold all_xw. rewrite Forall_map. rewrite Forall_forall in *. intros e He. cbn [fst snd].
    split; [left; apply weight_pos|apply Hb; exact He].
  - exfalso. unfold slice in Hpos. replace (iu' - il')%nat with 0%nat in Hpos by lia.
    unfold wtot in Hpos. cbn in Hpos. lra.
Qed.

Lemma strongly_sorted_nondecreasing l : StronglySorted Rle l -> nondecreasing l.
Proof.
  intros H. induction H as [|a l Hs IH Hf]; [exact I|]. apply nondecreasing_cons. split; [|exact IH].
  destruct l as [|b l]; [exact I|]. inversion Hf; assumption.
Qed.

Lemma no_weight_all_nan xw : Forall (fun p => snd p = 0) xw ->
  predict_xw xw = None /\ snd (cdf_xw xw) = None /\ forall tau, quantile_xw xw tau = None.
Proof.
  intros Hz.
  assert (Hn : ~ 0 < wtot xw).
  { unfold wtot. assert (Hz' : Forall (fun w => w = 0) (map snd xw)) by (apply Forall_map; exact Hz).
    rewrite (rsum_all_zero _ Hz'). lra. }
  split; [apply predict_xw_none; exact Hn|]. split; [apply cdf_xw_none; exact Hn|].
  intros tau. apply quantile_xw_none. exact Hn.
Qed.

(* ------------------------------------------------------------------ the pairs cdf / quantiles work on *)
Lemma combine_take_idx {A B} (dA : A) (dB : B) (X : list A) (W : list B) V :
  combine (take_idx dA X V) (take_idx dB W V) = map (fun k => (nth k X dA, nth k W dB)) V.
Proof. unfold take_idx. induction V as [|k V IH]; [reflexivity|]. cbn [map combine]. rewrite IH. reflexivity. Qed.

Lemma map_nth_pairs {A B} (dA : A) (dB : B) (X : list A) (W : list B) : length X = length W ->
  map (fun k => (nth k X dA, nth k W dB)) (seq 0 (length X)) = combine X W.
Proof.
  intros Hl.
  rewrite <- (take_idx_seq (dA, dB) (combine X W)) at 1.
  rewrite combine_length, <- Hl, Nat.min_id. unfold take_idx.
  apply map_ext. intros k. symmetry. apply combine_nth. exact Hl.
Qed.

Lemma slice_map {A B} (f : A -> B) l il iu : slice il iu (map f l) = map f (slice il iu l).
Proof. unfold slice. rewrite skipn_map, firstn_map. reflexivity. Qed.

(* the (x, w) pairs cdf / predict_quantiles work on are exactly the pairs of the window, each once, in
   ascending order of x *)
Lemma view_xw_is_sorted_window m Sinv v ymean pc1_e (db : list entry) xinds yobs x2 il iu ws :
  weights m Sinv v ymean pc1_e db yobs x2 = (il, iu, ws) ->
  (il <= iu <= length db)%nat ->
  Permutation xinds (seq 0 (length db)) ->
  StronglySorted Rle (take_idx 0 (map snd db) xinds) ->
  Permutation (view_xw m Sinv v ymean pc1_e db xinds yobs x2) (window_xw m Sinv v ymean pc1_e db yobs x2) /\
  nondecreasing (map fst (view_xw m Sinv v ymean pc1_e db xinds yobs x2)).
Proof.
  intros Hw Hr HP Hs. unfold view_xw, window_xw. rewrite Hw.
  assert (Hlw : length ws = (iu - il)%nat).
  { revert Hw. unfold weights. destruct (Rlt_dec x2 0).
    - intros E. injection E as <- <- <-. unfold gauss_prob. rewrite map_length, Nat.sub_0_r. reflexivity.
    - destruct (find_hits m v ymean pc1_e db yobs x2) as [a b]. intros E. injection E as <- <- <-.
      unfold gauss_prob. rewrite map_length. apply slice_length. exact Hr. }
  set (X := map snd (slice il iu db)).
  assert (HlX : length X = (iu - il)%nat) by (unfold X; rewrite map_length; apply slice_length; exact Hr).
  assert (Hr' : (il <= iu <= length (map snd db))%nat) by (rewrite map_length; exact Hr).
  assert (HP' : Permutation xinds (seq 0 (length (map snd db)))) by (rewrite map_length; exact HP).
  destruct (view_sorted_window Rle 0 (map snd db) xinds il iu Hr' HP' Hs) as (Hsorted & Hv & _).
  split.
  - unfold view_of. rewrite slice_map. fold X. rewrite combine_take_idx.
    rewrite <- (map_nth_pairs 0 0 X ws) by lia. rewrite HlX.
    apply Permutation_map. exact Hv.
  - assert (E : map fst (combine (view_of 0 (map snd db) xinds il iu) (take_idx 0 ws (view xinds il iu)))
               = view_of 0 (map snd db) xinds il iu).
    { unfold view_of, take_idx. set (V := view xinds il iu). clearbody V. clear.
      induction V as [|k V IH]; [reflexivity|]. cbn [map combine fst]. rewrite IH. reflexivity. }
    rewrite E. apply strongly_sorted_nondecreasing. exact Hsorted.
Qed.
