(* C08 -- spectral-density converters (list model), Snell, Fresnel (real and complex refractive index n2). *)
From Coq Require Import Reals Lra Lia List.
From Coquelicot Require Import Rcomplements.
From TyphonGen Require Import em.
From Typhon Require Import Model.C08_spectra Proofs.C08_planck.
Import ListNotations.
Open Scope R_scope.

(* ---------- list lemmas ---------- *)
Lemma map2_app {A B C} (g : A -> B -> C) l1 l2 m1 m2 : length l1 = length m1 ->
  map2 g (l1 ++ l2) (m1 ++ m2) = map2 g l1 m1 ++ map2 g l2 m2.
Proof. revert m1; induction l1 as [|a l1 IH]; intros [|b m1] H; cbn in *; try discriminate; [reflexivity|].
  f_equal. apply IH. lia. Qed.
Lemma map2_rev {A B C} (g : A -> B -> C) l m : length l = length m -> map2 g (rev l) (rev m) = rev (map2 g l m).
Proof. revert m; induction l as [|a l IH]; intros [|b m] H; cbn in *; try discriminate; [reflexivity|].
  rewrite map2_app by (rewrite !rev_length; lia). rewrite IH by lia. reflexivity. Qed.
Lemma map2_length {A B C} (g : A -> B -> C) l m : length l = length m -> length (map2 g l m) = length l.
Proof. revert m; induction l as [|a l IH]; intros [|b m] H; cbn in *; try discriminate; [reflexivity|].
  f_equal. apply IH. lia. Qed.
Lemma map2_map_r {A B C D} (g : A -> B -> C) (k : D -> B) l m : map2 g l (map k m) = map2 (fun a d => g a (k d)) l m.
Proof. revert m; induction l as [|a l IH]; intros [|b m]; cbn; try reflexivity. f_equal. apply IH. Qed.
Lemma map2_map2_l {A B C D} (g : C -> B -> D) (k : A -> B -> C) l m :
  map2 g (map2 k l m) m = map2 (fun a b => g (k a b) b) l m.
Proof. revert m; induction l as [|a l IH]; intros [|b m]; cbn; try reflexivity. f_equal. apply IH. Qed.
Lemma map2_fst_ext {A B} (g : A -> B -> A) l m : length l = length m ->
  Forall2 (fun a b => g a b = a) l m -> map2 g l m = l.
Proof. intros _ H. induction H as [|a b l m E _ IH]; cbn; [reflexivity|]. rewrite E, IH. reflexivity. Qed.
Lemma Forall2_same_length_Forall {A B} (P : A -> B -> Prop) l m :
  length l = length m -> (forall a b, In b m -> P a b) -> Forall2 P l m.
Proof. revert m; induction l as [|a l IH]; intros [|b m] H HP; cbn in *; try discriminate; constructor.
  - apply HP. left; reflexivity.
  - apply IH; [lia|]. intros a' b' Hb. apply HP. right; exact Hb. Qed.
Lemma map_id_on {A} (g : A -> A) l : (forall a, In a l -> g a = a) -> map g l = l.
Proof. induction l as [|a l IH]; cbn; intros H; [reflexivity|]. rewrite H by (left; reflexivity). f_equal.
  apply IH. intros b Hb. apply H. right; exact Hb. Qed.

(* ---------- the four converters are mutually inverse ---------- *)
Lemma freq_wavelength_roundtrip ys fs : length ys = length fs -> Forall (fun f => 0 < f) fs ->
  let '(pm, lam) := perfrequency2perwavelength ys fs in perwavelength2perfrequency pm lam = (ys, fs).
Proof.
  intros Hlen Hpos. unfold perfrequency2perwavelength, perwavelength2perfrequency.
  rewrite Forall_forall in Hpos. pose proof c_pos as Hc. f_equal.
  - rewrite map2_rev by (rewrite map2_length, map_length by exact Hlen; exact Hlen).
    rewrite rev_involutive, map2_map_r, map2_map2_l.
    apply map2_fst_ext; [exact Hlen|]. apply Forall2_same_length_Forall; [exact Hlen|].
    intros y f Hf. specialize (Hpos f Hf). unfold frequency2wavelength. field. lra.
  - rewrite <- map_rev, rev_involutive, map_map. apply map_id_on. intros f Hf. specialize (Hpos f Hf).
    unfold wavelength2frequency, frequency2wavelength. field. lra.
Qed.
Lemma wavelength_freq_roundtrip ys ls : length ys = length ls -> Forall (fun l => 0 < l) ls ->
  let '(ph, fs) := perwavelength2perfrequency ys ls in perfrequency2perwavelength ph fs = (ys, ls).
Proof.
  intros Hlen Hpos. unfold perfrequency2perwavelength, perwavelength2perfrequency.
  rewrite Forall_forall in Hpos. pose proof c_pos as Hc. f_equal.
  - rewrite map2_rev by (rewrite map2_length, map_length by exact Hlen; exact Hlen).
    rewrite rev_involutive, map2_map_r, map2_map2_l.
    apply map2_fst_ext; [exact Hlen|]. apply Forall2_same_length_Forall; [exact Hlen|].
    intros y l Hl. specialize (Hpos l Hl). unfold wavelength2frequency. field. lra.
  - rewrite <- map_rev, rev_involutive, map_map. apply map_id_on. intros l Hl. specialize (Hpos l Hl).
    unfold wavelength2frequency, frequency2wavelength. field. lra.
Qed.
Lemma freq_wavenumber_roundtrip ys fs :
  (let '(pw, wn) := perfrequency2perwavenumber ys fs in perwavenumber2perfrequency pw wn = (ys, fs)) /\
  (let '(ph, fg) := perwavenumber2perfrequency ys fs in perfrequency2perwavenumber ph fg = (ys, fs)).
Proof.
  pose proof c_pos as Hc. unfold perfrequency2perwavenumber, perwavenumber2perfrequency. split; f_equal;
    rewrite map_map; apply map_id_on; intros a _; unfold wavenumber2frequency, frequency2wavenumber; field; lra.
Qed.

(* ---------- and they map one Planck form onto the other ---------- *)
Lemma planck_pointwise_wavelength T fs : 0 < T -> Forall (fun f => 0 < f) fs ->
  map2 (fun y f => y * f ^ 2 / c_speed_of_light) (map (fun f => planck f T) fs) fs
  = map (fun f => planck_wavelength (frequency2wavelength f) T) fs.
Proof.
  intros HT Hpos. induction fs as [|f fs IH]; cbn [map map2]; [reflexivity|].
  inversion Hpos as [|? ? Hf Hfs]; subst. rewrite (IH Hfs). f_equal.
  unfold frequency2wavelength. rewrite wavelength_form by assumption. reflexivity.
Qed.
Lemma planck_freq_to_wavelength T fs : 0 < T -> Forall (fun f => 0 < f) fs ->
  let '(pm, lam) := perfrequency2perwavelength (map (fun f => planck f T) fs) fs in
  pm = map (fun l => planck_wavelength l T) lam.
Proof.
  intros HT Hpos. unfold perfrequency2perwavelength. rewrite planck_pointwise_wavelength by assumption.
  rewrite <- !map_rev, map_map. reflexivity.
Qed.
Lemma planck_freq_to_wavenumber T fs : 0 < T -> Forall (fun f => 0 < f) fs ->
  let '(pw, wn) := perfrequency2perwavenumber (map (fun f => planck f T) fs) fs in
  pw = map (fun n => planck_wavenumber n T) wn.
Proof.
  intros HT Hpos. unfold perfrequency2perwavenumber. rewrite !map_map.
  induction fs as [|f fs IH]; cbn [map]; [reflexivity|]. inversion Hpos as [|? ? Hf Hfs]; subst.
  rewrite (IH Hfs). f_equal. unfold frequency2wavenumber. rewrite wavenumber_form by assumption. ring.
Qed.

(* ---------- Snell (real refractive indices) ---------- *)
Definition rad (d : R) : R := d * PI / 180.

Lemma rad_deg x : x * 180 / PI * PI / 180 = x.
Proof. field. apply PI_neq0. Qed.

Lemma sin_rad_range t : 0 <= t <= 90 -> 0 <= sin (t * PI / 180) <= 1.
Proof. intros H. pose proof PI_RGT_0. split; [|apply SIN_bound].
  apply sin_ge_0; [apply Rmult_le_pos; [apply Rmult_le_pos; lra|lra]|].
  apply Rle_div_l; [lra|]. nra. Qed.

Lemma snell_law n1 n2 t : 0 < n1 -> 0 < n2 -> 0 <= t <= 90 -> n1 * sin (t * PI / 180) <= n2 ->
  n1 * sin (t * PI / 180) = n2 * sin (snell n1 n2 t * PI / 180).
Proof.
  intros H1 H2 Ht Htot. unfold snell. cbv zeta. rewrite rad_deg.
  pose proof (sin_rad_range t Ht) as Hs.
  rewrite sin_asin.
  - field. lra.
  - split.
    + apply Rle_trans with 0; [lra|]. apply Rmult_le_pos; [nra|left; apply Rinv_0_lt_compat; lra].
    + apply Rle_div_l; lra.
Qed.

(* the complex-n2 branch (Liou 5.4.1.3) continues the real law: with a vanishing imaginary part it IS the real branch *)
Lemma snell_complex_real_limit n1 n2 t : 0 < n1 -> 0 < n2 -> 0 <= t <= 90 -> n1 * sin (t * PI / 180) <= n2 ->
  snell_complex_n2 n1 n2 0 t = snell n1 n2 t.
Proof.
  intros H1 H2 Ht Htot. unfold snell_complex_n2, snell. cbv zeta.
  pose proof (sin_rad_range t Ht) as Hs. set (s := sin (t * PI / 180)) in *.
  assert (Hm : 0 < n2 / n1) by (apply Rdiv_lt_0_compat; lra).
  assert (Hsm : s <= n2 / n1) by (apply Rle_div_r; lra).
  assert (Hz : (0 / n1) ^ 2 = 0) by (unfold Rdiv; rewrite Rmult_0_l; ring).
  rewrite Hz.
  replace (((n2 / n1) ^ 2 - 0 - s * s) ^ 2 + 4 * (n2 / n1) ^ 2 * 0) with (((n2 / n1) ^ 2 - s * s) ^ 2) by ring.
  assert (Hd : 0 <= (n2 / n1) ^ 2 - s * s) by nra.
  rewrite <- (Rsqr_pow2 ((n2 / n1) ^ 2 - s * s)). rewrite sqrt_Rsqr by exact Hd.
  replace (((n2 / n1) ^ 2 - 0 + s * s + ((n2 / n1) ^ 2 - s * s)) / 2) with ((n2 / n1) ^ 2) by (field; lra).
  rewrite <- (Rsqr_pow2 (n2 / n1)). rewrite sqrt_Rsqr by lra.
  f_equal. f_equal. f_equal. field. lra.
Qed.

(* Liou's form of Snell's law for an absorbing medium: with N = n2/n1 = mr + i mi and w = N^2 - sin^2 t1,
   qr2 = (|w| + Re w)/2 is the squared real part of sqrt w, and the real angle of refraction t2 satisfies
   sin t2 * sqrt (sin^2 t1 + qr2) = sin t1   (tan t2 = sin t1 / Re sqrt(N^2 - sin^2 t1)). *)
Lemma complex_sqrt_parts wre wim : let W := sqrt (wre ^ 2 + wim ^ 2) in
  0 <= (W + wre) / 2 /\ 0 <= (W - wre) / 2 /\ (W + wre) / 2 - (W - wre) / 2 = wre /\
  4 * ((W + wre) / 2) * ((W - wre) / 2) = wim ^ 2.
Proof.
  cbv zeta. set (W := sqrt (wre ^ 2 + wim ^ 2)).
  assert (Ha : 0 <= wre ^ 2 + wim ^ 2) by nra.
  assert (HW : 0 <= W) by apply sqrt_pos.
  assert (HW2 : W * W = wre ^ 2 + wim ^ 2) by (apply sqrt_sqrt; exact Ha).
  assert (H1 : - W <= wre <= W) by (split; nra).
  repeat split; lra.
Qed.

Lemma snell_complex_liou n1 n2r n2i t : 0 < n1 -> 0 < n2r -> 0 <= t <= 90 ->
  let s := sin (t * PI / 180) in
  let wre := (n2r / n1) ^ 2 - (n2i / n1) ^ 2 - s * s in
  let wim := 2 * (n2r / n1) * (n2i / n1) in
  let qr2 := (sqrt (wre ^ 2 + wim ^ 2) + wre) / 2 in
  0 < s * s + qr2 /\
  sin (snell_complex_n2 n1 n2r n2i t * PI / 180) * sqrt (s * s + qr2) = s.
Proof.
  intros H1 H2 Ht. cbv zeta.
  pose proof (sin_rad_range t Ht) as Hs. set (s := sin (t * PI / 180)) in *.
  set (mr := n2r / n1). set (mi := n2i / n1).
  assert (Hmr : 0 < mr) by (apply Rdiv_lt_0_compat; lra).
  set (wre := mr ^ 2 - mi ^ 2 - s * s). set (wim := 2 * mr * mi).
  destruct (complex_sqrt_parts wre wim) as (Hq & Hqi & _ & Hprod). cbv zeta in Hq, Hqi, Hprod.
  set (W := sqrt (wre ^ 2 + wim ^ 2)) in *.
  assert (Hpos : 0 < s * s + (W + wre) / 2).
  { destruct (Req_dec mi 0) as [Hz|Hnz].
    - (* real n2: wim = 0, W = |wre| *)
      assert (Hw0 : wim = 0) by (unfold wim; rewrite Hz; ring).
      destruct (Rle_lt_dec (mr ^ 2) (s * s)) as [Hle|Hlt].
      + assert (0 < s * s) by nra. lra.
      + assert (0 < wre) by (unfold wre; rewrite Hz; replace (0 ^ 2) with 0 by ring; lra).
        assert (W = wre). { unfold W. rewrite Hw0. replace (wre ^ 2 + 0 ^ 2) with (Rsqr wre) by (unfold Rsqr; ring).
                            apply sqrt_Rsqr. lra. }
        nra.
    - assert (Hw : 0 < wim ^ 2). { unfold wim. assert (0 < mi ^ 2) by (apply pow2_gt_0; exact Hnz). assert (0 < mr * mr) by (apply Rmult_lt_0_compat; lra).
        replace ((2 * mr * mi) ^ 2) with (4 * ((mr * mr) * mi ^ 2)) by ring.
        assert (0 < mr * mr * mi ^ 2) by (apply Rmult_lt_0_compat; assumption). lra. }
      assert (0 < (W + wre) / 2).
      { destruct (Rle_lt_dec ((W + wre) / 2) 0) as [Hle|Hlt]; [|exact Hlt].
        assert ((W + wre) / 2 = 0) by lra. rewrite H in Hprod. lra. }
      nra. }
  split; [exact Hpos|].
  unfold snell_complex_n2. cbv zeta. rewrite rad_deg. fold s mr mi.
  replace ((mr ^ 2 - mi ^ 2 + s * s + sqrt ((mr ^ 2 - mi ^ 2 - s * s) ^ 2 + 4 * mr ^ 2 * mi ^ 2)) / 2)
    with (s * s + (W + wre) / 2).
  2:{ unfold W, wre, wim. replace ((2 * mr * mi) ^ 2) with (4 * mr ^ 2 * mi ^ 2) by ring. field. }
  set (Nr := sqrt (s * s + (W + wre) / 2)).
  assert (HNr : 0 < Nr) by (apply sqrt_lt_R0; exact Hpos).
  assert (HNr2 : Nr * Nr = s * s + (W + wre) / 2) by (apply sqrt_sqrt; lra).
  assert (Hle : s <= Nr).
  { destruct (Rle_lt_dec s Nr) as [Hok|Hbad]; [exact Hok|]. nra. }
  rewrite sin_asin.
  - field. lra.
  - split.
    + apply Rle_trans with 0; [lra|]. apply Rmult_le_pos; [lra|left; apply Rinv_0_lt_compat; exact HNr].
    + apply Rle_div_l; lra.
Qed.

(* ---------- Fresnel (real refractive indices) ---------- *)
Lemma cos_rad_range t : 0 <= t <= 90 -> 0 <= cos (t * PI / 180).
Proof. intros H. pose proof PI_RGT_0. apply cos_ge_0.
  - apply Rle_trans with 0; [lra|]. apply Rmult_le_pos; [apply Rmult_le_pos; lra|lra].
  - apply Rle_div_l; [lra|]. nra. Qed.

Lemma snell_angle_range n1 n2 t : 0 < n1 -> 0 < n2 -> 0 <= t <= 90 -> n1 * sin (t * PI / 180) <= n2 ->
  0 <= cos (snell n1 n2 t * PI / 180).
Proof.
  intros H1 H2 Ht Htot. unfold snell. cbv zeta. rewrite rad_deg.
  pose proof (sin_rad_range t Ht) as Hs.
  assert (Hy : -1 <= n1 * sin (t * PI / 180) / n2 <= 1).
  { split; [apply Rle_trans with 0; [lra|apply Rmult_le_pos; [nra|left; apply Rinv_0_lt_compat; lra]]|apply Rle_div_l; lra]. }
  rewrite cos_asin by exact Hy. apply sqrt_pos. Qed.

Lemma ratio_abs_le_1 a b : 0 <= a -> 0 <= b -> 0 < a + b -> Rabs ((a - b) / (a + b)) <= 1.
Proof. intros Ha Hb Hab. unfold Rdiv. rewrite Rabs_mult, (Rabs_pos_eq (/ (a + b))) by (left; apply Rinv_0_lt_compat; lra).
  apply Rle_div_l; [lra|]. rewrite Rmult_1_l. apply Rabs_le. lra. Qed.

(* the same bound in a form that does not depend on how numerator and denominator are written *)
Lemma quot_abs_le_1 p q : 0 < q -> - q <= p <= q -> Rabs (p / q) <= 1.
Proof. intros Hq Hp. unfold Rdiv. rewrite Rabs_mult, (Rabs_pos_eq (/ q)) by (left; apply Rinv_0_lt_compat; lra).
  apply Rle_div_l; [lra|]. rewrite Rmult_1_l. apply Rabs_le. lra. Qed.

Lemma fresnel_bounded n1 n2 t : 0 < n1 -> 0 < n2 -> 0 <= t < 90 -> n1 * sin (t * PI / 180) <= n2 ->
  Rabs (fst (fresnel n1 n2 t)) <= 1 /\ Rabs (snd (fresnel n1 n2 t)) <= 1.
Proof.
  intros H1 H2 Ht Htot. unfold fresnel. cbv zeta. cbn [fst snd].
  assert (Ht' : 0 <= t <= 90) by lra.
  pose proof (snell_angle_range n1 n2 t H1 H2 Ht' Htot) as Hc2.
  assert (Hc1 : 0 < cos (t * PI / 180)).
  { pose proof PI_RGT_0. apply cos_gt_0.
    - apply Rlt_le_trans with 0; [lra|]. apply Rmult_le_pos; [apply Rmult_le_pos; lra|lra].
    - apply Rlt_div_l; [lra|]. nra. }
  set (c1 := cos (t * PI / 180)) in *. set (c2 := cos (snell n1 n2 t * PI / 180)) in *.
  assert (0 < n2 * c1) by (apply Rmult_lt_0_compat; lra). assert (0 < n1 * c1) by (apply Rmult_lt_0_compat; lra).
  assert (0 <= n1 * c2) by (apply Rmult_le_pos; lra). assert (0 <= n2 * c2) by (apply Rmult_le_pos; lra).
  split; (apply quot_abs_le_1; [lra|split; lra]).
Qed.

Lemma fresnel_normal_incidence n1 n2 : 0 < n1 -> 0 < n2 ->
  Rabs (fst (fresnel n1 n2 0)) = Rabs (snd (fresnel n1 n2 0)).
Proof.
  intros H1 H2. unfold fresnel, snell. cbv zeta. cbn [fst snd].
  replace (0 * PI / 180) with 0 by (field; apply PI_neq0). rewrite sin_0.
  replace (n1 * 0 / n2) with 0 by (field; lra). rewrite asin_0.
  replace (0 * 180 / PI * PI / 180) with 0 by (field; apply PI_neq0). rewrite cos_0.
  rewrite <- Rabs_Ropp. f_equal. field; repeat split; lra.
Qed.

Lemma fresnel_brewster n1 n2 t : 0 < n1 -> 0 < n2 -> 0 < t < 90 -> tan (t * PI / 180) = n2 / n1 ->
  fst (fresnel n1 n2 t) = 0.
Proof.
  intros H1 H2 Ht Htan. unfold fresnel, snell. cbv zeta. cbn [fst snd]. rewrite rad_deg.
  set (a := t * PI / 180) in *.
  pose proof PI_RGT_0 as Hpi.
  assert (Ha : 0 < a < PI / 2).
  { unfold a. split; [apply Rmult_lt_0_compat; [apply Rmult_lt_0_compat; lra|lra]|].
    apply Rlt_div_l; [lra|]. nra. }
  assert (Hc : 0 < cos a) by (apply cos_gt_0; lra).
  assert (Hs : 0 < sin a) by (apply sin_gt_0; lra).
  assert (Hrel : n1 * sin a = n2 * cos a).
  { unfold tan in Htan. apply (Rmult_eq_compat_r (n1 * cos a)) in Htan. field_simplify in Htan; lra. }
  assert (Hy : n1 * sin a / n2 = cos a) by (rewrite Hrel; field; lra).
  rewrite Hy.
  assert (Hcr : -1 <= cos a <= 1) by apply COS_bound.
  rewrite cos_asin by exact Hcr.
  assert (Hsq : sqrt (1 - (cos a)²) = sin a).
  { rewrite <- (sqrt_Rsqr (sin a)) by lra. f_equal. pose proof (sin2_cos2 a). unfold Rsqr in *. lra. }
  rewrite Hsq. match goal with |- ?p / _ = 0 => replace p with 0 by lra end. unfold Rdiv. apply Rmult_0_l.
Qed.

(* ---------- Fresnel with a complex refractive index n2 = n2r + i n2i ---------- *)
Lemma snell_complex_cos_nonneg n1 n2r n2i t : 0 <= cos (snell_complex_n2 n1 n2r n2i t * PI / 180).
Proof. unfold snell_complex_n2. cbv zeta. rewrite rad_deg.
  match goal with |- 0 <= cos (asin ?y) => pose proof (asin_bound y) as Hb end.
  apply cos_ge_0; lra. Qed.

Lemma cos_rad_pos t : 0 <= t < 90 -> 0 < cos (t * PI / 180).
Proof. intros Ht. pose proof PI_RGT_0. apply cos_gt_0.
  - apply Rlt_le_trans with 0; [lra|]. apply Rmult_le_pos; [apply Rmult_le_pos; lra|lra].
  - apply Rlt_div_l; [lra|]. nra. Qed.

(* |(nr + i ni) / (dr + i di)|^2 = (nr^2 + ni^2) / (dr^2 + di^2), in the form the translator writes a complex quotient *)
Lemma cdiv_mod2 nr ni dr di : 0 < dr * dr + di * di ->
  let re := (nr * dr + ni * di) / (dr * dr + di * di) in
  let im := (ni * dr - nr * di) / (dr * dr + di * di) in
  re * re + im * im = (nr * nr + ni * ni) / (dr * dr + di * di).
Proof. intros HD. cbv zeta. field. lra. Qed.

Lemma cquot_le_1 nr ni dr di : 0 < dr * dr + di * di -> nr * nr + ni * ni <= dr * dr + di * di ->
  sqrt ((nr * dr + ni * di) / (dr * dr + di * di) * ((nr * dr + ni * di) / (dr * dr + di * di)) +
        (ni * dr - nr * di) / (dr * dr + di * di) * ((ni * dr - nr * di) / (dr * dr + di * di))) <= 1.
Proof. intros HD Hle. pose proof (cdiv_mod2 nr ni dr di HD) as E. cbv zeta in E. rewrite E.
  rewrite <- sqrt_1. apply sqrt_le_1_alt. apply Rle_div_l; lra. Qed.

Lemma cquot_lt_1 nr ni dr di : 0 < dr * dr + di * di -> nr * nr + ni * ni < dr * dr + di * di ->
  sqrt ((nr * dr + ni * di) / (dr * dr + di * di) * ((nr * dr + ni * di) / (dr * dr + di * di)) +
        (ni * dr - nr * di) / (dr * dr + di * di) * ((ni * dr - nr * di) / (dr * dr + di * di))) < 1.
Proof. intros HD Hlt. pose proof (cdiv_mod2 nr ni dr di HD) as E. cbv zeta in E. rewrite E.
  rewrite <- sqrt_1. apply sqrt_lt_1_alt. split.
  - apply Rdiv_le_0_compat; [|lra]. pose proof (Rle_0_sqr nr). pose proof (Rle_0_sqr ni). unfold Rsqr in *. lra.
  - apply Rlt_div_l; lra. Qed.

(* the products that decide everything: x = n2r c1 > 0 resp. n1 c1 > 0 and y = n1 c2, n2r c2 >= 0 *)
Ltac fresnel_products n1 n2r c1 c2 :=
  assert (0 < n2r * c1) by (apply Rmult_lt_0_compat; lra);
  assert (0 < n1 * c1) by (apply Rmult_lt_0_compat; lra);
  assert (0 <= n1 * c2) by (apply Rmult_le_pos; lra);
  assert (0 <= n2r * c2) by (apply Rmult_le_pos; lra);
  assert (0 <= (n2r * c1) * (n1 * c2)) by (apply Rmult_le_pos; lra);
  assert (0 <= (n1 * c1) * (n2r * c2)) by (apply Rmult_le_pos; lra).

Lemma fresnel_complex_denominators n1 n2r n2i t : 0 < n1 -> 0 < n2r -> 0 <= t < 90 ->
  let c1 := cos (t * PI / 180) in
  let c2 := cos (snell_complex_n2 n1 n2r n2i t * PI / 180) in
  0 < (n2r * c1 + n1 * c2) * (n2r * c1 + n1 * c2) + (n2i * c1) * (n2i * c1) /\
  0 < (n1 * c1 + n2r * c2) * (n1 * c1 + n2r * c2) + (n2i * c2) * (n2i * c2).
Proof. intros H1 H2 Ht. cbv zeta.
  pose proof (cos_rad_pos t Ht) as Hc1. pose proof (snell_complex_cos_nonneg n1 n2r n2i t) as Hc2.
  set (c1 := cos (t * PI / 180)) in *. set (c2 := cos (snell_complex_n2 n1 n2r n2i t * PI / 180)) in *.
  fresnel_products n1 n2r c1 c2. split; nra. Qed.

Lemma fresnel_complex_bounded n1 n2r n2i t : 0 < n1 -> 0 < n2r -> 0 <= t < 90 ->
  cabs (fst (fresnel_complex_n2 n1 n2r n2i t)) <= 1 /\ cabs (snd (fresnel_complex_n2 n1 n2r n2i t)) <= 1.
Proof. intros H1 H2 Ht. unfold fresnel_complex_n2, cabs. cbv zeta. cbn [fst snd].
  pose proof (cos_rad_pos t Ht) as Hc1. pose proof (snell_complex_cos_nonneg n1 n2r n2i t) as Hc2.
  set (c1 := cos (t * PI / 180)) in *. set (c2 := cos (snell_complex_n2 n1 n2r n2i t * PI / 180)) in *.
  fresnel_products n1 n2r c1 c2. split; (apply cquot_le_1; [nra|nra]). Qed.

(* with a vanishing imaginary part the complex computation IS the real one (up to total reflection) *)
Lemma fresnel_complex_real_limit n1 n2 t : 0 < n1 -> 0 < n2 -> 0 <= t < 90 -> n1 * sin (t * PI / 180) <= n2 ->
  fresnel_complex_n2 n1 n2 0 t = ((fst (fresnel n1 n2 t), 0), (snd (fresnel n1 n2 t), 0)).
Proof. intros H1 H2 Ht Htot. assert (Ht' : 0 <= t <= 90) by lra.
  unfold fresnel_complex_n2, fresnel. cbv zeta. cbn [fst snd].
  rewrite (snell_complex_real_limit n1 n2 t H1 H2 Ht' Htot).
  pose proof (cos_rad_pos t Ht) as Hc1. pose proof (snell_angle_range n1 n2 t H1 H2 Ht' Htot) as Hc2.
  set (c1 := cos (t * PI / 180)) in *. set (c2 := cos (snell n1 n2 t * PI / 180)) in *.
  fresnel_products n1 n2 c1 c2. f_equal; f_equal; field; nra. Qed.

(* normal incidence: Rh = - Rv exactly, for every complex n2 *)
Lemma fresnel_complex_normal_opp n1 n2r n2i : 0 < n1 -> 0 < n2r ->
  let '(Rv, Rh) := fresnel_complex_n2 n1 n2r n2i 0 in fst Rh = - fst Rv /\ snd Rh = - snd Rv.
Proof. intros H1 H2. unfold fresnel_complex_n2, snell_complex_n2. cbv zeta.
  replace (0 * PI / 180) with 0 by (field; apply PI_neq0). rewrite sin_0.
  match goal with |- context [asin (0 / ?d)] => replace (0 / d) with 0 by (unfold Rdiv; ring) end.
  rewrite asin_0. replace (0 * 180 / PI * PI / 180) with 0 by (field; apply PI_neq0). rewrite cos_0.
  cbn [fst snd]. split; field; nra. Qed.

Lemma fresnel_complex_normal n1 n2r n2i : 0 < n1 -> 0 < n2r ->
  cabs (fst (fresnel_complex_n2 n1 n2r n2i 0)) = cabs (snd (fresnel_complex_n2 n1 n2r n2i 0)).
Proof. intros H1 H2. pose proof (fresnel_complex_normal_opp n1 n2r n2i H1 H2) as H.
  destruct (fresnel_complex_n2 n1 n2r n2i 0) as [Rv Rh]. destruct H as [Ha Hb]. unfold cabs. cbn [fst snd].
  rewrite Ha, Hb. f_equal. ring. Qed.

(* an absorbing medium (Im n2 <> 0): the real angle of refraction stays below 90 degrees ... *)
Lemma snell_complex_cos_pos n1 n2r n2i t : 0 < n1 -> 0 < n2r -> n2i <> 0 -> 0 <= t <= 90 ->
  0 < cos (snell_complex_n2 n1 n2r n2i t * PI / 180).
Proof. intros H1 H2 Hi Ht.
  destruct (snell_complex_liou n1 n2r n2i t H1 H2 Ht) as [Hpos Hlaw]. cbv zeta in Hpos, Hlaw.
  pose proof (sin_rad_range t Ht) as Hs. set (s := sin (t * PI / 180)) in *.
  set (wre := (n2r / n1) ^ 2 - (n2i / n1) ^ 2 - s * s) in *. set (wim := 2 * (n2r / n1) * (n2i / n1)) in *.
  destruct (complex_sqrt_parts wre wim) as (Hq & Hqi & _ & Hprod). cbv zeta in Hq, Hqi, Hprod.
  set (qr2 := (sqrt (wre ^ 2 + wim ^ 2) + wre) / 2) in *.
  assert (Hw : wim <> 0).
  { unfold wim. assert (0 < n2r / n1) by (apply Rdiv_lt_0_compat; lra).
    assert (n2i / n1 <> 0) by (unfold Rdiv; apply Rmult_integral_contrapositive_currified; [exact Hi|apply Rinv_neq_0_compat; lra]).
    apply Rmult_integral_contrapositive_currified; [|assumption]. apply Rmult_integral_contrapositive_currified; lra. }
  assert (Hw2 : 0 < wim ^ 2) by (apply pow2_gt_0; exact Hw).
  assert (Hqpos : 0 < qr2).
  { destruct (Rle_lt_dec qr2 0) as [Hle|Hlt]; [|exact Hlt]. assert (E : qr2 = 0) by lra. rewrite E in Hprod. lra. }
  set (Nr := sqrt (s * s + qr2)) in *.
  assert (HNr : 0 < Nr) by (apply sqrt_lt_R0; exact Hpos).
  assert (HNr2 : Nr * Nr = s * s + qr2) by (apply sqrt_sqrt; lra).
  assert (HsN : s < Nr) by (destruct (Rlt_le_dec s Nr) as [Hok|Hbad]; [exact Hok|nra]).
  pose proof (snell_complex_cos_nonneg n1 n2r n2i t) as Hc.
  set (a := snell_complex_n2 n1 n2r n2i t * PI / 180) in *.
  destruct Hc as [Hc|Hc]; [exact Hc|exfalso].
  pose proof (sin2_cos2 a) as Hsc. unfold Rsqr in Hsc. rewrite <- Hc in Hsc.
  assert (Hs1 : sin a = 1 \/ sin a = -1).
  { assert ((sin a - 1) * (sin a + 1) = 0) by lra. apply Rmult_integral in H. destruct H; [left|right]; lra. }
  destruct Hs1 as [E|E]; rewrite E in Hlaw; lra.
Qed.

(* ... so it never reflects totally *)
Lemma fresnel_complex_strict n1 n2r n2i t : 0 < n1 -> 0 < n2r -> n2i <> 0 -> 0 <= t < 90 ->
  cabs (fst (fresnel_complex_n2 n1 n2r n2i t)) < 1 /\ cabs (snd (fresnel_complex_n2 n1 n2r n2i t)) < 1.
Proof. intros H1 H2 Hi Ht. assert (Ht' : 0 <= t <= 90) by lra. unfold fresnel_complex_n2, cabs. cbv zeta. cbn [fst snd].
  pose proof (cos_rad_pos t Ht) as Hc1. pose proof (snell_complex_cos_pos n1 n2r n2i t H1 H2 Hi Ht') as Hc2.
  set (c1 := cos (t * PI / 180)) in *. set (c2 := cos (snell_complex_n2 n1 n2r n2i t * PI / 180)) in *.
  fresnel_products n1 n2r c1 c2.
  assert (0 < (n2r * c1) * (n1 * c2)) by (apply Rmult_lt_0_compat; [lra|apply Rmult_lt_0_compat; lra]).
  assert (0 < (n1 * c1) * (n2r * c2)) by (apply Rmult_lt_0_compat; [lra|apply Rmult_lt_0_compat; lra]).
  split; (apply cquot_lt_1; [nra|nra]). Qed.
