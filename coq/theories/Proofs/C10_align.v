(* C10 -- lemmas about the align() loop (Model/C10_pool.v: use_secondary, align_run). *)
From Coq Require Import ZArith List Bool Arith Lia.
From Typhon Require Import Model.C10_pool Proofs.C10_pool.
Import ListNotations.

Definition secs (l : list (nat * nat)) : list nat := map snd l.
Definition cnt (x : nat) (l : list nat) : nat := count_occ Nat.eq_dec l x.

(* ------------------------------------------------------------------ unique (order of first appearance) *)

Lemma mem_ext s1 s2 x : (forall y, In y s1 <-> In y s2) -> mem x s1 = mem x s2.
Proof.
  intros H. destruct (mem x s2) eqn:E.
  - apply mem_In. apply H. apply mem_In. exact E.
  - apply mem_false. intros Hx. apply mem_false in E. apply E. apply H. exact Hx.
Qed.

Lemma uniq_acc_In l : forall seen x, In x (uniq_acc seen l) <-> In x l /\ ~ In x seen.
Proof.
  induction l as [|y t IH]; intros seen x; cbn [uniq_acc].
  - split; [intros []|intros ([] & _)].
  - destruct (mem y seen) eqn:E.
    + rewrite IH. apply mem_In in E. split.
      * intros (H1 & H2). split; [right; exact H1|exact H2].
      * intros ([H1|H1] & H2); [subst y; contradiction|split; assumption].
    + apply mem_false in E. cbn [In]. rewrite IH. cbn [In]. split.
      * intros [H|(H1 & H2)]; [subst y; split; [left; reflexivity|exact E]|].
        split; [right; exact H1|]. intros H. apply H2. right. exact H.
      * intros ([H1|H1] & H2); [left; exact H1|].
        destruct (Nat.eq_dec y x) as [Hy|Hy]; [left; exact Hy|].
        right. split; [exact H1|]. intros [H|H]; [contradiction|contradiction].
Qed.

Lemma uniq_acc_NoDup l : forall seen, NoDup (uniq_acc seen l).
Proof.
  induction l as [|y t IH]; intros seen; cbn [uniq_acc]; [constructor|].
  destruct (mem y seen); [apply IH|]. constructor; [|apply IH].
  rewrite uniq_acc_In. intros (_ & H). apply H. left. reflexivity.
Qed.

(* ------------------------------------------------------------------ the loop invariant *)

Record ainv (U : list nat) (pre post : list (nat * nat)) (s : ast) (seen : list nat) : Prop := {
  ai_err   : aerr s = false;
  ai_load  : loader s = uniq_acc seen (secs post);
  ai_seen  : forall x, In x seen <-> In x (secs pre);
  ai_usage : forall x, usage s x = cnt x (secs post);
  ai_cache : forall x, In x (cache s) <-> (In x (secs pre) /\ 0 < cnt x (secs post));
  ai_loads : loads s ++ loader s = U;
  ai_deliv : deliv s = pre
}.

Lemma remove_nat_In x l y : In y (remove_nat x l) <-> In y l /\ y <> x.
Proof.
  unfold remove_nat. rewrite filter_In. rewrite negb_true_iff, Nat.eqb_neq. reflexivity.
Qed.

Lemma cnt_cons_eq x l : cnt x (x :: l) = S (cnt x l).
Proof. unfold cnt. apply count_occ_cons_eq. reflexivity. Qed.

Lemma cnt_cons_neq x y l : x <> y -> cnt y (x :: l) = cnt y l.
Proof. intros H. unfold cnt. apply count_occ_cons_neq. exact H. Qed.

Lemma secs_snoc pre px : secs (pre ++ [px]) = secs pre ++ [snd px].
Proof. unfold secs. rewrite map_app. reflexivity. Qed.

Lemma In_snoc (l : list nat) x y : In y (l ++ [x]) <-> In y l \/ y = x.
Proof.
  rewrite in_app_iff. cbn [In]. split.
  - intros [H|[H|[]]]; [left; exact H|right; symmetry; exact H].
  - intros [H|H]; [left; exact H|right; left; symmetry; exact H].
Qed.

(* membership in the cache after one use: the common part of the hit and the miss case *)
Lemma cache_after (ca : list nat) (inpre : nat -> Prop) x post :
  (forall y, y <> x -> (In y ca <-> (inpre y /\ 0 < cnt y (x :: post)))) ->
  In x ca ->
  forall y, In y (if cnt x post =? 0 then remove_nat x ca else ca)
            <-> ((inpre y \/ y = x) /\ 0 < cnt y post).
Proof.
  intros Hca Hx y. destruct (Nat.eq_dec y x) as [E|E].
  - subst y. destruct (cnt x post =? 0) eqn:Hu.
    + apply Nat.eqb_eq in Hu. rewrite remove_nat_In. split; [intros (_ & H); contradiction|].
      intros (_ & H). lia.
    + apply Nat.eqb_neq in Hu. split; [intros _; split; [right; reflexivity|lia]|intros _; exact Hx].
  - assert (Hc : cnt y (x :: post) = cnt y post) by (apply cnt_cons_neq; intros H; apply E; symmetry; exact H).
    destruct (cnt x post =? 0).
    + rewrite remove_nat_In, (Hca y E), Hc. split.
      * intros ((H1 & H2) & _). split; [left; exact H1|exact H2].
      * intros ([H1|H1] & H2); [|contradiction]. split; [split; assumption|exact E].
    + rewrite (Hca y E), Hc. split.
      * intros (H1 & H2). split; [left; exact H1|exact H2].
      * intros ([H1|H1] & H2); [|contradiction]. split; assumption.
Qed.

Lemma use_step U pre px post s seen :
  ainv U pre (px :: post) s seen ->
  exists seen', ainv U (pre ++ [px]) post (use_secondary s px) seen'.
Proof.
  intros [Herr Hload Hseen Husage Hcache Hloads Hdeliv].
  destruct px as (p, x). unfold use_secondary. cbn [snd]. rewrite Herr.
  unfold secs in Hload. cbn [map snd] in Hload. fold (secs post) in Hload. cbn [uniq_acc] in Hload.
  assert (Hux : usage s x - 1 = cnt x (secs post)).
  { rewrite Husage. unfold secs. cbn [map snd]. rewrite cnt_cons_eq. lia. }
  assert (Hothers : forall ca, (forall y, y <> x -> (In y ca <-> In y (cache s))) ->
            forall y, y <> x -> (In y ca <-> (In y (secs pre) /\ 0 < cnt y (x :: secs post)))).
  { intros ca Hca y Hy. rewrite (Hca y Hy). apply Hcache. }
  destruct (mem x (cache s)) eqn:Hm.
  - (* cache hit: x was used before *)
    assert (Hxc : In x (cache s)) by (apply mem_In; exact Hm).
    assert (Hxp : In x (secs pre)) by (apply Hcache in Hxc; destruct Hxc as (H & _); exact H).
    assert (Hxs : mem x seen = true) by (apply mem_In; apply Hseen; exact Hxp).
    rewrite Hxs in Hload.
    exists seen. constructor; cbn [loader usage cache loads deliv aerr].
    + reflexivity.
    + exact Hload.
    + intros y. rewrite secs_snoc, In_snoc. cbn [snd]. rewrite Hseen. split; [intros H; left; exact H|].
      intros [H|H]; [exact H|subst y; exact Hxp].
    + intros y. unfold upd. destruct (y =? x) eqn:E.
      * apply Nat.eqb_eq in E. subst y. exact Hux.
      * apply Nat.eqb_neq in E. rewrite Husage. unfold secs. cbn [map snd]. apply cnt_cons_neq.
        intros H. apply E. symmetry. exact H.
    + intros y. rewrite Hux. rewrite secs_snoc, In_snoc. cbn [snd].
      apply (cache_after (cache s) (fun y => In y (secs pre)) x (secs post)).
      * apply Hothers. intros z _. reflexivity.
      * exact Hxc.
    + exact Hloads.
    + rewrite Hdeliv. reflexivity.
  - (* cache miss: this is the first use of x, and x is what the loader yields next *)
    assert (Hxc : ~ In x (cache s)) by (apply mem_false; exact Hm).
    assert (Hxp : ~ In x (secs pre)).
    { intros H. apply Hxc. apply Hcache. split; [exact H|]. unfold secs. cbn [map snd]. rewrite cnt_cons_eq. lia. }
    assert (Hxs : mem x seen = false) by (apply mem_false; intros H; apply Hxp; apply Hseen; exact H).
    rewrite Hxs in Hload. rewrite Hload. rewrite Nat.eqb_refl.
    exists (x :: seen). constructor; cbn [loader usage cache loads deliv aerr].
    + reflexivity.
    + reflexivity.
    + intros y. rewrite secs_snoc, In_snoc. cbn [snd In]. rewrite Hseen. split.
      * intros [H|H]; [right; symmetry; exact H|left; exact H].
      * intros [H|H]; [right; exact H|left; symmetry; exact H].
    + intros y. unfold upd. destruct (y =? x) eqn:E.
      * apply Nat.eqb_eq in E. subst y. exact Hux.
      * apply Nat.eqb_neq in E. rewrite Husage. unfold secs. cbn [map snd]. apply cnt_cons_neq.
        intros H. apply E. symmetry. exact H.
    + intros y. rewrite Hux. rewrite secs_snoc, In_snoc. cbn [snd].
      apply (cache_after (x :: cache s) (fun y => In y (secs pre)) x (secs post)).
      * apply Hothers. intros z Hz. cbn [In]. split; [intros [H|H]; [exfalso; apply Hz; symmetry; exact H|exact H]|].
        intros H. right. exact H.
      * left. reflexivity.
    + rewrite <- app_assoc. cbn [app]. rewrite <- Hload. exact Hloads.
    + rewrite Hdeliv. reflexivity.
Qed.

Lemma use_run U : forall post pre s seen,
  ainv U pre post s seen ->
  exists seen', ainv U (pre ++ post) [] (fold_left use_secondary post s) seen'.
Proof.
  induction post as [|px post IH]; intros pre s seen H; cbn [fold_left].
  - exists seen. rewrite app_nil_r. exact H.
  - destruct (use_step U pre px post s seen H) as (seen1 & H1).
    destruct (IH (pre ++ [px]) _ seen1 H1) as (seen2 & H2).
    exists seen2. rewrite <- app_assoc in H2. exact H2.
Qed.

Lemma ainv_init uses : ainv (uniq_first (secs uses)) [] uses (align_init uses) [].
Proof.
  constructor; unfold align_init; cbn [loader usage cache loads deliv aerr].
  - reflexivity.
  - reflexivity.
  - intros x. split; intros [].
  - intros x. reflexivity.
  - intros x. split; [intros []|intros ([] & _)].
  - reflexivity.
  - reflexivity.
Qed.

(* the state after any prefix of the uses *)
Lemma align_prefix_inv uses pre post : uses = pre ++ post ->
  exists seen, ainv (uniq_first (secs uses)) pre post (fold_left use_secondary pre (align_init uses)) seen.
Proof.
  intros ->. revert post. induction pre as [|px pre IH] using rev_ind; intros post.
  - exists []. apply (ainv_init post).
  - rewrite <- app_assoc. cbn [app]. destruct (IH (px :: post)) as (seen & H).
    rewrite fold_left_app. cbn [fold_left].
    apply (use_step _ _ _ _ _ _ H).
Qed.

Lemma align_final uses :
  let s := align_run uses in
  aerr s = false /\ loads s = uniq_first (secs uses) /\ loader s = [] /\ cache s = [] /\ deliv s = uses.
Proof.
  cbn zeta. destruct (align_prefix_inv uses uses [] (eq_sym (app_nil_r uses))) as (seen & H).
  destruct H as [Herr Hload Hseen Husage Hcache Hloads Hdeliv]. fold (align_run uses) in *.
  cbn [secs map uniq_acc] in Hload. rewrite Hload, app_nil_r in Hloads.
  repeat split; try assumption.
  destruct (cache (align_run uses)) as [|c t] eqn:E; [reflexivity|].
  exfalso. assert (Hc : In c (c :: t)) by (left; reflexivity).
  apply Hcache in Hc. destruct Hc as (_ & Hc). cbn in Hc. lia.
Qed.

Lemma secs_uses_from m : forall a, secs (uses_from a m) = concat m.
Proof.
  induction m as [|l t IH]; intros a; [reflexivity|].
  cbn [uses_from concat]. unfold secs in *. rewrite map_app, map_map. cbn [snd]. rewrite map_id, IH. reflexivity.
Qed.
