(* Proofs/C16_closest.v -- lemmas about Model/C16_closest.v *)
From Coq Require Import ZArith List Bool Ascii String Lia.
From Typhon Require Import Base.Calendar Base.CalendarProofs Model.C02_template Proofs.C02_template
  Model.C16_closest.
Import ListNotations.
Open Scope Z_scope.

(* ------------------------------------------------------------------ booleans and propositions *)

Lemma coversb_iff t f : coversb t f = true <-> covers t f.
Proof.
  unfold coversb, covers. rewrite andb_true_iff, !Z.leb_le. tauto.
Qed.

Lemma coversb_false t f : coversb t f = false <-> ~ covers t f.
Proof.
  rewrite <- coversb_iff. destruct (coversb t f).
  - split; [discriminate|]. intros H. exfalso. apply H. reflexivity.
  - split; [|reflexivity]. intros _ H. discriminate H.
Qed.

Lemma nearb_iff P t f : nearb P t f = true <-> near P t f.
Proof.
  destruct P as [p|]; cbn [nearb near].
  - rewrite andb_true_iff, Z.leb_le, Z.ltb_lt. tauto.
  - tauto.
Qed.

Lemma candb_iff q P t f :
  candb q P t f = true <-> near P t f /\ passes q f = true /\ excluded q f = false.
Proof.
  unfold candb. rewrite !andb_true_iff, negb_true_iff, nearb_iff. tauto.
Qed.

Lemma cand_filter fs q P t f : In f (filter (candb q P t) fs) <-> candidate fs q P t f.
Proof.
  rewrite filter_In, candb_iff. unfold candidate. tauto.
Qed.

(* ------------------------------------------------------------------ the checker decides the specification *)

Theorem closest_ok_iff_spec_thm fs q P t r :
  closest_ok fs q P t r = true <-> ClosestSpec fs q P t r.
Proof.
  unfold closest_ok, ClosestSpec.
  destruct r as [i|].
  - destruct (nth_error fs i) as [g|] eqn:Eg.
    + rewrite andb_true_iff. split.
      * intros [Hc Hrest]. exists g. split; [reflexivity|].
        assert (Hcand : candidate fs q P t g).
        { apply cand_filter. apply filter_In. split; [eapply nth_error_In; exact Eg|exact Hc]. }
        split; [exact Hcand|].
        destruct (existsb (coversb t) (filter (candb q P t) fs)) eqn:Ex.
        -- apply coversb_iff in Hrest. split.
           ++ intros _. exact Hrest.
           ++ intros Hno. exfalso. exact (Hno g Hcand Hrest).
        -- split.
           ++ intros [f [Hf Hcov]]. exfalso.
              assert (Ht : existsb (coversb t) (filter (candb q P t) fs) = true).
              { apply existsb_exists. exists f. split; [apply cand_filter; exact Hf|apply coversb_iff; exact Hcov]. }
              rewrite Ht in Ex. discriminate.
           ++ intros _ f Hf. rewrite forallb_forall in Hrest.
              apply Z.leb_le. apply Hrest. apply cand_filter. exact Hf.
      * intros [g' [Hg' [Hcand [Hcov Hmin]]]]. inversion Hg'; subst g'. clear Hg'.
        split.
        -- destruct Hcand as [_ Hc]. apply candb_iff. exact Hc.
        -- destruct (existsb (coversb t) (filter (candb q P t) fs)) eqn:Ex.
           ++ apply existsb_exists in Ex. destruct Ex as [f [Hf Hc]].
              apply coversb_iff. apply Hcov. exists f. split; [apply cand_filter; exact Hf|apply coversb_iff; exact Hc].
           ++ apply forallb_forall. intros f Hf. apply Z.leb_le. apply Hmin.
              ** intros f' Hf' Hc'.
                 assert (Ht : existsb (coversb t) (filter (candb q P t) fs) = true).
                 { apply existsb_exists. exists f'. split; [apply cand_filter; exact Hf'|apply coversb_iff; exact Hc']. }
                 rewrite Ht in Ex. discriminate.
              ** apply cand_filter. exact Hf.
    + split; [discriminate|]. intros [g [Hg _]]. discriminate.
  - destruct (filter (candb q P t) fs) as [|x cs] eqn:Ef.
    + split; [|reflexivity]. intros _ f Hf. apply cand_filter in Hf. rewrite Ef in Hf. exact Hf.
    + split; [discriminate|]. intros H. exfalso. apply (H x). apply cand_filter. rewrite Ef. left. reflexivity.
Qed.

(* ------------------------------------------------------------------ list helpers of the algorithm *)

Lemma indexed_from_In {A} (l : list A) : forall k i x,
  In (i, x) (indexed_from k l) <-> (k <= i)%nat /\ nth_error l (i - k) = Some x.
Proof.
  induction l as [|a l IH]; intros k i x; cbn [indexed_from In].
  - split; [tauto|]. intros [_ H]. destruct (i - k)%nat; discriminate.
  - rewrite IH. split.
    + intros [H|[Hk Hn]].
      * inversion H; subst. split; [lia|]. replace (i - i)%nat with 0%nat by lia. reflexivity.
      * split; [lia|]. replace (i - k)%nat with (S (i - S k)) by lia. exact Hn.
    + intros [Hk Hn]. destruct (Nat.eq_dec i k) as [E|E].
      * left. subst i. replace (k - k)%nat with 0%nat in Hn by lia. cbn in Hn. inversion Hn. reflexivity.
      * right. split; [lia|]. replace (i - k)%nat with (S (i - S k)) in Hn by lia. exact Hn.
Qed.

Lemma indexed_In {A} (l : list A) i x : In (i, x) (indexed l) <-> nth_error l i = Some x.
Proof.
  unfold indexed. rewrite indexed_from_In. replace (i - 0)%nat with i by lia. split; [tauto|]. intros H; split; [lia|exact H].
Qed.

Lemma find_index_from_some {A} (p : A -> bool) (l : list A) : forall k i,
  find_index_from p k l = Some i -> exists x, (k <= i)%nat /\ nth_error l (i - k) = Some x /\ p x = true.
Proof.
  induction l as [|a l IH]; intros k i H; cbn [find_index_from] in H; [discriminate|].
  destruct (p a) eqn:Ep.
  - inversion H; subst. exists a. split; [lia|]. replace (i - i)%nat with 0%nat by lia. split; [reflexivity|exact Ep].
  - apply IH in H. destruct H as [x [Hk [Hn Hp]]]. exists x. split; [lia|].
    replace (i - k)%nat with (S (i - S k)) by lia. split; [exact Hn|exact Hp].
Qed.

Lemma find_index_some {A} (p : A -> bool) (l : list A) i :
  find_index p l = Some i -> exists x, nth_error l i = Some x /\ p x = true.
Proof.
  intros H. apply find_index_from_some in H. destruct H as [x [_ [Hn Hp]]].
  replace (i - 0)%nat with i in Hn by lia. eauto.
Qed.

Lemma str_eqb_eq a : forall b, str_eqb a b = true -> a = b.
Proof.
  induction a as [|x a IH]; intros [|y b] H; cbn [str_eqb] in H; try discriminate; [reflexivity|].
  apply andb_true_iff in H. destruct H as [Hx Hr]. apply Ascii.eqb_eq in Hx. subst. f_equal. apply IH. exact Hr.
Qed.

(* the fold of np.argmin keeps an element of the list whose distance is minimal *)
Lemma fold_better t (l : list (nat * file)) : forall c,
  let b := fold_left (better t) l c in
  In b (c :: l) /\ forall p, In p (c :: l) -> dist t (snd b) <= dist t (snd p).
Proof.
  induction l as [|a l IH]; intros c; cbn [fold_left].
  - split; [left; reflexivity|]. intros p [Hp|[]]. subst. lia.
  - specialize (IH (better t c a)). cbn zeta in IH.
    set (b := fold_left (better t) l (better t c a)) in *. clearbody b. destruct IH as [Hin Hmin].
    assert (Hb : (better t c a = c /\ dist t (snd c) <= dist t (snd a)) \/
                 (better t c a = a /\ dist t (snd a) <= dist t (snd c))).
    { unfold better. destruct (dist t (snd a) <? dist t (snd c)) eqn:E.
      - right. apply Z.ltb_lt in E. split; [reflexivity|lia].
      - left. apply Z.ltb_ge in E. split; [reflexivity|lia]. }
    split.
    + destruct Hin as [Hin|Hin].
      * destruct Hb as [[Hb _]|[Hb _]]; rewrite Hb in Hin; [left; exact Hin|right; left; exact Hin].
      * right. right. exact Hin.
    + intros p Hp.
      assert (H0 : dist t (snd b) <= dist t (snd (better t c a))).
      { apply Hmin. left. reflexivity. }
      destruct Hp as [Hp|[Hp|Hp]].
      * subst p. destruct Hb as [[Hb Hd]|[Hb Hd]]; rewrite Hb in H0; lia.
      * subst p. destruct Hb as [[Hb Hd]|[Hb Hd]]; rewrite Hb in H0; lia.
      * apply Hmin. right. exact Hp.
Qed.

(* ------------------------------------------------------------------ the window of the code = the neighbourhood *)

Lemma found_candb q P t f : file_ok f -> found q P t f = candb q P t f.
Proof.
  intros (H0 & H1 & H2). unfold found, candb. f_equal. f_equal.
  destruct P as [p|]; cbn [in_window nearb].
  - destruct (ft0 f <=? t + p - 1) eqn:E1, (ft0 f <? t + p) eqn:E2, (t - p <=? ft1 f) eqn:E3; try reflexivity;
      try apply Z.leb_le in E1; try apply Z.leb_gt in E1; try apply Z.ltb_lt in E2; try apply Z.ltb_ge in E2; lia.
  - assert (E1 : (ft0 f <=? dt_max - 1 - 1) = true) by (apply Z.leb_le; lia).
    assert (E2 : (0 <=? ft1 f) = true) by (apply Z.leb_le; lia).
    rewrite E1, E2. reflexivity.
Qed.

Lemma fold_min_pos (l : list Z) : Forall (fun z => 0 < z) l -> 0 < fold_right Z.min (366 * us_day) l.
Proof.
  induction 1 as [|z l Hz _ IH]; cbn [fold_right].
  - unfold us_day. lia.
  - lia.
Qed.

Lemma field_period_pos f : 0 < field_period f.
Proof. destruct f; cbn [field_period]; unfold us_day, us_hour, us_minute, us_second; lia. Qed.

Lemma period_of_pos tp p : period_of tp = Some p -> 0 < p.
Proof.
  unfold period_of. destruct (forallb is_lit (dir_part tp)); [discriminate|].
  intros H. inversion H. apply fold_min_pos. apply Forall_forall. intros z Hz.
  apply in_map_iff in Hz. destruct Hz as [f [Hf _]]. subst z. apply field_period_pos.
Qed.

Lemma covers_near P t f : (forall p, P = Some p -> 0 < p) -> covers t f -> near P t f.
Proof.
  intros HP [H1 H2]. destruct P as [p|]; cbn [near]; [|exact I].
  specialize (HP p eq_refl). lia.
Qed.

(* ------------------------------------------------------------------ the search meets the specification *)

Lemma search_meets_spec fs q P t : Forall file_ok fs -> ClosestSpec fs q P t (search fs q P t).
Proof.
  intros Hok. unfold search.
  set (L := filter (fun p : nat * file => found q P t (snd p)) (indexed fs)).
  assert (HL : forall i f, In (i, f) L <-> nth_error fs i = Some f /\ candb q P t f = true).
  { intros i f. unfold L. rewrite filter_In, indexed_In. cbn [snd]. split.
    - intros [Hn Hf]. split; [exact Hn|]. rewrite <- found_candb; [exact Hf|].
      rewrite Forall_forall in Hok. apply Hok. eapply nth_error_In. exact Hn.
    - intros [Hn Hc]. split; [exact Hn|]. rewrite found_candb; [exact Hc|].
      rewrite Forall_forall in Hok. apply Hok. eapply nth_error_In. exact Hn. }
  assert (Hcand_in : forall f, candidate fs q P t f -> exists i, In (i, f) L).
  { intros f (Hin & Hc). apply In_nth_error in Hin. destruct Hin as [i Hi]. exists i. apply HL.
    split; [exact Hi|apply candb_iff; exact Hc]. }
  assert (Hin_cand : forall i f, In (i, f) L -> nth_error fs i = Some f /\ candidate fs q P t f).
  { intros i f H. apply HL in H. destruct H as [Hn Hc]. split; [exact Hn|].
    split; [eapply nth_error_In; exact Hn|apply candb_iff; exact Hc]. }
  destruct L as [|c cs'] eqn:EL.
  - cbn [ClosestSpec]. intros f Hf. destruct (Hcand_in f Hf) as [i []].
  - destruct (find (fun p : nat * file => coversb t (snd p)) (c :: cs')) as [[i g]|] eqn:Efind.
    + apply find_some in Efind. destruct Efind as [Hin Hcov]. cbn [snd] in Hcov. cbn [fst].
      destruct (Hin_cand i g Hin) as [Hn Hc]. apply coversb_iff in Hcov.
      exists g. split; [exact Hn|]. split; [exact Hc|]. split.
      * intros _. exact Hcov.
      * intros Hno. exfalso. exact (Hno g Hc Hcov).
    + pose proof (fold_better t cs' c) as Hfb. cbn zeta in Hfb. destruct Hfb as [Hbin Hbmin].
      destruct (fold_left (better t) cs' c) as [i g] eqn:Eb. cbn [fst snd] in *.
      destruct (Hin_cand i g Hbin) as [Hn Hc].
      exists g. split; [exact Hn|]. split; [exact Hc|]. split.
      * intros [f [Hf Hcov]]. exfalso. destruct (Hcand_in f Hf) as [j Hj].
        pose proof (find_none _ _ Efind (j, f) Hj) as Hnc. cbn [snd] in Hnc.
        apply coversb_false in Hnc. exact (Hnc Hcov).
      * intros _ f Hf. destruct (Hcand_in f Hf) as [j Hj]. exact (Hbmin (j, f) Hj).
Qed.

(* ------------------------------------------------------------------ the whole algorithm (fixed code) *)

Lemma passes_unfiltered q f : q_filtered q = false -> passes q f = true.
Proof. intros H. unfold passes. rewrite H. reflexivity. Qed.

Lemma exact_name_some tp fill fs t i :
  exact_name tp fill fs t = Some i ->
  exists f, nth_error fs i = Some f /\ render tp t t fill = Ok (fname f).
Proof.
  unfold exact_name. destruct (render tp t t fill) as [n|e] eqn:Er; [|discriminate].
  intros H. apply find_index_some in H. destruct H as [f [Hn Hp]]. apply str_eqb_eq in Hp.
  exists f. split; [exact Hn|]. rewrite Hp. reflexivity.
Qed.

Theorem model_meets_spec_thm tp fill fs q t :
  Forall file_ok fs -> name_hyp tp fill fs t ->
  ClosestSpec fs q (period_of tp) t (closest_model tp fill fs q t).
Proof.
  intros Hok Hname. unfold closest_model.
  pose proof (search_meets_spec fs q (period_of tp) t Hok) as Hs.
  destruct (exact_name tp fill fs t) as [i|] eqn:Ex; [|exact Hs].
  destruct (exact_name_some _ _ _ _ _ Ex) as [f [Hn Hr]]. rewrite Hn.
  destruct (negb (q_filtered q) && negb (excluded q f)) eqn:Eb; [|exact Hs].
  apply andb_true_iff in Eb. destruct Eb as [Hf He]. apply negb_true_iff in Hf, He.
  assert (Hin : In f fs) by (eapply nth_error_In; exact Hn).
  assert (Hcov : covers t f) by (apply Hname; assumption).
  assert (Hcand : candidate fs q (period_of tp) t f).
  { split; [exact Hin|]. split; [|split; [apply passes_unfiltered; exact Hf|exact He]].
    apply covers_near; [|exact Hcov]. intros p Hp. eapply period_of_pos. exact Hp. }
  exists f. split; [exact Hn|]. split; [exact Hcand|]. split.
  - intros _. exact Hcov.
  - intros Hno. exfalso. exact (Hno f Hcand Hcov).
Qed.

(* absence is reported exactly when there is no candidate *)
Theorem none_iff_no_candidate_thm tp fill fs q t :
  Forall file_ok fs -> name_hyp tp fill fs t ->
  (closest_model tp fill fs q t = None <-> forall f, ~ candidate fs q (period_of tp) t f).
Proof.
  intros Hok Hname. pose proof (model_meets_spec_thm tp fill fs q t Hok Hname) as H.
  destruct (closest_model tp fill fs q t) as [i|] eqn:E.
  - split; [discriminate|]. intros Hno. cbn [ClosestSpec] in H. destruct H as [g [_ [Hc _]]].
    exfalso. exact (Hno g Hc).
  - split; [|reflexivity]. intros _. exact H.
Qed.

(* an accepted answer is never an excluded, filtered-out or far-away file *)
Theorem answer_is_candidate_thm fs q P t i :
  ClosestSpec fs q P t (Some i) ->
  exists g, nth_error fs i = Some g /\ near P t g /\ passes q g = true /\ excluded q g = false.
Proof.
  intros [g [Hn [[_ Hc] _]]]. exists g. split; [exact Hn|exact Hc].
Qed.

(* ------------------------------------------------------------------ name_hyp, decided *)

Lemma str_eqb_refl a : str_eqb a a = true.
Proof. induction a as [|x a IH]; cbn [str_eqb]; [reflexivity|]. rewrite Ascii.eqb_refl, IH. reflexivity. Qed.

Lemma name_hypb_iff tp fill fs t : name_hypb tp fill fs t = true <-> name_hyp tp fill fs t.
Proof.
  unfold name_hypb, name_hyp. destruct (render tp t t fill) as [n|e] eqn:Er.
  - rewrite forallb_forall. split.
    + intros H f Hin Hn. inversion Hn; subst n. specialize (H f Hin).
      rewrite str_eqb_refl in H. cbn [negb orb] in H. apply coversb_iff. exact H.
    + intros H f Hin. destruct (str_eqb (fname f) n) eqn:E; cbn [negb orb]; [|reflexivity].
      apply str_eqb_eq in E. apply coversb_iff. apply H; [exact Hin|]. rewrite E. reflexivity.
  - split; [|reflexivity]. intros _ f _ H. discriminate.
Qed.

Lemma file_okb_iff f : file_okb f = true <-> file_ok f.
Proof. unfold file_okb, file_ok. rewrite !andb_true_iff, !Z.leb_le. tauto. Qed.

Lemma all_okb fs : forallb file_okb fs = true -> Forall file_ok fs.
Proof.
  intros H. apply Forall_forall. intros f Hf. apply file_okb_iff. rewrite forallb_forall in H. apply H. exact Hf.
Qed.

(* the booleans the correspondence evaluates per case are the hypotheses of model_meets_spec *)
Theorem hyps_decided_thm tp fill fs t :
  forallb file_okb fs && name_hypb tp fill fs t = true <-> Forall file_ok fs /\ name_hyp tp fill fs t.
Proof.
  rewrite andb_true_iff, name_hypb_iff. split.
  - intros [H1 H2]. split; [apply all_okb; exact H1|exact H2].
  - intros [H1 H2]. split; [|exact H2]. apply forallb_forall. intros f Hf. apply file_okb_iff.
    rewrite Forall_forall in H1. apply H1. exact Hf.
Qed.

(* a single-file fileset: the answer does not depend on the timestamp or the filters, and it is the answer of
   the general rule for the one-file population without sub-directories *)
Theorem single_file_always_thm t q : single_model true t q = SPath.
Proof. reflexivity. Qed.

Theorem single_file_consistent_thm f t :
  file_ok f -> ClosestSpec [f] (Query false [] [] [] []) None t (Some 0%nat).
Proof.
  intros Hok. apply closest_ok_iff_spec_thm. unfold closest_ok. cbn [nth_error].
  assert (Hc : candb (Query false [] [] [] []) None t f = true) by reflexivity.
  cbn [filter]. rewrite Hc. cbn [andb existsb forallb].
  destruct (coversb t f) eqn:E; cbn [orb].
  - reflexivity.
  - rewrite andb_true_r. apply Z.leb_le. lia.
Qed.

(* ------------------------------------------------------------------ link to C02: t at the resolution of the names *)

Theorem exact_name_covers_thm c tp fill f t attrs :
  start_ok tp t -> 1000 <= year (fields t) ->
  (end_fields tp = [] /\ (forall d, coverage c = Some d -> 0 <= d /\ valid (t + d)) \/
   end_full tp = true /\ in_range (end_fields tp) (fields t) = true /\
   at_resolution (end_fields tp) (fields t) = true /\ no_parse_only (end_fields tp) = true) ->
  deterministic fill tp = true -> info_via c = ViaFilename ->
  info c tp (fname f) = Ok (ft0 f, ft1 f, attrs) ->
  render tp t t fill = Ok (fname f) -> ft0 f = t /\ t <= ft1 f.
Proof.
  intros Hs Hy Hcase Hdet Hv Hinfo Hr. pose proof Hs as (Vt & _).
  destruct Hcase as [(Hne & Hcov)|(Hf & Hrg & Hat & Hnp)].
  - destruct (no_end_fields_thm c tp t t fill (fname f) Hs Vt Hy Hne Hdet Hv Hr) as (attrs' & _ & Hi).
    rewrite Hinfo in Hi. destruct (coverage c) as [d|] eqn:Ec.
    + destruct (Hcov d eq_refl) as [Hd Hvd]. apply validb_iff in Hvd. unfold add in Hi. rewrite Hvd in Hi.
      inversion Hi. split; [reflexivity|lia].
    + inversion Hi. split; [reflexivity|lia].
  - destruct (roundtrip_end_full_thm c tp t t fill (fname f) Hs Vt (Z.le_refl t) Hf Hrg Hat Hnp Hdet Hv Hr)
      as (attrs' & _ & Hi).
    rewrite Hinfo in Hi. inversion Hi. split; [reflexivity|lia].
Qed.

(* ------------------------------------------------------------------ what the correspondence accepts *)

Theorem algo_ok_iff_spec_thm tp fill fs q t r :
  Forall file_ok fs -> name_hyp tp fill fs t ->
  (algo_ok tp fill fs q t r = true <-> ClosestSpec fs q (period_of tp) t r).
Proof.
  intros Hok Hname. rewrite <- closest_ok_iff_spec_thm. unfold algo_ok.
  split; [|intros H; rewrite H; reflexivity].
  intros H. apply orb_true_iff in H. destruct H as [H|H]; [exact H|].
  destruct (exact_name tp fill fs t) as [i|] eqn:Ex; [|discriminate].
  destruct r as [j|]; [|discriminate].
  destruct (nth_error fs i) as [f|] eqn:En; [|discriminate].
  apply andb_true_iff in H. destruct H as [Hb Hij]. apply Nat.eqb_eq in Hij. subst j.
  pose proof (model_meets_spec_thm tp fill fs q t Hok Hname) as Hm.
  unfold closest_model in Hm. rewrite Ex, En, Hb in Hm.
  apply closest_ok_iff_spec_thm. exact Hm.
Qed.
