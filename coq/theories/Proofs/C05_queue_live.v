(* C05 -- liveness of the result queue and the exact role of the final drain (Model/C05_queue_live.v):
   queue_liveness (explicit scheduler, measure mu), no deadlock, bound on the non-polling actions of ANY run,
   drain_needed (every exiting run of the parent without the final drain = a real run + Leave; it loses exactly what
   is visible in the queue then), a losing interleaving for every non-empty workload and every capacity, and the
   one-get-per-pass parent (seeded change C05-a): it loses results with a queue of two slots, never with one slot. *)
From Coq Require Import ZArith List Bool Lia Permutation Arith.
Import ListNotations.
From Typhon Require Import Model.C05_queue Model.C05_queue_live Proofs.C05_queue.


Lemma wsum_app : forall f l1 l2, wsum f (l1 ++ l2) = (wsum f l1 + wsum f l2)%nat.
Proof.
  intros f l1 l2; induction l1 as [|a l1 IH]; simpl.
  - reflexivity.
  - rewrite IH. lia.
Qed.

Lemma wsum_upd : forall f l k w x, nth_error l k = Some w ->
  (wsum f (upd k x l) + f w = wsum f l + f x)%nat.
Proof.
  intros f l k w x Hn.
  rewrite (nth_error_split_eq _ l k w Hn) at 2.
  unfold upd. rewrite !wsum_app. simpl. lia.
Qed.

Lemma in_flight_wsum : forall l, in_flight l = wsum (fun w => length (infl w)) l.
Proof. reflexivity. Qed.

Lemma find_idx_some : forall f l k, find_idx f l = Some k ->
  exists w, nth_error l k = Some w /\ f w = true.
Proof.
  intros f l; induction l as [|a l IH]; simpl; intros k H.
  - discriminate.
  - destruct (f a) eqn:E.
    + injection H as H; subst k. exists a. split; [reflexivity|exact E].
    + destruct (find_idx f l) as [j|] eqn:F; simpl in H; [|discriminate].
      injection H as H; subst k. destruct (IH j eq_refl) as [w [H1 H2]].
      exists w. split; assumption.
Qed.

Lemma find_idx_none : forall f l, find_idx f l = None -> Forall (fun w => f w = false) l.
Proof.
  intros f l; induction l as [|a l IH]; simpl; intros H.
  - constructor.
  - destruct (f a) eqn:E; [discriminate|].
    destruct (find_idx f l) eqn:F; simpl in H; [discriminate|].
    constructor; [exact E|apply IH; reflexivity].
Qed.

Lemma wsum_zero : forall f l, Forall (fun w => f w = 0%nat) l -> wsum f l = 0%nat.
Proof.
  intros f l H; induction H as [|a l Ha Hl IH]; simpl.
  - reflexivity.
  - rewrite Ha, IH. reflexivity.
Qed.

Lemma no_infl_in_flight : forall l, Forall (fun w => has_infl w = false) l -> in_flight l = 0%nat.
Proof.
  intros l H. rewrite in_flight_wsum. apply wsum_zero.
  eapply Forall_impl; [|exact H]. intros w Hw. unfold has_infl in Hw.
  destruct (infl w); [reflexivity|discriminate].
Qed.

Lemma no_alive_existsb : forall l, Forall (fun w => alive w = false) l -> existsb alive l = false.
Proof.
  intros l H; induction H as [|a l Ha Hl IH]; simpl.
  - reflexivity.
  - rewrite Ha, IH. reflexivity.
Qed.

(* effect of the three worker-side actions on the measures *)
Record same_parent (s s' : qst) : Prop :=
  { sp_pc : pc s' = pc s; sp_rf : run_flag s' = run_flag s; sp_y : yielded s' = yielded s }.

Lemma flush_effect : forall cap s k w, nth_error (ws s) k = Some w -> has_infl w = true ->
  exists s', step cap s (Flush k) = Some s' /\ same_parent s s' /\
    pend_total (ws s') = pend_total (ws s) /\ (in_flight (ws s') + 1 = in_flight (ws s))%nat /\
    alive_count (ws s') = alive_count (ws s) /\ length (vis s') = S (length (vis s)).
Proof.
  intros cap s k w Hn Hi. unfold has_infl in Hi. simpl. rewrite Hn.
  destruct (infl w) as [|x r] eqn:Ei; [discriminate|].
  eexists. split; [reflexivity|]. simpl.
  split; [constructor; reflexivity|].
  pose proof (wsum_upd (fun w => length (pend w)) (ws s) k w {| pend := pend w; infl := r; alive := alive w |} Hn) as H1.
  pose proof (in_flight_upd (ws s) k w {| pend := pend w; infl := r; alive := alive w |} Hn) as H2.
  pose proof (wsum_upd (fun w => if alive w then 1%nat else 0%nat) (ws s) k w
                {| pend := pend w; infl := r; alive := alive w |} Hn) as H3.
  simpl in H1, H2, H3. rewrite Ei in H2. simpl in H2.
  unfold pend_total, alive_count. rewrite app_length. simpl.
  repeat split; lia.
Qed.

Lemma put_effect : forall cap s k w, nth_error (ws s) k = Some w -> has_pend w = true -> alive w = true ->
  (occupied s < cap)%nat ->
  exists s', step cap s (Put k) = Some s' /\ same_parent s s' /\
    (pend_total (ws s') + 1 = pend_total (ws s))%nat /\ in_flight (ws s') = S (in_flight (ws s)) /\
    alive_count (ws s') = alive_count (ws s) /\ vis s' = vis s.
Proof.
  intros cap s k w Hn Hp Ha Hocc. unfold has_pend in Hp. simpl. rewrite Hn.
  destruct (pend w) as [|x r] eqn:Ep; [discriminate|].
  rewrite Ha. apply Nat.ltb_lt in Hocc. rewrite Hocc. simpl.
  eexists. split; [reflexivity|]. unfold set_ws; simpl.
  split; [constructor; reflexivity|].
  set (x' := {| pend := r; infl := infl w ++ [x]; alive := true |}).
  pose proof (wsum_upd (fun w => length (pend w)) (ws s) k w x' Hn) as H1.
  pose proof (in_flight_upd (ws s) k w x' Hn) as H2.
  pose proof (wsum_upd (fun w => if alive w then 1%nat else 0%nat) (ws s) k w x' Hn) as H3.
  subst x'. simpl in H1, H2, H3. rewrite Ep in H1. rewrite Ha in H3. rewrite app_length in H2. simpl in H1, H2.
  unfold pend_total, alive_count.
  repeat split; lia.
Qed.

Lemma die_effect : forall cap s k w, nth_error (ws s) k = Some w -> has_pend w = false -> has_infl w = false ->
  alive w = true ->
  exists s', step cap s (Die k) = Some s' /\ same_parent s s' /\
    pend_total (ws s') = pend_total (ws s) /\ in_flight (ws s') = in_flight (ws s) /\
    (alive_count (ws s') + 1 = alive_count (ws s))%nat /\ vis s' = vis s.
Proof.
  intros cap s k w Hn Hp Hi Ha. unfold has_pend in Hp. unfold has_infl in Hi. simpl. rewrite Hn.
  destruct (pend w) as [|x r] eqn:Ep; [|discriminate].
  destruct (infl w) as [|y t] eqn:Ei; [|discriminate].
  rewrite Ha.
  eexists. split; [reflexivity|]. unfold set_ws; simpl.
  split; [constructor; reflexivity|].
  set (x' := {| pend := []; infl := []; alive := false |}).
  pose proof (wsum_upd (fun w => length (pend w)) (ws s) k w x' Hn) as H1.
  pose proof (in_flight_upd (ws s) k w x' Hn) as H2.
  pose proof (wsum_upd (fun w => if alive w then 1%nat else 0%nat) (ws s) k w x' Hn) as H3.
  subst x'. simpl in H1, H2, H3. rewrite Ep in H1. rewrite Ei in H2. rewrite Ha in H3. simpl in H1, H2.
  unfold pend_total, alive_count.
  repeat split; lia.
Qed.

(* the scheduled action is enabled and decreases mu *)
Lemma no_pend_total : forall l, Forall (fun w => has_pend w = false) l -> pend_total l = 0%nat.
Proof.
  intros l H. unfold pend_total. apply wsum_zero.
  eapply Forall_impl; [|exact H]. intros w Hw. unfold has_pend in Hw.
  destruct (pend w); [reflexivity|discriminate].
Qed.

Lemma sched_decreases : forall cap items s, (0 < cap)%nat -> Inv items s -> pc s <> Exited ->
  exists a s', sched s = Some a /\ step cap s a = Some s' /\ (mu s' < mu s)%nat /\
    (pend_total (ws s') <= pend_total (ws s) <= pend_total (ws s') + 1)%nat /\
    ((pend_total (ws s') < pend_total (ws s))%nat -> in_flight (ws s) = 0%nat /\ vis s = []) /\
    (pc s' = Exited -> pend_total (ws s) = 0%nat).
Proof.
  intros cap items s Hcap (_ & Hq & _ & Hh & _) Hpc.
  unfold sched.
  destruct (find_idx has_infl (ws s)) as [k|] eqn:Fi.
  { (* Flush *)
    destruct (find_idx_some _ _ _ Fi) as [w [Hn Hw]].
    destruct (flush_effect cap s k w Hn Hw) as [s' (Hs & Hsp & H1 & H2 & H3 & H4)].
    exists (Flush k), s'. split; [destruct (pc s); [reflexivity|reflexivity|congruence]|].
    split; [exact Hs|].
    destruct Hsp as [E1 E2 E3].
    split; [unfold mu, work, vis_weight, parent_rank; rewrite E1, E2;
            destruct (pc s); destruct (run_flag s); lia|].
    split; [lia|]. split; [intros Hlt; lia|]. intros He. congruence. }
  pose proof (find_idx_none _ _ Fi) as Hni.
  destruct (vis s) as [|v vr] eqn:Ev.
  - destruct (find_idx has_pend (ws s)) as [k|] eqn:Fp.
    { (* Put *)
      destruct (find_idx_some _ _ _ Fp) as [w [Hn Hw]].
      assert (Ha : alive w = true).
      { destruct (alive w) eqn:Ha; [reflexivity|].
        destruct (Forall_nth quiet _ _ _ Hq Hn Ha) as [Hp0 _].
        unfold has_pend in Hw. rewrite Hp0 in Hw. discriminate. }
      assert (Hocc : (occupied s < cap)%nat).
      { unfold occupied. rewrite (no_infl_in_flight _ Hni), Ev. simpl. exact Hcap. }
      destruct (put_effect cap s k w Hn Hw Ha Hocc) as [s' (Hs & Hsp & H1 & H2 & H3 & H4)].
      exists (Put k), s'. split; [destruct (pc s); [reflexivity|reflexivity|congruence]|].
      split; [exact Hs|].
      destruct Hsp as [E1 E2 E3].
      split; [unfold mu, work, vis_weight, parent_rank; rewrite E1, E2, H4, Ev;
              destruct (pc s); destruct (run_flag s); simpl; lia|].
      split; [lia|]. split; [intros _; split; [exact (no_infl_in_flight _ Hni)|reflexivity]|].
      intros He. congruence. }
    pose proof (find_idx_none _ _ Fp) as Hnp.
    destruct (find_idx alive (ws s)) as [k|] eqn:Fa.
    { (* Die *)
      destruct (find_idx_some _ _ _ Fa) as [w [Hn Hw]].
      pose proof Hni as Hni'. pose proof Hnp as Hnp'.
      rewrite Forall_forall in Hni', Hnp'.
      pose proof (Hni' w (nth_error_In _ _ Hn)) as Hwi.
      pose proof (Hnp' w (nth_error_In _ _ Hn)) as Hwp.
      destruct (die_effect cap s k w Hn Hwp Hwi Hw) as [s' (Hs & Hsp & H1 & H2 & H3 & H4)].
      exists (Die k), s'. split; [destruct (pc s); [reflexivity|reflexivity|congruence]|].
      split; [exact Hs|].
      destruct Hsp as [E1 E2 E3].
      split; [unfold mu, work, vis_weight, parent_rank; rewrite E1, E2, H4, Ev;
              destruct (pc s); destruct (run_flag s); simpl; lia|].
      split; [lia|]. split; [intros Hlt; lia|]. intros He. congruence. }
    pose proof (find_idx_none _ _ Fa) as Hna.
    (* everything is done: the parent's last passes *)
    destruct (pc s) eqn:Epc; [| |congruence].
    + destruct (run_flag s) eqn:Erf.
      * exists Snapshot. eexists. split; [reflexivity|]. simpl. rewrite Epc, Erf.
        split; [reflexivity|].
        split; [unfold mu, work, vis_weight, parent_rank; simpl; rewrite ?Epc, ?Erf, ?Ev;
                rewrite (no_alive_existsb _ Hna); simpl; lia|].
        simpl. split; [lia|]. split; [intros Hlt; lia|]. intros He; discriminate.
      * exists Leave. eexists. split; [reflexivity|]. simpl. rewrite Epc, Erf.
        split; [reflexivity|].
        split; [unfold mu, work, vis_weight, parent_rank; simpl; rewrite ?Epc, ?Erf, ?Ev; simpl; lia|].
        simpl. split; [lia|]. split; [intros Hlt; lia|]. intros _. exact (no_pend_total _ Hnp).
    + exists EmptyTrue. eexists. split; [reflexivity|]. simpl. rewrite Epc, Ev.
      split; [reflexivity|].
      split; [unfold mu, work, vis_weight, parent_rank; simpl; rewrite ?Epc, ?Ev;
              destruct (run_flag s); simpl; lia|].
      simpl. split; [lia|]. split; [intros Hlt; lia|]. intros He; discriminate.
  - (* something is visible *)
    destruct (pc s) eqn:Epc; [| |congruence].
    + assert (Erf : run_flag s = true).
      { destruct (run_flag s) eqn:Erf; [reflexivity|].
        destruct (Hh eq_refl eq_refl) as [_ Hv]. discriminate Hv. }
      exists Snapshot. eexists. split; [reflexivity|]. simpl. rewrite Epc, Erf.
      split; [reflexivity|].
      split; [unfold mu, work, vis_weight, parent_rank; simpl; rewrite ?Epc, ?Erf, ?Ev;
              destruct (existsb alive (ws s)); simpl; lia|].
      simpl. split; [lia|]. split; [intros Hlt; lia|]. intros He; discriminate.
    + exists Get. eexists. split; [reflexivity|]. simpl. rewrite Epc, Ev.
      split; [reflexivity|].
      split; [unfold mu, work, vis_weight, parent_rank; simpl; rewrite ?Epc, ?Ev;
              destruct (run_flag s); simpl; lia|].
      simpl. split; [lia|]. split; [intros Hlt; lia|]. intros He; discriminate.
Qed.

Lemma qrun_app : forall cap t1 t2 s,
  qrun cap s (t1 ++ t2) = match qrun cap s t1 with Some s1 => qrun cap s1 t2 | None => None end.
Proof.
  intros cap t1 t2; induction t1 as [|a t1 IH]; intros s; simpl.
  - reflexivity.
  - destruct (step cap s a) as [s1|]; [apply IH|reflexivity].
Qed.

Lemma mu_zero_exited : forall s, mu s = 0%nat -> pc s = Exited.
Proof.
  intros s H. unfold mu, parent_rank in H.
  destruct (pc s); [destruct (run_flag s); lia|destruct (run_flag s); lia|reflexivity].
Qed.

Lemma sched_exited : forall s, pc s = Exited -> sched s = None.
Proof. intros s H. unfold sched. rewrite H. reflexivity. Qed.

(* the scheduler reaches the parent's exit within mu steps *)
Lemma sched_reaches : forall cap items, (0 < cap)%nat -> forall n s, (mu s <= n)%nat -> Inv items s ->
  exists s', qrun cap s (sched_trace cap n s) = Some s' /\ pc s' = Exited /\
             (length (sched_trace cap n s) <= mu s)%nat.
Proof.
  intros cap items Hcap n; induction n as [|n IH]; intros s Hmu HI.
  - exists s. simpl. split; [reflexivity|]. split; [apply mu_zero_exited; lia|lia].
  - destruct (pc s) eqn:Epc.
    3:{ exists s. simpl. rewrite (sched_exited s Epc). simpl.
        split; [reflexivity|]. split; [exact Epc|lia]. }
    all: (assert (Hne : pc s <> Exited) by congruence;
          destruct (sched_decreases cap items s Hcap HI Hne) as [a [s1 (Hs & Hst & Hlt & _)]];
          simpl; rewrite Hs, Hst;
          assert (Hmu1 : (mu s1 <= n)%nat) by lia;
          destruct (IH s1 Hmu1 (step_Inv cap items s a s1 HI Hst)) as [s' (Hr & He & Hl)];
          exists s'; simpl; rewrite Hst; split; [exact Hr|]; split; [exact He|lia]).
Qed.

Lemma wsum_init : forall f items,
  wsum f (map (fun l => {| pend := l; infl := []; alive := true |}) items)
  = fold_right (fun l n => (f {| pend := l; infl := []; alive := true |} + n)%nat) 0%nat items.
Proof.
  intros f items; induction items as [|l items IH]; simpl.
  - reflexivity.
  - rewrite IH. reflexivity.
Qed.

Lemma length_concat_sum : forall (items : list (list Z)),
  fold_right (fun l n => (length l + n)%nat) 0%nat items = length (concat items).
Proof.
  intros items; induction items as [|l items IH]; simpl.
  - reflexivity.
  - rewrite app_length, IH. reflexivity.
Qed.

Lemma count_ones : forall (items : list (list Z)),
  fold_right (fun (l : list Z) n => S n) 0%nat items = length items.
Proof.
  intros items; induction items as [|l items IH]; simpl.
  - reflexivity.
  - rewrite IH. reflexivity.
Qed.

Lemma mu_init : forall items,
  mu (init items) = (20 * length (concat items) + 5 * length items
                     + match items with [] => 1 | _ => 3 end)%nat.
Proof.
  intros items. unfold mu, work, vis_weight, parent_rank, init; simpl.
  unfold pend_total, alive_count. rewrite in_flight_init.
  rewrite !wsum_init. simpl. rewrite length_concat_sum, count_ones.
  destruct items; simpl; lia.
Qed.

(* LIVENESS: from every reachable state the explicit scheduler leads to the parent's exit, in at most mu s steps,
   and there everything has been yielded *)
Theorem queue_liveness_lemma : forall cap items tr s, (0 < cap)%nat ->
  qrun cap (init items) tr = Some s ->
  exists s', qrun cap s (sched_trace cap (mu s) s) = Some s' /\ pc s' = Exited /\
             (length (sched_trace cap (mu s) s) <= mu s)%nat /\
             Permutation (yielded s') (concat items) /\ vis s' = [].
Proof.
  intros cap items tr s Hcap Hrun.
  destruct (sched_reaches cap items Hcap (mu s) s (le_n _) (qrun_Inv cap items tr s Hrun)) as [s' (Hr & He & Hl)].
  exists s'. split; [exact Hr|]. split; [exact He|]. split; [exact Hl|].
  assert (Hfull : qrun cap (init items) (tr ++ sched_trace cap (mu s) s) = Some s').
  { rewrite qrun_app, Hrun. exact Hr. }
  destruct (queue_exactly_once_lemma cap items _ s' Hfull He) as (Hp & Hv & _).
  split; assumption.
Qed.

(* no deadlock: a reachable state in which the parent has not left always has an enabled action that decreases mu *)
Theorem queue_no_deadlock_lemma : forall cap items tr s, (0 < cap)%nat ->
  qrun cap (init items) tr = Some s -> pc s <> Exited ->
  exists a s', sched s = Some a /\ step cap s a = Some s' /\ (mu s' < mu s)%nat.
Proof.
  intros cap items tr s Hcap Hrun Hpc.
  destruct (sched_decreases cap items s Hcap (qrun_Inv cap items tr s Hrun) Hpc) as [a [s' (H1 & H2 & H3 & _)]].
  exists a, s'. repeat split; assumption.
Qed.

(* every action except the parent's polling takes one unit of work0: any run, however scheduled, contains at most
   work0 (init) = 3 #items + #workers + 1 actions that are not Snapshot / EmptyTrue *)
Lemma step_work0 : forall cap s a s', step cap s a = Some s' ->
  work0 s = (work0 s' + (if is_poll a then 0 else 1))%nat.
Proof.
  intros cap s a s' Hstep.
  destruct a as [k|k|k| | | | ]; simpl in Hstep.
  - destruct (nth_error (ws s) k) as [w|] eqn:Hn; [|discriminate].
    destruct (pend w) as [|x r] eqn:Hp; [discriminate|].
    destruct (alive w) eqn:Hal; simpl in Hstep; [|discriminate].
    destruct (Nat.ltb (occupied s) cap) eqn:Hlt; [|discriminate].
    injection Hstep as Hs'; subst s'. unfold work0, set_ws; simpl.
    set (x' := {| pend := r; infl := infl w ++ [x]; alive := true |}).
    pose proof (wsum_upd (fun w => length (pend w)) (ws s) k w x' Hn) as H1.
    pose proof (in_flight_upd (ws s) k w x' Hn) as H2.
    pose proof (wsum_upd (fun w => if alive w then 1%nat else 0%nat) (ws s) k w x' Hn) as H3.
    subst x'. simpl in H1, H2, H3. rewrite Hp in H1. rewrite Hal in H3. rewrite app_length in H2. simpl in H1, H2.
    unfold pend_total, alive_count. destruct (pc s); lia.
  - destruct (nth_error (ws s) k) as [w|] eqn:Hn; [|discriminate].
    destruct (infl w) as [|x r] eqn:Hi; [discriminate|].
    injection Hstep as Hs'; subst s'. unfold work0; simpl.
    set (x' := {| pend := pend w; infl := r; alive := alive w |}).
    pose proof (wsum_upd (fun w => length (pend w)) (ws s) k w x' Hn) as H1.
    pose proof (in_flight_upd (ws s) k w x' Hn) as H2.
    pose proof (wsum_upd (fun w => if alive w then 1%nat else 0%nat) (ws s) k w x' Hn) as H3.
    subst x'. simpl in H1, H2, H3. rewrite Hi in H2. simpl in H2.
    unfold pend_total, alive_count. rewrite app_length. simpl. destruct (pc s); lia.
  - destruct (nth_error (ws s) k) as [w|] eqn:Hn; [|discriminate].
    destruct (pend w) as [|x r] eqn:Hp; [|discriminate].
    destruct (infl w) as [|y t] eqn:Hi; [|discriminate].
    destruct (alive w) eqn:Hal; [|discriminate].
    injection Hstep as Hs'; subst s'. unfold work0, set_ws; simpl.
    set (x' := {| pend := []; infl := []; alive := false |}).
    pose proof (wsum_upd (fun w => length (pend w)) (ws s) k w x' Hn) as H1.
    pose proof (in_flight_upd (ws s) k w x' Hn) as H2.
    pose proof (wsum_upd (fun w => if alive w then 1%nat else 0%nat) (ws s) k w x' Hn) as H3.
    subst x'. simpl in H1, H2, H3. rewrite Hp in H1. rewrite Hi in H2. rewrite Hal in H3. simpl in H1, H2.
    unfold pend_total, alive_count. destruct (pc s); lia.
  - destruct (pc s) eqn:Hpc; try discriminate.
    destruct (run_flag s) eqn:Hrf; [|discriminate].
    injection Hstep as Hs'; subst s'. unfold work0; simpl. rewrite Hpc. lia.
  - destruct (pc s) eqn:Hpc; try discriminate.
    destruct (vis s) as [|x r] eqn:Hv; [discriminate|].
    injection Hstep as Hs'; subst s'. unfold work0; simpl. rewrite Hpc, Hv. simpl. lia.
  - destruct (pc s) eqn:Hpc; try discriminate.
    destruct (vis s) as [|x r] eqn:Hv; [|discriminate].
    injection Hstep as Hs'; subst s'. unfold work0; simpl. rewrite Hpc, Hv. simpl. lia.
  - destruct (pc s) eqn:Hpc; try discriminate.
    destruct (run_flag s) eqn:Hrf; [discriminate|].
    injection Hstep as Hs'; subst s'. unfold work0; simpl. rewrite Hpc. lia.
Qed.

Theorem queue_work_bounded_lemma : forall cap tr s s', qrun cap s tr = Some s' ->
  (work_actions tr + work0 s' = work0 s)%nat.
Proof.
  intros cap tr; induction tr as [|a tr IH]; intros s s' Hrun; simpl in Hrun.
  - injection Hrun as Hrun; subst s'. reflexivity.
  - destruct (step cap s a) as [s1|] eqn:Hs; [|discriminate].
    pose proof (step_work0 cap s a s1 Hs) as H1. pose proof (IH s1 s' Hrun) as H2.
    unfold work_actions in *. simpl. destruct (is_poll a); simpl; lia.
Qed.

Lemma work0_init : forall items,
  work0 (init items) = (3 * length (concat items) + length items + 1)%nat.
Proof.
  intros items. unfold work0, init; simpl.
  unfold pend_total, alive_count. rewrite in_flight_init.
  rewrite !wsum_init. simpl. rewrite length_concat_sum, count_ones. lia.
Qed.

Theorem queue_work_exact_init : forall cap items tr s, qrun cap (init items) tr = Some s ->
  (work_actions tr + work0 s = 3 * length (concat items) + length items + 1)%nat.
Proof.
  intros cap items tr s H. rewrite <- work0_init. exact (queue_work_bounded_lemma cap tr (init items) s H).
Qed.

Theorem queue_work_bounded_init : forall cap items tr s, qrun cap (init items) tr = Some s ->
  (work_actions tr <= 3 * length (concat items) + length items + 1)%nat.
Proof.
  intros cap items tr s Hrun.
  pose proof (queue_work_bounded_lemma cap tr _ s Hrun) as H. rewrite work0_init in H. lia.
Qed.

(* ================= the parent WITHOUT the final drain ================= *)

Lemma step_nodrain_cases : forall cap s a s', step_nodrain cap s a = Some s' ->
  step cap s a = Some s' \/ (a = Leave /\ pc s = Drain /\ run_flag s = false /\ s' = exit_now s).
Proof.
  intros cap s a s' H. unfold step_nodrain in H.
  destruct a; try (left; exact H).
  destruct (pc s) eqn:Epc; try (left; exact H).
  destruct (run_flag s) eqn:Erf; [discriminate|].
  injection H as H; subst s'. right. repeat split; reflexivity.
Qed.

Lemma step_is_nodrain_step : forall cap s a s', step cap s a = Some s' -> step_nodrain cap s a = Some s'.
Proof.
  intros cap s a s' H. unfold step_nodrain.
  destruct a; try exact H.
  destruct (pc s) eqn:Epc; try exact H.
  simpl in H. rewrite Epc in H. discriminate.
Qed.

Lemma qrun_is_nodrain_run : forall cap tr s s', qrun cap s tr = Some s' -> qrun_nodrain cap s tr = Some s'.
Proof.
  intros cap tr; induction tr as [|a tr IH]; intros s s' H; simpl in *.
  - exact H.
  - destruct (step cap s a) as [s1|] eqn:Hs; [|discriminate].
    rewrite (step_is_nodrain_step cap s a s1 Hs). apply IH. exact H.
Qed.

Lemma qrun_nodrain_app : forall cap t1 t2 s,
  qrun_nodrain cap s (t1 ++ t2)
  = match qrun_nodrain cap s t1 with Some s1 => qrun_nodrain cap s1 t2 | None => None end.
Proof.
  intros cap t1 t2; induction t1 as [|a t1 IH]; intros s; simpl.
  - reflexivity.
  - destruct (step_nodrain cap s a) as [s1|]; [apply IH|reflexivity].
Qed.

(* after the exit nothing moves any more: every worker is dead and has nothing left *)
Lemma exited_stuck : forall cap s a, pc s = Exited -> all_dead (ws s) -> Forall quiet (ws s) ->
  step_nodrain cap s a = None.
Proof.
  intros cap s a Hpc Hd Hq. unfold step_nodrain.
  destruct a as [k|k|k| | | | ]; rewrite ?Hpc; simpl; rewrite ?Hpc; try reflexivity.
  - destruct (nth_error (ws s) k) as [w|] eqn:Hn; [|reflexivity].
    destruct (pend w); [reflexivity|]. rewrite (dead_nth _ _ _ Hd Hn). reflexivity.
  - destruct (nth_error (ws s) k) as [w|] eqn:Hn; [|reflexivity].
    destruct (Forall_nth quiet _ _ _ Hq Hn (dead_nth _ _ _ Hd Hn)) as [_ Hi]. rewrite Hi. reflexivity.
  - destruct (nth_error (ws s) k) as [w|] eqn:Hn; [|reflexivity].
    rewrite (dead_nth _ _ _ Hd Hn). destruct (pend w); [destruct (infl w)|]; reflexivity.
Qed.

Lemma step_to_exited : forall cap s a s', step cap s a = Some s' -> pc s <> Exited -> pc s' = Exited ->
  a = Leave /\ pc s = Head /\ run_flag s = false /\ s' = exit_now s.
Proof.
  intros cap s a s' Hstep Hne He.
  destruct a as [k|k|k| | | | ]; simpl in Hstep.
  - destruct (nth_error (ws s) k) as [w|]; [|discriminate].
    destruct (pend w); [discriminate|].
    destruct (alive w && Nat.ltb (occupied s) cap); [|discriminate].
    injection Hstep as Hs; subst s'. simpl in He. contradiction.
  - destruct (nth_error (ws s) k) as [w|]; [|discriminate].
    destruct (infl w); [discriminate|].
    injection Hstep as Hs; subst s'. simpl in He. contradiction.
  - destruct (nth_error (ws s) k) as [w|]; [|discriminate].
    destruct (pend w); [|discriminate]. destruct (infl w); [|discriminate].
    destruct (alive w); [|discriminate].
    injection Hstep as Hs; subst s'. simpl in He. contradiction.
  - destruct (pc s); try discriminate. destruct (run_flag s); [|discriminate].
    injection Hstep as Hs; subst s'. simpl in He. discriminate.
  - destruct (pc s); try discriminate. destruct (vis s); [discriminate|].
    injection Hstep as Hs; subst s'. simpl in He. discriminate.
  - destruct (pc s); try discriminate. destruct (vis s); [|discriminate].
    injection Hstep as Hs; subst s'. simpl in He. discriminate.
  - destruct (pc s) eqn:Epc; try discriminate. destruct (run_flag s) eqn:Erf; [discriminate|].
    injection Hstep as Hs; subst s'. repeat split; reflexivity.
Qed.

(* every run of the weaker parent that reaches the exit is a run of the REAL system followed by one Leave *)
Lemma nodrain_last : forall cap items tr s s', Inv items s -> pc s <> Exited ->
  qrun_nodrain cap s tr = Some s' -> pc s' = Exited ->
  exists tr0 s0, tr = tr0 ++ [Leave] /\ qrun cap s tr0 = Some s0 /\
    (pc s0 = Head \/ pc s0 = Drain) /\ run_flag s0 = false /\ s' = exit_now s0.
Proof.
  intros cap items tr; induction tr as [|a r IH]; intros s s' HI Hne Hrun He; simpl in Hrun.
  - injection Hrun as Hrun; subst s'. contradiction.
  - destruct (step_nodrain cap s a) as [s1|] eqn:Hs; [|discriminate].
    assert (Hfin : a = Leave -> (pc s = Head \/ pc s = Drain) -> run_flag s = false ->
                     s1 = exit_now s ->
                     exists tr0 s0, a :: r = tr0 ++ [Leave] /\ qrun cap s tr0 = Some s0 /\
                       (pc s0 = Head \/ pc s0 = Drain) /\ run_flag s0 = false /\ s' = exit_now s0).
    { intros Ha Hpc Hrf Hs1.
      destruct HI as (_ & Hq & Hc & Hd & _).
      assert (Hdead : all_dead (ws s)).
      { destruct Hpc as [Hpc|Hpc]; [exact (proj1 (Hd Hpc Hrf))|exact (Hc Hpc Hrf)]. }
      destruct r as [|b r'].
      - simpl in Hrun. injection Hrun as Hrun; subst s'.
        exists [], s. simpl. subst a. repeat split; try assumption; reflexivity.
      - simpl in Hrun.
        rewrite (exited_stuck cap s1 b) in Hrun; [discriminate| | |]; subst s1; simpl; [reflexivity|exact Hdead|exact Hq]. }
    destruct (step_nodrain_cases cap s a s1 Hs) as [Hreal|(Ha & Hpc & Hrf & Hs1)].
    + destruct (pc s1) eqn:Epc1.
      3:{ destruct (step_to_exited cap s a s1 Hreal Hne Epc1) as (Ha & Hpc & Hrf & Hs1).
          apply (Hfin Ha (or_introl Hpc) Hrf Hs1). }
      all: (assert (Hne1 : pc s1 <> Exited) by congruence;
            destruct (IH s1 s' (step_Inv cap items s a s1 HI Hreal) Hne1 Hrun He)
              as [tr0 [s0 (Htr & Hr0 & Hp0 & Hrf0 & Hs')]];
            exists (a :: tr0), s0; simpl; rewrite Hreal, Htr;
            repeat split; assumption).
    + apply (Hfin Ha (or_intror Hpc) Hrf Hs1).
Qed.

(* DRAIN NEEDED, exactly: a run of the parent without the final drain that reaches the exit is a run tr0 of the real
   system to a state s0 in which no worker is alive any more, followed by Leave; what it fails to yield is exactly what
   is visible in the queue in s0 (at most cap items); it loses something iff the queue is non-empty there, which can
   only be right after the Snapshot that saw the last worker dead (pc = Drain): items flushed since the parent's last
   look into the queue.  With the real parent (Leave only from Head) the queue is empty in s0. *)
Theorem drain_needed_lemma : forall cap items tr s,
  qrun_nodrain cap (init items) tr = Some s -> pc s = Exited ->
  exists tr0 s0, tr = tr0 ++ [Leave] /\ qrun cap (init items) tr0 = Some s0 /\ s = exit_now s0 /\
    run_flag s0 = false /\
    Forall (fun w => alive w = false /\ pend w = [] /\ infl w = []) (ws s0) /\
    Permutation (yielded s ++ vis s0) (concat items) /\
    (length (vis s0) <= cap)%nat /\
    (Permutation (yielded s) (concat items) <-> vis s0 = []) /\
    (vis s0 <> [] -> pc s0 = Drain) /\
    (pc s0 = Head -> qrun cap (init items) tr = Some s).
Proof.
  intros cap items tr s Hrun He.
  assert (Hne : pc (init items) <> Exited) by (simpl; discriminate).
  destruct (nodrain_last cap items tr (init items) s (Inv_init items) Hne Hrun He)
    as [tr0 [s0 (Htr & Hr0 & Hp0 & Hrf0 & Hs)]].
  exists tr0, s0.
  destruct (qrun_Inv cap items tr0 s0 Hr0) as (Ha & Hq & Hc & Hd & _).
  assert (Hdead : all_dead (ws s0)).
  { destruct Hp0 as [Hpc|Hpc]; [exact (proj1 (Hd Hpc Hrf0))|exact (Hc Hpc Hrf0)]. }
  assert (Hperm : Permutation (yielded s ++ vis s0) (concat items)).
  { subst s. simpl. rewrite (flat_map_payload_dead _ Hq Hdead) in Ha. rewrite app_nil_r in Ha. exact Ha. }
  split; [exact Htr|]. split; [exact Hr0|]. split; [exact Hs|]. split; [exact Hrf0|].
  split.
  { unfold all_dead in Hdead. rewrite Forall_forall in *.
    intros w Hin. pose proof (Hdead w Hin) as Hal. destruct (Hq w Hin Hal) as [Hp Hi].
    split; [exact Hal|split; [exact Hp|exact Hi]]. }
  split; [exact Hperm|].
  split.
  { pose proof (queue_bounded_lemma cap items tr0 s0 Hr0) as Hb. unfold occupied in Hb. lia. }
  split.
  { split.
    - intros Hy. apply Permutation_length in Hy. apply Permutation_length in Hperm.
      rewrite app_length in Hperm. destruct (vis s0); [reflexivity|simpl in Hperm; lia].
    - intros Hv. rewrite Hv, app_nil_r in Hperm. exact Hperm. }
  split.
  { intros Hv. destruct Hp0 as [Hpc|Hpc]; [|exact Hpc].
    exfalso. apply Hv. exact (proj2 (Hd Hpc Hrf0)). }
  intros Hpc. rewrite Htr, qrun_app, Hr0. simpl. rewrite Hpc, Hrf0. subst s. reflexivity.
Qed.

(* ================= a losing interleaving exists for EVERY non-empty workload ================= *)

Lemma qrun_cons : forall cap s a r,
  qrun cap s (a :: r) = match step cap s a with Some s' => qrun cap s' r | None => None end.
Proof. reflexivity. Qed.
Lemma qrun_nodrain_cons : forall cap s a r,
  qrun_nodrain cap s (a :: r) = match step_nodrain cap s a with Some s' => qrun_nodrain cap s' r | None => None end.
Proof. reflexivity. Qed.

Lemma sched_until : forall cap items, (0 < cap)%nat -> forall n s, (mu s <= n)%nat -> Inv items s ->
  pc s <> Exited -> (1 <= pend_total (ws s))%nat ->
  exists tr s', qrun cap s tr = Some s' /\ Inv items s' /\ pc s' <> Exited /\
    pend_total (ws s') = 1%nat /\ in_flight (ws s') = 0%nat /\ vis s' = [].
Proof.
  intros cap items Hcap n; induction n as [|n IH]; intros s Hmu HI Hne Hp.
  - exfalso. apply Hne. apply mu_zero_exited. lia.
  - destruct (Nat.eq_dec (pend_total (ws s)) 1) as [E1|N1];
      [destruct (Nat.eq_dec (in_flight (ws s)) 0) as [E2|N2]; [destruct (vis s) as [|v vr] eqn:Ev|]|].
    1:{ exists [], s. simpl. split; [reflexivity|]. split; [exact HI|]. split; [exact Hne|]. repeat split; assumption. }
    all: (destruct (sched_decreases cap items s Hcap HI Hne) as [a [s1 (Hs & Hst & Hlt & Hle & Hdec & Hex)]];
          assert (Hp1 : (1 <= pend_total (ws s1))%nat)
            by (destruct (Nat.eq_dec (pend_total (ws s1)) (pend_total (ws s))) as [Eq|Nq];
                [lia|assert (Hl : (pend_total (ws s1) < pend_total (ws s))%nat) by lia;
                     destruct (Hdec Hl) as [Hi0 Hv0]; try lia; try congruence]);
          assert (Hne1 : pc s1 <> Exited) by (intros He; specialize (Hex He); lia);
          assert (Hmu1 : (mu s1 <= n)%nat) by lia;
          destruct (IH s1 Hmu1 (step_Inv cap items s a s1 HI Hst) Hne1 Hp1) as [tr [s' (Hr & HI' & Hne' & G1 & G2 & G3)]];
          exists (a :: tr), s'; simpl; rewrite Hst; split; [exact Hr|]; split; [exact HI'|]; split; [exact Hne'|]; repeat split; assumption).
Qed.

Definition wempty (w : wst) : Prop := pend w = [] /\ infl w = [].

Lemma die_all : forall cap n s, alive_count (ws s) = n -> Forall wempty (ws s) ->
  exists tr s', qrun cap s tr = Some s' /\ all_dead (ws s') /\ vis s' = vis s /\ pc s' = pc s /\
    run_flag s' = run_flag s /\ yielded s' = yielded s.
Proof.
  intros cap n; induction n as [|n IH]; intros s Hn He.
  - exists [], s. simpl. split; [reflexivity|]. split; [|repeat split; reflexivity].
    destruct (find_idx alive (ws s)) as [k|] eqn:Fa.
    + destruct (find_idx_some _ _ _ Fa) as [w [Hk Hw]].
      pose proof (wsum_upd (fun w => if alive w then 1%nat else 0%nat) (ws s) k w w Hk) as H.
      exfalso. unfold alive_count in Hn.
      rewrite (nth_error_split_eq _ (ws s) k w Hk) in Hn. rewrite wsum_app in Hn. simpl in Hn.
      rewrite Hw in Hn. lia.
    + exact (find_idx_none _ _ Fa).
  - destruct (find_idx alive (ws s)) as [k|] eqn:Fa.
    + destruct (find_idx_some _ _ _ Fa) as [w [Hk Hw]].
      destruct (Forall_nth wempty _ _ _ He Hk) as [Hp Hi].
      assert (Hhp : has_pend w = false) by (unfold has_pend; rewrite Hp; reflexivity).
      assert (Hhi : has_infl w = false) by (unfold has_infl; rewrite Hi; reflexivity).
      destruct (die_effect cap s k w Hk Hhp Hhi Hw) as [s1 (Hs & [E1 E2 E3] & H1 & H2 & H3 & H4)].
      assert (He1 : Forall wempty (ws s1)).
      { simpl in Hs. rewrite Hk, Hp, Hi, Hw in Hs. injection Hs as Hs; subst s1. unfold set_ws; simpl.
        apply (Forall_upd wempty _ _ _ _ Hk He). split; reflexivity. }
      assert (Hn1 : alive_count (ws s1) = n) by lia.
      destruct (IH s1 Hn1 He1) as [tr [s' (Hr & Hd & G1 & G2 & G3 & G4)]].
      exists (Die k :: tr), s'. rewrite qrun_cons, Hs.
      split; [exact Hr|]. split; [exact Hd|]. repeat split; congruence.
    + exfalso. pose proof (find_idx_none _ _ Fa) as Hna.
      unfold alive_count in Hn. rewrite wsum_zero in Hn; [discriminate|].
      eapply Forall_impl; [|exact Hna]. intros w Hw. simpl in Hw. rewrite Hw. reflexivity.
Qed.

Lemma wsum_zero_inv : forall f l, wsum f l = 0%nat -> Forall (fun w => f w = 0%nat) l.
Proof.
  intros f l; induction l as [|a l IH]; simpl; intros H.
  - constructor.
  - constructor; [lia|apply IH; lia].
Qed.

Lemma all_empty : forall l, pend_total l = 0%nat -> in_flight l = 0%nat -> Forall wempty l.
Proof.
  intros l Hp Hi. unfold pend_total in Hp. rewrite in_flight_wsum in Hi.
  pose proof (wsum_zero_inv _ _ Hp) as H1. pose proof (wsum_zero_inv _ _ Hi) as H2.
  rewrite Forall_forall in *. intros w Hin. split.
  - specialize (H1 w Hin). simpl in H1. destruct (pend w); [reflexivity|discriminate].
  - specialize (H2 w Hin). simpl in H2. destruct (infl w); [reflexivity|discriminate].
Qed.

Theorem drain_needed_everywhere_lemma : forall cap items, (0 < cap)%nat -> concat items <> [] ->
  exists tr s, qrun_nodrain cap (init items) tr = Some s /\ pc s = Exited /\ vis s <> [] /\
    ~ Permutation (yielded s) (concat items).
Proof.
  intros cap items Hcap Hne.
  (* 1. run the scheduler until exactly one item is left, not yet put, and the queue is empty *)
  assert (Hp : (1 <= pend_total (ws (init items)))%nat).
  { simpl. unfold pend_total. rewrite wsum_init. simpl. rewrite length_concat_sum.
    destruct (concat items); [congruence|simpl; lia]. }
  assert (Hpc0 : pc (init items) <> Exited) by (simpl; discriminate).
  destruct (sched_until cap items Hcap (mu (init items)) (init items) (le_n _) (Inv_init items) Hpc0 Hp)
    as [tr1 [s1 (Hr1 & HI1 & Hne1 & P1 & F1 & V1)]].
  (* 2. bring the parent to the head of its loop *)
  assert (Hhead : exists tr2 s2, qrun cap s1 tr2 = Some s2 /\ Inv items s2 /\ pc s2 = Head /\
            pend_total (ws s2) = 1%nat /\ in_flight (ws s2) = 0%nat /\ vis s2 = []).
  { destruct (pc s1) eqn:Epc; [| |congruence].
    - exists [], s1. simpl. split; [reflexivity|]. split; [exact HI1|]. repeat split; assumption.
    - assert (Hst : step cap s1 EmptyTrue
                    = Some {| ws := ws s1; vis := []; run_flag := run_flag s1; pc := Head; yielded := yielded s1 |}).
      { simpl. rewrite Epc, V1. reflexivity. }
      eexists [EmptyTrue], _. rewrite qrun_cons, Hst. simpl qrun.
      split; [reflexivity|]. split; [exact (step_Inv cap items s1 _ _ HI1 Hst)|]. simpl.
      repeat split; assumption. }
  destruct Hhead as [tr2 [s2 (Hr2 & HI2 & Epc2 & P2 & F2 & V2)]].
  destruct HI2 as (Ha2 & Hq2 & Hc2 & Hd2 & He2).
  (* the worker that still has the item is alive, so the parent's flag is set *)
  destruct (find_idx has_pend (ws s2)) as [k|] eqn:Fp;
    [|pose proof (no_pend_total _ (find_idx_none _ _ Fp)); lia].
  destruct (find_idx_some _ _ _ Fp) as [w [Hk Hw]].
  assert (Hal : alive w = true).
  { destruct (alive w) eqn:Hal; [reflexivity|].
    destruct (Forall_nth quiet _ _ _ Hq2 Hk Hal) as [Hp0 _].
    unfold has_pend in Hw. rewrite Hp0 in Hw. discriminate. }
  assert (Erf2 : run_flag s2 = true).
  { destruct (run_flag s2) eqn:Erf; [reflexivity|].
    destruct (Hd2 Epc2 eq_refl) as [Hdd _]. pose proof (dead_nth _ _ _ Hdd Hk). congruence. }
  (* 3. Put and Flush of the last item *)
  assert (Hocc : (occupied s2 < cap)%nat) by (unfold occupied; rewrite F2, V2; simpl; lia).
  destruct (put_effect cap s2 k w Hk Hw Hal Hocc) as [s3 (Hs3 & [A1 A2 A3] & B1 & B2 & B3 & B4)].
  destruct (find_idx has_infl (ws s3)) as [k'|] eqn:Fi;
    [|pose proof (no_infl_in_flight _ (find_idx_none _ _ Fi)); lia].
  destruct (find_idx_some _ _ _ Fi) as [w' [Hk' Hw']].
  destruct (flush_effect cap s3 k' w' Hk' Hw') as [s4 (Hs4 & [C1 C2 C3] & D1 & D2 & D3 & D4)].
  (* 4. all workers end *)
  assert (He4 : Forall wempty (ws s4)) by (apply all_empty; lia).
  destruct (die_all cap _ s4 eq_refl He4) as [tr5 [s5 (Hr5 & Hd5 & G1 & G2 & G3 & G4)]].
  (* 5. the parent sees nobody alive and leaves *)
  assert (Epc5 : pc s5 = Head) by congruence.
  assert (Erf5 : run_flag s5 = true) by congruence.
  set (s6 := {| ws := ws s5; vis := vis s5; run_flag := existsb alive (ws s5); pc := Drain; yielded := yielded s5 |}).
  assert (Hs6 : step cap s5 Snapshot = Some s6) by (simpl; rewrite Epc5, Erf5; reflexivity).
  assert (Erf6 : run_flag s6 = false) by (simpl; apply no_alive_existsb; exact Hd5).
  assert (Hs7 : step_nodrain cap s6 Leave = Some (exit_now s6)).
  { unfold step_nodrain. simpl. simpl in Erf6. rewrite Erf6. reflexivity. }
  assert (Hv : vis s5 <> []).
  { rewrite G1. intros Hv. rewrite Hv in D4. simpl in D4. discriminate. }
  exists (tr1 ++ tr2 ++ [Put k; Flush k'] ++ tr5 ++ [Snapshot; Leave]), (exit_now s6).
  assert (Hrun : qrun_nodrain cap (init items) (tr1 ++ tr2 ++ [Put k; Flush k'] ++ tr5 ++ [Snapshot; Leave])
                 = Some (exit_now s6)).
  { rewrite qrun_nodrain_app, (qrun_is_nodrain_run _ _ _ _ Hr1).
    rewrite qrun_nodrain_app, (qrun_is_nodrain_run _ _ _ _ Hr2).
    rewrite qrun_nodrain_app.
    assert (H34 : qrun cap s2 [Put k; Flush k'] = Some s4) by (rewrite qrun_cons, Hs3, qrun_cons, Hs4; reflexivity).
    rewrite (qrun_is_nodrain_run _ _ _ _ H34).
    rewrite qrun_nodrain_app, (qrun_is_nodrain_run _ _ _ _ Hr5).
    rewrite qrun_nodrain_cons, (step_is_nodrain_step _ _ _ _ Hs6), qrun_nodrain_cons, Hs7. reflexivity. }
  split; [exact Hrun|]. split; [reflexivity|]. split; [exact Hv|].
  destruct (drain_needed_lemma cap items _ _ Hrun eq_refl)
    as [tr0 [s0 (_ & _ & Hs0 & _ & _ & _ & _ & Hiff & _)]].
  intros Hperm. apply Hiff in Hperm.
  assert (Hv0 : vis (exit_now s6) = vis s0) by (rewrite Hs0; reflexivity).
  simpl in Hv0. rewrite <- Hv0 in Hperm. exact (Hv Hperm).
Qed.

(* ================= the one-get-per-pass parent (seeded change C05-a) ================= *)

(* two workers, queue of two: both results are put and flushed and both workers are gone while the parent is busy with
   the caller; its next pass sees nobody alive, takes ONE result and leaves -- the other one is lost *)
Theorem oneget_refuted : exists cap items tr s,
  qrun_oneget cap (init items) tr = Some s /\ pc s = Exited /\ vis s <> [] /\
  ~ Permutation (yielded s) (concat items).
Proof.
  exists 2%nat, [[7%Z]; [8%Z]],
         [Snapshot; EmptyTrue; Put 0; Put 1; Flush 0; Flush 1; Die 0; Die 1; Snapshot; Get; Leave].
  eexists. split; [vm_compute; reflexivity|].
  split; [reflexivity|]. split; [discriminate|].
  simpl. intros H. apply Permutation_length in H. discriminate H.
Qed.

(* ================= the one-get-per-pass parent is safe with a queue of ONE slot ================= *)

Definition InvO (items : list (list Z)) (s : qst) : Prop := Inv items s /\ (occupied s <= 1)%nat.

Lemma step_oneget_cases : forall cap s a s', step_oneget cap s a = Some s' ->
  step cap s a = Some s' \/
  (exists x r, a = Get /\ pc s = Drain /\ vis s = x :: r /\
     s' = {| ws := ws s; vis := r; run_flag := run_flag s; pc := Head; yielded := yielded s ++ [x] |}).
Proof.
  intros cap s a s' H. unfold step_oneget in H.
  destruct a; try (left; exact H).
  destruct (pc s) eqn:Epc; try (left; exact H).
  destruct (vis s) as [|x r] eqn:Ev; [left; exact H|].
  injection H as H; subst s'. right. exists x, r. repeat split; reflexivity.
Qed.

Lemma step_oneget_InvO : forall items s a s', InvO items s -> step_oneget 1 s a = Some s' -> InvO items s'.
Proof.
  intros items s a s' [HI Hb] Hstep.
  destruct (step_oneget_cases 1 s a s' Hstep) as [Hreal|[x [r (Ha & Hpc & Hv & Hs')]]].
  - split; [exact (step_Inv 1 items s a s' HI Hreal)|exact (step_bounded 1 s a s' Hb Hreal)].
  - destruct HI as (Hp & Hq & Hc & Hd & He). subst s'.
    assert (Hr : r = []).
    { unfold occupied in Hb. rewrite Hv in Hb. simpl in Hb. destruct r; [reflexivity|simpl in Hb; lia]. }
    split.
    + unfold Inv; simpl. split; [|split; [exact Hq|split; [|split]]].
      * rewrite Hv in Hp. rewrite <- app_assoc. simpl. exact Hp.
      * intros Hx; discriminate.
      * intros _ Hrf. split; [exact (Hc Hpc Hrf)|exact Hr].
      * intros Hx; discriminate.
    + unfold occupied in *; simpl. rewrite Hv in Hb. simpl in Hb. lia.
Qed.

Lemma qrun_oneget_InvO : forall items tr s s', InvO items s -> qrun_oneget 1 s tr = Some s' -> InvO items s'.
Proof.
  intros items tr; induction tr as [|a tr IH]; intros s s' HI Hrun; simpl in Hrun.
  - injection Hrun as Hrun; subst s'. exact HI.
  - destruct (step_oneget 1 s a) as [s1|] eqn:Hs; [|discriminate].
    exact (IH s1 s' (step_oneget_InvO items s a s1 HI Hs) Hrun).
Qed.

Theorem oneget_single_slot_safe : forall items tr s,
  qrun_oneget 1 (init items) tr = Some s -> pc s = Exited ->
  Permutation (yielded s) (concat items) /\ vis s = [].
Proof.
  intros items tr s Hrun Hpc.
  assert (H0 : InvO items (init items)).
  { split; [apply Inv_init|]. unfold occupied, init; simpl. rewrite in_flight_init. simpl. lia. }
  destruct (qrun_oneget_InvO items tr _ s H0 Hrun) as [(Ha & Hb & _ & _ & He) _].
  destruct (He Hpc) as [Hdead Hvis].
  split; [|exact Hvis].
  rewrite Hvis in Ha. rewrite (flat_map_payload_dead _ Hb Hdead) in Ha.
  simpl in Ha. rewrite app_nil_r in Ha. exact Ha.
Qed.
