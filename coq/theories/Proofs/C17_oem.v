(* C17 -- lemmas about the definitions GENERATED from typhon/retrieval/oem (coq/gen/oem.v). *)
Set Warnings "-notation-overridden,-ambiguous-paths".
From mathcomp Require Import all_ssreflect all_algebra.
From TyphonGen Require Import oem.
From Typhon Require Import Model.C17_oem.
Set Implicit Arguments.
Unset Strict Implicit.
Import Order.TTheory GRing.Theory Num.Theory.
Local Open Scope ring_scope.

(* ------------------------------------------------------------------------------------------------ *)
(* Part 1: any field; invertibility of S_a, S_y, N, M as hypotheses                                  *)
Section Algebra.
Variable F : fieldType.
Variables m n : nat.
Variable K : 'M[F]_(m.+1, n.+1).
Variable Sa : 'M[F]_(n.+1).
Variable Sy : 'M[F]_(m.+1).

Local Notation N := (Nmx K Sa Sy).
Local Notation M := (Mmx K Sa Sy).
Local Notation S := (error_covariance_matrix K Sa Sy).
Local Notation G := (retrieval_gain_matrix K Sa Sy).
Local Notation A := (averaging_kernel_matrix K Sa Sy).

(* The only lemmas that look at the shape of the generated terms.  They normalise the association of the
   products and the order of the two summands, so harmless rewrites of the source keep them provable, while a
   wrong transpose / inverse / factor order does not. *)
Ltac oem_normalise :=
  rewrite /averaging_kernel_matrix /retrieval_noise /smoothing_error /retrieval_gain_matrix
          /error_covariance_matrix /Nmx ?mulmxA ?[invmx _ + _]addrC.

Lemma S_unfold : S = invmx N.
Proof. by oem_normalise. Qed.

Lemma G_unfold : G = invmx N *m K^T *m invmx Sy.
Proof. by oem_normalise. Qed.

Lemma A_unfold : A = G *m K.
Proof. by oem_normalise. Qed.

Lemma smoothing_unfold (x xa : 'cV[F]_(n.+1)) (B : 'M[F]_(n.+1)) :
  smoothing_error x xa B = B *m (x - xa).
Proof. by oem_normalise. Qed.

Lemma noise_unfold (e : 'cV[F]_(m.+1)) : retrieval_noise K Sa Sy e = G *m e.
Proof. by oem_normalise. Qed.

Lemma G_is_S_KT_Syinv : G = S *m K^T *m invmx Sy.
Proof. by rewrite G_unfold S_unfold. Qed.

Hypothesis Sa_u : Sa \in unitmx.
Hypothesis Sy_u : Sy \in unitmx.

(* K^T Sy^-1 M = N Sa K^T : the heart of the push-through identity *)
Lemma push_through_key : K^T *m invmx Sy *m M = N *m (Sa *m K^T).
Proof.
rewrite /Mmx /Nmx mulmxDr mulmxDl.
rewrite (mulmxA (invmx Sa)) (mulVmx Sa_u) mul1mx.
rewrite -[K^T *m invmx Sy *m Sy]mulmxA (mulVmx Sy_u) mulmx1.
by rewrite !mulmxA.
Qed.

Hypothesis N_u : N \in unitmx.

Lemma S_N : S *m N = 1%:M.
Proof. by rewrite S_unfold (mulVmx N_u). Qed.

Lemma N_S : N *m S = 1%:M.
Proof. by rewrite S_unfold (mulmxV N_u). Qed.

(* A = I - S Sa^-1 *)
Lemma A_eq_I_minus : A = 1%:M - S *m invmx Sa.
Proof.
rewrite A_unfold G_is_S_KT_Syinv -!mulmxA.
have -> : K^T *m (invmx Sy *m K) = N - invmx Sa by rewrite /Nmx !mulmxA addrK.
by rewrite mulmxBr S_N.
Qed.

(* S = Sa - A Sa *)
Lemma S_eq_Sa_minus_A_Sa : S = Sa - A *m Sa.
Proof.
rewrite A_eq_I_minus mulmxBl mul1mx -mulmxA (mulVmx Sa_u) mulmx1.
by rewrite opprB addrC subrK.
Qed.

Hypothesis M_u : M \in unitmx.

(* the push-through identity: n-form gain = m-form gain *)
Lemma G_m_form : G = Sa *m K^T *m invmx M.
Proof.
rewrite G_unfold.
have -> : invmx N *m K^T *m invmx Sy = invmx N *m (K^T *m invmx Sy *m M) *m invmx M.
  by rewrite -!mulmxA (mulmxV M_u) mulmx1.
rewrite push_through_key.
by rewrite [invmx N *m (N *m _)]mulmxA (mulVmx N_u) mul1mx.
Qed.

(* Woodbury form of the posterior covariance *)
Lemma S_woodbury : S = Sa - Sa *m K^T *m invmx M *m K *m Sa.
Proof. by rewrite {1}S_eq_Sa_minus_A_Sa A_unfold G_m_form. Qed.

Lemma S_sym : Sa^T = Sa -> Sy^T = Sy -> S^T = S.
Proof.
move=> hSa hSy; rewrite S_unfold trmx_inv; congr invmx.
by rewrite /Nmx linearD /= !trmx_mul !trmx_inv trmxK hSa hSy mulmxA.
Qed.

End Algebra.

(* ------------------------------------------------------------------------------------------------ *)
(* Part 2: quadratic forms over an ordered field                                                     *)
Section Forms.
Variable F : realFieldType.

Lemma qfD n (P Q : 'M[F]_n) x : qf (P + Q) x = qf P x + qf Q x.
Proof. by rewrite /qf mulmxDr mulmxDl mxE. Qed.

Lemma qfN n (P : 'M[F]_n) x : qf (- P) x = - qf P x.
Proof. by rewrite /qf mulmxN mulNmx mxE. Qed.

Lemma qfB n (P Q : 'M[F]_n) x : qf (P - Q) x = qf P x - qf Q x.
Proof. by rewrite qfD qfN. Qed.

(* congruence: x^T (C^T P C) x = (C x)^T P (C x) *)
Lemma qf_congr p n (C : 'M[F]_(p, n)) (P : 'M[F]_p) x : qf (C^T *m P *m C) x = qf P (C *m x).
Proof. by rewrite /qf trmx_mul !mulmxA. Qed.

Lemma posdef_semidef n (P : 'M[F]_n) : posdef P -> possemidef P.
Proof.
move=> pd x; case: (eqVneq x 0) => [->|xn0]; last exact: ltW (pd x xn0).
by rewrite /qf mulmx0 mxE.
Qed.

Lemma semidef_congr p n (C : 'M[F]_(p, n)) (P : 'M[F]_p) : possemidef P -> possemidef (C^T *m P *m C).
Proof. by move=> psd x; rewrite qf_congr. Qed.

Lemma posdefD n (P Q : 'M[F]_n) : posdef P -> possemidef Q -> posdef (P + Q).
Proof. by move=> pd psd x xn0; rewrite qfD; apply: ltr_paddr (psd x) (pd x xn0). Qed.

Lemma semidefD_pos n (P Q : 'M[F]_n) : possemidef P -> posdef Q -> posdef (P + Q).
Proof. by move=> psd pd; rewrite addrC; apply: posdefD. Qed.

(* a positive definite matrix is invertible: v M = 0 forces v M v^T = 0, hence v = 0 *)
Lemma posdef_unit n (P : 'M[F]_n) : posdef P -> P \in unitmx.
Proof.
move=> pd; rewrite -row_free_unit -kermx_eq0; apply/rowV0P => v /sub_kermxP vP.
apply/eqP/negPn/negP => vn0.
have := pd v^T; rewrite trmx_eq0 => /(_ vn0).
by rewrite /qf trmxK vP mul0mx mxE ltxx.
Qed.

Lemma sym_inv n (P : 'M[F]_n) : symmetric P -> symmetric (invmx P).
Proof. by rewrite /symmetric => hP; rewrite trmx_inv hP. Qed.

(* the inverse of an SPD matrix is SPD: x^T P^-1 x = y^T P y with y = P^-1 x *)
Lemma spd_inv n (P : 'M[F]_n) : spd P -> spd (invmx P).
Proof.
case=> sP pd; split; first exact: sym_inv.
have uP := posdef_unit pd.
move=> x xn0; set y := invmx P *m x.
have yn0 : y != 0.
  apply/negP => /eqP y0; move/negP: xn0; apply.
  by rewrite -[x]mul1mx -(mulmxV uP) -mulmxA -/y y0 mulmx0.
have -> : qf (invmx P) x = qf P y.
  rewrite /qf /y trmx_mul (sym_inv sP) -!mulmxA.
  by rewrite [P *m (invmx P *m x)]mulmxA (mulmxV uP) mul1mx.
exact: pd.
Qed.

Lemma spd_unit n (P : 'M[F]_n) : spd P -> P \in unitmx.
Proof. by case=> _; exact: posdef_unit. Qed.

End Forms.

(* ------------------------------------------------------------------------------------------------ *)
(* Part 3: the OEM matrices for SPD covariances -- no invertibility hypotheses left                   *)
Section OEM_spd.
Variable F : realFieldType.
Variables m n : nat.
Variable K : 'M[F]_(m.+1, n.+1).
Variable Sa : 'M[F]_(n.+1).
Variable Sy : 'M[F]_(m.+1).
Hypothesis Sa_spd : spd Sa.
Hypothesis Sy_spd : spd Sy.

Local Notation N := (Nmx K Sa Sy).
Local Notation M := (Mmx K Sa Sy).
Local Notation S := (error_covariance_matrix K Sa Sy).
Local Notation G := (retrieval_gain_matrix K Sa Sy).
Local Notation A := (averaging_kernel_matrix K Sa Sy).

Lemma N_spd : spd N.
Proof.
have [sSa' pSa'] := spd_inv Sa_spd; have [sSy' pSy'] := spd_inv Sy_spd.
split.
  by rewrite /symmetric /Nmx linearD /= !trmx_mul trmxK sSa' sSy' mulmxA.
apply: semidefD_pos pSa'; apply: semidef_congr; exact: posdef_semidef.
Qed.

Lemma M_spd : spd M.
Proof.
have [sSa pSa] := Sa_spd; have [sSy pSy] := Sy_spd.
split.
  by rewrite /symmetric /Mmx linearD /= !trmx_mul trmxK sSa sSy mulmxA.
apply: semidefD_pos pSy.
have -> : K *m Sa *m K^T = (K^T)^T *m Sa *m K^T by rewrite trmxK.
apply: semidef_congr; exact: posdef_semidef.
Qed.

Let Sa_u := spd_unit Sa_spd.
Let Sy_u := spd_unit Sy_spd.
Let N_u := spd_unit N_spd.
Let M_u := spd_unit M_spd.

Lemma spd_S_defining : S *m N = 1%:M /\ N *m S = 1%:M.
Proof. by split; [exact: S_N | exact: N_S]. Qed.

Lemma spd_S_spd : spd S.
Proof. by rewrite S_unfold; apply: spd_inv; exact: N_spd. Qed.

Lemma spd_G_m_form : G = Sa *m K^T *m invmx M.
Proof. exact: G_m_form. Qed.

Lemma spd_A_eq_I_minus : A = 1%:M - S *m invmx Sa.
Proof. exact: A_eq_I_minus. Qed.

(* S <= Sa: x^T (Sa - S) x = (K Sa x)^T M^-1 (K Sa x) >= 0 *)
Lemma spd_S_le_Sa : loewner_le S Sa.
Proof.
have [sSa _] := Sa_spd.
have [_ pM'] := spd_inv M_spd.
rewrite /loewner_le (S_woodbury Sa_u Sy_u N_u M_u) opprB addrC subrK.
have -> : Sa *m K^T *m invmx M *m K *m Sa = (K *m Sa)^T *m invmx M *m (K *m Sa).
  by rewrite trmx_mul sSa !mulmxA.
apply: semidef_congr; exact: posdef_semidef.
Qed.

(* every eigenvalue of A that lies in F is in [0, 1)   (mathcomp's eigenvalue: v A = a v for some v != 0) *)
Lemma spd_A_eigenvalue_bounds a : eigenvalue A a -> 0 <= a < 1.
Proof.
case/eigenvalueP => v vA vn0.
have [_ pS] := spd_S_spd; have [_ pSa] := Sa_spd.
set x := v^T; have xn0 : x != 0 by rewrite trmx_eq0.
(* v S = (1 - a) v Sa *)
have key : v *m S = (1 - a) *: (v *m Sa).
  have : v *m (S *m invmx Sa) = (1 - a) *: v.
    by rewrite scalerBl scale1r -vA spd_A_eq_I_minus mulmxBr mulmx1 opprB addrC subrK.
  move/(congr1 (fun w => w *m Sa)).
  by rewrite -!mulmxA (mulVmx Sa_u) mulmx1 -scalemxAl.
have qS : qf S x = (1 - a) * qf Sa x.
  by rewrite /qf /x trmxK key -scalemxAl mxE.
have hS := pS x xn0; have hSa := pSa x xn0.
have hle : 0 <= qf (Sa - S) x := spd_S_le_Sa x.
rewrite qfB qS in hle; rewrite qS in hS.
apply/andP; split.
  have : 0 <= a * qf Sa x by rewrite mulrBl mul1r opprB addrC subrK in hle.
  by rewrite pmulr_lge0.
by rewrite -subr_gt0 -(pmulr_lgt0 _ hSa).
Qed.

End OEM_spd.

(* ------------------------------------------------------------------------------------------------ *)
(* Part 4: a family of correlated SPD matrices (non-vacuity of the hypotheses)                       *)
Section Gram.

Variable F : realFieldType.
Lemma posdef_1 n : posdef (1%:M : 'M[F]_n).
Proof.
move=> x xn0; rewrite /qf mulmx1 mxE.
have ge0 : forall i, true -> 0 <= x^T 0 i * x i 0 by move=> i _; rewrite mxE -expr2 sqr_ge0.
rewrite lt0r sumr_ge0 // andbT.
apply/negP => /eqP s0; move/negP: xn0; apply; apply/eqP/matrixP => i j.
have := psumr_eq0P ge0 s0; move/(_ i isT); rewrite !mxE ord1 => /eqP.
by rewrite mulf_eq0 orbb => /eqP.
Qed.
Lemma spd_gram p n (C : 'M[F]_(p, n)) : spd (C^T *m C + 1%:M).
Proof.
split; first by rewrite /symmetric linearD /= trmx_mul trmxK trmx1.
apply: semidefD_pos (@posdef_1 n).
have -> : C^T *m C = C^T *m 1%:M *m C by rewrite mulmx1.
apply: semidef_congr; apply: posdef_semidef; exact: posdef_1.
Qed.
End Gram.

(* ------------------------------------------------------------------------------------------------ *)
(* Part 5: the two limits as explicit bounds that are linear in the scaling factor *)
Section Limits.
Variable F : realFieldType.

Lemma qfZ n (a : F) (P : 'M[F]_n) x : qf (a *: P) x = a * qf P x.
Proof. by rewrite /qf -scalemxAr -scalemxAl mxE. Qed.

Lemma spdZ n (a : F) (P : 'M[F]_n) : 0 < a -> spd P -> spd (a *: P).
Proof.
move=> a0 [sP pP]; split; first by rewrite /symmetric linearZ /= sP.
by move=> x xn0; rewrite qfZ; apply: mulr_gt0 (pP x xn0).
Qed.

Lemma invmxZ_spd n (a : F) (P : 'M[F]_n) : 0 < a -> spd P -> invmx (a *: P) = a^-1 *: invmx P.
Proof. by move=> a0 sP; apply: invmxZ; apply: spd_unit; apply: spdZ. Qed.

Variables m n : nat.
Variable K : 'M[F]_(m.+1, n.+1).
Variable Sa : 'M[F]_(n.+1).
Variable Sy : 'M[F]_(m.+1).
Hypothesis Sa_spd : spd Sa.
Hypothesis Sy_spd : spd Sy.

Local Notation B := (K^T *m invmx Sy *m K).

(* A = S (K^T Sy^-1 K) *)
Lemma A_is_S_B : averaging_kernel_matrix K Sa Sy = error_covariance_matrix K Sa Sy *m B.
Proof. by rewrite A_unfold G_is_S_KT_Syinv !mulmxA. Qed.

(* vanishing prior: with Sa replaced by d Sa, A = S_d B and 0 <= x^T S_d x <= d x^T Sa x *)
Lemma prior_scaling_bound (d : F) : 0 < d ->
  let S_d := error_covariance_matrix K (d *: Sa) Sy in
  averaging_kernel_matrix K (d *: Sa) Sy = S_d *m B /\
  forall x : 'cV[F]_(n.+1), 0 <= qf S_d x <= d * qf Sa x.
Proof.
move=> d0 /=; have dSa := spdZ d0 Sa_spd.
split; first by rewrite A_unfold G_is_S_KT_Syinv !mulmxA.
move=> x; apply/andP; split.
  have [_ pS] := spd_S_spd K dSa Sy_spd; exact: posdef_semidef pS x.
by have := spd_S_le_Sa K dSa Sy_spd x; rewrite qfB qfZ subr_ge0.
Qed.

(* vanishing measurement noise, K of full column rank: with Sy replaced by e Sy,
   I - A = S_e Sa^-1 and 0 <= x^T S_e x <= e x^T (K^T Sy^-1 K)^-1 x *)
Hypothesis K_full : forall x : 'cV[F]_(n.+1), x != 0 -> K *m x != 0.

Lemma B_spd : spd B.
Proof.
have [sY pY] := spd_inv Sy_spd; split.
  by rewrite /symmetric !trmx_mul trmxK sY mulmxA.
by move=> x xn0; rewrite qf_congr; apply: pY; apply: K_full.
Qed.

Lemma noise_scaling_bound (e : F) : 0 < e ->
  let S_e := error_covariance_matrix K Sa (e *: Sy) in
  averaging_kernel_matrix K Sa (e *: Sy) = 1%:M - S_e *m invmx Sa /\
  forall x : 'cV[F]_(n.+1), 0 <= qf S_e x <= e * qf (invmx B) x.
Proof.
move=> e0 /=; have eSy := spdZ e0 Sy_spd.
split; first exact: spd_A_eq_I_minus.
have P_spd : spd (e *: invmx B) by apply: spdZ e0 _; apply: spd_inv; exact: B_spd.
(* the same matrix as the posterior covariance of the problem (K := I, prior := e B^-1, noise := Sa) *)
have -> : error_covariance_matrix K Sa (e *: Sy)
        = error_covariance_matrix (1%:M : 'M[F]_(n.+1)) (e *: invmx B) Sa.
  rewrite !S_unfold /Nmx; congr invmx.
  rewrite trmx1 mulmx1 mul1mx (invmxZ_spd e0 Sy_spd) (invmxZ_spd e0 (spd_inv B_spd)) invmxK.
  by rewrite -scalemxAr -scalemxAl addrC.
move=> x; apply/andP; split.
  have [_ pS] := spd_S_spd (1%:M : 'M[F]_(n.+1)) P_spd Sa_spd; exact: posdef_semidef pS x.
by have := spd_S_le_Sa (1%:M : 'M[F]_(n.+1)) P_spd Sa_spd x; rewrite qfB qfZ subr_ge0.
Qed.

End Limits.
