(* C20 -- robustness margin: lemmas (statements used by Props/C20.v). *)
From Coq Require Import ZArith List Bool String Lia ZifyBool.
From TyphonGen Require Import C20_tiles.
From Typhon Require Import Model.C20_srtm Proofs.C20_srtm Model.C20_margin.
Import ListNotations.
Open Scope Z_scope.

(* ------------------------------------------------------------------ trunc inside a cell *)

Lemma trunc_cell : forall num D k, 0 < D -> 0 <= k -> k * D <= num < (k + 1) * D -> trunc num D = k.
Proof.
  intros num D k HD Hk [H1 H2].
  assert (Hn : 0 <= num) by nia.
  pose proof (trunc_spec num D HD Hn) as [T1 T2].
  assert (trunc num D < k + 1) by (apply (mul_le_lt_cancel _ _ num D); lia).
  assert (k < trunc num D + 1) by (apply (mul_le_lt_cancel _ _ num D); lia).
  lia.
Qed.

(* the four indices are functions of the cells the corners lie in (corners strictly inside their cells) *)
Lemma row_top_cell : forall r k, 0 < rD r -> k < 10800 ->
  k * rD r < 120 * rlat1 r < (k + 1) * rD r -> row_top r = 10800 - k.
Proof.
  intros r k HD Hk [H1 H2]. unfold row_top.
  rewrite (trunc_cell _ _ (10800 - k - 1)); [lia|assumption|lia|unfold rowq; nia].
Qed.

Lemma row_bot_cell : forall r k, 0 < rD r -> k < 10800 ->
  k * rD r < 120 * rlat0 r < (k + 1) * rD r -> row_bot r = 10800 - k.
Proof.
  intros r k HD Hk [H1 H2]. unfold row_bot. cbv zeta.
  rewrite (trunc_cell _ _ (10800 - k - 1)); [|assumption|lia|unfold rowq; nia].
  destruct ((10800 - k - 1) * rD r <? rowq (rD r) (rlat0 r)) eqn:E; [lia|].
  unfold rowq in E. apply Z.ltb_ge in E. nia.
Qed.

Lemma col_left_cell : forall r k, 0 < rD r -> -21600 <= k ->
  k * rD r < 120 * rlon0 r < (k + 1) * rD r -> col_left r = k + 21600.
Proof.
  intros r k HD Hk [H1 H2]. unfold col_left.
  rewrite (trunc_cell _ _ (k + 21600)); [lia|assumption|lia|unfold colq; nia].
Qed.

Lemma col_right_cell : forall r k, 0 < rD r -> -21600 <= k ->
  k * rD r < 120 * rlon1 r < (k + 1) * rD r -> col_right r = k + 21600.
Proof.
  intros r k HD Hk [H1 H2]. unfold col_right. cbv zeta.
  rewrite (trunc_cell _ _ (k + 21600)); [|assumption|lia|unfold colq; nia].
  destruct ((k + 21600) * rD r <? colq (rD r) (rlon1 r)) eqn:E; [lia|].
  unfold colq in E. apply Z.ltb_ge in E. nia.
Qed.

(* ------------------------------------------------------------------ same cells => same block *)

Lemma same_cells_same_indices : forall r r', in_coverage r -> 0 < rD r' -> rect_same_cells r r' ->
  row_top r' = row_top r /\ row_bot r' = row_bot r /\ col_left r' = col_left r /\ col_right r' = col_right r.
Proof.
  intros r r' (HD & H1 & H2 & H3 & H4 & H5 & H6) HD'
         ((k0 & A0 & B0) & (l0 & C0 & E0) & (k1 & A1 & B1) & (l1 & C1 & E1)).
  assert (k0 < 10800) by (apply (mul_lt_cancel _ _ (rD r)); lia).
  assert (k1 < 10800) by (apply (mul_lt_cancel _ _ (rD r)); lia).
  assert (-21600 < l0 + 1) by (apply (mul_lt_cancel _ _ (rD r)); lia).
  assert (-21600 < l1 + 1) by (apply (mul_lt_cancel _ _ (rD r)); lia).
  rewrite (row_top_cell r k1), (row_top_cell r' k1), (row_bot_cell r k0), (row_bot_cell r' k0),
          (col_left_cell r l0), (col_left_cell r' l0), (col_right_cell r l1), (col_right_cell r' l1);
    try assumption; try lia.
Qed.

Lemma same_cells_same_block : forall r r', in_coverage r -> 0 < rD r' -> rect_same_cells r r' ->
  native_lats r' = native_lats r /\ native_lons r' = native_lons r /\
  (forall dem, elevation dem r' = elevation dem r) /\ elevation_tiles r' = elevation_tiles r.
Proof.
  intros r r' Hc HD' Hs.
  destruct (same_cells_same_indices r r' Hc HD' Hs) as (E1 & E2 & E3 & E4).
  assert (La : native_lats r' = native_lats r) by (unfold native_lats; rewrite E1, E2; reflexivity).
  assert (Lo : native_lons r' = native_lons r) by (unfold native_lons; rewrite E3, E4; reflexivity).
  repeat split; try assumption.
  - intros dem. unfold elevation. rewrite La, Lo. reflexivity.
  - unfold elevation_tiles. rewrite La, Lo. reflexivity.
Qed.

(* ------------------------------------------------------------------ the margin *)

(* the cell of x: k = floor(120 n / D) *)
Lemma off_edges_cell : forall M D n, 0 < M -> 0 < D -> off_edges M D n ->
  let k := (120 * n) / D in
  120 * D < M * (120 * n - k * D) /\ 120 * D < M * ((k + 1) * D - 120 * n).
Proof.
  intros M D n HM HD Hoff k.
  pose proof (Z.mul_div_le (120 * n) D HD) as L1.
  pose proof (Z.mul_succ_div_gt (120 * n) D HD) as L2.
  fold k in L1, L2.
  pose proof (Hoff k) as P1. pose proof (Hoff (k + 1)) as P2. clearbody k.
  rewrite Z.abs_eq in P1 by lia.
  rewrite Z.abs_neq in P2 by lia.
  split; lia.
Qed.

Lemma margin_same_cell : forall M D n D' n', 0 < M -> 0 < D -> 0 < D' ->
  off_edges M D n -> within M D n D' n' -> same_cell D n D' n'.
Proof.
  intros M D n D' n' HM HD HD' Hoff Hw.
  destruct (off_edges_cell M D n HM HD Hoff) as [P1 P2].
  set (k := (120 * n) / D) in *. clearbody k. exists k.
  unfold within in Hw.
  assert (W1 : M * (n' * D - n * D') <= D * D').
  { apply Z.le_trans with (2 := Hw). apply Z.mul_le_mono_nonneg_l; lia. }
  assert (W2 : M * (n * D' - n' * D) <= D * D').
  { apply Z.le_trans with (2 := Hw). apply Z.mul_le_mono_nonneg_l; lia. }
  assert (Q1 : 0 < 120 * n - k * D) by nia.
  assert (Q2 : 0 < (k + 1) * D - 120 * n) by nia.
  split; [lia|].
  (* M D (120 n' - k D') = 120 M (n' D - n D') + M D' (120 n - k D) > -120 D D' + 120 D D' *)
  split.
  - apply (mul_lt_cancel _ _ (M * D)); [nia|].
    assert (X : M * D' * (120 * n - k * D) > 120 * D * D') by nia.
    nia.
  - apply (mul_lt_cancel _ _ (M * D)); [nia|].
    assert (X : M * D' * ((k + 1) * D - 120 * n) > 120 * D * D') by nia.
    nia.
Qed.

Lemma off_edges_b_spec : forall M D n, 0 < M -> 0 < D -> off_edges_b M D n = true <-> off_edges M D n.
Proof.
  intros M D n HM HD. unfold off_edges_b. cbv zeta.
  pose proof (Z.mod_pos_bound (120 * n) D HD) as Hm.
  pose proof (Z.div_mod (120 * n) D ltac:(lia)) as Hdm.
  set (m := (120 * n) mod D) in *. set (q := (120 * n) / D) in *.
  split.
  - intros Hb k. apply andb_prop in Hb. destruct Hb as [B1 B2].
    apply Z.ltb_lt in B1. apply Z.ltb_lt in B2.
    assert (E : 120 * n - k * D = (q - k) * D + m) by lia.
    rewrite E.
    destruct (Z_lt_le_dec k (q + 1)) as [Hk|Hk].
    + (* k <= q : distance >= m *)
      assert (0 <= (q - k) * D) by nia.
      rewrite Z.abs_eq by lia. nia.
    + (* k >= q + 1 : distance >= D - m *)
      assert ((q - k) * D <= - D) by nia.
      rewrite Z.abs_neq by lia. nia.
  - intros Hoff. destruct (off_edges_cell M D n HM HD Hoff) as [P1 P2]. fold q in P1, P2.
    apply andb_true_intro. split; apply Z.ltb_lt; [|]; nia.
Qed.

Lemma robust_margin_gen : forall M r r', 0 < M -> in_coverage r -> rect_off_edges M r -> rect_within M r r' ->
  native_lats r' = native_lats r /\ native_lons r' = native_lons r /\
  (forall dem, elevation dem r' = elevation dem r) /\ elevation_tiles r' = elevation_tiles r.
Proof.
  intros M r r' HM Hc (O0 & O1 & O2 & O3) (HD' & W0 & W1 & W2 & W3).
  assert (HD : 0 < rD r) by (destruct Hc; assumption).
  apply same_cells_same_block; [assumption|assumption|].
  unfold rect_same_cells.
  split; [exact (margin_same_cell M _ _ _ _ HM HD HD' O0 W0)|].
  split; [exact (margin_same_cell M _ _ _ _ HM HD HD' O1 W1)|].
  split; [exact (margin_same_cell M _ _ _ _ HM HD HD' O2 W2)|].
  exact (margin_same_cell M _ _ _ _ HM HD HD' O3 W3).
Qed.

Lemma rect_off_edges_b_spec : forall M r, 0 < M -> 0 < rD r -> rect_off_edges_b M r = true <-> rect_off_edges M r.
Proof.
  intros M r HM HD. unfold rect_off_edges_b, rect_off_edges.
  rewrite !andb_true_iff, !off_edges_b_spec by assumption. tauto.
Qed.

Lemma rect_within_b_spec : forall M r r', rect_within_b M r r' = true <-> rect_within M r r'.
Proof.
  intros M r r'. unfold rect_within_b, rect_within, within_b, within.
  rewrite !andb_true_iff, Z.ltb_lt, !Z.leb_le. tauto.
Qed.

Lemma robust_margin_covers : forall M r r', 0 < M -> in_coverage r -> rect_off_edges M r -> rect_within M r r' ->
  native_lats r' = native_lats r /\ native_lons r' = native_lons r /\
  (forall dem, elevation dem r' = elevation dem r) /\ elevation_tiles r' = elevation_tiles r /\
  grid_ok r (native_lats r') (native_lons r') = true.
Proof.
  intros M r r' HM Hc Ho Hw.
  destruct (robust_margin_gen M r r' HM Hc Ho Hw) as (La & Lo & E & T).
  repeat split; try assumption.
  rewrite La, Lo. apply native_grid_ok. assumption.
Qed.

Lemma margin_needed :
  let r := mkRect 1 10 10 11 11 in
  let r' := mkRect (2 ^ 41) (10 * 2 ^ 41 - 1) (10 * 2 ^ 41) (11 * 2 ^ 41) (11 * 2 ^ 41) in
  in_coverage r /\ rect_within_b margin40 r r' = true /\ rect_off_edges_b margin40 r = false /\
  List.length (native_lats r) = 120%nat /\ List.length (native_lats r') = 121%nat.
Proof. vm_compute. repeat split; try reflexivity; discriminate. Qed.
